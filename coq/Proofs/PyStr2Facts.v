(* Facts about Lib/PyStr2.v and the number <-> text functions of Lib/PyStr.v *)
From Coq Require Import ZArith List Bool Lia.
From Verif Require Import Lib.Sx Lib.PyStr Lib.PyStr2 Gen.Unicode Proofs.PyStrFacts Proofs.CivilSweep.
Import ListNotations.
Open Scope Z_scope.

Lemma decimal_ranges_head : exists r, decimal_ranges = (48, 57) :: r.
Proof. eexists. vm_compute. reflexivity. Qed.

Lemma ascii_digit_is_decimal c : is_ascii_digit c = true -> is_decimal_char c = true.
Proof.
  unfold is_ascii_digit, is_decimal_char, in_ranges. intro H.
  destruct decimal_ranges_head as [r ->]. cbn. rewrite H. reflexivity.
Qed.

Lemma ascii_digit_decimal_val c : is_ascii_digit c = true -> decimal_val c = Some (c - 48).
Proof.
  unfold is_ascii_digit, decimal_val. intro H.
  destruct decimal_ranges_head as [r ->]. cbn [find fst snd]. rewrite H. cbn [fst].
  apply andb_true_iff in H as [H1 H2]. apply Z.leb_le in H1, H2.
  rewrite Z.mod_small by lia. reflexivity.
Qed.

Lemma digit_char_ascii k : 0 <= k <= 9 -> is_ascii_digit (48 + k) = true.
Proof. intro. unfold is_ascii_digit. apply andb_true_iff; split; apply Z.leb_le; lia. Qed.

Lemma mod10_digit x : is_ascii_digit (48 + x mod 10) = true.
Proof. apply digit_char_ascii. pose proof (Z.mod_pos_bound x 10). lia. Qed.

(* ---- str(n) ---- *)
Lemma digits_fuel_app f n acc : digits_fuel f n acc = digits_fuel f n [] ++ acc.
Proof.
  revert n acc. induction f as [|f IH]; intros n acc; cbn [digits_fuel]; [reflexivity|].
  destruct (n / 10 =? 0); [reflexivity|].
  rewrite (IH _ ((48 + n mod 10) :: acc)), (IH _ [48 + n mod 10]). rewrite <- app_assoc. reflexivity.
Qed.

Lemma digits_fuel_all_digits f n : forallb is_ascii_digit (digits_fuel f n []) = true.
Proof.
  revert n. induction f as [|f IH]; intro n; cbn [digits_fuel]; [reflexivity|].
  destruct (n / 10 =? 0).
  - cbn [forallb]. rewrite mod10_digit. reflexivity.
  - rewrite digits_fuel_app, forallb_app, IH. cbn [forallb]. rewrite mod10_digit. reflexivity.
Qed.

Lemma str_of_nonneg_digits n : forallb is_ascii_digit (str_of_nonneg n) = true.
Proof. apply digits_fuel_all_digits. Qed.

Lemma str_of_nonneg_nonempty n : str_of_nonneg n <> [].
Proof.
  unfold str_of_nonneg. cbn [digits_fuel]. destruct (n / 10 =? 0); [discriminate|].
  rewrite digits_fuel_app. intro H. apply app_eq_nil in H as [_ H]. discriminate.
Qed.

Lemma int_of_ascii_digits_snoc l c : int_of_ascii_digits (l ++ [c]) = int_of_ascii_digits l * 10 + (c - 48).
Proof. unfold int_of_ascii_digits. rewrite fold_left_app. reflexivity. Qed.

Lemma int_of_digits_fuel f n :
  0 <= n < 2 ^ Z.of_nat f -> int_of_ascii_digits (digits_fuel f n []) = n.
Proof.
  revert n. induction f as [|f IH]; intros n Hn.
  - cbn in Hn. assert (n = 0) by lia. subst. reflexivity.
  - cbn [digits_fuel]. destruct (n / 10 =? 0) eqn:E.
    + apply Z.eqb_eq in E. unfold int_of_ascii_digits. cbn [fold_left]. unfold digit_val.
      destruct Hn as [Hn0 _]. Z.div_mod_to_equations; lia.
    + rewrite digits_fuel_app, int_of_ascii_digits_snoc. rewrite IH.
      * Z.div_mod_to_equations; lia.
      * rewrite Nat2Z.inj_succ, Z.pow_succ_r in Hn by lia.
        split; [apply Z.div_pos; lia|]. apply Z.div_lt_upper_bound; lia.
Qed.

(* int(str(n)) = n for every n >= 0 *)
Lemma int_of_str_of_nonneg n : 0 <= n -> int_of_ascii_digits (str_of_nonneg n) = n.
Proof.
  intro Hn. unfold str_of_nonneg. apply int_of_digits_fuel.
  destruct (Z.eq_dec n 0) as [->|Hz]; [cbn; lia|].
  rewrite Nat2Z.inj_succ, Z2Nat.id by apply Z.log2_nonneg.
  pose proof (Z.log2_spec n ltac:(lia)). lia.
Qed.

Lemma str_of_Z_nonneg n : 0 <= n -> str_of_Z n = str_of_nonneg n.
Proof. intro. unfold str_of_Z. destruct (n <? 0) eqn:E; [apply Z.ltb_lt in E; lia|reflexivity]. Qed.

(* every character of str(n) is '-' or an ASCII digit *)
Lemma str_of_Z_chars n c : In c (str_of_Z n) -> c = 45 \/ is_ascii_digit c = true.
Proof.
  unfold str_of_Z. destruct (n <? 0).
  - intros [H|H]; [left; lia|right]. pose proof (str_of_nonneg_digits (- n)) as D.
    rewrite forallb_forall in D. apply D. exact H.
  - intro H. right. pose proof (str_of_nonneg_digits n) as D.
    rewrite forallb_forall in D. apply D. exact H.
Qed.

(* ---- four-digit years ---- *)
Definition digits4 (y : Z) : text :=
  [48 + (y / 1000) mod 10; 48 + (y / 100) mod 10; 48 + (y / 10) mod 10; 48 + y mod 10].

Lemma str4_sweep :
  forallb (fun y => text_eqb (str_of_Z y) (digits4 y) && (int_of_decimals (digits4 y) =? y))
          (zrange 1000 (Z.to_nat 9000)) = true.
Proof. vm_compute. reflexivity. Qed.

Lemma str_of_Z_4 y : 1000 <= y <= 9999 -> str_of_Z y = digits4 y.
Proof.
  intro H. pose proof (forallb_zrange _ _ _ str4_sweep y ltac:(lia)) as S. cbv beta in S.
  apply andb_true_iff in S as [S _]. apply text_eqb_eq. exact S.
Qed.

Lemma int_of_digits4 y : 1000 <= y <= 9999 -> int_of_decimals (digits4 y) = y.
Proof.
  intro H. pose proof (forallb_zrange _ _ _ str4_sweep y ltac:(lia)) as S. cbv beta in S.
  apply andb_true_iff in S as [_ S]. apply Z.eqb_eq. exact S.
Qed.

(* ---- two-digit fields ---- *)
Lemma two_digit_sweep :
  forallb (fun n => (int_of_decimals (zfill2 n) =? n) && (int_of_ascii_digits (zfill2 n) =? n)
                    && (int_of_decimals (spad2 n) =? n)) (zrange 0 100) = true.
Proof. vm_compute. reflexivity. Qed.

Lemma int_of_zfill2 n : 0 <= n <= 99 -> int_of_ascii_digits (zfill2 n) = n.
Proof.
  intro H. pose proof (forallb_zrange _ _ _ two_digit_sweep n ltac:(simpl; lia)) as S. cbv beta in S.
  apply andb_true_iff in S as [S _]. apply andb_true_iff in S as [_ S]. apply Z.eqb_eq. exact S.
Qed.

(* ---- strip / lstrip ---- *)
Lemma lstrip_cons_nonspace c s : is_space c = false -> lstrip (c :: s) = c :: s.
Proof. intro H. cbn. rewrite H. reflexivity. Qed.

Lemma lstrip_cons_space c s : is_space c = true -> lstrip (c :: s) = lstrip s.
Proof. intro H. cbn. rewrite H. reflexivity. Qed.

Lemma rstrip_app_nonempty a b : b <> [] -> rstrip b = b -> rstrip (a ++ b) = a ++ b.
Proof.
  intros Hne Hb. induction a as [|c a IH]; cbn [app]; [exact Hb|].
  cbn [rstrip]. rewrite IH. destruct (a ++ b) eqn:E; [|reflexivity].
  apply app_eq_nil in E as [_ E]. contradiction.
Qed.

Lemma rstrip_fixed_last s : s <> [] -> rstrip s = s -> is_space (last s 0) = false.
Proof. intros Hne H. rewrite <- H. apply rstrip_last_nonspace. rewrite H. exact Hne. Qed.
