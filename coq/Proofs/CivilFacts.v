(* Facts about Lib/Civil.v, for ALL Z:
   - civil_from_days and days_from_civil are mutually inverse (on valid dates), by one sweep of a
     400-year era (146097 days / 400*12*31 dates, vm_compute) lifted by the era decomposition;
   - epoch seconds <-> broken-down time round trips;
   - the closed form of days_from_civil and the order/length facts the ls-date proofs need. *)
From Coq Require Import ZArith List Bool Lia Znumtheory.
From Verif Require Import Lib.Sx Lib.Civil Proofs.CivilSweep.
Import ListNotations.
Open Scope Z_scope.

Lemma days_in_month_le31 y m : days_in_month y m <= 31.
Proof. unfold days_in_month. destruct (m =? 2); [destruct (is_leap y); lia|]. destruct (_ || _); lia. Qed.

(* ---- days <-> civil, for all Z ---- *)
Theorem days_from_civil_from_days z :
  let '(y, m, d) := civil_from_days z in
  days_from_civil y m d = z /\ valid_date y m d = true.
Proof.
  unfold civil_from_days.
  set (z' := z + 719468). set (era := z' / 146097). set (doe := z' - era * 146097).
  assert (Hdoe : 0 <= doe < 146097).
  { subst doe era. pose proof (Z.div_mod z' 146097). pose proof (Z.mod_pos_bound z' 146097). lia. }
  pose proof (check_doe_all doe Hdoe) as C. unfold check_doe in C.
  destruct (civil_of_doe doe) as [[yoe m] d].
  repeat (apply andb_true_iff in C as [C ?]).
  repeat match goal with H : (_ <=? _) = true |- _ => apply Z.leb_le in H end.
  match goal with H : (_ =? _) = true |- _ => apply Z.eqb_eq in H; rename H into Hd end.
  set (yfull := if m <=? 2 then yoe + era * 400 + 1 else yoe + era * 400).
  assert (Hy' : (if m <=? 2 then yfull - 1 else yfull) = yoe + era * 400).
  { subst yfull. destruct (m <=? 2); lia. }
  split.
  - unfold days_from_civil. rewrite Hy'.
    assert (E : (yoe + era * 400) / 400 = era) by (rewrite Z.div_add by lia; rewrite Z.div_small by lia; lia).
    rewrite E. replace (yoe + era * 400 - era * 400) with yoe by lia.
    unfold doe_of in Hd. subst doe z'. lia.
  - unfold valid_date.
    assert (Hdim : days_in_month yfull m = days_in_month (if m <=? 2 then yoe + 1 else yoe) m).
    { subst yfull. destruct (m <=? 2).
      - replace (yoe + era * 400 + 1) with (yoe + 1 + 400 * era) by lia. apply days_in_month_shift.
      - replace (yoe + era * 400) with (yoe + 400 * era) by lia. apply days_in_month_shift. }
    rewrite Hdim.
    repeat (apply andb_true_iff; split); apply Z.leb_le; lia.
Qed.

Theorem civil_from_days_from_civil y m d :
  valid_date y m d = true -> civil_from_days (days_from_civil y m d) = (y, m, d).
Proof.
  unfold valid_date. intro V.
  repeat (apply andb_true_iff in V as [V ?]).
  repeat match goal with H : (_ <=? _) = true |- _ => apply Z.leb_le in H end.
  set (y' := if m <=? 2 then y - 1 else y).
  set (era := y' / 400). set (yoe := y' - era * 400).
  assert (Hyoe : 0 <= yoe < 400).
  { subst yoe era. pose proof (Z.div_mod y' 400). pose proof (Z.mod_pos_bound y' 400). lia. }
  pose proof (days_in_month_le31 y m).
  pose proof (check_ymd_all yoe m d Hyoe ltac:(lia) ltac:(lia)) as C. unfold check_ymd in C.
  assert (Hdim : days_in_month (if m <=? 2 then yoe + 1 else yoe) m = days_in_month y m).
  { subst yoe y'. destruct (m <=? 2).
    - replace y with (y - 1 - era * 400 + 1 + 400 * era) at 2 by lia. symmetry. apply days_in_month_shift.
    - replace y with (y - era * 400 + 400 * era) at 2 by lia. symmetry. apply days_in_month_shift. }
  rewrite Hdim in C.
  apply orb_true_iff in C as [C|C].
  { apply negb_true_iff in C. apply Z.leb_gt in C. lia. }
  apply andb_true_iff in C as [C C3]. apply andb_true_iff in C as [C1 C2].
  apply Z.leb_le in C1. apply Z.ltb_lt in C2.
  unfold days_from_civil, civil_from_days. fold y'. fold era. fold yoe.
  change (yoe * 365 + yoe / 4 - yoe / 100 + doy_of_md m d) with (doe_of yoe m d).
  set (doe := doe_of yoe m d) in *.
  replace (era * 146097 + doe - 719468 + 719468) with (doe + era * 146097) by lia.
  assert (E : (doe + era * 146097) / 146097 = era) by (rewrite Z.div_add by lia; rewrite Z.div_small by lia; lia).
  rewrite E. replace (doe + era * 146097 - era * 146097) with doe by lia.
  destruct (civil_of_doe doe) as [[yoe' m'] d'].
  apply andb_true_iff in C3 as [C3 Cd]. apply andb_true_iff in C3 as [Cy Cm].
  apply Z.eqb_eq in Cy, Cm, Cd. subst yoe' m' d'.
  subst yoe y'. destruct (m <=? 2); f_equal; f_equal; lia.
Qed.

(* ---- epoch seconds <-> broken-down time ---- *)
Theorem epoch_of_civil_of_epoch e :
  epoch_of_civil (civil_of_epoch e) = e /\ valid_dt (civil_of_epoch e) = true.
Proof.
  unfold civil_of_epoch.
  pose proof (days_from_civil_from_days (e / 86400)) as R.
  destruct (civil_from_days (e / 86400)) as [[y m] d]. destruct R as [R V].
  pose proof (Z.div_mod e 86400 ltac:(lia)). pose proof (Z.mod_pos_bound e 86400 ltac:(lia)).
  set (sod := e mod 86400) in *.
  pose proof (Z.div_mod sod 3600 ltac:(lia)). pose proof (Z.mod_pos_bound sod 3600 ltac:(lia)).
  pose proof (Z.div_mod (sod mod 3600) 60 ltac:(lia)). pose proof (Z.mod_pos_bound (sod mod 3600) 60 ltac:(lia)).
  assert (sod mod 60 = (sod mod 3600) mod 60) as E60.
  { apply Zmod_div_mod; [lia|lia|]. exists 60. reflexivity. }
  split.
  - unfold epoch_of_civil. cbn [yr mo dy hh mi ss]. rewrite R. lia.
  - unfold valid_dt. cbn [yr mo dy hh mi ss]. rewrite V. cbn [andb].
    assert (0 <= sod / 3600 <= 23) by (split; [apply Z.div_pos; lia| apply Z.lt_succ_r; apply Z.div_lt_upper_bound; lia]).
    assert (0 <= sod mod 3600 / 60 <= 59) by (split; [apply Z.div_pos; lia| apply Z.lt_succ_r; apply Z.div_lt_upper_bound; lia]).
    pose proof (Z.mod_pos_bound sod 60 ltac:(lia)).
    repeat (apply andb_true_iff; split); apply Z.leb_le; lia.
Qed.

Theorem civil_of_epoch_of_civil t :
  valid_dt t = true -> civil_of_epoch (epoch_of_civil t) = t.
Proof.
  destruct t as [y m d h mn s]. unfold valid_dt. cbn [yr mo dy hh mi ss]. intro V.
  do 6 (apply andb_true_iff in V as [V ?]).
  repeat match goal with H : (_ <=? _) = true |- _ => apply Z.leb_le in H end.
  unfold epoch_of_civil, civil_of_epoch. cbn [yr mo dy hh mi ss].
  set (D := days_from_civil y m d). set (sod := h * 3600 + mn * 60 + s).
  replace (D * 86400 + h * 3600 + mn * 60 + s) with (sod + D * 86400) by (subst sod; lia).
  assert (Hs : 0 <= sod < 86400) by (subst sod; lia).
  rewrite Z.div_add by lia. rewrite Z.div_small by lia. cbn [Z.add].
  rewrite Z_mod_plus_full. rewrite Z.mod_small by lia.
  subst D. rewrite (civil_from_days_from_civil y m d V).
  assert (sod / 3600 = h) by (subst sod; symmetry; apply (Z.div_unique _ _ _ (mn * 60 + s)); lia).
  assert (sod mod 3600 = mn * 60 + s) by (subst sod; symmetry; apply (Z.mod_unique _ _ h); lia).
  assert ((mn * 60 + s) / 60 = mn) by (symmetry; apply (Z.div_unique _ _ _ s); lia).
  assert (sod mod 60 = s) by (subst sod; symmetry; apply (Z.mod_unique _ _ (h * 60 + mn)); lia).
  congruence.
Qed.

(* ---- closed form and order facts (forward direction only: lia-friendly) ---- *)
Definition gdays (y : Z) : Z := 365 * y + y / 4 - y / 100 + y / 400.

Lemma dfc_closed y m d :
  days_from_civil y m d = gdays (if m <=? 2 then y - 1 else y) + doy_of_md m d - 719468.
Proof.
  unfold days_from_civil, gdays. set (y' := if m <=? 2 then y - 1 else y).
  Z.div_mod_to_equations; lia.
Qed.

Lemma gdays_step y : 365 <= gdays (y + 1) - gdays y <= 366.
Proof. unfold gdays. Z.div_mod_to_equations; lia. Qed.

Lemma gdays_mono a b : a <= b -> gdays a <= gdays b.
Proof. unfold gdays. intro. Z.div_mod_to_equations; lia. Qed.

Lemma gdays_gap a b : a + 1 <= b -> gdays a + 365 <= gdays b.
Proof. unfold gdays. intro. Z.div_mod_to_equations; lia. Qed.

(* first day of year y *)
Definition ystart (y : Z) : Z := gdays (y - 1) + 306 - 719468.

Lemma ystart_eq y : days_from_civil y 1 1 = ystart y.
Proof. rewrite dfc_closed. reflexivity. Qed.

Lemma ystart_mono a b : a <= b -> ystart a <= ystart b.
Proof. intro. unfold ystart. pose proof (gdays_mono (a - 1) (b - 1)). lia. Qed.

Lemma ystart_gap a b : a + 1 <= b -> ystart a + 365 <= ystart b.
Proof. intro. unfold ystart. pose proof (gdays_gap (a - 1) (b - 1)). lia. Qed.

Lemma ystart_step y : 365 <= ystart (y + 1) - ystart y <= 366.
Proof. unfold ystart. pose proof (gdays_step (y - 1)). replace (y + 1 - 1) with (y - 1 + 1) by lia. lia. Qed.

Lemma valid_date_bounds y m d :
  valid_date y m d = true -> 1 <= m <= 12 /\ 1 <= d <= 31 /\ (m = 2 -> d <= 29) /\ d <= days_in_month y m.
Proof.
  unfold valid_date. intro V. repeat (apply andb_true_iff in V as [V ?]).
  repeat match goal with H : (_ <=? _) = true |- _ => apply Z.leb_le in H end.
  pose proof (days_in_month_le31 y m).
  repeat split; try lia.
  intro. subst m. unfold days_in_month in *. cbn in *. destruct (is_leap y); lia.
Qed.

(* a date lies inside its year *)
Lemma dfc_in_year y m d :
  1 <= m <= 12 -> 1 <= d <= 31 -> (m = 2 -> d <= 29) ->
  ystart y <= days_from_civil y m d < ystart (y + 1).
Proof.
  intros Hm Hd H2. rewrite dfc_closed. unfold ystart, doy_of_md.
  replace (y + 1 - 1) with y by lia.
  pose proof (gdays_step (y - 1)) as S. replace (y - 1 + 1) with y in S by lia.
  destruct (m <=? 2) eqn:E1; destruct (2 <? m) eqn:E2;
    try apply Z.leb_le in E1; try apply Z.leb_gt in E1; try apply Z.ltb_lt in E2; try apply Z.ltb_ge in E2; try lia.
  - assert (m = 1 \/ m = 2) as [-> | ->] by lia.
    + change ((153 * (1 + 9) + 2) / 5) with 306. lia.
    + change ((153 * (2 + 9) + 2) / 5) with 337. specialize (H2 eq_refl). lia.
  - Z.div_mod_to_equations; lia.
Qed.

(* the same month and day one year later: 365 or 366 days on *)
Lemma dfc_next_year y m d :
  365 <= days_from_civil (y + 1) m d - days_from_civil y m d <= 366.
Proof.
  rewrite !dfc_closed. destruct (m <=? 2).
  - pose proof (gdays_step (y - 1)). replace (y + 1 - 1) with (y - 1 + 1) by lia. lia.
  - pose proof (gdays_step y). lia.
Qed.

Lemma is_leap_consecutive y : is_leap y = true -> is_leap (y + 1) = false.
Proof.
  unfold is_leap. intro H.
  destruct ((y + 1) mod 4 =? 0) eqn:A; [|destruct ((y + 1) mod 400 =? 0) eqn:B; [|reflexivity]].
  - apply Z.eqb_eq in A. exfalso.
    apply orb_true_iff in H as [H|H].
    + apply andb_true_iff in H as [H _]. apply Z.eqb_eq in H. Z.div_mod_to_equations; lia.
    + apply Z.eqb_eq in H. Z.div_mod_to_equations; lia.
  - apply Z.eqb_eq in B. apply Z.eqb_neq in A. exfalso. Z.div_mod_to_equations; lia.
Qed.

(* month lengths depend on the year only in February *)
Lemma valid_date_other_year y y' m d :
  valid_date y m d = true -> (m <> 2 \/ d <> 29) -> valid_date y' m d = true.
Proof.
  unfold valid_date, days_in_month. intros V N.
  repeat (apply andb_true_iff in V as [V ?]).
  repeat match goal with H : (_ <=? _) = true |- _ => apply Z.leb_le in H end.
  destruct (m =? 2) eqn:E.
  - apply Z.eqb_eq in E. subst m.
    repeat (apply andb_true_iff; split); apply Z.leb_le; try lia.
    destruct (is_leap y), (is_leap y'); lia.
  - repeat (apply andb_true_iff; split); apply Z.leb_le; lia.
Qed.

Lemma valid_feb29_leap y : valid_date y 2 29 = true -> is_leap y = true.
Proof.
  unfold valid_date, days_in_month. cbn. destruct (is_leap y); [reflexivity|]. cbn. discriminate.
Qed.

Lemma epoch_bounds t :
  valid_dt t = true ->
  days_from_civil (yr t) (mo t) (dy t) * 86400 <= epoch_of_civil t
  < days_from_civil (yr t) (mo t) (dy t) * 86400 + 86400.
Proof.
  unfold valid_dt, epoch_of_civil. intro V. do 6 (apply andb_true_iff in V as [V ?]).
  repeat match goal with H : (_ <=? _) = true |- _ => apply Z.leb_le in H end. lia.
Qed.

Lemma valid_dt_date t : valid_dt t = true -> valid_date (yr t) (mo t) (dy t) = true.
Proof. unfold valid_dt. intro V. do 6 (apply andb_true_iff in V as [V ?]). exact V. Qed.

Lemma valid_dt_time t :
  valid_dt t = true -> 0 <= hh t <= 23 /\ 0 <= mi t <= 59 /\ 0 <= ss t <= 59.
Proof.
  unfold valid_dt. intro V. do 6 (apply andb_true_iff in V as [V ?]).
  repeat match goal with H : (_ <=? _) = true |- _ => apply Z.leb_le in H end. lia.
Qed.

(* an instant lies inside its civil year *)
Lemma epoch_in_year t :
  valid_dt t = true -> ystart (yr t) * 86400 <= epoch_of_civil t < ystart (yr t + 1) * 86400.
Proof.
  intro V. pose proof (epoch_bounds t V) as B.
  destruct (valid_date_bounds _ _ _ (valid_dt_date t V)) as (Hm & Hd & H2 & _).
  pose proof (dfc_in_year (yr t) (mo t) (dy t) Hm Hd H2). lia.
Qed.

(* two instants less than 365 days apart lie in the same or in consecutive years *)
Lemma year_close a b :
  valid_dt a = true -> valid_dt b = true ->
  epoch_of_civil a <= epoch_of_civil b -> epoch_of_civil b - epoch_of_civil a < 365 * 86400 ->
  yr b = yr a \/ yr b = yr a + 1.
Proof.
  intros Va Vb Hle Hlt.
  pose proof (epoch_in_year a Va) as Ia. pose proof (epoch_in_year b Vb) as Ib.
  destruct (Z_lt_le_dec (yr b) (yr a)) as [L|L].
  - pose proof (ystart_mono (yr b + 1) (yr a) ltac:(lia)). lia.
  - destruct (Z_le_gt_dec (yr b) (yr a + 1)) as [L2|L2]; [lia|].
    pose proof (ystart_gap (yr a + 1) (yr b) ltac:(lia)). lia.
Qed.
