(* Proofs about Model/Names.v (C08) *)
From Coq Require Import ZArith List Bool Lia.
From Verif Require Import Lib.Sx Lib.PyStr Lib.PosixPath Model.Framing Model.Paths Model.Names
  Proofs.PyStrFacts Proofs.PosixPathFacts Proofs.Framing Proofs.Paths.
Import ListNotations.
Open Scope Z_scope.

(* a name the line protocol can carry *)
Definition name_char (c : Z) : bool :=
  negb (c =? SLASH) && negb (c =? 0) && negb (c =? CR) && negb (c =? LF).
Definition valid_name (n : text) : Prop :=
  n <> [] /\ n <> dot /\ n <> dotdot /\ forallb name_char n = true /\ rstrip n = n.

(* a path made of valid names, relative or '/'-anchored, at any depth >= 1 *)
Definition valid_path (p : ppath) : Prop :=
  (anchor p = 0 \/ anchor p = 1) /\ parts p <> [] /\ Forall valid_name (parts p).

Lemma name_char_spec c : name_char c = true ->
  (c =? SLASH) = false /\ (c =? 0) = false /\ (c =? CR) = false /\ (c =? LF) = false.
Proof.
  unfold name_char. intro H. repeat (apply andb_true_iff in H as [H ?]).
  repeat match goal with X : negb _ = true |- _ => apply negb_true_iff in X end. auto.
Qed.

Lemma valid_seg_ok n : valid_name n -> seg_ok n.
Proof.
  intros [H1 [H2 [_ [H4 _]]]]. split; [exact H1|split; [exact H2|]].
  unfold nosep. apply forallb_forall. intros c Hc. rewrite forallb_forall in H4.
  destruct (name_char_spec c (H4 c Hc)) as [E _]. rewrite E. reflexivity.
Qed.

Lemma valid_path_wf p : valid_path p -> wf p.
Proof.
  intros [Ha [_ Hp]]. split; [destruct Ha; auto|].
  eapply Forall_impl; [|exact Hp]. intros a Hv. apply valid_seg_ok. exact Hv.
Qed.

(* ---- string facts ---- *)
Lemma rstrip_app_stable (a b : text) : b <> [] -> rstrip b = b -> rstrip (a ++ b) = a ++ b.
Proof.
  intros Hb Hs. induction a as [|c a IH]; cbn [app]; [exact Hs|].
  cbn [rstrip]. rewrite IH. destruct (a ++ b) eqn:E; [|reflexivity].
  apply app_eq_nil in E as [_ E]. contradiction.
Qed.

Lemma join_last c (l : list text) (n : text) : exists X, join [c] (l ++ [n]) = X ++ n.
Proof.
  induction l as [|h t IH].
  - exists []. cbn [app]. apply join_one.
  - destruct IH as [X HX]. destruct t as [|h2 t].
    + exists (h ++ [c]). cbn [app] in *. rewrite join_cons, join_one, <- app_assoc. reflexivity.
    + exists (h ++ c :: X). change ((h :: h2 :: t) ++ [n]) with (h :: (h2 :: t) ++ [n]).
      change ((h2 :: t) ++ [n]) with (h2 :: (t ++ [n])) in *.
      rewrite join_cons, HX, <- app_assoc. reflexivity.
Qed.

Lemma to_str_suffix p : parts p <> [] -> exists X, to_str p = X ++ last (parts p) [].
Proof.
  intro Hne. destruct (exists_last Hne) as [l [n E]]. rewrite E, last_last.
  destruct (join_last SLASH l n) as [X HX]. unfold to_str. rewrite E.
  destruct (anchor p =? 0).
  - exists X. rewrite <- HX. destruct (l ++ [n]) eqn:E2; [destruct l; discriminate|]. reflexivity.
  - exists (anchor_str (anchor p) ++ X). rewrite HX, app_assoc. reflexivity.
Qed.

Lemma valid_last p : valid_path p -> valid_name (last (parts p) []).
Proof.
  intros [_ [Hne Hp]]. destruct (exists_last Hne) as [l [n E]]. rewrite E, last_last.
  rewrite E in Hp. apply Forall_app in Hp as [_ Hn]. inversion Hn; assumption.
Qed.

Lemma valid_path_rstrip p : valid_path p -> rstrip (to_str p) = to_str p.
Proof.
  intro H. destruct (to_str_suffix p (proj1 (proj2 H))) as [X E]. rewrite E.
  destruct (valid_last p H) as [Hne [_ [_ [_ Hs]]]]. apply rstrip_app_stable; assumption.
Qed.

Lemma forallb_join (P : Z -> bool) c (l : list text) :
  P c = true -> Forall (fun x => forallb P x = true) l -> forallb P (join [c] l) = true.
Proof.
  intros Hc H. induction H as [|h t Hh Ht IH]; [reflexivity|]. destruct t as [|h2 t].
  - rewrite join_one. exact Hh.
  - rewrite join_cons, forallb_app. cbn [forallb]. rewrite Hh, Hc. cbn [andb]. exact IH.
Qed.

Lemma forallb_to_str (P : Z -> bool) p :
  P SLASH = true -> P DOT = true -> Forall (fun x => forallb P x = true) (parts p) ->
  forallb P (to_str p) = true.
Proof.
  intros Hs Hd H. unfold to_str. destruct (anchor p =? 0).
  - destruct (parts p) eqn:E; [cbn; rewrite Hd; reflexivity|]. rewrite <- E. apply forallb_join; [exact Hs|rewrite E; exact H].
  - rewrite forallb_app, (forallb_join P SLASH _ Hs H), andb_true_r.
    unfold anchor_str. destruct (anchor p =? 1); [cbn; rewrite Hs; reflexivity|].
    destruct (anchor p =? 2); cbn; [rewrite Hs|]; reflexivity.
Qed.

Lemma valid_path_lf_free p : valid_path p -> lf_free (to_str p).
Proof.
  intros [_ [_ Hp]]. unfold lf_free. apply forallb_to_str; [reflexivity|reflexivity|].
  eapply Forall_impl; [|exact Hp]. intros n [_ [_ [_ [Hc _]]]].
  apply forallb_forall. intros c Hin. rewrite forallb_forall in Hc.
  destruct (name_char_spec c (Hc c Hin)) as [_ [_ [_ E]]]. unfold LF in *. rewrite E. reflexivity.
Qed.

Lemma lf_space : is_space LF = true. Proof. exact is_space_LF. Qed.

(* ---- command path round trip ---- *)
Definition nows (s : text) : Prop := forallb (fun c => negb (is_space c)) s = true.

Lemma nows_lf_free v : nows v -> lf_free v.
Proof.
  unfold nows, lf_free. intro H. apply forallb_forall. intros c Hc. rewrite forallb_forall in H.
  specialize (H c Hc). destruct (c =? LF) eqn:E; [|reflexivity].
  apply Z.eqb_eq in E. subst c. rewrite lf_space in H. discriminate.
Qed.

(* the client builds the line, the server's readline cuts exactly that line off whatever
   follows, and parses it back to the lower-cased verb and exactly the path meant *)
Theorem cmd_path_roundtrip verb p k :
  verb <> [] -> nows verb -> valid_path p ->
  split_lines (client_cmd verb p ++ k) = client_cmd verb p :: split_lines k
  /\ server_arg (client_cmd verb p) = Some (lower verb, p).
Proof.
  intros Hv Hn Hp. split.
  - unfold client_cmd, build_command.
    replace ((verb ++ [SP] ++ to_str p ++ eol) ++ k) with ((verb ++ [SP] ++ to_str p) ++ eol ++ k)
      by (rewrite <- !app_assoc; reflexivity).
    rewrite split_lines_line; [rewrite <- !app_assoc; reflexivity|].
    apply lf_free_app; [apply nows_lf_free; exact Hn|].
    apply lf_free_app; [reflexivity|apply valid_path_lf_free; exact Hp].
  - unfold server_arg, client_cmd.
    rewrite (parse_command_build verb (to_str p) Hv Hn (valid_path_rstrip p Hp)).
    rewrite (parse_to_str p (valid_path_wf p Hp)). reflexivity.
Qed.

Lemma valid_no_dotdot l : Forall valid_name l -> no_dotdot l = true.
Proof.
  intro H. unfold no_dotdot. apply forallb_forall. intros x Hx. rewrite Forall_forall in H.
  destruct (H x Hx) as [_ [_ [Hdd _]]]. apply negb_true_iff.
  destruct (text_eqb x dotdot) eqn:E; [apply text_eqb_eq in E; contradiction|reflexivity].
Qed.

(* ... and the server resolves it to exactly the components the client meant: an absolute path
   to itself, a relative one below the (normalised) working directory *)
Theorem cmd_path_resolved base cwd p : normal cwd -> valid_path p ->
  get_paths base cwd (to_str p)
  = let v := if is_absolute p then parts p else parts cwd ++ parts p in
    Some (mkp (anchor base) (parts base ++ v), mkp 1 v).
Proof.
  intros Hc Hp. unfold get_paths. rewrite (parse_to_str p (valid_path_wf p Hp)).
  pose proof (valid_path_wf p Hp) as [_ Hsp].
  rewrite (get_paths_p_spec base cwd p (normal_abs_wf cwd Hc) Hsp). cbv zeta.
  unfold spec_parts. destruct Hc as [_ [Hcs Hcd]]. destruct Hp as [_ [_ Hv]].
  destruct (is_absolute p).
  - rewrite (spec_fold_normal _ Hsp (valid_no_dotdot _ Hv)), app_nil_r, rev_involutive. reflexivity.
  - assert (Hall : Forall seg_ok (parts cwd ++ parts p)) by (apply Forall_app; split; assumption).
    assert (Hdd : no_dotdot (parts cwd ++ parts p) = true).
    { unfold no_dotdot in *. rewrite forallb_app, Hcd. exact (valid_no_dotdot _ Hv). }
    rewrite (spec_fold_normal _ Hall Hdd), app_nil_r, rev_involutive. reflexivity.
Qed.

(* ---- MLSD ---- *)
Definition nosp (s : text) : Prop := forallb (fun x => negb (x =? SP)) s = true.

Lemma nows_nosp s : nows s -> nosp s.
Proof.
  unfold nows, nosp. intro H. apply forallb_forall. intros c Hc. rewrite forallb_forall in H.
  specialize (H c Hc). destruct (c =? SP) eqn:E; [|reflexivity].
  apply Z.eqb_eq in E. subst c. rewrite sp_space in H. discriminate.
Qed.

Lemma mlsx_line_name (F name : text) : nosp F -> valid_name name ->
  option_map fst (parse_mlsx_line (F ++ SP :: name)) = Some (mkp 0 [name]).
Proof.
  intros HF Hn. unfold parse_mlsx_line.
  destruct Hn as [Hne [Hd [Hdd [Hc Hs]]]].
  replace (F ++ SP :: name) with ((F ++ [SP]) ++ name) by (rewrite <- app_assoc; reflexivity).
  rewrite (rstrip_app_stable _ name Hne Hs). rewrite <- app_assoc. cbn [app].
  rewrite (partition_app SP F name HF). cbn [negb orb].
  destruct name as [|c0 name']; [congruence|]. cbn [option_map fst]. f_equal.
  apply parse_seg. apply valid_seg_ok. repeat split; assumption.
Qed.

(* one line of the MLSD data stream: facts (no space inside), one space, the name, CRLF *)
Theorem mlsd_name_roundtrip (F name : text) dir : nosp F -> valid_name name ->
  option_map fst (parse_mlsx_line (F ++ SP :: name ++ eol)) = Some (mkp 0 [name])
  /\ option_map (fun r => lister_join dir (fst r)) (parse_mlsx_line (F ++ SP :: name ++ eol))
     = Some (mkp (anchor dir) (parts dir ++ [name])).
Proof.
  intros HF Hn.
  assert (E : option_map fst (parse_mlsx_line (F ++ SP :: name ++ eol)) = Some (mkp 0 [name])).
  { rewrite <- (mlsx_line_name F name HF Hn). unfold parse_mlsx_line.
    replace (F ++ SP :: name ++ eol) with ((F ++ SP :: name) ++ eol) by (rewrite <- app_assoc; reflexivity).
    rewrite rstrip_eol. reflexivity. }
  split; [exact E|]. destruct (parse_mlsx_line (F ++ SP :: name ++ eol)) as [[p f]|]; [|discriminate].
  cbn [option_map fst] in *. injection E as ->. reflexivity.
Qed.

(* what build_mlsx_string produces has that shape when no fact contains a space *)
Lemma build_mlsx_shape facts name :
  Forall (fun kv => nosp (fst kv) /\ nosp (snd kv)) facts ->
  exists F, build_mlsx facts name = F ++ SP :: name /\ nosp F.
Proof.
  intro H. unfold build_mlsx. eexists. split; [reflexivity|].
  unfold nosp in *. induction H as [|kv l [Hk Hv] Hl IH]; [reflexivity|].
  cbn [flat_map]. rewrite !forallb_app. cbn [forallb].
  repeat (apply andb_true_iff; split); try reflexivity; try assumption.
Qed.

(* ---- MLST: through the reply framing of C06, then info[1].lstrip() ---- *)
Lemma lstrip_sp_field (f Y : text) : f <> [] -> nows f -> lstrip (SP :: f ++ Y) = f ++ Y.
Proof.
  intros Hne Hf. destruct f as [|c f']; [congruence|].
  unfold nows in Hf. cbn [forallb] in Hf. apply andb_true_iff in Hf as [Hc _]. apply negb_true_iff in Hc.
  cbn [lstrip app]. rewrite sp_space, Hc. reflexivity.
Qed.

Theorem mlst_name_roundtrip code (start fin F name : text) k :
  good_code code -> lf_free start -> lf_free fin -> lf_free F ->
  F <> [] -> nows F -> valid_name name ->
  exists info rest,
    parse_response (split_lines (reply_wire (code, [start; F ++ SP :: name; fin], true) ++ k))
      = POk code info rest
    /\ rest = split_lines k
    /\ option_map fst (stat_parse info) = Some (mkp 0 [name]).
Proof.
  intros Hcode Hs Hf HF Hne Hws Hn.
  assert (Hlfn : lf_free name).
  { destruct Hn as [_ [_ [_ [Hc _]]]]. unfold lf_free. apply forallb_forall. intros c Hin.
    rewrite forallb_forall in Hc. destruct (name_char_spec c (Hc c Hin)) as [_ [_ [_ E]]].
    unfold LF in *. rewrite E. reflexivity. }
  assert (Hok : reply_ok (code, [start; F ++ SP :: name; fin], true)).
  { split; [exact Hcode|split; [|cbn; lia]].
    repeat constructor; try assumption. apply lf_free_app; [exact HF|]. apply lf_free_cons; [exact SP_LF|exact Hlfn]. }
  eexists. eexists. split; [apply (decode_one _ k Hok)|]. split; [reflexivity|].
  cbn [fst snd decoded_info split_last stat_parse option_map map app].
  destruct Hn as [Hne' [Hd [Hdd [Hc Hst]]]].
  assert (Hstable : rstrip (SP :: F ++ SP :: name) = SP :: F ++ SP :: name).
  { replace (SP :: F ++ SP :: name) with ((SP :: F ++ [SP]) ++ name)
      by (cbn [app]; rewrite <- app_assoc; reflexivity).
    apply rstrip_app_stable; assumption. }
  rewrite Hstable, (lstrip_sp_field F (SP :: name) Hne Hws).
  apply mlsx_line_name; [apply nows_nosp; exact Hws|repeat split; assumption].
Qed.

(* ---- PWD ---- *)
Lemma repeat_snoc {A} (x : A) n : repeat x n ++ [x] = x :: repeat x n.
Proof. induction n as [|n IH]; [reflexivity|]. cbn [repeat app]. rewrite IH. reflexivity. Qed.

Lemma odd_double j : Nat.odd (2 * j) = false.
Proof. rewrite Nat.odd_mul. reflexivity. Qed.

Lemma odd_succ_double j : Nat.odd (S (2 * j)) = true.
Proof. rewrite Nat.odd_succ, Nat.even_mul. reflexivity. Qed.

(* the loop of parse_directory_response, inside the quoted string, with an EVEN number 2j of
   pending quotes, run over the doubled string d and the closing quote: it stops at the closing
   quote (nothing after it is looked at: the break, or the end of the string) and has appended
   j quotes and exactly d -- whatever d is made of (quotes leading, trailing, in runs) *)
Lemma pdr_dbl d : forall j acc rest,
  match rest with [] => True | c :: _ => (c =? QUOTE) = false end ->
  pdr (dbl d ++ QUOTE :: rest) true (2 * j) acc = acc ++ repeat QUOTE j ++ d.
Proof.
  induction d as [|c d IH]; intros j acc rest Hrest.
  - cbn [dbl flat_map app pdr negb]. change (QUOTE =? QUOTE) with true. cbn match.
    rewrite app_nil_r. destruct rest as [|c r].
    + cbn [pdr]. rewrite Nat.div2_succ_double. reflexivity.
    + cbn [pdr negb]. rewrite Hrest. cbv zeta. rewrite odd_succ_double, Nat.div2_succ_double. reflexivity.
  - unfold dbl. cbn [flat_map]. fold (dbl d). destruct (c =? QUOTE) eqn:Ec.
    + apply Z.eqb_eq in Ec. subst c. cbn [app pdr negb]. change (QUOTE =? QUOTE) with true. cbn match.
      replace (S (S (2 * j))) with (2 * S j)%nat by lia.
      rewrite (IH (S j) acc rest Hrest). cbn [repeat]. rewrite <- repeat_snoc, <- app_assoc. reflexivity.
    + cbn [app pdr negb]. rewrite Ec. cbv zeta. rewrite odd_double, Nat.div2_double.
      pose proof (IH O ((acc ++ repeat QUOTE j) ++ [c]) rest Hrest) as E.
      cbn [Nat.mul Nat.add] in E. rewrite E. cbn [repeat app].
      rewrite <- !app_assoc. reflexivity.
Qed.

(* the info line of the 257 reply as the client sees it: a space, the quoted doubled string *)
Lemma pdr_quoted d : pdr (SP :: QUOTE :: dbl d ++ [QUOTE]) false O [] = d.
Proof.
  cbn [pdr negb]. change (SP =? QUOTE) with false. cbn [pdr negb]. change (QUOTE =? QUOTE) with true.
  exact (pdr_dbl d O [] [] Logic.I).
Qed.

(* ... and trailing text after the closing quote (as in 257 <quoted> created) is ignored *)
Lemma pdr_quoted_trailing d c rest : (c =? QUOTE) = false ->
  pdr (SP :: QUOTE :: dbl d ++ QUOTE :: c :: rest) false O [] = d.
Proof.
  intro Hc. cbn [pdr negb]. change (SP =? QUOTE) with false. cbn [pdr negb]. change (QUOTE =? QUOTE) with true.
  exact (pdr_dbl d O [] (c :: rest) Hc).
Qed.

Lemma rstrip_pwd_line d : rstrip (SP :: QUOTE :: d ++ [QUOTE]) = SP :: QUOTE :: d ++ [QUOTE].
Proof.
  change (SP :: QUOTE :: d ++ [QUOTE]) with ((SP :: QUOTE :: d) ++ [QUOTE]).
  apply rstrip_app_stable; [discriminate|reflexivity].
Qed.

Lemma lf_free_dbl s : lf_free s -> lf_free (dbl s).
Proof.
  unfold lf_free, dbl. induction s as [|c s IH]; intro H; [reflexivity|].
  cbn [forallb] in H. apply andb_true_iff in H as [Hc Hs]. cbn [flat_map]. rewrite forallb_app, (IH Hs), andb_true_r.
  destruct (c =? QUOTE); cbn [forallb]; [reflexivity|rewrite Hc; reflexivity].
Qed.

(* what the client's get_current_directory computes from the info line the server formatted *)
Theorem pwd_line_roundtrip cwd : wf cwd ->
  parse_directory_response (rstrip (SP :: pwd_info cwd)) = cwd.
Proof.
  intro Hwf. unfold pwd_info. rewrite rstrip_pwd_line. unfold parse_directory_response.
  rewrite pdr_quoted. apply parse_to_str. exact Hwf.
Qed.

(* FULL: every well-formed directory whose string has no LF -- double quotes anywhere, leading,
   trailing, doubled, in runs -- round-trips through the PWD reply: server formatter (quotes
   doubled), C06 reply framing (write_response, readline, parse_response, rstrip), client parser *)
Theorem pwd_roundtrip code cwd k :
  good_code code -> wf cwd -> lf_free (to_str cwd) ->
  exists info rest,
    parse_response (split_lines (reply_wire (code, [pwd_info cwd], false) ++ k)) = POk code info rest
    /\ rest = split_lines k
    /\ parse_directory_response (last info []) = cwd.
Proof.
  intros Hcode Hwf Hlf.
  assert (Hok : reply_ok (code, [pwd_info cwd], false)).
  { split; [exact Hcode|split; [|cbn; lia]]. constructor; [|constructor].
    unfold pwd_info. apply lf_free_cons; [unfold QUOTE, LF; lia|].
    apply lf_free_app; [apply lf_free_dbl; exact Hlf|reflexivity]. }
  eexists. eexists. split; [apply (decode_one _ k Hok)|]. split; [reflexivity|].
  cbn [fst snd decoded_info split_last last map app].
  apply pwd_line_roundtrip. exact Hwf.
Qed.

(* the same for the paths of the property: every valid_path (it is wf and LF-free) *)
Theorem pwd_roundtrip_valid code cwd k :
  good_code code -> valid_path cwd ->
  exists info rest,
    parse_response (split_lines (reply_wire (code, [pwd_info cwd], false) ++ k)) = POk code info rest
    /\ rest = split_lines k
    /\ parse_directory_response (last info []) = cwd.
Proof.
  intros Hcode Hv. apply pwd_roundtrip; [exact Hcode|apply valid_path_wf; exact Hv|apply valid_path_lf_free; exact Hv].
Qed.

(* non-vacuity: the former counterexamples are valid names, and each round-trips *)
Definition quote_names : list text :=
  [[97; 34; 98]; [34]; [34; 34]; [120; 34]; [34; 120]; [34; 34; 34]; [34; 97; 34; 34; 98; 34]].

Lemma quote_names_valid : Forall valid_name quote_names.
Proof. repeat constructor; try discriminate. Qed.

Lemma quote_path_valid : valid_path (mkp 1 quote_names).
Proof. split; [right; reflexivity|split; [discriminate|exact quote_names_valid]]. Qed.

(* ---- LIST fallback ---- *)
Lemma index_field (f Y : text) : nosp f -> index_of SP (f ++ SP :: Y) = Some (length f).
Proof.
  unfold nosp. induction f as [|c f IH]; intro H; cbn [app index_of length].
  - change (SP =? SP) with true. reflexivity.
  - cbn [forallb] in H. apply andb_true_iff in H as [Hc Hf]. apply negb_true_iff in Hc.
    rewrite Hc, (IH Hf). reflexivity.
Qed.

Lemma firstn_length_app' {A} (a b : list A) : firstn (length a) (a ++ b) = a.
Proof. induction a as [|x a IH]; cbn; [destruct b; reflexivity|rewrite IH; reflexivity]. Qed.

Definition digits (s : text) : Prop := s <> [] /\ forallb is_ascii_digit s = true.

Lemma digits_nows s : digits s -> nows s.
Proof.
  intros [_ H]. unfold nows. apply forallb_forall. intros c Hc. rewrite forallb_forall in H.
  apply negb_true_iff. apply ascii_digit_not_space. apply H. exact Hc.
Qed.

Lemma none4_nows : nows none4. Proof. vm_compute. reflexivity. Qed.

(* one column: skip the separating space, find the end of the field, cut it off *)
Lemma column (f Y : text) : f <> [] -> nows f ->
  lstrip (SP :: f ++ SP :: Y) = f ++ SP :: Y
  /\ index_of SP (f ++ SP :: Y) = Some (length f)
  /\ firstn (length f) (f ++ SP :: Y) = f
  /\ skipn (length f) (f ++ SP :: Y) = SP :: Y.
Proof.
  intros Hne Hf. split; [apply lstrip_sp_field; assumption|].
  split; [apply index_field, nows_nosp; exact Hf|].
  split; [apply firstn_length_app'|apply skipn_length_app].
Qed.

(* PARTIAL: names WITHOUT LEADING whitespace (the parser strip()s the name column: F13).
   The line is what build_list_string produces: 10-character mode (type not 'l'), link count,
   "none", "none", size, 12-character date starting with a month letter, name. *)
Theorem list_name_roundtrip_partial (mode nlink size mtime name : text) t m' :
  mode = t :: m' -> length m' = 9%nat -> (t =? 108) = false -> nows mode ->
  digits nlink -> digits size ->
  length mtime = 12%nat -> (exists c r, mtime = c :: r /\ is_space c = false) ->
  valid_name name -> lstrip name = name ->
  list_name (build_list mode nlink size mtime name ++ eol) = Some (t, name)
  /\ list_parse (build_list mode nlink size mtime name ++ eol) = Some (mkp 0 [name]).
Proof.
  intros Em Hm9 Ht Hmode Hnl Hsz Hmt [mc [mr [Emt Hmc]]] Hn Hlead.
  assert (G : list_name (build_list mode nlink size mtime name ++ eol) = Some (t, name)).
  { destruct Hn as [Hne [Hd [Hdd [Hc Hst]]]].
    set (Y5 := mtime ++ SP :: name).
    set (Y4 := size ++ SP :: Y5).
    set (Y3 := none4 ++ SP :: Y4).
    set (Y2 := none4 ++ SP :: Y3).
    set (Y1 := nlink ++ SP :: Y2).
    assert (Eline : build_list mode nlink size mtime name = mode ++ SP :: Y1).
    { unfold build_list, Y1, Y2, Y3, Y4, Y5. cbn [join flat_map app].
      rewrite app_nil_r. reflexivity. }
    unfold list_name. rewrite Eline, rstrip_eol.
    assert (Est : rstrip (mode ++ SP :: Y1) = mode ++ SP :: Y1).
    { unfold Y1, Y2, Y3, Y4, Y5.
      replace (mode ++ SP :: nlink ++ SP :: none4 ++ SP :: none4 ++ SP :: size ++ SP :: mtime ++ SP :: name)
        with ((mode ++ SP :: nlink ++ SP :: none4 ++ SP :: none4 ++ SP :: size ++ SP :: mtime ++ [SP]) ++ name).
      - apply rstrip_app_stable; assumption.
      - rewrite <- !app_assoc. cbn [app]. repeat (rewrite <- !app_assoc; cbn [app]). reflexivity. }
    rewrite Est, Em. cbn [app]. rewrite Ht.
    change (skipn 10 (t :: m' ++ SP :: Y1)) with (skipn 9 (m' ++ SP :: Y1)).
    assert (Hskip : skipn 9 (m' ++ SP :: Y1) = SP :: Y1) by (rewrite <- Hm9; apply skipn_length_app).
    rewrite Hskip.
    destruct (column nlink Y2 (proj1 Hnl) (digits_nows _ Hnl)) as [A1 [A2 [A3 A4]]].
    fold Y1 in A1, A2, A3, A4. rewrite A1, A2, A3, A4.
    rewrite (all_ascii_digit_isdigit nlink (proj1 Hnl) (proj2 Hnl)). cbn [negb].
    destruct (column none4 Y3 ltac:(discriminate) none4_nows) as [B1 [B2 [B3 B4]]].
    fold Y2 in B1, B2, B3, B4. rewrite B1, B2, B4.
    destruct (column none4 Y4 ltac:(discriminate) none4_nows) as [C1 [C2 [C3 C4]]].
    fold Y3 in C1, C2, C3, C4. rewrite C1, C2, C4.
    destruct (column size Y5 (proj1 Hsz) (digits_nows _ Hsz)) as [D1 [D2 [D3 D4]]].
    fold Y4 in D1, D2, D3, D4. rewrite D1, D2, D3, D4.
    rewrite (all_ascii_digit_isdigit size (proj1 Hsz) (proj2 Hsz)). cbn [negb].
    assert (E5 : lstrip (SP :: Y5) = Y5).
    { unfold Y5. rewrite Emt. cbn [lstrip app]. rewrite sp_space, Hmc. reflexivity. }
    rewrite E5. unfold Y5.
    assert (Hskip12 : skipn 12 (mtime ++ SP :: name) = SP :: name) by (rewrite <- Hmt; apply skipn_length_app).
    rewrite Hskip12.
    unfold strip.
    replace (SP :: name) with ([SP] ++ name) by reflexivity.
    rewrite (rstrip_app_stable [SP] name Hne Hst). cbn [app lstrip]. rewrite sp_space, Hlead.
    destruct name as [|c0 name']; [congruence|]. reflexivity. }
  split; [exact G|]. unfold list_parse. rewrite G. f_equal. apply parse_seg, valid_seg_ok. exact Hn.
Qed.

(* the path Client.list yields for that entry, for EVERY listed path dir (relative or absolute, any
   depth -- in particular a directory that carries the entry's own name): dir / name *)
Theorem list_entry_path_partial (mode nlink size mtime name : text) t m' dir :
  mode = t :: m' -> length m' = 9%nat -> (t =? 108) = false -> nows mode ->
  digits nlink -> digits size ->
  length mtime = 12%nat -> (exists c r, mtime = c :: r /\ is_space c = false) ->
  valid_name name -> lstrip name = name ->
  option_map (lister_join dir) (list_parse (build_list mode nlink size mtime name ++ eol))
  = Some (mkp (anchor dir) (parts dir ++ [name])).
Proof.
  intros Em Hm9 Ht Hmode Hnl Hsz Hmt Hc Hn Hlead.
  rewrite (proj2 (list_name_roundtrip_partial mode nlink size mtime name t m' Em Hm9 Ht Hmode Hnl Hsz Hmt Hc Hn Hlead)).
  reflexivity.
Qed.

(* F13: a name with a leading space loses it in the LIST fallback *)
Definition sp_name : text := [32; 120].                        (* space, x *)
Theorem list_name_leading_space_refuted :
  valid_name sp_name /\
  list_name (build_list [45;114;119;45;114;119;45;114;119;45] [49] [48]
                        [74;97;110;32;32;49;32;48;48;58;48;48] sp_name ++ eol)
  = Some (45, [120]).
Proof. split; [repeat split; try discriminate|vm_compute; reflexivity]. Qed.
