(* Proofs about Model/LogCensor.v (C20): secrecy of the login password as non-interference of
   the log records, the %-formatting lemma, outcome independence, and the checker over the
   regenerated logging-site inventory (Lib/LogFacts.v types) with its soundness lemmas. *)
From Coq Require Import ZArith List Bool Lia.
From Verif Require Import Lib.Sx Lib.PyStr Lib.PyStr4 Lib.LogFacts Gen.Unicode
     Proofs.PyStrFacts Model.Framing Proofs.Framing Model.LogCensor.
Import ListNotations.
Open Scope Z_scope.

(* ================================================================== character-class facts *)
Definition nospace (s : text) : Prop := forallb (fun c => negb (is_space c)) s = true.
Definition allspace (s : text) : Prop := forallb is_space s = true.

(* every whitespace character is its own lower(): by computation on the interpreter's tables *)
Lemma space_lower_id_tbl :
  forallb (fun s => match lower_char s with [x] => x =? s | _ => false end) space_chars = true.
Proof. vm_compute. reflexivity. Qed.

Lemma is_space_lower c : is_space c = true -> lower_char c = [c].
Proof.
  unfold is_space. intro H. apply existsb_exists in H as [x [Hin Hx]].
  apply Z.eqb_eq in Hx. subst x.
  pose proof space_lower_id_tbl as T. rewrite forallb_forall in T. specialize (T c Hin).
  destruct (lower_char c) as [|y [|z r]]; try discriminate.
  apply Z.eqb_eq in T. subst. reflexivity.
Qed.

Lemma lower_char_incl c V : In c V -> incl (lower_char c) (lower V).
Proof.
  intros Hin x Hx. unfold lower. apply in_flat_map. exists c. split; assumption.
Qed.

(* a verb whose lower() is whitespace-free is itself whitespace-free *)
Lemma lower_nospace V e : lower V = e -> nospace e -> nospace V.
Proof.
  unfold nospace. intros HV He. rewrite forallb_forall in *. intros c Hc.
  destruct (is_space c) eqn:Hs; [|reflexivity]. exfalso.
  pose proof (is_space_lower c Hs) as Hl.
  assert (Hin : In c (lower V)).
  { apply (lower_char_incl c V Hc). rewrite Hl. left. reflexivity. }
  rewrite HV in Hin. specialize (He c Hin). rewrite Hs in He. discriminate.
Qed.

Lemma nospace_no_SP V : nospace V -> forallb (fun x => negb (x =? SP)) V = true.
Proof.
  unfold nospace. intro H. rewrite forallb_forall in *. intros x Hx. specialize (H x Hx).
  apply negb_true_iff. apply negb_true_iff in H.
  destruct (x =? SP) eqn:E; [|reflexivity]. apply Z.eqb_eq in E. subst.
  rewrite sp_space in H. discriminate.
Qed.

Lemma nospace_rstrip V : nospace V -> rstrip V = V.
Proof. apply rstrip_nonspace_all. Qed.

Lemma nospace_pass : nospace VERB_PASS.
Proof. vm_compute. reflexivity. Qed.

Lemma allspace_eol : allspace eol.
Proof. exact eol_spaces. Qed.

Lemma allspace_nil : allspace [].
Proof. reflexivity. Qed.

(* ================================================================== the command line *)
Lemma rstrip_SP_cons s : rstrip (SP :: s) = match rstrip s with [] => [] | r => SP :: r end.
Proof. cbn [rstrip]. destruct (rstrip s); [rewrite sp_space|]; reflexivity. Qed.

Lemma rstrip_cmd_line V p w : nospace V -> allspace w ->
  rstrip (V ++ SP :: p ++ w) = V ++ match rstrip p with [] => [] | r => SP :: r end.
Proof.
  intros HV Hw. rewrite (rstrip_app_l V (SP :: p ++ w) (nospace_rstrip V HV)).
  rewrite rstrip_SP_cons, (rstrip_app_spaces p w Hw). reflexivity.
Qed.

(* "VERB<SP>arg<blanks>" splits into the verb and the rstripped argument, whatever the argument
   contains (leading spaces stay in the argument, trailing whitespace is dropped) *)
Lemma split_command_line V p w : nospace V -> allspace w ->
  split_command (V ++ SP :: p ++ w) = (V, rstrip p).
Proof.
  intros HV Hw. unfold split_command. rewrite (rstrip_cmd_line V p w HV Hw).
  destruct (rstrip p) as [|x r] eqn:E.
  - rewrite app_nil_r, (partition_none SP V (nospace_no_SP V HV)). reflexivity.
  - rewrite (partition_app SP V (x :: r) (nospace_no_SP V HV)). reflexivity.
Qed.

Definition censored_record (V : text) (n : nat) : logrec :=
  {| lr_msg := fmt_server_cmd; lr_args := [V; stars n] |}.

(* what parse_command logs for a censored verb: the verb and len(rstrip(arg)) stars *)
Lemma server_log_censored censor V p w :
  nospace V -> allspace w -> text_in (lower V) censor = true ->
  server_parse_command_log censor (V ++ SP :: p ++ w) = censored_record V (length (rstrip p)).
Proof.
  intros HV Hw Hc. unfold server_parse_command_log.
  rewrite (split_command_line V p w HV Hw), Hc. reflexivity.
Qed.

(* ... and for a verb that is not censored: the argument in the clear *)
Lemma server_log_uncensored censor V p w :
  nospace V -> allspace w -> text_in (lower V) censor = false ->
  server_parse_command_log censor (V ++ SP :: p ++ w)
  = {| lr_msg := fmt_server_cmd; lr_args := [V; rstrip p] |}.
Proof.
  intros HV Hw Hc. unfold server_parse_command_log.
  rewrite (split_command_line V p w HV Hw), Hc. reflexivity.
Qed.

Lemma text_in_spec x l : text_in x l = true <-> In x l.
Proof.
  unfold text_in. rewrite existsb_exists. split.
  - intros [y [Hy E]]. apply text_eqb_eq in E. subst. exact Hy.
  - intro H. exists x. split; [exact H|apply text_eqb_refl].
Qed.

(* ------------------------------------------------------------------ server_log_hides_password *)
Theorem server_log_hides_password censor V p1 p2 w :
  lower V = VERB_PASS -> In VERB_PASS censor -> allspace w ->
  length (rstrip p1) = length (rstrip p2) ->
  server_parse_command_log censor (V ++ SP :: p1 ++ w)
  = server_parse_command_log censor (V ++ SP :: p2 ++ w).
Proof.
  intros HV Hc Hw Hlen.
  pose proof (lower_nospace V _ HV nospace_pass) as Hns.
  assert (Hin : text_in (lower V) censor = true) by (rewrite HV; apply text_in_spec; exact Hc).
  rewrite !(server_log_censored censor V _ w Hns Hw Hin), Hlen. reflexivity.
Qed.

Theorem server_log_pass_record censor V p w :
  lower V = VERB_PASS -> In VERB_PASS censor -> allspace w ->
  server_parse_command_log censor (V ++ SP :: p ++ w) = censored_record V (length (rstrip p)).
Proof.
  intros HV Hc Hw.
  pose proof (lower_nospace V _ HV nospace_pass) as Hns.
  apply server_log_censored; try assumption. rewrite HV. apply text_in_spec. exact Hc.
Qed.

(* a bare "PASS" (no argument, no separator) is censored too: zero stars *)
Lemma server_log_bare_verb censor V w :
  lower V = VERB_PASS -> In VERB_PASS censor -> allspace w ->
  server_parse_command_log censor (V ++ w) = censored_record V 0.
Proof.
  intros HV Hc Hw. pose proof (lower_nospace V _ HV nospace_pass) as Hns.
  unfold server_parse_command_log, split_command.
  rewrite (rstrip_app_l V w (nospace_rstrip V Hns)), (rstrip_all_space w Hw), app_nil_r.
  rewrite (partition_none SP V (nospace_no_SP V Hns)), HV.
  assert (E : text_in VERB_PASS censor = true) by (apply text_in_spec; exact Hc).
  rewrite E. reflexivity.
Qed.

(* ================================================================== %-formatting *)
Lemma render_server_cmd a b : render_fmt fmt_server_cmd [a; b] = a ++ SP :: b.
Proof. cbn. rewrite app_nil_r. reflexivity. Qed.

Lemma render_client_cmd a b : render_fmt fmt_client_cmd [a; b] = a ++ b.
Proof. cbn. rewrite app_nil_r. reflexivity. Qed.

Lemma stars_only n c : In c (stars n) -> c = STAR.
Proof. unfold stars. apply repeat_spec. Qed.

Lemma stars_length n : length (stars n) = n.
Proof. apply repeat_length. Qed.

(* the format arguments of a censored record are the verb and stars: no character of the
   argument reaches the formatter, and the formatted text is VERB<SP>*** *)
Theorem censored_args_are_stars censor V p w :
  lower V = VERB_PASS -> In VERB_PASS censor -> allspace w ->
  let r := server_parse_command_log censor (V ++ SP :: p ++ w) in
  lr_msg r = fmt_server_cmd /\
  lr_args r = [V; stars (length (rstrip p))] /\
  lr_message r = V ++ SP :: stars (length (rstrip p)).
Proof.
  intros HV Hc Hw. cbv zeta. rewrite (server_log_pass_record censor V p w HV Hc Hw).
  unfold censored_record, lr_message, get_message. cbn [lr_msg lr_args].
  rewrite render_server_cmd. repeat split.
Qed.

(* records without args are not %-formatted at all (LogRecord.getMessage) *)
Lemma no_args_no_format msg : lr_message {| lr_msg := msg; lr_args := [] |} = msg.
Proof. reflexivity. Qed.

(* ================================================================== client *)
Lemma clamp_prefix (prefix p : text) :
  clamp_index (Z.of_nat (length prefix)) (length (prefix ++ p)) = length prefix.
Proof.
  unfold clamp_index. destruct (Z.of_nat (length prefix) <? 0) eqn:E; [lia|].
  rewrite Nat2Z.id, app_length. lia.
Qed.

Lemma firstn_prefix (prefix p : text) : firstn (length prefix) (prefix ++ p) = prefix.
Proof. rewrite firstn_app, Nat.sub_diag, firstn_all. cbn. apply app_nil_r. Qed.

Lemma skipn_prefix (prefix p : text) : skipn (length prefix) (prefix ++ p) = p.
Proof. rewrite skipn_app, Nat.sub_diag, skipn_all. reflexivity. Qed.

Definition client_censored_record (prefix : text) (n : nat) : logrec :=
  {| lr_msg := fmt_client_cmd; lr_args := [prefix; stars n] |}.

Theorem client_log_pass_record prefix k p :
  prefix <> [] -> k = Z.of_nat (length prefix) ->
  client_login_pass_log prefix k p = client_censored_record prefix (length p).
Proof.
  intros Hne Hk. unfold client_login_pass_log, client_command_log, login_pass_command.
  assert (Ht : truthy k = true).
  { unfold truthy. apply negb_true_iff, Z.eqb_neq. destruct prefix; [congruence|]. cbn in Hk. lia. }
  rewrite Ht. unfold py_slice_to, py_slice_from. subst k.
  rewrite clamp_prefix, firstn_prefix, skipn_prefix. reflexivity.
Qed.

Theorem client_log_hides_password prefix k p1 p2 :
  prefix <> [] -> k = Z.of_nat (length prefix) -> length p1 = length p2 ->
  client_login_pass_log prefix k p1 = client_login_pass_log prefix k p2.
Proof.
  intros Hne Hk Hlen. rewrite !(client_log_pass_record prefix k _ Hne Hk), Hlen. reflexivity.
Qed.

Theorem client_censored_args_are_stars prefix k p :
  prefix <> [] -> k = Z.of_nat (length prefix) ->
  let r := client_login_pass_log prefix k p in
  lr_msg r = fmt_client_cmd /\ lr_args r = [prefix; stars (length p)] /\
  lr_message r = prefix ++ stars (length p).
Proof.
  intros Hne Hk. cbv zeta. rewrite (client_log_pass_record prefix k p Hne Hk).
  unfold client_censored_record, lr_message, get_message. cbn [lr_msg lr_args].
  rewrite render_client_cmd. repeat split.
Qed.

(* a censor index beyond the prefix would reveal characters: the obligation k = len(prefix)
   is not vacuous *)
Lemma client_censor_too_late_leaks :
  exists p1 p2, length p1 = length p2 /\
    client_login_pass_log [80; 65; 83; 83; 32] 6 p1 <> client_login_pass_log [80; 65; 83; 83; 32] 6 p2.
Proof. exists [97; 98], [99; 98]. split; [reflexivity|]. vm_compute. congruence. Qed.

(* ================================================================== outcome independence *)
Definition auth_result (st : sstate) (rest : text) : bool :=
  match s_user st with Some u => authenticate u rest | None => false end.

(* the reply to PASS is one of four fixed texts chosen by the session state and the boolean
   authenticate(...) -- never by the characters of the argument *)
Theorem pass_reply_fixed T st rest :
  exists r, snd (handle_pass T st rest) = [r] /\
            In r [t_nouser T; t_already T; t_ok T; t_wrong T].
Proof.
  unfold handle_pass. destruct (s_user st) as [u|].
  - destruct (s_logged st).
    + eexists; split; [reflexivity|]. cbn. tauto.
    + destruct (authenticate u rest); eexists; (split; [reflexivity|]); cbn; tauto.
  - eexists; split; [reflexivity|]. cbn. tauto.
Qed.

Theorem outcome_independent T st p1 p2 :
  auth_result st p1 = auth_result st p2 ->
  handle_pass T st p1 = handle_pass T st p2.
Proof.
  unfold auth_result, handle_pass. destruct (s_user st) as [u|]; [|reflexivity].
  intro H. destruct (s_logged st); [reflexivity|]. rewrite H. reflexivity.
Qed.

(* out of sequence (no USER yet / already logged in): the argument is not even looked at *)
Theorem out_of_sequence_ignores_argument T st p1 p2 :
  s_user st = None \/ s_logged st = true ->
  handle_pass T st p1 = handle_pass T st p2.
Proof.
  unfold handle_pass. intros [H|H].
  - rewrite H. reflexivity.
  - destruct (s_user st); [rewrite H|]; reflexivity.
Qed.

(* ================================================================== one PASS line, whole step *)
Lemma verb_pass_not_user : text_eqb VERB_PASS VERB_USER = false.
Proof. vm_compute. reflexivity. Qed.

Theorem server_step_pass censor T users st V p w :
  lower V = VERB_PASS -> In VERB_PASS censor -> allspace w ->
  server_step censor T users st (V ++ SP :: p ++ w)
  = (fst (handle_pass T st (rstrip p)),
     censored_record V (length (rstrip p))
       :: map (fun r => reply_log (reply_line r)) (snd (handle_pass T st (rstrip p)))).
Proof.
  intros HV Hc Hw. pose proof (lower_nospace V _ HV nospace_pass) as Hns.
  unfold server_step. rewrite (split_command_line V p w Hns Hw), HV, verb_pass_not_user.
  rewrite text_eqb_refl. rewrite (server_log_pass_record censor V p w HV Hc Hw).
  destruct (handle_pass T st (rstrip p)) as [st' rs]. reflexivity.
Qed.

(* the complement of the domain: a verb whose lower() is neither "pass" nor "user" is NOT a login
   attempt for the modelled server, whatever other case mapping (casefold, upper, NFKC) would make
   of it: the state is untouched, no user manager is consulted, the answer is the 502 of an unknown
   command, and the line is logged like any unknown command.  With pass_spellings: the login verbs
   are exactly the 16 ASCII case mixes of "pass"; "PA\u00df", "pa\u017fs", fullwidth letters are not. *)
Theorem other_verbs_are_not_logins censor T users st V p w :
  nospace V -> allspace w -> lower V <> VERB_PASS -> lower V <> VERB_USER ->
  server_step censor T users st (V ++ SP :: p ++ w)
  = (st, [server_parse_command_log censor (V ++ SP :: p ++ w);
          reply_log (reply_line (unknown_verb_reply (lower V)))]).
Proof.
  intros Hns Hw Hp Hu. unfold server_step. rewrite (split_command_line V p w Hns Hw).
  destruct (text_eqb (lower V) VERB_USER) eqn:Eu; [apply text_eqb_eq in Eu; contradiction|].
  destruct (text_eqb (lower V) VERB_PASS) eqn:Ep; [apply text_eqb_eq in Ep; contradiction|].
  reflexivity.
Qed.

(* U+00DF and U+017F: casefold() would read "pass", lower() does not *)
Example sharp_s_is_not_pass :
  lower [80; 65; 223] <> VERB_PASS /\ lower [112; 97; 383; 115] <> VERB_PASS.
Proof. split; vm_compute; congruence. Qed.

(* every record emitted while handling V ++ " " ++ p (the command echo and the replies), and
   the state afterwards, are the same for two passwords of equal (rstripped) length that the
   user manager treats alike (both accepted / both rejected / not consulted) *)
Theorem server_step_hides_password censor T users st V p1 p2 w :
  lower V = VERB_PASS -> In VERB_PASS censor -> allspace w ->
  length (rstrip p1) = length (rstrip p2) ->
  auth_result st (rstrip p1) = auth_result st (rstrip p2) ->
  server_step censor T users st (V ++ SP :: p1 ++ w)
  = server_step censor T users st (V ++ SP :: p2 ++ w).
Proof.
  intros HV Hc Hw Hlen Hauth.
  rewrite !(server_step_pass censor T users st V _ w HV Hc Hw), Hlen.
  rewrite (outcome_independent T st _ _ Hauth). reflexivity.
Qed.

(* whole sessions that differ in one PASS line only *)
(* the state in which the distinguished line is handled *)
Fixpoint state_after (censor : list text) (T : pass_texts) (users : list user)
         (st : sstate) (lines : list text) : sstate :=
  match lines with
  | [] => st
  | l :: r => state_after censor T users (fst (server_step censor T users st l)) r
  end.

Lemma server_run_split censor T users st pre l post :
  server_run censor T users st (pre ++ l :: post)
  = server_run censor T users st pre
      ++ snd (server_step censor T users (state_after censor T users st pre) l)
      ++ server_run censor T users
           (fst (server_step censor T users (state_after censor T users st pre) l)) post.
Proof.
  revert st. induction pre as [|x pre IH]; intro st.
  - cbn [app server_run state_after]. destruct (server_step censor T users st l). reflexivity.
  - cbn [app server_run state_after]. destruct (server_step censor T users st x) as [st1 recs1].
    cbn [fst]. rewrite IH, app_assoc. reflexivity.
Qed.

Theorem server_session_hides_password censor T users host port pre post V p1 p2 w :
  lower V = VERB_PASS -> In VERB_PASS censor -> allspace w ->
  length (rstrip p1) = length (rstrip p2) ->
  auth_result (state_after censor T users init_state pre) (rstrip p1)
  = auth_result (state_after censor T users init_state pre) (rstrip p2) ->
  server_session censor T users host port (pre ++ (V ++ SP :: p1 ++ w) :: post)
  = server_session censor T users host port (pre ++ (V ++ SP :: p2 ++ w) :: post).
Proof.
  intros HV Hc Hw Hlen Hauth. unfold server_session.
  rewrite !server_run_split.
  rewrite (server_step_hides_password censor T users _ V p1 p2 w HV Hc Hw Hlen Hauth).
  reflexivity.
Qed.

(* ================================================================== a whole login, both loggers *)
Lemma client_command_records_hides prefix k p1 p2 :
  prefix <> [] -> k = Z.of_nat (length prefix) -> length p1 = length p2 ->
  client_command_records (login_pass_command prefix p1) k
  = client_command_records (login_pass_command prefix p2) k.
Proof.
  intros Hne Hk Hlen. pose proof (client_log_hides_password prefix k p1 p2 Hne Hk Hlen) as H.
  unfold client_login_pass_log in H. unfold client_command_records, login_pass_command in *.
  destruct prefix as [|x pr]; [congruence|]. cbn [app]. cbn [app] in H. rewrite H. reflexivity.
Qed.

(* ---- Client.login as a program (Lib/LogFacts.v login_prog, regenerated from the source): the
   condition under which its log is independent of the password.  Every branch that appends the
   password binds censor_after, in that very branch, to the length of its own non-empty literal
   prefix; the command sent before the loop (never censored) does not carry the password.
   Nothing is asked of the other branches, of the reset or of the initial value. *)
Definition branch_ok (b : login_branch) : bool :=
  match lb_arg b with
  | ArgPassword =>
      negb (match lb_prefix b with [] => true | _ => false end)
      && match lb_censor b with
         | Some k => k =? Z.of_nat (length (lb_prefix b))
         | None => false
         end
  | _ => true
  end.

Definition login_prog_ok (P : login_prog) : bool :=
  match lb_arg (lp_first P) with ArgPassword => false | _ => true end
  && forallb branch_ok (lp_branches P).

Lemma branch_command_hides b user p1 p2 account c0 :
  branch_ok b = true -> length p1 = length p2 ->
  client_command_records (branch_command b user p1 account)
                         (match lb_censor b with Some v => v | None => c0 end)
  = client_command_records (branch_command b user p2 account)
                           (match lb_censor b with Some v => v | None => c0 end).
Proof.
  intros Hok Hlen. unfold branch_ok in Hok. unfold branch_command.
  destruct (lb_arg b); cbn [login_arg_text]; try reflexivity.
  apply andb_true_iff in Hok. destruct Hok as [Hne Hk].
  destruct (lb_censor b) as [k|]; [|discriminate].
  apply Z.eqb_eq in Hk.
  assert (Hne' : lb_prefix b <> []) by (destruct (lb_prefix b); [discriminate|congruence]).
  exact (client_command_records_hides (lb_prefix b) k p1 p2 Hne' Hk Hlen).
Qed.

Lemma find_branch_ok bs code b :
  forallb branch_ok bs = true -> find_branch bs code = Some b -> branch_ok b = true.
Proof.
  induction bs as [|x r IH]; cbn [find_branch forallb]; intros Hall Hf; [discriminate|].
  apply andb_true_iff in Hall. destruct Hall as [Hx Hr].
  destruct (text_eqb code (lb_code x)); [inversion Hf; subst; exact Hx | exact (IH Hr Hf)].
Qed.

Lemma command_then_ext expected cmd1 cmd2 c lines k1 k2 :
  client_command_records cmd1 c = client_command_records cmd2 c ->
  (forall code rest, k1 code rest = k2 code rest) ->
  command_then expected cmd1 c lines k1 = command_then expected cmd2 c lines k2.
Proof.
  intros Hc Hk. unfold command_then. rewrite Hc.
  destruct (response_records lines) as [recs [[code rest]|]]; [|reflexivity].
  rewrite Hk. reflexivity.
Qed.

Lemma client_login_loop_hides fuel P user p1 p2 account censor code lines :
  forallb branch_ok (lp_branches P) = true -> length p1 = length p2 ->
  client_login_loop fuel P user p1 account censor code lines
  = client_login_loop fuel P user p2 account censor code lines.
Proof.
  intros Hok Hlen. revert censor code lines.
  induction fuel as [|f IH]; intros censor code lines; [reflexivity|].
  cbn [client_login_loop]. destruct (matches (lp_loop_mask P) code); [|reflexivity].
  destruct (find_branch (lp_branches P) code) as [b|] eqn:Hf; [|reflexivity].
  apply command_then_ext.
  - exact (branch_command_hides b user p1 p2 account _ (find_branch_ok _ _ _ Hok Hf) Hlen).
  - intros code' rest. apply IH.
Qed.

(* THE client theorem: for every login program whose password branches censor from the end of
   their own prefix, every user name, account, pair of passwords of equal length and EVERY script
   of reply lines the server may send (any codes, any order, multi-line replies, garbage, early
   EOF), the records of logger aioftp.client during login() are equal. *)
Theorem client_login_run_hides_password P user p1 p2 account lines :
  login_prog_ok P = true -> length p1 = length p2 ->
  client_login_run P user p1 account lines = client_login_run P user p2 account lines.
Proof.
  intros Hok Hlen. unfold login_prog_ok in Hok. apply andb_true_iff in Hok. destruct Hok as [H1 Hbs].
  unfold client_login_run. apply command_then_ext.
  - unfold branch_command. destruct (lb_arg (lp_first P)); [reflexivity|discriminate|reflexivity].
  - intros code rest. apply client_login_loop_hides; assumption.
Qed.

Lemma std_login_prog_ok prefix k :
  prefix <> [] -> k = Z.of_nat (length prefix) -> login_prog_ok (std_login_prog prefix k) = true.
Proof.
  intros Hne Hk. unfold login_prog_ok, std_login_prog, branch_ok. cbn.
  destruct prefix; [congruence|]. cbn. rewrite andb_true_r. apply Z.eqb_eq. exact Hk.
Qed.

Theorem client_login_records_hide_password prefix k user p1 p2 account replies :
  prefix <> [] -> k = Z.of_nat (length prefix) -> length p1 = length p2 ->
  client_login_records prefix k user p1 account replies
  = client_login_records prefix k user p2 account replies.
Proof.
  intros Hne Hk Hlen. unfold client_login_records.
  exact (client_login_run_hides_password _ user p1 p2 account _ (std_login_prog_ok prefix k Hne Hk) Hlen).
Qed.

(* the obligation is not vacuous: the program that binds censor_after once, before the loop, from
   the first reply (modelled here by its value on a 332 first reply: None, no reset, no binding in
   the branches) logs the password when the server answers USER with 332 and ACCT with 331 *)
Definition carried_censor_prog : login_prog := {|
  lp_first := lp_first (std_login_prog [80; 65; 83; 83; 32] 5);
  lp_expected := [T230; T33x]; lp_loop_mask := T33x;
  lp_init_censor := Some 0; lp_reset := None;
  lp_branches := [ {| lb_code := T331; lb_prefix := [80; 65; 83; 83; 32]; lb_arg := ArgPassword; lb_censor := None |};
                   {| lb_code := T332; lb_prefix := CMD_ACCT_; lb_arg := ArgAccount; lb_censor := None |} ]
|}.

Lemma carried_censor_leaks :
  login_prog_ok carried_censor_prog = false /\
  exists p1 p2 lines, length p1 = length p2 /\
    client_login_run carried_censor_prog [117] p1 [97] lines
    <> client_login_run carried_censor_prog [117] p2 [97] lines.
Proof.
  split; [reflexivity|].
  exists [120], [121], [[51; 51; 50; 32; 97; 13; 10]; [51; 51; 49; 32; 112; 13; 10]; [50; 51; 48; 32; 111; 13; 10]].
  split; [reflexivity|]. vm_compute. congruence.
Qed.

(* Client.login against the modelled server: the records of BOTH loggers are the same for two
   passwords of equal length (and equal rstripped length) that the user manager treats alike *)
Theorem login_session_hides_password censor T users V k host port user p1 p2 account :
  lower V = VERB_PASS -> In VERB_PASS censor ->
  k = Z.of_nat (length (V ++ [SP])) ->
  length p1 = length p2 -> length (rstrip p1) = length (rstrip p2) ->
  (let st1 := fst (server_step censor T users init_state ((CMD_USER_ ++ user) ++ eol)) in
   auth_result st1 (rstrip p1) = auth_result st1 (rstrip p2)) ->
  login_session censor T users (V ++ [SP]) k host port user p1 account
  = login_session censor T users (V ++ [SP]) k host port user p2 account.
Proof.
  intros HV Hc Hk Hlen Hrlen Hauth. cbv zeta in Hauth. unfold login_session.
  destruct (server_step censor T users init_state ((CMD_USER_ ++ user) ++ eol)) as [st1 srv1].
  cbn [fst] in Hauth.
  assert (Hne : V ++ [SP] <> []) by (destruct V; discriminate).
  assert (Hline : forall p, login_pass_command (V ++ [SP]) p ++ eol = V ++ SP :: p ++ eol).
  { intro p. unfold login_pass_command. rewrite <- !app_assoc. reflexivity. }
  rewrite !Hline.
  rewrite (server_step_hides_password censor T users st1 V p1 p2 eol HV Hc allspace_eol Hrlen Hauth).
  destruct (match reply_lines_of srv1 with r :: _ => text_eqb (code_of_reply r) T331 | [] => false end).
  - destruct (server_step censor T users st1 (V ++ SP :: p2 ++ eol)) as [st2 s2].
    rewrite (client_login_records_hide_password (V ++ [SP]) k user p1 p2 account _ Hne Hk Hlen).
    reflexivity.
  - rewrite (client_login_records_hide_password (V ++ [SP]) k user p1 p2 account _ Hne Hk Hlen).
    reflexivity.
Qed.

(* ================================================================== stream level *)
Lemma nospace_lf_free V : nospace V -> lf_free V.
Proof.
  unfold nospace, lf_free. intro H. rewrite forallb_forall in *. intros x Hx. specialize (H x Hx).
  apply negb_true_iff. apply negb_true_iff in H.
  destruct (x =? LF) eqn:E; [|reflexivity]. apply Z.eqb_eq in E. subst.
  unfold LF in H. rewrite is_space_LF in H. discriminate.
Qed.

(* readline() hands exactly "V p\r\n" to parse_command when p holds no LF: the record for the
   PASS line is the censored one and the rest of the stream is logged independently of p *)
Theorem server_stream_pass censor V p k :
  lower V = VERB_PASS -> In VERB_PASS censor -> lf_free p ->
  server_stream_log censor ((V ++ SP :: p) ++ eol ++ k)
  = censored_record V (length (rstrip p)) :: server_stream_log censor k.
Proof.
  intros HV Hc Hp. pose proof (lower_nospace V _ HV nospace_pass) as Hns.
  unfold server_stream_log.
  rewrite (split_lines_line (V ++ SP :: p) k).
  - cbn [map]. f_equal. rewrite <- app_assoc. cbn [app].
    apply (server_log_pass_record censor V p eol HV Hc allspace_eol).
  - apply lf_free_app; [apply nospace_lf_free; exact Hns|].
    apply lf_free_cons; [exact SP_LF|exact Hp].
Qed.

Theorem server_stream_hides_password censor V p1 p2 k :
  lower V = VERB_PASS -> In VERB_PASS censor -> lf_free p1 -> lf_free p2 ->
  length (rstrip p1) = length (rstrip p2) ->
  server_stream_log censor ((V ++ SP :: p1) ++ eol ++ k)
  = server_stream_log censor ((V ++ SP :: p2) ++ eol ++ k).
Proof.
  intros HV Hc H1 H2 Hlen.
  rewrite (server_stream_pass censor V p1 k HV Hc H1), (server_stream_pass censor V p2 k HV Hc H2), Hlen.
  reflexivity.
Qed.

(* ================================================================== the 16 spellings *)
Definition pas (x : Z) : bool := (x =? 112) || (x =? 97) || (x =? 115).

(* no non-ASCII character has a lower() that starts with p, a or s; every lower() is non-empty *)
Lemma lower_table_no_pas :
  forallb (fun kv => match snd kv with [] => false | x :: _ => negb (pas x) end) lower_table = true.
Proof. vm_compute. reflexivity. Qed.

Lemma assoc_lower_in c tbl v : assoc_lower c tbl = Some v -> In (c, v) tbl.
Proof.
  induction tbl as [|[k w] r IH]; cbn; [discriminate|].
  destruct (k =? c) eqn:E.
  - intro H. inversion H; subst. apply Z.eqb_eq in E. subst. left. reflexivity.
  - intro H. right. apply IH. exact H.
Qed.

Lemma lower_char_pas c x tl :
  lower_char c = x :: tl -> pas x = true -> tl = [] /\ (c = x \/ c = x - 32).
Proof.
  unfold lower_char. intros H Hx.
  destruct (c <? 128) eqn:Hc.
  - destruct ((65 <=? c) && (c <=? 90)) eqn:Hu; inversion H; subst; split; auto. right. lia.
  - destruct (assoc_lower c lower_table) as [v|] eqn:Ha.
    + apply assoc_lower_in in Ha. pose proof lower_table_no_pas as Tb.
      rewrite forallb_forall in Tb. specialize (Tb _ Ha). cbn [snd] in Tb. subst v.
      rewrite Hx in Tb. discriminate.
    + inversion H; subst. unfold pas in Hx. lia.
Qed.

Lemma lower_char_nonempty c : lower_char c <> [].
Proof.
  unfold lower_char. destruct (c <? 128).
  - destruct ((65 <=? c) && (c <=? 90)); discriminate.
  - destruct (assoc_lower c lower_table) as [v|] eqn:Ha; [|discriminate].
    apply assoc_lower_in in Ha. pose proof lower_table_no_pas as Tb.
    rewrite forallb_forall in Tb. specialize (Tb _ Ha). cbn [snd] in Tb.
    destruct v; [discriminate|discriminate].
Qed.

Lemma lower_cons_pas V x r :
  lower V = x :: r -> pas x = true ->
  exists c V', V = c :: V' /\ (c = x \/ c = x - 32) /\ lower V' = r.
Proof.
  destruct V as [|c V']; [discriminate|]. unfold lower. cbn [flat_map]. intros H Hx.
  destruct (lower_char c) as [|y tl] eqn:E; [exfalso; exact (lower_char_nonempty c E)|].
  cbn in H. injection H as Hy Hr. subst y.
  destruct (lower_char_pas c x tl E Hx) as [Htl Hc]. subst tl. cbn in Hr.
  exists c, V'. split; [reflexivity|]. split; [exact Hc|exact Hr].
Qed.

Lemma lower_nil V : lower V = [] -> V = [].
Proof.
  destruct V as [|c V']; [reflexivity|]. unfold lower. cbn [flat_map].
  destruct (lower_char c) eqn:E; [exfalso; exact (lower_char_nonempty c E)|discriminate].
Qed.

(* the verbs the server treats as PASS are exactly the 16 ASCII case mixes of "pass":
   no non-ASCII look-alike lowers to it *)
Theorem pass_spellings V :
  lower V = VERB_PASS <->
  exists a b c d, V = [a; b; c; d] /\ (a = 112 \/ a = 80) /\ (b = 97 \/ b = 65)
                  /\ (c = 115 \/ c = 83) /\ (d = 115 \/ d = 83).
Proof.
  split.
  - intro H. unfold VERB_PASS in H.
    destruct (lower_cons_pas V _ _ H eq_refl) as [a [V1 [-> [Ha H1]]]].
    destruct (lower_cons_pas V1 _ _ H1 eq_refl) as [b [V2 [-> [Hb H2]]]].
    destruct (lower_cons_pas V2 _ _ H2 eq_refl) as [c [V3 [-> [Hc H3]]]].
    destruct (lower_cons_pas V3 _ _ H3 eq_refl) as [d [V4 [-> [Hd H4]]]].
    apply lower_nil in H4. subst V4. exists a, b, c, d. repeat split; lia.
  - intros [a [b [c [d [-> [Ha [Hb [Hc Hd]]]]]]]].
    destruct Ha, Hb, Hc, Hd; subst; vm_compute; reflexivity.
Qed.

(* ================================================================== illustrations outside the domain *)
(* a password with an embedded LF is two command lines to the server: the tail is logged as a
   command of its own (the client-side record is still censored) *)
Example lf_in_password_out_of_domain :
  map lr_message (server_stream_log [VERB_PASS]
     ([80; 65; 83; 83; 32; 120; 13; 10; 83; 89; 83; 84] ++ eol))
  = [[80; 65; 83; 83; 32; 42]; [83; 89; 83; 84; 32]].
Proof. vm_compute. reflexivity. Qed.

(* "PASS<TAB>secret" is not a PASS command for this server: the verb is the whole token, it is
   answered 502 and logged like any unknown command *)
Example tab_separator_is_not_pass :
  lr_args (server_parse_command_log [VERB_PASS] ([80; 65; 83; 83; 9; 120; 121] ++ eol))
  = [[80; 65; 83; 83; 9; 120; 121]; []].
Proof. vm_compute. reflexivity. Qed.

(* ------------------------------------------------------------------ the record of a line is decided by its dispatch key
   Whatever the SHAPE of the line (no "V ++ SP :: p ++ w" decomposition): when the key the dispatcher looks the handler up
   by -- lower(text before the first space of the rstripped line) -- is in the censor collection, the record is the
   verb and one star per character of the rest; two such lines with the same verb and rests of equal length log the
   same record. *)
Lemma dispatch_key_censored_log censor line :
  text_in (lower (fst (split_command line))) censor = true ->
  server_parse_command_log censor line
  = {| lr_msg := fmt_server_cmd;
       lr_args := [fst (split_command line); stars (length (snd (split_command line)))] |}.
Proof.
  unfold server_parse_command_log. destruct (split_command line) as [cmd rest]. cbn [fst snd].
  intros Hc. rewrite Hc. reflexivity.
Qed.

Lemma same_key_same_length_same_log censor l1 l2 :
  text_in (lower (fst (split_command l1))) censor = true ->
  fst (split_command l1) = fst (split_command l2) ->
  length (snd (split_command l1)) = length (snd (split_command l2)) ->
  server_parse_command_log censor l1 = server_parse_command_log censor l2.
Proof.
  intros Hc Hv Hl.
  rewrite (dispatch_key_censored_log censor l1 Hc).
  rewrite Hv in Hc. rewrite (dispatch_key_censored_log censor l2 Hc).
  rewrite Hv, Hl. reflexivity.
Qed.
