(* Reference footprints of the handlers modelled in Model/Session.v: reply codes the body can
   queue, its literal return values, backend methods it calls, connection attributes it sets /
   deletes.  Written down once from the code the model was transcribed from; Props/C05.v checks
   by vm_compute that TODAY's source (Gen.Dispatch) still has exactly these, so that an edit to a
   handler body that the hand-written model does not follow breaks an obligation at once. *)
From Coq Require Import ZArith List Bool String.
From Verif Require Import Lib.Facts Gen.Dispatch Proofs.GenTable.
Import ListNotations.
Open Scope list_scope.
Local Open Scope string_scope.

Definition ref_footprints : list (string * (list string * list bool * list string * list string * list string)) := [
  ("abor", (["226"], [true], [], [], []));
  ("appe", ([], [], [], [], []));
  ("cdup", ([], [], [], [], []));
  ("cwd", (["250"], [true], [], ["current_directory"], []));
  ("dele", (["250"], [true], ["unlink"], [], []));
  ("epsv", (["522"; "229"; "421"], [true; false], [], ["passive_server"], ["data_connection"]));
  ("list", (["150"], [true], [], [], []));
  ("mkd", (["257"], [true], ["mkdir(parents=True)"], [], []));
  ("mlsd", (["150"], [true], [], [], []));
  ("mlst", (["250"], [true], ["@build_mlsx_string"], [], []));
  ("pass_", (["503"; "230"; "530"], [true], [], ["logged"], []));
  ("pasv", (["421"; "503"; "227"], [false; true], [], ["passive_server"], ["data_connection"]));
  ("pbsz", (["200"], [true], [], [], []));
  ("prot", (["200"; "502"], [true], [], [], []));
  ("pwd", (["257"], [true], [], [], []));
  ("quit", (["221"], [false], [], [], []));
  ("rest", (["350"; "501"], [true], [], ["restart_offset"], []));
  ("retr", (["150"], [true], [], [], []));
  ("rmd", (["250"], [true], ["rmdir"], [], []));
  ("rnfr", (["350"], [true], [], ["rename_from"], []));
  ("rnto", (["250"], [true], ["rename"], [], ["rename_from"]));
  ("stor", (["150"; "550"], [true], ["is_dir"], [], []));
  ("syst", (["215"], [true], [], [], []));
  ("type", (["200"; "502"], [true], [], ["transfer_type"], []));
  ("user", (["230"; "331"; "530"], [true], [], ["logged"; "user"; "current_directory"], ["user"; "logged"; "rename_from"]));
  ("greeting", (["421"; "220"], [false; true], [], ["acquired"], []))
].

Definition ref_workers : list (string * (string * list (list string) * list string * list string * bool * bool)) := [
  ("list_worker", ("list", [["stream"]], [], ["226"], true, true));
  ("mlsd_worker", ("mlsd", [["stream"]], [], ["200"], true, true));
  ("retr_worker", ("retr", [["stream"; "file_in"]], ["rb"], ["226"], true, true));
  ("stor_worker", ("stor", [["stream"; "file_out"]], ["handed:r+b"; "nohanded:$mode"], ["226"], true, true))
].

Definition fp_of (h : Facts.handler) :=
  (h_name h, (h_codes h, h_returns h, map bc_method (h_backend h), h_conn_sets h, h_conn_dels h)).

Definition fp_eqb (a b : string * (list string * list bool * list string * list string * list string)) : bool :=
  let '(n, (c, r, m, s, d)) := a in
  let '(n', (c', r', m', s', d')) := b in
  String.eqb n n' && list_eqb String.eqb c c' && list_eqb Bool.eqb r r' && list_eqb String.eqb m m'
  && list_eqb String.eqb s s' && list_eqb String.eqb d d'.

Definition footprints_match : bool := list_eqb fp_eqb (map fp_of handlers) ref_footprints.

Definition wk_of (w : Facts.worker) :=
  (w_name w, (w_owner w, w_ctx w, w_open_modes w, w_codes w, w_detach_first w, w_reply_after_ctx w)).

Definition wk_eqb (a b : string * (string * list (list string) * list string * list string * bool * bool)) : bool :=
  let '(n, (o, c, m, k, d, r)) := a in
  let '(n', (o', c', m', k', d', r')) := b in
  String.eqb n n' && String.eqb o o' && list_eqb (list_eqb String.eqb) c c' && list_eqb String.eqb m m'
  && list_eqb String.eqb k k' && Bool.eqb d d' && Bool.eqb r r'.

Definition workers_match : bool := list_eqb wk_eqb (map wk_of workers) ref_workers.
