(* The checker over the regenerated logging-site inventory (Lib/LogFacts.v types, values in
   Gen/Logging.v) and its soundness lemmas w.r.t. Model/LogCensor.v (C20). *)
From Coq Require Import ZArith List Bool Lia String.
From Verif Require Import Lib.Sx Lib.PyStr Lib.PyStr4 Lib.LogFacts
     Proofs.PyStrFacts Model.Framing Proofs.Framing Model.LogCensor Proofs.LogCensor.
Import ListNotations.
Notation length := (@List.length _) (only parsing).
Open Scope Z_scope.

(* ================================================================== checker over the site inventory *)
Open Scope string_scope.

(* where a traceback may be logged: only in the dispatcher's catch-all, with a literal message and
   nothing else.  Justification (docs/notes/C20.md): logging formats exception type, message
   and source lines, never locals; the functions that hold a password-bearing value build no
   exception from it (secret_raise_sites = [], checked below). *)
Definition exc_allowed_at : list (string * string) := [("server.py", "Server.dispatcher")].

Definition site_at (s : logsite) (l : list (string * string)) : bool :=
  existsb (fun fl => String.eqb (fst fl) (ls_file s) && String.eqb (snd fl) (ls_func s)) l.

Definition site_ok (s : logsite) : bool :=
  forallb lsrc_allowed (ls_srcs s)
  && match ls_fmt s with
     | Some _ => true
     | None => (length (ls_srcs s) =? 1)%nat   (* a computed msg is logged without args: never %-formatted *)
     end
  && (if existsb lsrc_is_exc (ls_srcs s)
      then site_at s exc_allowed_at
           && forallb (fun x => lsrc_is_exc x || lsrc_is_const x) (ls_srcs s)
      else true).

Definition check_log_sites (sites : list logsite) : bool := forallb site_ok sites.

Definition bad_sites (sites : list logsite) : list logsite := filter (fun s => negb (site_ok s)) sites.

Definition sites_of (file func : string) (sites : list logsite) : list logsite :=
  filter (fun s => String.eqb (ls_file s) file && String.eqb (ls_func s) func) sites.

Definition strs_subset (a b : list string) : bool :=
  forallb (fun x => existsb (String.eqb x) b) a.

(* the shape of the modelled sites, as the model assumes them *)
Definition server_site_censored : logsite :=
  {| ls_file := "server.py"; ls_func := "Server.parse_command"; ls_level := "debug";
     ls_fmt := Some "%s %s"; ls_srcs := [SrcConst; SrcCmdVerb; SrcStars] |}.
Definition server_site_plain : logsite :=
  {| ls_file := "server.py"; ls_func := "Server.parse_command"; ls_level := "debug";
     ls_fmt := Some "%s %s"; ls_srcs := [SrcConst; SrcCmdVerb; SrcCmdRestGuarded] |}.
Definition client_site_censored : logsite :=
  {| ls_file := "client.py"; ls_func := "BaseClient.command"; ls_level := "debug";
     ls_fmt := Some "%s%s"; ls_srcs := [SrcConst; SrcCensoredPrefix; SrcStars] |}.
Definition client_site_plain : logsite :=
  {| ls_file := "client.py"; ls_func := "BaseClient.command"; ls_level := "debug";
     ls_fmt := None; ls_srcs := [SrcClientCommandGuarded] |}.
Definition server_site_reply : logsite :=
  {| ls_file := "server.py"; ls_func := "Server.write_line"; ls_level := "debug";
     ls_fmt := None; ls_srcs := [SrcReplyLine] |}.
Definition client_site_reply : logsite :=
  {| ls_file := "client.py"; ls_func := "BaseClient.parse_line"; ls_level := "debug";
     ls_fmt := None; ls_srcs := [SrcReplyLine] |}.

Definition lsrc_eqb (a b : lsrc) : bool :=
  match a, b with
  | SrcConst, SrcConst | SrcLen, SrcLen | SrcStars, SrcStars | SrcCensoredPrefix, SrcCensoredPrefix
  | SrcPeerLine, SrcPeerLine | SrcCmdVerb, SrcCmdVerb | SrcCmdRest, SrcCmdRest
  | SrcCmdRestGuarded, SrcCmdRestGuarded | SrcClientCommand, SrcClientCommand
  | SrcClientCommandGuarded, SrcClientCommandGuarded | SrcReplyLine, SrcReplyLine
  | SrcAddr, SrcAddr | SrcExcInfo, SrcExcInfo | SrcPath, SrcPath => true
  | SrcUnknown x, SrcUnknown y => String.eqb x y
  | _, _ => false
  end.

Fixpoint list_eqb {A} (eqb : A -> A -> bool) (a b : list A) : bool :=
  match a, b with
  | [], [] => true
  | x :: a', y :: b' => eqb x y && list_eqb eqb a' b'
  | _, _ => false
  end.

Definition site_eqb (a b : logsite) : bool :=
  String.eqb (ls_file a) (ls_file b) && String.eqb (ls_func a) (ls_func b)
  && String.eqb (ls_level a) (ls_level b)
  && match ls_fmt a, ls_fmt b with
     | Some x, Some y => String.eqb x y
     | None, None => true
     | _, _ => false
     end
  && list_eqb lsrc_eqb (ls_srcs a) (ls_srcs b).

(* the inventory contains, for each modelled function, exactly the sites the model reproduces *)
Definition modelled_sites_match (sites : list logsite) : bool :=
  list_eqb site_eqb (sites_of "server.py" "Server.parse_command" sites) [server_site_censored; server_site_plain]
  && list_eqb site_eqb (sites_of "client.py" "BaseClient.command" sites) [client_site_censored; client_site_plain]
  && list_eqb site_eqb (sites_of "server.py" "Server.write_line" sites) [server_site_reply]
  && list_eqb site_eqb (sites_of "client.py" "BaseClient.parse_line" sites) [client_site_reply].

(* the structural facts around PASS that the model and the whitelist rely on *)
Definition password_use_ok (u : string * string) : bool :=
  (String.eqb (fst u) "login" && String.prefix "concat:" (snd u))
  || (String.eqb (fst u) "context" && String.eqb (snd u) "arg:@obj.login").

Definition check_pass_facts
    (translator_ok : bool) (censor : list text) (guard_count : Z)
    (called_default returns_lowered replies_literal : bool)
    (sinks deco_sinks disp_sinks : list string) (lookup_by_parsed_verb : bool)
    (unknown_names : list string)
    (prefix : text) (k : Z) (forwards : bool)
    (pw_uses raises : list (string * string)) : bool :=
  translator_ok
  && text_in VERB_PASS censor                         (* "pass" is in parse_command's censor tuple *)
  && (guard_count =? 1)%Z                             (* ... and the log is guarded by exactly that test *)
  && called_default                                   (* nobody overrides censor_commands *)
  && returns_lowered                                  (* the dispatcher looks up cmd.lower(): same key as the censor test *)
  && replies_literal                                  (* every reply of the PASS handler is a pair of literals *)
  && strs_subset sinks ["self.user_manager.authenticate"]   (* rest of PASS only goes to authenticate *)
  (* locals are named by their ROLE (what they are bound to), never by their spelling in the source:
     @wrapped = the function ConnectionConditions.__call__ decorates, @handler = the local bound to
     self.commands_mapping.get(@verb), (@verb, @rest) = the pair unpacked from the parse_command task's result *)
  && strs_subset deco_sinks ["@wrapped"]              (* the decorator only passes rest through *)
  && strs_subset disp_sinks ["@handler"]              (* the dispatcher only hands rest to the handler *)
  && lookup_by_parsed_verb                            (* the handler of a line is commands_mapping.get(<the verb parse_command
                                                         returned>), the dispatcher's only read of the mapping, and neither verb,
                                                         rest nor handler is re-bound: the handler a line REACHES is decided by
                                                         the very key the censor tested (no alias / prefix / fallback lookup) *)
  && strs_subset unknown_names ["@verb"]              (* the 502 text mentions the verb only *)
  && text_eqb (lower prefix) (VERB_PASS ++ [SP])%list   (* login sends "<PASS spelling> " + password *)
  && (k =? Z.of_nat (List.length prefix))%Z           (* ... censored from exactly the end of that prefix *)
  && forwards
  && forallb password_use_ok pw_uses                  (* no other use of `password` in client.py *)
  && match raises with [] => true | _ => false end.   (* no exception is built from a password-bearing local *)

Close Scope string_scope.

(* ------------------------------------------------------------------ soundness: what a source denotes *)
(* values in scope of Server.parse_command while it handles `line`; None = the site is on the
   branch that is not executed for this line *)
Definition den_server (censor : list text) (line : text) (s : lsrc) : option text :=
  let '(cmd, rest) := split_command line in
  match s with
  | SrcCmdVerb => Some cmd
  | SrcStars => Some (stars (length rest))
  | SrcLen => Some (repeat 0 (length rest))
  | SrcCmdRest => Some rest
  | SrcCmdRestGuarded => if text_in (lower cmd) censor then None else Some rest
  | SrcPeerLine => Some line
  | _ => Some []                       (* not derived from the command line *)
  end.

(* values in scope of BaseClient.command(command, censor_after=k) *)
Definition den_client (command : text) (k : Z) (s : lsrc) : option text :=
  match s with
  | SrcCensoredPrefix => if truthy k then Some (py_slice_to k command) else None
  | SrcStars => Some (stars (length (py_slice_from k command)))
  | SrcLen => Some (repeat 0 (length (py_slice_from k command)))
  | SrcClientCommand => Some command
  | SrcClientCommandGuarded => if truthy k then None else Some command
  | _ => Some []
  end.

Fixpoint all_some {A} (l : list (option A)) : option (list A) :=
  match l with
  | [] => Some []
  | None :: _ => None
  | Some x :: r => match all_some r with Some r' => Some (x :: r') | None => None end
  end.

(* the record a site emits: a literal format with argument sources, or a computed msg alone *)
Definition fire (den : lsrc -> option text) (fmt : text) (s : logsite) : option logrec :=
  match ls_fmt s, ls_srcs s with
  | Some _, SrcConst :: args =>
      match all_some (map den args) with
      | Some a => Some {| lr_msg := fmt; lr_args := a |}
      | None => None
      end
  | None, [m] => match den m with Some v => Some {| lr_msg := v; lr_args := [] |} | None => None end
  | _, _ => None
  end.

(* the model's server record is what the inventoried sites denote: exactly one of the two
   parse_command sites fires for each line *)
Theorem model_matches_server_sites censor line :
  (text_in (lower (fst (split_command line))) censor = true ->
     fire (den_server censor line) fmt_server_cmd server_site_censored
       = Some (server_parse_command_log censor line)
     /\ fire (den_server censor line) fmt_server_cmd server_site_plain = None)
  /\ (text_in (lower (fst (split_command line))) censor = false ->
     fire (den_server censor line) fmt_server_cmd server_site_plain
       = Some (server_parse_command_log censor line)).
Proof.
  unfold fire, server_parse_command_log, den_server. cbn [ls_fmt ls_srcs server_site_censored server_site_plain map].
  destruct (split_command line) as [cmd rest]. cbn [fst]. split; intro H; rewrite H; cbn; auto.
Qed.

Theorem model_matches_client_sites command k :
  (truthy k = true ->
     fire (den_client command k) fmt_client_cmd client_site_censored = Some (client_command_log command k)
     /\ fire (den_client command k) fmt_client_cmd client_site_plain = None)
  /\ (truthy k = false ->
     fire (den_client command k) fmt_client_cmd client_site_plain = Some (client_command_log command k)).
Proof.
  unfold fire, client_command_log, den_client.
  cbn [ls_fmt ls_srcs client_site_censored client_site_plain map].
  split; intro H; rewrite H; cbn; auto.
Qed.

(* soundness of the source whitelist: a value from an allowed source, in parse_command's scope,
   is the same for two PASS lines whose arguments have equal rstripped length *)
Theorem allowed_source_hides_server censor s V p1 p2 w :
  lsrc_allowed s = true ->
  lower V = VERB_PASS -> In VERB_PASS censor -> allspace w ->
  length (rstrip p1) = length (rstrip p2) ->
  den_server censor (V ++ SP :: p1 ++ w) s = den_server censor (V ++ SP :: p2 ++ w) s.
Proof.
  intros Hs HV Hc Hw Hlen. pose proof (lower_nospace V _ HV nospace_pass) as Hns.
  unfold den_server. rewrite !(split_command_line V _ w Hns Hw).
  assert (E : text_in (lower V) censor = true) by (rewrite HV; apply text_in_spec; exact Hc).
  destruct s; cbn in Hs; try discriminate; try reflexivity; rewrite ?E, ?Hlen; reflexivity.
Qed.

(* hence any site that passes the checker, placed anywhere in parse_command, emits the same
   record for the two lines *)
Theorem checked_site_hides_server censor fmt s V p1 p2 w :
  site_ok s = true ->
  lower V = VERB_PASS -> In VERB_PASS censor -> allspace w ->
  length (rstrip p1) = length (rstrip p2) ->
  fire (den_server censor (V ++ SP :: p1 ++ w)) fmt s
  = fire (den_server censor (V ++ SP :: p2 ++ w)) fmt s.
Proof.
  intros Hok HV Hc Hw Hlen. unfold site_ok in Hok.
  apply andb_true_iff in Hok as [Hok _]. apply andb_true_iff in Hok as [Hall _].
  rewrite forallb_forall in Hall.
  assert (Hden : forall x, In x (ls_srcs s) ->
            den_server censor (V ++ SP :: p1 ++ w) x = den_server censor (V ++ SP :: p2 ++ w) x).
  { intros x Hx. apply allowed_source_hides_server; auto. }
  unfold fire. destruct (ls_fmt s).
  - destruct (ls_srcs s) as [|m args]; [reflexivity|].
    assert (Hm : map (den_server censor (V ++ SP :: p1 ++ w)) args
                 = map (den_server censor (V ++ SP :: p2 ++ w)) args).
    { apply map_ext_in. intros x Hx. apply Hden. right. exact Hx. }
    rewrite Hm. reflexivity.
  - destruct (ls_srcs s) as [|m [|m' r]]; try reflexivity.
    rewrite (Hden m (or_introl eq_refl)). reflexivity.
Qed.

(* the whitelist is not vacuous: the unguarded sources do reveal the argument *)
Lemma unguarded_rest_leaks :
  exists p1 p2, length (rstrip p1) = length (rstrip p2) /\
    den_server [VERB_PASS] ([80; 65; 83; 83] ++ SP :: p1 ++ eol) SrcCmdRest
    <> den_server [VERB_PASS] ([80; 65; 83; 83] ++ SP :: p2 ++ eol) SrcCmdRest.
Proof. exists [97], [98]. split; [reflexivity|]. vm_compute. congruence. Qed.

Theorem allowed_source_hides_client s prefix k p1 p2 :
  lsrc_allowed s = true ->
  prefix <> [] -> k = Z.of_nat (length prefix) -> length p1 = length p2 ->
  den_client (prefix ++ p1) k s = den_client (prefix ++ p2) k s.
Proof.
  intros Hs Hne Hk Hlen.
  assert (Ht : truthy k = true).
  { unfold truthy. apply negb_true_iff, Z.eqb_neq. destruct prefix; [congruence|]. cbn in Hk. lia. }
  unfold den_client, py_slice_to, py_slice_from. subst k.
  rewrite !clamp_prefix, !firstn_prefix, !skipn_prefix, Ht.
  destruct s; cbn in Hs; try discriminate; try reflexivity; rewrite ?Hlen; reflexivity.
Qed.

Theorem checked_site_hides_client fmt s prefix k p1 p2 :
  site_ok s = true ->
  prefix <> [] -> k = Z.of_nat (length prefix) -> length p1 = length p2 ->
  fire (den_client (prefix ++ p1) k) fmt s = fire (den_client (prefix ++ p2) k) fmt s.
Proof.
  intros Hok Hne Hk Hlen. unfold site_ok in Hok.
  apply andb_true_iff in Hok as [Hok _]. apply andb_true_iff in Hok as [Hall _].
  rewrite forallb_forall in Hall.
  assert (Hden : forall x, In x (ls_srcs s) ->
            den_client (prefix ++ p1) k x = den_client (prefix ++ p2) k x).
  { intros x Hx. apply allowed_source_hides_client; auto. }
  unfold fire. destruct (ls_fmt s).
  - destruct (ls_srcs s) as [|m args]; [reflexivity|].
    assert (Hm : map (den_client (prefix ++ p1) k) args = map (den_client (prefix ++ p2) k) args).
    { apply map_ext_in. intros x Hx. apply Hden. right. exact Hx. }
    rewrite Hm. reflexivity.
  - destruct (ls_srcs s) as [|m [|m' r]]; try reflexivity.
    rewrite (Hden m (or_introl eq_refl)). reflexivity.
Qed.

