(* Proofs about Model/ClientTree.v (C09). *)
From Coq Require Import ZArith List Bool Lia Permutation.
From Verif Require Import Lib.Sx Model.ClientTree.
Import ListNotations.
Open Scope Z_scope.

(* ================================================================== *)
(* names and association lists                                          *)

Lemma name_eqb_eq a b : name_eqb a b = true <-> a = b.
Proof.
  revert b; induction a as [|x a IH]; intros [|y b]; simpl; split; intro H; try discriminate; auto.
  - apply andb_true_iff in H as [H1 H2]. apply Z.eqb_eq in H1. apply IH in H2. congruence.
  - inversion H; subst. rewrite Z.eqb_refl. simpl. apply IH. reflexivity.
Qed.

Lemma name_eqb_refl a : name_eqb a a = true.
Proof. apply name_eqb_eq. reflexivity. Qed.

Lemma name_eqbP a b : reflect (a = b) (name_eqb a b).
Proof.
  destruct (name_eqb a b) eqn:E; constructor.
  - apply name_eqb_eq; assumption.
  - intro H. apply name_eqb_eq in H. congruence.
Qed.

Lemma name_eqb_sym a b : name_eqb a b = name_eqb b a.
Proof. destruct (name_eqbP a b), (name_eqbP b a); congruence. Qed.

Lemma assoc_set_child n m v l :
  assoc n (set_child m v l) = if name_eqb n m then Some v else assoc n l.
Proof.
  induction l as [|[k t] l IH]; simpl.
  - destruct (name_eqb n m); reflexivity.
  - destruct (name_eqbP m k) as [->|Hmk]; simpl.
    + destruct (name_eqbP n k); reflexivity.
    + rewrite IH. destruct (name_eqbP n k) as [->|Hnk]; [|reflexivity].
      destruct (name_eqbP k m); congruence.
Qed.

Lemma set_child_same n c l : assoc n l = Some c -> set_child n c l = l.
Proof.
  induction l as [|[k t] l IH]; simpl; [discriminate|].
  destruct (name_eqbP n k) as [->|H]; intro E.
  - congruence.
  - rewrite IH; auto.
Qed.

Lemma set_child_twice n v w l : set_child n w (set_child n v l) = set_child n w l.
Proof.
  induction l as [|[k t] l IH]; simpl.
  - rewrite name_eqb_refl. reflexivity.
  - destruct (name_eqbP n k) as [->|H]; simpl.
    + rewrite name_eqb_refl. reflexivity.
    + destruct (name_eqbP n k); [contradiction|]. rewrite IH. reflexivity.
Qed.

Lemma child_or_set_child n v l : child_or n (set_child n v l) = v.
Proof. unfold child_or. rewrite assoc_set_child, name_eqb_refl. reflexivity. Qed.

Lemma assoc_del_child_other n m l : n <> m -> assoc n (del_child m l) = assoc n l.
Proof.
  intro H. induction l as [|[k t] l IH]; simpl; auto.
  destruct (name_eqbP m k) as [->|Hmk]; simpl.
  - destruct (name_eqbP n k); congruence.
  - rewrite IH. reflexivity.
Qed.

Lemma assoc_In n l c : assoc n l = Some c -> In n (map fst l).
Proof.
  induction l as [|[k t] l IH]; simpl; [discriminate|].
  destruct (name_eqbP n k) as [->|H]; auto.
Qed.

Lemma assoc_notin n l : ~ In n (map fst l) -> assoc n l = None.
Proof.
  induction l as [|[k t] l IH]; simpl; auto. intro H.
  destruct (name_eqbP n k) as [->|Hn]; [tauto|]. apply IH. tauto.
Qed.

Lemma assoc_del_child_same n l : NoDup (map fst l) -> assoc n (del_child n l) = None.
Proof.
  induction l as [|[k t] l IH]; simpl; auto. intro H. inversion H; subst.
  destruct (name_eqbP n k) as [->|Hn].
  - apply assoc_notin. assumption.
  - simpl. destruct (name_eqbP n k); [contradiction|]. auto.
Qed.

(* ================================================================== *)
(* prefixes                                                             *)

Definition is_prefix (q p : list name) : bool :=
  match strip_prefix q p with Some _ => true | None => false end.

Lemma strip_prefix_app p r : strip_prefix p (p ++ r) = Some r.
Proof. induction p as [|a p IH]; simpl; auto. rewrite name_eqb_refl. exact IH. Qed.

Lemma strip_prefix_Some p q r : strip_prefix p q = Some r -> q = p ++ r.
Proof.
  revert q; induction p as [|a p IH]; intros q; simpl.
  - intro H; inversion H; reflexivity.
  - destruct q as [|b q]; [discriminate|].
    destruct (name_eqbP a b) as [->|]; [|discriminate].
    intro H. apply IH in H. subst. reflexivity.
Qed.

Lemma is_prefix_app p r : is_prefix p (p ++ r) = true.
Proof. unfold is_prefix. rewrite strip_prefix_app. reflexivity. Qed.

Lemma is_prefix_refl p : is_prefix p p = true.
Proof. rewrite <- (app_nil_r p) at 2. apply is_prefix_app. Qed.

Lemma is_prefix_true q p : is_prefix q p = true -> exists r, p = q ++ r.
Proof.
  unfold is_prefix. destruct (strip_prefix q p) eqn:E; [|discriminate].
  intros _. exists l. apply strip_prefix_Some. assumption.
Qed.

Lemma is_prefix_nil p : is_prefix [] p = true.
Proof. reflexivity. Qed.

Lemma is_prefix_cons a q b p :
  is_prefix (a :: q) (b :: p) = name_eqb a b && is_prefix q p.
Proof. unfold is_prefix. simpl. destruct (name_eqb a b); reflexivity. Qed.

Lemma is_prefix_trans a b c : is_prefix a b = true -> is_prefix b c = true -> is_prefix a c = true.
Proof.
  intros H1 H2. apply is_prefix_true in H1 as [r1 ->]. apply is_prefix_true in H2 as [r2 ->].
  rewrite <- app_assoc. apply is_prefix_app.
Qed.

(* ================================================================== *)
(* lookup / update_at: the algebra of path-indexed updates               *)

Definition sub_or (t : tree) (p : list name) : tree :=
  match lookup t p with Some s => s | None => Dir [] end.

Lemma lookup_app t p r : lookup t (p ++ r) = match lookup t p with Some s => lookup s r | None => None end.
Proof.
  revert t; induction p as [|n p IH]; intros t; simpl; auto.
  destruct t as [c|ch]; auto. destruct (assoc n ch); auto.
Qed.

Lemma lookup_empty_dir p : p <> [] -> lookup (Dir []) p = None.
Proof. destruct p; [congruence|reflexivity]. Qed.

Lemma sub_or_empty p : sub_or (Dir []) p = Dir [].
Proof. unfold sub_or. destruct p; reflexivity. Qed.

Lemma sub_or_cons t n p : sub_or t (n :: p) = sub_or (child_or n (as_dir t)) p.
Proof.
  unfold sub_or, child_or. simpl. destruct t as [c|ch]; simpl.
  - destruct p; reflexivity.
  - destruct (assoc n ch); [reflexivity|]. destruct p; reflexivity.
Qed.

Lemma lookup_update_same t p f : lookup (update_at t p f) p = Some (f (sub_or t p)).
Proof.
  revert t; induction p as [|n p IH]; intros t.
  - reflexivity.
  - simpl. rewrite assoc_set_child, name_eqb_refl, IH, sub_or_cons. reflexivity.
Qed.

Lemma update_at_ext t p f g : (forall s, f s = g s) -> update_at t p f = update_at t p g.
Proof. intro H. revert t; induction p as [|n p IH]; intros t; simpl; [apply H|]. rewrite IH. reflexivity. Qed.

Lemma update_at_app t p q f : update_at t (p ++ q) f = update_at t p (fun s => update_at s q f).
Proof. revert t; induction p as [|n p IH]; intros t; simpl; auto. rewrite IH. reflexivity. Qed.

Lemma update_at_twice t p f g : update_at (update_at t p f) p g = update_at t p (fun s => g (f s)).
Proof.
  revert t; induction p as [|n p IH]; intros t; simpl; auto.
  rewrite child_or_set_child, set_child_twice, IH. reflexivity.
Qed.

Lemma update_at_id t p f s : lookup t p = Some s -> f s = s -> update_at t p f = t.
Proof.
  revert t; induction p as [|n p IH]; intros t; simpl.
  - intros H E; inversion H; subst; auto.
  - destruct t as [c|ch]; [discriminate|]. simpl. destruct (assoc n ch) as [c|] eqn:A; [|discriminate].
    intros H E. unfold child_or. rewrite A. rewrite (IH c H E). rewrite set_child_same; auto.
Qed.

(* what an observer sees after an update: unconditional *)
Lemma look_update_at t p f q :
  look (update_at t p f) q =
  match strip_prefix p q with
  | Some r => look (f (sub_or t p)) r
  | None => if is_prefix q p then Some EDir else look t q
  end.
Proof.
  revert t q; induction p as [|n p IH]; intros t q.
  - reflexivity.
  - destruct q as [|m q].
    + reflexivity.
    + simpl strip_prefix. rewrite is_prefix_cons. unfold look at 1. simpl lookup.
      rewrite assoc_set_child. rewrite (name_eqb_sym m n).
      destruct (name_eqbP n m) as [->|Hnm]; simpl andb.
      * change (option_map entry_of (lookup (update_at (child_or m (as_dir t)) p f) q))
          with (look (update_at (child_or m (as_dir t)) p f) q).
        rewrite IH. rewrite <- sub_or_cons.
        destruct (strip_prefix p q) eqn:S; [reflexivity|].
        destruct (is_prefix q p) eqn:P; [reflexivity|].
        unfold look, child_or. simpl. destruct t as [c|ch]; simpl.
        -- destruct q; [discriminate P|reflexivity].
        -- destruct (assoc m ch); [reflexivity|]. destruct q; [discriminate P|reflexivity].
      * unfold look. simpl. destruct t as [c|ch]; simpl; reflexivity.
Qed.

Lemma look_nil t : look t [] = Some (entry_of t).
Proof. reflexivity. Qed.

Lemma look_app t p r : look t (p ++ r) = match lookup t p with Some s => look s r | None => None end.
Proof. unfold look. rewrite lookup_app. destruct (lookup t p); reflexivity. Qed.

Lemma look_file_below c r : r <> [] -> look (File c) r = None.
Proof. destruct r; [congruence|reflexivity]. Qed.

Lemma look_dirify s r : r <> [] -> look (dirify s) r = look s r.
Proof. destruct r; [congruence|]. destruct s; reflexivity. Qed.

Lemma look_ensure_dir t p q :
  look (ensure_dir t p) q = if is_prefix q p then Some EDir else look t q.
Proof.
  unfold ensure_dir. rewrite look_update_at.
  destruct (strip_prefix p q) as [r|] eqn:S; [|reflexivity].
  apply strip_prefix_Some in S. subst q. destruct r as [|m r].
  - rewrite app_nil_r, is_prefix_refl. reflexivity.
  - replace (is_prefix (p ++ m :: r) p) with false.
    + rewrite look_dirify by discriminate. rewrite look_app. unfold sub_or.
      destruct (lookup t p); reflexivity.
    + symmetry. destruct (is_prefix (p ++ m :: r) p) eqn:E; auto.
      apply is_prefix_true in E as [x E]. rewrite <- app_assoc in E.
      rewrite <- (app_nil_r p) in E at 1. apply app_inv_head in E. discriminate.
Qed.

Fixpoint path_eqb (p q : list name) : bool :=
  match p, q with
  | [], [] => true
  | a :: p', b :: q' => name_eqb a b && path_eqb p' q'
  | _, _ => false
  end.

Lemma path_eqb_eq p q : path_eqb p q = true <-> p = q.
Proof.
  revert q; induction p as [|a p IH]; intros [|b q]; simpl; split; intro H; try discriminate; auto.
  - apply andb_true_iff in H as [H1 H2]. apply name_eqb_eq in H1. apply IH in H2. congruence.
  - inversion H; subst. rewrite name_eqb_refl. apply IH. reflexivity.
Qed.

Lemma look_write_at t p c q :
  look (write_at t p c) q =
  match strip_prefix p q with
  | Some [] => Some (EFile c)
  | Some (_ :: _) => None
  | None => if is_prefix q p then Some EDir else look t q
  end.
Proof.
  unfold write_at. rewrite look_update_at. destruct (strip_prefix p q) as [[|m r]|]; reflexivity.
Qed.

(* ================================================================== *)
(* paths as the server resolves them                                     *)

Definition base (cwd : list name) (ab : bool) : list name := if ab then [] else cwd.

Lemma resolve_base cwd p : resolve cwd p = base cwd (p_abs p) ++ p_parts p.
Proof. unfold resolve, base. destruct (p_abs p); reflexivity. Qed.

Lemma resolve_join cwd p r : resolve cwd (pjoin p (mkp false r)) = resolve cwd p ++ r.
Proof.
  unfold resolve, pjoin; simpl. destruct (p_abs p); simpl; [reflexivity|].
  rewrite app_assoc. reflexivity.
Qed.

Lemma resolve_parent cwd p :
  p_parts p <> [] -> resolve cwd (pparent p) = removelast (resolve cwd p).
Proof.
  intro H. unfold resolve, pparent; simpl. destruct (p_abs p); [reflexivity|].
  rewrite removelast_app by assumption. reflexivity.
Qed.

Lemma look_None t p : look t p = None <-> lookup t p = None.
Proof. unfold look. destruct (lookup t p); simpl; split; congruence. Qed.

Lemma look_dir t p : look t p = Some EDir <-> exists ch, lookup t p = Some (Dir ch).
Proof.
  unfold look. destruct (lookup t p) as [[c|ch]|]; simpl; split; try congruence.
  - intros [ch H]; congruence.
  - intros _. eauto.
  - intros [ch H]; congruence.
Qed.

Lemma look_file t p c : look t p = Some (EFile c) <-> lookup t p = Some (File c).
Proof.
  unfold look. destruct (lookup t p) as [[c'|ch]|]; simpl; split; congruence.
Qed.

Lemma root_is_dir fs cwd ch : lookup fs cwd = Some (Dir ch) -> exists ch0, fs = Dir ch0.
Proof.
  destruct fs as [c|ch0]; [|eauto]. destruct cwd; simpl; intro H; congruence.
Qed.

Lemma lookup_base fs cwd ch ab :
  lookup fs cwd = Some (Dir ch) -> exists chb, lookup fs (base cwd ab) = Some (Dir chb).
Proof.
  intro H. destruct ab; simpl; [|eauto]. destruct (root_is_dir _ _ _ H) as [ch0 ->]. eauto.
Qed.

Lemma blocked_true t p :
  blocked t p = true -> exists q r c, p = q ++ r /\ r <> [] /\ lookup t q = Some (File c).
Proof.
  revert t; induction p as [|n p IH]; intros t; simpl; [discriminate|].
  destruct t as [c|ch].
  - intros _. exists [], (n :: p), c. repeat split; congruence.
  - destruct (assoc n ch) as [s|] eqn:A; [|discriminate].
    intro H. apply IH in H as (q & r & c & -> & Hr & L).
    exists (n :: q), r, c. repeat split; auto. simpl. rewrite A. exact L.
Qed.

Lemma proper_prefix_snoc (q r x : list name) n :
  q ++ r = x ++ [n] -> r <> [] -> is_prefix q x = true.
Proof.
  intros E Hr. destruct (exists_last Hr) as (r' & m & ->).
  rewrite app_assoc in E. apply app_inj_tail in E as [<- _]. apply is_prefix_app.
Qed.

(* ================================================================== *)
(* make_directory is mkdir -p                                            *)

Lemma ensure_dir_exists t p ch : lookup t p = Some (Dir ch) -> ensure_dir t p = t.
Proof. intro H. apply (update_at_id t p dirify (Dir ch)); auto. Qed.

Lemma update_after_ensure t x n r f :
  update_at (ensure_dir t x) (x ++ n :: r) f = update_at t (x ++ n :: r) f.
Proof.
  unfold ensure_dir. rewrite update_at_app, update_at_twice, update_at_app.
  apply update_at_ext. intro s. reflexivity.
Qed.

Lemma ensure_dir_absorb t x n : ensure_dir (ensure_dir t x) (x ++ [n]) = ensure_dir t (x ++ [n]).
Proof. unfold ensure_dir at 1. rewrite update_after_ensure. reflexivity. Qed.

Lemma lookup_ensure_dir_below t x n r : lookup (ensure_dir t x) (x ++ n :: r) = lookup t (x ++ n :: r).
Proof.
  rewrite !lookup_app. unfold ensure_dir. rewrite lookup_update_same. unfold sub_or.
  destruct (lookup t x) as [[c|ch]|]; simpl; reflexivity.
Qed.

Lemma mkd_all_app cwd l1 l2 fs : mkd_all cwd (l1 ++ l2) fs = bind (mkd_all cwd l1 fs) (mkd_all cwd l2).
Proof.
  revert fs; induction l1 as [|p l1 IH]; intros fs; simpl; [reflexivity|].
  destruct (r_mkd cwd fs p); simpl; auto.
Qed.

Definition no_file_on (fs : tree) (a : list name) : Prop :=
  forall q, is_prefix q a = true -> forall c, lookup fs q <> Some (File c).

Lemma no_file_on_prefix fs a b : is_prefix a b = true -> no_file_on fs b -> no_file_on fs a.
Proof. intros P H q Hq. apply H. eapply is_prefix_trans; eauto. Qed.

Lemma is_prefix_snoc_self (x : list name) n : is_prefix (x ++ [n]) x = false.
Proof.
  destruct (is_prefix (x ++ [n]) x) eqn:E; auto.
  apply is_prefix_true in E as [r E]. rewrite <- app_assoc in E.
  rewrite <- (app_nil_r x) in E at 1. apply app_inv_head in E. discriminate.
Qed.

Lemma md_exact cwd fs ab chb :
  lookup fs (base cwd ab) = Some (Dir chb) ->
  forall rparts,
    no_file_on fs (base cwd ab ++ rev rparts) ->
    mkd_all cwd (rev (md_need cwd fs ab rparts)) fs = Ok (ensure_dir fs (base cwd ab ++ rev rparts)).
Proof.
  intros Hb. induction rparts as [|n up IH]; intro NF.
  - simpl. rewrite app_nil_r. rewrite (ensure_dir_exists _ _ _ Hb). reflexivity.
  - simpl rev in *. cbn [md_need]. unfold c_exists, r_stat. rewrite resolve_base. cbn [p_abs p_parts rev].
    destruct (lookup fs (base cwd ab ++ rev up ++ [n])) as [s|] eqn:L; cbn [option_map].
    + destruct s as [c|ch]; [exfalso; eapply NF; [apply is_prefix_refl|exact L]|].
      simpl. rewrite (ensure_dir_exists _ _ _ L). reflexivity.
    + cbn [rev]. rewrite mkd_all_app. rewrite IH.
      2:{ eapply no_file_on_prefix; [|exact NF]. rewrite app_assoc. apply is_prefix_app. }
      cbn [bind mkd_all]. unfold r_mkd. rewrite resolve_base. cbn [p_abs p_parts].
      set (x := base cwd ab ++ rev up). rewrite app_assoc. fold x. rewrite app_assoc in L. fold x in L.
      assert (L1 : lookup (ensure_dir fs x) (x ++ [n]) = None).
      { rewrite lookup_ensure_dir_below. exact L. }
      rewrite L1.
      destruct (blocked (ensure_dir fs x) (x ++ [n])) eqn:B.
      * exfalso. apply blocked_true in B as (q & r & c & E & Hr & Lq).
        symmetry in E. pose proof (proper_prefix_snoc _ _ _ _ E Hr) as P.
        pose proof (look_ensure_dir fs x q) as LK. rewrite P in LK.
        apply look_dir in LK as [ch LK]. congruence.
      * cbn [bind]. rewrite ensure_dir_absorb. reflexivity.
Qed.

Lemma make_directory_exact cwd fs p chc :
  lookup fs cwd = Some (Dir chc) ->
  no_file_on fs (resolve cwd p) ->
  make_directory cwd fs p = Ok (ensure_dir fs (resolve cwd p)).
Proof.
  intros Hc NF. destruct (lookup_base fs cwd chc (p_abs p) Hc) as [chb Hb].
  unfold make_directory. rewrite resolve_base in *.
  rewrite <- (rev_involutive (p_parts p)) at 2.
  apply (md_exact cwd fs (p_abs p) chb Hb). rewrite rev_involutive. exact NF.
Qed.

(* ================================================================== *)
(* the file branch of upload                                             *)

Lemma match_nonnil {A B} (a : list A) (u v : B) :
  a <> [] -> match a with [] => u | _ :: _ => v end = v.
Proof. destruct a; congruence. Qed.

Lemma r_stor_after_ensure cwd fs x n c p :
  resolve cwd p = x ++ [n] ->
  (forall ch, lookup fs (x ++ [n]) <> Some (Dir ch)) ->
  r_stor cwd (ensure_dir fs x) p c = Ok (write_at fs (x ++ [n]) c).
Proof.
  intros E ND. unfold r_stor. rewrite E.
  rewrite match_nonnil by (destruct x; discriminate).
  rewrite removelast_last.
  unfold ensure_dir at 1. rewrite lookup_update_same. cbn [dirify].
  rewrite lookup_ensure_dir_below.
  unfold write_at. rewrite update_after_ensure.
  destruct (lookup fs (x ++ [n])) as [[c0|ch]|] eqn:L; try reflexivity.
  exfalso. eapply ND. reflexivity.
Qed.

Lemma upload_file_exact cwd fs dst' c chc :
  lookup fs cwd = Some (Dir chc) ->
  p_parts dst' <> [] ->
  no_file_on fs (removelast (resolve cwd dst')) ->
  (forall ch, lookup fs (resolve cwd dst') <> Some (Dir ch)) ->
  upload_file cwd fs dst' c = Ok (write_at fs (resolve cwd dst') c).
Proof.
  intros Hc Hp NF ND. unfold upload_file.
  rewrite (make_directory_exact cwd fs (pparent dst') chc Hc).
  2:{ rewrite resolve_parent by assumption. exact NF. }
  cbn [bind]. rewrite resolve_parent by assumption.
  assert (Ha : resolve cwd dst' <> []).
  { rewrite resolve_base. intro E. apply app_eq_nil in E as [_ E]. contradiction. }
  destruct (exists_last Ha) as (x & n & E). rewrite E in *. rewrite removelast_last.
  apply r_stor_after_ensure; assumption.
Qed.

(* ================================================================== *)
(* induction on rose trees, sizes, well-formedness                       *)

Section TreeInd.
  Variable P : tree -> Prop.
  Hypothesis HF : forall c, P (File c).
  Hypothesis HD : forall ch, Forall (fun nt => P (snd nt)) ch -> P (Dir ch).
  Fixpoint tree_ind2 (t : tree) : P t :=
    match t with
    | File c => HF c
    | Dir ch =>
        HD ch ((fix go (l : list (name * tree)) : Forall (fun nt => P (snd nt)) l :=
                  match l with
                  | [] => Forall_nil _
                  | nt :: r => Forall_cons nt (tree_ind2 (snd nt)) (go r)
                  end) ch)
    end.
End TreeInd.

Definition sizes (ch : list (name * tree)) : nat := list_sum (map (fun nt => tree_size (snd nt)) ch).

Lemma tree_size_dir ch : tree_size (Dir ch) = S (sizes ch).
Proof.
  simpl. f_equal. unfold sizes. induction ch as [|[n c] ch IH]; simpl; auto.
Qed.

Fixpoint wf_tree (t : tree) : Prop :=
  match t with
  | File _ => True
  | Dir ch =>
      NoDup (map fst ch) /\
      (fix go (l : list (name * tree)) : Prop :=
         match l with [] => True | nt :: r => wf_tree (snd nt) /\ go r end) ch
  end.

Lemma wf_tree_dir ch : wf_tree (Dir ch) <-> NoDup (map fst ch) /\ Forall (fun nt => wf_tree (snd nt)) ch.
Proof.
  simpl. split; intros [H1 H2]; split; auto.
  - induction ch as [|nt ch IH]; constructor; try tauto. apply IH; [inversion H1; auto | tauto].
  - induction ch as [|nt ch IH]; auto. inversion H2; subst. split; auto. apply IH; auto. inversion H1; auto.
Qed.

Lemma assoc_In_pair n l c : assoc n l = Some c -> In (n, c) l.
Proof.
  induction l as [|[k t] l IH]; simpl; [discriminate|].
  destruct (name_eqbP n k) as [->|H]; intro E; [inversion E; auto|auto].
Qed.

Lemma wf_child ch n c : wf_tree (Dir ch) -> assoc n ch = Some c -> wf_tree c.
Proof.
  intros W A. apply wf_tree_dir in W as [_ F]. rewrite Forall_forall in F.
  apply (F (n, c)). apply assoc_In_pair. assumption.
Qed.

Lemma wf_lookup t p s : wf_tree t -> lookup t p = Some s -> wf_tree s.
Proof.
  revert t; induction p as [|n p IH]; intros t W; simpl.
  - intro H; inversion H; subst; auto.
  - destruct t as [c|ch]; [discriminate|]. destruct (assoc n ch) as [c|] eqn:A; [|discriminate].
    apply IH. eapply wf_child; eauto.
Qed.

(* ================================================================== *)
(* remove                                                                *)

Lemma remove_at_as_update fs a n ch :
  lookup fs a = Some (Dir ch) ->
  remove_at fs (a ++ [n]) = update_at fs a (fun _ => Dir (del_child n ch)).
Proof.
  revert fs; induction a as [|m a IH]; intros fs; simpl.
  - intro H; inversion H; subst. reflexivity.
  - destruct fs as [c|ch0]; [discriminate|]. destruct (assoc m ch0) as [c1|] eqn:A; [|discriminate].
    intro L. rewrite match_nonnil by (destruct a; discriminate).
    simpl. unfold child_or. rewrite A. rewrite (IH c1 L). reflexivity.
Qed.

Lemma del_child_set_child n v ch s : assoc n ch = Some s -> del_child n (set_child n v ch) = del_child n ch.
Proof.
  induction ch as [|[k t] ch IH]; simpl; [discriminate|].
  destruct (name_eqbP n k) as [->|H]; simpl.
  - rewrite name_eqb_refl. reflexivity.
  - destruct (name_eqbP n k); [contradiction|]. intro A. rewrite IH; auto.
Qed.

Lemma update_at_cons t n r f :
  update_at t (n :: r) f = Dir (set_child n (update_at (child_or n (as_dir t)) r f) (as_dir t)).
Proof. reflexivity. Qed.

Lemma remove_at_cons2 ch n m r :
  remove_at (Dir ch) (n :: m :: r) =
  match assoc n ch with
  | Some c => Dir (set_child n (remove_at c (m :: r)) ch)
  | None => Dir ch
  end.
Proof. reflexivity. Qed.

Lemma remove_at_update_same fs a f s :
  lookup fs a = Some s -> a <> [] -> remove_at (update_at fs a f) a = remove_at fs a.
Proof.
  revert fs; induction a as [|n a IH]; intros fs L Ha; [congruence|].
  simpl in L. destruct fs as [c|ch]; [discriminate|]. destruct (assoc n ch) as [c1|] eqn:A; [|discriminate].
  destruct a as [|m a].
  - simpl. erewrite del_child_set_child; eauto.
  - rewrite update_at_cons. cbn [as_dir]. rewrite !remove_at_cons2. rewrite assoc_set_child, name_eqb_refl, A.
    unfold child_or. rewrite A. rewrite set_child_twice. rewrite (IH c1 L) by discriminate. reflexivity.
Qed.

Lemma look_remove_at_other fs a q : is_prefix a q = false -> look (remove_at fs a) q = look fs q.
Proof.
  revert fs q; induction a as [|n a IH]; intros fs q P; [discriminate P|].
  destruct fs as [c|ch]; [reflexivity|].
  destruct q as [|m q].
  - simpl. destruct a; [reflexivity|]. destruct (assoc n ch); reflexivity.
  - rewrite is_prefix_cons in P. destruct a as [|k a].
    + unfold look. simpl. destruct (name_eqbP n m) as [->|Hnm]; [discriminate P|].
      rewrite assoc_del_child_other by congruence. reflexivity.
    + rewrite remove_at_cons2. destruct (assoc n ch) as [c1|] eqn:A; [|reflexivity].
      unfold look. simpl. rewrite assoc_set_child. rewrite (name_eqb_sym m n).
      destruct (name_eqbP n m) as [->|Hnm]; simpl in P.
      * rewrite A. apply (IH c1 q P).
      * reflexivity.
Qed.

Lemma look_remove_at_gone fs a s r :
  wf_tree fs -> lookup fs a = Some s -> a <> [] -> look (remove_at fs a) (a ++ r) = None.
Proof.
  revert fs; induction a as [|n a IH]; intros fs W L Ha; [congruence|].
  simpl in L. destruct fs as [c|ch]; [discriminate|]. destruct (assoc n ch) as [c1|] eqn:A; [|discriminate].
  destruct a as [|m a].
  - unfold look. simpl. rewrite assoc_del_child_same; [reflexivity|]. apply wf_tree_dir in W. tauto.
  - rewrite remove_at_cons2. rewrite A. unfold look. rewrite <- app_comm_cons. cbn [lookup].
    rewrite assoc_set_child, name_eqb_refl.
    apply (IH c1); [eapply wf_child; eauto|assumption|discriminate].
Qed.

Definition remove_each (f : nat) (cwd : list name) (p : ppath) :=
  fix each (l : list (name * bool)) (fs0 : tree) : res tree :=
    match l with
    | [] => Ok fs0
    | e :: r => bind (remove f cwd fs0 (pjoin p (mkp false [fst e]))) (each r)
    end.

Lemma remove_S f cwd fs p :
  remove (S f) cwd fs p =
  match r_stat cwd fs p with
  | None => Ok fs
  | Some false => r_dele cwd fs p
  | Some true =>
      bind (r_list cwd fs p) (fun ents =>
      bind (remove_each f cwd p ents fs) (fun fs1 => r_rmd cwd fs1 p))
  end.
Proof. reflexivity. Qed.

Lemma remove_exact cwd t :
  forall fuel fs p,
    (tree_size t <= fuel)%nat ->
    lookup fs (resolve cwd p) = Some t ->
    resolve cwd p <> [] ->
    remove fuel cwd fs p = Ok (remove_at fs (resolve cwd p)).
Proof.
  induction t as [c|ch IHch] using tree_ind2; intros fuel fs p Hf L Ha.
  - destruct fuel as [|f]; [simpl in Hf; lia|]. rewrite remove_S. unfold r_stat. rewrite L. simpl.
    unfold r_dele. rewrite L. reflexivity.
  - rewrite tree_size_dir in Hf. destruct fuel as [|f]; [lia|]. rewrite remove_S.
    unfold r_stat. rewrite L. simpl. unfold r_list. rewrite L. cbn [bind].
    set (a := resolve cwd p) in *.
    assert (Each : forall rest, (sizes rest <= f)%nat -> Forall (fun nt =>
                forall fuel fs p, (tree_size (snd nt) <= fuel)%nat ->
                  lookup fs (resolve cwd p) = Some (snd nt) -> resolve cwd p <> [] ->
                  remove fuel cwd fs p = Ok (remove_at fs (resolve cwd p))) rest ->
              remove_each f cwd p (map (fun nt => (fst nt, is_dir (snd nt))) rest)
                          (update_at fs a (fun _ => Dir rest))
              = Ok (update_at fs a (fun _ => Dir []))).
    { induction rest as [|[n c] rest IHr]; intros Hs F; [reflexivity|].
      inversion F as [|? ? Hc Fr]; subst. cbn [map remove_each fst snd].
      unfold sizes in Hs. simpl in Hs. fold (sizes rest) in Hs.
      set (fsi := update_at fs a (fun _ => Dir ((n, c) :: rest))).
      assert (Li : lookup fsi a = Some (Dir ((n, c) :: rest))) by (apply lookup_update_same).
      rewrite (Hc f fsi (pjoin p (mkp false [n]))).
      - rewrite resolve_join. fold a. rewrite (remove_at_as_update _ _ _ _ Li).
        cbn [bind del_child]. rewrite name_eqb_refl. unfold fsi. rewrite update_at_twice.
        apply IHr; [lia|assumption].
      - simpl; lia.
      - rewrite resolve_join. fold a. rewrite lookup_app, Li. simpl. rewrite name_eqb_refl. reflexivity.
      - rewrite resolve_join. destruct (resolve cwd p); discriminate. }
    assert (E0 : update_at fs a (fun _ => Dir ch) = fs) by (eapply update_at_id; eauto).
    rewrite <- E0 at 1. rewrite Each; [|lia|assumption].
    cbn [bind]. unfold r_rmd. fold a. rewrite match_nonnil by assumption.
    rewrite lookup_update_same. rewrite (remove_at_update_same _ _ _ _ L Ha). reflexivity.
Qed.

(* ================================================================== *)
(* breadth-first traversal of a forest = all its nodes (permutation)     *)

Definition children_nodes (rel : list name) (ch : list (name * tree)) : list (list name * tree) :=
  map (fun nt => (rel ++ [fst nt], snd nt)) ch.

Fixpoint subdirs (rel : list name) (ch : list (name * tree)) : queue :=
  match ch with
  | [] => []
  | (n, Dir sub) :: r => (rel ++ [n], sub) :: subdirs rel r
  | (n, File _) :: r => subdirs rel r
  end.

Fixpoint bfs (fuel : nat) (q : queue) : list (list name * tree) :=
  match q with
  | [] => []
  | (rel, ch) :: qr =>
      match fuel with
      | O => []
      | S f => children_nodes rel ch ++ bfs f (qr ++ subdirs rel ch)
      end
  end.

Definition qsize (q : queue) : nat := list_sum (map (fun rc => S (sizes (snd rc))) q).

Definition qnodes (q : queue) : list (list name * tree) :=
  flat_map (fun rc => nodes (fst rc) (Dir (snd rc))) q.

Lemma nodes_dir_cons pre n c r :
  nodes pre (Dir ((n, c) :: r)) = (pre ++ [n], c) :: nodes (pre ++ [n]) c ++ nodes pre (Dir r).
Proof. reflexivity. Qed.

Lemma qsize_app a b : qsize (a ++ b) = (qsize a + qsize b)%nat.
Proof. unfold qsize. rewrite map_app, list_sum_app. reflexivity. Qed.

Lemma sizes_cons n c ch : sizes ((n, c) :: ch) = (tree_size c + sizes ch)%nat.
Proof. reflexivity. Qed.

Lemma qsize_cons rel ch q : qsize ((rel, ch) :: q) = (S (sizes ch) + qsize q)%nat.
Proof. reflexivity. Qed.

Lemma qsize_subdirs rel ch : (qsize (subdirs rel ch) <= sizes ch)%nat.
Proof.
  induction ch as [|[n [c|sub]] ch IH]; cbn [subdirs].
  - apply Nat.le_refl.
  - rewrite sizes_cons. lia.
  - rewrite sizes_cons, qsize_cons, tree_size_dir. lia.
Qed.

Lemma nodes_split rel ch :
  Permutation (children_nodes rel ch ++ qnodes (subdirs rel ch)) (nodes rel (Dir ch)).
Proof.
  induction ch as [|[n c] ch IH]; [constructor|].
  rewrite nodes_dir_cons. cbn [children_nodes map fst snd]. fold (children_nodes rel ch).
  simpl app. apply perm_skip.
  destruct c as [c|sub].
  - cbn [subdirs nodes app]. exact IH.
  - cbn [subdirs qnodes flat_map fst snd]. fold (qnodes (subdirs rel ch)).
    rewrite Permutation_app_swap_app. apply Permutation_app_head. exact IH.
Qed.

Lemma bfs_perm fuel : forall q, (qsize q <= fuel)%nat -> Permutation (bfs fuel q) (qnodes q).
Proof.
  induction fuel as [|f IH]; intros [|[rel ch] qr] Hq; try constructor.
  - rewrite qsize_cons in Hq. lia.
  - cbn [bfs]. cbn [qnodes flat_map fst snd]. fold (qnodes qr).
    assert (Hs : (qsize (qr ++ subdirs rel ch) <= f)%nat).
    { rewrite qsize_app. pose proof (qsize_subdirs rel ch). rewrite qsize_cons in Hq. lia. }
    rewrite (IH _ Hs). unfold qnodes at 1. rewrite flat_map_app. fold (qnodes qr). fold (qnodes (subdirs rel ch)).
    rewrite (Permutation_app_comm (qnodes qr)). rewrite app_assoc.
    apply Permutation_app_tail. apply nodes_split.
Qed.

(* ================================================================== *)
(* recursive list                                                        *)

Definition item_of (ab : bool) (pt : list name * tree) : item := (mkp ab (fst pt), is_dir (snd pt)).

Lemma assoc_NoDup_In (ch : list (name * tree)) n c :
  NoDup (map fst ch) -> In (n, c) ch -> assoc n ch = Some c.
Proof.
  induction ch as [|[k t] ch IH]; simpl; [tauto|]. intros ND [E|I].
  - inversion E; subst. rewrite name_eqb_refl. reflexivity.
  - inversion ND; subst. destruct (name_eqbP n k) as [->|]; [|auto].
    exfalso. apply H1. change k with (fst (k, c)). apply in_map. assumption.
Qed.

Definition q_ok (cwd : list name) (fs : tree) (ab : bool) (q : queue) : Prop :=
  Forall (fun rc => lookup fs (base cwd ab ++ fst rc) = Some (Dir (snd rc)) /\ wf_tree (Dir (snd rc))) q.

Lemma q_ok_subdirs cwd fs ab rel ch :
  lookup fs (base cwd ab ++ rel) = Some (Dir ch) -> wf_tree (Dir ch) ->
  q_ok cwd fs ab (subdirs rel ch).
Proof.
  intros L W. apply wf_tree_dir in W as [ND F].
  assert (H : forall l, incl l ch -> q_ok cwd fs ab (subdirs rel l)).
  { induction l as [|[n [c|sub]] l IHl]; intro I; simpl; try constructor.
    - apply IHl. intros x Hx. apply I. right; assumption.
    - split.
      + simpl. rewrite app_assoc, lookup_app, L. simpl.
        rewrite (assoc_NoDup_In ch n (Dir sub) ND); [reflexivity|]. apply I. left; reflexivity.
      + rewrite Forall_forall in F. apply (F (n, Dir sub)). apply I. left; reflexivity.
    - apply IHl. intros x Hx. apply I. right; assumption. }
  apply H. apply incl_refl.
Qed.

Lemma filter_items ab rel ch :
  map fst (filter snd (map (item_of ab) (children_nodes rel ch)))
  = map (fun rc => mkp ab (fst rc)) (subdirs rel ch).
Proof.
  induction ch as [|[n [c|sub]] ch IH]; simpl; auto. rewrite IH. reflexivity.
Qed.

Lemma list_items_nodes ab rel (ch : list (name * tree)) :
  list_items (mkp ab rel) (map (fun nt => (fst nt, is_dir (snd nt))) ch)
  = map (item_of ab) (children_nodes rel ch).
Proof.
  unfold list_items, children_nodes. rewrite !map_map. apply map_ext. intros [n c]. reflexivity.
Qed.

Lemma list_loop_bfs cwd fs ab :
  forall fuel rel ch qr acc,
    q_ok cwd fs ab ((rel, ch) :: qr) ->
    (qsize ((rel, ch) :: qr) <= fuel)%nat ->
    list_loop fuel cwd fs true (mkp ab rel) (map (fun rc => mkp ab (fst rc)) qr) acc
    = Ok (acc ++ map (item_of ab) (bfs fuel ((rel, ch) :: qr))).
Proof.
  induction fuel as [|f IH]; intros rel ch qr acc OK Hq.
  - rewrite qsize_cons in Hq. lia.
  - inversion OK as [|? ? [L W] OKr]; subst. cbn [fst snd] in *.
    cbn [list_loop]. unfold r_list. rewrite resolve_base. cbn [p_abs p_parts]. rewrite L. cbn [bind].
    rewrite list_items_nodes, filter_items. rewrite <- map_app.
    assert (Hs : (qsize (qr ++ subdirs rel ch) <= f)%nat).
    { rewrite qsize_app. pose proof (qsize_subdirs rel ch). rewrite qsize_cons in Hq. lia. }
    assert (OK' : q_ok cwd fs ab (qr ++ subdirs rel ch)).
    { apply Forall_app. split; [assumption|]. apply q_ok_subdirs; assumption. }
    cbn [bfs]. destruct (qr ++ subdirs rel ch) as [|[rel' ch'] q'] eqn:E.
    + simpl. destruct f; rewrite app_nil_r; reflexivity.
    + cbn [map fst]. rewrite (IH rel' ch' q' _ OK' Hs). rewrite map_app, app_assoc. reflexivity.
Qed.

Lemma list_recursive_exact cwd fs p t fuel :
  lookup fs (resolve cwd p) = Some t ->
  wf_tree t ->
  (tree_size t <= fuel)%nat ->
  exists l, list_path fuel cwd fs true p = Ok l /\
            Permutation l (map (fun e => (mkp (p_abs p) (fst e), snd e)) (entries (p_parts p) t)).
Proof.
  intros L W Hf. destruct t as [c|ch].
  - exists []. split; [|constructor]. destruct fuel; [simpl in Hf; lia|].
    unfold list_path. cbn [list_loop]. unfold r_list. rewrite L. reflexivity.
  - rewrite tree_size_dir in Hf. destruct p as [ab parts]. cbn [p_abs p_parts] in *.
    rewrite resolve_base in L. cbn [p_abs p_parts] in L.
    eexists. split.
    + unfold list_path. apply (list_loop_bfs cwd fs ab fuel parts ch [] []).
      * constructor; [split; assumption|constructor].
      * rewrite qsize_cons. unfold qsize. simpl. lia.
    + cbn [app]. unfold entries. rewrite map_map.
      change (fun x : list name * tree => (mkp ab (fst (fst x, is_dir (snd x))), snd (fst x, is_dir (snd x))))
        with (item_of ab).
      apply Permutation_map.
      rewrite (bfs_perm fuel [(parts, ch)]); [|rewrite qsize_cons; unfold qsize; simpl; lia].
      unfold qnodes. simpl. rewrite app_nil_r. reflexivity.
Qed.

(* ================================================================== *)
(* upload of a directory = one semantic operation per node, in BFS order *)

(* what uploading one node does: mkdir -p, or mkdir -p of the parent and a write *)
Definition sem_op (A : list name) (fs : tree) (pt : list name * tree) : tree :=
  match snd pt with
  | Dir _ => ensure_dir fs (A ++ fst pt)
  | File c => write_at fs (A ++ fst pt) c
  end.

(* the commands of that node are accepted by the server *)
Definition op_ok (A : list name) (fs : tree) (pt : list name * tree) : Prop :=
  match snd pt with
  | Dir _ => no_file_on fs (A ++ fst pt)
  | File _ => no_file_on fs (removelast (A ++ fst pt)) /\
              forall ch, lookup fs (A ++ fst pt) <> Some (Dir ch)
  end.

Fixpoint run_ok (A : list name) (fs : tree) (ops : list (list name * tree)) : Prop :=
  match ops with
  | [] => True
  | op :: r => op_ok A fs op /\ run_ok A (sem_op A fs op) r
  end.

Lemma run_ok_app A ops1 : forall fs ops2,
  run_ok A fs (ops1 ++ ops2) <-> run_ok A fs ops1 /\ run_ok A (fold_left (sem_op A) ops1 fs) ops2.
Proof.
  induction ops1 as [|op ops1 IH]; intros fs ops2; simpl; [tauto|]. rewrite IH. tauto.
Qed.

Lemma cwd_after_ensure fs cwd chc P :
  lookup fs cwd = Some (Dir chc) -> exists chc', lookup (ensure_dir fs P) cwd = Some (Dir chc').
Proof.
  intro L. apply look_dir. rewrite look_ensure_dir. destruct (is_prefix cwd P); [reflexivity|].
  apply look_dir. eauto.
Qed.

Lemma cwd_after_write fs cwd chc P c :
  lookup fs cwd = Some (Dir chc) -> (forall ch, lookup fs P <> Some (Dir ch)) ->
  exists chc', lookup (write_at fs P c) cwd = Some (Dir chc').
Proof.
  intros L ND. apply look_dir. rewrite look_write_at.
  destruct (strip_prefix P cwd) as [r|] eqn:S.
  - exfalso. apply strip_prefix_Some in S. subst cwd. rewrite lookup_app in L.
    destruct (lookup fs P) as [[c0|ch]|] eqn:LP; try discriminate.
    + destruct r; simpl in L; discriminate.
    + eapply ND; reflexivity.
  - destruct (is_prefix cwd P); [reflexivity|]. apply look_dir. eauto.
Qed.

Lemma cwd_after_op A fs cwd chc op :
  lookup fs cwd = Some (Dir chc) -> op_ok A fs op ->
  exists chc', lookup (sem_op A fs op) cwd = Some (Dir chc').
Proof.
  unfold sem_op, op_ok. destruct (snd op); intros L H.
  - destruct H as [_ ND]. eapply cwd_after_write; eauto.
  - eapply cwd_after_ensure; eauto.
Qed.

Lemma cwd_after_ops A cwd ops : forall fs chc,
  lookup fs cwd = Some (Dir chc) -> run_ok A fs ops ->
  exists chc', lookup (fold_left (sem_op A) ops fs) cwd = Some (Dir chc').
Proof.
  induction ops as [|op ops IH]; intros fs chc L R; simpl; [eauto|].
  destruct R as [R1 R2]. destruct (cwd_after_op A fs cwd chc op L R1) as [chc' L'].
  eapply IH; eauto.
Qed.

(* a way of computing `relative` that lands at A ++ rel on the server *)
Definition relf_ok (cwd A : list name) (relf : list name -> ppath) : Prop :=
  forall r, resolve cwd (relf r) = A ++ r /\ (r <> [] -> p_parts (relf r) <> []).

Lemma upload_children_fold cwd A relf rel :
  relf_ok cwd A relf ->
  forall ch fs chc,
    lookup fs cwd = Some (Dir chc) ->
    run_ok A fs (children_nodes rel ch) ->
    upload_children cwd relf rel ch fs
    = Ok (fold_left (sem_op A) (children_nodes rel ch) fs, subdirs rel ch).
Proof.
  intros RF. induction ch as [|[n [c|sub]] ch IH]; intros fs chc Hc R; [reflexivity| |].
  - cbn [children_nodes map fst snd] in R. fold (children_nodes rel ch) in R.
    destruct R as [[NF ND] R]. cbn [fst snd] in NF, ND.
    cbn [upload_children]. destruct (RF (rel ++ [n])) as [E NE].
    rewrite (upload_file_exact cwd fs (relf (rel ++ [n])) c chc Hc).
    + rewrite E. cbn [bind]. destruct (cwd_after_write fs cwd chc (A ++ rel ++ [n]) c Hc ND) as [chc' Hc'].
      rewrite (IH _ chc' Hc' R). reflexivity.
    + apply NE. destruct rel; discriminate.
    + rewrite E. exact NF.
    + rewrite E. exact ND.
  - cbn [children_nodes map fst snd] in R. fold (children_nodes rel ch) in R.
    destruct R as [NF R]. cbn [op_ok fst snd] in NF.
    cbn [upload_children]. destruct (RF (rel ++ [n])) as [E NE].
    rewrite (make_directory_exact cwd fs (relf (rel ++ [n])) chc Hc); [|rewrite E; exact NF].
    rewrite E. cbn [bind].
    destruct (cwd_after_ensure fs cwd chc (A ++ rel ++ [n]) Hc) as [chc' Hc'].
    rewrite (IH _ chc' Hc' R). reflexivity.
Qed.

Lemma upload_loop_fold cwd A relf :
  relf_ok cwd A relf ->
  forall fuel q fs chc,
    lookup fs cwd = Some (Dir chc) ->
    (qsize q <= fuel)%nat ->
    run_ok A fs (bfs fuel q) ->
    upload_loop fuel cwd relf q fs = Ok (fold_left (sem_op A) (bfs fuel q) fs).
Proof.
  intros RF. induction fuel as [|f IH]; intros [|[rel ch] qr] fs chc Hc Hq R; try reflexivity.
  - rewrite qsize_cons in Hq. lia.
  - cbn [bfs] in *. apply run_ok_app in R as [R1 R2]. cbn [upload_loop].
    rewrite (upload_children_fold cwd A relf rel RF ch fs chc Hc R1). cbn [bind fst snd].
    destruct (cwd_after_ops A cwd _ fs chc Hc R1) as [chc' Hc'].
    rewrite (IH _ _ chc' Hc'); [rewrite fold_left_app; reflexivity| |assumption].
    rewrite qsize_app. pose proof (qsize_subdirs rel ch). rewrite qsize_cons in Hq. lia.
Qed.

Lemma relf_ok_fixed cwd dst' : relf_ok cwd (resolve cwd dst') (relative_fixed dst').
Proof.
  intro r. unfold relative_fixed. rewrite resolve_join. split; [reflexivity|].
  intro Hr. unfold pjoin. simpl. intro E. apply app_eq_nil in E as [_ E]. contradiction.
Qed.

(* where the code as written sends the children: cwd / <last component> *)
Definition bug_anchor (write_into : bool) (dst' : ppath) (src_name : name) : ppath :=
  of_name (if write_into then pname dst' else src_name).

Lemma relf_ok_bug cwd wi dst' nm :
  relf_ok cwd (resolve cwd (bug_anchor wi dst' nm)) (relative_bug wi dst' nm).
Proof.
  intro r. unfold relative_bug, bug_anchor. destruct wi; rewrite resolve_join; (split; [reflexivity|]);
    intro Hr; unfold pjoin; simpl; intro E; apply app_eq_nil in E as [_ E]; contradiction.
Qed.

Definition upload_anchor (fixed wi : bool) (dst' : ppath) (nm : name) : ppath :=
  if fixed then dst' else bug_anchor wi dst' nm.

(* both versions, exactly: the directory is made at the destination; every node of the source is then
   placed below the anchor *)
Lemma upload_gen_dir_actual fixed cwd fs nm ch dst wi chc :
  let dst' := final_destination nm dst wi in
  let A := resolve cwd dst' in
  let A' := resolve cwd (upload_anchor fixed wi dst' nm) in
  lookup fs cwd = Some (Dir chc) ->
  no_file_on fs A ->
  run_ok A' (ensure_dir fs A) (bfs (tree_size (Dir ch)) [([], ch)]) ->
  upload_gen fixed cwd fs nm (Dir ch) dst wi
  = Ok (fold_left (sem_op A') (bfs (tree_size (Dir ch)) [([], ch)]) (ensure_dir fs A)).
Proof.
  intros dst' A A' Hc NF R. unfold upload_gen. fold dst'.
  rewrite (make_directory_exact cwd fs dst' chc Hc NF). cbn [bind]. fold A.
  destruct (cwd_after_ensure fs cwd chc A Hc) as [chc' Hc'].
  apply (upload_loop_fold cwd A') with (chc := chc'); auto.
  - unfold A', upload_anchor. destruct fixed; [apply relf_ok_fixed|apply relf_ok_bug].
  - rewrite qsize_cons, tree_size_dir. unfold qsize. simpl. lia.
Qed.

(* ================================================================== *)
(* what an observer sees after a script of semantic operations           *)

Lemma strip_prefix_app_same A x y : strip_prefix (A ++ x) (A ++ y) = strip_prefix x y.
Proof. induction A as [|a A IH]; simpl; auto. rewrite name_eqb_refl. exact IH. Qed.

Lemma is_prefix_app_same A x y : is_prefix (A ++ x) (A ++ y) = is_prefix x y.
Proof. unfold is_prefix. rewrite strip_prefix_app_same. reflexivity. Qed.

Lemma strip_prefix_None_app A q x : strip_prefix A q = None -> strip_prefix (A ++ x) q = None.
Proof.
  revert q; induction A as [|a A IH]; intros q; simpl; [discriminate|].
  destruct q as [|b q]; auto. destruct (name_eqb a b); auto.
Qed.

Lemma prefix_comparable q A x :
  is_prefix q (A ++ x) = true -> strip_prefix A q = None -> is_prefix q A = true.
Proof.
  revert A; induction q as [|b q IH]; intros A; [reflexivity|].
  destruct A as [|a A]; [discriminate|]. simpl app. rewrite !is_prefix_cons. simpl.
  rewrite (name_eqb_sym a b). destruct (name_eqb b a); simpl; [apply IH|discriminate].
Qed.

Lemma is_prefix_longer (x : list name) m y : is_prefix (x ++ m :: y) x = false.
Proof.
  destruct (is_prefix (x ++ m :: y) x) eqn:E; auto.
  apply is_prefix_true in E as [r E]. rewrite <- app_assoc in E.
  rewrite <- (app_nil_r x) in E at 1. apply app_inv_head in E. discriminate.
Qed.

Lemma below_file src r c x : lookup src r = Some (File c) -> x <> [] -> lookup src (r ++ x) = None.
Proof. intros L Hx. rewrite lookup_app, L. destruct x; [congruence|reflexivity]. Qed.

Lemma prefix_of_node src r x t : lookup src (r ++ x) = Some t -> x <> [] -> look src r = Some EDir.
Proof.
  intros L Hx. rewrite lookup_app in L. unfold look. destruct (lookup src r) as [[c|ch]|]; try discriminate.
  - destruct x; [congruence|discriminate]. - reflexivity.
Qed.

Lemma look_node src r t : lookup src r = Some t -> look src r = Some (entry_of t).
Proof. unfold look. intros ->. reflexivity. Qed.

Definition covered (l : list (list name * tree)) (r : list name) : bool :=
  existsb (fun op => is_prefix r (fst op)) l.

Definition sound (src : tree) (l : list (list name * tree)) : Prop :=
  forall r t, In (r, t) l -> r <> [] /\ lookup src r = Some t.

Lemma look_sem_op A fs r t q :
  look (sem_op A fs (r, t)) q =
  match t with
  | Dir _ => if is_prefix q (A ++ r) then Some EDir else look fs q
  | File c => match strip_prefix (A ++ r) q with
              | Some [] => Some (EFile c)
              | Some (_ :: _) => None
              | None => if is_prefix q (A ++ r) then Some EDir else look fs q
              end
  end.
Proof. unfold sem_op. cbn [fst snd]. destruct t; [apply look_write_at|apply look_ensure_dir]. Qed.

Lemma sound_prefix_dir src r r1 t1 :
  lookup src r1 = Some t1 -> is_prefix r r1 = true -> r <> r1 -> look src r = Some EDir.
Proof.
  intros L P N. apply is_prefix_true in P as [x ->]. destruct x as [|m x].
  - rewrite app_nil_r in N. congruence.
  - eapply prefix_of_node; eauto. discriminate.
Qed.

Lemma fold_view A src : forall l fs0,
  sound src l ->
  (forall q, is_prefix q A = true -> look fs0 q = Some EDir) ->
  (forall r c r', In (r, File c) l -> r' <> [] -> look fs0 (A ++ r ++ r') = None) ->
  forall q, look (fold_left (sem_op A) l fs0) q =
    match strip_prefix A q with
    | Some r => if covered l r then look src r else look fs0 q
    | None => look fs0 q
    end.
Proof.
  induction l as [|[r1 t1] l IH]; intros fs0 S HA HF q.
  - simpl. destruct (strip_prefix A q); reflexivity.
  - destruct (S r1 t1 (or_introl eq_refl)) as [Hr1 L1].
    assert (S' : sound src l) by (intros r t I; apply S; right; assumption).
    cbn [fold_left]. rewrite IH; auto.
    + (* the main computation *)
      destruct (strip_prefix A q) as [r|] eqn:SP.
      * apply strip_prefix_Some in SP. subst q. cbn [covered existsb fst].
        fold (covered l r). destruct (covered l r); [rewrite orb_true_r; reflexivity|]. rewrite orb_false_r.
        rewrite look_sem_op. destruct t1 as [c1|ch1].
        -- rewrite strip_prefix_app_same, is_prefix_app_same.
           destruct (strip_prefix r1 r) as [[|m x]|] eqn:SP1.
           ++ apply strip_prefix_Some in SP1. rewrite app_nil_r in SP1. subst r.
              rewrite is_prefix_refl. rewrite (look_node _ _ _ L1). reflexivity.
           ++ apply strip_prefix_Some in SP1. subst r. rewrite is_prefix_longer.
              symmetry. apply (HF r1 c1 (m :: x)); [left; reflexivity|discriminate].
           ++ destruct (is_prefix r r1) eqn:P; [|reflexivity].
              symmetry. eapply sound_prefix_dir; eauto. intros ->.
              unfold is_prefix in P. rewrite SP1 in P. discriminate.
        -- rewrite is_prefix_app_same. destruct (is_prefix r r1) eqn:P; [|reflexivity].
           destruct (list_eq_dec (list_eq_dec Z.eq_dec) r r1) as [->|N].
           ++ rewrite (look_node _ _ _ L1). reflexivity.
           ++ symmetry. eapply sound_prefix_dir; eauto.
      * rewrite look_sem_op. destruct t1 as [c1|ch1].
        -- rewrite (strip_prefix_None_app _ _ r1 SP).
           destruct (is_prefix q (A ++ r1)) eqn:P; [|reflexivity].
           symmetry. apply HA. eapply prefix_comparable; eauto.
        -- destruct (is_prefix q (A ++ r1)) eqn:P; [|reflexivity].
           symmetry. apply HA. eapply prefix_comparable; eauto.
    + (* prefixes of A stay directories *)
      intros q0 P0. rewrite look_sem_op. destruct t1 as [c1|ch1].
      * destruct (strip_prefix (A ++ r1) q0) as [x|] eqn:E.
        -- exfalso. apply strip_prefix_Some in E. apply is_prefix_true in P0 as [y P0].
           subst q0. rewrite <- !app_assoc in P0. rewrite <- (app_nil_r A) in P0 at 1.
           apply app_inv_head in P0. symmetry in P0. apply app_eq_nil in P0 as [P0 _]. contradiction.
        -- rewrite (HA q0 P0). destruct (is_prefix q0 (A ++ r1)); reflexivity.
      * rewrite (HA q0 P0). destruct (is_prefix q0 (A ++ r1)); reflexivity.
    + (* nothing appears below a file of the source *)
      intros r c r' I Hr'. destruct (S r (File c) (or_intror I)) as [_ Lr].
      assert (NP : is_prefix (r ++ r') r1 = false).
      { destruct (is_prefix (r ++ r') r1) eqn:P; auto. apply is_prefix_true in P as [x P].
        rewrite <- app_assoc in P. rewrite P in L1. rewrite (below_file _ _ _ _ Lr) in L1; [discriminate|].
        destruct r'; [congruence|discriminate]. }
      rewrite look_sem_op. destruct t1 as [c1|ch1].
      * rewrite strip_prefix_app_same, is_prefix_app_same, NP.
        destruct (strip_prefix r1 (r ++ r')) as [[|m x]|] eqn:SP1; try reflexivity.
        -- apply strip_prefix_Some in SP1. rewrite app_nil_r in SP1. rewrite <- SP1 in L1.
           rewrite (below_file _ _ _ _ Lr Hr') in L1. discriminate.
        -- apply (HF r c r'); [right; assumption|assumption].
      * rewrite is_prefix_app_same, NP. apply (HF r c r'); [right; assumption|assumption].
Qed.

(* ================================================================== *)
(* the node list of a tree is sound and complete w.r.t. lookup           *)

Lemma nodes_dir_flat pre ch :
  nodes pre (Dir ch)
  = flat_map (fun nt => (pre ++ [fst nt], snd nt) :: nodes (pre ++ [fst nt]) (snd nt)) ch.
Proof.
  induction ch as [|[n c] ch IH]; [reflexivity|]. rewrite nodes_dir_cons, IH. reflexivity.
Qed.

Lemma nodes_sound src : forall pre r t,
  wf_tree src -> In (r, t) (nodes pre src) ->
  exists r', r = pre ++ r' /\ r' <> [] /\ lookup src r' = Some t.
Proof.
  induction src as [c|ch IH] using tree_ind2; intros pre r t W I; [destruct I|].
  rewrite nodes_dir_flat in I. apply in_flat_map in I as ([n c] & Ic & I). cbn [fst snd] in I.
  pose proof W as W0. apply wf_tree_dir in W as [ND F].
  pose proof (assoc_NoDup_In ch n c ND Ic) as A.
  destruct I as [E|I].
  - inversion E; subst. exists [n]. repeat split; [discriminate|]. simpl. rewrite A. reflexivity.
  - rewrite Forall_forall in IH. specialize (IH (n, c) Ic). cbn [snd] in IH.
    destruct (IH (pre ++ [n]) r t) as (r' & -> & Hr & L); auto.
    + eapply wf_child; eauto.
    + exists (n :: r'). rewrite <- app_assoc. repeat split; [discriminate|]. simpl. rewrite A. exact L.
Qed.

Lemma nodes_complete src : forall pre r' t,
  r' <> [] -> lookup src r' = Some t -> In (pre ++ r', t) (nodes pre src).
Proof.
  induction src as [c|ch IH] using tree_ind2; intros pre r' t Hr L.
  - destruct r'; [congruence|discriminate].
  - destruct r' as [|n r'']; [congruence|]. simpl in L.
    destruct (assoc n ch) as [c|] eqn:A; [|discriminate].
    pose proof (assoc_In_pair _ _ _ A) as Ic.
    rewrite nodes_dir_flat. apply in_flat_map. exists (n, c). split; [assumption|]. cbn [fst snd].
    destruct r'' as [|m r''].
    + left. simpl in L. inversion L; subst. reflexivity.
    + right. rewrite Forall_forall in IH. specialize (IH (n, c) Ic). cbn [snd] in IH.
      replace (pre ++ n :: m :: r'') with ((pre ++ [n]) ++ m :: r'') by (rewrite <- app_assoc; reflexivity).
      apply IH; [discriminate|assumption].
Qed.

(* ================================================================== *)
(* no conflict between the source and what is at the destination         *)

Definition compat (fs : tree) (A : list name) (src : tree) : Prop :=
  no_file_on fs A /\
  forall r t, lookup src r = Some t ->
    match t with
    | Dir _ => forall c, lookup fs (A ++ r) <> Some (File c)
    | File _ => forall ch, lookup fs (A ++ r) <> Some (Dir ch)
    end.

(* the documented result, path by path: below A the source; the prefixes of A are directories;
   everything else is what it was *)
Definition placed (fs : tree) (A : list name) (src : tree) (q : list name) : option entry :=
  match strip_prefix A q with
  | Some r => match look src r with Some e => Some e | None => look fs q end
  | None => if is_prefix q A then Some EDir else look fs q
  end.

Lemma run_ok_intro A : forall ops fs,
  (forall l op rest, ops = l ++ op :: rest -> op_ok A (fold_left (sem_op A) l fs) op) ->
  run_ok A fs ops.
Proof.
  induction ops as [|a ops IH]; intros fs H; simpl; [exact Logic.I|]. split.
  - apply (H [] a ops eq_refl).
  - apply IH. intros l op rest E. apply (H (a :: l) op rest). rewrite E. reflexivity.
Qed.

Lemma is_prefix_removelast (q X : list name) :
  X <> [] -> is_prefix q (removelast X) = true -> is_prefix q X = true /\ q <> X.
Proof.
  intros HX P. destruct (exists_last HX) as (x & n & ->). rewrite removelast_last in P.
  split.
  - eapply is_prefix_trans; [exact P|apply is_prefix_app].
  - intros ->. rewrite is_prefix_snoc_self in P. discriminate.
Qed.

Section UploadDir.
  Variables (fs : tree) (A : list name) (ch : list (name * tree)).
  Let src := Dir ch.
  Let S := ensure_dir fs A.
  Variable ops : list (list name * tree).
  Hypothesis W : wf_tree src.
  Hypothesis C : compat fs A src.
  Hypothesis SND : sound src ops.
  Hypothesis CMP : forall r t, r <> [] -> lookup src r = Some t -> In (r, t) ops.

  Lemma S_prefixes q : is_prefix q A = true -> look S q = Some EDir.
  Proof. intro P. unfold S. rewrite look_ensure_dir, P. reflexivity. Qed.

  Lemma S_below r : r <> [] -> look S (A ++ r) = look fs (A ++ r).
  Proof.
    intro Hr. unfold S. rewrite look_ensure_dir. destruct r as [|m r]; [congruence|].
    rewrite is_prefix_longer. reflexivity.
  Qed.

  Lemma S_below_file r c r' : In (r, File c) ops -> r' <> [] -> look S (A ++ r ++ r') = None.
  Proof.
    intros I Hr'. destruct (SND _ _ I) as [Hr L].
    rewrite S_below by (destruct r; [congruence|discriminate]).
    destruct C as [_ C2]. specialize (C2 r (File c) L). cbn in C2.
    rewrite app_assoc. rewrite look_app. destruct (lookup fs (A ++ r)) as [[c0|ch0]|] eqn:E; auto.
    - apply look_file_below. assumption.
    - exfalso. eapply C2; reflexivity.
  Qed.

  Lemma sound_sub l x rest : ops = l ++ x :: rest -> sound src l.
  Proof. intros E r t I. apply SND. rewrite E. apply in_or_app. left; assumption. Qed.

  Lemma view_of_prefix l x rest q :
    ops = l ++ x :: rest ->
    look (fold_left (sem_op A) l S) q =
    match strip_prefix A q with
    | Some r => if covered l r then look src r else look S q
    | None => look S q
    end.
  Proof.
    intro E. apply fold_view.
    - eapply sound_sub; eauto.
    - apply S_prefixes.
    - intros r c r' I. apply (S_below_file r c r'). rewrite E. apply in_or_app. left; assumption.
  Qed.

  (* in every intermediate state, no prefix of a node's path is a file (the node itself excepted
     when it is a file) *)
  Lemma state_not_file l r1 t1 rest q c :
    ops = l ++ (r1, t1) :: rest ->
    is_prefix q (A ++ r1) = true ->
    (q <> A ++ r1 \/ is_dir t1 = true) ->
    lookup (fold_left (sem_op A) l S) q <> Some (File c).
  Proof.
    intros E P Hq L. apply look_file in L. rewrite (view_of_prefix l _ rest q E) in L.
    assert (I1 : In (r1, t1) ops) by (rewrite E; apply in_or_app; right; left; reflexivity).
    destruct (SND _ _ I1) as [Hr1 L1].
    destruct (strip_prefix A q) as [r|] eqn:SP.
    - apply strip_prefix_Some in SP. subst q. rewrite is_prefix_app_same in P.
      assert (D : exists chr, lookup src r = Some (Dir chr)).
      { destruct (list_eq_dec (list_eq_dec Z.eq_dec) r r1) as [->|N].
        - destruct Hq as [Hq|Hq]; [congruence|]. destruct t1; [discriminate|eauto].
        - apply look_dir. eapply sound_prefix_dir; eauto. }
      destruct D as [chr D].
      destruct (covered l r).
      + rewrite (look_node _ _ _ D) in L. discriminate.
      + unfold S in L. rewrite look_ensure_dir in L. destruct (is_prefix (A ++ r) A); [discriminate|].
        apply look_file in L. destruct C as [_ C2]. apply (C2 r _ D c). exact L.
    - rewrite S_prefixes in L; [discriminate|]. eapply prefix_comparable; eauto.
  Qed.

  Lemma ops_run_ok : run_ok A S ops.
  Proof.
    apply run_ok_intro. intros l [r1 t1] rest E.
    assert (I1 : In (r1, t1) ops) by (rewrite E; apply in_or_app; right; left; reflexivity).
    destruct (SND _ _ I1) as [Hr1 L1].
    unfold op_ok. cbn [fst snd]. destruct t1 as [c1|ch1].
    - split.
      + intros q P c. assert (HX : A ++ r1 <> []) by (destruct A; destruct r1; try discriminate; congruence).
        destruct (is_prefix_removelast q _ HX P) as [P1 N1].
        eapply state_not_file; eauto.
      + intros chx L0. assert (L : look (fold_left (sem_op A) l S) (A ++ r1) = Some EDir) by (apply look_dir; eauto).
        clear chx L0.
        rewrite (view_of_prefix l _ rest _ E) in L. rewrite strip_prefix_app in L.
        destruct (covered l r1).
        * rewrite (look_node _ _ _ L1) in L. discriminate.
        * rewrite S_below in L by assumption. apply look_dir in L as [chx L].
          destruct C as [_ C2]. apply (C2 r1 _ L1 chx). exact L.
    - intros q P c. eapply state_not_file; eauto.
  Qed.

  Lemma covered_complete r t : r <> [] -> lookup src r = Some t -> covered ops r = true.
  Proof.
    intros Hr L. unfold covered. apply existsb_exists. exists (r, t). split; [apply CMP; assumption|].
    apply is_prefix_refl.
  Qed.

  Lemma covered_sound r : covered ops r = true -> exists e, look src r = Some e.
  Proof.
    unfold covered. intro H. apply existsb_exists in H as ([r1 t1] & I & P). cbn [fst] in P.
    destruct (SND _ _ I) as [_ L1].
    destruct (list_eq_dec (list_eq_dec Z.eq_dec) r r1) as [->|N].
    - rewrite (look_node _ _ _ L1). eauto.
    - exists EDir. eapply sound_prefix_dir; eauto.
  Qed.

  Lemma final_view q : look (fold_left (sem_op A) ops S) q = placed fs A src q.
  Proof.
    rewrite (fold_view A src ops S SND S_prefixes S_below_file). unfold placed.
    destruct (strip_prefix A q) as [r|] eqn:SP.
    - apply strip_prefix_Some in SP. subst q.
      destruct (look src r) as [e|] eqn:LS.
      + destruct r as [|m r].
        * rewrite app_nil_r. rewrite S_prefixes by apply is_prefix_refl.
          unfold src in LS. cbn in LS. inversion LS. destruct (covered ops []); reflexivity.
        * unfold look in LS. destruct (lookup src (m :: r)) as [t|] eqn:L; [|discriminate].
          rewrite (covered_complete (m :: r) t); [reflexivity|discriminate|assumption].
      + destruct (covered ops r) eqn:CV.
        * apply covered_sound in CV as [e CV]. congruence.
        * apply S_below. intros ->. unfold src in LS. cbn in LS. discriminate.
    - unfold S. apply look_ensure_dir.
  Qed.
End UploadDir.

(* ================================================================== *)
(* the upload theorems                                                   *)

Lemma bfs_root_perm ch :
  Permutation (bfs (tree_size (Dir ch)) [([], ch)]) (nodes [] (Dir ch)).
Proof.
  rewrite bfs_perm.
  - unfold qnodes. simpl. rewrite app_nil_r. reflexivity.
  - rewrite qsize_cons, tree_size_dir. unfold qsize. simpl. lia.
Qed.

Lemma upload_gen_dir_spec fixed cwd fs nm ch dst wi chc :
  let dst' := final_destination nm dst wi in
  let A := resolve cwd dst' in
  resolve cwd (upload_anchor fixed wi dst' nm) = A ->
  lookup fs cwd = Some (Dir chc) ->
  wf_tree (Dir ch) ->
  compat fs A (Dir ch) ->
  exists fs', upload_gen fixed cwd fs nm (Dir ch) dst wi = Ok fs' /\
              forall q, look fs' q = placed fs A (Dir ch) q.
Proof.
  intros dst' A EA Hc W C.
  set (ops := bfs (tree_size (Dir ch)) [([], ch)]).
  assert (SND : sound (Dir ch) ops).
  { intros r t I. apply (Permutation_in _ (bfs_root_perm ch)) in I.
    apply nodes_sound in I as (r' & -> & Hr & L); auto. }
  assert (CMP : forall r t, r <> [] -> lookup (Dir ch) r = Some t -> In (r, t) ops).
  { intros r t Hr L. apply (Permutation_in _ (Permutation_sym (bfs_root_perm ch))).
    apply (nodes_complete (Dir ch) [] r t Hr L). }
  exists (fold_left (sem_op A) ops (ensure_dir fs A)). split.
  - pose proof (upload_gen_dir_actual fixed cwd fs nm ch dst wi chc) as H. cbv zeta in H.
    fold dst' in H. rewrite EA in H. apply H; auto.
    + apply C.
    + apply (ops_run_ok fs A ch ops); auto.
  - intro q. apply (final_view fs A ch ops); auto.
Qed.

(* Client.upload: full statement *)
Lemma upload_spec_view cwd fs nm ch dst wi chc :
  let A := resolve cwd (final_destination nm dst wi) in
  lookup fs cwd = Some (Dir chc) ->
  wf_tree (Dir ch) ->
  compat fs A (Dir ch) ->
  exists fs', upload cwd fs nm (Dir ch) dst wi = Ok fs' /\
              forall q, look fs' q = placed fs A (Dir ch) q.
Proof. intros A. apply (upload_gen_dir_spec true). reflexivity. Qed.

(* HISTORICAL, the code before the fix of F1: right exactly when the children's anchor cwd/<last component> is the destination *)
Lemma upload_old_spec_partial cwd fs nm ch dst wi chc :
  let dst' := final_destination nm dst wi in
  let A := resolve cwd dst' in
  resolve cwd (bug_anchor wi dst' nm) = A ->
  lookup fs cwd = Some (Dir chc) ->
  wf_tree (Dir ch) ->
  compat fs A (Dir ch) ->
  exists fs', upload_old cwd fs nm (Dir ch) dst wi = Ok fs' /\
              forall q, look fs' q = placed fs A (Dir ch) q.
Proof. intros dst' A. apply (upload_gen_dir_spec false). Qed.

(* ... which covers: write_into with a relative destination of at most one component, and no
   write_into with the empty destination *)
Lemma bug_anchor_ok cwd nm dst wi :
  (wi = true /\ p_abs dst = false /\ (p_parts dst = [] \/ exists n, n <> [] /\ p_parts dst = [n])) \/
  (wi = false /\ dst = mkp false []) ->
  resolve cwd (bug_anchor wi (final_destination nm dst wi) nm)
  = resolve cwd (final_destination nm dst wi).
Proof.
  intros [(-> & Ha & Hp)|(-> & ->)].
  - destruct dst as [ab parts]. cbn in Ha. subst ab. cbn [p_parts] in Hp.
    destruct Hp as [->|(n & Hn & ->)]; [reflexivity|].
    unfold bug_anchor, final_destination, pname, of_name, resolve. cbn. destruct n; [congruence|reflexivity].
  - reflexivity.
Qed.

(* a single file: any destination with a name, both write_into, both versions *)
Lemma upload_file_spec fixed cwd fs nm c dst wi chc :
  let dst' := final_destination nm dst wi in
  let A := resolve cwd dst' in
  lookup fs cwd = Some (Dir chc) ->
  p_parts dst' <> [] ->
  no_file_on fs (removelast A) ->
  (forall ch, lookup fs A <> Some (Dir ch)) ->
  upload_gen fixed cwd fs nm (File c) dst wi = Ok (graft fs A (File c)) /\
  forall q, look (graft fs A (File c)) q = placed fs A (File c) q.
Proof.
  intros dst' A Hc Hp NF ND. split.
  - unfold upload_gen. fold dst'. rewrite (upload_file_exact cwd fs dst' c chc); auto.
  - intro q. change (graft fs A (File c)) with (write_at fs A c). rewrite look_write_at. unfold placed.
    destruct (strip_prefix A q) as [[|m x]|] eqn:SP; try reflexivity.
    apply strip_prefix_Some in SP. subst q. cbn. rewrite look_app.
    destruct (lookup fs A) as [[c0|ch0]|] eqn:E; auto. exfalso. eapply ND; reflexivity.
Qed.

(* non-vacuity: a fresh destination is always compatible *)
Lemma compat_fresh fs A src :
  no_file_on fs A -> lookup fs A = None -> compat fs A src.
Proof.
  intros NF L. split; [assumption|]. intros r t _.
  assert (E : lookup fs (A ++ r) = None) by (rewrite lookup_app, L; reflexivity).
  rewrite E. destruct t; discriminate.
Qed.

(* ================================================================== *)
(* the function graft has exactly the documented view                    *)

Definition oc :=
  fix go (l : list (name * tree)) (ch : list (name * tree)) : list (name * tree) :=
    match l with
    | [] => ch
    | (n, s) :: r => go r (set_child n (overlay s (child_or n ch)) ch)
    end.

Lemma overlay_dir sch t : overlay (Dir sch) t = Dir (oc sch (as_dir t)).
Proof. reflexivity. Qed.

Lemma assoc_oc n : forall sch ch0,
  NoDup (map fst sch) ->
  assoc n (oc sch ch0) =
  match assoc n sch with
  | Some c => Some (overlay c (child_or n ch0))
  | None => assoc n ch0
  end.
Proof.
  induction sch as [|[k c] sch IH]; intros ch0 ND; [reflexivity|].
  inversion ND; subst. cbn [oc]. fold oc. rewrite IH by assumption. cbn [assoc].
  destruct (name_eqbP n k) as [->|N].
  - rewrite (assoc_notin k sch) by assumption. rewrite assoc_set_child, name_eqb_refl. reflexivity.
  - unfold child_or. rewrite assoc_set_child. destruct (name_eqbP n k); [contradiction|]. reflexivity.
Qed.

Definition nothing_below_files (s src : tree) : Prop :=
  forall r c x, lookup src r = Some (File c) -> x <> [] -> lookup s (r ++ x) = None.

Lemma overlay_look src : forall s,
  wf_tree src -> nothing_below_files s src ->
  forall r, look (overlay src s) r = match look src r with Some e => Some e | None => look s r end.
Proof.
  induction src as [c|sch IH] using tree_ind2; intros s W NB r.
  - destruct r as [|m x]; [reflexivity|]. cbn. symmetry. apply look_None.
    apply (NB [] c (m :: x)); [reflexivity|discriminate].
  - rewrite overlay_dir. destruct r as [|n x]; [reflexivity|].
    pose proof W as W0. apply wf_tree_dir in W as [ND F].
    unfold look at 1 2. cbn [lookup]. rewrite assoc_oc by assumption.
    destruct (assoc n sch) as [c|] eqn:A.
    + change (option_map entry_of (lookup (overlay c (child_or n (as_dir s))) x))
        with (look (overlay c (child_or n (as_dir s))) x).
      change (option_map entry_of (lookup c x)) with (look c x).
      rewrite Forall_forall in IH. pose proof (assoc_In_pair _ _ _ A) as Ic.
      rewrite (IH (n, c) Ic); cbn [snd].
      * destruct (look c x) as [e|] eqn:LC; [reflexivity|].
        assert (Hx : x <> []) by (intros ->; discriminate LC).
        unfold look, child_or. destruct s as [c0|ch0]; cbn.
        -- rewrite lookup_empty_dir by assumption. reflexivity.
        -- destruct (assoc n ch0); [reflexivity|]. rewrite lookup_empty_dir by assumption. reflexivity.
      * eapply wf_child; eauto.
      * intros r0 c0 x0 L0 Hx0.
        assert (L1 : lookup (Dir sch) (n :: r0) = Some (File c0)) by (simpl; rewrite A; exact L0).
        specialize (NB (n :: r0) c0 x0 L1 Hx0). unfold child_or.
        destruct s as [c1|ch0]; cbn in *.
        -- apply lookup_empty_dir. destruct r0; [assumption|discriminate].
        -- destruct (assoc n ch0); [exact NB|].
           apply lookup_empty_dir. destruct r0; [assumption|discriminate].
    + destruct s as [c0|ch0]; reflexivity.
Qed.

Lemma graft_placed fs A src :
  wf_tree src -> compat fs A src ->
  forall q, look (graft fs A src) q = placed fs A src q.
Proof.
  intros W [NF C] q. unfold graft, placed. rewrite look_update_at.
  destruct (strip_prefix A q) as [r|] eqn:SP; [|reflexivity].
  apply strip_prefix_Some in SP. subst q. rewrite overlay_look; auto.
  - destruct (look src r) as [e|] eqn:LS; [reflexivity|].
    assert (Hr : r <> []) by (intros ->; discriminate LS).
    rewrite look_app. unfold sub_or. destruct (lookup fs A); [reflexivity|].
    apply look_None. apply lookup_empty_dir. assumption.
  - intros r0 c x L Hx. specialize (C r0 _ L). cbn in C. unfold sub_or.
    destruct (lookup fs A) as [s|] eqn:E.
    + pose proof (lookup_app fs A r0) as E1. rewrite E in E1.
      rewrite lookup_app. rewrite <- E1.
      destruct (lookup fs (A ++ r0)) as [[c1|ch1]|] eqn:E2; auto.
      * destruct x; [congruence|reflexivity].
      * exfalso. eapply C; reflexivity.
    + apply lookup_empty_dir. destruct r0; [assumption|discriminate].
Qed.

(* ================================================================== *)
(* download                                                              *)

Lemma update_at_const t p f : update_at t p f = update_at t p (fun _ => f (sub_or t p)).
Proof.
  revert t; induction p as [|n p IH]; intros t; [reflexivity|].
  rewrite !update_at_cons. rewrite IH. rewrite sub_or_cons. reflexivity.
Qed.

Lemma no_file_on_blocked fs a : no_file_on fs a -> blocked fs a = false.
Proof.
  intro NF. destruct (blocked fs a) eqn:B; auto.
  apply blocked_true in B as (q & r & c & -> & _ & L). exfalso. eapply NF; [apply is_prefix_app|exact L].
Qed.

Lemma l_mkdir_p_exact lcwd lfs p :
  no_file_on lfs (resolve lcwd p) -> l_mkdir_p lcwd lfs p = Ok (ensure_dir lfs (resolve lcwd p)).
Proof.
  intro NF. unfold l_mkdir_p. destruct (lookup lfs (resolve lcwd p)) as [[c|ch]|] eqn:L.
  - exfalso. eapply NF; [apply is_prefix_refl|exact L].
  - rewrite (ensure_dir_exists _ _ _ L). reflexivity.
  - rewrite no_file_on_blocked by assumption. reflexivity.
Qed.

Lemma prefix_cases (q A : list name) : is_prefix q A = true -> q = A \/ is_prefix q (removelast A) = true.
Proof.
  intro P. apply is_prefix_true in P as [r ->]. destruct r as [|m r] using rev_ind.
  - left. rewrite app_nil_r. reflexivity.
  - right. rewrite app_assoc, removelast_last. apply is_prefix_app.
Qed.

Lemma no_file_on_extend fs A :
  no_file_on fs (removelast A) -> (forall c, lookup fs A <> Some (File c)) -> no_file_on fs A.
Proof.
  intros NF N q P. destruct (prefix_cases q A P) as [->|P']; [exact N|]. apply NF. assumption.
Qed.

Lemma no_file_on_updated lfs A acc : no_file_on (update_at lfs A (fun _ => Dir acc)) A.
Proof.
  intros q P c L. apply look_file in L. rewrite look_update_at in L.
  destruct (strip_prefix A q) as [r|] eqn:SP.
  - apply strip_prefix_Some in SP. subst q. apply is_prefix_true in P as [y P].
    rewrite <- app_assoc in P. rewrite <- (app_nil_r A) in P at 1. apply app_inv_head in P.
    symmetry in P. apply app_eq_nil in P as [-> _]. discriminate L.
  - rewrite P in L. discriminate.
Qed.

Lemma prelative_to_join src n : prelative_to (pjoin src (mkp false [n])) src = Some (mkp false [n]).
Proof.
  unfold prelative_to, pjoin. cbn [p_abs p_parts]. rewrite Bool.eqb_reflx, strip_prefix_app. reflexivity.
Qed.

Definition dl_each (f : nat) (cwd : list name) (rfs : tree) (lcwd : list name) (src dst' : ppath) :=
  fix each (l : list (name * bool)) (l0 : tree) : res tree :=
    match l with
    | [] => Ok l0
    | e :: r =>
        let nm := pjoin src (mkp false [fst e]) in
        match prelative_to nm src with
        | None => Fail 1
        | Some rel => bind (download_to f cwd rfs lcwd l0 nm (pjoin dst' rel)) (each r)
        end
    end.

Lemma download_to_S f cwd rfs lcwd lfs src dst' :
  download_to (S f) cwd rfs lcwd lfs src dst' =
  match r_stat cwd rfs src with
  | None => Fail 550
  | Some false =>
      bind (l_mkdir_p lcwd lfs (pparent dst')) (fun l1 =>
      bind (r_retr cwd rfs src) (fun c => l_write lcwd l1 dst' c))
  | Some true =>
      bind (l_mkdir_p lcwd lfs dst') (fun l1 =>
      bind (r_list cwd rfs src) (fun ents => dl_each f cwd rfs lcwd src dst' ents l1))
  end.
Proof. reflexivity. Qed.

Definition kinds_ok (lfs : tree) (A : list name) (t : tree) : Prop :=
  forall r tt, lookup t r = Some tt ->
    match tt with
    | Dir _ => forall c, lookup lfs (A ++ r) <> Some (File c)
    | File _ => forall ch, lookup lfs (A ++ r) <> Some (Dir ch)
    end.

Lemma download_exact cwd rfs lcwd t :
  forall fuel lfs src dst',
    (tree_size t <= fuel)%nat ->
    lookup rfs (resolve cwd src) = Some t ->
    wf_tree t ->
    no_file_on lfs (removelast (resolve lcwd dst')) ->
    kinds_ok lfs (resolve lcwd dst') t ->
    (is_dir t = false -> p_parts dst' <> []) ->
    download_to fuel cwd rfs lcwd lfs src dst' = Ok (graft lfs (resolve lcwd dst') t).
Proof.
  induction t as [c|ch IHch] using tree_ind2; intros fuel lfs src dst' Hf L W NF K HP.
  - destruct fuel as [|f]; [simpl in Hf; lia|]. rewrite download_to_S. unfold r_stat. rewrite L. cbn [option_map is_dir].
    specialize (HP eq_refl).
    rewrite l_mkdir_p_exact; [|rewrite resolve_parent by assumption; exact NF].
    cbn [bind]. unfold r_retr. rewrite L. cbn [bind]. unfold l_write.
    rewrite resolve_parent by assumption.
    assert (Ha : resolve lcwd dst' <> []).
    { rewrite resolve_base. intro E. apply app_eq_nil in E as [_ E]. contradiction. }
    destruct (exists_last Ha) as (x & n & E).
    pose proof (K [] (File c) eq_refl) as ND. cbn in ND. rewrite app_nil_r in ND.
    rewrite E in *. rewrite removelast_last. rewrite (r_stor_after_ensure lcwd lfs x n c dst' E ND). reflexivity.
  - rewrite tree_size_dir in Hf. destruct fuel as [|f]; [lia|]. rewrite download_to_S.
    unfold r_stat. rewrite L. cbn [option_map is_dir].
    set (A := resolve lcwd dst') in *.
    pose proof (K [] (Dir ch) eq_refl) as NFA. cbn in NFA. rewrite app_nil_r in NFA.
    assert (NFA' : no_file_on lfs A) by (apply no_file_on_extend; assumption).
    rewrite l_mkdir_p_exact by assumption. fold A. cbn [bind]. unfold r_list. rewrite L. cbn [bind].
    set (acc0 := as_dir (sub_or lfs A)).
    pose proof W as W0. apply wf_tree_dir in W as [ND F].
    assert (Each : forall rest acc,
              NoDup (map fst rest) -> incl rest ch -> (sizes rest <= f)%nat ->
              (forall n, In n (map fst rest) -> assoc n acc = assoc n acc0) ->
              dl_each f cwd rfs lcwd src dst' (map (fun nt => (fst nt, is_dir (snd nt))) rest)
                      (update_at lfs A (fun _ => Dir acc))
              = Ok (update_at lfs A (fun _ => Dir (oc rest acc)))).
    { induction rest as [|[n c] rest IHr]; intros acc NDr I Hs Hacc; [reflexivity|].
      cbn [map dl_each fst snd]. rewrite prelative_to_join.
      inversion NDr as [|? ? Hn NDr']; subst. rewrite sizes_cons in Hs.
      assert (Ic : In (n, c) ch) by (apply I; left; reflexivity).
      set (fsi := update_at lfs A (fun _ => Dir acc)).
      assert (RA : resolve lcwd (pjoin dst' (mkp false [n])) = A ++ [n]) by (rewrite resolve_join; reflexivity).
      rewrite Forall_forall in IHch. rewrite (IHch (n, c) Ic f fsi).
      - rewrite RA. cbn [bind]. unfold graft, fsi.
        rewrite update_at_app, update_at_twice.
        rewrite (update_at_ext lfs A _ (fun _ => Dir (set_child n (overlay c (child_or n acc)) acc))) by reflexivity.
        rewrite IHr; [reflexivity|assumption| |lia|].
        + intros y Hy. apply I. right; assumption.
        + intros m Hm. rewrite assoc_set_child. destruct (name_eqbP m n) as [->|]; [contradiction|].
          apply Hacc. right; assumption.
      - cbn [snd]. lia.
      - rewrite resolve_join, lookup_app, L. simpl. rewrite (assoc_NoDup_In ch n c ND Ic). reflexivity.
      - rewrite Forall_forall in F. apply (F (n, c) Ic).
      - rewrite RA, removelast_last. apply no_file_on_updated.
      - rewrite RA. intros r tt Lr.
        assert (Lt : lookup (Dir ch) (n :: r) = Some tt).
        { simpl. rewrite (assoc_NoDup_In ch n c ND Ic). exact Lr. }
        pose proof (K (n :: r) tt Lt) as Kt.
        assert (Eq : lookup fsi ((A ++ [n]) ++ r) = lookup lfs (A ++ n :: r)).
        { rewrite <- app_assoc. cbn [app]. unfold fsi. rewrite !lookup_app, lookup_update_same. cbn [lookup].
          rewrite (Hacc n (or_introl eq_refl)). unfold acc0, sub_or.
          destruct (lookup lfs A) as [[c0|ch0]|] eqn:E0; cbn; reflexivity. }
        rewrite Eq. exact Kt.
      - intros _. unfold pjoin. cbn. intro E. apply app_eq_nil in E as [_ E]. discriminate. }
    unfold ensure_dir. rewrite (update_at_const lfs A dirify). fold acc0.
    change (dirify (sub_or lfs A)) with (Dir acc0).
    rewrite Each; auto.
    + unfold graft. rewrite (update_at_const lfs A (overlay (Dir ch))). rewrite overlay_dir. reflexivity.
    + apply incl_refl.
    + lia.
Qed.

Lemma download_spec cwd rfs lcwd lfs src dst wi t fuel :
  let dst' := final_destination (pname src) dst wi in
  let A := resolve lcwd dst' in
  (tree_size t <= fuel)%nat ->
  lookup rfs (resolve cwd src) = Some t ->
  wf_tree t ->
  no_file_on lfs (removelast A) ->
  kinds_ok lfs A t ->
  (is_dir t = false -> p_parts dst' <> []) ->
  download fuel cwd rfs lcwd lfs src dst wi = Ok (graft lfs A t).
Proof. intros dst' A. unfold download. apply download_exact. Qed.

(* ================================================================== *)
(* fuel: the node count of the file system is enough for every walk      *)

Lemma assoc_size n ch c : assoc n ch = Some c -> (tree_size c <= sizes ch)%nat.
Proof.
  induction ch as [|[k t] ch IH]; simpl; [discriminate|]. rewrite sizes_cons.
  destruct (name_eqb n k); intro E; [inversion E; subst; lia|]. apply IH in E. lia.
Qed.

Lemma fuel_enough fs p t : lookup fs p = Some t -> (tree_size t <= tree_size fs)%nat.
Proof.
  revert fs; induction p as [|n p IH]; intros fs; simpl.
  - intro E; inversion E; subst. apply Nat.le_refl.
  - destruct fs as [c|ch]; [discriminate|]. destruct (assoc n ch) as [c|] eqn:A; [|discriminate].
    intro L. apply IH in L. apply assoc_size in A. rewrite tree_size_dir. lia.
Qed.

(* names used by the witnesses: "foo", "x", "y", "a" *)
Definition n_foo : name := [102; 111; 111].
Definition n_x : name := [120].
Definition n_y : name := [121].
Definition n_a : name := [97].

(* F1: upload("foo", "x") of foo = {a: file} into an empty server creates /x/foo empty and puts a under /foo;
       upload("foo", "x/y", write_into=True) fills /y *)
Definition w_src : tree := Dir [(n_a, File [1])].

Lemma upload_old_witnesses :
  (exists cwd fs nm src dst wi r,
      upload_old cwd fs nm src dst wi = Ok r /\
      r <> graft fs (resolve cwd (final_destination nm dst wi)) src /\
      look r (resolve cwd (final_destination nm dst wi) ++ [n_a]) = None /\
      look r [n_foo; n_a] = Some (EFile [1]) /\ dst = mkp false [n_x] /\ wi = false)
  /\
  (exists cwd fs nm src dst wi r,
      upload_old cwd fs nm src dst wi = Ok r /\
      r <> graft fs (resolve cwd (final_destination nm dst wi)) src /\
      look r (resolve cwd (final_destination nm dst wi) ++ [n_a]) = None /\
      look r [n_y; n_a] = Some (EFile [1]) /\ dst = mkp false [n_x; n_y] /\ wi = true).
Proof.
  split.
  - exists [], (Dir []), n_foo, w_src, (mkp false [n_x]), false.
    eexists. split; [vm_compute; reflexivity|].
    repeat split; try (vm_compute; reflexivity). vm_compute. discriminate.
  - exists [], (Dir []), n_foo, w_src, (mkp false [n_x; n_y]), true.
    eexists. split; [vm_compute; reflexivity|].
    repeat split; try (vm_compute; reflexivity). vm_compute. discriminate.
Qed.

(* ================================================================== *)
(* the statements in the form Props/C09.v cites them                     *)

(* both versions of upload: right whenever the children's anchor is the destination *)
Lemma upload_gen_dir_spec_full fixed cwd fs nm ch dst wi chc :
  let dst' := final_destination nm dst wi in
  let A := resolve cwd dst' in
  resolve cwd (upload_anchor fixed wi dst' nm) = A ->
  lookup fs cwd = Some (Dir chc) ->
  wf_tree (Dir ch) ->
  compat fs A (Dir ch) ->
  exists fs', upload_gen fixed cwd fs nm (Dir ch) dst wi = Ok fs' /\
              (forall q, look fs' q = look (graft fs A (Dir ch)) q) /\
              (forall q, look fs' q = placed fs A (Dir ch) q).
Proof.
  intros dst' A EA Hc W C.
  destruct (upload_gen_dir_spec fixed cwd fs nm ch dst wi chc EA Hc W C) as (fs' & E & V).
  exists fs'. repeat split; auto. intro q. rewrite V. symmetry. apply graft_placed; assumption.
Qed.

Lemma upload_anchor_fixed wi dst' nm : upload_anchor true wi dst' nm = dst'.
Proof. reflexivity. Qed.

Lemma upload_spec cwd fs nm ch dst wi chc :
  let A := resolve cwd (final_destination nm dst wi) in
  lookup fs cwd = Some (Dir chc) ->
  wf_tree (Dir ch) ->
  compat fs A (Dir ch) ->
  exists fs', upload cwd fs nm (Dir ch) dst wi = Ok fs' /\
              (forall q, look fs' q = look (graft fs A (Dir ch)) q) /\
              (forall q, look fs' q = placed fs A (Dir ch) q).
Proof. intros A. apply (upload_gen_dir_spec_full true). reflexivity. Qed.

Lemma upload_old_spec_partial_full cwd fs nm ch dst wi chc :
  let dst' := final_destination nm dst wi in
  let A := resolve cwd dst' in
  resolve cwd (bug_anchor wi dst' nm) = A ->
  lookup fs cwd = Some (Dir chc) ->
  wf_tree (Dir ch) ->
  compat fs A (Dir ch) ->
  exists fs', upload_old cwd fs nm (Dir ch) dst wi = Ok fs' /\
              (forall q, look fs' q = look (graft fs A (Dir ch)) q) /\
              (forall q, look fs' q = placed fs A (Dir ch) q).
Proof. intros dst' A. apply (upload_gen_dir_spec_full false). Qed.

Lemma remove_spec_full cwd t fuel fs p :
  (tree_size t <= fuel)%nat ->
  lookup fs (resolve cwd p) = Some t ->
  resolve cwd p <> [] ->
  remove fuel cwd fs p = Ok (remove_at fs (resolve cwd p)) /\
  (forall q, is_prefix (resolve cwd p) q = false -> look (remove_at fs (resolve cwd p)) q = look fs q) /\
  (wf_tree fs -> forall r, look (remove_at fs (resolve cwd p)) (resolve cwd p ++ r) = None).
Proof.
  intros Hf L Ha. split; [apply (remove_exact cwd t); assumption|]. split.
  - intros q P. apply look_remove_at_other. assumption.
  - intros W r. eapply look_remove_at_gone; eauto.
Qed.

Lemma download_spec_full cwd rfs lcwd lfs src dst wi t fuel :
  let dst' := final_destination (pname src) dst wi in
  let A := resolve lcwd dst' in
  (tree_size t <= fuel)%nat ->
  lookup rfs (resolve cwd src) = Some t ->
  wf_tree t ->
  no_file_on lfs (removelast A) ->
  kinds_ok lfs A t ->
  (is_dir t = false -> p_parts dst' <> []) ->
  download fuel cwd rfs lcwd lfs src dst wi = Ok (graft lfs A t) /\
  (no_file_on lfs A -> forall q, look (graft lfs A t) q = placed lfs A t q).
Proof.
  intros dst' A Hf L W NF K HP. split.
  - apply download_spec; assumption.
  - intros NFA q. apply graft_placed; [assumption|]. split; assumption.
Qed.

(* non-vacuity: a fresh destination x/y under cwd /w, a source with an empty directory, an empty file and
   equal names on two levels *)
Lemma hypotheses_satisfiable :
  let fs := Dir [([119], Dir [([111], File [1])])] in
  let src := [(n_a, Dir [(n_a, File []); (n_x, Dir [])]); (n_x, File [7])] in
  lookup fs [[119]] = Some (Dir [([111], File [1])]) /\
  wf_tree (Dir src) /\
  compat fs (resolve [[119]] (final_destination n_foo (mkp false [n_x; n_y]) false)) (Dir src) /\
  upload [[119]] fs n_foo (Dir src) (mkp false [n_x; n_y]) false
  = Ok (graft fs [[119]; n_x; n_y; n_foo] (Dir src)).
Proof.
  cbv zeta. split; [reflexivity|]. split.
  - simpl. repeat (split || constructor); simpl; intuition discriminate.
  - split; [|vm_compute; reflexivity].
    apply compat_fresh; [|reflexivity].
    intros q P c. apply is_prefix_true in P as [r P].
    destruct q as [|q1 [|q2 [|q3 [|q4 [|q5 q]]]]]; simpl in P; inversion P; subst; vm_compute; discriminate.
Qed.

(* ================================================================== *)
(* the view of an upload for ANY anchor: an exact, universal description of finding F1 *)

Lemma no_file_on_before_ensure t x P :
  no_file_on t x -> no_file_on (ensure_dir t x) P -> no_file_on t P.
Proof.
  intros NX NP q Hq c L.
  destruct (is_prefix q x) eqn:Q.
  - exact (NX q Q c L).
  - apply (NP q Hq c). apply look_file. rewrite look_ensure_dir, Q. apply look_file. exact L.
Qed.

Lemma op_ok_before_ensure A' S0 r1 t1 :
  r1 <> [] ->
  no_file_on S0 A' ->
  op_ok A' (ensure_dir S0 A') (r1, t1) -> op_ok A' S0 (r1, t1).
Proof.
  intros Hr NX. unfold op_ok. cbn [fst snd]. destruct t1 as [c1|ch1].
  - intros [H1 H2]. split.
    + eapply no_file_on_before_ensure; eauto.
    + intros chx L. destruct r1 as [|m r]; [congruence|].
      apply (H2 chx). rewrite lookup_ensure_dir_below. exact L.
  - intro H. eapply no_file_on_before_ensure; eauto.
Qed.

Lemma sem_op_after_ensure A' S0 r1 t1 :
  r1 <> [] -> sem_op A' (ensure_dir S0 A') (r1, t1) = sem_op A' S0 (r1, t1).
Proof.
  intro Hr. destruct r1 as [|m r]; [congruence|]. unfold sem_op. cbn [fst snd].
  destruct t1; unfold write_at, ensure_dir at 1; [|unfold ensure_dir at 2]; apply update_after_ensure.
Qed.

(* both versions, every input with at least one child: the directory is made (empty) at the destination A
   and the tree is laid out below the anchor A' -- path by path, and nothing else changes.  For the code as
   found A' = cwd/<last component>, so whenever that differs from A the children are NOT where the
   documentation puts them (finding F1); for the fixed code A' = A. *)
Lemma upload_gen_dir_view fixed cwd fs nm ch dst wi chc :
  let dst' := final_destination nm dst wi in
  let A := resolve cwd dst' in
  let A' := resolve cwd (upload_anchor fixed wi dst' nm) in
  ch <> [] ->
  lookup fs cwd = Some (Dir chc) ->
  wf_tree (Dir ch) ->
  no_file_on fs A ->
  compat (ensure_dir fs A) A' (Dir ch) ->
  exists fs', upload_gen fixed cwd fs nm (Dir ch) dst wi = Ok fs' /\
              forall q, look fs' q = placed (ensure_dir fs A) A' (Dir ch) q.
Proof.
  intros dst' A A' Hch Hc W NF C.
  set (S0 := ensure_dir fs A) in *.
  set (ops := bfs (tree_size (Dir ch)) [([], ch)]).
  assert (SND : sound (Dir ch) ops).
  { intros r t I. apply (Permutation_in _ (bfs_root_perm ch)) in I.
    apply nodes_sound in I as (r' & -> & Hr & L); auto. }
  assert (CMP : forall r t, r <> [] -> lookup (Dir ch) r = Some t -> In (r, t) ops).
  { intros r t Hr L. apply (Permutation_in _ (Permutation_sym (bfs_root_perm ch))).
    apply (nodes_complete (Dir ch) [] r t Hr L). }
  assert (R : run_ok A' (ensure_dir S0 A') ops) by (apply (ops_run_ok S0 A' ch ops); auto).
  assert (V : forall q, look (fold_left (sem_op A') ops (ensure_dir S0 A')) q = placed S0 A' (Dir ch) q)
    by (intro q; apply (final_view S0 A' ch ops); auto).
  assert (NE : ops <> []).
  { destruct ch as [|[n t] ch']; [congruence|].
    assert (I : In ([n], t) ops).
    { apply CMP; [discriminate|]. cbn. rewrite name_eqb_refl. reflexivity. }
    intro E. rewrite E in I. exact I. }
  destruct ops as [|[r1 t1] ops'] eqn:EO; [congruence|].
  assert (Hr1 : r1 <> []) by (apply (SND r1 t1); left; reflexivity).
  cbn [run_ok] in R. destruct R as [R1 R2].
  rewrite (sem_op_after_ensure A' S0 r1 t1 Hr1) in R2.
  exists (fold_left (sem_op A') ((r1, t1) :: ops') S0). split.
  - pose proof (upload_gen_dir_actual fixed cwd fs nm ch dst wi chc) as H. cbv zeta in H.
    fold dst' A A' S0 in H. fold ops in H. rewrite EO in H. apply H; auto.
    cbn [run_ok]. split; [|exact R2].
    apply op_ok_before_ensure; auto. apply C.
  - intro q. rewrite <- V. cbn [fold_left]. rewrite (sem_op_after_ensure A' S0 r1 t1 Hr1). reflexivity.
Qed.

(* consequence: with the code as found, a child [n] of the source is absent from the documented place
   A/n whenever that path was free and is not on the way to / below the anchor *)
Lemma upload_old_child_misplaced cwd fs nm ch dst wi chc n t :
  let dst' := final_destination nm dst wi in
  let A := resolve cwd dst' in
  let A' := resolve cwd (bug_anchor wi dst' nm) in
  assoc n ch = Some t ->
  lookup fs cwd = Some (Dir chc) ->
  wf_tree (Dir ch) ->
  no_file_on fs A ->
  compat (ensure_dir fs A) A' (Dir ch) ->
  look fs (A ++ [n]) = None ->
  is_prefix A' (A ++ [n]) = false ->
  is_prefix (A ++ [n]) A' = false ->
  exists fs', upload_old cwd fs nm (Dir ch) dst wi = Ok fs' /\
              look fs' (A ++ [n]) = None /\
              placed fs A (Dir ch) (A ++ [n]) = Some (entry_of t) /\
              look fs' (A' ++ [n]) = Some (entry_of t).
Proof.
  intros dst' A A' As Hc W NF C Free P1 P2.
  assert (Hch : ch <> []) by (intros ->; discriminate).
  destruct (upload_gen_dir_view false cwd fs nm ch dst wi chc Hch Hc W NF C) as (fs' & E & V).
  exists fs'. split; [exact E|]. cbv zeta in V. fold dst' A in V.
  change (resolve cwd (upload_anchor false wi dst' nm)) with A' in V.
  assert (LS : look (Dir ch) [n] = Some (entry_of t)).
  { unfold look. cbn. rewrite As. reflexivity. }
  split; [|split].
  - rewrite V. unfold placed.
    destruct (strip_prefix A' (A ++ [n])) as [r|] eqn:SP.
    + apply strip_prefix_Some in SP. rewrite SP in P1. rewrite is_prefix_app in P1. discriminate.
    + rewrite P2. rewrite look_ensure_dir, is_prefix_longer. exact Free.
  - unfold placed. rewrite strip_prefix_app, LS. reflexivity.
  - rewrite V. unfold placed. rewrite strip_prefix_app, LS. reflexivity.
Qed.

(* non-vacuity of upload_old_child_misplaced: the first witness of upload_old_witnesses *)
Lemma upload_old_child_misplaced_satisfiable :
  let fs := Dir [] in
  let ch := [(n_a, File [1])] in
  let dst' := final_destination n_foo (mkp false [n_x]) false in
  let A := resolve [] dst' in
  let A' := resolve [] (bug_anchor false dst' n_foo) in
  assoc n_a ch = Some (File [1]) /\
  lookup fs [] = Some (Dir []) /\
  wf_tree (Dir ch) /\
  no_file_on fs A /\
  compat (ensure_dir fs A) A' (Dir ch) /\
  look fs (A ++ [n_a]) = None /\
  is_prefix A' (A ++ [n_a]) = false /\
  is_prefix (A ++ [n_a]) A' = false.
Proof.
  cbv zeta. split; [reflexivity|]. split; [reflexivity|]. split.
  { simpl. repeat (split || constructor); simpl; intuition discriminate. }
  split.
  { intros q P c. apply is_prefix_true in P as [r P].
    destruct q as [|q1 [|q2 [|q3 q]]]; simpl in P; inversion P; subst; vm_compute; discriminate. }
  split; [|repeat split; reflexivity].
  apply compat_fresh; [|reflexivity].
  intros q P c. apply is_prefix_true in P as [r P].
  destruct q as [|q1 [|q2 q]]; simpl in P; inversion P; subst; vm_compute; discriminate.
Qed.

(* ================================================================== *)
(* sequences of operations on one session: no hidden client state        *)

Definition view : Type := list name -> option entry.

(* [placed] reads the old file system only through [look] *)
Definition placed_v (v : view) (A : list name) (src : tree) : view := fun q =>
  match strip_prefix A q with
  | Some r => match look src r with Some e => Some e | None => v q end
  | None => if is_prefix q A then Some EDir else v q
  end.

Lemma placed_is_placed_v fs A src q : placed fs A src q = placed_v (look fs) A src q.
Proof. reflexivity. Qed.

(* what each operation is documented to do, as a function of (cwd, what is visible on the server, arguments) *)
Definition spec_cwd (cwd : list name) (o : cop) : list name :=
  match o with OCd p => resolve cwd p | _ => cwd end.

Definition spec_view (v : view) (cwd : list name) (o : cop) : view :=
  match o with
  | OCd _ => v
  | OMkdir p => fun q => if is_prefix q (resolve cwd p) then Some EDir else v q
  | OUpload nm src dst wi => placed_v v (resolve cwd (final_destination nm dst wi)) src
  | ORemove p => fun q => if is_prefix (resolve cwd p) q then None else v q
  end.

Lemma spec_view_ext v1 v2 cwd o : (forall q, v1 q = v2 q) -> forall q, spec_view v1 cwd o q = spec_view v2 cwd o q.
Proof.
  intros E q. destruct o; cbn [spec_view]; unfold placed_v; try rewrite E; try reflexivity.
Qed.

(* the hypotheses of the single-operation theorems, on the state the operation starts from *)
Definition op_pre (st : cstate) (o : cop) : Prop :=
  let (cwd, fs) := st in
  match o with
  | OCd p => exists ch, lookup fs (resolve cwd p) = Some (Dir ch)
  | OMkdir p => (exists chc, lookup fs cwd = Some (Dir chc)) /\ no_file_on fs (resolve cwd p)
  | OUpload nm (Dir ch) dst wi =>
      (exists chc, lookup fs cwd = Some (Dir chc)) /\ wf_tree (Dir ch) /\
      compat fs (resolve cwd (final_destination nm dst wi)) (Dir ch)
  | OUpload nm (File c) dst wi =>
      let dst' := final_destination nm dst wi in
      (exists chc, lookup fs cwd = Some (Dir chc)) /\ p_parts dst' <> [] /\
      no_file_on fs (removelast (resolve cwd dst')) /\
      (forall ch, lookup fs (resolve cwd dst') <> Some (Dir ch))
  | ORemove p => (exists t, lookup fs (resolve cwd p) = Some t) /\ resolve cwd p <> [] /\ wf_tree fs
  end.

(* one operation: it succeeds, moves the cwd as documented, and what is visible afterwards is the documented
   function of what was visible before *)
Lemma step_sound cwd fs o v :
  op_pre (cwd, fs) o ->
  (forall q, look fs q = v q) ->
  exists fs', step true (cwd, fs) o = Ok (spec_cwd cwd o, fs') /\
              forall q, look fs' q = spec_view v cwd o q.
Proof.
  intros P E.
  assert (X : forall fs', (forall q, look fs' q = spec_view (look fs) cwd o q) ->
                          forall q, look fs' q = spec_view v cwd o q).
  { intros fs' H q. rewrite H. apply spec_view_ext. exact E. }
  destruct o as [p|p|nm src dst wi|p]; cbn [op_pre step spec_cwd] in *.
  - destruct P as [ch L]. exists fs. unfold r_cwd. rewrite L. split; [reflexivity|].
    apply X. intro q. reflexivity.
  - destruct P as [[chc Hc] NF]. exists (ensure_dir fs (resolve cwd p)).
    rewrite (make_directory_exact cwd fs p chc Hc NF). split; [reflexivity|].
    apply X. intro q. cbn [spec_view]. apply look_ensure_dir.
  - destruct src as [c|ch].
    + destruct P as ([chc Hc] & Hp & NF & ND).
      destruct (upload_file_spec true cwd fs nm c dst wi chc Hc Hp NF ND) as [U V].
      exists (graft fs (resolve cwd (final_destination nm dst wi)) (File c)).
      rewrite U. split; [reflexivity|]. apply X. intro q. rewrite V. reflexivity.
    + destruct P as ([chc Hc] & W & C).
      destruct (upload_spec_view cwd fs nm ch dst wi chc Hc W C) as (fs' & U & V).
      exists fs'. unfold upload in U. rewrite U. split; [reflexivity|].
      apply X. intro q. rewrite V. reflexivity.
  - destruct P as ([t L] & Ha & W).
    destruct (remove_spec_full cwd t (S (tree_size fs)) fs p) as (R & O & G); auto.
    { pose proof (fuel_enough _ _ _ L). lia. }
    exists (remove_at fs (resolve cwd p)). rewrite R. split; [reflexivity|].
    apply X. intro q. cbn [spec_view].
    destruct (is_prefix (resolve cwd p) q) eqn:Q.
    + apply is_prefix_true in Q as [r ->]. apply G. exact W.
    + apply O. exact Q.
Qed.

(* the hypotheses along a sequence, each on the state the model has reached *)
Fixpoint seq_pre (st : cstate) (ops : list cop) : Prop :=
  match ops with
  | [] => True
  | o :: r => op_pre st o /\ forall st', step true st o = Ok st' -> seq_pre st' r
  end.

Fixpoint spec_seq (cwd : list name) (v : view) (ops : list cop) : list name * view :=
  match ops with
  | [] => (cwd, v)
  | o :: r => spec_seq (spec_cwd cwd o) (spec_view v cwd o) r
  end.

(* a session = the fold of the single operations over (cwd, remote tree): every operation's effect is the
   documented function of (cwd, what is visible on the server, its arguments) -- whatever came before it in
   the session, in particular whatever directory the session was in when a path was used earlier *)
Lemma seq_sound : forall ops cwd fs v,
  (forall q, look fs q = v q) ->
  seq_pre (cwd, fs) ops ->
  exists fs', run_seq true (cwd, fs) ops = Ok (fst (spec_seq cwd v ops), fs') /\
              forall q, look fs' q = snd (spec_seq cwd v ops) q.
Proof.
  induction ops as [|o ops IH]; intros cwd fs v E P.
  - exists fs. split; [reflexivity|exact E].
  - destruct P as [P1 P2].
    destruct (step_sound cwd fs o v P1 E) as (fs1 & S1 & V1).
    cbn [run_seq spec_seq]. rewrite S1. cbn [bind].
    apply (IH (spec_cwd cwd o) fs1 (spec_view v cwd o) V1). apply P2. exact S1.
Qed.

(* the second use of a relative path after a change of directory resolves against the NEW cwd *)
Lemma spec_cd_then_mkdir cwd v c p q :
  snd (spec_seq cwd v [OCd c; OMkdir p]) q
  = if is_prefix q (resolve (resolve cwd c) p) then Some EDir else v q.
Proof. reflexivity. Qed.

(* non-vacuity: upload a directory-only tree to the relative destination x, change to w, upload it to x
   again -- the hypotheses hold along the way and /x/foo/d as well as /w/x/foo/d exist afterwards *)
Definition n_w : name := [119].
Definition n_d : name := [100].
Definition seq_example : list cop :=
  [OUpload n_foo (Dir [(n_d, Dir [])]) (mkp false [n_x]) false;
   OCd (mkp false [n_w]);
   OUpload n_foo (Dir [(n_d, Dir [])]) (mkp false [n_x]) false].

Lemma seq_example_ok :
  let fs := Dir [(n_w, Dir [])] in
  seq_pre ([], fs) seq_example /\
  exists fs', run_seq true ([], fs) seq_example = Ok ([n_w], fs') /\
              look fs' [n_x; n_foo; n_d] = Some EDir /\
              look fs' [n_w; n_x; n_foo; n_d] = Some EDir.
Proof.
  cbv zeta. split.
  - unfold seq_example. cbn [seq_pre]. split.
    + cbn [op_pre]. split; [eexists; reflexivity|]. split.
      { simpl. repeat (split || constructor); simpl; intuition discriminate. }
      apply compat_fresh; [|reflexivity].
      intros q P c. apply is_prefix_true in P as [r P].
      destruct q as [|q1 [|q2 [|q3 q]]]; simpl in P; inversion P; subst; vm_compute; discriminate.
    + intros st1 E1. vm_compute in E1. inversion E1; subst st1; clear E1. split.
      * cbn [op_pre]. eexists. vm_compute. reflexivity.
      * intros st2 E2. vm_compute in E2. inversion E2; subst st2; clear E2. split; [|intros; exact Logic.I].
        cbn [op_pre]. split; [eexists; vm_compute; reflexivity|]. split.
        { simpl. repeat (split || constructor); simpl; intuition discriminate. }
        apply compat_fresh; [|vm_compute; reflexivity].
        intros q P c. apply is_prefix_true in P as [r P].
        destruct q as [|q1 [|q2 [|q3 [|q4 q]]]]; simpl in P; inversion P; subst; vm_compute; discriminate.
  - eexists. split; [vm_compute; reflexivity|]. split; vm_compute; reflexivity.
Qed.

(* ================================================================== *)
(* download over pre-existing local content                              *)

(* laying a file over whatever is at A (nothing, or a file of ANY content and length) shows exactly the new
   contents at A, nothing below A, and leaves every other path as it was *)
Lemma graft_file_placed fs A c :
  (forall ch, lookup fs A <> Some (Dir ch)) ->
  forall q, look (graft fs A (File c)) q = placed fs A (File c) q.
Proof.
  intros ND q. change (graft fs A (File c)) with (write_at fs A c). rewrite look_write_at. unfold placed.
  destruct (strip_prefix A q) as [[|m x]|] eqn:SP; try reflexivity.
  apply strip_prefix_Some in SP. subst q. cbn. rewrite look_app.
  destruct (lookup fs A) as [[c0|ch0]|] eqn:E; auto. exfalso. eapply ND; reflexivity.
Qed.

(* a single remote file downloaded onto an EXISTING local file of arbitrary old contents: the local file is the
   remote bytes afterwards -- no remainder of the old contents, whatever their length -- and nothing else changed *)
Lemma download_file_replaces cwd rfs lcwd lfs src dst wi c c_old fuel :
  let dst' := final_destination (pname src) dst wi in
  let A := resolve lcwd dst' in
  (1 <= fuel)%nat ->
  lookup rfs (resolve cwd src) = Some (File c) ->
  lookup lfs A = Some (File c_old) ->
  no_file_on lfs (removelast A) ->
  p_parts dst' <> [] ->
  download fuel cwd rfs lcwd lfs src dst wi = Ok (graft lfs A (File c)) /\
  look (graft lfs A (File c)) A = Some (EFile c) /\
  forall q, look (graft lfs A (File c)) q = placed lfs A (File c) q.
Proof.
  intros dst' A Hf L LO NF HP.
  assert (ND : forall ch, lookup lfs A <> Some (Dir ch)) by (intros ch E; rewrite LO in E; discriminate).
  split; [|split].
  - apply download_spec; auto.
    + exact Logic.I.
    + intros r tt Lr. destruct r as [|m r]; [|discriminate].
      cbn in Lr. inversion Lr; subst tt. rewrite app_nil_r. exact ND.
  - rewrite graft_file_placed by exact ND.
    assert (SP : strip_prefix A A = Some []).
    { pose proof (strip_prefix_app A []) as H. rewrite app_nil_r in H. exact H. }
    unfold placed. rewrite SP. reflexivity.
  - apply graft_file_placed. exact ND.
Qed.

(* ================================================================== *)
(* round 6: WIDTH -- the worklist of the recursive lister has no bound    *)

(* The recursive lister is a WORKLIST algorithm: `cls.directories` (a FIFO queue) holds the directories still to be
   visited.  Whatever the number of directories pending (the length of qr is arbitrary: no bound on the width of the
   tree, i.e. on how many directories wait at once), the loop returns what it had accumulated plus every entry below
   the current directory and below EVERY pending directory, each exactly once: nothing that was queued is dropped. *)
Lemma list_worklist_complete cwd fs ab fuel rel ch qr acc :
  q_ok cwd fs ab ((rel, ch) :: qr) ->
  (qsize ((rel, ch) :: qr) <= fuel)%nat ->
  exists l,
    list_loop fuel cwd fs true (mkp ab rel) (map (fun rc => mkp ab (fst rc)) qr) acc = Ok (acc ++ l) /\
    Permutation l (map (item_of ab) (qnodes ((rel, ch) :: qr))).
Proof.
  intros OK Hq. eexists. split.
  - apply (list_loop_bfs cwd fs ab fuel rel ch qr acc OK Hq).
  - apply Permutation_map. apply bfs_perm. assumption.
Qed.

(* a bounded queue in the sense of collections.deque(maxlen=m): appending to a full queue discards from the LEFT *)
Definition push_bounded {A} (m : nat) (q : list A) (x : A) : list A :=
  if Nat.ltb (length q) m then q ++ [x] else tl (q ++ [x]).

Fixpoint list_loop_bounded (m : nat) (fuel : nat) (cwd : list name) (fs : tree)
         (cur : ppath) (dirs : list ppath) (acc : list item) : res (list item) :=
  match fuel with
  | O => OutOfFuel
  | S f =>
      bind (r_list cwd fs cur) (fun ents =>
        let items := list_items cur ents in
        let dirs' := fold_left (push_bounded m) (map fst (filter snd items)) dirs in
        match dirs' with
        | [] => Ok (acc ++ items)
        | nxt :: rest => list_loop_bounded m f cwd fs nxt rest (acc ++ items)
        end)
  end.

Lemma push_all_unbounded {A} (m : nat) (new q : list A) :
  (length q + length new <= m)%nat -> fold_left (push_bounded m) new q = q ++ new.
Proof.
  revert q. induction new as [|x new IH]; intros q H; simpl.
  - rewrite app_nil_r. reflexivity.
  - unfold push_bounded at 2. simpl in H.
    destruct (Nat.ltb_spec (length q) m); [|lia].
    rewrite IH; [rewrite <- app_assoc; reflexivity|]. rewrite app_length. simpl. lia.
Qed.

Definition wide3 : tree :=
  Dir [([100%Z], Dir [([1%Z], File [7%Z])]); ([101%Z], Dir [([1%Z], File [8%Z])]); ([102%Z], Dir [([1%Z], File [9%Z])])].

Example bounded_queue_loses_entries :
  (exists l, list_path 10 [] wide3 true (mkp true []) = Ok l /\ length l = 6%nat) /\
  (exists l, list_loop_bounded 2 10 [] wide3 (mkp true []) [] [] = Ok l /\ length l = 5%nat).
Proof. split; eexists; split; vm_compute; reflexivity. Qed.

(* the wide family: one directory with n sub-directories (names [i]) each holding one file *)
Definition wide_child (i : nat) : name * tree := ([Z.of_nat i], Dir [([0%Z], File [Z.of_nat i])]).
Definition wide (n : nat) : tree := Dir (map wide_child (seq 0 n)).

Lemma wide_names_nodup s n : NoDup (map fst (map wide_child (seq s n))).
Proof.
  rewrite map_map. cbn [wide_child fst].
  apply FinFun.Injective_map_NoDup; [|apply seq_NoDup].
  intros a b E. inversion E. lia.
Qed.

Lemma wf_wide n : wf_tree (wide n).
Proof.
  apply wf_tree_dir. split; [apply wide_names_nodup|].
  apply Forall_forall. intros [nm t] I. apply in_map_iff in I as [i [E _]]. inversion E; subst.
  cbn [snd]. apply wf_tree_dir. split.
  - simpl. constructor; [intros []|constructor].
  - constructor; [exact Logic.I|constructor].
Qed.

Lemma sizes_wide s n : sizes (map wide_child (seq s n)) = (2 * n)%nat.
Proof.
  revert s. induction n as [|n IH]; intro s; [reflexivity|].
  cbn [seq map]. unfold wide_child at 1. rewrite sizes_cons, IH. simpl. lia.
Qed.

Lemma entries_wide_length pre s n : length (entries pre (Dir (map wide_child (seq s n)))) = (2 * n)%nat.
Proof.
  unfold entries. rewrite map_length.
  revert s. induction n as [|n IH]; intro s; [reflexivity|].
  cbn [seq map]. unfold wide_child at 1. rewrite nodes_dir_cons. cbn [length]. rewrite app_length, IH. simpl. lia.
Qed.

(* for EVERY width n: listing the directory with n sub-directories (n directories pending at once after the first
   LIST/MLSD) returns exactly its 2n entries *)
Lemma list_wide_complete n :
  exists l, list_path (S (2 * n)) [] (wide n) true (mkp true []) = Ok l /\
            length l = (2 * n)%nat /\
            Permutation l (map (fun e => (mkp true (fst e), snd e)) (entries [] (wide n))).
Proof.
  destruct (list_recursive_exact [] (wide n) (mkp true []) (wide n) (S (2 * n))) as [l [E P]].
  - reflexivity.
  - apply wf_wide.
  - unfold wide. rewrite tree_size_dir, sizes_wide. lia.
  - exists l. split; [exact E|]. split; [|exact P].
    rewrite (Permutation_length P), map_length. apply entries_wide_length.
Qed.
