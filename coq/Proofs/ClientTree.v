(* Proofs about Model/ClientTree.v (C09). *)
From Coq Require Import ZArith List Bool Lia Permutation.
From Verif Require Import Lib.Sx Model.ClientTree.
Import ListNotations.
Open Scope Z_scope.

(* names used by the witnesses: "foo", "x", "y", "a" *)
Definition n_foo : name := [102; 111; 111].
Definition n_x : name := [120].
Definition n_y : name := [121].
Definition n_a : name := [97].

(* F1: upload("foo", "x") of foo = {a: file} into an empty server creates /x/foo empty and puts a under /foo;
       upload("foo", "x/y", write_into=True) fills /y *)
Definition w_src : tree := Dir [(n_a, File [1])].

Lemma upload_dir_refuted :
  (exists cwd fs nm src dst wi r,
      upload cwd fs nm src dst wi = Ok r /\
      r <> graft fs (resolve cwd (final_destination nm dst wi)) src /\
      look r (resolve cwd (final_destination nm dst wi) ++ [n_a]) = None /\
      look r [n_foo; n_a] = Some (EFile [1]) /\ dst = mkp false [n_x] /\ wi = false)
  /\
  (exists cwd fs nm src dst wi r,
      upload cwd fs nm src dst wi = Ok r /\
      r <> graft fs (resolve cwd (final_destination nm dst wi)) src /\
      look r (resolve cwd (final_destination nm dst wi) ++ [n_a]) = None /\
      look r [n_y; n_a] = Some (EFile [1]) /\ dst = mkp false [n_x; n_y] /\ wi = true).
Proof.
  split.
  - exists [], (Dir []), n_foo, w_src, (mkp false [n_x]), false.
    eexists. split; [vm_compute; reflexivity|].
    repeat split; try (vm_compute; reflexivity). vm_compute. discriminate.
  - exists [], (Dir []), n_foo, w_src, (mkp false [n_x; n_y]), true.
    eexists. split; [vm_compute; reflexivity|].
    repeat split; try (vm_compute; reflexivity). vm_compute. discriminate.
Qed.
