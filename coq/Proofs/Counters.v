(* Proofs about Model/Counters.v (C10): slot conservation for every limit configuration and
   every interleaving of session events, by an invariant preserved by each step. *)
From Coq Require Import ZArith List Bool String Ascii Lia.
From Verif Require Import Lib.Sx Model.Counters.
Import ListNotations.
Open Scope Z_scope.

(* ------------------------------------------------------------------ counting *)
Definition b2z (b : bool) : Z := if b then 1 else 0.

Fixpoint cnt (p : sess -> bool) (l : list sess) : Z :=
  match l with [] => 0 | s :: r => b2z (p s) + cnt p r end.

Definition not_dead (s : sess) : bool := match s_phase s with Dead => false | _ => true end.

(* the session holds a server slot / a slot of user u *)
Definition held_srv (s : sess) : bool := is_live s && s_acquired s.
Definition held_user (u : nat) (s : sess) : bool :=
  not_dead s && match s_user s with Some v => Nat.eqb v u | None => false end.

Lemma cnt_nonneg : forall p l, 0 <= cnt p l.
Proof. induction l as [|s r IH]; cbn [cnt]; [lia|]. destruct (p s); cbn [b2z]; lia. Qed.

Lemma cnt_app : forall p l s, cnt p (l ++ [s]) = cnt p l + b2z (p s).
Proof. induction l as [|x r IH]; intros s; cbn [cnt app]; [lia|]. rewrite IH. lia. Qed.

Lemma cnt_upd : forall p l i s s',
  nth_error l i = Some s ->
  cnt p (upd i (fun _ => s') l) = cnt p l - b2z (p s) + b2z (p s').
Proof.
  induction l as [|x r IH]; intros [|i] s s' H; cbn [nth_error upd cnt] in *; try discriminate.
  - inversion H; subst. lia.
  - rewrite (IH i s s' H). lia.
Qed.

Lemma cnt_member : forall p l i s, nth_error l i = Some s -> p s = true -> 1 <= cnt p l.
Proof.
  induction l as [|x r IH]; intros [|i] s H Hp; cbn [nth_error cnt] in *; try discriminate.
  - inversion H; subst. rewrite Hp. pose proof (cnt_nonneg p r). cbn [b2z]. lia.
  - pose proof (IH i s H Hp). destruct (p x); cbn [b2z]; lia.
Qed.

Lemma cnt_zero : forall p l, Forall (fun s => p s = false) l -> cnt p l = 0.
Proof. induction 1 as [|s r Hs _ IH]; cbn [cnt]; [reflexivity|]. rewrite Hs, IH. reflexivity. Qed.

Lemma nth_error_upd_same : forall {A} (l : list A) i f x,
  nth_error l i = Some x -> nth_error (upd i f l) i = Some (f x).
Proof.
  induction l as [|y r IH]; intros [|i] f x H; cbn in *; try discriminate.
  - inversion H; reflexivity.
  - apply IH; assumption.
Qed.

Lemma nth_error_upd_other : forall {A} (l : list A) i j f,
  i <> j -> nth_error (upd i f l) j = nth_error l j.
Proof.
  induction l as [|y r IH]; intros [|i] [|j] f H; cbn in *; try reflexivity; try congruence.
  apply IH. congruence.
Qed.

Lemma length_upd : forall {A} (l : list A) i f, List.length (upd i f l) = List.length l.
Proof. induction l as [|y r IH]; intros [|i] f; cbn; try reflexivity. now rewrite IH. Qed.

Lemma Forall_upd : forall {A} (P : A -> Prop) l i x,
  Forall P l -> P x -> Forall P (upd i (fun _ => x) l).
Proof.
  induction l as [|y r IH]; intros [|i] x H Hx; cbn; try assumption.
  - inversion H; subst. constructor; assumption.
  - inversion H; subst. constructor; [assumption|]. apply IH; assumption.
Qed.

Lemma Forall_nth_error : forall {A} (P : A -> Prop) l i x,
  Forall P l -> nth_error l i = Some x -> P x.
Proof.
  intros A P l i x H Hn. rewrite Forall_forall in H. apply H. eapply nth_error_In; eassumption.
Qed.

(* ------------------------------------------------------------------ one counter *)
Definition limit_ok (m : option Z) : Prop := match m with Some v => 0 <= v | None => True end.

(* counter c has limit m and `held` slots of it are out *)
Definition ctr_inv (m : option Z) (c : counter) (held : Z) : Prop :=
  c_max c = m /\ match m with Some v => c_val c = v - held /\ 0 <= c_val c | None => True end.

Lemma ctr_release : forall m c h,
  ctr_inv m c h -> 1 <= h ->
  snd (release c) = true /\ ctr_inv m (fst (release c)) (h - 1).
Proof.
  intros m c h [Hm Hv] Hh. unfold release, ctr_inv. destruct m as [v|]; rewrite Hm; cbn [fst snd c_max c_val].
  - destruct Hv as [Hv H0]. split; [apply Z.leb_le; lia|]. split; [reflexivity|]. lia.
  - split; [reflexivity|]. split; [reflexivity || assumption|trivial].
Qed.

Lemma ctr_acquire : forall m c h,
  ctr_inv m c h -> locked c = false ->
  snd (acquire c) = true /\ ctr_inv m (fst (acquire c)) (h + 1).
Proof.
  intros m c h [Hm Hv] Hl. unfold acquire, ctr_inv. unfold locked in Hl.
  destruct m as [v|]; rewrite Hm in *; cbn [fst snd c_max c_val].
  - destruct Hv as [Hv H0]. apply Z.eqb_neq in Hl.
    split; [apply Z.leb_le; lia|]. split; [reflexivity|]. lia.
  - split; [reflexivity|]. split; [reflexivity || assumption|trivial].
Qed.

Lemma ctr_locked_full : forall m c h v,
  ctr_inv m c h -> m = Some v -> (locked c = true <-> h = v).
Proof.
  intros m c h v [Hm Hv] ->. unfold locked. rewrite Hm. destruct Hv as [Hv H0].
  rewrite Z.eqb_eq. lia.
Qed.

Lemma ctr_same : forall m c h h', ctr_inv m c h -> h = h' -> ctr_inv m c h'.
Proof. intros; subst; assumption. Qed.

Lemma ctr_value_full : forall m c, ctr_inv m c 0 -> c_value c = m.
Proof.
  intros m c [Hm Hv]. unfold c_value. rewrite Hm. destruct m as [v|]; [|reflexivity].
  destruct Hv as [Hv _]. f_equal. lia.
Qed.

Lemma ctr_bound : forall v c h, ctr_inv (Some v) c h -> h <= v.
Proof. intros v c h [_ [Hv H0]]. lia. Qed.

Lemma mk_counter_inv : forall m, limit_ok m -> ctr_inv m (mk_counter m) 0.
Proof.
  intros [v|] H; split; cbn; try reflexivity; try trivial. cbn in H. lia.
Qed.

(* ------------------------------------------------------------------ configuration and invariant *)
Record cfg_ok (cfg : config) : Prop := {
  ok_limit : limit_ok (cfg_limit cfg);
  ok_users : Forall (fun u => limit_ok (u_limit u)) (cfg_users cfg);
  ok_fin : check_finally (cfg_fin cfg) = true;       (* closed obligation on Gen.Dispatch *)
  ok_atomic : cfg_atomic cfg = true;                 (* closed obligation on Gen.UserMgr + Gen.Dispatch *)
}.

Definition sess_wf (cfg : config) (s : sess) : Prop :=
  (forall u, s_user s = Some u -> (u < List.length (cfg_users cfg))%nat)
  /\ (s_phase s = Closing -> s_pending s = 1%nat /\ s_user s <> None)
  /\ (s_greeted s = false -> s_acquired s = false).

Record inv (cfg : config) (st : state) : Prop := {
  inv_srv : ctr_inv (cfg_limit cfg) (st_srv st) (cnt held_srv (st_sess st));
  inv_len : List.length (st_ucs st) = List.length (cfg_users cfg);
  inv_users : forall u usr c,
      nth_error (cfg_users cfg) u = Some usr -> nth_error (st_ucs st) u = Some c ->
      ctr_inv (u_limit usr) c (cnt (held_user u) (st_sess st));
  inv_errs : st_errs st = 0;
  inv_wf : Forall (sess_wf cfg) (st_sess st);
}.

Lemma init_inv : forall cfg, cfg_ok cfg -> inv cfg (init cfg).
Proof.
  intros cfg Hok. constructor; cbn.
  - apply mk_counter_inv, Hok.
  - apply map_length.
  - intros u usr c Hu Hc. rewrite nth_error_map, Hu in Hc. cbn in Hc. inversion Hc; subst.
    apply mk_counter_inv.
    exact (Forall_nth_error (fun u => limit_ok (u_limit u)) _ _ _ (ok_users _ Hok) Hu).
  - reflexivity.
  - constructor.
Qed.

(* existence of the counter of a valid user index *)
Lemma user_counter_exists : forall cfg st u,
  inv cfg st -> (u < List.length (cfg_users cfg))%nat ->
  exists usr c, nth_error (cfg_users cfg) u = Some usr /\ nth_error (st_ucs st) u = Some c.
Proof.
  intros cfg st u Hi Hu.
  destruct (nth_error (cfg_users cfg) u) as [usr|] eqn:E1.
  2:{ apply nth_error_None in E1. lia. }
  destruct (nth_error (st_ucs st) u) as [c|] eqn:E2.
  2:{ apply nth_error_None in E2. rewrite (inv_len _ _ Hi) in E2. lia. }
  eauto.
Qed.

(* ------------------------------------------------------------------ the finally block, canonical form *)
Lemma slist_eqb_eq : forall a b, slist_eqb a b = true -> a = b.
Proof.
  induction a as [|x a IH]; intros [|y b] H; cbn in H; try discriminate; [reflexivity|].
  apply andb_true_iff in H as [H1 H2]. apply String.eqb_eq in H1. f_equal; auto.
Qed.

Lemma eff_eqb_eq : forall a b, eff_eqb a b = true -> a = b.
Proof.
  intros [|g1|g1] [|g2|g2] H; cbn in H; try discriminate; try reflexivity;
    apply slist_eqb_eq in H; now subst.
Qed.

Lemma effs_eqb_eq : forall a b, effs_eqb a b = true -> a = b.
Proof.
  induction a as [|x a IH]; intros [|y b] H; cbn in H; try discriminate; [reflexivity|].
  apply andb_true_iff in H as [H1 H2]. apply eff_eqb_eq in H1. f_equal; auto.
Qed.

Lemma fold_relevant : forall cfg s l acc,
  fold_left (apply_eff cfg s) l acc = fold_left (apply_eff cfg s) (filter relevant l) acc.
Proof.
  induction l as [|e r IH]; intros acc; cbn; [reflexivity|].
  destruct e; cbn; apply IH.
Qed.

Definition canon_end_state (s : sess) (st : state) : state :=
  if s_acquired s then rel_srv st else st.

Lemma fin_canon : forall cfg s st,
  check_finally (cfg_fin cfg) = true ->
  fold_left (apply_eff cfg s) (map classify (cfg_fin cfg)) (st, 0%nat)
  = (canon_end_state s st, if has_user s then 1%nat else 0%nat).
Proof.
  intros cfg s st H. rewrite fold_relevant. unfold check_finally in H.
  apply orb_true_iff in H as [H|H]; apply effs_eqb_eq in H; rewrite H; cbn;
    unfold canon_end_state, guards_hold, guard_holds; cbn;
    destruct (s_acquired s), (has_user s); reflexivity.
Qed.

Definition ended (s : sess) : sess :=
  match s_user s with
  | Some _ => {| s_phase := Closing; s_greeted := s_greeted s; s_acquired := s_acquired s;
                 s_user := s_user s; s_logged := s_logged s; s_pending := 1 |}
  | None => {| s_phase := Dead; s_greeted := s_greeted s; s_acquired := s_acquired s;
               s_user := s_user s; s_logged := s_logged s; s_pending := 0 |}
  end.

Lemma end_session_canon : forall cfg i st s,
  check_finally (cfg_fin cfg) = true ->
  nth_error (st_sess st) i = Some s -> is_live s = true ->
  end_session cfg i st = set_sess i (ended s) (canon_end_state s st).
Proof.
  intros cfg i st s Hf Hn Hl. unfold end_session. rewrite Hn, Hl, fin_canon by assumption.
  unfold ended, has_user. destruct (s_user s); reflexivity.
Qed.

Lemma end_session_noop : forall cfg i st,
  (forall s, nth_error (st_sess st) i = Some s -> is_live s = false) ->
  end_session cfg i st = st.
Proof.
  intros cfg i st H. unfold end_session. destruct (nth_error (st_sess st) i) as [s|]; [|reflexivity].
  now rewrite (H s eq_refl).
Qed.

(* ------------------------------------------------------------------ preservation lemmas *)
Lemma is_live_not_dead : forall s, is_live s = true -> not_dead s = true.
Proof. intros s. unfold is_live, not_dead. destruct (s_phase s); auto. Qed.

(* replacing session i by s' where no slot ownership changes *)
Lemma set_sess_frame : forall cfg st i s s',
  inv cfg st -> nth_error (st_sess st) i = Some s ->
  held_srv s' = held_srv s -> (forall u, held_user u s' = held_user u s) -> sess_wf cfg s' ->
  inv cfg (set_sess i s' st).
Proof.
  intros cfg st i s s' Hi Hn Hs Hu Hw. constructor; cbn.
  - eapply ctr_same; [apply Hi|]. rewrite (cnt_upd _ _ _ _ s' Hn), Hs. lia.
  - apply Hi.
  - intros u usr c H1 H2. eapply ctr_same; [eapply (inv_users _ _ Hi); eassumption|].
    rewrite (cnt_upd _ _ _ _ s' Hn), Hu. lia.
  - apply Hi.
  - apply Forall_upd; [apply Hi|assumption].
Qed.

Lemma end_session_inv : forall cfg i st, cfg_ok cfg -> inv cfg st -> inv cfg (end_session cfg i st).
Proof.
  intros cfg i st Hok Hi.
  destruct (nth_error (st_sess st) i) as [s|] eqn:Hn.
  2:{ rewrite end_session_noop; [assumption|]. intros s H; congruence. }
  destruct (is_live s) eqn:Hl.
  2:{ rewrite end_session_noop; [assumption|]. intros s0 H. congruence. }
  rewrite (end_session_canon cfg i st s (ok_fin _ Hok) Hn Hl).
  assert (Hw : sess_wf cfg s) by (eapply Forall_nth_error; [apply Hi|eassumption]).
  assert (Hended_srv : held_srv (ended s) = false).
  { unfold ended, held_srv, is_live. destruct (s_user s); reflexivity. }
  assert (Hended_user : forall u, held_user u (ended s) = held_user u s).
  { intros u. unfold ended, held_user. rewrite (is_live_not_dead s Hl).
    destruct (s_user s); reflexivity. }
  assert (Hended_wf : sess_wf cfg (ended s)).
  { destruct Hw as (W1 & W2 & W3). unfold ended. destruct (s_user s) eqn:Eu; repeat split; cbn; auto;
      try congruence; try discriminate. }
  unfold canon_end_state. destruct (s_acquired s) eqn:Ha.
  - (* the server slot goes back *)
    assert (Hheld : held_srv s = true) by (unfold held_srv; now rewrite Hl, Ha).
    pose proof (cnt_member _ _ _ _ Hn Hheld) as H1.
    destruct (ctr_release _ _ _ (inv_srv _ _ Hi) H1) as [Hrok Hrinv].
    unfold rel_srv. destruct (release (st_srv st)) as [c ok] eqn:Er. cbn in Hrok, Hrinv. subst ok.
    constructor; cbn.
    + eapply ctr_same; [exact Hrinv|]. rewrite (cnt_upd _ _ _ _ (ended s) Hn), Hended_srv, Hheld. cbn. lia.
    + apply Hi.
    + intros u usr c0 H2 H3. eapply ctr_same; [eapply (inv_users _ _ Hi); eassumption|].
      rewrite (cnt_upd _ _ _ _ (ended s) Hn), Hended_user. lia.
    + rewrite (inv_errs _ _ Hi). reflexivity.
    + apply Forall_upd; [apply Hi|assumption].
  - assert (Hheld : held_srv s = false) by (unfold held_srv; now rewrite Ha, andb_false_r).
    eapply set_sess_frame; eauto.
Qed.

Lemma end_all_inv : forall cfg n st, cfg_ok cfg -> inv cfg st -> inv cfg (end_all cfg n st).
Proof. induction n as [|k IH]; intros st Hok Hi; cbn; [assumption|]. apply end_session_inv; auto. Qed.

(* state after a release / acquire on user counter u that succeeded *)
Lemma on_user_ok : forall op u st c c',
  nth_error (st_ucs st) u = Some c -> op c = (c', true) ->
  on_user op u st = {| st_srv := st_srv st; st_ucs := upd u (fun _ => c') (st_ucs st);
                       st_sess := st_sess st; st_errs := st_errs st + 0 |}.
Proof. intros op u st c c' H1 H2. unfold on_user. rewrite H1, H2. reflexivity. Qed.

(* generic: session i changes from s to s', user counter k moves by op with held count delta d *)
Lemma move_user_inv : forall cfg st i s s' k c c' usrk d,
  inv cfg st -> nth_error (st_sess st) i = Some s ->
  nth_error (st_ucs st) k = Some c -> nth_error (cfg_users cfg) k = Some usrk ->
  ctr_inv (u_limit usrk) c' (cnt (held_user k) (st_sess st) + d) ->
  held_srv s' = held_srv s ->
  b2z (held_user k s') = b2z (held_user k s) + d ->
  (forall u, u <> k -> held_user u s' = held_user u s) ->
  sess_wf cfg s' ->
  inv cfg {| st_srv := st_srv st; st_ucs := upd k (fun _ => c') (st_ucs st);
             st_sess := upd i (fun _ => s') (st_sess st); st_errs := st_errs st + 0 |}.
Proof.
  intros cfg st i s s' k c c' usrk d Hi Hn Hc Hu Hc' Hs Hk Ho Hw. constructor; cbn.
  - eapply ctr_same; [apply Hi|]. rewrite (cnt_upd _ _ _ _ s' Hn), Hs. lia.
  - rewrite length_upd. apply Hi.
  - intros u usr c0 H1 H2. destruct (Nat.eq_dec k u) as [->|Hne].
    + rewrite (nth_error_upd_same _ _ _ _ Hc) in H2. inversion H2; subst c0.
      rewrite Hu in H1. inversion H1; subst usr.
      eapply ctr_same; [exact Hc'|]. rewrite (cnt_upd _ _ _ _ s' Hn). lia.
    + rewrite nth_error_upd_other in H2 by assumption.
      eapply ctr_same; [eapply (inv_users _ _ Hi); eassumption|].
      rewrite (cnt_upd _ _ _ _ s' Hn), Ho by congruence. lia.
  - rewrite (inv_errs _ _ Hi). reflexivity.
  - apply Forall_upd; [apply Hi|assumption].
Qed.

Lemma upd_upd : forall {A} (l : list A) i x y,
  upd i (fun _ => y) (upd i (fun _ => x) l) = upd i (fun _ => y) l.
Proof. induction l as [|z r IH]; intros [|i] x y; cbn; try reflexivity. now rewrite IH. Qed.

Lemma upd_id : forall {A} (l : list A) i x, nth_error l i = Some x -> upd i (fun _ => x) l = l.
Proof.
  induction l as [|z r IH]; intros [|i] x H; cbn in *; try discriminate; try reflexivity.
  - inversion H; reflexivity.
  - now rewrite IH.
Qed.

(* first part of user(): release the old user's slot and detach *)
Lemma detach_inv : forall cfg st i s,
  inv cfg st -> nth_error (st_sess st) i = Some s -> is_live s = true ->
  snd (user_begin s st) = true
  /\ inv cfg (detach i s (fst (user_begin s st))).
Proof.
  intros cfg st i s Hi Hn Hl.
  assert (Hw : sess_wf cfg s) by (eapply Forall_nth_error; [apply Hi|eassumption]).
  destruct Hw as (W1 & W2 & W3).
  assert (Hwf' : sess_wf cfg (with_user s None false)).
  { unfold sess_wf; cbn. split; [congruence|]. split; [|assumption].
    intros Hc. unfold is_live in Hl. rewrite Hc in Hl. discriminate. }
  unfold user_begin. destruct (s_user s) as [old|] eqn:Eu; cbn.
  - destruct (user_counter_exists cfg st old Hi (W1 _ eq_refl)) as (usr & c & Hu & Hc).
    assert (Hheld : held_user old s = true).
    { unfold held_user. rewrite (is_live_not_dead s Hl), Eu, Nat.eqb_refl. reflexivity. }
    pose proof (cnt_member _ _ _ _ Hn Hheld) as H1.
    destruct (ctr_release _ _ _ (inv_users _ _ Hi _ _ _ Hu Hc) H1) as [Hrok Hrinv].
    destruct (release c) as [c' ok] eqn:Er. cbn in Hrok, Hrinv. subst ok.
    unfold rel_user. rewrite (on_user_ok release old st c c' Hc Er). cbn.
    split; [apply Z.eqb_eq; lia|].
    unfold detach, set_sess; cbn.
    eapply (move_user_inv cfg st i s (with_user s None false) old c c' usr (-1)); eauto.
    + unfold held_user at 1. cbn. rewrite andb_false_r, Hheld. reflexivity.
    + intros u Hne. unfold held_user. cbn. rewrite Eu, andb_false_r.
      destruct (Nat.eqb old u) eqn:E; [apply Nat.eqb_eq in E; congruence|now rewrite andb_false_r].
  - split; [reflexivity|].
    unfold detach. eapply set_sess_frame; eauto.
    intros u. unfold held_user. cbn. now rewrite Eu.
Qed.

Lemma lookup_bound : forall us login idx fb k,
  lookup us login idx fb = Some k ->
  (forall f, fb = Some f -> (f < idx)%nat) ->
  (k < idx + List.length us)%nat.
Proof.
  induction us as [|u r IH]; intros login idx fb k H Hfb; cbn in *.
  - specialize (Hfb k H). lia.
  - destruct (u_login u) as [l|].
    + destruct (teqb l login).
      * inversion H; subst. lia.
      * specialize (IH _ _ _ _ H). assert (k < S idx + List.length r)%nat; [|lia].
        apply IH. intros f Hf. specialize (Hfb f Hf). lia.
    + destruct fb as [f|].
      * assert (k < S idx + List.length r)%nat; [|lia].
        eapply IH; [eassumption|]. intros f0 Hf0. specialize (Hfb f0 Hf0). lia.
      * assert (k < S idx + List.length r)%nat; [|lia].
        eapply IH; [eassumption|]. intros f0 Hf0. inversion Hf0. lia.
Qed.

(* second part of user(): lookup, acquire unless ERROR, attach.  s is detached *)
Lemma attach_inv : forall cfg st i s login,
  cfg_ok cfg -> inv cfg st -> nth_error (st_sess st) i = Some s -> is_live s = true ->
  s_user s = None ->
  inv cfg (fst (user_end cfg i s login st)).
Proof.
  intros cfg st i s login Hok Hi Hn Hl Eu. unfold user_end.
  destruct (lookup (cfg_users cfg) login 0 None) as [k|] eqn:Elk; [|assumption].
  assert (Hk : (k < List.length (cfg_users cfg))%nat).
  { pose proof (lookup_bound _ _ _ _ _ Elk) as H. cbn in H. apply H. intros f Hf; discriminate. }
  destruct (user_counter_exists cfg st k Hi Hk) as (usr & c & Hu & Hc). rewrite Hc, Hu.
  destruct (locked c) eqn:Elock; [assumption|].
  destruct (ctr_acquire _ _ _ (inv_users _ _ Hi _ _ _ Hu Hc) Elock) as [Haok Hainv].
  destruct (acquire c) as [c' ok] eqn:Ea. cbn in Haok, Hainv. subst ok.
  unfold acq_user. rewrite (on_user_ok acquire k st c c' Hc Ea). cbn.
  replace (st_errs st + 0 =? st_errs st) with true by (symmetry; apply Z.eqb_eq; lia).
  assert (Hw : sess_wf cfg s) by (eapply Forall_nth_error; [apply Hi|eassumption]).
  destruct Hw as (W1 & W2 & W3).
  assert (Hgen : forall lg, inv cfg (set_sess i (with_user s (Some k) lg)
            {| st_srv := st_srv st; st_ucs := upd k (fun _ => c') (st_ucs st);
               st_sess := st_sess st; st_errs := st_errs st + 0 |})).
  { intros lg. unfold set_sess; cbn.
    eapply (move_user_inv cfg st i s (with_user s (Some k) lg) k c c' usr 1); eauto.
    - unfold held_user. change (not_dead (with_user s (Some k) lg)) with (not_dead s).
      rewrite (is_live_not_dead s Hl), Eu. cbn [with_user s_user]. rewrite Nat.eqb_refl. reflexivity.
    - intros u Hne. unfold held_user. cbn [with_user s_user]. rewrite Eu.
      destruct (Nat.eqb k u) eqn:E; [apply Nat.eqb_eq in E; congruence|now rewrite !andb_false_r].
    - unfold sess_wf; cbn. split; [intros u Hu'; inversion Hu'; subst; assumption|].
      split; [|assumption].
      intros Hc'. unfold is_live in Hl. rewrite Hc' in Hl. discriminate. }
  destruct (u_login usr), (u_password usr); cbn; apply Hgen.
Qed.

Lemma live_sess_some : forall st i s, live_sess st i = Some s ->
  nth_error (st_sess st) i = Some s /\ is_live s = true.
Proof.
  intros st i s H. unfold live_sess in H. destruct (nth_error (st_sess st) i) as [s0|]; [|discriminate].
  destruct (is_live s0) eqn:E; inversion H; subst; auto.
Qed.

Lemma logout_inv : forall cfg i st, inv cfg st -> inv cfg (logout_runs i st).
Proof.
  intros cfg i st Hi. unfold logout_runs.
  destruct (nth_error (st_sess st) i) as [s|] eqn:Hn; [|assumption].
  destruct (s_phase s) eqn:Ep; try assumption.
  destruct (s_user s) as [u|] eqn:Eu; [|assumption].
  assert (Hw : sess_wf cfg s) by (eapply Forall_nth_error; [apply Hi|eassumption]).
  destruct Hw as (W1 & W2 & W3). destruct (W2 Ep) as [Hp _]. rewrite Hp. cbn.
  destruct (user_counter_exists cfg st u Hi (W1 _ Eu)) as (usr & c & Hu & Hc).
  assert (Hheld : held_user u s = true).
  { unfold held_user, not_dead. rewrite Ep, Eu, Nat.eqb_refl. reflexivity. }
  pose proof (cnt_member _ _ _ _ Hn Hheld) as H1.
  destruct (ctr_release _ _ _ (inv_users _ _ Hi _ _ _ Hu Hc) H1) as [Hrok Hrinv].
  destruct (release c) as [c' ok] eqn:Er. cbn in Hrok, Hrinv. subst ok.
  unfold rel_user. rewrite (on_user_ok release u st c c' Hc Er). unfold set_sess; cbn.
  eapply (move_user_inv cfg st i s _ u c c' usr (-1)); eauto.
  - unfold held_srv, is_live. cbn. rewrite Ep. reflexivity.
  - unfold held_user at 1, not_dead. cbn. rewrite Hheld. reflexivity.
  - intros v Hne. unfold held_user, not_dead. cbn. rewrite Ep, Eu.
    destruct (Nat.eqb u v) eqn:E; [apply Nat.eqb_eq in E; congruence|reflexivity].
  - unfold sess_wf; cbn. split; [intros u0 Hu0; apply W1; congruence|]. split; [discriminate|assumption].
Qed.

Lemma greeting_inv : forall cfg st i s,
  cfg_ok cfg -> inv cfg st -> nth_error (st_sess st) i = Some s -> is_live s = true ->
  s_greeted s = false ->
  inv cfg (fst (step cfg st (Greeting i))).
Proof.
  intros cfg st i s Hok Hi Hn Hl Hg. cbn. unfold live_sess. rewrite Hn, Hl, Hg.
  assert (Hw : sess_wf cfg s) by (eapply Forall_nth_error; [apply Hi|eassumption]).
  destruct Hw as (W1 & W2 & W3). specialize (W3 Hg).
  destruct (locked (st_srv st)) eqn:Elock; cbn.
  - apply end_session_inv; [assumption|]. eapply set_sess_frame; eauto.
    + unfold held_srv, is_live. cbn. unfold is_live in Hl. destruct (s_phase s); try discriminate. reflexivity.
    + intros u. unfold held_user, not_dead. cbn. unfold is_live in Hl.
      destruct (s_phase s); try discriminate. reflexivity.
    + repeat split; cbn; auto; try discriminate.
  - destruct (ctr_acquire _ _ _ (inv_srv _ _ Hi) Elock) as [Haok Hainv].
    unfold acq_srv. cbn. destruct (acquire (st_srv st)) as [c' ok] eqn:Ea. cbn in Haok, Hainv. subst ok.
    cbn. replace (st_errs st + 0 =? st_errs st) with true by (symmetry; apply Z.eqb_eq; lia). cbn.
    constructor; cbn.
    + eapply ctr_same; [exact Hainv|]. rewrite (cnt_upd _ _ _ _ _ Hn).
      assert (E1 : held_srv s = false) by (unfold held_srv; now rewrite W3, andb_false_r).
      rewrite E1. unfold held_srv, is_live. cbn [s_phase s_acquired andb b2z]. lia.
    + apply Hi.
    + intros u usr c0 H2 H3. eapply ctr_same; [eapply (inv_users _ _ Hi); eassumption|].
      rewrite (cnt_upd _ _ _ _ _ Hn). unfold held_user, not_dead. cbn [s_phase s_user].
      unfold is_live in Hl. destruct (s_phase s); try discriminate. lia.
    + rewrite (inv_errs _ _ Hi). reflexivity.
    + apply Forall_upd; [apply Hi|]. unfold sess_wf; cbn.
      split; [assumption|]. split; discriminate.
Qed.

Theorem step_inv : forall cfg st e, cfg_ok cfg -> inv cfg st -> inv cfg (fst (step cfg st e)).
Proof.
  intros cfg st e Hok Hi. destruct e as [|i|i login|i|i pw|i|i|i|i|i|i|i| |i|i login].
  - (* Connect *) cbn. constructor; cbn; try apply Hi.
    + eapply ctr_same; [apply Hi|]. rewrite cnt_app. cbn. lia.
    + intros u usr c H1 H2. eapply ctr_same; [eapply (inv_users _ _ Hi); eassumption|].
      rewrite cnt_app. cbn. lia.
    + apply Forall_app. split; [apply Hi|]. constructor; [|constructor].
      repeat split; cbn; try discriminate; auto.
  - (* Greeting *)
    destruct (live_sess st i) as [s|] eqn:El.
    + apply live_sess_some in El as [Hn Hl]. destruct (s_greeted s) eqn:Hg.
      * cbn. unfold live_sess. rewrite Hn, Hl, Hg. assumption.
      * eapply greeting_inv; eauto.
    + cbn. rewrite El. assumption.
  - (* User *)
    cbn. destruct (live_sess st i) as [s|] eqn:El; [|assumption].
    apply live_sess_some in El as [Hn Hl].
    destruct (detach_inv cfg st i s Hi Hn Hl) as [Hb Hd].
    destruct (user_begin s st) as [st1 ok] eqn:Eb. cbn in Hb, Hd. subst ok.
    apply attach_inv; auto.
    unfold detach, set_sess; cbn.
    assert (Hn1 : nth_error (st_sess st1) i = Some s).
    { unfold user_begin in Eb. destruct (s_user s) as [old|].
      - inversion Eb; subst st1. unfold rel_user, on_user.
        destruct (nth_error (st_ucs st) old); [destruct (release c)|]; cbn; assumption.
      - inversion Eb; subst; assumption. }
    apply (nth_error_upd_same _ _ (fun _ => with_user s None false) _ Hn1).
  - (* UserErr *)
    cbn. destruct (live_sess st i) as [s|] eqn:El; [|assumption].
    apply live_sess_some in El as [Hn Hl].
    destruct (detach_inv cfg st i s Hi Hn Hl) as [Hb Hd].
    destruct (user_begin s st) as [st1 ok] eqn:Eb. cbn in Hb, Hd. subst ok.
    cbn. apply end_session_inv; assumption.
  - (* Pass *)
    cbn. destruct (live_sess st i) as [s|] eqn:El; [|assumption].
    apply live_sess_some in El as [Hn Hl].
    destruct (s_user s) as [k|] eqn:Eu; [|assumption].
    destruct (s_logged s); [assumption|].
    destruct (nth_error (cfg_users cfg) k) as [u|]; [|assumption].
    destruct (opt_teqb (u_password u) pw); [|assumption]. cbn.
    assert (Hw : sess_wf cfg s) by (eapply Forall_nth_error; [apply Hi|eassumption]).
    destruct Hw as (W1 & W2 & W3).
    eapply set_sess_frame; eauto.
    + intros u0. unfold held_user. cbn. now rewrite Eu.
    + unfold sess_wf; cbn. split; [intros u0 Hu0; apply W1; congruence|]. split; [|assumption].
      intros Hc. split; [apply W2; assumption|discriminate].
  - (* PassErr *)
    cbn. destruct (live_sess st i) as [s|] eqn:El; [|assumption].
    destruct (s_user s); [|assumption]. destruct (s_logged s); [assumption|].
    cbn. apply end_session_inv; assumption.
  - (* Other *) assumption.
  - (* Quit *) cbn. destruct (live_sess st i); [|assumption]. cbn. apply end_session_inv; assumption.
  - cbn. apply end_session_inv; assumption.
  - cbn. apply end_session_inv; assumption.
  - cbn. apply end_session_inv; assumption.
  - (* LogoutRuns *) cbn. apply logout_inv; assumption.
  - (* ServerClose *) cbn. apply end_all_inv; assumption.
  - (* UserBegin: cannot happen, user() is atomic *) cbn. rewrite (ok_atomic _ Hok). assumption.
  - cbn. rewrite (ok_atomic _ Hok). assumption.
Qed.

Theorem run_inv : forall cfg evs st, cfg_ok cfg -> inv cfg st -> inv cfg (run cfg st evs).
Proof.
  intros cfg evs. induction evs as [|e r IH]; intros st Hok Hi; cbn; [assumption|].
  apply IH; [assumption|]. apply step_inv; assumption.
Qed.

Corollary reach_inv : forall cfg evs, cfg_ok cfg -> inv cfg (run cfg (init cfg) evs).
Proof. intros. apply run_inv; [assumption|]. apply init_inv; assumption. Qed.

Lemma nth_error_ext_map : forall {A B C} (f : A -> C) (g : B -> C) la lb,
  List.length la = List.length lb ->
  (forall u a b, nth_error la u = Some a -> nth_error lb u = Some b -> f a = g b) ->
  map f la = map g lb.
Proof.
  induction la as [|a ra IH]; intros [|b rb] Hl H; cbn in *; try discriminate; [reflexivity|].
  f_equal.
  - apply (H 0%nat); reflexivity.
  - apply IH; [lia|]. intros u x y Hx Hy. apply (H (S u)); assumption.
Qed.

(* ------------------------------------------------------------------ the property theorems *)
Definition reach (cfg : config) (evs : list event) : state := run cfg (init cfg) evs.

(* number of live sessions holding a server slot / sessions (not fully gone) attached to user u *)
Definition admitted (st : state) : Z := cnt held_srv (st_sess st).
Definition attached (u : nat) (st : state) : Z := cnt (held_user u) (st_sess st).

Theorem srv_conservation : forall cfg evs, cfg_ok cfg ->
  let st := reach cfg evs in
  match cfg_limit cfg with
  | Some m => c_value (st_srv st) = Some (m - admitted st) /\ 0 <= admitted st <= m
  | None => c_value (st_srv st) = None
  end.
Proof.
  intros cfg evs Hok st. pose proof (reach_inv cfg evs Hok) as Hi. subst st; unfold reach in *; set (st := run cfg (init cfg) evs) in *.
  destruct (inv_srv _ _ Hi) as [Hm Hv]. unfold c_value. rewrite Hm.
  destruct (cfg_limit cfg) as [m|]; [|reflexivity].
  destruct Hv as [Hv H0]. unfold admitted. pose proof (cnt_nonneg held_srv (st_sess st)).
  split; [f_equal; lia|lia].
Qed.

Theorem user_conservation : forall cfg evs u usr, cfg_ok cfg ->
  nth_error (cfg_users cfg) u = Some usr ->
  let st := reach cfg evs in
  exists c, nth_error (st_ucs st) u = Some c /\
  match u_limit usr with
  | Some m => c_value c = Some (m - attached u st) /\ 0 <= attached u st <= m
  | None => c_value c = None
  end.
Proof.
  intros cfg evs u usr Hok Hu st. pose proof (reach_inv cfg evs Hok) as Hi. subst st; unfold reach in *; set (st := run cfg (init cfg) evs) in *.
  assert (Hlt : (u < List.length (cfg_users cfg))%nat) by (apply nth_error_Some; congruence).
  destruct (user_counter_exists cfg st u Hi Hlt) as (usr' & c & Hu' & Hc).
  rewrite Hu in Hu'. inversion Hu'; subst usr'. exists c. split; [assumption|].
  destruct (inv_users _ _ Hi _ _ _ Hu Hc) as [Hm Hv]. unfold c_value. rewrite Hm.
  destruct (u_limit usr) as [m|]; [|reflexivity].
  destruct Hv as [Hv H0]. unfold attached. pose proof (cnt_nonneg (held_user u) (st_sess st)).
  split; [f_equal; lia|lia].
Qed.

Theorem accounting_never_fails : forall cfg evs, cfg_ok cfg -> st_errs (reach cfg evs) = 0.
Proof. intros cfg evs Hok. apply (inv_errs _ _ (reach_inv cfg evs Hok)). Qed.

Definition all_gone (st : state) : Prop := Forall (fun s => s_phase s = Dead) (st_sess st).

Theorem quiescent_full : forall cfg evs, cfg_ok cfg ->
  let st := reach cfg evs in
  all_gone st ->
  c_value (st_srv st) = cfg_limit cfg
  /\ map c_value (st_ucs st) = map u_limit (cfg_users cfg).
Proof.
  intros cfg evs Hok st Hg. pose proof (reach_inv cfg evs Hok) as Hi. subst st; unfold reach in *; set (st := run cfg (init cfg) evs) in *.
  assert (Z1 : cnt held_srv (st_sess st) = 0).
  { apply cnt_zero. eapply Forall_impl; [|exact Hg]. intros s Hs. unfold held_srv, is_live.
    cbn beta in Hs. now rewrite Hs. }
  assert (Z2 : forall u, cnt (held_user u) (st_sess st) = 0).
  { intros u. apply cnt_zero. eapply Forall_impl; [|exact Hg]. intros s Hs. unfold held_user, not_dead.
    cbn beta in Hs. now rewrite Hs. }
  split.
  - apply ctr_value_full. rewrite <- Z1. apply Hi.
  - apply nth_error_ext_map. (* pointwise *)
    + apply Hi.
    + intros u c usr Hc Hu. apply ctr_value_full. rewrite <- (Z2 u).
      eapply (inv_users _ _ Hi); eassumption.
Qed.

(* ------------------------------------------------------------------ refusals *)
Ltac bm :=
  match goal with
  | H : context [match ?x with _ => _ end] |- _ => destruct x eqn:?
  | H : context [if ?x then _ else _] |- _ => destruct x eqn:?
  end.

Ltac in_out :=
  repeat match goal with
  | H : In _ [] |- _ => destruct H
  | H : In _ (_ :: _) |- _ => destruct H as [H|H]
  | H : (_, _) = (_, _) |- _ => inversion H; clear H; subst
  end.

(* the only source of a 421 in this model is a greeting that finds the server counter locked *)
Lemma step_421 : forall cfg st e j,
  In (j, 421) (snd (step cfg st e)) ->
  exists s, e = Greeting j /\ live_sess st j = Some s /\ s_greeted s = false
            /\ locked (st_srv st) = true.
Proof.
  intros cfg st e j H. destruct e; cbn [step fst snd] in H; unfold user_end in H;
    repeat (bm; cbn [fst snd] in H); cbn [fst snd] in H; in_out; try discriminate.
  eexists; repeat split; eauto.
Qed.

(* a 530 comes from USER (unknown login, or that user's counter is locked) or from a wrong PASS *)
Lemma step_530 : forall cfg st e j,
  In (j, 530) (snd (step cfg st e)) ->
  (exists s login, e = User j login /\ live_sess st j = Some s)
  \/ (exists s pw, e = Pass j pw /\ live_sess st j = Some s)
  \/ (cfg_atomic cfg = false).
Proof.
  intros cfg st e j H. destruct e; cbn [step fst snd] in H; unfold user_end in H;
    repeat (bm; cbn [fst snd] in H); cbn [fst snd] in H; in_out; try discriminate; eauto 6.
Qed.

Lemma user_begin_frame : forall s st,
  st_srv (fst (user_begin s st)) = st_srv st /\ st_sess (fst (user_begin s st)) = st_sess st.
Proof.
  intros s st. unfold user_begin. destruct (s_user s) as [u|]; cbn; [|auto].
  unfold rel_user, on_user. destruct (nth_error (st_ucs st) u) as [c|]; [destruct (release c)|]; cbn; auto.
Qed.

(* 421: nothing is counted, and it is answered only when the limit is really reached *)
Theorem refusal_421_not_counted : forall cfg evs e j, cfg_ok cfg ->
  let st := reach cfg evs in
  let st' := fst (step cfg st e) in
  In (j, 421) (snd (step cfg st e)) ->
  st_srv st' = st_srv st /\ st_ucs st' = st_ucs st /\ admitted st' = admitted st
  /\ cfg_limit cfg = Some (admitted st).
Proof.
  intros cfg evs e j Hok st st' H. pose proof (reach_inv cfg evs Hok) as Hi.
  subst st st'; unfold reach in *; set (st := run cfg (init cfg) evs) in *.
  destruct (step_421 _ _ _ _ H) as (s & -> & Hlive & Hg & Hlock).
  apply live_sess_some in Hlive as Hn. destruct Hn as [Hn Hl].
  assert (Hw : sess_wf cfg s) by (eapply Forall_nth_error; [apply Hi|eassumption]).
  destruct Hw as (W1 & W2 & W3). specialize (W3 Hg).
  cbn [step]. rewrite Hlive, Hg, Hlock. cbn [fst].
  set (s' := {| s_phase := Live; s_greeted := true; s_acquired := s_acquired s;
                s_user := s_user s; s_logged := s_logged s; s_pending := 0 |}).
  assert (Hn' : nth_error (st_sess (set_sess j s' st)) j = Some s').
  { cbn. apply (nth_error_upd_same _ _ (fun _ => s') _ Hn). }
  rewrite (end_session_canon cfg j _ s' (ok_fin _ Hok) Hn' eq_refl).
  unfold canon_end_state. change (s_acquired s') with (s_acquired s). rewrite W3.
  cbn [set_sess st_srv st_ucs st_sess]. repeat split.
  - unfold admitted, set_sess. cbn [st_sess]. rewrite upd_upd, (cnt_upd _ _ _ _ (ended s') Hn).
    assert (E1 : held_srv s = false) by (unfold held_srv; now rewrite W3, andb_false_r).
    assert (E2 : held_srv (ended s') = false).
    { unfold ended, held_srv, is_live. destruct (s_user s'); reflexivity. }
    rewrite E1, E2. cbn [b2z]. lia.
  - destruct (cfg_limit cfg) as [m|] eqn:Em.
    + f_equal. symmetry. apply (ctr_locked_full _ _ _ m (inv_srv _ _ Hi) Em). exact Hlock.
    + exfalso. destruct (inv_srv _ _ Hi) as [Hm _]. unfold locked in Hlock.
      rewrite Hm, Em in Hlock. discriminate.
Qed.

(* the converse: a greeting is refused exactly when `limit` sessions are admitted *)
Theorem admission_exact : forall cfg evs j s, cfg_ok cfg ->
  let st := reach cfg evs in
  live_sess st j = Some s -> s_greeted s = false ->
  snd (step cfg st (Greeting j))
  = [(j, if match cfg_limit cfg with Some m => admitted st =? m | None => false end then 421 else 220)].
Proof.
  intros cfg evs j s Hok st Hlive Hg. pose proof (reach_inv cfg evs Hok) as Hi.
  subst st; unfold reach in *; set (st := run cfg (init cfg) evs) in *.
  cbn [step]. rewrite Hlive, Hg.
  destruct (inv_srv _ _ Hi) as [Hm Hv].
  destruct (locked (st_srv st)) eqn:Hlock.
  - cbn [snd]. destruct (cfg_limit cfg) as [m|] eqn:Em.
    + assert (admitted st = m) by (apply (ctr_locked_full _ _ _ m (conj Hm Hv) eq_refl); exact Hlock).
      replace (admitted st =? m) with true by (symmetry; apply Z.eqb_eq; assumption). reflexivity.
    + unfold locked in Hlock. rewrite Hm in Hlock. discriminate.
  - destruct (ctr_acquire _ _ _ (conj Hm Hv) Hlock) as [Haok _].
    unfold acq_srv. cbn [set_sess st_srv st_errs]. destruct (acquire (st_srv st)) as [c' ok]. cbn in Haok. subst ok.
    cbn [st_errs err_of]. replace (st_errs st + 0 =? st_errs st) with true by (symmetry; apply Z.eqb_eq; lia).
    cbn [snd]. destruct (cfg_limit cfg) as [m|] eqn:Em; [|reflexivity].
    destruct (admitted st =? m) eqn:E; [|reflexivity].
    apply Z.eqb_eq in E. apply (ctr_locked_full _ _ _ m (conj Hm Hv) eq_refl) in E. congruence.
Qed.

(* 530: the refused attempt takes no slot; the only counter that moves is the one of the user
   the session was attached to before (its slot goes back), and the session ends up attached
   to nobody.  A wrong password changes nothing at all. *)
Theorem refusal_530_not_counted : forall cfg evs e j, cfg_ok cfg ->
  let st := reach cfg evs in
  let st' := fst (step cfg st e) in
  In (j, 530) (snd (step cfg st e)) ->
  st_srv st' = st_srv st /\
  match e with
  | User _ _ => exists s, live_sess st j = Some s
       /\ st_ucs st' = st_ucs (fst (user_begin s st))
       /\ forall u, attached u st' = attached u st - b2z (held_user u s)
  | _ => st' = st
  end.
Proof.
  intros cfg evs e j Hok st st' H. pose proof (reach_inv cfg evs Hok) as Hi.
  subst st st'; unfold reach in *; set (st := run cfg (init cfg) evs) in *.
  destruct (step_530 _ _ _ _ H) as [(s & login & -> & Hlive)|[(s & pw & -> & Hlive)|Hat]].
  - (* USER *)
    apply live_sess_some in Hlive as Hn. destruct Hn as [Hn Hl].
    destruct (detach_inv cfg st j s Hi Hn Hl) as [Hb _].
    destruct (user_begin_frame s st) as [F1 F2].
    cbn [step] in *. rewrite Hlive in *.
    destruct (user_begin s st) as [st1 ok] eqn:Eb. cbn [fst snd] in *. subst ok.
    assert (Hdet : forall o : list out, In (j, 530) o ->
              st_srv (detach j s st1) = st_srv st /\
              exists s0, Some s = Some s0 /\ st_ucs (detach j s st1) = st_ucs (fst (user_begin s0 st)) /\
              forall u, attached u (detach j s st1) = attached u st - b2z (held_user u s0)).
    { intros o _. split; [cbn; assumption|]. exists s. rewrite Eb. repeat split.
      intros u. unfold attached, detach. cbn [set_sess st_sess]. rewrite F2.
      rewrite (cnt_upd _ _ _ _ (with_user s None false) Hn).
      assert (E : held_user u (with_user s None false) = false).
      { unfold held_user. cbn. apply andb_false_r. }
      rewrite E. cbn [b2z]. lia. }
    unfold user_end in *.
    repeat (bm; cbn [fst snd] in H); cbn [fst snd] in *; in_out; try discriminate;
      apply (Hdet [(j, 530)]); left; reflexivity.
  - (* PASS *)
    cbn [step] in *. rewrite Hlive in *.
    repeat (bm; cbn [fst snd] in H); cbn [fst snd] in *; in_out; try discriminate; auto.
  - rewrite (ok_atomic _ Hok) in Hat. discriminate.
Qed.

(* corollary in the words of the property: never more admitted / attached sessions than the limit *)
Corollary limits_respected : forall cfg evs, cfg_ok cfg ->
  let st := reach cfg evs in
  (forall m, cfg_limit cfg = Some m -> admitted st <= m)
  /\ (forall u usr m, nth_error (cfg_users cfg) u = Some usr -> u_limit usr = Some m -> attached u st <= m).
Proof.
  intros cfg evs Hok st. split.
  - intros m Hm. pose proof (srv_conservation cfg evs Hok) as H. cbn zeta in H. rewrite Hm in H.
    destruct H as [_ H]. exact (proj2 H).
  - intros u usr m Hu Hm. destruct (user_conservation cfg evs u usr Hok Hu) as (c & _ & H).
    rewrite Hm in H. destruct H as [_ H]. exact (proj2 H).
Qed.

(* limit 0: nobody is ever admitted / attached *)
Corollary limit_zero_admits_nobody : forall cfg evs, cfg_ok cfg -> cfg_limit cfg = Some 0 ->
  admitted (reach cfg evs) = 0.
Proof.
  intros cfg evs Hok H0. pose proof (srv_conservation cfg evs Hok) as H. cbn zeta in H.
  rewrite H0 in H. lia.
Qed.
