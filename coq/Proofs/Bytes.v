(* Lemmas about Model/Bytes.v: write_at (length, prefix / data / suffix, composition),
   reads, and the specification functions. *)
From Coq Require Import ZArith List Bool Arith Lia.
From Verif Require Import Lib.Sx Model.Bytes.
Import ListNotations.
Open Scope nat_scope.

(* ---- list helpers (skipn_skipn is not in the 8.16 standard library) ---- *)
Lemma skipn_skipn' : forall {A} (x y : nat) (l : list A), skipn x (skipn y l) = skipn (y + x) l.
Proof.
  intros A x y; revert x. induction y as [|y IH]; intros x l; [reflexivity|].
  destruct l as [|a l]; cbn [skipn plus].
  - now rewrite skipn_nil.
  - apply IH.
Qed.

Lemma firstn_app_exact : forall {A} (p q : list A) n, length p = n -> firstn n (p ++ q) = p.
Proof.
  intros A p q n Hn. subst n. rewrite firstn_app, Nat.sub_diag, firstn_all. cbn. apply app_nil_r.
Qed.

Lemma skipn_app_exact : forall {A} (p q : list A) n, length p = n -> skipn n (p ++ q) = q.
Proof.
  intros A p q n Hn. subst n. rewrite skipn_app, Nat.sub_diag, skipn_all. reflexivity.
Qed.

Lemma skipn_firstn_length : forall {A} n (l : list A), skipn (length (firstn n l)) l = skipn n l.
Proof.
  intros A n l. rewrite firstn_length. destruct (Nat.le_ge_cases n (length l)) as [H|H].
  - now rewrite Nat.min_l.
  - rewrite Nat.min_r by assumption. rewrite skipn_all. symmetry. now apply skipn_all2.
Qed.

Lemma zeros_length : forall n, length (zeros n) = n.
Proof. intro n. apply repeat_length. Qed.

(* the part of a written file before the data: exactly `off` bytes *)
Definition head_of (off : nat) (old : bytes) : bytes := firstn off old ++ zeros (off - length old).

Lemma head_of_length : forall off old, length (head_of off old) = off.
Proof.
  intros off old. unfold head_of. rewrite app_length, firstn_length, zeros_length. lia.
Qed.

Lemma write_at_shape : forall off d old, d <> [] ->
  write_at off d old = head_of off old ++ d ++ skipn (off + length d) old.
Proof.
  intros off d old Hd. unfold write_at, head_of. destruct d as [|x d]; [congruence|].
  now rewrite <- app_assoc.
Qed.

Lemma write_at_nil : forall off old, write_at off [] old = old.
Proof. reflexivity. Qed.

(* ---- length ---- *)
Lemma write_at_length : forall off d old, d <> [] ->
  length (write_at off d old) = Nat.max (length old) (off + length d).
Proof.
  intros off d old Hd. rewrite write_at_shape by assumption.
  rewrite !app_length, head_of_length, skipn_length. lia.
Qed.

(* ---- what is before the offset is preserved (zero-filled beyond the old end) ---- *)
Lemma write_at_prefix : forall off d old, d <> [] ->
  firstn off (write_at off d old) = firstn off old ++ zeros (off - length old).
Proof.
  intros off d old Hd. rewrite write_at_shape by assumption.
  apply firstn_app_exact, head_of_length.
Qed.

Lemma write_at_prefix_inside : forall off d old, off <= length old ->
  firstn off (write_at off d old) = firstn off old.
Proof.
  intros off d old Hle. destruct d as [|x d]; [reflexivity|].
  rewrite write_at_prefix by congruence. replace (off - length old) with 0 by lia.
  cbn. apply app_nil_r.
Qed.

(* ---- the data sits at the offset ---- *)
Lemma write_at_data : forall off d old,
  d <> [] -> firstn (length d) (skipn off (write_at off d old)) = d.
Proof.
  intros off d old Hd. rewrite write_at_shape by assumption.
  rewrite skipn_app_exact by apply head_of_length. now apply firstn_app_exact.
Qed.

(* ---- what is after the data is preserved ---- *)
Lemma write_at_suffix : forall off d old,
  skipn (off + length d) (write_at off d old) = skipn (off + length d) old.
Proof.
  intros off d old. destruct d as [|x d]; [reflexivity|].
  rewrite write_at_shape by congruence. rewrite app_assoc.
  apply skipn_app_exact. rewrite app_length, head_of_length. reflexivity.
Qed.

(* ---- special positions ---- *)
Lemma write_at_end : forall d old, write_at (length old) d old = old ++ d.
Proof.
  intros d old. destruct d as [|x d]; [cbn; now rewrite app_nil_r|].
  unfold write_at. rewrite firstn_all, Nat.sub_diag. cbn [zeros repeat app].
  rewrite skipn_all2 by lia. now rewrite app_nil_r.
Qed.

Lemma write_at_0_nil : forall d, write_at 0 d [] = d.
Proof.
  intros d. destruct d as [|x d]; [reflexivity|].
  unfold write_at. cbn [firstn length Nat.sub zeros repeat app]. rewrite skipn_nil. now rewrite app_nil_r.
Qed.

(* overwrite from the start of a file that is not longer than the data *)
Lemma write_at_0_cover : forall d old, length old <= length d -> d <> [] -> write_at 0 d old = d.
Proof.
  intros d old Hle Hd. rewrite write_at_shape by assumption. unfold head_of. cbn [firstn Nat.sub zeros repeat app plus].
  rewrite skipn_all2 by assumption. apply app_nil_r.
Qed.

(* ---- composition: block after block at advancing positions = the concatenation at once ---- *)
Lemma write_at_app : forall off a b old,
  write_at (off + length a) b (write_at off a old) = write_at off (a ++ b) old.
Proof.
  intros off a b old.
  destruct a as [|x a].
  { cbn [length app]. now rewrite Nat.add_0_r. }
  destruct b as [|y b].
  { now rewrite app_nil_r. }
  set (A := x :: a). set (B := y :: b).
  assert (HA : A <> []) by (subst A; congruence).
  assert (HB : B <> []) by (subst B; congruence).
  assert (HAB : A ++ B <> []) by (subst A; cbn; congruence).
  rewrite (write_at_shape off A old HA).
  rewrite (write_at_shape (off + length A) B _ HB).
  rewrite (write_at_shape off (A ++ B) old HAB).
  set (W := head_of off old ++ A ++ skipn (off + length A) old).
  assert (HWpre : W = (head_of off old ++ A) ++ skipn (off + length A) old)
    by (subst W; now rewrite app_assoc).
  assert (Hlen : length (head_of off old ++ A) = off + length A)
    by (rewrite app_length, head_of_length; reflexivity).
  (* the head of the second write is the whole first write up to its data's end *)
  assert (Hhead : head_of (off + length A) W = head_of off old ++ A).
  { unfold head_of at 1. rewrite HWpre at 1. rewrite firstn_app_exact by exact Hlen.
    replace (off + length A - length W) with 0.
    - cbn. apply app_nil_r.
    - rewrite HWpre, app_length, Hlen. lia. }
  rewrite Hhead.
  assert (Htail : skipn (off + length A + length B) W = skipn (off + length (A ++ B)) old).
  { rewrite HWpre. rewrite <- (skipn_skipn' (length B) (off + length A)).
    rewrite skipn_app_exact by exact Hlen.
    rewrite skipn_skipn'. f_equal. rewrite app_length. lia. }
  rewrite Htail. now rewrite <- !app_assoc.
Qed.

(* ---- handles ---- *)
Lemma fold_write_concat : forall chunks h,
  fold_left (fun h d => h_write d h) chunks h
  = mkH (write_at (h_pos h) (concat chunks) (h_content h)) (h_pos h + length (concat chunks)).
Proof.
  induction chunks as [|c r IH]; intros [content pos]; cbn [fold_left concat].
  - cbn [h_pos h_content length]. rewrite write_at_nil. f_equal. lia.
  - rewrite IH. unfold h_write. cbn [h_pos h_content].
    rewrite write_at_app. rewrite app_length. f_equal. lia.
Qed.

(* ---- reads ---- *)
Lemma take_len_bounds : forall block r avail,
  1 <= block -> 1 <= avail ->
  1 <= take_len block r avail /\ take_len block r avail <= block /\ take_len block r avail <= avail.
Proof. intros block r avail Hb Ha. unfold take_len, clamp. lia. Qed.

Lemma take_len_pos : forall block r avail, 1 <= take_len block r avail.
Proof. intros. unfold take_len, clamp. lia. Qed.

Lemma take_len_le_block : forall block r avail, 1 <= block -> take_len block r avail <= block.
Proof. intros. unfold take_len, clamp. lia. Qed.

Lemma firstn_pos_nil : forall {A} n (l : list A), 1 <= n -> firstn n l = [] -> l = [].
Proof. intros A n l Hn H. destruct n; [lia|]. destruct l; [reflexivity|discriminate]. Qed.

(* ---- specification sanity ---- *)
Lemma spec_store_wb : forall payload old, spec_store WB 0 payload old = payload.
Proof. reflexivity. Qed.

Lemma spec_store_ab : forall payload old, spec_store AB 0 payload old = old ++ payload.
Proof. reflexivity. Qed.

Lemma spec_store_restart : forall m off payload old, 0 < off ->
  spec_store m off payload old = write_at off payload old.
Proof. intros m off payload old H. destruct off; [lia|reflexivity]. Qed.

Lemma spec_store_restart_length : forall m off payload old, 0 < off -> payload <> [] ->
  length (spec_store m off payload old) = Nat.max (length old) (off + length payload).
Proof. intros. rewrite spec_store_restart by assumption. now apply write_at_length. Qed.

Lemma spec_retr_inside : forall off content, off <= length content ->
  firstn off content ++ spec_retr off content = content.
Proof. intros. apply firstn_skipn. Qed.

Lemma spec_retr_beyond : forall off content, length content <= off -> spec_retr off content = [].
Proof. intros. now apply skipn_all2. Qed.

Lemma spec_retr_length : forall off content, length (spec_retr off content) = length content - off.
Proof. intros. apply skipn_length. Qed.
