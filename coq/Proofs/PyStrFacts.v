(* Characterising lemmas for Lib/PyStr.v *)
From Coq Require Import ZArith List Bool Lia.
From Verif Require Import Lib.Sx Lib.PyStr Gen.Unicode.
Import ListNotations.
Open Scope Z_scope.

Lemma text_eqb_refl s : text_eqb s s = true.
Proof. induction s as [|c s IH]; cbn; [reflexivity|]. rewrite Z.eqb_refl, IH. reflexivity. Qed.

Lemma text_eqb_eq a b : text_eqb a b = true <-> a = b.
Proof.
  revert b; induction a as [|x a IH]; intros [|y b]; cbn; split; intro H; try congruence; try reflexivity.
  - apply andb_true_iff in H as [H1 H2]. apply Z.eqb_eq in H1. apply IH in H2. congruence.
  - inversion H; subst. rewrite Z.eqb_refl. cbn. apply IH. reflexivity.
Qed.

(* ---- rstrip ---- *)
Lemma rstrip_all_space s : forallb is_space s = true -> rstrip s = [].
Proof.
  induction s as [|c s IH]; cbn; [reflexivity|]. intro H.
  apply andb_true_iff in H as [Hc Hs]. rewrite (IH Hs), Hc. reflexivity.
Qed.

Lemma rstrip_app_spaces s t : forallb is_space t = true -> rstrip (s ++ t) = rstrip s.
Proof.
  intro Ht. induction s as [|c s IH]; cbn.
  - apply rstrip_all_space; exact Ht.
  - rewrite IH. reflexivity.
Qed.

Lemma rstrip_cons_nonspace c s : is_space c = false -> rstrip (c :: s) = c :: rstrip s.
Proof. intro H. cbn. destruct (rstrip s); [rewrite H|]; reflexivity. Qed.

Lemma rstrip_app_l a b : rstrip a = a -> rstrip (a ++ b) = a ++ rstrip b.
Proof.
  induction a as [|c a IH]; cbn; [reflexivity|]. intro H.
  destruct (rstrip a) as [|x r] eqn:E.
  - destruct (is_space c) eqn:Hc; [discriminate|].
    inversion H; subst. cbn. destruct (rstrip b); reflexivity.
  - inversion H as [H1]. rewrite H1 in *. rewrite (IH eq_refl).
    destruct a as [|y a']; [discriminate|]. reflexivity.
Qed.

Lemma rstrip_nonspace_all s : forallb (fun c => negb (is_space c)) s = true -> rstrip s = s.
Proof.
  induction s as [|c s IH]; cbn; [reflexivity|]. intro H.
  apply andb_true_iff in H as [Hc Hs]. rewrite (IH Hs).
  apply negb_true_iff in Hc. rewrite Hc. destruct s; reflexivity.
Qed.

Lemma rstrip_idem s : rstrip (rstrip s) = rstrip s.
Proof.
  induction s as [|c s IH]; cbn; [reflexivity|].
  destruct (rstrip s) as [|x r] eqn:E.
  - destruct (is_space c) eqn:Hc; cbn; [reflexivity|]. rewrite Hc. reflexivity.
  - cbn. cbn in IH. rewrite IH. reflexivity.
Qed.

(* result of rstrip never ends in whitespace: it is [] or its last char is non-space *)
Lemma rstrip_last_nonspace s d : rstrip s <> [] -> is_space (last (rstrip s) d) = false.
Proof.
  induction s as [|c s IH]; cbn; [congruence|].
  destruct (rstrip s) as [|x r] eqn:E.
  - destruct (is_space c) eqn:Hc; [congruence|]. intros _. cbn. exact Hc.
  - intros _. change (is_space (last (x :: r) d) = false). apply IH. congruence.
Qed.

(* rstrip s is a prefix of s and the removed suffix is all whitespace *)
Lemma rstrip_prefix s : exists w, s = rstrip s ++ w /\ forallb is_space w = true.
Proof.
  induction s as [|c s [w [Hs Hw]]]; cbn.
  - exists []. split; reflexivity.
  - destruct (rstrip s) as [|x r] eqn:E.
    + destruct (is_space c) eqn:Hc.
      * exists (c :: w). cbn in Hs. rewrite Hs at 1. cbn. rewrite Hc, Hw. split; reflexivity.
      * exists w. cbn in Hs. rewrite Hs at 1. split; [reflexivity|exact Hw].
    + exists w. rewrite Hs at 1. split; [reflexivity|exact Hw].
Qed.

(* ---- partition ---- *)
Lemma partition_app c a b :
  forallb (fun x => negb (x =? c)) a = true -> partition c (a ++ c :: b) = (a, true, b).
Proof.
  induction a as [|x a IH]; cbn; intro H.
  - rewrite Z.eqb_refl. reflexivity.
  - apply andb_true_iff in H as [Hx Ha]. apply negb_true_iff in Hx. rewrite Hx, (IH Ha). reflexivity.
Qed.

Lemma partition_none c a :
  forallb (fun x => negb (x =? c)) a = true -> partition c a = (a, false, []).
Proof.
  induction a as [|x a IH]; cbn; intro H; [reflexivity|].
  apply andb_true_iff in H as [Hx Ha]. apply negb_true_iff in Hx. rewrite Hx, (IH Ha). reflexivity.
Qed.

(* ---- character-class facts, by computation on the interpreter's tables ---- *)
Lemma space_chars_no_ascii_digit :
  forallb (fun s => negb ((48 <=? s) && (s <=? 57))) space_chars = true.
Proof. vm_compute. reflexivity. Qed.

Lemma ascii_digit_not_space c : is_ascii_digit c = true -> is_space c = false.
Proof.
  unfold is_ascii_digit, is_space. intro H.
  pose proof space_chars_no_ascii_digit as T.
  induction space_chars as [|s l IH]; cbn in *; [reflexivity|].
  apply andb_true_iff in T as [T1 T2]. rewrite (IH T2), orb_false_r.
  apply negb_true_iff in T1.
  destruct (c =? s) eqn:E; [|reflexivity]. apply Z.eqb_eq in E. subst. congruence.
Qed.

Lemma digit_ranges_head : exists r, digit_ranges = (48, 57) :: r.
Proof. eexists. vm_compute. reflexivity. Qed.

Lemma ascii_digit_is_digit c : is_ascii_digit c = true -> is_digit_char c = true.
Proof.
  unfold is_ascii_digit, is_digit_char, in_ranges. intro H.
  destruct digit_ranges_head as [r ->]. cbn. rewrite H. reflexivity.
Qed.

Lemma is_space_CR : is_space 13 = true. Proof. vm_compute. reflexivity. Qed.
Lemma is_space_LF : is_space 10 = true. Proof. vm_compute. reflexivity. Qed.
Lemma is_space_SP : is_space 32 = true. Proof. vm_compute. reflexivity. Qed.
Lemma is_space_DASH : is_space 45 = false. Proof. vm_compute. reflexivity. Qed.
Lemma is_digit_SP : is_digit_char 32 = false. Proof. vm_compute. reflexivity. Qed.

Lemma all_ascii_digit_rstrip s : forallb is_ascii_digit s = true -> rstrip s = s.
Proof.
  intro H. apply rstrip_nonspace_all. rewrite forallb_forall in *. intros x Hx.
  apply negb_true_iff. apply ascii_digit_not_space. apply H. exact Hx.
Qed.

Lemma all_ascii_digit_isdigit s : s <> [] -> forallb is_ascii_digit s = true -> str_isdigit s = true.
Proof.
  intros Hne H. destruct s as [|c s]; [congruence|]. unfold str_isdigit.
  rewrite forallb_forall in *. intros x Hx. apply ascii_digit_is_digit. apply H. exact Hx.
Qed.
