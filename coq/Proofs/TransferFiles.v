(* Proofs about Model/TransferFiles.v (C01): uploads touch their own entry only; overlapping
   uploads to different names are independent of the interleaving of their writes. *)
From Coq Require Import ZArith Bool Arith String List Lia.
From Verif Require Import Lib.Sx Lib.Facts Lib.XferFacts Model.Bytes Model.TransferBytes Model.TransferTimed
     Model.TransferFiles Proofs.Bytes Proofs.TransferBytes.
Import ListNotations.
Open Scope string_scope.
Open Scope list_scope.
Open Scope nat_scope.

Lemma fs_get_set_same : forall f n c, fs_get (fs_set f n c) n = Some c.
Proof.
  induction f as [|[k c0] r IH]; intros n c; cbn [fs_set fs_get].
  - now rewrite String.eqb_refl.
  - destruct (String.eqb k n) eqn:E; cbn [fs_get]; rewrite E; [reflexivity|apply IH].
Qed.

Lemma fs_get_set_other : forall f n c n', n' <> n -> fs_get (fs_set f n c) n' = fs_get f n'.
Proof.
  induction f as [|[k c0] r IH]; intros n c n' Hn; cbn [fs_set fs_get].
  - destruct (String.eqb n n') eqn:E; [apply String.eqb_eq in E; congruence|reflexivity].
  - destruct (String.eqb k n) eqn:E; cbn [fs_get].
    + apply String.eqb_eq in E. subst k.
      destruct (String.eqb n n') eqn:E2; [apply String.eqb_eq in E2; congruence|reflexivity].
    + destruct (String.eqb k n'); [reflexivity|now apply IH].
Qed.

(* an upload -- acknowledged or refused -- leaves every other name alone *)
Theorem fs_upload_frame : forall table f vm off n reads f' n',
  fs_upload table f vm off n reads = Some f' -> n' <> n -> fs_get f' n' = fs_get f n'.
Proof.
  intros table f vm off n reads f' n' H Hn. unfold fs_upload in H.
  destruct (stor_worker_on table vm off (fs_get f n) reads) as [[c|]|]; try discriminate;
    injection H as <-; [now apply fs_get_set_other|reflexivity].
Qed.

(* ... and its own entry holds exactly the specified bytes *)
Theorem fs_upload_exact : forall table f vm off n block payload reads,
  stor_table_ok table -> store_mode vm -> conforming block payload reads ->
  exists f', fs_upload table f vm off n reads = Some f'
    /\ fs_get f' n = match fs_get f n with
                     | Some old => Some (spec_store vm off payload old)
                     | None => if off =? 0 then Some payload else None
                     end.
Proof.
  intros table f vm off n block payload reads Ht Hvm Hc. unfold fs_upload.
  destruct (fs_get f n) as [old|] eqn:Eg.
  - rewrite stor_worker_on_existing, (stor_worker_exact _ _ _ _ _ _ _ Ht Hvm Hc).
    eexists. split; [reflexivity|]. apply fs_get_set_same.
  - rewrite (stor_worker_on_missing _ _ _ _ _ _ Ht Hvm Hc).
    destruct (off =? 0); eexists; (split; [reflexivity|]); [apply fs_get_set_same|exact Eg].
Qed.

(* a whole history: a name that no upload of the history addresses keeps its bytes -- whatever the
   other names are (x.json next to x.csv, an x.part stored earlier) *)
Theorem fs_history_frame : forall table h f f' n,
  fs_history table f h = Some f' ->
  Forall (fun u => u_name u <> n) h ->
  fs_get f' n = fs_get f n.
Proof.
  intros table. induction h as [|u r IH]; intros f f' n H Hall; cbn [fs_history] in H.
  - now injection H as <-.
  - inversion Hall as [|? ? Hu Hr]; subst.
    destruct (fs_upload table f (u_mode u) (u_off u) (u_name u) (u_reads u)) as [f1|] eqn:E; [|discriminate].
    rewrite (IH _ _ _ H Hr). eapply fs_upload_frame; [exact E|]. congruence.
Qed.

(* the last acknowledged upload of a name decides its content, later uploads of OTHER names do not *)
Corollary acknowledged_file_survives : forall table f vm off n block payload reads later f1 f2,
  stor_table_ok table -> store_mode vm -> conforming block payload reads ->
  fs_upload table f vm off n reads = Some f1 ->
  fs_history table f1 later = Some f2 ->
  Forall (fun u => u_name u <> n) later ->
  fs_get f2 n = match fs_get f n with
                | Some old => Some (spec_store vm off payload old)
                | None => if off =? 0 then Some payload else None
                end.
Proof.
  intros table f vm off n block payload reads later f1 f2 Ht Hvm Hc H1 H2 Hl.
  rewrite (fs_history_frame _ _ _ _ _ H2 Hl).
  destruct (fs_upload_exact table f vm off n block payload reads Ht Hvm Hc) as [f' [E Hg]].
  rewrite H1 in E. injection E as <-. exact Hg.
Qed.

(* overlapping uploads: every handle sees its own blocks in order, whatever the schedule *)
Theorem interleave_independent : forall sched ha hb ba bb,
  interleave sched ha hb ba bb
  = (fold_left (fun h d => h_write d h) ba ha, fold_left (fun h d => h_write d h) bb hb).
Proof.
  induction sched as [|[|] r IH]; intros ha hb ba bb; cbn [interleave]; [reflexivity| |].
  - destruct ba as [|d ba']; rewrite IH; reflexivity.
  - destruct bb as [|d bb']; rewrite IH; reflexivity.
Qed.

Lemma open_for_upload : forall table f vm off n reads h,
  open_for table f vm off n = Some h ->
  fs_upload table f vm off n reads
  = Some (fs_set f n (h_content (fold_left (fun h d => h_write d h) (iter_blocks reads) h))).
Proof.
  intros table f vm off n reads h H. unfold open_for in H. unfold fs_upload, stor_worker_on.
  destruct (select_mode table vm (negb (off =? 0))) as [m|]; [|discriminate].
  destruct (h_open_opt m (fs_get f n)) as [h0|]; [|discriminate].
  injection H as <-. now rewrite stor_loop_iter.
Qed.

(* two overlapping uploads to DIFFERENT names leave, under every schedule of their block writes,
   exactly what the two uploads one after the other leave *)
Theorem overlap_is_sequential : forall table f ua ub sched f1,
  u_name ua <> u_name ub ->
  fs_overlap table f ua ub sched = Some f1 ->
  fs_history table f [ua; ub] = Some f1.
Proof.
  intros table f ua ub sched f1 Hn H. unfold fs_overlap in H.
  destruct (open_for table f (u_mode ua) (u_off ua) (u_name ua)) as [ha|] eqn:Ea; [|discriminate].
  destruct (open_for table f (u_mode ub) (u_off ub) (u_name ub)) as [hb|] eqn:Eb; [|discriminate].
  rewrite interleave_independent in H. injection H as <-.
  cbn [fs_history]. rewrite (open_for_upload _ _ _ _ _ (u_reads ua) _ Ea).
  set (f' := fs_set f (u_name ua) _).
  assert (Eb' : open_for table f' (u_mode ub) (u_off ub) (u_name ub) = Some hb).
  { unfold open_for in *. subst f'. rewrite fs_get_set_other by congruence. exact Eb. }
  rewrite (open_for_upload _ _ _ _ _ (u_reads ub) _ Eb'). reflexivity.
Qed.
