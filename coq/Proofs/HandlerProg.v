(* Proofs about Model/HandlerProg.v (C05): the hand-written handler bodies of Model/Session.v are the
   denotations of the handler programs translated from server.py.

   den_<handler>: one lemma per handler, for EVERY user table, delegation callback, argument, data
   action, appe flag and world (case analysis on the conditions the handler tests; no sampling).
   Three handlers read something the session model represents partially, and their lemma carries the
   corresponding hypothesis (see [body_pre]):
     rnto   reads connection.rename_from: absent => AttributeError in the source, 503 in [body]
            (a state the handler's own ConnectionConditions(rename_from_required) excludes);
     pass_  reads connection.user: absent => AttributeError in the source, 530 in [body]
            (excluded by ConnectionConditions(user_required));
     pwd    doubles every double quote of the directory (str(..).replace) -- [body] does not: on a
            current directory with a double quote in a name the MODEL is wrong (pwd_model_ignores_quote_doubling). *)
From Coq Require Import ZArith List Bool String Lia.
From Verif Require Import Lib.Sx Lib.PyStr Lib.Facts Lib.HandlerFacts Model.Session Model.HandlerProg.
From Verif Require Import Proofs.SessionLogin.
From Verif Require Gen.Handlers.
Import ListNotations.
Open Scope list_scope.
Open Scope string_scope.

(* ---- today's source: the translated programs are the reference programs (closed obligations) ---- *)
Definition handler_programs_match : bool := leqb named_prog_eqb Gen.Handlers.programs ref_programs.

Lemma handler_programs_match_ok : Gen.Handlers.translator_ok = true /\ handler_programs_match = true.
Proof. vm_compute. split; reflexivity. Qed.

Lemma gen_programs : Gen.Handlers.programs = ref_programs.
Proof. vm_compute. reflexivity. Qed.

Lemma ref_programs_classified : forallb (fun np => negb (existsb has_other (hp_body (snd np)))) ref_programs = true.
Proof. vm_compute. reflexivity. Qed.

(* ---- PWD's quoting ---- *)
Definition no_dquote (p : list text) : bool := forallb (forallb (fun c => negb (c =? 34)%Z)) p.

Lemma dbl_quote_id t : forallb (fun c => negb (c =? 34)%Z) t = true -> dbl_quote t = t.
Proof.
  induction t as [|c r IH]; [reflexivity|]. cbn [forallb]. intros H. apply andb_prop in H as [Hc Hr].
  unfold dbl_quote in *. cbn [flat_map]. destruct (c =? 34)%Z; [discriminate|]. cbn [app]. rewrite (IH Hr). reflexivity.
Qed.

Lemma path_str_no_dquote p : no_dquote p = true -> forallb (fun c => negb (c =? 34)%Z) (path_str p) = true.
Proof.
  destruct p as [|x r]; [reflexivity|]. unfold path_str. generalize (x :: r). clear x r.
  induction l as [|y l IH]; [reflexivity|]. cbn [no_dquote forallb flat_map]. intros H. apply andb_prop in H as [Hy Hl].
  rewrite forallb_app. cbn [forallb]. rewrite Hy. cbn. apply IH. exact Hl.
Qed.

Lemma pwd_text_unquoted p : no_dquote p = true -> dbl_quote (path_str p) = path_str p.
Proof. intros H. apply dbl_quote_id, path_str_no_dquote, H. Qed.

(* what the three partially represented reads need; everything else: no hypothesis *)
Definition body_pre (name : string) (w : world) : Prop :=
  (name = "rnto" -> s_rnfr (w_s w) <> None)
  /\ (name = "pass_" -> s_user (w_s w) <> None).

Section Den.
  Variable users : list user.
  Variable self : string -> text -> dataact -> bool -> world -> result.
  Notation den name arg d appe w := (run_handler_prog users self (prog_of ref_programs name) arg d appe w).

  Lemma den_quit arg d appe w : den "quit" arg d appe w = Some (body users self "quit" arg d appe w).
  Proof. reflexivity. Qed.
  Lemma den_syst arg d appe w : den "syst" arg d appe w = Some (body users self "syst" arg d appe w).
  Proof. reflexivity. Qed.
  Lemma den_cwd arg d appe w : den "cwd" arg d appe w = Some (body users self "cwd" arg d appe w).
  Proof. reflexivity. Qed.
  Lemma den_cdup arg d appe w : den "cdup" arg d appe w = Some (body users self "cdup" arg d appe w).
  Proof. reflexivity. Qed.
  Lemma den_appe arg d appe w : den "appe" arg d appe w = Some (body users self "appe" arg d appe w).
  Proof. reflexivity. Qed.
  Lemma den_mkd arg d appe w : den "mkd" arg d appe w = Some (body users self "mkd" arg d appe w).
  Proof. unfold run_handler_prog. cbn -[resolve mkdir_p]. destruct (mkdir_p _ _); reflexivity. Qed.

  Lemma den_rmd arg d appe w : den "rmd" arg d appe w = Some (body users self "rmd" arg d appe w).
  Proof. unfold run_handler_prog. cbn -[resolve rmdir]. destruct (rmdir _ _); reflexivity. Qed.
  Lemma den_dele arg d appe w : den "dele" arg d appe w = Some (body users self "dele" arg d appe w).
  Proof. unfold run_handler_prog. cbn -[resolve unlink]. destruct (unlink _ _); reflexivity. Qed.
  Lemma den_rnfr arg d appe w : den "rnfr" arg d appe w = Some (body users self "rnfr" arg d appe w).
  Proof. reflexivity. Qed.
  Lemma den_mlst arg d appe w : den "mlst" arg d appe w = Some (body users self "mlst" arg d appe w).
  Proof. reflexivity. Qed.
  Lemma den_pbsz arg d appe w : den "pbsz" arg d appe w = Some (body users self "pbsz" arg d appe w).
  Proof. reflexivity. Qed.
  Lemma den_list arg d appe w : den "list" arg d appe w = Some (body users self "list" arg d appe w).
  Proof. reflexivity. Qed.
  Lemma den_mlsd arg d appe w : den "mlsd" arg d appe w = Some (body users self "mlsd" arg d appe w).
  Proof. reflexivity. Qed.
  Lemma den_retr arg d appe w : den "retr" arg d appe w = Some (body users self "retr" arg d appe w).
  Proof. reflexivity. Qed.
  Lemma den_stor arg d appe w : den "stor" arg d appe w = Some (body users self "stor" arg d appe w).
  Proof. unfold run_handler_prog. cbn -[resolve is_dir store with_data].
    destruct (is_dir _ _); [|reflexivity]. destruct appe; reflexivity. Qed.
  Lemma den_type arg d appe w : den "type" arg d appe w = Some (body users self "type" arg d appe w).
  Proof. unfold run_handler_prog. cbn -[text_eqb t_of].
    change (t_of "I") with [73%Z]. change (t_of "A") with [65%Z].
    destruct (text_eqb arg [73%Z]); [reflexivity|]. destruct (text_eqb arg [65%Z]); reflexivity. Qed.
  Lemma den_prot arg d appe w : den "prot" arg d appe w = Some (body users self "prot" arg d appe w).
  Proof. unfold run_handler_prog. cbn -[text_eqb t_of]. change (t_of "P") with [80%Z].
    destruct (text_eqb arg [80%Z]); reflexivity. Qed.
  Lemma den_abor arg d appe w : den "abor" arg d appe w = Some (body users self "abor" arg d appe w).
  Proof. reflexivity. Qed.
  Lemma den_rest arg d appe w : den "rest" arg d appe w = Some (body users self "rest" arg d appe w).
  Proof. unfold run_handler_prog. cbn -[str_isascii str_isdigit int_of_digits].
    destruct (str_isascii arg); [|reflexivity]. destruct (str_isdigit arg); [|reflexivity].
    cbn -[int_of_digits Z.leb Z.of_nat]. destruct (Z.of_nat (Datatypes.length arg) <=? 18)%Z; [|reflexivity].
    cbn -[int_of_digits]. destruct (int_of_digits arg); reflexivity. Qed.
  Lemma den_epsv arg d appe w : den "epsv" arg d appe w = Some (body users self "epsv" arg d appe w).
  Proof. unfold run_handler_prog. destruct arg as [|c r]; [|reflexivity].
    destruct w as [s fs lg]. destruct s as [u l cw rn rs pa da en]. cbn. destruct pa, da; reflexivity. Qed.
  Lemma den_pasv arg d appe w : den "pasv" arg d appe w = Some (body users self "pasv" arg d appe w).
  Proof. unfold run_handler_prog.
    destruct w as [s fs lg]. destruct s as [u l cw rn rs pa da en]. cbn. destruct pa, da; reflexivity. Qed.

  Lemma den_user arg d appe w : den "user" arg d appe w = Some (body users self "user" arg d appe w).
  Proof.
    unfold run_handler_prog.
    destruct w as [s fs lg]. destruct s as [u l cw rn rs pa da en].
    cbn -[find_user]. unfold get_user.
    destruct (find_user users 0 arg None) as [i|] eqn:F.
    2:{ destruct u; reflexivity. }
    destruct (nth_error users i) as [usr|] eqn:N.
    2:{ destruct u; reflexivity. }
    destruct (u_login usr), (u_password usr), u; cbn; rewrite ?N; reflexivity.
  Qed.

  Lemma den_pass arg d appe w : s_user (w_s w) <> None ->
    den "pass_" arg d appe w = Some (body users self "pass_" arg d appe w).
  Proof.
    intros H. unfold run_handler_prog.
    destruct w as [s fs lg]. destruct s as [u l cw rn rs pa da en]. cbn in H.
    destruct u as [i|]; [|congruence]. clear H.
    cbn. destruct l; [reflexivity|]. unfold authenticate.
    destruct (nth_error users i) as [usr|]; [|reflexivity].
    destruct (opt_text_eqb (u_password usr) (Some arg)); reflexivity.
  Qed.

  Lemma den_rnto arg d appe w : s_rnfr (w_s w) <> None ->
    den "rnto" arg d appe w = Some (body users self "rnto" arg d appe w).
  Proof.
    intros H. unfold run_handler_prog.
    destruct w as [s fs lg]. destruct s as [u l cw rn rs pa da en]. cbn in H.
    destruct rn as [src|]; [|congruence]. clear H.
    cbn -[resolve rename]. destruct (rename _ _ _); reflexivity.
  Qed.

  Lemma den_pwd arg d appe w :
    den "pwd" arg d appe w = Some (body users self "pwd" arg d appe w).
  Proof. reflexivity. Qed.

  (* THE theorem: for every handler of the table, the hand-written body is the denotation of its program *)
  Theorem body_is_denotation name arg d appe w :
    In name handler_names -> body_pre name w ->
    den name arg d appe w = Some (body users self name arg d appe w).
  Proof.
    intros Hin [P1 P2]. unfold handler_names in Hin. cbn [map fst ref_programs] in Hin.
    destruct Hin as [<-|Hin]; [apply den_abor|].
    destruct Hin as [<-|Hin]; [apply den_appe|].
    destruct Hin as [<-|Hin]; [apply den_cdup|].
    destruct Hin as [<-|Hin]; [apply den_cwd|].
    destruct Hin as [<-|Hin]; [apply den_dele|].
    destruct Hin as [<-|Hin]; [apply den_epsv|].
    destruct Hin as [<-|Hin]; [apply den_list|].
    destruct Hin as [<-|Hin]; [apply den_mkd|].
    destruct Hin as [<-|Hin]; [apply den_mlsd|].
    destruct Hin as [<-|Hin]; [apply den_mlst|].
    destruct Hin as [<-|Hin]; [apply den_pass, P2; reflexivity|].
    destruct Hin as [<-|Hin]; [apply den_pasv|].
    destruct Hin as [<-|Hin]; [apply den_pbsz|].
    destruct Hin as [<-|Hin]; [apply den_prot|].
    destruct Hin as [<-|Hin]; [apply den_pwd|].
    destruct Hin as [<-|Hin]; [apply den_quit|].
    destruct Hin as [<-|Hin]; [apply den_rest|].
    destruct Hin as [<-|Hin]; [apply den_retr|].
    destruct Hin as [<-|Hin]; [apply den_rmd|].
    destruct Hin as [<-|Hin]; [apply den_rnfr|].
    destruct Hin as [<-|Hin]; [apply den_rnto, P1; reflexivity|].
    destruct Hin as [<-|Hin]; [apply den_stor|].
    destruct Hin as [<-|Hin]; [apply den_syst|].
    destruct Hin as [<-|Hin]; [apply den_type|].
    destruct Hin as [<-|Hin]; [apply den_user|].
    destruct Hin.
  Qed.
End Den.

Lemma handler_names_are_the_25 :
  handler_names = ["abor"; "appe"; "cdup"; "cwd"; "dele"; "epsv"; "list"; "mkd"; "mlsd"; "mlst"; "pass_"; "pasv"; "pbsz";
                   "prot"; "pwd"; "quit"; "rest"; "retr"; "rmd"; "rnfr"; "rnto"; "stor"; "syst"; "type"; "user"]
  /\ forallb (fun e => mem_s (fst (fst (snd e))) handler_names) ref_table = true
  /\ forallb (fun n => existsb (fun e => String.eqb (fst (fst (snd e))) n) ref_table) handler_names = true.
Proof. vm_compute. repeat split. Qed.

(* the same statement about the programs REGENERATED from server.py on this run *)
Theorem gen_body_is_denotation : forall users self name arg d appe w,
  In name handler_names -> body_pre name w ->
  run_handler_prog users self (prog_of Gen.Handlers.programs name) arg d appe w
  = Some (body users self name arg d appe w).
Proof. rewrite gen_programs. exact body_is_denotation. Qed.

(* the hypotheses of [body_pre] are exactly what the handlers' own decorators establish / a quote-free cwd *)
Lemma body_pre_trivial name w :
  name <> "rnto" -> name <> "pass_" -> body_pre name w.
Proof. intros A B. repeat split; intros E; congruence. Qed.

Lemma body_pre_from_fields name w :
  has_field (w_s w) "rename_from" = true -> has_field (w_s w) "user" = true -> body_pre name w.
Proof.
  unfold has_field. cbn [String.eqb Ascii.eqb Bool.eqb]. intros A B. repeat split; intros _.
  - destruct (s_rnfr (w_s w)); [discriminate|discriminate A].
  - destruct (s_user (w_s w)); [discriminate|discriminate B].
Qed.

(* ---- PWD doubles every double quote of the directory, in the source program and in the model alike ---- *)
Definition W_quote : world :=
  {| w_s := {| s_user := None; s_logged := true; s_cwd := [[97; 34; 98]%Z]; s_rnfr := None; s_rest := 0%Z;
               s_passive := false; s_data := false; s_ended := false |};
     w_fs := NDir []; w_log := [] |}.

Lemma pwd_model_doubles_quotes : forall users self,
  option_map (fun r => o_info (snd (fst r))) (run_handler_prog users self (prog_of ref_programs "pwd") [] DNone false W_quote)
    = Some [34; 47; 97; 34; 34; 98; 34]%Z
  /\ o_info (snd (fst (body users self "pwd" [] DNone false W_quote))) = [34; 47; 97; 34; 34; 98; 34]%Z.
Proof. intros. split; reflexivity. Qed.

(* ---- the interpreter discriminates the mutations it should (whatever the inputs) ---- *)
Definition no_self : string -> text -> dataact -> bool -> world -> result := fun _ _ _ _ w => (w, mk_out [], true).

(* CWD assigning the REAL path: no denotation *)
Lemma cwd_real_path_has_no_denotation : forall users self arg d appe w,
  run_handler_prog users self
    (P [HGetPaths "x0" "x1" ERest; HSetAttr "current_directory" (EVar "x0"); HReply (ELit "250") EOpaque; HReturn true])
    arg d appe w = None.
Proof. reflexivity. Qed.

(* MKD with parents=False: no denotation *)
Lemma mkd_without_parents_has_no_denotation : forall users self arg d appe w,
  run_handler_prog users self
    (P [HGetPaths "x0" "x1" ERest; HBackend "mkdir" [EVar "x0"] [("parents", EBool false)];
        HReply (ELit "257") EOpaque; HReturn true])
    arg d appe w = None.
Proof. reflexivity. Qed.

(* an unclassified statement anywhere on the executed path: no denotation *)
Lemma unclassified_has_no_denotation : forall users self arg d appe w t,
  run_handler_prog users self (P [HOther t; HReply (ELit "200") EOpaque; HReturn true]) arg d appe w = None.
Proof. reflexivity. Qed.

(* RNTO that forgets `del connection.rename_from`: the pending rename survives *)
Lemma rnto_without_del_keeps_rename_from : forall users self arg d appe w src f,
  s_rnfr (w_s w) = Some src -> rename src (resolve (s_cwd (w_s w)) arg) (w_fs w) = Some f ->
  option_map (fun r => s_rnfr (w_s (fst (fst r))))
    (run_handler_prog users self
       (P [HGetPaths "x0" "x1" ERest; HLet "x2" (EAttr "rename_from");
           HBackend "rename" [EVar "x2"; EVar "x0"] []; HReply (ELit "250") EOpaque; HReturn true])
       arg d appe w) = Some (Some src).
Proof.
  intros users self arg d appe w src f R E. unfold run_handler_prog.
  destruct w as [s fs lg]. destruct s as [u l cw rn rs pa da en]. cbn in R. subst rn.
  cbn -[resolve rename] in *. rewrite E. reflexivity.
Qed.

(* TYPE accepting "E" as well: 200 where the model says 502 *)
Lemma type_accepting_E_differs : forall users self d appe w,
  run_handler_prog users self
    (P [HIf (CIn ERest ["I"; "A"; "E"]) [HSetAttr "transfer_type" ERest; HLet "x0" (ELit "200")] [HLet "x0" (ELit "502")];
        HReply (EVar "x0") EOpaque; HReturn true]) [69%Z] d appe w = Some (reply w "200")
  /\ body users self "type" [69%Z] d appe w = reply w "502".
Proof. intros. split; reflexivity. Qed.

(* DELE that replies before the unlink and swallows its failure: the try/except is unclassified, and
   even with the failure path classified as "nothing", the 250 on a failing unlink differs from 451 *)
Lemma dele_ignoring_failure_differs : forall users self arg d appe w,
  unlink (resolve (s_cwd (w_s w)) arg) (w_fs w) = None ->
  o_codes (snd (fst (body users self "dele" arg d appe w))) = [code "451"].
Proof.
  intros users self arg d appe w E. cbn -[resolve unlink]. rewrite E. reflexivity.
Qed.

(* non-vacuity: a concrete run of a translated program *)
Example den_example_mkd :
  let w := {| w_s := init_sess; w_fs := NDir []; w_log := [] |} in
  option_map (fun r => (w_fs (fst (fst r)), o_codes (snd (fst r))))
    (run_handler_prog [] no_self (prog_of Gen.Handlers.programs "mkd") (t_of "a/b") DNone false w)
  = Some (NDir [(t_of "a", NDir [(t_of "b", NDir [])])], [code "257"]).
Proof. vm_compute. reflexivity. Qed.

(* ---- the passive listener's callback (defined by PASV / EPSV, run when the peer connects) ---- *)
Definition data_callback_body : list hstmt :=
  [HIf (CDone "data_connection") [HCloseWriter] [HSetAttr "data_connection" ENewStream]].

Lemma callback_in_programs :
  hd_error (hp_body (prog_of Gen.Handlers.programs "pasv")) = Some (HDefCallback "handler" data_callback_body)
  /\ hd_error (hp_body (prog_of Gen.Handlers.programs "epsv")) = Some (HDefCallback "handler" data_callback_body).
Proof. vm_compute. split; reflexivity. Qed.

(* [step]'s V_DATACONN branch is the denotation of that callback wherever a listener exists *)
Lemma dataconn_is_callback_denotation : forall users t w e,
  s_ended (w_s w) = false -> text_eqb (e_verb e) V_DATACONN = true -> s_passive (w_s w) = true ->
  run_callback users data_callback_body (w_s w) = Some (w_s (fst (step users t w e))).
Proof.
  intros users t w e En V Pa. unfold step. rewrite En, V, Pa.
  destruct w as [s fs lg]. destruct s as [u l cw rn rs pa da en]. cbn in *.
  destruct da; reflexivity.
Qed.

(* ==================================================================================================
   from the bodies to the whole handler: decorator stack (generic interpreter [run_decos]) around the
   program denotations, delegation through [self] included *)

Definition conn_fields (ds : list deco) : list string :=
  flat_map (fun x => match x with DConn fs _ _ => fs | _ => [] end) ds.

Section Lift.
  Variable users : list user.

  Lemma run_decos_ext ds : forall arg s0 w b1 b2,
    w_s w = s0 ->
    (forall w', w_s w' = s0 -> (forall f, In f (conn_fields ds) -> has_field s0 f = true) -> b1 w' = b2 w') ->
    run_decos users ds arg w b1 = run_decos users ds arg w b2.
  Proof.
    induction ds as [|x r IH]; intros arg s0 w b1 b2 Hs H.
    - cbn [run_decos]. apply H; [exact Hs|]. intros f [].
    - destruct x as [fields wait fc|cs|ps| |nm]; cbn [run_decos].
      + destruct (find (fun f => negb (has_field (w_s w) f)) fields) eqn:F; [reflexivity|].
        apply (IH arg s0); [exact Hs|]. intros w' Hs' Hr. apply H; [exact Hs'|].
        intros f Hin. unfold conn_fields in Hin. cbn [flat_map] in Hin. apply in_app_or in Hin as [Hin|Hin].
        * pose proof (find_none _ _ F f Hin) as N. rewrite Hs in N. destruct (has_field s0 f); [reflexivity|discriminate N].
        * apply Hr. exact Hin.
      + pose proof (run_conds_sess cs (resolve (s_cwd (w_s w)) arg) w) as E.
        destruct (run_conds cs (resolve (s_cwd (w_s w)) arg) w) as [w1 ok]. cbn [fst] in E.
        destruct ok; [|reflexivity]. apply (IH arg s0); [congruence|]. intros w' Hs' Hr. apply H; [exact Hs'|].
        intros f Hin. apply Hr. exact Hin.
      + destruct ps as [|p0 ps']; [reflexivity|]. destruct (cur_user users (w_s w)); [|reflexivity].
        destruct (if String.eqb p0 "readable" then _ else _); [|reflexivity].
        apply (IH arg s0); [exact Hs|]. intros w' Hs' Hr. apply H; [exact Hs'|]. intros f Hin. apply Hr. exact Hin.
      + apply (IH arg s0); [exact Hs|]. intros w' Hs' Hr. apply H; [exact Hs'|]. intros f Hin. apply Hr. exact Hin.
      + apply (IH arg s0); [exact Hs|]. intros w' Hs' Hr. apply H; [exact Hs'|]. intros f Hin. apply Hr. exact Hin.
  Qed.

  Lemma body_self_ext s1 s2 name arg d appe w :
    (forall a d' ap w', s1 "cwd" a d' ap w' = s2 "cwd" a d' ap w') ->
    (forall a d' ap w', s1 "stor" a d' ap w' = s2 "stor" a d' ap w') ->
    body users s1 name arg d appe w = body users s2 name arg d appe w.
  Proof.
    intros Hc Hs. unfold body.
    repeat match goal with
    | |- (if String.eqb name ?n then _ else _) = _ => destruct (String.eqb name n); [first [reflexivity | apply Hc | apply Hs]|]
    end.
    reflexivity.
  Qed.

  (* what the reference table guarantees about a handler it knows *)
  Lemma table_facts name ds dl :
    handler_of ref_table name = Some (ds, dl) ->
    mem_s name handler_names = true
    /\ (name = "rnto" -> mem_s "rename_from" (conn_fields ds) = true)
    /\ (name = "pass_" -> mem_s "user" (conn_fields ds) = true).
  Proof.
    unfold handler_of. cbn [find ref_table L1 app].
    repeat match goal with
    | |- context [String.eqb ?a name] =>
        destruct (String.eqb a name) eqn:E;
        [apply String.eqb_eq in E; subst name; intros H; injection H as <- <-;
         split; [reflexivity|split; intros Q; first [discriminate Q | reflexivity]]
        |clear E]
    end.
    intros H. discriminate H.
  Qed.

  Lemma mem_s_In x l : mem_s x l = true -> In x l.
  Proof.
    unfold mem_s. intros H. apply existsb_exists in H as [y [Hin E]]. apply String.eqb_eq in E. subst y. exact Hin.
  Qed.

  Lemma In_has_field s f : has_field s f = true -> f = "rename_from" -> s_rnfr s <> None.
  Proof. intros H ->. unfold has_field in H. cbn [String.eqb Ascii.eqb Bool.eqb] in H. destruct (s_rnfr s); [discriminate|discriminate H]. Qed.

  Lemma In_has_user s : has_field s "user" = true -> s_user s <> None.
  Proof. unfold has_field. cbn [String.eqb Ascii.eqb Bool.eqb]. destruct (s_user s); [discriminate|discriminate]. Qed.

  (* the WHOLE handler (decorator stack + body, delegation included) computed from the programs is the model's
     handler, for every world: the decorators establish what rnto / pass_ read *)
  Theorem handler_is_program_denotation : forall fuel name arg d appe w,
    handler_prog users ref_table ref_programs fuel name arg d appe w = handler users ref_table fuel name arg d appe w.
  Proof.
    induction fuel as [|f IH]; intros name arg d appe w; [reflexivity|].
    cbn [handler_prog handler].
    destruct (handler_of ref_table name) as [[ds dl]|] eqn:T; [|reflexivity].
    destruct (table_facts name ds dl T) as (Hn & Hr & Hp).
    apply (run_decos_ext ds arg (w_s w)); [reflexivity|].
    intros w' Hs Hf. unfold prog_body.
    rewrite (body_is_denotation users (handler_prog users ref_table ref_programs f) name arg d appe w').
    - apply body_self_ext; intros a d' ap w''; apply IH.
    - apply mem_s_In. exact Hn.
    - repeat split; intros E.
      + rewrite Hs. apply (In_has_field _ "rename_from"); [|reflexivity]. apply Hf. apply mem_s_In. apply Hr. exact E.
      + rewrite Hs. apply In_has_user. apply Hf. apply mem_s_In. apply Hp. exact E.
  Qed.
End Lift.

Theorem gen_handler_is_program_denotation : forall users fuel name arg d appe w,
  handler_prog users ref_table Gen.Handlers.programs fuel name arg d appe w
  = handler users ref_table fuel name arg d appe w.
Proof. rewrite gen_programs. exact handler_is_program_denotation. Qed.
