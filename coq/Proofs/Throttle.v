(* Proofs about Model/Throttle.v (C15).

   Part 1  round_half_even is within 1/2 of its argument.
   Part 2  wake: never before now; when it sleeps it ends exactly at start + sum/limit; off = free.
   Part 3  one throttle, any number of actors, ghost-instrumented runs (gstep) and the invariant Inv:
             sum = T - C,  |C - L*(start - t0)| <= r/2,  r*R <= start - t0,
             every evaluated/started I/O was scheduled within the rate,
             every byte above the certified level G lies in the LAST block of a not-in-flight actor.
   Part 4  counting lemma (a covered integer interval is no longer than the sum of the covering
           blocks) and the shared bound.
   Part 5  the system (store of throttles, actors over dicts of throttles) projects onto Part 3
           for every throttle k: independence, tightest-governs, off-is-free over traces. *)
From Coq Require Import ZArith QArith Qminmax Qabs List Bool Lia Lqa.
From Verif Require Import Lib.Sx Model.Throttle.
Import ListNotations.

(* ------------------------------------------------------------------ Part 1 *)

Lemma round_half_even_cases : forall q,
  let n := Qnum q in let d := Zpos (Qden q) in
  (2 * (d * round_half_even q - n) <= d /\ 2 * (n - d * round_half_even q) <= d)%Z.
Proof.
  intros q n d. unfold round_half_even. fold n. fold d.
  pose proof (Z.div_mod n d ltac:(subst d; lia)) as Hdm.
  pose proof (Z.mod_pos_bound n d ltac:(subst d; lia)) as Hb.
  remember (n / d)%Z as f. remember (n mod d)%Z as r.
  assert (Hd1 : (d * (f + 1) = d * f + d)%Z) by ring.
  clear Heqf Heqr. clearbody n d.
  destruct (2 * r ?= d)%Z eqn:Hc.
  - apply Z.compare_eq in Hc. destruct (Z.even f); cbv iota; lia.
  - rewrite Z.compare_lt_iff in Hc. lia.
  - rewrite Z.compare_gt_iff in Hc. lia.
Qed.

Local Open Scope Q_scope.

Lemma round_half_even_upper : forall q, inject_Z (round_half_even q) - q <= 1 # 2.
Proof.
  intros q. destruct (round_half_even_cases q) as [H1 H2].
  destruct q as [n d]. cbn [Qnum Qden] in *.
  unfold Qle, Qminus, Qplus, Qopp, inject_Z. cbn [Qnum Qden]. nia.
Qed.

Lemma round_half_even_lower : forall q, q - inject_Z (round_half_even q) <= 1 # 2.
Proof.
  intros q. destruct (round_half_even_cases q) as [H1 H2].
  destruct q as [n d]. cbn [Qnum Qden] in *.
  unfold Qle, Qminus, Qplus, Qopp, inject_Z. cbn [Qnum Qden]. nia.
Qed.

Theorem round_half_even_error : forall q, Qabs (inject_Z (round_half_even q) - q) <= 1 # 2.
Proof.
  intros q. apply Qabs_Qle_condition. split.
  - pose proof (round_half_even_lower q). lra.
  - apply round_half_even_upper.
Qed.

(* ------------------------------------------------------------------ Part 2 *)

Lemma Qlt_bool_true : forall a b, Qlt_bool a b = true <-> a < b.
Proof.
  intros a b. unfold Qlt_bool. rewrite negb_true_iff. split.
  - intros H. apply Qnot_le_lt. intros Hle. apply Qle_bool_iff in Hle. congruence.
  - intros H. destruct (Qle_bool b a) eqn:E; [|reflexivity].
    apply Qle_bool_iff in E. exfalso. exact (Qlt_not_le _ _ H E).
Qed.

Lemma Qlt_bool_false : forall a b, Qlt_bool a b = false <-> b <= a.
Proof.
  intros a b. unfold Qlt_bool. rewrite negb_false_iff. apply Qle_bool_iff.
Qed.

Lemma div_le : forall x l d : Q, 0 < l -> x / l <= d -> x <= l * d.
Proof.
  intros x l d Hl H.
  assert (E : x == l * (x / l)) by (symmetry; apply Qmult_div_r; lra).
  rewrite E. apply Qmult_le_l; assumption.
Qed.

Lemma mul_div : forall x l : Q, 0 < l -> l * (x / l) == x.
Proof. intros x l Hl. apply Qmult_div_r. lra. Qed.

Lemma mul_le_mono : forall l a b : Q, 0 < l -> a <= b -> l * a <= l * b.
Proof. intros l a b Hl H. apply Qmult_le_l; assumption. Qed.

Lemma positive_limit_some : forall th l,
  positive_limit th = Some l -> limit th = Some l /\ 0 < l.
Proof.
  intros th l. unfold positive_limit. destruct (limit th) as [l0|]; [|discriminate].
  destruct (Qlt_bool 0 l0) eqn:E; [|discriminate].
  intros H. inversion H. subst. split; [reflexivity|]. apply Qlt_bool_true. exact E.
Qed.

Lemma positive_limit_intro : forall th l,
  limit th = Some l -> 0 < l -> positive_limit th = Some l.
Proof.
  intros th l H Hl. unfold positive_limit. rewrite H.
  apply Qlt_bool_true in Hl. rewrite Hl. reflexivity.
Qed.

Lemma positive_truthy : forall th l, positive_limit th = Some l -> truthy_limit th = true.
Proof.
  intros th l H. apply positive_limit_some in H. destruct H as [H Hl].
  unfold truthy_limit. rewrite H. apply negb_true_iff.
  destruct (Qeq_bool l 0) eqn:E; [|reflexivity].
  apply Qeq_bool_iff in E. lra.
Qed.

Theorem wake_ge_now : forall th now, now <= wake th now.
Proof.
  intros th now. unfold wake.
  destruct (positive_limit th); [|apply Qle_refl].
  destruct (start th); [|apply Qle_refl]. apply Q.le_max_l.
Qed.

(* off: limit None, 0 or negative -> no delay whatever the memory *)
Theorem wake_off : forall th now, positive_limit th = None -> wake th now = now.
Proof. intros th now H. unfold wake. rewrite H. reflexivity. Qed.

Theorem wake_unstarted : forall th now, start th = None -> wake th now = now.
Proof. intros th now H. unfold wake. rewrite H. destruct (positive_limit th); reflexivity. Qed.

Lemma wake_ge_end : forall th now l s,
  positive_limit th = Some l -> start th = Some s ->
  s + inject_Z (sum th) / l <= wake th now.
Proof. intros th now l s Hp Hs. unfold wake. rewrite Hp, Hs. apply Q.le_max_r. Qed.

(* if wait() sleeps at all, it wakes exactly at start + sum/limit *)
Theorem wake_sleeps_exact : forall th now,
  now < wake th now ->
  exists l s, positive_limit th = Some l /\ start th = Some s /\
              wake th now == s + inject_Z (sum th) / l.
Proof.
  intros th now H. unfold wake in *.
  destruct (positive_limit th) as [l|]; [|exfalso; exact (Qlt_irrefl _ H)].
  destruct (start th) as [s|]; [|exfalso; exact (Qlt_irrefl _ H)].
  exists l, s. split; [reflexivity|]. split; [reflexivity|].
  destruct (Q.max_spec now (s + inject_Z (sum th) / l)) as [[_ E]|[_ E]].
  - exact E.
  - rewrite E in H. exfalso. exact (Qlt_irrefl _ H).
Qed.

(* append as "fold the credit, then add": the amount folded away by this call, if any *)
Definition credit (th : throttle) (ts : Q) : option Z :=
  match positive_limit th with
  | Some l =>
      let s0 := match start th with Some s => s | None => ts end in
      if Qlt_bool (reset_rate th) (ts - s0)
      then Some (round_half_even ((ts - s0) * l)) else None
  | None => None
  end.

Lemma append_limit : forall n t th, limit (append n t th) = limit th.
Proof.
  intros n t th. unfold append. destruct (positive_limit th); [|reflexivity].
  destruct (Qlt_bool _ _); reflexivity.
Qed.

Lemma append_reset_rate : forall n t th, reset_rate (append n t th) = reset_rate th.
Proof.
  intros n t th. unfold append. destruct (positive_limit th); [|reflexivity].
  destruct (Qlt_bool _ _); reflexivity.
Qed.

Lemma append_off : forall n t th, positive_limit th = None -> append n t th = th.
Proof. intros n t th H. unfold append. rewrite H. reflexivity. Qed.

Theorem clone_spec : forall th,
  limit (clone th) = limit th /\ reset_rate (clone th) = reset_rate th /\
  start (clone th) = None /\ sum (clone th) = 0%Z.
Proof. intros th. repeat split. Qed.

Theorem set_limit_spec : forall v th,
  limit (set_limit v th) = v /\ reset_rate (set_limit v th) = reset_rate th /\
  start (set_limit v th) = None /\ sum (set_limit v th) = 0%Z.
Proof. intros v th. repeat split. Qed.

(* ------------------------------------------------------------------ Part 3 *)

Definition updf {A} (f : nat -> A) (a : nat) (v : A) : nat -> A :=
  fun b => if Nat.eqb b a then v else f b.

Lemma updf_same : forall A (f : nat -> A) a v, updf f a v a = v.
Proof. intros. unfold updf. rewrite Nat.eqb_refl. reflexivity. Qed.

Lemma updf_other : forall A (f : nat -> A) a b v, b <> a -> updf f a v b = f b.
Proof. intros A f a b v H. unfold updf. apply Nat.eqb_neq in H. rewrite H. reflexivity. Qed.

(* events seen by ONE throttle.  E1 carries the wake time w the actor committed to: any value
   not before this throttle's own wake time (the actor may wait for other throttles too). *)
Inductive ev1 :=
| E1 (a : nat) (t w : Q)
| S1 (a : nat) (t : Q)
| D1 (a : nat) (t : Q) (n : Z)
| X1 (a : nat) (t : Q).   (* the operation ended without append (timeout / error / cancellation) *)

(* ghost-instrumented state:
     g_T   all bytes ever appended           g_C   credit folded away by resets
     g_r   number of resets                  g_t0  first recorded start (window origin)
     g_snap a = g_T when actor a was last evaluated
     g_G   largest snapshot among I/Os that have started
     g_hi a / g_last a : g_T right after a's last completed I/O, and that I/O's size *)
Record gst := mkG {
  g_th : throttle; g_stat : nat -> status; g_clock : Q;
  g_T : Z; g_C : Z; g_r : Z; g_t0 : option Q; g_G : Z;
  g_snap : nat -> Z; g_hi : nat -> Z; g_last : nat -> Z }.

Definition ginit (th : throttle) (c : Q) : gst :=
  mkG th (fun _ => Idle) c 0 0 0 None 0 (fun _ => 0%Z) (fun _ => 0%Z) (fun _ => 0%Z).

Definition gstep (g : gst) (e : ev1) : option gst :=
  match e with
  | E1 a t w =>
      match g_stat g a with
      | Idle =>
          if Qle_bool (g_clock g) t && Qle_bool (wake (g_th g) t) w
          then Some (mkG (g_th g) (updf (g_stat g) a (Evaluated w)) t
                         (g_T g) (g_C g) (g_r g) (g_t0 g) (g_G g)
                         (updf (g_snap g) a (g_T g)) (g_hi g) (g_last g))
          else None
      | _ => None
      end
  | S1 a t =>
      match g_stat g a with
      | Evaluated w =>
          if Qle_bool (g_clock g) t && Qle_bool w t
          then Some (mkG (g_th g) (updf (g_stat g) a (Started t)) t
                         (g_T g) (g_C g) (g_r g) (g_t0 g) (Z.max (g_G g) (g_snap g a))
                         (g_snap g) (g_hi g) (g_last g))
          else None
      | _ => None
      end
  | D1 a t n =>
      match g_stat g a with
      | Started ts =>
          if Qle_bool (g_clock g) t && (0 <=? n)%Z
          then Some (mkG (append n ts (g_th g)) (updf (g_stat g) a Idle) t
                         (g_T g + n)
                         (match credit (g_th g) ts with Some c => (g_C g + c)%Z | None => g_C g end)
                         (match credit (g_th g) ts with Some _ => (g_r g + 1)%Z | None => g_r g end)
                         (match g_t0 g with Some z => Some z | None => Some ts end)
                         (g_G g) (g_snap g)
                         (updf (g_hi g) a (g_T g + n)%Z) (updf (g_last g) a n))
          else None
      | _ => None
      end
  | X1 a t =>
      match g_stat g a with
      | Idle => None
      | _ =>
          if Qle_bool (g_clock g) t
          then Some (mkG (g_th g) (updf (g_stat g) a Idle) t
                         (g_T g) (g_C g) (g_r g) (g_t0 g) (g_G g)
                         (g_snap g) (g_hi g) (g_last g))
          else None
      end
  end.

Fixpoint grun (g : gst) (tr : list ev1) : option gst :=
  match tr with
  | [] => Some g
  | e :: r => match gstep g e with Some g' => grun g' r | None => None end
  end.

Lemma grun_app : forall tr1 tr2 g,
  grun g (tr1 ++ tr2) = match grun g tr1 with Some g' => grun g' tr2 | None => None end.
Proof.
  induction tr1 as [|e tr1 IH]; intros tr2 g; cbn [grun app]; [reflexivity|].
  destruct (gstep g e); [apply IH|reflexivity].
Qed.

Definition half (r : Z) : Q := (1 # 2) * inject_Z r.

Definition not_started (s : status) : Prop := forall ts, s <> Started ts.

Section One.
Variables L R : Q.
Hypothesis HL : 0 < L.
Hypothesis HR : 0 <= R.

Record Inv (g : gst) : Prop := mkInv {
  i_lim : limit (g_th g) = Some L;
  i_rr : reset_rate (g_th g) = R;
  i_sum : sum (g_th g) = (g_T g - g_C g)%Z;
  i_r0 : (0 <= g_r g)%Z;
  i_G : (0 <= g_G g <= g_T g)%Z;
  i_origin :
    match start (g_th g), g_t0 g with
    | None, None => g_T g = 0%Z /\ g_C g = 0%Z /\ g_r g = 0%Z
    | Some s, Some z =>
        z <= s /\ s <= g_clock g /\
        inject_Z (g_C g) - L * (s - z) <= half (g_r g) /\
        L * (s - z) - inject_Z (g_C g) <= half (g_r g) /\
        inject_Z (g_r g) * R <= s - z
    | _, _ => False
    end;
  i_snap : forall a, (0 <= g_snap g a <= g_T g)%Z;
  i_hi : forall a, (0 <= g_last g a <= g_hi g a)%Z /\ (g_hi g a <= g_T g)%Z;
  i_pend : forall a, g_stat g a <> Idle -> (g_hi g a <= g_snap g a)%Z;
  i_started : forall a ts, g_stat g a = Started ts ->
      (g_snap g a <= g_G g)%Z /\ ts <= g_clock g;
  i_eval : forall a w, g_stat g a = Evaluated w ->
      g_snap g a = 0%Z \/
      exists z, g_t0 g = Some z /\ inject_Z (g_snap g a) <= L * (w - z) + half (g_r g);
  i_Gcert :
      g_G g = 0%Z \/
      exists z, g_t0 g = Some z /\ inject_Z (g_G g) <= L * (g_clock g - z) + half (g_r g);
  i_cover : forall x, (g_G g < x <= g_T g)%Z ->
      exists a, not_started (g_stat g a) /\ (g_hi g a - g_last g a < x <= g_hi g a)%Z
}.

Definition fresh_ok (th : throttle) : Prop :=
  limit th = Some L /\ reset_rate th = R /\ start th = None /\ sum th = 0%Z.

Lemma Inv_init : forall th c, fresh_ok th -> Inv (ginit th c).
Proof.
  intros th c (Hl & Hr & Hs & Hsum).
  constructor; cbn [ginit g_th g_stat g_clock g_T g_C g_r g_t0 g_G g_snap g_hi g_last];
    try assumption; try lia.
  - rewrite Hs. auto.
  - intros a ts H. discriminate.
Qed.

Lemma pos_lim : forall g, Inv g -> positive_limit (g_th g) = Some L.
Proof. intros g I. apply positive_limit_intro; [apply (i_lim g I)|exact HL]. Qed.

Lemma half_mono : forall r1 r2, (r1 <= r2)%Z -> half r1 <= half r2.
Proof.
  intros r1 r2 H. unfold half. apply mul_le_mono; [reflexivity|].
  rewrite <- Zle_Qle. exact H.
Qed.

Lemma half_succ : forall r, half (r + 1) == half r + (1 # 2).
Proof. intros r. unfold half. rewrite inject_Z_plus. change (inject_Z 1) with 1. lra. Qed.

Lemma half_nonneg : forall r, (0 <= r)%Z -> 0 <= half r.
Proof.
  intros r H. unfold half. rewrite Zle_Qle in H. change (inject_Z 0) with 0 in H. lra.
Qed.

(* --- preservation, one event kind at a time *)

Lemma Inv_E1 : forall g a t w g', Inv g -> gstep g (E1 a t w) = Some g' -> Inv g'.
Proof.
  intros g a t w g' I H. cbn [gstep] in H.
  destruct (g_stat g a) eqn:Hst; try discriminate.
  destruct (Qle_bool (g_clock g) t && Qle_bool (wake (g_th g) t) w) eqn:Hg; [|discriminate].
  apply andb_true_iff in Hg. destruct Hg as [Hck Hw].
  apply Qle_bool_iff in Hck. apply Qle_bool_iff in Hw.
  inversion H; subst g'; clear H.
  pose proof (pos_lim g I) as Hp.
  destruct I as [Il Ir Is Ir0 IG Io Isn Ih Ip Ist Ie Igc Ic].
  constructor; cbn [g_th g_stat g_clock g_T g_C g_r g_t0 g_G g_snap g_hi g_last];
    try assumption.
  - (* origin *)
    destruct (start (g_th g)) as [s|], (g_t0 g) as [z|]; try assumption.
    destruct Io as (A & B & C & D & E). repeat split; try assumption. lra.
  - (* snap *)
    intros b. unfold updf. destruct (Nat.eqb b a); [lia|apply Isn].
  - (* pend *)
    intros b Hb. unfold updf in *. destruct (Nat.eqb b a) eqn:Eb.
    + apply Nat.eqb_eq in Eb. subst b. apply (Ih a).
    + apply Ip. exact Hb.
  - (* started *)
    intros b ts Hb. unfold updf in *. destruct (Nat.eqb b a) eqn:Eb; [discriminate|].
    destruct (Ist b ts Hb) as [A B]. split; [exact A|lra].
  - (* eval *)
    intros b w0 Hb. unfold updf in *. destruct (Nat.eqb b a) eqn:Eb.
    + inversion Hb; subst w0; clear Hb.
      destruct (start (g_th g)) as [s|] eqn:Hs, (g_t0 g) as [z|] eqn:Hz; try contradiction.
      * right. exists z. split; [reflexivity|].
        destruct Io as (A & B & C & D & E).
        pose proof (wake_ge_end (g_th g) t L s Hp Hs) as Hend.
        assert (Hsum : inject_Z (sum (g_th g)) <= L * (w - s)).
        { apply div_le; [exact HL|]. lra. }
        rewrite Is in Hsum. unfold Z.sub in Hsum.
        rewrite inject_Z_plus, inject_Z_opp in Hsum. lra.
      * left. destruct Io as (A & _). exact A.
    + apply Ie. exact Hb.
  - (* Gcert *)
    destruct Igc as [A|[z [A B]]]; [left; exact A|right]. exists z. split; [exact A|].
    assert (L * (g_clock g - z) <= L * (t - z)) by (apply mul_le_mono; [exact HL|lra]). lra.
  - (* cover *)
    intros x Hx. destruct (Ic x Hx) as [b [Hb1 Hb2]]. exists b. split; [|exact Hb2].
    unfold updf. destruct (Nat.eqb b a); [|exact Hb1]. intros ts. discriminate.
Qed.

Lemma Inv_S1 : forall g a t g', Inv g -> gstep g (S1 a t) = Some g' -> Inv g'.
Proof.
  intros g a t g' I H. cbn [gstep] in H.
  destruct (g_stat g a) as [|w|] eqn:Hst; try discriminate.
  destruct (Qle_bool (g_clock g) t && Qle_bool w t) eqn:Hg; [|discriminate].
  apply andb_true_iff in Hg. destruct Hg as [Hck Hw].
  apply Qle_bool_iff in Hck. apply Qle_bool_iff in Hw.
  inversion H; subst g'; clear H.
  destruct I as [Il Ir Is Ir0 IG Io Isn Ih Ip Ist Ie Igc Ic].
  pose proof (Isn a) as Hsa.
  constructor; cbn [g_th g_stat g_clock g_T g_C g_r g_t0 g_G g_snap g_hi g_last];
    try assumption.
  - lia.
  - destruct (start (g_th g)) as [s|], (g_t0 g) as [z|]; try assumption.
    destruct Io as (A & B & C & D & E). repeat split; try assumption. lra.
  - intros b Hb. unfold updf in *. destruct (Nat.eqb b a) eqn:Eb.
    + apply Nat.eqb_eq in Eb. subst b. apply Ip. congruence.
    + apply Ip. exact Hb.
  - intros b ts Hb. unfold updf in *. destruct (Nat.eqb b a) eqn:Eb.
    + apply Nat.eqb_eq in Eb. subst b. inversion Hb; subst ts. split; [lia|apply Qle_refl].
    + destruct (Ist b ts Hb) as [A B]. split; [lia|lra].
  - intros b w0 Hb. unfold updf in *. destruct (Nat.eqb b a) eqn:Eb; [discriminate|].
    apply Ie. exact Hb.
  - (* Gcert: the new G is the old one or a's snapshot, certified by its wake time w <= t *)
    destruct (Z.max_spec (g_G g) (g_snap g a)) as [[Hlt Hm]|[Hge Hm]]; rewrite Hm.
    + destruct (Ie a w Hst) as [A|[z [A B]]]; [left; exact A|right].
      exists z. split; [exact A|].
      assert (L * (w - z) <= L * (t - z)) by (apply mul_le_mono; [exact HL|lra]). lra.
    + destruct Igc as [A|[z [A B]]]; [left; exact A|right]. exists z. split; [exact A|].
      assert (L * (g_clock g - z) <= L * (t - z)) by (apply mul_le_mono; [exact HL|lra]). lra.
  - (* cover *)
    intros x Hx. assert (Hx' : (g_G g < x <= g_T g)%Z) by lia.
    destruct (Ic x Hx') as [b [Hb1 Hb2]]. exists b. split; [|exact Hb2].
    unfold updf. destruct (Nat.eqb b a) eqn:Eb; [|exact Hb1].
    apply Nat.eqb_eq in Eb. subst b. exfalso.
    assert (g_hi g a <= g_snap g a)%Z by (apply Ip; congruence). lia.
Qed.

Lemma Inv_D1 : forall g a t n g', Inv g -> gstep g (D1 a t n) = Some g' -> Inv g'.
Proof.
  intros g a t n g' I H. cbn [gstep] in H.
  destruct (g_stat g a) as [|w|ts] eqn:Hst; try discriminate.
  destruct (Qle_bool (g_clock g) t && (0 <=? n)%Z) eqn:Hg; [|discriminate].
  apply andb_true_iff in Hg. destruct Hg as [Hck Hn].
  apply Qle_bool_iff in Hck. apply Z.leb_le in Hn.
  inversion H; subst g'; clear H.
  pose proof (pos_lim g I) as Hp.
  destruct I as [Il Ir Is Ir0 IG Io Isn Ih Ip Ist Ie Igc Ic].
  destruct (Ist a ts Hst) as [HsG Htsck].
  assert (Happ : forall th', th' = append n ts (g_th g) ->
            limit th' = Some L /\ reset_rate th' = R).
  { intros th' ->. rewrite append_limit, append_reset_rate. split; assumption. }
  constructor; cbn [g_th g_stat g_clock g_T g_C g_r g_t0 g_G g_snap g_hi g_last].
  - apply (Happ _ eq_refl).
  - apply (Happ _ eq_refl).
  - (* sum = T - C *)
    unfold append, credit. rewrite Hp.
    destruct (Qlt_bool (reset_rate (g_th g)) _); cbn [sum]; lia.
  - unfold credit. rewrite Hp. destruct (Qlt_bool _ _); lia.
  - lia.
  - (* origin *)
    unfold append, credit. rewrite Hp, Ir.
    destruct (start (g_th g)) as [s|] eqn:Hs, (g_t0 g) as [z|] eqn:Hz; try contradiction.
    + destruct Io as (A & B & C & D & E).
      destruct (Qlt_bool R (ts - s)) eqn:Hreset; cbn [start].
      * apply Qlt_bool_true in Hreset.
        pose proof (round_half_even_upper ((ts - s) * L)) as Hu.
        pose proof (round_half_even_lower ((ts - s) * L)) as Hl.
        rewrite inject_Z_plus. rewrite !half_succ.
        rewrite inject_Z_plus. change (inject_Z 1) with 1.
        repeat split; lra.
      * repeat split; try assumption. lra.
    + destruct Io as (A & B & C).
      assert (Hno : Qlt_bool R (ts - ts) = false).
      { apply Qlt_bool_false. lra. }
      rewrite Hno. cbn [start]. rewrite B, C. unfold half. change (inject_Z 0) with 0.
      repeat split; lra.
  - intros b. specialize (Isn b). lia.
  - intros b. unfold updf. destruct (Nat.eqb b a); [lia|]. specialize (Ih b). lia.
  - intros b Hb. unfold updf in *. destruct (Nat.eqb b a) eqn:Eb; [congruence|].
    apply Ip. exact Hb.
  - intros b ts0 Hb. unfold updf in *. destruct (Nat.eqb b a) eqn:Eb; [discriminate|].
    destruct (Ist b ts0 Hb) as [A B]. split; [exact A|lra].
  - (* eval: t0 only goes from None to Some when T was 0; r only grows *)
    intros b w0 Hb. unfold updf in Hb. destruct (Nat.eqb b a) eqn:Eb; [discriminate|].
    destruct (Ie b w0 Hb) as [A|[z [A B]]]; [left; exact A|right].
    exists z. rewrite A. split; [reflexivity|].
    unfold credit. rewrite Hp. destruct (Qlt_bool _ _); [|exact B].
    rewrite half_succ. lra.
  - (* Gcert *)
    destruct Igc as [A|[z [A B]]]; [left; exact A|right].
    exists z. rewrite A. split; [reflexivity|].
    assert (L * (g_clock g - z) <= L * (t - z)) by (apply mul_le_mono; [exact HL|lra]).
    unfold credit. rewrite Hp. destruct (Qlt_bool _ _); [rewrite half_succ|]; lra.
  - (* cover: a's old block lies below its snapshot <= G; the new block covers (T, T+n] *)
    intros x Hx. destruct (Z_le_gt_dec x (g_T g)) as [Hle|Hgt].
    + assert (Hx' : (g_G g < x <= g_T g)%Z) by lia.
      destruct (Ic x Hx') as [b [Hb1 Hb2]]. exists b.
      unfold updf. destruct (Nat.eqb b a) eqn:Eb.
      * apply Nat.eqb_eq in Eb. subst b. exfalso. apply (Hb1 ts). exact Hst.
      * split; assumption.
    + exists a. unfold updf. rewrite Nat.eqb_refl. split; [intros ts0; discriminate|lia].
Qed.

(* an aborted operation changes no byte count: only the actor's status and the clock *)
Lemma Inv_X1 : forall g a t g', Inv g -> gstep g (X1 a t) = Some g' -> Inv g'.
Proof.
  intros g a t g' I H. cbn [gstep] in H.
  assert (H' : g_stat g a <> Idle /\ Qle_bool (g_clock g) t = true /\
               g' = mkG (g_th g) (updf (g_stat g) a Idle) t
                        (g_T g) (g_C g) (g_r g) (g_t0 g) (g_G g)
                        (g_snap g) (g_hi g) (g_last g)).
  { destruct (g_stat g a); try discriminate;
      (destruct (Qle_bool (g_clock g) t); [|discriminate]); inversion H;
      (split; [discriminate|split; reflexivity]). }
  clear H. destruct H' as (Hst & Hck & ->). apply Qle_bool_iff in Hck.
  destruct I as [Il Ir Is Ir0 IG Io Isn Ih Ip Ist Ie Igc Ic].
  constructor; cbn [g_th g_stat g_clock g_T g_C g_r g_t0 g_G g_snap g_hi g_last];
    try assumption.
  - destruct (start (g_th g)) as [s|], (g_t0 g) as [z|]; try assumption.
    destruct Io as (A & B & C & D & E). repeat split; try assumption. lra.
  - intros b Hb. unfold updf in *. destruct (Nat.eqb b a) eqn:Eb; [congruence|].
    apply Ip. exact Hb.
  - intros b ts Hb. unfold updf in *. destruct (Nat.eqb b a) eqn:Eb; [discriminate|].
    destruct (Ist b ts Hb) as [A B]. split; [exact A|lra].
  - intros b w0 Hb. unfold updf in *. destruct (Nat.eqb b a) eqn:Eb; [discriminate|].
    apply Ie. exact Hb.
  - destruct Igc as [A|[z [A B]]]; [left; exact A|right]. exists z. split; [exact A|].
    assert (L * (g_clock g - z) <= L * (t - z)) by (apply mul_le_mono; [exact HL|lra]). lra.
  - intros x Hx. destruct (Ic x Hx) as [b [Hb1 Hb2]]. exists b. split; [|exact Hb2].
    unfold updf. destruct (Nat.eqb b a); [|exact Hb1]. intros ts. discriminate.
Qed.

Theorem Inv_step : forall g e g', Inv g -> gstep g e = Some g' -> Inv g'.
Proof.
  intros g [a t w|a t|a t n|a t] g' I H.
  - eapply Inv_E1; eassumption.
  - eapply Inv_S1; eassumption.
  - eapply Inv_D1; eassumption.
  - eapply Inv_X1; eassumption.
Qed.

Theorem Inv_run : forall tr g g', Inv g -> grun g tr = Some g' -> Inv g'.
Proof.
  induction tr as [|e tr IH]; intros g g' I H; cbn [grun] in H.
  - inversion H. subst. exact I.
  - destruct (gstep g e) as [g1|] eqn:E; [|discriminate].
    eapply IH; [eapply Inv_step; eassumption|exact H].
Qed.

(* --- the theorems about one throttle *)

(* fold_invariant: after any trace, the memory is exactly "all bytes minus the folded credit",
   and the folded credit is the rate times the window shift, up to 1/2 per reset *)
Theorem fold_invariant : forall th c tr g,
  fresh_ok th -> grun (ginit th c) tr = Some g ->
  sum (g_th g) = (g_T g - g_C g)%Z /\
  (forall s z, start (g_th g) = Some s -> g_t0 g = Some z ->
     Qabs (inject_Z (g_C g) - L * (s - z)) <= half (g_r g)) /\
  (start (g_th g) = None -> g_T g = 0%Z).
Proof.
  intros th c tr g Hf Hr.
  pose proof (Inv_run tr _ _ (Inv_init th c Hf) Hr) as I.
  split; [apply (i_sum g I)|]. split.
  - intros s z Hs Hz. pose proof (i_origin g I) as Io. rewrite Hs, Hz in Io.
    destruct Io as (A & B & C & D & E). apply Qabs_Qle_condition. split; lra.
  - intros Hs. pose proof (i_origin g I) as Io. rewrite Hs in Io.
    destruct (g_t0 g); [contradiction|]. tauto.
Qed.

(* the number of resets is bounded by elapsed time / reset period *)
Theorem resets_bounded : forall th c tr g s z t,
  fresh_ok th -> grun (ginit th c) tr = Some g ->
  start (g_th g) = Some s -> g_t0 g = Some z -> g_clock g <= t ->
  inject_Z (g_r g) * R <= t - z /\ z <= s /\ s <= g_clock g.
Proof.
  intros th c tr g s z t Hf Hr Hs Hz Ht.
  pose proof (Inv_run tr _ _ (Inv_init th c Hf) Hr) as I.
  pose proof (i_origin g I) as Io. rewrite Hs, Hz in Io.
  destruct Io as (A & B & C & D & E). repeat split; lra.
Qed.

(* scheduled_within_rate: when an I/O starts at time t, the bytes accounted when it was
   evaluated are within L*(t - t0) + r/2 *)
Theorem scheduled_within_rate : forall th c tr a t g z,
  fresh_ok th -> grun (ginit th c) (tr ++ [S1 a t]) = Some g ->
  g_t0 g = Some z ->
  g_stat g a = Started t /\
  inject_Z (g_snap g a) <= L * (t - z) + half (g_r g).
Proof.
  intros th c tr a t g z Hf Hr Hz.
  rewrite grun_app in Hr. destruct (grun (ginit th c) tr) as [g0|] eqn:E0; [|discriminate].
  pose proof (Inv_run tr _ _ (Inv_init th c Hf) E0) as I.
  cbn [grun] in Hr. destruct (gstep g0 (S1 a t)) as [g1|] eqn:E1; [|discriminate].
  inversion Hr; subst g1; clear Hr.
  cbn [gstep] in E1. destruct (g_stat g0 a) as [|w|] eqn:Hst; try discriminate.
  destruct (Qle_bool (g_clock g0) t && Qle_bool w t) eqn:Hg; [|discriminate].
  apply andb_true_iff in Hg. destruct Hg as [Hck Hw].
  apply Qle_bool_iff in Hck. apply Qle_bool_iff in Hw.
  inversion E1; subst g; clear E1. cbn [g_stat g_snap g_r g_t0] in *.
  split; [apply updf_same|].
  destruct (i_eval g0 I a w Hst) as [A|[z' [A B]]].
  - rewrite A. change (inject_Z 0) with 0.
    pose proof (i_origin g0 I) as Io. rewrite Hz in Io.
    destruct (start (g_th g0)) as [s|]; [|contradiction].
    destruct Io as (O1 & O2 & _).
    assert (L * 0 <= L * (t - z)) by (apply mul_le_mono; [exact HL|lra]).
    pose proof (half_nonneg _ (i_r0 g0 I)). lra.
  - rewrite Hz in A. inversion A; subst z'.
    assert (L * (w - z) <= L * (t - z)) by (apply mul_le_mono; [exact HL|lra]). lra.
Qed.

(* no_excess_delay: a sleeping wait ends exactly at start + sum/L, and at that instant the
   accounted bytes are at least L*(wake - t0) - r/2: waking any earlier than r/L before would
   already exceed the rate *)
Theorem no_excess_delay : forall th c tr g now,
  fresh_ok th -> grun (ginit th c) tr = Some g ->
  now < wake (g_th g) now ->
  exists s z, start (g_th g) = Some s /\ g_t0 g = Some z /\
    wake (g_th g) now == s + inject_Z (sum (g_th g)) / L /\
    L * (wake (g_th g) now - z) - half (g_r g) <= inject_Z (g_T g).
Proof.
  intros th c tr g now Hf Hr Hw.
  pose proof (Inv_run tr _ _ (Inv_init th c Hf) Hr) as I.
  destruct (wake_sleeps_exact _ _ Hw) as (l & s & Hp & Hs & He).
  rewrite (pos_lim g I) in Hp. inversion Hp; subst l.
  pose proof (i_origin g I) as Io. rewrite Hs in Io.
  destruct (g_t0 g) as [z|] eqn:Hz; [|contradiction].
  exists s, z. split; [exact Hs|]. split; [reflexivity|]. split; [exact He|].
  destruct Io as (A & B & C & D & E). rewrite He.
  pose proof (mul_div (inject_Z (sum (g_th g))) L HL) as Hm.
  rewrite (i_sum g I) in *. unfold Z.sub in *. rewrite inject_Z_plus, inject_Z_opp in *.
  lra.
Qed.

(* ------------------------------------------------------------------ Part 4 *)

Fixpoint total (l : list (Z * Z)) : Z :=
  match l with
  | [] => 0%Z
  | p :: r => (snd p - fst p + total r)%Z
  end.

Lemma total_app : forall l1 l2, total (l1 ++ l2) = (total l1 + total l2)%Z.
Proof. induction l1 as [|p l1 IH]; intros l2; cbn [total app]; [lia|rewrite IH; lia]. Qed.

Lemma total_nonneg : forall l, Forall (fun p => (fst p <= snd p)%Z) l -> (0 <= total l)%Z.
Proof.
  induction l as [|p l IH]; intros H; cbn [total]; [lia|].
  inversion H; subst. specialize (IH H3). lia.
Qed.

(* an integer interval (a, b] covered by blocks (lo, hi] is no longer than their total length *)
Lemma cover_sum : forall n l a b,
  length l = n ->
  Forall (fun p => (fst p <= snd p)%Z) l ->
  (forall x, (a < x <= b)%Z -> exists p, In p l /\ (fst p < x <= snd p)%Z) ->
  (b - a <= total l)%Z.
Proof.
  induction n as [|n IH]; intros l a b Hlen Hwf Hcov.
  - destruct l; [|discriminate]. cbn [total].
    destruct (Z_lt_le_dec a b) as [Hab|Hab]; [|lia].
    destruct (Hcov b ltac:(lia)) as [p [[] _]].
  - destruct (Z_lt_le_dec a b) as [Hab|Hab]; [|pose proof (total_nonneg l Hwf); lia].
    destruct (Hcov b ltac:(lia)) as [p [Hin Hp]].
    destruct (in_split _ _ Hin) as [l1 [l2 Hl]]. subst l.
    rewrite total_app. cbn [total].
    assert (Hwf' : Forall (fun p => (fst p <= snd p)%Z) (l1 ++ l2)).
    { apply Forall_app in Hwf. destruct Hwf as [W1 W2]. inversion W2; subst.
      apply Forall_app. split; assumption. }
    pose proof (total_nonneg _ Hwf') as Hnn. rewrite total_app in Hnn.
    destruct (Z_lt_le_dec a (fst p)) as [Hlo|Hlo]; [|lia].
    assert (Hrest : (fst p - a <= total (l1 ++ l2))%Z).
    { apply (IH (l1 ++ l2) a (fst p)).
      - rewrite app_length in *. cbn [length] in Hlen. lia.
      - exact Hwf'.
      - intros x Hx. destruct (Hcov x ltac:(lia)) as [q [Hq Hqx]].
        exists q. split; [|exact Hqx].
        apply in_app_or in Hq. apply in_or_app.
        destruct Hq as [Hq|[Hq|Hq]]; [left; exact Hq| |right; exact Hq].
        subst q. lia. }
    rewrite total_app in Hrest. lia.
Qed.

Definition is_started (s : status) : bool := match s with Started _ => true | _ => false end.

Lemma not_started_iff : forall s, not_started s <-> is_started s = false.
Proof.
  intros s. unfold not_started. destruct s; cbn [is_started]; split; intros H; try reflexivity;
    try (intros ts; discriminate); try discriminate.
  exfalso. apply (H ts). reflexivity.
Qed.

(* the last completed block of every actor below k that has no I/O in flight *)
Fixpoint sum_last (g : gst) (k : nat) : Z :=
  match k with
  | O => 0%Z
  | S k' => (sum_last g k' + (if is_started (g_stat g k') then 0 else g_last g k'))%Z
  end.

Definition block_of (g : gst) (a : nat) : Z * Z :=
  if is_started (g_stat g a) then (0%Z, 0%Z) else ((g_hi g a - g_last g a)%Z, g_hi g a).

Lemma total_blocks : forall g k, total (map (block_of g) (seq 0 k)) = sum_last g k.
Proof.
  intros g. induction k as [|k IH]; [reflexivity|].
  rewrite seq_S, map_app, total_app, IH. cbn [map total plus sum_last].
  unfold block_of. destruct (is_started (g_stat g k)); cbn [fst snd]; lia.
Qed.

Lemma above_certified : forall g k, Inv g ->
  (forall a, (k <= a)%nat -> g_last g a = 0%Z) ->
  (g_T g - g_G g <= sum_last g k)%Z.
Proof.
  intros g k I Hk. rewrite <- total_blocks.
  apply (cover_sum (length (map (block_of g) (seq 0 k))) _ _ _ eq_refl).
  - apply Forall_forall. intros p Hp. apply in_map_iff in Hp. destruct Hp as [a [Ha _]].
    subst p. unfold block_of. destruct (is_started (g_stat g a)); cbn [fst snd]; [lia|].
    pose proof (i_hi g I a). lia.
  - intros x Hx. destruct (i_cover g I x Hx) as [a [Hns Hax]].
    exists (block_of g a). split.
    + apply in_map. apply in_seq.
      destruct (le_lt_dec k a) as [Hka|Hka]; [|lia].
      rewrite (Hk a Hka) in Hax. lia.
    + unfold block_of. apply not_started_iff in Hns. rewrite Hns. cbn [fst snd]. exact Hax.
Qed.

Definition actor_of_ev1 (e : ev1) : nat :=
  match e with E1 a _ _ => a | S1 a _ => a | D1 a _ _ => a | X1 a _ => a end.

Lemma last_untouched : forall tr g g' k,
  grun g tr = Some g' -> Forall (fun e => (actor_of_ev1 e < k)%nat) tr ->
  forall a, (k <= a)%nat -> g_last g' a = g_last g a.
Proof.
  induction tr as [|e tr IH]; intros g g' k Hr Hall a Ha; cbn [grun] in Hr.
  - inversion Hr. reflexivity.
  - destruct (gstep g e) as [g1|] eqn:E; [|discriminate].
    inversion Hall as [|? ? He Hall']; subst.
    rewrite (IH g1 g' k Hr Hall' a Ha).
    destruct e as [b t w|b t|b t n|b t]; cbn [gstep actor_of_ev1] in *;
      destruct (g_stat g b); try discriminate.
    + destruct (_ && _); [|discriminate]. inversion E. reflexivity.
    + destruct (_ && _); [|discriminate]. inversion E. reflexivity.
    + destruct (_ && _); [|discriminate]. inversion E. cbn [g_last].
      apply updf_other. lia.
    + destruct (Qle_bool _ _); [|discriminate]. inversion E. reflexivity.
    + destruct (Qle_bool _ _); [|discriminate]. inversion E. reflexivity.
Qed.

(* shared_bound: k actors share the throttle.  At any time t not before the last event, the bytes
   completed so far are within L*(t - t0) + r/2 plus ONE block per actor: the last completed
   block of each actor that has no I/O in flight (an actor with an I/O in flight contributes
   nothing completed beyond the bound; its in-flight block is not yet counted in g_T). *)
Theorem shared_bound : forall th c tr g k z t,
  fresh_ok th -> grun (ginit th c) tr = Some g ->
  Forall (fun e => (actor_of_ev1 e < k)%nat) tr ->
  g_t0 g = Some z -> g_clock g <= t ->
  inject_Z (g_T g) <= L * (t - z) + half (g_r g) + inject_Z (sum_last g k).
Proof.
  intros th c tr g k z t Hf Hr Hall Hz Ht.
  pose proof (Inv_run tr _ _ (Inv_init th c Hf) Hr) as I.
  assert (Hk : forall a, (k <= a)%nat -> g_last g a = 0%Z).
  { intros a Ha. rewrite (last_untouched tr _ _ k Hr Hall a Ha). reflexivity. }
  pose proof (above_certified g k I Hk) as Hab.
  rewrite Zle_Qle in Hab. unfold Z.sub in Hab. rewrite inject_Z_plus, inject_Z_opp in Hab.
  assert (Hmono : L * (g_clock g - z) <= L * (t - z)) by (apply mul_le_mono; [exact HL|lra]).
  destruct (i_Gcert g I) as [A|[z' [A B]]].
  - rewrite A in Hab. change (inject_Z 0) with 0 in Hab.
    pose proof (i_origin g I) as Io. rewrite Hz in Io.
    destruct (start (g_th g)) as [s|]; [|contradiction].
    destruct Io as (O1 & O2 & _).
    assert (L * 0 <= L * (g_clock g - z)) by (apply mul_le_mono; [exact HL|lra]).
    pose proof (half_nonneg _ (i_r0 g I)). lra.
  - rewrite Hz in A. inversion A; subst z'. lra.
Qed.

(* one stream: the bound of the property with the single block in flight *)
Corollary single_stream_bound : forall th c tr g z t,
  fresh_ok th -> grun (ginit th c) tr = Some g ->
  Forall (fun e => actor_of_ev1 e = O) tr ->
  g_t0 g = Some z -> g_clock g <= t ->
  inject_Z (g_T g) <= L * (t - z) + half (g_r g)
                     + inject_Z (if is_started (g_stat g O) then 0 else g_last g O).
Proof.
  intros th c tr g z t Hf Hr Hall Hz Ht.
  pose proof (shared_bound th c tr g 1 z t Hf Hr) as H.
  cbn [sum_last] in H. rewrite Z.add_0_l in H. apply H; try assumption.
  eapply Forall_impl; [|exact Hall]. intros e He. cbn beta in He. lia.
Qed.

End One.

(* ------------------------------------------------------------------ Part 5 *)

Lemma length_upd : forall A (l : list A) k v, length (upd l k v) = length l.
Proof.
  induction l as [|x l IH]; intros k v; [reflexivity|].
  destruct k; cbn [upd length]; [reflexivity|rewrite IH; reflexivity].
Qed.

Lemma nth_upd_same : forall A (l : list A) k v d, (k < length l)%nat -> nth k (upd l k v) d = v.
Proof.
  induction l as [|x l IH]; intros k v d H; cbn [length] in H; [lia|].
  destruct k; cbn [upd nth]; [reflexivity|apply IH; lia].
Qed.

Lemma nth_upd_other : forall A (l : list A) k j v d, j <> k -> nth j (upd l k v) d = nth j l d.
Proof.
  induction l as [|x l IH]; intros k j v d H; [reflexivity|].
  destruct k, j; cbn [upd nth]; try reflexivity; [congruence|apply IH; congruence].
Qed.

Lemma nth_error_upd_same : forall A (l : list A) k v x,
  nth_error l k = Some x -> nth_error (upd l k v) k = Some v.
Proof.
  induction l as [|y l IH]; intros k v x H; destruct k; cbn [nth_error upd] in *;
    try discriminate; [reflexivity|eapply IH; exact H].
Qed.

Lemma nth_error_upd_other : forall A (l : list A) k j v,
  j <> k -> nth_error (upd l k v) j = nth_error l j.
Proof.
  induction l as [|y l IH]; intros k j v H; [reflexivity|].
  destruct k, j; cbn [upd nth_error]; try reflexivity; [congruence|apply IH; congruence].
Qed.

Lemma get_upd_same : forall st k v, (k < length st)%nat -> get (upd st k v) k = v.
Proof. intros. unfold get. apply nth_upd_same. assumption. Qed.

Lemma get_upd_other : forall st k j v, j <> k -> get (upd st k v) j = get st j.
Proof. intros. unfold get. apply nth_upd_other. assumption. Qed.

Lemma length_stream_append : forall ids store n t,
  length (stream_append store ids n t) = length store.
Proof.
  unfold stream_append. induction ids as [|i ids IH]; intros store n t; cbn [fold_left];
    [reflexivity|]. rewrite IH. apply length_upd.
Qed.

Lemma stream_append_notin : forall ids store n t k,
  ~ In k ids -> get (stream_append store ids n t) k = get store k.
Proof.
  unfold stream_append. induction ids as [|i ids IH]; intros store n t k H; cbn [fold_left];
    [reflexivity|].
  rewrite IH; [|intros Hin; apply H; right; exact Hin].
  apply get_upd_other. intros E. apply H. left. symmetry. exact E.
Qed.

Lemma stream_append_in : forall ids store n t k,
  NoDup ids -> In k ids -> (k < length store)%nat ->
  get (stream_append store ids n t) k = append n t (get store k).
Proof.
  unfold stream_append. induction ids as [|i ids IH]; intros store n t k Hnd Hin Hk;
    cbn [fold_left]; [destruct Hin|].
  inversion Hnd as [|? ? Hni Hnd']; subst.
  destruct Hin as [E|Hin].
  - subst i. fold (stream_append (upd store k (append n t (get store k))) ids n t).
    rewrite stream_append_notin; [|exact Hni]. apply get_upd_same. exact Hk.
  - rewrite IH; [|exact Hnd'|exact Hin|rewrite length_upd; exact Hk].
    rewrite get_upd_other; [reflexivity|]. intros E. subst i. contradiction.
Qed.

(* ThrottleStreamIO.wait as a maximum *)
Lemma fold_wake_ge_acc : forall store now ids acc,
  acc <= fold_left (fun acc k => let th := get store k in
                      if truthy_limit th then Qmax acc (wake th now) else acc) ids acc.
Proof.
  intros store now. induction ids as [|i ids IH]; intros acc; cbn [fold_left];
    [apply Qle_refl|].
  eapply Qle_trans; [|apply IH]. cbv zeta.
  destruct (truthy_limit (get store i)); [apply Q.le_max_l|apply Qle_refl].
Qed.

Lemma fold_wake_ge_elem : forall store now ids acc k,
  In k ids -> truthy_limit (get store k) = true ->
  wake (get store k) now <=
  fold_left (fun acc k => let th := get store k in
               if truthy_limit th then Qmax acc (wake th now) else acc) ids acc.
Proof.
  intros store now. induction ids as [|i ids IH]; intros acc k Hin Ht; [destruct Hin|].
  cbn [fold_left]. destruct Hin as [E|Hin].
  - subst i. cbv zeta. rewrite Ht. eapply Qle_trans; [|apply fold_wake_ge_acc]. apply Q.le_max_r.
  - apply IH; assumption.
Qed.

Lemma fold_wake_attained : forall store now ids acc,
  let r := fold_left (fun acc k => let th := get store k in
               if truthy_limit th then Qmax acc (wake th now) else acc) ids acc in
  r == acc \/ exists k, In k ids /\ truthy_limit (get store k) = true /\ r == wake (get store k) now.
Proof.
  intros store now. induction ids as [|i ids IH]; intros acc; cbn [fold_left].
  - left. reflexivity.
  - cbv zeta in *. destruct (truthy_limit (get store i)) eqn:Ht.
    + destruct (IH (Qmax acc (wake (get store i) now))) as [E|[k [Hk [Htk E]]]].
      * destruct (Q.max_spec acc (wake (get store i) now)) as [[_ Em]|[_ Em]].
        -- right. exists i. split; [left; reflexivity|]. split; [exact Ht|].
           rewrite E. exact Em.
        -- left. rewrite E. exact Em.
      * right. exists k. split; [right; exact Hk|]. split; assumption.
    + destruct (IH acc) as [E|[k [Hk [Htk E]]]]; [left; exact E|].
      right. exists k. split; [right; exact Hk|]. split; assumption.
Qed.

(* tightest_governs, part (a): the stream continues at the maximum of now and of the individual
   earliest times of its limited throttles (of that direction) -- never earlier than any of them,
   and exactly at one of them (or now) *)
Theorem stream_wake_is_max : forall store ids now,
  now <= stream_wake store ids now /\
  (forall k, In k ids -> wake (get store k) now <= stream_wake store ids now) /\
  (stream_wake store ids now == now \/
   exists k, In k ids /\ truthy_limit (get store k) = true /\
             stream_wake store ids now == wake (get store k) now).
Proof.
  intros store ids now. unfold stream_wake. split; [apply fold_wake_ge_acc|]. split.
  - intros k Hin. destruct (truthy_limit (get store k)) eqn:Ht.
    + apply fold_wake_ge_elem; assumption.
    + assert (Hoff : positive_limit (get store k) = None).
      { destruct (positive_limit (get store k)) eqn:Hp; [|reflexivity].
        rewrite (positive_truthy _ _ Hp) in Ht. discriminate. }
      rewrite (wake_off _ _ Hoff). apply fold_wake_ge_acc.
  - apply fold_wake_attained.
Qed.

(* off_is_free for a stream: no throttle of THIS direction has a positive limit (None, 0, or limits
   only on the opposite direction's objects) -> the stream continues at `now`, syntactically *)
Theorem stream_wake_off : forall store ids now,
  (forall k, In k ids -> positive_limit (get store k) = None) ->
  stream_wake store ids now = now.
Proof.
  intros store ids now. unfold stream_wake.
  induction ids as [|i ids IH]; intros H; cbn [fold_left]; [reflexivity|].
  cbv zeta. rewrite (wake_off _ _ (H i (or_introl eq_refl))).
  assert (E : Qmax now now = now).
  { unfold Qmax, GenericMinMax.gmax. destruct (now ?= now); reflexivity. }
  destruct (truthy_limit (get store i)); [rewrite E|];
    apply IH; intros k Hk; apply H; right; exact Hk.
Qed.

(* --- every throttle k of the system sees a single-throttle run (Part 3) *)

Definition admin_free (k : nat) (e : event) : Prop :=
  match e with SetLimit k' _ => k' <> k | CloneAll => False | _ => True end.

(* distinct objects under the keys of one dict (what the wiring facts establish) *)
Definition wired (actors : list actor) : Prop := Forall (fun ac => NoDup (ids_of ac)) actors.

Definition participates (actors : list actor) (k a : nat) : Prop :=
  exists ac, nth_error actors a = Some ac /\ In k (ids_of ac).

Lemma participates_dec : forall actors k a,
  {participates actors k a} + {~ participates actors k a}.
Proof.
  intros actors k a. unfold participates. destruct (nth_error actors a) as [ac|].
  - destruct (in_dec Nat.eq_dec k (ids_of ac)) as [Hin|Hni].
    + left. exists ac. split; [reflexivity|exact Hin].
    + right. intros [ac' [E H]]. inversion E; subst. contradiction.
  - right. intros [ac' [E _]]. discriminate.
Qed.

Record rel (actors : list actor) (k : nat) (st : sys) (g : gst) : Prop := mkRel {
  r_len : (k < length (s_store st))%nat;
  r_th : g_th g = get (s_store st) k;
  r_clock : g_clock g <= s_clock st;
  r_stat : forall a, participates actors k a -> nth_error (s_stat st) a = Some (g_stat g a) }.

Lemma sim_eval_in : forall actors k st g a t st',
  rel actors k st g -> step actors st (Eval a t) = Some st' -> participates actors k a ->
  exists w g', gstep g (E1 a t w) = Some g' /\ rel actors k st' g'.
Proof.
  intros actors k st g a t st' [Rl Rt Rc Rs] Hstep Hpart.
  pose proof (Rs a Hpart) as Hsa. destruct Hpart as [ac [Hac Hin]].
  cbn [step] in Hstep. rewrite Hac, Hsa in Hstep.
  destruct (g_stat g a) eqn:Hg; try discriminate.
  destruct (Qle_bool (s_clock st) t) eqn:Hck; [|discriminate].
  inversion Hstep; subst st'; clear Hstep.
  apply Qle_bool_iff in Hck.
  exists (stream_wake (s_store st) (ids_of ac) t). eexists. split.
  - cbn [gstep]. rewrite Hg.
    assert (G1 : Qle_bool (g_clock g) t = true) by (apply Qle_bool_iff; lra).
    assert (G2 : Qle_bool (wake (g_th g) t) (stream_wake (s_store st) (ids_of ac) t) = true).
    { apply Qle_bool_iff. rewrite Rt.
      apply (proj1 (proj2 (stream_wake_is_max (s_store st) (ids_of ac) t))). exact Hin. }
    rewrite G1, G2. reflexivity.
  - constructor; cbn [s_store s_stat s_clock g_th g_clock g_stat]; try assumption.
    + apply Qle_refl.
    + intros b Hb. unfold updf. destruct (Nat.eqb b a) eqn:Eb.
      * apply Nat.eqb_eq in Eb. subst b. eapply nth_error_upd_same. exact Hsa.
      * apply Nat.eqb_neq in Eb. rewrite nth_error_upd_other; [|exact Eb]. apply Rs. exact Hb.
Qed.

Lemma sim_start_in : forall actors k st g a t st',
  rel actors k st g -> step actors st (Start a t) = Some st' -> participates actors k a ->
  exists g', gstep g (S1 a t) = Some g' /\ rel actors k st' g'.
Proof.
  intros actors k st g a t st' [Rl Rt Rc Rs] Hstep Hpart.
  pose proof (Rs a Hpart) as Hsa.
  cbn [step] in Hstep. rewrite Hsa in Hstep.
  destruct (g_stat g a) as [|w|] eqn:Hg; try discriminate.
  destruct (Qle_bool (s_clock st) t && Qle_bool w t) eqn:Hck; [|discriminate].
  inversion Hstep; subst st'; clear Hstep.
  apply andb_true_iff in Hck. destruct Hck as [Hck Hw]. apply Qle_bool_iff in Hck.
  eexists. split.
  - cbn [gstep]. rewrite Hg.
    assert (G1 : Qle_bool (g_clock g) t = true) by (apply Qle_bool_iff; lra).
    rewrite G1, Hw. reflexivity.
  - constructor; cbn [s_store s_stat s_clock g_th g_clock g_stat]; try assumption.
    + apply Qle_refl.
    + intros b Hb. unfold updf. destruct (Nat.eqb b a) eqn:Eb.
      * apply Nat.eqb_eq in Eb. subst b. eapply nth_error_upd_same. exact Hsa.
      * apply Nat.eqb_neq in Eb. rewrite nth_error_upd_other; [|exact Eb]. apply Rs. exact Hb.
Qed.

Lemma sim_done_in : forall actors k st g a t n st',
  wired actors ->
  rel actors k st g -> step actors st (Done a t n) = Some st' -> participates actors k a ->
  exists g', gstep g (D1 a t n) = Some g' /\ rel actors k st' g'.
Proof.
  intros actors k st g a t n st' Hwired [Rl Rt Rc Rs] Hstep Hpart.
  pose proof (Rs a Hpart) as Hsa. destruct Hpart as [ac [Hac Hin]].
  cbn [step] in Hstep. rewrite Hac, Hsa in Hstep.
  destruct (g_stat g a) as [| |ts] eqn:Hg; try discriminate.
  destruct (Qle_bool (s_clock st) t && (0 <=? n)%Z) eqn:Hck; [|discriminate].
  inversion Hstep; subst st'; clear Hstep.
  apply andb_true_iff in Hck. destruct Hck as [Hck Hn]. apply Qle_bool_iff in Hck.
  assert (Hnd : NoDup (ids_of ac)).
  { unfold wired in Hwired. rewrite Forall_forall in Hwired. apply Hwired.
    eapply nth_error_In. exact Hac. }
  eexists. split.
  - cbn [gstep]. rewrite Hg.
    assert (G1 : Qle_bool (g_clock g) t = true) by (apply Qle_bool_iff; lra).
    rewrite G1, Hn. reflexivity.
  - constructor; cbn [s_store s_stat s_clock g_th g_clock g_stat].
    + rewrite length_stream_append. exact Rl.
    + rewrite stream_append_in; [|exact Hnd|exact Hin|exact Rl]. rewrite Rt. reflexivity.
    + apply Qle_refl.
    + intros b Hb. unfold updf. destruct (Nat.eqb b a) eqn:Eb.
      * apply Nat.eqb_eq in Eb. subst b. eapply nth_error_upd_same. exact Hsa.
      * apply Nat.eqb_neq in Eb. rewrite nth_error_upd_other; [|exact Eb]. apply Rs. exact Hb.
Qed.

Lemma sim_abort_in : forall actors k st g a t st',
  rel actors k st g -> step actors st (Abort a t) = Some st' -> participates actors k a ->
  exists g', gstep g (X1 a t) = Some g' /\ rel actors k st' g'.
Proof.
  intros actors k st g a t st' [Rl Rt Rc Rs] Hstep Hpart.
  pose proof (Rs a Hpart) as Hsa.
  cbn [step] in Hstep. rewrite Hsa in Hstep.
  assert (H' : g_stat g a <> Idle /\ Qle_bool (s_clock st) t = true /\
               st' = mkS (s_store st) (upd (s_stat st) a Idle) t).
  { destruct (g_stat g a); try discriminate;
      (destruct (Qle_bool (s_clock st) t); [|discriminate]); inversion Hstep;
      (split; [discriminate|split; reflexivity]). }
  clear Hstep. destruct H' as (Hst & Hck & ->). apply Qle_bool_iff in Hck.
  assert (G1 : Qle_bool (g_clock g) t = true) by (apply Qle_bool_iff; lra).
  eexists. split.
  - cbn [gstep]. destruct (g_stat g a); [congruence| |]; rewrite G1; reflexivity.
  - constructor; cbn [s_store s_stat s_clock g_th g_clock g_stat]; try assumption.
    + apply Qle_refl.
    + intros b Hb. unfold updf. destruct (Nat.eqb b a) eqn:Eb.
      * apply Nat.eqb_eq in Eb. subst b. eapply nth_error_upd_same. exact Hsa.
      * apply Nat.eqb_neq in Eb. rewrite nth_error_upd_other; [|exact Eb]. apply Rs. exact Hb.
Qed.

Definition ev_actor (e : event) : option nat :=
  match e with
  | Eval a _ => Some a | Start a _ => Some a | Done a _ _ => Some a | Abort a _ => Some a
  | _ => None
  end.

Lemma step_clock_mono : forall actors st e st', step actors st e = Some st' -> s_clock st <= s_clock st'.
Proof.
  intros actors st e st' H. destruct e as [a t|a t|a t n|k v| |a t]; cbn [step] in H.
  - destruct (nth_error actors a); [|discriminate].
    destruct (nth_error (s_stat st) a) as [[| |]|]; try discriminate.
    destruct (Qle_bool (s_clock st) t) eqn:E; [|discriminate].
    inversion H. cbn [s_clock]. apply Qle_bool_iff. exact E.
  - destruct (nth_error (s_stat st) a) as [[| |]|]; try discriminate.
    destruct (Qle_bool (s_clock st) t) eqn:E; [|discriminate].
    destruct (Qle_bool w t); [|discriminate].
    inversion H. cbn [s_clock]. apply Qle_bool_iff. exact E.
  - destruct (nth_error actors a); [|discriminate].
    destruct (nth_error (s_stat st) a) as [[| |]|]; try discriminate.
    destruct (Qle_bool (s_clock st) t) eqn:E; [|discriminate].
    destruct (0 <=? n)%Z; [|discriminate].
    inversion H. cbn [s_clock]. apply Qle_bool_iff. exact E.
  - inversion H. apply Qle_refl.
  - destruct (forallb is_idle (s_stat st)); [|discriminate]. inversion H. apply Qle_refl.
  - destruct (nth_error (s_stat st) a) as [[| |]|]; try discriminate;
      (destruct (Qle_bool (s_clock st) t) eqn:E; [|discriminate]);
      inversion H; cbn [s_clock]; apply Qle_bool_iff; exact E.
Qed.

(* an event of a non-participating actor, or an admin event on another object, is invisible *)
Lemma sim_other : forall actors k st g e st',
  rel actors k st g -> step actors st e = Some st' -> admin_free k e ->
  (forall a, ev_actor e = Some a -> ~ participates actors k a) ->
  rel actors k st' g.
Proof.
  intros actors k st g e st' R Hstep Hadm Hnp.
  pose proof (step_clock_mono _ _ _ _ Hstep) as Hmono.
  destruct R as [Rl Rt Rc Rs].
  assert (Hstat : forall a v, ev_actor e = Some a ->
            forall b, participates actors k b ->
            nth_error (upd (s_stat st) a v) b = Some (g_stat g b)).
  { intros a v Ha b Hb. rewrite nth_error_upd_other; [apply Rs; exact Hb|].
    intros E. subst b. exact (Hnp a Ha Hb). }
  destruct e as [a t|a t|a t n|k' v| |a t]; cbn [step] in Hstep.
  - destruct (nth_error actors a); [|discriminate].
    destruct (nth_error (s_stat st) a) as [[| |]|]; try discriminate.
    destruct (Qle_bool (s_clock st) t); [|discriminate].
    inversion Hstep; subst st'. cbn [s_clock] in Hmono.
    constructor; cbn [s_store s_stat s_clock]; try assumption; [lra|].
    apply Hstat. reflexivity.
  - destruct (nth_error (s_stat st) a) as [[| |]|]; try discriminate.
    destruct (_ && _); [|discriminate].
    inversion Hstep; subst st'. cbn [s_clock] in Hmono.
    constructor; cbn [s_store s_stat s_clock]; try assumption; [lra|].
    apply Hstat. reflexivity.
  - destruct (nth_error actors a) as [ac|] eqn:Hac; [|discriminate].
    destruct (nth_error (s_stat st) a) as [[| |]|]; try discriminate.
    destruct (_ && _); [|discriminate].
    inversion Hstep; subst st'. cbn [s_clock] in Hmono.
    assert (Hni : ~ In k (ids_of ac)).
    { intros Hin. apply (Hnp a eq_refl). exists ac. split; assumption. }
    constructor; cbn [s_store s_stat s_clock].
    + rewrite length_stream_append. exact Rl.
    + rewrite stream_append_notin; assumption.
    + lra.
    + apply Hstat. reflexivity.
  - inversion Hstep; subst st'. cbn [admin_free] in Hadm.
    constructor; cbn [s_store s_stat s_clock]; try assumption.
    + rewrite length_upd. exact Rl.
    + rewrite get_upd_other; [exact Rt|]. congruence.
  - destruct Hadm.
  - destruct (nth_error (s_stat st) a) as [[| |]|]; try discriminate;
      (destruct (Qle_bool (s_clock st) t); [|discriminate]);
      inversion Hstep; subst st'; cbn [s_clock] in Hmono;
      (constructor; cbn [s_store s_stat s_clock]; try assumption; [lra|]);
      apply Hstat; reflexivity.
Qed.

Lemma sim_step : forall actors k st g e st',
  wired actors -> rel actors k st g -> step actors st e = Some st' -> admin_free k e ->
  exists tr1 g', grun g tr1 = Some g' /\ rel actors k st' g'.
Proof.
  intros actors k st g e st' Hw R Hstep Hadm.
  destruct (ev_actor e) as [a|] eqn:Ha.
  - destruct (participates_dec actors k a) as [Hp|Hnp].
    + destruct e as [a' t|a' t|a' t n|k' v| |a' t]; cbn [ev_actor] in Ha; inversion Ha; subst a'.
      * destruct (sim_eval_in _ _ _ _ _ _ _ R Hstep Hp) as [w [g' [G R']]].
        exists [E1 a t w], g'. cbn [grun]. rewrite G. split; [reflexivity|exact R'].
      * destruct (sim_start_in _ _ _ _ _ _ _ R Hstep Hp) as [g' [G R']].
        exists [S1 a t], g'. cbn [grun]. rewrite G. split; [reflexivity|exact R'].
      * destruct (sim_done_in _ _ _ _ _ _ _ _ Hw R Hstep Hp) as [g' [G R']].
        exists [D1 a t n], g'. cbn [grun]. rewrite G. split; [reflexivity|exact R'].
      * destruct (sim_abort_in _ _ _ _ _ _ _ R Hstep Hp) as [g' [G R']].
        exists [X1 a t], g'. cbn [grun]. rewrite G. split; [reflexivity|exact R'].
    + exists [], g. split; [reflexivity|].
      eapply sim_other; try eassumption. intros b Hb. rewrite Ha in Hb. inversion Hb; subst.
      exact Hnp.
  - exists [], g. split; [reflexivity|].
    eapply sim_other; try eassumption. intros b Hb. rewrite Ha in Hb. discriminate.
Qed.

Lemma run_app : forall actors tr1 tr2 st,
  run actors st (tr1 ++ tr2) =
  match run actors st tr1 with Some st' => run actors st' tr2 | None => None end.
Proof.
  intros actors. induction tr1 as [|e tr1 IH]; intros tr2 st; cbn [run app]; [reflexivity|].
  destruct (step actors st e); [apply IH|reflexivity].
Qed.

Lemma sim_run : forall actors k tr st g st',
  wired actors -> rel actors k st g -> run actors st tr = Some st' ->
  Forall (admin_free k) tr ->
  exists tr1 g', grun g tr1 = Some g' /\ rel actors k st' g'.
Proof.
  intros actors k. induction tr as [|e tr IH]; intros st g st' Hw R Hrun Hadm; cbn [run] in Hrun.
  - inversion Hrun; subst. exists [], g. split; [reflexivity|exact R].
  - destruct (step actors st e) as [st1|] eqn:E; [|discriminate].
    inversion Hadm as [|? ? Ha Hadm']; subst.
    destruct (sim_step _ _ _ _ _ _ Hw R E Ha) as [tr1 [g1 [G1 R1]]].
    destruct (IH st1 g1 st' Hw R1 Hrun Hadm') as [tr2 [g2 [G2 R2]]].
    exists (tr1 ++ tr2), g2. rewrite grun_app, G1. split; assumption.
Qed.

Lemma rel_init : forall actors k store c,
  (k < length store)%nat ->
  rel actors k (init_sys store actors c) (ginit (get store k) c).
Proof.
  intros actors k store c Hk. constructor; cbn [init_sys ginit s_store s_stat s_clock g_th g_clock g_stat].
  - exact Hk.
  - reflexivity.
  - apply Qle_refl.
  - intros a [ac [Hac _]]. rewrite nth_error_map, Hac. reflexivity.
Qed.

(* every throttle of the system, as long as nobody re-assigns its limit, behaves as in Part 3 *)
Theorem sys_projects : forall actors store c tr st' k,
  wired actors -> (k < length store)%nat ->
  run actors (init_sys store actors c) tr = Some st' ->
  Forall (admin_free k) tr ->
  exists tr1 g, grun (ginit (get store k) c) tr1 = Some g /\ rel actors k st' g.
Proof.
  intros actors store c tr st' k Hw Hk Hrun Hadm.
  eapply sim_run; try eassumption. apply rel_init. exact Hk.
Qed.

(* --- system-level theorems *)

(* tightest_governs, part (b): when actor a starts an I/O at t, EVERY limited throttle k of its
   dict (of that direction) has its own rate bound satisfied at t, simultaneously, whatever the
   other actors and throttles did in between *)
Theorem all_bounds_hold : forall actors store c tr a t st',
  wired actors ->
  run actors (init_sys store actors c) (tr ++ [Start a t]) = Some st' ->
  forall k Lk Rk, participates actors k a -> (k < length store)%nat ->
    0 < Lk -> 0 <= Rk -> fresh_ok Lk Rk (get store k) -> Forall (admin_free k) tr ->
    exists tr1 g, grun (ginit (get store k) c) (tr1 ++ [S1 a t]) = Some g /\
      rel actors k st' g /\ g_stat g a = Started t /\
      forall z, g_t0 g = Some z ->
        inject_Z (g_snap g a) <= Lk * (t - z) + half (g_r g).
Proof.
  intros actors store c tr a t st' Hw Hrun k Lk Rk Hp Hk HL HR Hf Hadm.
  rewrite run_app in Hrun.
  destruct (run actors (init_sys store actors c) tr) as [st1|] eqn:E1; [|discriminate].
  cbn [run] in Hrun. destruct (step actors st1 (Start a t)) as [st2|] eqn:E2; [|discriminate].
  inversion Hrun; subst st2; clear Hrun.
  destruct (sys_projects _ _ _ _ _ k Hw Hk E1 Hadm) as [tr1 [g1 [G1 R1]]].
  destruct (sim_start_in _ _ _ _ _ _ _ R1 E2 Hp) as [g [G R]].
  exists tr1, g.
  assert (Hg : grun (ginit (get store k) c) (tr1 ++ [S1 a t]) = Some g).
  { rewrite grun_app, G1. cbn [grun]. rewrite G. reflexivity. }
  split; [exact Hg|]. split; [exact R|].
  assert (Hst : g_stat g a = Started t).
  { cbn [gstep] in G. destruct (g_stat g1 a); try discriminate.
    destruct (_ && _); [|discriminate]. inversion G. cbn [g_stat]. apply updf_same. }
  split; [exact Hst|]. intros z Hz.
  exact (proj2 (scheduled_within_rate Lk Rk HL HR _ _ _ _ _ _ z Hf Hg Hz)).
Qed.

(* shared_bound at system level: all actors whose dict contains throttle k share it; the bytes it
   has accounted are within the rate plus one block per actor *)
Theorem sys_shared_bound : forall actors store c tr st' k Lk Rk,
  wired actors -> (k < length store)%nat ->
  run actors (init_sys store actors c) tr = Some st' ->
  0 < Lk -> 0 <= Rk -> fresh_ok Lk Rk (get store k) -> Forall (admin_free k) tr ->
  exists tr1 g, grun (ginit (get store k) c) tr1 = Some g /\ rel actors k st' g /\
    sum (get (s_store st') k) = (g_T g - g_C g)%Z /\
    forall z t, g_t0 g = Some z -> s_clock st' <= t ->
      forall n, Forall (fun e => (actor_of_ev1 e < n)%nat) tr1 ->
      inject_Z (g_T g) <= Lk * (t - z) + half (g_r g) + inject_Z (sum_last g n).
Proof.
  intros actors store c tr st' k Lk Rk Hw Hk Hrun HL HR Hf Hadm.
  destruct (sys_projects _ _ _ _ _ k Hw Hk Hrun Hadm) as [tr1 [g [G R]]].
  exists tr1, g. split; [exact G|]. split; [exact R|]. split.
  - rewrite <- (r_th _ _ _ _ R). exact (proj1 (fold_invariant Lk Rk HL HR _ _ _ _ Hf G)).
  - intros z t Hz Ht n Hn.
    apply (shared_bound Lk Rk HL HR _ _ _ _ n z t Hf G Hn Hz).
    pose proof (r_clock _ _ _ _ R). lra.
Qed.

(* independent: the state (hence every wake time) of throttle k is untouched by any trace that
   neither completes an I/O through a dict containing k nor assigns k's limit -- e.g. everything
   that happens on other connections when k is a per-connection clone *)
Definition touches (actors : list actor) (k : nat) (e : event) : Prop :=
  match e with
  | Done a _ _ => participates actors k a
  | SetLimit k' _ => k' = k
  | CloneAll => True
  | _ => False
  end.

Theorem independent : forall actors k tr st st',
  run actors st tr = Some st' ->
  Forall (fun e => ~ touches actors k e) tr ->
  get (s_store st') k = get (s_store st) k /\
  forall now, wake (get (s_store st') k) now = wake (get (s_store st) k) now.
Proof.
  intros actors k. induction tr as [|e tr IH]; intros st st' Hrun Hall; cbn [run] in Hrun.
  - inversion Hrun; subst. split; reflexivity.
  - destruct (step actors st e) as [st1|] eqn:E; [|discriminate].
    inversion Hall as [|? ? He Hall']; subst.
    destruct (IH st1 st' Hrun Hall') as [IH1 _].
    assert (H1 : get (s_store st1) k = get (s_store st) k).
    { destruct e as [a t|a t|a t n|k' v| |a t]; cbn [step touches] in *.
      - destruct (nth_error actors a); [|discriminate].
        destruct (nth_error (s_stat st) a) as [[| |]|]; try discriminate.
        destruct (Qle_bool _ _); [|discriminate]. inversion E. reflexivity.
      - destruct (nth_error (s_stat st) a) as [[| |]|]; try discriminate.
        destruct (_ && _); [|discriminate]. inversion E. reflexivity.
      - destruct (nth_error actors a) as [ac|] eqn:Hac; [|discriminate].
        destruct (nth_error (s_stat st) a) as [[| |]|]; try discriminate.
        destruct (_ && _); [|discriminate]. inversion E. cbn [s_store].
        apply stream_append_notin. intros Hin. apply He. exists ac. split; assumption.
      - inversion E. cbn [s_store]. apply get_upd_other. congruence.
      - exfalso. apply He. exact Logic.I.
      - destruct (nth_error (s_stat st) a) as [[| |]|]; try discriminate;
          (destruct (Qle_bool _ _); [|discriminate]); inversion E; reflexivity. }
    split; [congruence|]. intros now. congruence.
Qed.

(* off_is_free over traces: limits are only changed by SetLimit, so an actor none of whose
   throttles OF ITS DIRECTION has a positive limit never waits, in any trace *)
Lemma get_map_clone : forall store k, get (map clone store) k = clone (get store k).
Proof.
  intros store k. unfold get. change dummy with (clone dummy) at 1. apply map_nth.
Qed.

Lemma limit_preserved : forall actors k tr st st',
  run actors st tr = Some st' ->
  Forall (fun e => forall v, e <> SetLimit k v) tr ->
  limit (get (s_store st') k) = limit (get (s_store st) k).
Proof.
  intros actors k. induction tr as [|e tr IH]; intros st st' Hrun Hall; cbn [run] in Hrun.
  - inversion Hrun; subst. reflexivity.
  - destruct (step actors st e) as [st1|] eqn:E; [|discriminate].
    inversion Hall as [|? ? He Hall']; subst.
    rewrite (IH st1 st' Hrun Hall').
    destruct e as [a t|a t|a t n|k' v| |a t]; cbn [step] in *.
    + destruct (nth_error actors a); [|discriminate].
      destruct (nth_error (s_stat st) a) as [[| |]|]; try discriminate.
      destruct (Qle_bool _ _); [|discriminate]. inversion E. reflexivity.
    + destruct (nth_error (s_stat st) a) as [[| |]|]; try discriminate.
      destruct (_ && _); [|discriminate]. inversion E. reflexivity.
    + destruct (nth_error actors a) as [ac|] eqn:Hac; [|discriminate].
      destruct (nth_error (s_stat st) a) as [[| |]|]; try discriminate.
      destruct (_ && _); [|discriminate]. inversion E. cbn [s_store].
      clear. unfold stream_append. generalize (s_store st) as store.
      induction (ids_of ac) as [|i ids IHi]; intros store; cbn [fold_left]; [reflexivity|].
      rewrite IHi. destruct (Nat.eq_dec k i) as [->|Hne].
      * destruct (le_lt_dec (length store) i) as [Hlen|Hlen].
        -- unfold get. rewrite !nth_overflow; [reflexivity|exact Hlen|rewrite length_upd; exact Hlen].
        -- rewrite get_upd_same; [apply append_limit|exact Hlen].
      * rewrite get_upd_other; [reflexivity|exact Hne].
    + inversion E. cbn [s_store]. rewrite get_upd_other; [reflexivity|].
      intros Ek. subst k'. exact (He v eq_refl).
    + destruct (forallb is_idle (s_stat st)); [|discriminate]. inversion E. cbn [s_store].
      rewrite get_map_clone. reflexivity.
    + destruct (nth_error (s_stat st) a) as [[| |]|]; try discriminate;
        (destruct (Qle_bool _ _); [|discriminate]); inversion E; reflexivity.
Qed.

Lemma positive_limit_ext : forall th1 th2,
  limit th1 = limit th2 -> positive_limit th1 = positive_limit th2.
Proof. intros th1 th2 H. unfold positive_limit. rewrite H. reflexivity. Qed.

Theorem off_is_free : forall actors store c tr a t st' ac,
  run actors (init_sys store actors c) (tr ++ [Eval a t]) = Some st' ->
  nth_error actors a = Some ac ->
  (forall k, In k (ids_of ac) -> positive_limit (get store k) = None) ->
  (forall k, In k (ids_of ac) -> Forall (fun e => forall v, e <> SetLimit k v) tr) ->
  nth_error (s_stat st') a = Some (Evaluated t).
Proof.
  intros actors store c tr a t st' ac Hrun Hac Hoff Hadm.
  rewrite run_app in Hrun.
  destruct (run actors (init_sys store actors c) tr) as [st1|] eqn:E1; [|discriminate].
  cbn [run] in Hrun. destruct (step actors st1 (Eval a t)) as [st2|] eqn:E2; [|discriminate].
  inversion Hrun; subst st2; clear Hrun.
  cbn [step] in E2. rewrite Hac in E2.
  destruct (nth_error (s_stat st1) a) as [[| |]|] eqn:Hs; try discriminate.
  destruct (Qle_bool _ _); [|discriminate]. inversion E2; subst st'. cbn [s_stat].
  rewrite stream_wake_off.
  - eapply nth_error_upd_same. exact Hs.
  - intros k Hk. rewrite <- (Hoff k Hk). apply positive_limit_ext.
    apply (limit_preserved actors k tr _ _ E1 (Hadm k Hk)).
Qed.

(* ------------------------------------------------------------------ Part 7
   operations on streams WITH read/write timeouts (the throttle wait precedes the timed region) *)

Lemma timed_end_ge : forall tmo ts d, 0 <= d -> ts <= snd (timed_end tmo ts d).
Proof.
  intros tmo ts d Hd. unfold timed_end. destruct tmo as [T|]; [|cbn [snd]; lra].
  destruct (Qlt_bool d T); cbn [snd]; [lra|].
  pose proof (Q.le_max_l 0 T). lra.
Qed.

Theorem timed_end_spec : forall tmo ts d,
  match tmo with
  | None => timed_end tmo ts d = (true, ts + d)
  | Some T => (d < T -> timed_end tmo ts d = (true, ts + d)) /\
              (T <= d -> timed_end tmo ts d = (false, ts + Qmax 0 T))
  end.
Proof.
  intros [T|] ts d; cbn [timed_end]; [|reflexivity]. split; intros H.
  - apply Qlt_bool_true in H. rewrite H. reflexivity.
  - apply Qlt_bool_false in H. rewrite H. reflexivity.
Qed.

(* whatever the timeout, the I/O of the operation starts exactly at the throttles' wake time *)
Theorem op_start_ignores_timeout : forall store ac a tmo1 tmo2 now d n,
  firstn 2 (op_events store ac a tmo1 now d n) = firstn 2 (op_events store ac a tmo2 now d n) /\
  nth_error (op_events store ac a tmo1 now d n) 1 = Some (Start a (stream_wake store (ids_of ac) now)).
Proof. intros. split; reflexivity. Qed.

(* every such operation is a trace of the model (so all the bounds above apply to streams with
   any timeout configuration); it leaves the actor idle; an operation that timed out accounts
   nothing (the store is unchanged) *)
Theorem op_accepted : forall actors st a ac tmo now d n,
  nth_error actors a = Some ac -> nth_error (s_stat st) a = Some Idle ->
  s_clock st <= now -> 0 <= d -> (0 <= n)%Z ->
  exists st', run actors st (op_events (s_store st) ac a tmo now d n) = Some st' /\
              nth_error (s_stat st') a = Some Idle /\
              (fst (timed_end tmo (stream_wake (s_store st) (ids_of ac) now) d) = false ->
               s_store st' = s_store st).
Proof.
  intros actors st a ac tmo now d n Hac Hst Hck Hd Hn.
  pose proof (proj1 (stream_wake_is_max (s_store st) (ids_of ac) now)) as Hw.
  unfold op_events. cbv zeta.
  remember (stream_wake (s_store st) (ids_of ac) now) as w eqn:Ew.
  pose proof (timed_end_ge tmo w d Hd) as Hte.
  assert (Ha : (a < length (s_stat st))%nat) by (apply nth_error_Some; congruence).
  cbn [run step]. rewrite Hac, Hst.
  assert (C1 : Qle_bool (s_clock st) now = true) by (apply Qle_bool_iff; exact Hck).
  rewrite C1. cbn [s_stat s_store s_clock]. rewrite <- Ew.
  rewrite (nth_error_upd_same _ (s_stat st) a (Evaluated w) Idle Hst).
  assert (C2 : Qle_bool now w && Qle_bool w w = true).
  { apply andb_true_iff. split; apply Qle_bool_iff; [exact Hw|apply Qle_refl]. }
  rewrite C2. cbn [s_stat s_store s_clock].
  assert (Hst2 : nth_error (upd (upd (s_stat st) a (Evaluated w)) a (Started w)) a = Some (Started w)).
  { eapply nth_error_upd_same. eapply nth_error_upd_same. exact Hst. }
  assert (C3 : Qle_bool w (snd (timed_end tmo w d)) = true) by (apply Qle_bool_iff; exact Hte).
  destruct (fst (timed_end tmo w d)) eqn:Hok; cbn [run step s_stat s_store s_clock]; rewrite ?Hac, Hst2.
  - assert (C4 : (0 <=? n)%Z = true) by (apply Z.leb_le; exact Hn).
    rewrite C3, C4. cbn [andb s_stat s_store s_clock]. eexists. split; [reflexivity|].
    cbn [s_stat s_store]. split; [|discriminate].
    eapply nth_error_upd_same. exact Hst2.
  - rewrite C3. eexists. split; [reflexivity|]. cbn [s_stat s_store]. split; [|reflexivity].
    eapply nth_error_upd_same. exact Hst2.
Qed.
