(* Facts about Model/Listing.v: the MLSx and LIST line codecs round-trip. *)
From Coq Require Import ZArith List Bool Lia.
From Verif Require Import Lib.Sx Lib.PyStr Lib.PyStr2 Lib.Civil Model.LsDate Model.Listing.
From Verif Require Import Proofs.PyStrFacts Proofs.PyStr2Facts Proofs.CivilSweep Proofs.CivilFacts Proofs.LsDateFacts.
Import ListNotations.
Open Scope Z_scope.

(* s contains no character c *)
Definition avoids (c : Z) (s : text) : Prop := forallb (fun x => negb (x =? c)) s = true.

Lemma avoids_app c a b : avoids c a -> avoids c b -> avoids c (a ++ b).
Proof. unfold avoids. intros A B. rewrite forallb_app, A, B. reflexivity. Qed.

Lemma avoids_digits c s : is_ascii_digit c = false -> forallb is_ascii_digit s = true -> avoids c s.
Proof.
  unfold avoids. intros Hc H. rewrite forallb_forall in *. intros x Hx.
  apply negb_true_iff. apply Z.eqb_neq. intro E. subst. rewrite (H _ Hx) in Hc. discriminate.
Qed.

Lemma avoids_str_of_Z c n : is_ascii_digit c = false -> c <> 45 -> avoids c (str_of_Z n).
Proof.
  intros Hc H45. unfold avoids. rewrite forallb_forall. intros x Hx.
  apply negb_true_iff. apply Z.eqb_neq. intro E. subst.
  apply str_of_Z_chars in Hx as [Hx|Hx]; [contradiction|congruence].
Qed.

Lemma avoids_zfill2 c n : is_ascii_digit c = false -> avoids c (zfill2 n).
Proof.
  intro Hc. apply avoids_digits; [exact Hc|]. unfold zfill2. cbn [forallb]. rewrite !mod10_digit. reflexivity.
Qed.

Lemma avoids_fmt14 c t : is_ascii_digit c = false -> c <> 45 -> avoids c (fmt_14 t).
Proof.
  intros Hc H45. unfold fmt_14. repeat apply avoids_app; try (apply avoids_zfill2; exact Hc).
  apply avoids_str_of_Z; assumption.
Qed.

(* ---- split / partition ---- *)
Lemma split_on_none c a : avoids c a -> split_on c a = [a].
Proof.
  unfold avoids. induction a as [|x a IH]; cbn; intro H; [reflexivity|].
  apply andb_true_iff in H as [Hx Ha]. apply negb_true_iff in Hx. rewrite Hx, (IH Ha). reflexivity.
Qed.

Lemma split_on_app c a b : avoids c a -> split_on c (a ++ c :: b) = a :: split_on c b.
Proof.
  unfold avoids. induction a as [|x a IH]; cbn; intro H.
  - rewrite Z.eqb_refl. reflexivity.
  - apply andb_true_iff in H as [Hx Ha]. apply negb_true_iff in Hx. rewrite Hx, (IH Ha). reflexivity.
Qed.

(* ---- MLSx ---- *)
Definition clean (s : text) : Prop := avoids 32 s /\ avoids 59 s /\ avoids 61 s.

Definition fact_text (kv : text * text) : text := fst kv ++ [EQ] ++ snd kv ++ [SEMI].
Definition fact_body (kv : text * text) : text := fst kv ++ EQ :: snd kv.

Lemma fact_text_body kv : fact_text kv = fact_body kv ++ [SEMI].
Proof. unfold fact_text, fact_body. cbn. rewrite <- app_assoc. reflexivity. Qed.

Lemma flat_facts_nonempty facts : facts <> [] -> flat_map fact_text facts <> [].
Proof.
  destruct facts as [|kv r]; [congruence|]. intros _ H. cbn in H. rewrite fact_text_body in H.
  apply app_eq_nil in H as [H _]. apply app_eq_nil in H as [_ H]. discriminate.
Qed.

Lemma clean_body kv : clean (fst kv) -> clean (snd kv) -> avoids 59 (fact_body kv) /\ avoids 32 (fact_body kv).
Proof.
  intros (A1 & A2 & A3) (B1 & B2 & B3). unfold fact_body. split.
  - apply (avoids_app 59 (fst kv) (EQ :: snd kv) A2). unfold avoids in *. cbn. exact B2.
  - apply (avoids_app 32 (fst kv) (EQ :: snd kv) A1). unfold avoids in *. cbn. exact B1.
Qed.

Lemma split_facts facts :
  facts <> [] -> Forall (fun kv => clean (fst kv) /\ clean (snd kv)) facts ->
  split_on SEMI (removelast (flat_map fact_text facts)) = map fact_body facts.
Proof.
  induction facts as [|kv rest IH]; [congruence|]. intros _ F. inversion F as [|? ? [Ck Cv] Fr]; subst.
  destruct (clean_body kv Ck Cv) as [A _].
  destruct rest as [|kv2 rest'].
  - cbn [flat_map map]. rewrite app_nil_r, fact_text_body, removelast_last. apply split_on_none. exact A.
  - cbn [flat_map map] in *. rewrite fact_text_body, <- app_assoc.
    rewrite removelast_app by discriminate.
    assert (R : removelast ([SEMI] ++ fact_text kv2 ++ flat_map fact_text rest')
                = SEMI :: removelast (fact_text kv2 ++ flat_map fact_text rest')).
    { change ([SEMI] ++ ?x) with (SEMI :: x). cbn [removelast].
      destruct (fact_text kv2 ++ flat_map fact_text rest') eqn:E; [|reflexivity].
      exfalso. apply (flat_facts_nonempty (kv2 :: rest')); [discriminate|exact E]. }
    rewrite R. rewrite (split_on_app SEMI _ _ A). f_equal. apply IH; [discriminate|exact Fr].
Qed.

Lemma flat_facts_avoid_space facts :
  Forall (fun kv => clean (fst kv) /\ clean (snd kv)) facts -> avoids 32 (flat_map fact_text facts).
Proof.
  induction 1 as [|kv rest [Ck Cv] _ IH]; [reflexivity|]. cbn [flat_map]. apply avoids_app; [|exact IH].
  rewrite fact_text_body. apply avoids_app; [apply (clean_body kv Ck Cv)|reflexivity].
Qed.

Definition entry_of (facts : list (text * text)) : list (text * text) :=
  fold_left (fun e kv => dict_set (lower (fst kv)) (snd kv) e) facts [].

Lemma fold_bodies facts : forall acc,
  Forall (fun kv => clean (fst kv) /\ clean (snd kv)) facts ->
  fold_left (fun e fact => let '(key, _, value) := partition EQ fact in dict_set (lower key) value e)
            (map fact_body facts) acc
  = fold_left (fun e kv => dict_set (lower (fst kv)) (snd kv) e) facts acc.
Proof.
  induction facts as [|kv rest IH]; intros acc F; [reflexivity|].
  inversion F as [|? ? [(A1 & A2 & A3) Cv] Fr]; subst. cbn [map fold_left].
  change (fact_body kv) with (fst kv ++ EQ :: snd kv).
  rewrite (partition_app EQ (fst kv) (snd kv) A3). apply IH. exact Fr.
Qed.

Definition name_ok (name : text) : Prop := name <> [] /\ rstrip name = name.

(* any fact list the server can emit, followed by any name, is parsed back exactly *)
Lemma parse_mlsx_facts facts name :
  facts <> [] -> Forall (fun kv => clean (fst kv) /\ clean (snd kv)) facts -> name_ok name ->
  parse_mlsx_line (flat_map fact_text facts ++ [SP] ++ name) = Ok (name, entry_of facts).
Proof.
  intros Hne F [Nn Nr]. unfold parse_mlsx_line.
  rewrite (rstrip_app_nonempty _ ([SP] ++ name)).
  - change ([SP] ++ name) with (SP :: name).
    rewrite (partition_app SP _ name (flat_facts_avoid_space facts F)).
    cbn [negb orb]. destruct name as [|c name']; [contradiction|].
    rewrite (split_facts facts Hne F). rewrite (fold_bodies facts [] F). reflexivity.
  - discriminate.
  - change ([SP] ++ name) with ([SP] ++ name). apply rstrip_app_nonempty; assumption.
Qed.

Lemma kind_text_clean k : clean (kind_text k).
Proof. unfold kind_text. destruct (k =? K_FILE); [|destruct (k =? K_DIR)]; repeat split; reflexivity. Qed.

Lemma mlsx_facts_clean st kind :
  Forall (fun kv => clean (fst kv) /\ clean (snd kv)) (mlsx_facts st kind).
Proof.
  unfold mlsx_facts. apply Forall_app. split.
  - destruct st as [s|]; [|constructor].
    repeat constructor; cbn [fst snd]; try reflexivity;
      try (apply avoids_str_of_Z; [reflexivity|lia]);
      try (apply avoids_fmt14; [reflexivity|lia]).
  - repeat constructor; cbn [fst snd]; try reflexivity; apply kind_text_clean.
Qed.

Lemma build_mlsx_string_eq st kind name :
  build_mlsx_string st kind name = flat_map fact_text (mlsx_facts st kind) ++ [SP] ++ name.
Proof. reflexivity. Qed.

Definition l_size : text := [115; 105; 122; 101].
Definition l_create : text := [99; 114; 101; 97; 116; 101].
Definition l_modify : text := [109; 111; 100; 105; 102; 121].
Definition l_type : text := [116; 121; 112; 101].

Lemma lower_keys : lower k_Size = l_size /\ lower k_Create = l_create /\ lower k_Modify = l_modify /\ lower k_Type = l_type.
Proof. vm_compute. repeat split; reflexivity. Qed.

(* mlsx_roundtrip *)
Theorem mlsx_roundtrip st kind name :
  name_ok name ->
  parse_mlsx_line (build_mlsx_string (Some st) kind name)
  = Ok (name, [ (l_size, str_of_Z (st_size st));
                (l_create, format_mlsx_time (st_ctime st));
                (l_modify, format_mlsx_time (st_mtime st));
                (l_type, kind_text kind) ]).
Proof.
  intro N. rewrite build_mlsx_string_eq.
  rewrite parse_mlsx_facts; [|discriminate|apply mlsx_facts_clean|exact N].
  reflexivity.
Qed.

Theorem mlsx_roundtrip_missing kind name :
  name_ok name ->
  parse_mlsx_line (build_mlsx_string None kind name) = Ok (name, [ (l_type, kind_text kind) ]).
Proof.
  intro N. rewrite build_mlsx_string_eq.
  rewrite parse_mlsx_facts; [|discriminate|apply mlsx_facts_clean|exact N].
  reflexivity.
Qed.

(* the 14 digits read back *)
Definition parse14 (s : text) : dt :=
  mkdt (int_of_ascii_digits (slice 0 4 s)) (int_of_ascii_digits (slice 4 6 s))
       (int_of_ascii_digits (slice 6 8 s)) (int_of_ascii_digits (slice 8 10 s))
       (int_of_ascii_digits (slice 10 12 s)) (int_of_ascii_digits (slice 12 14 s)).

Lemma int_ascii_digits4 y : 0 <= y <= 9999 -> int_of_ascii_digits (digits4 y) = y.
Proof.
  intro H. unfold digits4, int_of_ascii_digits, digit_val. cbn [fold_left].
  Z.div_mod_to_equations; lia.
Qed.

Lemma parse14_fmt14 t :
  1000 <= yr t <= 9999 -> 0 <= mo t <= 99 -> 0 <= dy t <= 99 -> 0 <= hh t <= 99 ->
  0 <= mi t <= 99 -> 0 <= ss t <= 99 -> parse14 (fmt_14 t) = t.
Proof.
  intros HY H1 H2 H3 H4 H5. unfold fmt_14. rewrite (str_of_Z_4 _ HY).
  destruct t as [Y Mo D h mn s]. cbn [yr mo dy hh mi ss] in *.
  unfold parse14, digits4, zfill2. cbn [app slice skipn firstn Nat.sub].
  change [48 + (Y / 1000) mod 10; 48 + (Y / 100) mod 10; 48 + (Y / 10) mod 10; 48 + Y mod 10] with (digits4 Y).
  rewrite (int_ascii_digits4 Y) by lia.
  change [48 + (Mo / 10) mod 10; 48 + Mo mod 10] with (zfill2 Mo).
  change [48 + (D / 10) mod 10; 48 + D mod 10] with (zfill2 D).
  change [48 + (h / 10) mod 10; 48 + h mod 10] with (zfill2 h).
  change [48 + (mn / 10) mod 10; 48 + mn mod 10] with (zfill2 mn).
  change [48 + (s / 10) mod 10; 48 + s mod 10] with (zfill2 s).
  rewrite !int_of_zfill2 by lia. reflexivity.
Qed.

(* the time fact denotes the backend's mtime exactly, as UTC seconds *)
Theorem mlsx_time_exact e :
  1000 <= yr (civil_of_epoch e) <= 9999 ->
  epoch_of_civil (parse14 (format_mlsx_time e)) = e.
Proof.
  intro HY. unfold format_mlsx_time.
  destruct (epoch_of_civil_of_epoch e) as [E V].
  destruct (valid_date_bounds _ _ _ (valid_dt_date _ V)) as (Hm & Hd & _).
  destruct (valid_dt_time _ V) as (Hh & Hmi & Hs).
  rewrite parse14_fmt14 by lia. exact E.
Qed.

(* ---- the lister loops ---- *)
Definition entry_name_ok (name : text) : Prop :=
  name_ok name /\ name <> DOT /\ name <> DOTDOT.

(* the MLSD worker's lines, parsed one by one: every directory entry exactly once, in order, none
   invented, each with its own facts *)
Theorem mlsd_entries_exact dir :
  Forall (fun e => entry_name_ok (de_name e)) dir ->
  map parse_mlsx_line (mlsd_lines dir)
  = map (fun e => Ok (de_name e, entry_of (mlsx_facts (de_stat e) (de_kind e)))) dir.
Proof.
  induction 1 as [|e rest [N _] _ IH]; [reflexivity|].
  unfold mlsd_lines in *. cbn [map]. rewrite IH. f_equal.
  rewrite build_mlsx_string_eq.
  apply parse_mlsx_facts; [unfold mlsx_facts; destruct (de_stat e); discriminate|apply mlsx_facts_clean|exact N].
Qed.

(* a line without SP, or with nothing after it, is a ValueError (not an entry called '.') *)
Lemma mlsx_no_name_rejected s :
  (forallb (fun x => negb (x =? SP)) (rstrip s) = true \/ exists f, rstrip s = f ++ [SP] /\ forallb (fun x => negb (x =? SP)) f = true) ->
  parse_mlsx_line s = Err E_VALUE.
Proof.
  intros [H|[f [E H]]]; unfold parse_mlsx_line.
  - rewrite (partition_none SP _ H). reflexivity.
  - rewrite E. change (f ++ [SP]) with (f ++ SP :: []). rewrite (partition_app SP f [] H). reflexivity.
Qed.

(* ---------------- LIST ---------------- *)
(* modes whose nine permission letters contain neither 'S' nor 'T' (only used to describe the
   repaired defect F13b; no theorem needs it any more) *)
Definition no_ST (mode : Z) : bool :=
  negb (bit mode 11 && negb (bit mode 6)) && negb (bit mode 10 && negb (bit mode 3))
  && negb (bit mode 9 && negb (bit mode 0)).

(* what the client reads from the nine letters: the 12 permission bits, except that 't' is
   read as sticky WITHOUT the others-execute bit (parse_unix_mode: 0o1000 instead of 0o1001) *)
Definition mode_view (mode : Z) : Z :=
  let p := mode mod 4096 in
  if bit mode 9 && bit mode 0 then p - 1 else p.

Definition res_Z_eqb (a b : res Z) : bool :=
  match a, b with
  | Ok x, Ok y => x =? y
  | Err x, Err y => x =? y
  | _, _ => false
  end.

(* all 4096 permission values, S/T included *)
Lemma mode_sweep :
  forallb (fun p => res_Z_eqb (parse_unix_mode (perm_chars p)) (Ok (mode_view p)))
          (zrange 0 (Z.to_nat 4096)) = true.
Proof. vm_compute. reflexivity. Qed.

Lemma bit_mod mode k : 0 <= k < 12 -> bit (mode mod 4096) k = bit mode k.
Proof. intro H. unfold bit. change 4096 with (2 ^ 12). apply Z.mod_pow2_bits_low. lia. Qed.

Lemma perm_chars_mod mode : perm_chars (mode mod 4096) = perm_chars mode.
Proof. unfold perm_chars. rewrite !bit_mod by lia. reflexivity. Qed.

Lemma parse_perm_chars mode : parse_unix_mode (perm_chars mode) = Ok (mode_view mode).
Proof.
  pose proof (Z.mod_pos_bound mode 4096 ltac:(lia)) as B.
  pose proof (forallb_zrange _ _ _ mode_sweep (mode mod 4096) ltac:(lia)) as S. cbv beta in S.
  assert (V : mode_view (mode mod 4096) = mode_view mode).
  { unfold mode_view. rewrite !bit_mod by lia. rewrite Z.mod_mod by lia. reflexivity. }
  rewrite perm_chars_mod, V in S.
  destruct (parse_unix_mode (perm_chars mode)) as [x|x]; cbn in S; [|discriminate].
  apply Z.eqb_eq in S. congruence.
Qed.

(* the permission bits survive exactly unless both sticky and others-execute are set *)
Lemma mode_view_exact mode : (bit mode 9 && bit mode 0) = false -> mode_view mode = mode mod 4096.
Proof. intro H. unfold mode_view. rewrite H. reflexivity. Qed.

Lemma index_of_app f r : avoids SP f -> index_of SP (f ++ SP :: r) = Some (length f).
Proof.
  unfold avoids. induction f as [|x f IH]; cbn; intro H.
  - reflexivity.
  - apply andb_true_iff in H as [Hx Hf]. apply negb_true_iff in Hx. rewrite Hx, (IH Hf). reflexivity.
Qed.

Lemma take_field_app f r : avoids SP f -> take_field (f ++ SP :: r) = Ok (f, lstrip r).
Proof.
  intro H. unfold take_field. rewrite (index_of_app f r H).
  rewrite firstn_app, Nat.sub_diag, firstn_all. cbn [firstn]. rewrite app_nil_r.
  rewrite skipn_app, Nat.sub_diag, skipn_all. cbn [skipn app].
  rewrite (lstrip_cons_space SP r is_space_SP). reflexivity.
Qed.

(* text that starts with a non-space character *)
Definition starts_nonspace (s : text) : Prop := exists c r, s = c :: r /\ is_space c = false.

Lemma lstrip_starts_nonspace s : starts_nonspace s -> lstrip s = s.
Proof. intros (c & r & -> & H). apply lstrip_cons_nonspace. exact H. Qed.

Lemma starts_nonspace_app s r : starts_nonspace s -> starts_nonspace (s ++ r).
Proof. intros (c & r' & -> & H). exists c, (r' ++ r). split; [reflexivity|exact H]. Qed.

Lemma digits_starts_nonspace s : s <> [] -> forallb is_ascii_digit s = true -> starts_nonspace s.
Proof.
  destruct s as [|c r]; [congruence|]. intros _ H. cbn in H. apply andb_true_iff in H as [H _].
  exists c, r. split; [reflexivity|apply ascii_digit_not_space; exact H].
Qed.

Lemma str_nonneg_starts n : 0 <= n -> starts_nonspace (str_of_Z n).
Proof.
  intro H. rewrite (str_of_Z_nonneg n H).
  apply digits_starts_nonspace; [apply str_of_nonneg_nonempty|apply str_of_nonneg_digits].
Qed.

Lemma str_nonneg_avoids_sp n : 0 <= n -> avoids SP (str_of_Z n).
Proof. intro H. apply avoids_str_of_Z; [reflexivity|unfold SP; lia]. Qed.

Lemma str_nonneg_isdigit n : 0 <= n -> str_isdigit (str_of_Z n) = true.
Proof.
  intro H. rewrite (str_of_Z_nonneg n H).
  apply all_ascii_digit_isdigit; [apply str_of_nonneg_nonempty|apply str_of_nonneg_digits].
Qed.

(* names and date columns the ls format can carry *)
Definition strip_fixed (s : text) : Prop := s <> [] /\ rstrip s = s /\ lstrip s = s.

Lemma strip_fixed_strip s : strip_fixed s -> strip s = s.
Proof. intros (_ & R & L). unfold strip. rewrite R. exact L. Qed.

Lemma strip_sp_cons s : strip_fixed s -> strip (SP :: s) = s.
Proof.
  intros (N & R & L). unfold strip.
  change (SP :: s) with ([SP] ++ s). rewrite (rstrip_app_nonempty [SP] s N R).
  cbn [app]. rewrite (lstrip_cons_space SP s is_space_SP). exact L.
Qed.

Lemma strip_fixed_starts s : strip_fixed s -> starts_nonspace s.
Proof.
  intros (N & _ & L). destruct s as [|c r]; [congruence|]. exists c, r. split; [reflexivity|].
  cbn in L. destruct (is_space c) eqn:E; [|reflexivity].
  exfalso. assert (Hlen : (length (lstrip r) <= length r)%nat).
  { clear. induction r as [|x r IH]; cbn; [lia|]. destruct (is_space x); cbn; lia. }
  rewrite L in Hlen. cbn in Hlen. lia.
Qed.

Definition list_line (mode nlink size : Z) (ds name : text) : text :=
  build_list_string_with (mkstats size 0 0 nlink mode) ds name.

Lemma list_line_shape mode nlink size ds name ct mt :
  build_list_string_with (mkstats size ct mt nlink mode) ds name
  = filetype_char mode :: perm_chars mode ++ SP :: str_of_Z nlink ++ SP :: t_none ++ SP :: t_none
      ++ SP :: str_of_Z size ++ SP :: ds ++ SP :: name.
Proof.
  unfold build_list_string_with, join, filemode. cbn [flat_map st_mode st_nlink st_size app].
  rewrite app_nil_r. unfold perm_chars. cbn [app]. repeat (rewrite <- ?app_assoc; cbn [app]). reflexivity.
Qed.

Definition type_of_char (c : Z) : text :=
  if c =? 45 then t_file else if c =? 100 then t_dir else if c =? 108 then t_link else t_unknown.

Lemma firstn_exact {A} n (l r : list A) : length l = n -> firstn n (l ++ r) = l.
Proof. intros <-. rewrite firstn_app, Nat.sub_diag, firstn_all. cbn [firstn]. apply app_nil_r. Qed.

Lemma skipn_exact {A} n (l r : list A) : length l = n -> skipn n (l ++ r) = r.
Proof. intros <-. rewrite skipn_app, Nat.sub_diag, skipn_all. reflexivity. Qed.

Lemma perm_chars_length mode : length (perm_chars mode) = 9%nat.
Proof. reflexivity. Qed.

Lemma slice_perm c (p r : text) : length p = 9%nat -> slice 1 10 (c :: p ++ r) = p.
Proof. intro H. unfold slice. change (skipn 1 (c :: p ++ r)) with (p ++ r). change (10 - 1)%nat with 9%nat. apply firstn_exact. exact H. Qed.

Lemma skipn_perm c (p r : text) : length p = 9%nat -> skipn 10 (c :: p ++ r) = r.
Proof. intro H. change (skipn 10 (c :: p ++ r)) with (skipn 9 (p ++ r)). apply skipn_exact. exact H. Qed.

(* list_roundtrip: the LIST line of a regular file or directory parses back to the same name,
   type, size, link count and the date column handed to parse_ls_date *)
Theorem list_roundtrip half two now st ds name modify :
  (filetype_char (st_mode st) = 45 \/ filetype_char (st_mode st) = 100) ->
  0 <= st_nlink st -> 0 <= st_size st ->
  length ds = 12%nat -> strip_fixed ds -> strip_fixed name ->
  parse_ls_date half two ds now = Some modify ->
  parse_list_line_unix half two now (build_list_string_with st ds name)
  = Ok (name, mklinfo (type_of_char (filetype_char (st_mode st))) (mode_view (st_mode st))
                      (str_of_Z (st_nlink st)) t_none t_none (str_of_Z (st_size st)) modify None).
Proof.
  intros Hty Hnl Hsz Hlen Hds Hname Hdate.
  destruct st as [size ct mt nlink mode]. cbn [st_mode st_nlink st_size] in *.
  rewrite list_line_shape. unfold parse_list_line_unix.
  set (tail5 := ds ++ SP :: name).
  set (tail4 := str_of_Z size ++ SP :: tail5).
  set (tail3 := t_none ++ SP :: tail4).
  set (tail2 := t_none ++ SP :: tail3).
  set (tail1 := str_of_Z nlink ++ SP :: tail2).
  (* rstrip leaves the line alone *)
  assert (R : rstrip (filetype_char mode :: perm_chars mode ++ SP :: tail1)
              = filetype_char mode :: perm_chars mode ++ SP :: tail1).
  { destruct Hname as (Nn & Nr & _).
    replace (filetype_char mode :: perm_chars mode ++ SP :: tail1)
      with ((filetype_char mode :: perm_chars mode ++ SP :: str_of_Z nlink ++ SP :: t_none ++ SP :: t_none
              ++ SP :: str_of_Z size ++ SP :: ds ++ [SP]) ++ name).
    - apply rstrip_app_nonempty; assumption.
    - subst tail1 tail2 tail3 tail4 tail5. cbn [app]. f_equal.
      repeat (rewrite <- ?app_assoc; cbn [app]). reflexivity. }
  rewrite R. clear R. cbv beta iota zeta.
  rewrite (slice_perm _ _ _ (perm_chars_length mode)), (skipn_perm _ _ _ (perm_chars_length mode)).
  rewrite (parse_perm_chars mode). cbn [bind].
  (* link count *)
  rewrite (lstrip_cons_space SP tail1 is_space_SP).
  assert (S1 : starts_nonspace tail1) by (apply starts_nonspace_app, str_nonneg_starts; exact Hnl).
  rewrite (lstrip_starts_nonspace tail1 S1).
  subst tail1. rewrite (take_field_app _ _ (str_nonneg_avoids_sp nlink Hnl)). cbn [bind].
  rewrite (str_nonneg_isdigit nlink Hnl). cbn [negb].
  (* owner, group *)
  assert (S2 : starts_nonspace tail2) by (exists 110, ([111; 110; 101] ++ SP :: tail3); split; [reflexivity|vm_compute; reflexivity]).
  rewrite (lstrip_starts_nonspace tail2 S2). subst tail2.
  rewrite (take_field_app t_none _ ltac:(reflexivity)). cbn [bind].
  assert (S3 : starts_nonspace tail3) by (exists 110, ([111; 110; 101] ++ SP :: tail4); split; [reflexivity|vm_compute; reflexivity]).
  rewrite (lstrip_starts_nonspace tail3 S3). subst tail3.
  rewrite (take_field_app t_none _ ltac:(reflexivity)). cbn [bind].
  (* size *)
  assert (S4 : starts_nonspace tail4) by (apply starts_nonspace_app, str_nonneg_starts; exact Hsz).
  rewrite (lstrip_starts_nonspace tail4 S4). subst tail4.
  rewrite (take_field_app _ _ (str_nonneg_avoids_sp size Hsz)). cbn [bind].
  rewrite (str_nonneg_isdigit size Hsz). cbn [negb].
  (* date column and name *)
  assert (S5 : starts_nonspace tail5) by (apply starts_nonspace_app, strip_fixed_starts; exact Hds).
  rewrite (lstrip_starts_nonspace tail5 S5). subst tail5.
  rewrite (firstn_exact 12 ds _ Hlen), (strip_fixed_strip ds Hds), Hdate.
  rewrite (skipn_exact 12 ds _ Hlen).
  rewrite (strip_sp_cons name Hname).
  destruct name as [|c0 name']; [destruct Hname as [Nn _]; contradiction|].
  unfold type_of_char. destruct Hty as [-> | ->]; reflexivity.
Qed.

(* the two date columns the server emits are 12 characters and strip-fixed (4-digit years) *)
Lemma hm_text_props t : valid_dt t = true -> length (fmt_b_e_HM t) = 12%nat /\ strip_fixed (fmt_b_e_HM t).
Proof.
  intro V. destruct (valid_dt_fields t V) as (HM & HD & Hh & Hmn).
  pose proof (month_abbr_length _ HM) as L3.
  unfold fmt_b_e_HM. destruct (month_abbr (mo t)) as [|a [|b [|c [|? ?]]]] eqn:E; try discriminate.
  assert (Ha : 65 <= a <= 122) by (apply (month_abbr_chars (mo t)); [exact HM|rewrite E; left; reflexivity]).
  assert (Sa : is_space a = false).
  { pose proof (forallb_zrange (fun c => negb (is_space c)) 65 58 ltac:(vm_compute; reflexivity) a ltac:(simpl; lia)) as S.
    apply negb_true_iff in S. exact S. }
  split.
  - unfold spad2. destruct (dy t <? 10); reflexivity.
  - repeat split.
    + discriminate.
    + replace ([a; b; c] ++ [SP] ++ spad2 (dy t) ++ [SP] ++ zfill2 (hh t) ++ [COLON] ++ zfill2 (mi t))
        with (([a; b; c] ++ [SP] ++ spad2 (dy t) ++ [SP] ++ zfill2 (hh t) ++ [COLON]) ++ zfill2 (mi t))
        by (repeat (rewrite <- ?app_assoc; cbn [app]); reflexivity).
      apply rstrip_app_nonempty; [discriminate|].
      apply all_ascii_digit_rstrip. unfold zfill2. cbn [forallb]. rewrite !mod10_digit. reflexivity.
    + cbn [app]. apply lstrip_cons_nonspace. exact Sa.
Qed.

Lemma y_text_props t : valid_dt t = true -> 1000 <= yr t <= 9999 ->
  length (fmt_b_e_Y t) = 12%nat /\ strip_fixed (fmt_b_e_Y t).
Proof.
  intros V HY. destruct (valid_dt_fields t V) as (HM & HD & Hh & Hmn).
  pose proof (month_abbr_length _ HM) as L3.
  unfold fmt_b_e_Y. rewrite (str_of_Z_4 _ HY).
  destruct (month_abbr (mo t)) as [|a [|b [|c [|? ?]]]] eqn:E; try discriminate.
  assert (Ha : 65 <= a <= 122) by (apply (month_abbr_chars (mo t)); [exact HM|rewrite E; left; reflexivity]).
  assert (Sa : is_space a = false).
  { pose proof (forallb_zrange (fun c => negb (is_space c)) 65 58 ltac:(vm_compute; reflexivity) a ltac:(simpl; lia)) as S.
    apply negb_true_iff in S. exact S. }
  split.
  - unfold spad2. destruct (dy t <? 10); reflexivity.
  - repeat split.
    + discriminate.
    + replace ([a; b; c] ++ [SP] ++ spad2 (dy t) ++ [SP; SP] ++ digits4 (yr t))
        with (([a; b; c] ++ [SP] ++ spad2 (dy t) ++ [SP; SP]) ++ digits4 (yr t))
        by (repeat (rewrite <- ?app_assoc; cbn [app]); reflexivity).
      apply rstrip_app_nonempty; [discriminate|].
      apply all_ascii_digit_rstrip. unfold digits4. cbn [forallb]. rewrite !mod10_digit. reflexivity.
    + cbn [app]. apply lstrip_cons_nonspace. exact Sa.
Qed.

(* ---------------- the whole LIST line: server formatter, then client parser ---------------- *)
Definition plain_entry (st : stats) (name : text) : Prop :=
  (filetype_char (st_mode st) = 45 \/ filetype_char (st_mode st) = 100) /\
  0 <= st_nlink st /\ 0 <= st_size st /\ strip_fixed name.

Definition list_info (st : stats) (modify : text) : linfo :=
  mklinfo (type_of_char (filetype_char (st_mode st))) (mode_view (st_mode st))
          (str_of_Z (st_nlink st)) t_none t_none (str_of_Z (st_size st)) modify None.

Theorem list_line_recent half two off now now' st name :
  consts_ok half two = true ->
  now <= now' <= now + HOUR ->
  now - half_year_spec + DAY < st_mtime st <= now ->
  plain_entry st name ->
  let tm := civil_of_epoch (st_mtime st + off) in
  1000 <= yr tm -> yr (client_now off now') <= 9999 ->
  parse_list_line_unix half two (client_now off now') (build_list_string half off now st name)
  = Ok (name, list_info st (format_date_time tm)).
Proof.
  intros C Hn Hm (Hty & Hnl & Hsz & Hname) tm HY HY'.
  unfold build_list_string, list_info.
  assert (C' := C). unfold consts_ok in C'. apply andb_true_iff in C' as [C' _].
  apply andb_true_iff in C' as [C1 _]. apply Z.leb_le in C1.
  destruct (epoch_of_civil_of_epoch (st_mtime st + off)) as [_ Vm]. fold tm in Vm.
  destruct (hm_text_props tm Vm) as [L12 SF].
  apply list_roundtrip; try assumption.
  - rewrite (build_recent half off _ now C1 Hm). exact L12.
  - rewrite (build_recent half off _ now C1 Hm). exact SF.
  - apply ls_date_recent_text; assumption.
Qed.

Theorem list_line_old_or_future half two off now nowdt st name :
  half <= half_year_spec ->
  st_mtime st <= now - half_year_spec \/ now < st_mtime st ->
  plain_entry st name ->
  let tm := civil_of_epoch (st_mtime st + off) in
  1000 <= yr tm <= 9999 ->
  parse_list_line_unix half two nowdt (build_list_string half off now st name)
  = Ok (name, list_info st (fmt_14 (day_floor tm))).
Proof.
  intros C Hm (Hty & Hnl & Hsz & Hname) tm HY.
  unfold build_list_string, list_info.
  destruct (epoch_of_civil_of_epoch (st_mtime st + off)) as [_ Vm]. fold tm in Vm.
  destruct (y_text_props tm Vm HY) as [L12 SF].
  apply list_roundtrip; try assumption.
  - rewrite (build_old_or_future half off _ now C Hm). exact L12.
  - rewrite (build_old_or_future half off _ now C Hm). exact SF.
  - apply ls_date_old_or_future_text; assumption.
Qed.

(* F13b (repaired): a set-uid file without the execute bit — the former witness — round-trips *)
Lemma list_line_setuid_witness :
  let st := mkstats 5 0 1717243100 1 35236 in     (* 0o104644: '-rwSr--r--' *)
  parse_list_line_unix half_year_spec 63115200 (civil_of_epoch 1717243200)
    (build_list_string half_year_spec 0 1717243200 st [102])
  = Ok ([102], list_info st [50; 48; 50; 52; 48; 54; 48; 49; 49; 49; 53; 56; 48; 48])
  /\ li_mode (list_info st []) = 2468 /\ no_ST (st_mode st) = false.   (* 0o4644 *)
Proof. vm_compute. repeat split; reflexivity. Qed.

(* F13a: leading whitespace of a name does not survive the LIST line *)
Lemma list_leading_space_lost :
  let st := mkstats 5 0 1717243100 1 33188 in
  parse_list_line_unix half_year_spec 63115200 (civil_of_epoch 1717243200)
    (build_list_string half_year_spec 0 1717243200 st [32; 97])
  = Ok ([97], list_info st [50; 48; 50; 52; 48; 54; 48; 49; 49; 49; 53; 56; 48; 48]).
Proof. vm_compute. reflexivity. Qed.

(* ---------------- the LIST worker loop + the client's line-by-line parsing ---------------- *)
Definition outside_window (now mtime : Z) : Prop :=
  now - half_year_spec + DAY < mtime <= now \/ mtime <= now - half_year_spec \/ now < mtime.

Definition list_entry_ok (off now : Z) (e : dentry) : Prop :=
  exists st, de_stat e = Some st /\ plain_entry st (de_name e) /\
             1000 <= yr (civil_of_epoch (st_mtime st + off)) <= 9999 /\
             outside_window now (st_mtime st).

Definition expected_modify (off now : Z) (st : stats) : text :=
  let tm := civil_of_epoch (st_mtime st + off) in
  if (st_mtime st <=? now - half_year_spec) || (now <? st_mtime st)
  then fmt_14 (day_floor tm) else format_date_time tm.

Theorem list_entries_exact half two off now now' dir :
  consts_ok half two = true ->
  now <= now' <= now + HOUR -> yr (client_now off now') <= 9999 ->
  Forall (list_entry_ok off now) dir ->
  map (parse_list_line_unix half two (client_now off now')) (list_lines half off now dir)
  = map (fun e => match de_stat e with
                  | Some st => Ok (de_name e, list_info st (expected_modify off now st))
                  | None => Err 0
                  end) dir.
Proof.
  intros C Hn HY' F.
  assert (C' := C). unfold consts_ok in C'. apply andb_true_iff in C' as [C' _].
  apply andb_true_iff in C' as [_ C2]. apply Z.leb_le in C2.
  induction F as [|e rest (st & Es & P & HY & W) _ IH]; [reflexivity|].
  unfold list_lines in *. cbn [flat_map map]. rewrite Es. cbn [app map]. rewrite IH. f_equal.
  unfold expected_modify.
  destruct ((st_mtime st <=? now - half_year_spec) || (now <? st_mtime st)) eqn:B.
  - apply list_line_old_or_future; try assumption.
    apply orb_true_iff in B as [B|B]; [left; apply Z.leb_le in B; exact B|right; apply Z.ltb_lt in B; exact B].
  - apply orb_false_iff in B as [B1 B2]. apply Z.leb_gt in B1. apply Z.ltb_ge in B2.
    apply list_line_recent; try assumption; try lia.
    destruct W as [W|[W|W]]; [exact W|lia|lia].
Qed.
