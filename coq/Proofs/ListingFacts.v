(* Facts about Model/Listing.v: the MLSx and LIST line codecs round-trip. *)
From Coq Require Import ZArith List Bool Lia.
From Verif Require Import Lib.Sx Lib.PyStr Lib.PyStr2 Lib.Civil Model.LsDate Model.Listing.
From Verif Require Import Proofs.PyStrFacts Proofs.PyStr2Facts Proofs.CivilSweep Proofs.CivilFacts Proofs.LsDateFacts.
Import ListNotations.
Open Scope Z_scope.

(* s contains no character c *)
Definition avoids (c : Z) (s : text) : Prop := forallb (fun x => negb (x =? c)) s = true.

Lemma avoids_app c a b : avoids c a -> avoids c b -> avoids c (a ++ b).
Proof. unfold avoids. intros A B. rewrite forallb_app, A, B. reflexivity. Qed.

Lemma avoids_digits c s : is_ascii_digit c = false -> forallb is_ascii_digit s = true -> avoids c s.
Proof.
  unfold avoids. intros Hc H. rewrite forallb_forall in *. intros x Hx.
  apply negb_true_iff. apply Z.eqb_neq. intro E. subst. rewrite (H _ Hx) in Hc. discriminate.
Qed.

Lemma avoids_str_of_Z c n : is_ascii_digit c = false -> c <> 45 -> avoids c (str_of_Z n).
Proof.
  intros Hc H45. unfold avoids. rewrite forallb_forall. intros x Hx.
  apply negb_true_iff. apply Z.eqb_neq. intro E. subst.
  apply str_of_Z_chars in Hx as [Hx|Hx]; [contradiction|congruence].
Qed.

Lemma avoids_zfill2 c n : is_ascii_digit c = false -> avoids c (zfill2 n).
Proof.
  intro Hc. apply avoids_digits; [exact Hc|]. unfold zfill2. cbn [forallb]. rewrite !mod10_digit. reflexivity.
Qed.

Lemma avoids_fmt14 c t : is_ascii_digit c = false -> c <> 45 -> avoids c (fmt_14 t).
Proof.
  intros Hc H45. unfold fmt_14. repeat apply avoids_app; try (apply avoids_zfill2; exact Hc).
  apply avoids_str_of_Z; assumption.
Qed.

(* ---- split / partition ---- *)
Lemma split_on_none c a : avoids c a -> split_on c a = [a].
Proof.
  unfold avoids. induction a as [|x a IH]; cbn; intro H; [reflexivity|].
  apply andb_true_iff in H as [Hx Ha]. apply negb_true_iff in Hx. rewrite Hx, (IH Ha). reflexivity.
Qed.

Lemma split_on_app c a b : avoids c a -> split_on c (a ++ c :: b) = a :: split_on c b.
Proof.
  unfold avoids. induction a as [|x a IH]; cbn; intro H.
  - rewrite Z.eqb_refl. reflexivity.
  - apply andb_true_iff in H as [Hx Ha]. apply negb_true_iff in Hx. rewrite Hx, (IH Ha). reflexivity.
Qed.

(* ---- MLSx ---- *)
Definition clean (s : text) : Prop := avoids 32 s /\ avoids 59 s /\ avoids 61 s.

Definition fact_text (kv : text * text) : text := fst kv ++ [EQ] ++ snd kv ++ [SEMI].
Definition fact_body (kv : text * text) : text := fst kv ++ EQ :: snd kv.

Lemma fact_text_body kv : fact_text kv = fact_body kv ++ [SEMI].
Proof. unfold fact_text, fact_body. cbn. rewrite <- app_assoc. reflexivity. Qed.

Lemma flat_facts_nonempty facts : facts <> [] -> flat_map fact_text facts <> [].
Proof.
  destruct facts as [|kv r]; [congruence|]. intros _ H. cbn in H. rewrite fact_text_body in H.
  apply app_eq_nil in H as [H _]. apply app_eq_nil in H as [_ H]. discriminate.
Qed.

Lemma clean_body kv : clean (fst kv) -> clean (snd kv) -> avoids 59 (fact_body kv) /\ avoids 32 (fact_body kv).
Proof.
  intros (A1 & A2 & A3) (B1 & B2 & B3). unfold fact_body. split.
  - apply (avoids_app 59 (fst kv) (EQ :: snd kv) A2). unfold avoids in *. cbn. exact B2.
  - apply (avoids_app 32 (fst kv) (EQ :: snd kv) A1). unfold avoids in *. cbn. exact B1.
Qed.

Lemma split_facts facts :
  facts <> [] -> Forall (fun kv => clean (fst kv) /\ clean (snd kv)) facts ->
  split_on SEMI (removelast (flat_map fact_text facts)) = map fact_body facts.
Proof.
  induction facts as [|kv rest IH]; [congruence|]. intros _ F. inversion F as [|? ? [Ck Cv] Fr]; subst.
  destruct (clean_body kv Ck Cv) as [A _].
  destruct rest as [|kv2 rest'].
  - cbn [flat_map map]. rewrite app_nil_r, fact_text_body, removelast_last. apply split_on_none. exact A.
  - cbn [flat_map map] in *. rewrite fact_text_body, <- app_assoc.
    rewrite removelast_app by discriminate.
    assert (R : removelast ([SEMI] ++ fact_text kv2 ++ flat_map fact_text rest')
                = SEMI :: removelast (fact_text kv2 ++ flat_map fact_text rest')).
    { change ([SEMI] ++ ?x) with (SEMI :: x). cbn [removelast].
      destruct (fact_text kv2 ++ flat_map fact_text rest') eqn:E; [|reflexivity].
      exfalso. apply (flat_facts_nonempty (kv2 :: rest')); [discriminate|exact E]. }
    rewrite R. rewrite (split_on_app SEMI _ _ A). f_equal. apply IH; [discriminate|exact Fr].
Qed.

Lemma flat_facts_avoid_space facts :
  Forall (fun kv => clean (fst kv) /\ clean (snd kv)) facts -> avoids 32 (flat_map fact_text facts).
Proof.
  induction 1 as [|kv rest [Ck Cv] _ IH]; [reflexivity|]. cbn [flat_map]. apply avoids_app; [|exact IH].
  rewrite fact_text_body. apply avoids_app; [apply (clean_body kv Ck Cv)|reflexivity].
Qed.

Definition entry_of (facts : list (text * text)) : list (text * text) :=
  fold_left (fun e kv => dict_set (lower (fst kv)) (snd kv) e) facts [].

Lemma fold_bodies facts : forall acc,
  Forall (fun kv => clean (fst kv) /\ clean (snd kv)) facts ->
  fold_left (fun e fact => let '(key, _, value) := partition EQ fact in dict_set (lower key) value e)
            (map fact_body facts) acc
  = fold_left (fun e kv => dict_set (lower (fst kv)) (snd kv) e) facts acc.
Proof.
  induction facts as [|kv rest IH]; intros acc F; [reflexivity|].
  inversion F as [|? ? [(A1 & A2 & A3) Cv] Fr]; subst. cbn [map fold_left].
  change (fact_body kv) with (fst kv ++ EQ :: snd kv).
  rewrite (partition_app EQ (fst kv) (snd kv) A3). apply IH. exact Fr.
Qed.

Definition name_ok (name : text) : Prop := name <> [] /\ rstrip name = name.

(* any fact list the server can emit, followed by any name, is parsed back exactly *)
Lemma parse_mlsx_facts facts name :
  facts <> [] -> Forall (fun kv => clean (fst kv) /\ clean (snd kv)) facts -> name_ok name ->
  parse_mlsx_line (flat_map fact_text facts ++ [SP] ++ name) = (name, entry_of facts).
Proof.
  intros Hne F [Nn Nr]. unfold parse_mlsx_line.
  rewrite (rstrip_app_nonempty _ ([SP] ++ name)).
  - change ([SP] ++ name) with (SP :: name).
    rewrite (partition_app SP _ name (flat_facts_avoid_space facts F)).
    rewrite (split_facts facts Hne F). rewrite (fold_bodies facts [] F). reflexivity.
  - discriminate.
  - change ([SP] ++ name) with ([SP] ++ name). apply rstrip_app_nonempty; assumption.
Qed.

Lemma kind_text_clean k : clean (kind_text k).
Proof. unfold kind_text. destruct (k =? K_FILE); [|destruct (k =? K_DIR)]; repeat split; reflexivity. Qed.

Lemma mlsx_facts_clean st kind :
  Forall (fun kv => clean (fst kv) /\ clean (snd kv)) (mlsx_facts st kind).
Proof.
  unfold mlsx_facts. apply Forall_app. split.
  - destruct st as [s|]; [|constructor].
    repeat constructor; cbn [fst snd]; try reflexivity;
      try (apply avoids_str_of_Z; [reflexivity|lia]);
      try (apply avoids_fmt14; [reflexivity|lia]).
  - repeat constructor; cbn [fst snd]; try reflexivity; apply kind_text_clean.
Qed.

Lemma build_mlsx_string_eq st kind name :
  build_mlsx_string st kind name = flat_map fact_text (mlsx_facts st kind) ++ [SP] ++ name.
Proof. reflexivity. Qed.

Definition l_size : text := [115; 105; 122; 101].
Definition l_create : text := [99; 114; 101; 97; 116; 101].
Definition l_modify : text := [109; 111; 100; 105; 102; 121].
Definition l_type : text := [116; 121; 112; 101].

Lemma lower_keys : lower k_Size = l_size /\ lower k_Create = l_create /\ lower k_Modify = l_modify /\ lower k_Type = l_type.
Proof. vm_compute. repeat split; reflexivity. Qed.

(* mlsx_roundtrip *)
Theorem mlsx_roundtrip st kind name :
  name_ok name ->
  parse_mlsx_line (build_mlsx_string (Some st) kind name)
  = (name, [ (l_size, str_of_Z (st_size st));
             (l_create, format_mlsx_time (st_ctime st));
             (l_modify, format_mlsx_time (st_mtime st));
             (l_type, kind_text kind) ]).
Proof.
  intro N. rewrite build_mlsx_string_eq.
  rewrite parse_mlsx_facts; [|discriminate|apply mlsx_facts_clean|exact N].
  reflexivity.
Qed.

Theorem mlsx_roundtrip_missing kind name :
  name_ok name ->
  parse_mlsx_line (build_mlsx_string None kind name) = (name, [ (l_type, kind_text kind) ]).
Proof.
  intro N. rewrite build_mlsx_string_eq.
  rewrite parse_mlsx_facts; [|discriminate|apply mlsx_facts_clean|exact N].
  reflexivity.
Qed.

(* the 14 digits read back *)
Definition parse14 (s : text) : dt :=
  mkdt (int_of_ascii_digits (slice 0 4 s)) (int_of_ascii_digits (slice 4 6 s))
       (int_of_ascii_digits (slice 6 8 s)) (int_of_ascii_digits (slice 8 10 s))
       (int_of_ascii_digits (slice 10 12 s)) (int_of_ascii_digits (slice 12 14 s)).

Lemma int_ascii_digits4 y : 0 <= y <= 9999 -> int_of_ascii_digits (digits4 y) = y.
Proof.
  intro H. unfold digits4, int_of_ascii_digits, digit_val. cbn [fold_left].
  Z.div_mod_to_equations; lia.
Qed.

Lemma parse14_fmt14 t :
  1000 <= yr t <= 9999 -> 0 <= mo t <= 99 -> 0 <= dy t <= 99 -> 0 <= hh t <= 99 ->
  0 <= mi t <= 99 -> 0 <= ss t <= 99 -> parse14 (fmt_14 t) = t.
Proof.
  intros HY H1 H2 H3 H4 H5. unfold fmt_14. rewrite (str_of_Z_4 _ HY).
  destruct t as [Y Mo D h mn s]. cbn [yr mo dy hh mi ss] in *.
  unfold parse14, digits4, zfill2. cbn [app slice skipn firstn Nat.sub].
  change [48 + (Y / 1000) mod 10; 48 + (Y / 100) mod 10; 48 + (Y / 10) mod 10; 48 + Y mod 10] with (digits4 Y).
  rewrite (int_ascii_digits4 Y) by lia.
  change [48 + (Mo / 10) mod 10; 48 + Mo mod 10] with (zfill2 Mo).
  change [48 + (D / 10) mod 10; 48 + D mod 10] with (zfill2 D).
  change [48 + (h / 10) mod 10; 48 + h mod 10] with (zfill2 h).
  change [48 + (mn / 10) mod 10; 48 + mn mod 10] with (zfill2 mn).
  change [48 + (s / 10) mod 10; 48 + s mod 10] with (zfill2 s).
  rewrite !int_of_zfill2 by lia. reflexivity.
Qed.

(* the time fact denotes the backend's mtime exactly, as UTC seconds *)
Theorem mlsx_time_exact e :
  1000 <= yr (civil_of_epoch e) <= 9999 ->
  epoch_of_civil (parse14 (format_mlsx_time e)) = e.
Proof.
  intro HY. unfold format_mlsx_time.
  destruct (epoch_of_civil_of_epoch e) as [E V].
  destruct (valid_date_bounds _ _ _ (valid_dt_date _ V)) as (Hm & Hd & _).
  destruct (valid_dt_time _ V) as (Hh & Hmi & Hs).
  rewrite parse14_fmt14 by lia. exact E.
Qed.

(* ---- the lister loops ---- *)
Definition entry_name_ok (name : text) : Prop :=
  name_ok name /\ name <> DOT /\ name <> DOTDOT.

(* every directory entry exactly once, in order, none invented, with its own facts *)
Theorem mlsd_entries_exact dir :
  Forall (fun e => entry_name_ok (de_name e)) dir ->
  client_mlsd (mlsd_lines dir)
  = map (fun e => (de_name e, entry_of (mlsx_facts (de_stat e) (de_kind e)))) dir.
Proof.
  induction 1 as [|e rest [N [N1 N2]] _ IH]; [reflexivity|].
  unfold client_mlsd, mlsd_lines in *. cbn [map].
  rewrite build_mlsx_string_eq.
  rewrite parse_mlsx_facts; [|unfold mlsx_facts; destruct (de_stat e); discriminate|apply mlsx_facts_clean|exact N].
  cbn [filter fst].
  destruct (text_eqb (de_name e) DOT) eqn:E1; [apply text_eqb_eq in E1; contradiction|].
  destruct (text_eqb (de_name e) DOTDOT) eqn:E2; [apply text_eqb_eq in E2; contradiction|].
  cbn [orb negb]. f_equal. exact IH.
Qed.
