(* The two finite sweeps behind Proofs/CivilFacts.v (kept in a file of their own: ~40 s of
   vm_compute): every day of a 400-year era, and every (year-of-era, month, day). *)
From Coq Require Import ZArith List Bool Lia.
From Verif Require Import Lib.Sx Lib.Civil.
Import ListNotations.
Open Scope Z_scope.

(* ---- finite sweeps over integer ranges ---- *)
Definition zrange (lo : Z) (n : nat) : list Z := map (fun i => lo + Z.of_nat i) (seq 0 n).

Lemma in_zrange lo n x : lo <= x < lo + Z.of_nat n -> In x (zrange lo n).
Proof.
  intro H. unfold zrange. apply in_map_iff. exists (Z.to_nat (x - lo)). split; [lia|].
  apply in_seq. lia.
Qed.

Lemma forallb_zrange p lo n :
  forallb p (zrange lo n) = true -> forall x, lo <= x < lo + Z.of_nat n -> p x = true.
Proof. intros H x Hx. rewrite forallb_forall in H. apply H. apply in_zrange. exact Hx. Qed.

(* ---- leap years ---- *)
Lemma is_leap_shift y k : is_leap (y + 400 * k) = is_leap y.
Proof.
  unfold is_leap.
  replace ((y + 400 * k) mod 4) with (y mod 4) by (rewrite (Z.mul_comm 400 k); replace (k * 400) with (k * 100 * 4) by ring; rewrite Z_mod_plus_full; reflexivity).
  replace ((y + 400 * k) mod 100) with (y mod 100) by (rewrite (Z.mul_comm 400 k); replace (k * 400) with (k * 4 * 100) by ring; rewrite Z_mod_plus_full; reflexivity).
  replace ((y + 400 * k) mod 400) with (y mod 400) by (rewrite (Z.mul_comm 400 k); rewrite Z_mod_plus_full; reflexivity).
  reflexivity.
Qed.

Lemma days_in_month_shift y k m : days_in_month (y + 400 * k) m = days_in_month y m.
Proof. unfold days_in_month. rewrite is_leap_shift. reflexivity. Qed.

(* ---- the era sweep ---- *)
Definition doe_of (yoe m d : Z) : Z := yoe * 365 + yoe / 4 - yoe / 100 + doy_of_md m d.

Definition check_doe (doe : Z) : bool :=
  let '(yoe, m, d) := civil_of_doe doe in
  (0 <=? yoe) && (yoe <=? 399) && (1 <=? m) && (m <=? 12) && (1 <=? d)
  && (d <=? days_in_month (if m <=? 2 then yoe + 1 else yoe) m)
  && (doe_of yoe m d =? doe).

Lemma sweep_doe :
  forallb (fun a => forallb (fun b => let doe := a * 400 + b in (146097 <=? doe) || check_doe doe)
                            (zrange 0 400)) (zrange 0 366) = true.
Proof. vm_compute. reflexivity. Qed.

Lemma check_doe_all doe : 0 <= doe < 146097 -> check_doe doe = true.
Proof.
  intro H. pose proof sweep_doe as S.
  pose proof (forallb_zrange _ _ _ S (doe / 400)) as S1. cbv beta in S1.
  assert (Ha : 0 <= doe / 400 < 0 + Z.of_nat 366) by (split; [apply Z.div_pos; lia| apply Z.div_lt_upper_bound; lia]).
  specialize (S1 Ha).
  pose proof (forallb_zrange _ _ _ S1 (doe mod 400)) as S2. cbv beta zeta in S2.
  assert (Hb : 0 <= doe mod 400 < 0 + Z.of_nat 400) by (pose proof (Z.mod_pos_bound doe 400); lia).
  specialize (S2 Hb).
  replace (doe / 400 * 400 + doe mod 400) with doe in S2 by (pose proof (Z.div_mod doe 400); lia).
  apply orb_true_iff in S2 as [S2|S2]; [apply Z.leb_le in S2; lia|exact S2].
Qed.

Definition check_ymd (yoe m d : Z) : bool :=
  negb (d <=? days_in_month (if m <=? 2 then yoe + 1 else yoe) m)
  || (let doe := doe_of yoe m d in
      (0 <=? doe) && (doe <? 146097)
      && (let '(yoe', m', d') := civil_of_doe doe in (yoe' =? yoe) && (m' =? m) && (d' =? d))).

Lemma sweep_ymd :
  forallb (fun yoe => forallb (fun m => forallb (fun d => check_ymd yoe m d) (zrange 1 31))
                              (zrange 1 12)) (zrange 0 400) = true.
Proof. vm_compute. reflexivity. Qed.

Lemma check_ymd_all yoe m d :
  0 <= yoe < 400 -> 1 <= m <= 12 -> 1 <= d <= 31 -> check_ymd yoe m d = true.
Proof.
  intros Hy Hm Hd. pose proof sweep_ymd as S.
  pose proof (forallb_zrange _ _ _ S yoe ltac:(simpl; lia)) as S1. cbv beta in S1.
  pose proof (forallb_zrange _ _ _ S1 m ltac:(simpl; lia)) as S2. cbv beta in S2.
  exact (forallb_zrange _ _ _ S2 d ltac:(simpl; lia)).
Qed.

