(* The parameters of Model/Faults.v built from the facts regenerated out of server.py / pathio.py,
   and the closed checks on them (evaluated by vm_compute in Props/C13.v). *)
From Coq Require Import ZArith List Bool String.
From Verif Require Import Lib.Sx Lib.Facts Model.Session Model.Faults Model.FaultsCheck Gen.Dispatch Gen.Faultsites Proofs.GenTable.
Import ListNotations.
Open Scope list_scope.
Local Open Scope string_scope.

Definition shipped_classes : list string := ["PathIO"; "AsyncPathIO"; "MemoryPathIO"].
(* universal_exception is the OUTERMOST decorator of operation m in class c *)
Definition wrapped_in (c m : string) : bool :=
  match assoc_s c pathio_wrappers with
  | Some ops => match assoc_s m ops with
                | Some (d :: _) => String.eqb d "universal_exception"
                | _ => false
                end
  | None => false
  end.

Definition gen_wrapped (m : string) : bool := forallb (fun c => wrapped_in c m) shipped_classes.

Definition gen_react : option (list string) := react_of dispatcher.
(* the items of each worker's async-with scope, normalised by gen_faultsites (what each variable is bound to) *)
Definition ctx_for (n : string) : list string := match assoc_s n worker_ctx with Some l => l | None => [] end.
Definition gen_cstor : list string := ctx_for "stor_worker".
Definition gen_cretr : list string := ctx_for "retr_worker".
Definition gen_clist : list string := ctx_for "list_worker".
Definition gen_cmlsd : list string := ctx_for "mlsd_worker".

(* ---- closed checks *)
(* every backend operation of the three shipped classes carries universal_exception outermost *)
Definition all_wrapped : bool :=
  forallb (fun c => forallb (fun m => wrapped_in c m) backend_ops) shipped_classes.

(* universal_exception lets through exactly the three control exceptions and turns every other Exception
   into PathIOError *)
Definition ue_ok : bool :=
  match ue_ladder with
  | [(pass, "raise"); (["Exception"], "raise:errors.PathIOError")] =>
      list_eqb String.eqb pass ["asyncio.CancelledError"; "NotImplementedError"; "StopAsyncIteration"]
  | _ => false
  end.

(* the file context reaches the backend with _open on enter and close on exit, its bound methods are the
   backend's, and open() itself is lazy *)
Definition filectx_ok : bool :=
  open_is_lazy && list_eqb String.eqb filectx_enter ["_open"] && list_eqb String.eqb filectx_exit ["close"]
  && forallb (fun e => match assoc_s (fst e) filectx_bound with Some b => String.eqb b (snd e) | None => false end)
             [("seek", "seek"); ("write", "write"); ("read", "read"); ("close", "close"); ("iter_by_block", "read")].

(* the call sites the hand-written bodies of Model/Faults.v stand for are the ones in the source *)
Definition methods_of (l : list bcall) : list string := map bc_method l.
Definition hsites (n : string) : list string :=
  match find_handler n handlers with Some h => methods_of (h_backend h) | None => ["?"] end.
Definition hspawns (n : string) : list string :=
  match find_handler n handlers with Some h => h_spawns h | None => ["?"] end.
Definition helper_sites (n : string) : list string :=
  match find_handler n helpers with Some h => methods_of (h_backend h) | None => ["?"] end.
Definition wsites (n : string) : list string :=
  match find_worker n workers with Some w => methods_of (w_backend w) | None => ["?"] end.
Definition wfile (n : string) : list (string * list string) :=
  match assoc_s n worker_file_calls with Some l => l | None => [("?", [])] end.

Definition sl := list_eqb String.eqb.

Definition sites_ok : bool :=
  sl (hsites "mkd") ["mkdir(parents=True)"] && sl (hsites "rmd") ["rmdir"] && sl (hsites "dele") ["unlink"]
  && sl (hsites "rnto") ["rename"] && sl (hsites "mlst") ["@build_mlsx_string"] && sl (hsites "stor") ["is_dir"]
  && sl (hsites "list") [] && sl (hsites "mlsd") [] && sl (hsites "retr") [] && sl (hsites "cwd") []
  && sl (hsites "rnfr") [] && sl (hsites "appe") [] && sl (hsites "cdup") []
  && sl (hspawns "list") ["list_worker"] && sl (hspawns "mlsd") ["mlsd_worker"]
  && sl (hspawns "retr") ["retr_worker"] && sl (hspawns "stor") ["stor_worker"]
  && sl (helper_sites "build_mlsx_string") ["exists"; "stat"; "is_file"; "is_dir"]
  && sl (helper_sites "build_list_string") ["stat"; "@build_list_mtime"]
  && sl (wsites "list_worker") ["list"; "exists"; "@build_list_string"]
  && sl (wsites "mlsd_worker") ["list"; "@build_mlsx_string"]
  && sl (wsites "retr_worker") ["open"] && sl (wsites "stor_worker") ["open"]
  (* calls on the file context inside its scope (the variable's name does not matter) *)
  && list_eqb sl (map snd (wfile "stor_worker")) [["seek"; "write"]]
  && list_eqb sl (map snd (wfile "retr_worker")) [["seek"; "iter_by_block"]]
  && list_eqb sl (map snd (wfile "list_worker")) []
  && list_eqb sl (map snd (wfile "mlsd_worker")) []
  (* every handler that reaches the backend is one of the above: nobody else has a call site *)
  && forallb (fun h => mem_s (h_name h) ["mkd"; "rmd"; "dele"; "rnto"; "mlst"; "stor"]
                       || match h_backend h with [] => true | _ => false end) handlers
  (* rnto deletes the pending rename, nobody else among the faultable handlers touches connection state
     before its backend call *)
  && match find_handler "rnto" handlers with Some h => sl (h_conn_dels h) ["rename_from"] && sl (h_conn_sets h) [] | None => false end
  && forallb (fun n => match find_handler n handlers with
                       | Some h => sl (h_conn_dels h) [] && sl (h_conn_sets h) [] | None => false end)
             ["mkd"; "rmd"; "dele"; "mlst"; "stor"; "list"; "mlsd"; "retr"].

(* every worker detaches the data connection first, replies after its contexts, and has one of the known
   context shapes *)
Definition workers_ok : bool :=
  forallb (fun n => match find_worker n workers with
                    | Some w => w_detach_first w && w_reply_after_ctx w
                                && match w_decos w with [DConn ["data_connection"] true "425"; DWorker] => true | _ => false end
                    | None => false end)
          ["stor_worker"; "retr_worker"; "list_worker"; "mlsd_worker"]
  && (shape_eqb (shape_of gen_cstor) FileFirst || shape_eqb (shape_of gen_cstor) StreamFirst)
  && (shape_eqb (shape_of gen_cretr) FileFirst || shape_eqb (shape_of gen_cretr) StreamFirst)
  && shape_eqb (shape_of gen_clist) StreamOnly && shape_eqb (shape_of gen_cmlsd) StreamOnly.

Definition conds_ok : bool :=
  list_eqb (fun a b => String.eqb (fst a) (fst b) && String.eqb (fst (snd a)) (fst (snd b)) && Bool.eqb (snd (snd a)) (snd (snd b)))
           pathcond_defs ref_conds.

(* nothing between a backend call and the dispatcher stops a PathIOError: the handlers, helpers and workers
   that reach the backend and the decorators they run under contain no `with` (contextlib.suppress ...) and
   no try whose except clauses name anything but CancelledError / TimeoutError *)
Definition propagates_ok : bool :=
  forallb (fun e => let '(_, (kind, classes)) := e in
                    (String.eqb kind "try" || String.eqb kind "try;finally")
                    && forallb (fun c => mem_s c ["asyncio.CancelledError"; "asyncio.TimeoutError"]) classes)
          local_catch_sites.
