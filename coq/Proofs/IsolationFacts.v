(* C17: the closed obligation that ties locality to the CODE.  A checker over the write sites
   regenerated from server.py (Gen/Isolation.v) and the handler footprints of Gen/Dispatch.v:
   per-session state lives on the per-socket Connection object only; the server object is written
   only through the declared shared structures. *)
From Coq Require Import ZArith List Bool String Ascii.
From Verif Require Import Lib.Facts Lib.IsoFacts Gen.Dispatch Gen.Isolation.
Import ListNotations.
Open Scope list_scope.
Local Open Scope string_scope.

Definition pair_mem (x : string * string) (l : list (string * string)) : bool :=
  existsb (fun y => String.eqb (fst x) (fst y) && String.eqb (snd x) (snd y)) l.

(* functions that set the server up / tear it down: not run on behalf of one session *)
Definition lifecycle : list string := ["__init__"; "start"; "serve_forever"; "run"; "close"; "address"].

(* the declared shared structures: what a session function may do to the server object *)
Definition shared_ok : list (string * string) :=
  [ ("throttle_per_user.[]", "set");                 (* one throttle per user, by design (C15) *)
    ("available_connections", "call:acquire");        (* C10 *)
    ("available_connections", "call:release");
    ("available_data_ports", "call:get_nowait");      (* C11 *)
    ("available_data_ports", "call:put_nowait") ].
(* the registry of live connections: the dispatcher alone, keyed by its own stream *)
Definition registry_ok : list (string * string) := [ ("connections.[]", "set"); ("connections", "call:pop") ].

(* mutating calls on objects hanging off the session's own Connection *)
Definition conn_calls_ok : list (string * string) :=
  [ ("extra_workers", "call:add"); ("data_connection", "call:close"); ("passive_server", "call:close");
    ("command_connection.throttles", "call:update") ].

Definition is_call (k : string) : bool := String.prefix "call:" k.
Definition has_dot (s : string) : bool :=
  existsb (fun c => Ascii.eqb c "."%char) (list_ascii_of_string s).

Definition bad_root (r : string) : bool :=
  String.eqb r "self" || String.eqb r "cls" || String.prefix "@" r.

(* one write site of a session function (anything but lifecycle and the dispatcher) *)
Definition site_ok (w : wsite) : bool :=
  let b := ws_base w in
  if String.eqb b "connection" then
    if is_call (ws_kind w) then pair_mem (ws_path w, ws_kind w) conn_calls_ok
    else negb (has_dot (ws_path w)) && negb (String.eqb (ws_path w) "")   (* connection.<attr> = / del / aug *)
  else if String.eqb b "self" then
    (* in the decorator wrappers `self` is the decorator instance, shared by every session: never written *)
    negb (has_dot (ws_fn w) && String.prefix "Conn" (ws_fn w)) && negb (String.prefix "Path" (ws_fn w))
    && pair_mem (ws_path w, ws_kind w) shared_ok
  else if String.eqb b "local" then negb (existsb bad_root (ws_roots w))
  else false.                                                               (* cls / free / global / expr *)

Definition dispatcher_site_ok (w : wsite) : bool :=
  let b := ws_base w in
  if String.eqb b "connection" then
    if is_call (ws_kind w) then pair_mem (ws_path w, ws_kind w) conn_calls_ok
    else negb (has_dot (ws_path w)) && negb (String.eqb (ws_path w) "")
  else if String.eqb b "self" then
    pair_mem (ws_path w, ws_kind w) shared_ok || pair_mem (ws_path w, ws_kind w) registry_ok
  else String.eqb b "local".        (* locals of ONE dispatcher invocation; their wiring is checked below *)

Definition site_check (w : wsite) : bool :=
  if mem_s (ws_fn w) lifecycle then true
  else if String.eqb (ws_fn w) "dispatcher" then dispatcher_site_ok w
  else site_ok w.

Definition sites_ok : bool := forallb site_check iso_sites.

(* the write sites that break the rule (Props states this list is empty: a failure NAMES the site) *)
Definition offending_sites : list wsite := filter (fun w => negb (site_check w)) iso_sites.

Lemma offending_sites_nil_iff : offending_sites = [] <-> sites_ok = true.
Proof.
  unfold offending_sites, sites_ok. induction iso_sites as [|w l IH]; cbn [filter forallb].
  - split; reflexivity.
  - destruct (site_check w); cbn [negb andb].
    + exact IH.
    + split; intro H; discriminate H.
Qed.

(* the name `connection` always denotes the Connection of the session the code runs for: bound only by
   the dispatcher (once, to Connection(...)) and by the server-wide close(); no global / nonlocal
   statement, no class-level mutable attribute on Server / Connection; the registry self.connections
   is touched by start / close / dispatcher only *)
Definition subset_s (a b : list string) : bool := forallb (fun x => mem_s x b) a.
Definition naming_ok : bool :=
  subset_s iso_conn_rebound ["close"; "dispatcher"]
  && subset_s iso_registry_users ["start"; "close"; "dispatcher"]
  && match iso_globals with [] => true | _ => false end
  && match iso_class_state with [] => true | _ => false end.

(* Connection(...) is constructed in the dispatcher only, once per accepted socket, bound once;
   its per-session members are FRESH objects, the rest constants or read-only configuration *)
Definition config_attrs : list string :=
  ["server_port"; "socket_timeout"; "idle_timeout"; "wait_future_timeout"; "block_size"; "path_io_factory"; "path_timeout"].

Definition kw_is (k v : string) : bool :=
  match assoc_s k iso_conn_kw with Some v' => String.eqb v v' | None => false end.

Definition kw_src_ok (kv : string * string) : bool :=
  let v := snd kv in
  String.eqb v "const" || String.prefix "fresh:" v || String.prefix "lambda:put_nowait@fresh:" v || String.prefix "local:" v || String.prefix "param:" v
  || (String.prefix "self." v && mem_s (String.substring 5 (String.length v - 5) v) config_attrs).

Definition construction_ok : bool :=
  match iso_conn_ctor with ["dispatcher"] => true | _ => false end
  && Nat.eqb iso_conn_ctor_total 1 && iso_conn_ctor_assigned_once
  && kw_is "extra_workers" "fresh:set"
  && kw_is "response" "lambda:put_nowait@fresh:asyncio.Queue"
  && kw_is "command_connection" "fresh:ThrottleStreamIO"
  && kw_is "restart_offset" "const" && kw_is "acquired" "const"
  && forallb kw_src_ok iso_conn_kw
  && iso_path_io_fresh
  && match iso_response_writer_args with
     | ["fresh:ThrottleStreamIO"; "fresh:asyncio.Queue"] => true | _ => false end
  && iso_dispatch_own_connection
  (* the same keyword list as the one Gen.Dispatch reports (two independent extractions) *)
  && match d_conn_init dispatcher with [] => false | _ => true end
  && subset_s (d_conn_init dispatcher) (map fst iso_conn_kw)
  && subset_s (map fst iso_conn_kw) (d_conn_init dispatcher).

(* PASV / EPSV: the accept handler is a nested function of the command handler, takes no
   `connection` parameter (it closes over the handler's), is handed unchanged to asyncio.start_server,
   and (by sites_ok) writes connection.data_connection only *)
Definition passive_ok : bool :=
  match iso_passive_callbacks with [] => false | _ => true end
  && forallb (fun x => snd x) iso_passive_callbacks
  && subset_s ["pasv"; "epsv"] (map (fun x => fst (fst x)) iso_passive_callbacks)
  && iso_start_passive_passes_callback
  (* the accept handler (second component: its qualified name - nested in the command handler, or nested in a helper
     that is called with the handler's own connection and returns it) sets connection.data_connection *)
  && forallb (fun x =>
       existsb (fun w => String.eqb (ws_fn w) (snd (fst x)) && String.eqb (ws_base w) "connection"
                         && String.eqb (ws_path w) "data_connection" && String.eqb (ws_kind w) "set") iso_sites)
     iso_passive_callbacks.

(* pathio.py: the nursery builds a NEW backend instance per call (per accepted socket) and writes nothing but its
   `state` (the shared tree, by design); no backend method other than __init__ assigns an attribute of the instance;
   no class-level mutable on the backend classes *)
Definition backend_ok : bool :=
  iso_nursery_fresh && subset_s iso_nursery_self_writes ["state"]
  && match iso_backend_self_writes with [] => true | _ => false end
  && match iso_backend_class_state with [] => true | _ => false end.

(* the handler footprints of Gen.Dispatch agree: writes to self only in user() (the per-user throttle);
   calls on self are Server methods or the user manager / connection counter *)
Definition self_call_ok (c : string) : bool :=
  String.prefix "self.user_manager." c || String.prefix "self.available_connections." c
  || (String.prefix "self." c && mem_s (String.substring 5 (String.length c - 5) c) iso_functions).

Definition dispatch_facts_ok : bool :=
  forallb (fun h =>
    (if String.eqb (h_name h) "user" then subset_s (h_self_writes h) ["throttle_per_user.[]"]
     else match h_self_writes h with [] => true | _ => false end)
    && forallb self_call_ok (h_self_calls h)
    && forallb (fun a => negb (has_dot a)) (h_conn_sets h)) (handlers ++ helpers).

(* common.py: what a stream keeps under `throttles` is either a reference to a declared shared throttle (server-wide, per user)
   or the result of a factory call; every class of common.py defining such a factory method returns a newly constructed
   object on every path (no `return self`, no cached object) - per-connection throttles are per connection *)
Definition factories_ok : bool :=
  match iso_throttle_factory_calls with [] => false | _ => true end
  && forallb (fun r => String.eqb r "self.throttle" || String.prefix "self.throttle_per_user[" r) iso_throttle_shared_refs
  && forallb (fun m => existsb (fun f => String.eqb (snd (fst f)) m) iso_factories) iso_throttle_factory_calls
  && forallb (fun f => String.eqb (snd f) "fresh") iso_factories.

Definition isolation_facts_ok : bool :=
  translator_ok_isolation && translator_ok
  && sites_ok && naming_ok && construction_ok && passive_ok && dispatch_facts_ok && backend_ok && factories_ok.
