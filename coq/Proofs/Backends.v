(* Proofs for C18: MemFS (MemoryPathIO) and PosixFS (pathlib on a POSIX kernel) agree, operation by
   operation, under the preconditions the server's handler stack establishes; composition over
   guarded command sequences; witnesses for the genuine divergences. *)
From Coq Require Import ZArith List Bool Lia.
From Verif Require Import Lib.Sx Model.FsBase Model.MemFS Model.PosixFS Model.BackendSrv Proofs.FsFacts.
Import ListNotations.
Open Scope Z_scope.

(* same success/failure and same value: every failure is PathIOError at the API *)
Definition res_eq (a b : result) : Prop :=
  match a, b with
  | Ok v, Ok w => v = w
  | Err _, Err _ => True
  | _, _ => False
  end.

Definition step_agree (x y : result * node) : Prop := res_eq (fst x) (fst y) /\ snd x = snd y.

Lemma res_eq_refl r : res_eq r r.
Proof. destruct r; cbn; auto. Qed.

Lemma step_agree_refl x : step_agree x x.
Proof. split; [apply res_eq_refl|reflexivity]. Qed.

Lemma res_eq_api a b : res_eq a b -> result_api a = result_api b.
Proof. destruct a, b; cbn; intros H; try contradiction; subst; reflexivity. Qed.

(* ---- 1. path resolution: get_node and the kernel walk find the same node ---- *)
Lemma resolve_lookup p t :
  lookup p t = match resolve p t with Found n => Some n | Fail _ => None end.
Proof.
  revert t. induction p as [|x p IH]; intro t; cbn; [reflexivity|].
  destruct t as [d|es]; [reflexivity|]. destruct (assoc x es); [apply IH|reflexivity].
Qed.

Lemma resolve_found p t n : resolve p t = Found n <-> lookup p t = Some n.
Proof.
  rewrite resolve_lookup. destruct (resolve p t); split; intro H; inversion H; reflexivity.
Qed.

Lemma resolve_fail p t : (exists e, resolve p t = Fail e) <-> lookup p t = None.
Proof.
  rewrite resolve_lookup. destruct (resolve p t) as [n|e]; split; intro H.
  - destruct H as [e H]; discriminate.
  - discriminate.
  - reflexivity.
  - exists e; reflexivity.
Qed.

Lemma exists_agree t p : m_exists t p = p_exists t p.
Proof. unfold m_exists, p_exists, get_node. rewrite resolve_lookup. destruct (resolve p t); reflexivity. Qed.

Lemma is_dir_agree t p : m_is_dir t p = p_is_dir t p.
Proof. unfold m_is_dir, p_is_dir, get_node. rewrite resolve_lookup. destruct (resolve p t) as [[|]|]; reflexivity. Qed.

Lemma is_file_agree t p : m_is_file t p = p_is_file t p.
Proof. unfold m_is_file, p_is_file, get_node. rewrite resolve_lookup. destruct (resolve p t) as [[|]|]; reflexivity. Qed.

Lemma list_agree t p : m_list t p = p_list t p.
Proof. unfold m_list, p_list, get_node. rewrite resolve_lookup. destruct (resolve p t) as [[|]|]; reflexivity. Qed.

Lemma stat_agree t p : res_eq (m_stat t p) (p_stat t p).
Proof. unfold m_stat, p_stat, get_node. rewrite resolve_lookup. destruct (resolve p t) as [[|]|]; cbn; auto. Qed.

(* ---- 2. rmdir / unlink: agree on every path (RMD: exists and is_dir; DELE: exists and is_file) ---- *)
Lemma rmdir_agree t p : step_agree (m_rmdir t p) (p_rmdir t p).
Proof.
  unfold m_rmdir, p_rmdir, get_node. rewrite resolve_lookup.
  destruct (resolve p t) as [[d|[|e es]]|e]; try (split; cbn; auto; fail).
  destruct p; split; cbn; auto.
Qed.

Lemma unlink_agree t p : step_agree (m_unlink t p) (p_unlink t p).
Proof.
  unfold m_unlink, p_unlink, get_node. rewrite resolve_lookup.
  destruct (resolve p t) as [[d|es]|e]; split; cbn; auto.
Qed.

(* ---- 3. handle scripts ---- *)
(* a script the server issues: non-negative seeks, reads only on handles readable in both
   backends, writes only on handles writable in both *)
Definition hop_fits (r1 w1 r2 w2 : bool) (h : hop) : Prop :=
  match h with
  | HSeek off => 0 <= off
  | HRead _ => r1 = true /\ r2 = true
  | HWrite _ => w1 = true /\ w2 = true
  end.

Lemma run_hops_agree r1 w1 r2 w2 a e1 e2 s : forall data pos,
  Forall (hop_fits r1 w1 r2 w2) s ->
  run_hops r1 w1 a e1 data pos s = run_hops r2 w2 a e2 data pos s.
Proof.
  induction s as [|h s IH]; intros data pos F; [reflexivity|].
  inversion F as [|? ? Hh Hs]; subst. destruct h as [off|n|d]; cbn in Hh |- *.
  - assert (off <? 0 = false) as -> by lia. rewrite (IH data off Hs). reflexivity.
  - destruct Hh as [-> ->]. rewrite (IH _ _ Hs). reflexivity.
  - destruct Hh as [-> ->]. rewrite (IH _ _ Hs). reflexivity.
Qed.

Lemma zlen_app a b : zlen (a ++ b) = zlen a + zlen b.
Proof. unfold zlen. rewrite app_length. lia. Qed.

Lemma write_at_end data d : write_at data (zlen data) d = data ++ d.
Proof.
  unfold write_at. destruct d as [|x d]; [rewrite app_nil_r; reflexivity|].
  unfold zlen. rewrite Nat2Z.id. rewrite firstn_all, Nat.sub_diag. cbn [zeros app].
  rewrite skipn_all2 by lia. rewrite app_nil_r. reflexivity.
Qed.

(* 'ab': MemoryPathIO seeks to the end once, the kernel appends on every write (O_APPEND);
   the same for scripts of writes only (the server never seeks on an 'ab' handle) *)
Definition is_write (h : hop) : Prop := match h with HWrite _ => True | _ => False end.

Lemma run_hops_append r1 r2 e1 e2 s : forall data,
  Forall is_write s ->
  run_hops r1 true false e1 data (zlen data) s = run_hops r2 true true e2 data (zlen data) s.
Proof.
  induction s as [|h s IH]; intros data F; [reflexivity|].
  inversion F as [|? ? Hh Hs]; subst. destruct h as [off|n|d]; cbn in Hh; try contradiction.
  cbn. rewrite write_at_end, <- zlen_app. rewrite (IH _ Hs). reflexivity.
Qed.

Lemma hops_ok_writes r a e s : forall data pos,
  Forall (fun h => match h with HSeek off => 0 <= off | HRead _ => r = true | HWrite _ => True end) s ->
  forallb hres_ok (fst (run_hops r true a e data pos s)) = true.
Proof.
  induction s as [|h s IH]; intros data pos F; [reflexivity|].
  inversion F as [|? ? Hh Hs]; subst. destruct h as [off|n|d]; cbn.
  - assert (off <? 0 = false) as -> by lia.
    specialize (IH data off Hs). destruct (run_hops r true a e data off s). cbn in *. exact IH.
  - subst r. specialize (IH data (pos + zlen (read_at data pos n)) Hs).
    destruct (run_hops true true a e data (pos + zlen (read_at data pos n)) s). cbn in *. exact IH.
  - match goal with |- context [run_hops r true a e ?D ?P s] => specialize (IH D P Hs); destruct (run_hops r true a e D P s) end.
    cbn in *. exact IH.
Qed.

(* ---- 4. open as the transfer workers use it ---- *)
Lemma lookup_snoc_dir pp x t es : lookup pp t = Some (Dir es) -> lookup (pp ++ [x]) t = assoc x es.
Proof. intro H. rewrite lookup_snoc, H. reflexivity. Qed.

Lemma lookup_snoc_some pp x t n :
  lookup (pp ++ [x]) t = Some n -> exists es, lookup pp t = Some (Dir es) /\ assoc x es = Some n.
Proof.
  rewrite lookup_snoc. destruct (lookup pp t) as [[d|es]|]; try discriminate. intro H. exists es. auto.
Qed.

Definition seek_write (h : hop) : Prop :=
  match h with HSeek off => 0 <= off | HRead _ => False | HWrite _ => True end.

Lemma seek_write_fits r1 r2 s : Forall seek_write s -> Forall (hop_fits r1 true r2 true) s.
Proof.
  intro F. eapply Forall_impl; [|exact F]. intros [off|n|d]; cbn; tauto.
Qed.

(* STOR / APPE: the handler has checked is_dir(parent).  Agreement for 'wb', for 'ab' when the
   script only writes, for 'r+b' (on a missing file both fail since the repair of F06). *)
Lemma open_write_agree t pp x es m s :
  lookup pp t = Some (Dir es) ->
  Forall seek_write s ->
  (m = WB \/ (m = AB /\ Forall is_write s) \/ m = RPB) ->
  step_agree (m_open t (pp ++ [x]) m s) (p_open t (pp ++ [x]) m s).
Proof.
  intros Hpp Fs Hm.
  assert (Hres : resolve pp t = Found (Dir es)) by (apply resolve_found, Hpp).
  unfold m_open, p_open, get_node, resolve_parent.
  rewrite (lookup_snoc_dir _ x _ _ Hpp), unsnoc_snoc, Hpp, Hres.
  destruct Hm as [->|[[-> Fw]| ->]].
  - (* wb *)
    destruct (assoc x es) as [[d|es']|] eqn:E.
    + rewrite (run_hops_agree true true false true false EValue EINVAL s [] 0 (seek_write_fits _ _ _ Fs)).
      apply step_agree_refl.
    + split; cbn; auto.
    + rewrite (run_hops_agree true true false true false EValue EINVAL s [] 0 (seek_write_fits _ _ _ Fs)).
      apply step_agree_refl.
  - (* ab *)
    destruct (assoc x es) as [[d|es']|] eqn:E.
    + rewrite (run_hops_append true false EValue EINVAL s d Fw). apply step_agree_refl.
    + split; cbn; auto.
    + change 0 with (zlen []).
      rewrite (run_hops_append true false EValue EINVAL s [] Fw). apply step_agree_refl.
  - (* r+b *)
    destruct (assoc x es) as [[d|es']|] eqn:E;
      [| |destruct (proj2 (resolve_fail (pp ++ [x]) t)) as [e He];
          [rewrite (lookup_snoc_dir _ x _ _ Hpp); exact E|rewrite He; split; cbn; auto]].
    + assert (Hr : resolve (pp ++ [x]) t = Found (File d))
        by (apply resolve_found; rewrite (lookup_snoc_dir _ x _ _ Hpp); exact E).
      rewrite Hr.
      rewrite (run_hops_agree true true true true false EValue EINVAL s d 0 (seek_write_fits _ _ _ Fs)).
      apply step_agree_refl.
    + assert (Hr : resolve (pp ++ [x]) t = Found (Dir es'))
        by (apply resolve_found; rewrite (lookup_snoc_dir _ x _ _ Hpp); exact E).
      rewrite Hr. split; cbn; auto.
Qed.

(* RETR: the handler has checked exists and is_file *)
Definition seek_read (h : hop) : Prop :=
  match h with HSeek off => 0 <= off | HRead _ => True | HWrite _ => False end.

Lemma open_read_agree t p d s :
  lookup p t = Some (File d) -> Forall seek_read s ->
  m_open t p RB s = p_open t p RB s.
Proof.
  intros Hp Fs. unfold m_open, p_open, get_node. rewrite Hp.
  assert (Hr : resolve p t = Found (File d)) by (apply resolve_found, Hp). rewrite Hr.
  rewrite (run_hops_agree true true true false false EValue EINVAL s d 0); [reflexivity|].
  eapply Forall_impl; [|exact Fs]. intros [off|n|b]; cbn; tauto.
Qed.

(* ---- 5. rename as RNTO issues it ---- *)
Lemma is_prefix_snoc a bp bn :
  is_prefix a (bp ++ [bn]) = is_prefix a bp || path_eqb a (bp ++ [bn]).
Proof.
  revert bp. induction a as [|x a IH]; intro bp; [reflexivity|].
  destruct bp as [|y bp]; cbn.
  - destruct (name_eqb x bn); [|reflexivity]. destruct a; reflexivity.
  - destruct (name_eqb x y); [apply IH|reflexivity].
Qed.

Lemma prefix_lookup b a t : is_prefix b a = true -> lookup a t <> None -> lookup b t <> None.
Proof.
  intros H L. apply is_prefix_spec in H as [c ->]. rewrite lookup_app in L.
  destruct (lookup b t); congruence.
Qed.

(* RNTO: the handler has checked that the destination does not exist.  Since the repair of
   MemoryPathIO.rename (F07a, F07b, F17) no further condition is needed: source == destination,
   a vanished source, a destination below a file or inside the source all fail on both. *)
Lemma rename_agree t a b :
  a <> [] -> lookup b t = None ->
  step_agree (m_rename t a b) (p_rename t a b).
Proof.
  intros Ha Hb.
  destruct (unsnoc a) as [[ap an]|] eqn:Ea; [|apply unsnoc_none in Ea; contradiction].
  destruct (unsnoc b) as [[bp bn]|] eqn:Eb; [|apply unsnoc_none in Eb; subst; discriminate].
  apply unsnoc_spec in Ea. apply unsnoc_spec in Eb.
  unfold m_rename, p_rename, get_node.
  rewrite (proj2 (unsnoc_spec a ap an) Ea), (proj2 (unsnoc_spec b bp bn) Eb).
  unfold resolve_parent.
  destruct (lookup a t) as [sn|] eqn:La.
  - (* the source exists *)
    destruct (path_eqb a b) eqn:Hab; [apply path_eqb_eq in Hab; congruence|].
    subst a. destruct (lookup_snoc_some _ _ _ _ La) as [ses [Lap Has]].
    rewrite (proj2 (resolve_found ap t (Dir ses)) Lap).
    destruct (lookup bp t) as [[d|des]|] eqn:Lbp.
    + rewrite (proj2 (resolve_found bp t (File d)) Lbp). split; cbn; auto.
    + rewrite (proj2 (resolve_found bp t (Dir des)) Lbp). rewrite Has.
      destruct (is_prefix (ap ++ [an]) b) eqn:Pab; [split; cbn; auto|].
      destruct (is_prefix b (ap ++ [an])) eqn:Pba.
      { exfalso. eapply prefix_lookup in Pba; [apply Pba, Hb|rewrite La; discriminate]. }
      assert (Hbn : assoc bn des = None) by (subst b; rewrite <- (lookup_snoc_dir _ bn _ _ Lbp); exact Hb).
      rewrite Hbn. destruct sn; apply step_agree_refl.
    + destruct (proj2 (resolve_fail bp t) Lbp) as [e He]. rewrite He. split; cbn; auto.
  - (* the source is gone *)
    destruct (resolve ap t) as [[d|ses]|e] eqn:Rap; try (split; cbn; auto; fail).
    destruct (resolve bp t) as [[d|des]|e] eqn:Rbp; try (split; cbn; auto; fail).
    assert (Has : assoc an ses = None).
    { subst a. apply resolve_found in Rap. rewrite <- (lookup_snoc_dir _ an _ _ Rap). exact La. }
    rewrite Has. split; cbn; auto.
Qed.

(* ---- 6. MKD: mkdir(parents=True) on a path that does not exist ---- *)
Lemma resolve_snoc pp x t :
  resolve (pp ++ [x]) t =
  match resolve pp t with
  | Fail e => Fail e
  | Found (File _) => Fail ENOTDIR
  | Found (Dir es) => match assoc x es with Some c => Found c | None => Fail ENOENT end
  end.
Proof.
  revert t. induction pp as [|y q IH]; intro t; cbn.
  - destruct t as [d|es]; [reflexivity|]. destruct (assoc x es); reflexivity.
  - destruct t as [d|es]; [reflexivity|]. destruct (assoc y es); [apply IH|reflexivity].
Qed.

Lemma resolve_fail_kind p t e : resolve p t = Fail e -> e = ENOENT \/ e = ENOTDIR.
Proof.
  revert t. induction p as [|x p IH]; intro t; cbn; [discriminate|].
  destruct t as [d|es]; [intros H; inversion H; auto|].
  destruct (assoc x es); [apply IH|intros H; inversion H; auto].
Qed.

Definition add_dir (x : name) : node -> node := on_dir (fun es => es ++ [(x, Dir [])]).

Lemma walk_enotdir p : forall t, resolve p t = Fail ENOTDIR -> m_mkdir_walk p t = None.
Proof.
  induction p as [|x p IH]; intro t; cbn; [discriminate|].
  destruct t as [d|es]; [reflexivity|]. destruct (assoc x es) as [c|]; [|discriminate].
  intro H. rewrite (IH c H). reflexivity.
Qed.

Lemma walk_snoc_found pp x : forall t es,
  resolve pp t = Found (Dir es) -> assoc x es = None ->
  m_mkdir_walk (pp ++ [x]) t = Some (upd pp (add_dir x) t).
Proof.
  induction pp as [|y q IH]; intros t es; cbn.
  - intros H E. inversion H; subst. rewrite E. reflexivity.
  - destruct t as [d|es0]; [discriminate|]. destruct (assoc y es0) as [c|] eqn:Ey; [|discriminate].
    intros H E. rewrite (IH c es H E). reflexivity.
Qed.

Lemma walk_enoent pp : forall t,
  resolve pp t = Fail ENOENT ->
  exists t1, m_mkdir_walk pp t = Some t1 /\ resolve pp t1 = Found (Dir []) /\
             forall x, m_mkdir_walk (pp ++ [x]) t = Some (upd pp (add_dir x) t1).
Proof.
  induction pp as [|y q IH]; intro t; [discriminate|].
  destruct t as [d|es]; [discriminate|]. cbn [resolve m_mkdir_walk app].
  destruct (assoc y es) as [c|] eqn:Ey.
  - intro H. destruct (IH c H) as [t1c [Hw [Hr Hx]]].
    exists (Dir (set_assoc y t1c es)). rewrite Hw. split; [reflexivity|]. split.
    + cbn. rewrite assoc_set_same by congruence. exact Hr.
    + intro x. rewrite (Hx x). cbn. rewrite assoc_set_same by congruence.
      rewrite set_assoc_twice. reflexivity.
  - intros _. destruct q as [|z q'].
    + exists (Dir (es ++ [(y, Dir [])])). cbn. split; [reflexivity|]. split.
      * rewrite (assoc_app_none _ _ _ Ey). reflexivity.
      * intro x. rewrite (assoc_app_none _ _ _ Ey). cbn. rewrite (set_assoc_app_none _ _ _ _ Ey). reflexivity.
    + assert (H0 : resolve (z :: q') (Dir []) = Fail ENOENT) by reflexivity.
      destruct (IH (Dir []) H0) as [t1c [Hw [Hr Hx]]].
      exists (Dir (es ++ [(y, t1c)])). rewrite Hw. split; [reflexivity|]. split.
      * cbn [resolve]. rewrite (assoc_app_none _ _ _ Ey). exact Hr.
      * intro x. rewrite (Hx x). cbn [upd]. rewrite (assoc_app_none _ _ _ Ey).
        rewrite (set_assoc_app_none _ _ _ _ Ey). reflexivity.
Qed.

Lemma mkdir_parents_enoent rp : forall t eok,
  resolve (rev rp) t = Fail ENOENT ->
  exists t', m_mkdir_walk (rev rp) t = Some t' /\ p_mkdir_parents rp t eok = (Ok VUnit, t').
Proof.
  induction rp as [|x rp' IH]; intros t eok; [discriminate|].
  cbn [rev p_mkdir_parents]. unfold sys_mkdir at 1. rewrite unsnoc_snoc. unfold resolve_parent.
  rewrite resolve_snoc. destruct (resolve (rev rp') t) as [[d|es]|e] eqn:R.
  - discriminate.
  - destruct (assoc x es) as [c|] eqn:Ex; [discriminate|]. intros _.
    exists (upd (rev rp') (add_dir x) t). split; [eapply walk_snoc_found; eassumption|reflexivity].
  - intro H. inversion H; subst e.
    destruct (IH t true R) as [t1 [Hw Hp]]. rewrite Hp.
    destruct (walk_enoent _ _ R) as [t1' [Hw' [Hr' Hx']]].
    rewrite Hw in Hw'. inversion Hw'; subst t1'.
    exists (upd (rev rp') (add_dir x) t1). split; [apply Hx'|].
    unfold p_mkdir_flat, sys_mkdir. rewrite unsnoc_snoc. unfold resolve_parent. rewrite Hr'. reflexivity.
Qed.

Lemma mkdir_parents_enotdir rp t eok :
  resolve (rev rp) t = Fail ENOTDIR -> p_mkdir_parents rp t eok = (Err ENOTDIR, t).
Proof.
  destruct rp as [|x rp']; [discriminate|]. intro H.
  assert (Hd : p_is_dir t (rev (x :: rp')) = false) by (unfold p_is_dir; rewrite H; reflexivity).
  cbn [p_mkdir_parents]. rewrite Hd, andb_false_r.
  cbn [rev] in *. unfold sys_mkdir. rewrite unsnoc_snoc. unfold resolve_parent.
  rewrite resolve_snoc in H. destruct (resolve (rev rp') t) as [[d|es]|e] eqn:R.
  - reflexivity.
  - destruct (assoc x es); discriminate.
  - inversion H; subst. reflexivity.
Qed.

(* MKD: the handler has checked that the path does not exist *)
Lemma mkd_agree t p :
  lookup p t = None -> m_mkdir t p true false = p_mkdir t p true false.
Proof.
  intro H. unfold m_mkdir, p_mkdir, get_node. rewrite H. cbn [negb].
  destruct (proj2 (resolve_fail p t) H) as [e He].
  destruct (resolve_fail_kind _ _ _ He); subst e.
  - rewrite <- (rev_involutive p) in He.
    destruct (mkdir_parents_enoent (rev p) t false He) as [t' [Hw Hp]].
    rewrite rev_involutive in Hw. rewrite Hw, Hp. reflexivity.
  - rewrite (walk_enotdir _ _ He). rewrite <- (rev_involutive p) in He.
    rewrite (mkdir_parents_enotdir _ _ false He). reflexivity.
Qed.

(* ---- 7. MemFS keeps names unique ---- *)
Lemma wf_empty_dir : wf (Dir []).
Proof. apply wf_dir. split; [apply NoDup_nil|apply Forall_nil]. Qed.

Lemma walk_wf p : forall t t', wf t -> m_mkdir_walk p t = Some t' -> wf t'.
Proof.
  induction p as [|x p IH]; intros t t' W; cbn; [intros H; inversion H; subst; exact W|].
  destruct t as [d|es]; [discriminate|]. destruct (assoc x es) as [c|] eqn:E.
  - destruct (m_mkdir_walk p c) as [c'|] eqn:Hw; [|discriminate]. intros H; inversion H; subst.
    apply wf_set_assoc; [exact W|]. eapply IH; [eapply wf_child; eassumption|exact Hw].
  - destruct (m_mkdir_walk p (Dir [])) as [c'|] eqn:Hw; [|discriminate]. intros H; inversion H; subst.
    apply wf_append; [exact W|exact E|]. eapply IH; [exact wf_empty_dir|exact Hw].
Qed.

Lemma wf_add_at pp x c t :
  wf t -> lookup (pp ++ [x]) t = None -> wf c ->
  wf (upd pp (on_dir (fun es => es ++ [(x, c)])) t).
Proof.
  intros W L Wc. apply wf_upd; [exact W|]. intros n Ln Wn. destruct n as [d|es]; [exact Logic.I|].
  cbn. apply wf_append; [exact Wn| |exact Wc]. rewrite <- (lookup_snoc_dir _ x _ _ Ln). exact L.
Qed.

Lemma wf_remove t p : wf t -> wf (m_remove t p).
Proof.
  intro W. unfold m_remove. destruct (unsnoc p) as [[pp x]|]; [|exact W].
  apply wf_upd; [exact W|]. intros n _ Wn. destruct n as [d|es]; [exact Logic.I|]. apply wf_remove_first, Wn.
Qed.

Lemma wf_set_file p d t : wf t -> wf (upd p (fun _ => File d) t).
Proof. intro W. apply wf_upd; [exact W|]. intros; exact Logic.I. Qed.

Lemma m_run_wf t o : wf t -> wf (snd (m_run t o)).
Proof.
  intro W. destruct o as [p|p|p|p par eok|p|p|p|p|a b|p m s]; cbn [m_run snd]; try exact W.
  - (* mkdir *)
    unfold m_mkdir, get_node. destruct (lookup p t) as [n|] eqn:L.
    + destruct (negb (is_dir_node n) || negb eok); exact W.
    + destruct par; cbn [negb].
      * destruct (m_mkdir_walk p t) as [t'|] eqn:Hw; [|exact W]. eapply walk_wf; eassumption.
      * destruct (unsnoc p) as [[pp x]|] eqn:E; [|exact W]. apply unsnoc_spec in E. subst p.
        destruct (lookup pp t) as [[d|es]|]; try exact W. cbn [snd].
        apply wf_add_at; [exact W|exact L|exact wf_empty_dir].
  - (* rmdir *)
    unfold m_rmdir, get_node. destruct (lookup p t) as [[d|[|e es]]|]; try exact W.
    destruct p; [exact W|]. apply wf_remove, W.
  - (* unlink *)
    unfold m_unlink, get_node. destruct (lookup p t) as [[d|es]|]; try exact W. apply wf_remove, W.
  - (* rename *)
    unfold m_rename, get_node. destruct (lookup a t) as [sn|] eqn:La; [|exact W].
    destruct (path_eqb a b); [exact W|].
    destruct (unsnoc a) as [[ap an]|]; [|exact W]. destruct (unsnoc b) as [[bp bn]|]; [|exact W].
    destruct (lookup bp t) as [[d|des]|] eqn:Lbp; try exact W. destruct (is_prefix a b); [exact W|]. cbn [snd].
    assert (W1 : wf (upd ap (on_dir (remove_first an)) t)).
    { apply wf_upd; [exact W|]. intros n _ Wn. destruct n as [d|es]; [exact Logic.I|]. cbn.
      apply wf_remove_first, Wn. }
    apply wf_upd; [exact W1|]. intros n _ Wn. destruct n as [d|es]; [exact Logic.I|]. cbn.
    apply wf_put; [exact Wn|]. exact (wf_lookup _ _ _ W La).
  - (* open *)
    unfold m_open, get_node.
    assert (Hrun : forall d pos t0, wf t0 ->
              wf (snd (let '(rs, data') := run_hops true true false EValue d pos s in
                       (Ok (VOpen rs), upd p (fun _ => File data') t0)))).
    { intros d pos t0 W0. destruct (run_hops true true false EValue d pos s). apply wf_set_file, W0. }
    destruct m; try exact W;
      (destruct (lookup p t) as [[d|es]|] eqn:L; try exact W; try (apply Hrun; exact W)).
    all: destruct (unsnoc p) as [[pp x]|] eqn:E; try exact W; apply unsnoc_spec in E; subst p;
      destruct (lookup pp t) as [[d|es]|]; try exact W;
      destruct (run_hops true true false EValue [] 0 s); cbn [snd];
      apply wf_set_file, wf_add_at; [exact W|exact L|exact Logic.I].
Qed.

(* ---- 8. server level ---- *)
Definition targets_root (c : cmd) : bool :=
  match c with
  | CMkd [] | CRmd [] | CDele [] | CRnfr [] | CRnto [] | CStor [] _ _ | CAppe [] _ _ => true
  | _ => false
  end.

(* the only carve-out left (it is the property's own): mutations aimed at the virtual root itself.
   Before the repair of MemoryPathIO (F06, F07a, F07b, F17) the statement also had to exclude
   REST n>0 + STOR/APPE to a missing file and three shapes of RNTO, decided on the reached state. *)
Definition shape_ok (c : cmd) : bool := negb (targets_root c).
Definition shapes_ok (cs : list cmd) : bool := forallb shape_ok cs.

(* a failing command changes nothing *)
Fixpoint inert_from (t : node) (l : list (reply * node)) : Prop :=
  match l with
  | [] => True
  | (rep, t') :: r => (failing rep = true -> t' = t) /\ inert_from t' r
  end.

Lemma ask_exists_m t p : ask m_run t (Exists p) = if m_exists t p then GTrue else GFalse.
Proof. unfold ask. cbn. destruct (m_exists t p); reflexivity. Qed.
Lemma ask_exists_p t p : ask p_run t (Exists p) = if m_exists t p then GTrue else GFalse.
Proof. unfold ask. cbn. rewrite <- exists_agree. destruct (m_exists t p); reflexivity. Qed.
Lemma ask_is_dir_m t p : ask m_run t (IsDir p) = if m_is_dir t p then GTrue else GFalse.
Proof. unfold ask. cbn. destruct (m_is_dir t p); reflexivity. Qed.
Lemma ask_is_dir_p t p : ask p_run t (IsDir p) = if m_is_dir t p then GTrue else GFalse.
Proof. unfold ask. cbn. rewrite <- is_dir_agree. destruct (m_is_dir t p); reflexivity. Qed.
Lemma ask_is_file_m t p : ask m_run t (IsFile p) = if m_is_file t p then GTrue else GFalse.
Proof. unfold ask. cbn. destruct (m_is_file t p); reflexivity. Qed.
Lemma ask_is_file_p t p : ask p_run t (IsFile p) = if m_is_file t p then GTrue else GFalse.
Proof. unfold ask. cbn. rewrite <- is_file_agree. destruct (m_is_file t p); reflexivity. Qed.

Lemma m_exists_false t p : m_exists t p = false -> lookup p t = None.
Proof. unfold m_exists, get_node. destruct (lookup p t); [discriminate|reflexivity]. Qed.
Lemma m_exists_true t p : m_exists t p = true -> lookup p t <> None.
Proof. unfold m_exists, get_node. destruct (lookup p t); [discriminate|discriminate]. Qed.
Lemma m_is_dir_true t p : m_is_dir t p = true -> exists es, lookup p t = Some (Dir es).
Proof. unfold m_is_dir, get_node. destruct (lookup p t) as [[d|es]|]; try discriminate. eauto. Qed.
Lemma m_is_file_true t p : m_is_file t p = true -> exists d, lookup p t = Some (File d).
Proof. unfold m_is_file, get_node. destruct (lookup p t) as [[d|es]|]; try discriminate. eauto. Qed.

Lemma simple_agree (x y : result * node) c :
  step_agree x y ->
  (match x with (Ok _, t') => (([c], PNone), t') | (Err _, t') => (([451], PNone), t') end : reply * node)
  = match y with (Ok _, t') => (([c], PNone), t') | (Err _, t') => (([451], PNone), t') end.
Proof.
  destruct x as [[v|e] t1], y as [[w|e'] t2]; intros [H1 H2]; cbn in *; try contradiction; subst; reflexivity.
Qed.

Lemma store_match_agree (x y : result * node) :
  step_agree x y ->
  (match x with
   | (Ok (VOpen rs), t') => if forallb hres_ok rs then (([150; 226], PNone), t') else (([150; 451], PNone), t')
   | (_, t') => (([150; 451], PNone), t')
   end : reply * node)
  = match y with
    | (Ok (VOpen rs), t') => if forallb hres_ok rs then (([150; 226], PNone), t') else (([150; 451], PNone), t')
    | (_, t') => (([150; 451], PNone), t')
    end.
Proof.
  destruct x as [[v|e] t1], y as [[w|e'] t2]; intros [H1 H2]; cbn in *; try contradiction; subst; reflexivity.
Qed.

Lemma stat_entries_agree t p ns : stat_entries m_run t p ns = stat_entries p_run t p ns.
Proof.
  induction ns as [|n r IH]; [reflexivity|]. cbn. rewrite IH.
  pose proof (stat_agree t (p ++ [n])) as H.
  destruct (m_stat t (p ++ [n])) as [v|e], (p_stat t (p ++ [n])) as [w|e']; cbn in H; try contradiction; subst; reflexivity.
Qed.

Lemma listing_agree t p c : listing m_run t p c = listing p_run t p c.
Proof.
  unfold listing. cbn [m_run p_run fst]. rewrite <- list_agree.
  destruct (m_list t p) as [v|e]; [|reflexivity]. destruct v; try reflexivity.
  rewrite stat_entries_agree. reflexivity.
Qed.

Lemma store_agree t p m restart blocks :
  (m = WB \/ m = AB) ->
  store m_run t p m restart blocks = store p_run t p m restart blocks.
Proof.
  intros Hm. unfold store. destruct (unsnoc p) as [[pp x]|] eqn:E; [|reflexivity].
  apply unsnoc_spec in E. subst p. rewrite ask_is_dir_m, ask_is_dir_p.
  destruct (m_is_dir t pp) eqn:Hd; [|reflexivity]. destruct (m_is_dir_true _ _ Hd) as [es Hpp].
  cbn [m_run p_run]. apply store_match_agree. apply open_write_agree with (es := es); [exact Hpp| |].
  - destruct (0 <? restart) eqn:R; cbn [app].
    + constructor; [cbn; lia|]. apply Forall_forall. intros h Hh. apply in_map_iff in Hh as [b [<- _]]. exact Logic.I.
    + apply Forall_forall. intros h Hh. apply in_map_iff in Hh as [b [<- _]]. exact Logic.I.
  - destruct (0 <? restart) eqn:R.
    + right. right. reflexivity.
    + assert (Fw : Forall is_write ([] ++ map HWrite blocks)).
      { apply Forall_forall. intros h Hh. apply in_map_iff in Hh as [b [<- _]]. exact Logic.I. }
      destruct Hm as [->| ->]; [left; reflexivity|right; left; split; [reflexivity|exact Fw]].
Qed.

Lemma retr_script_ok restart : Forall seek_read ((if 0 <? restart then [HSeek restart] else []) ++ [HRead (-1)]).
Proof.
  destruct (0 <? restart) eqn:R; cbn; repeat constructor. cbn. lia.
Qed.

Lemma retrieve_agree t p d restart :
  lookup p t = Some (File d) -> retrieve m_run t p restart = retrieve p_run t p restart.
Proof.
  intro H. unfold retrieve. cbn [m_run p_run].
  rewrite (open_read_agree t p d _ H (retr_script_ok restart)). reflexivity.
Qed.

Lemma rnto_step_agree t a p :
  m_exists t p = false -> step_agree (m_rename t a p) (p_rename t a p).
Proof.
  intros E. destruct a as [|a0 ar].
  - unfold m_rename, p_rename, get_node. destruct p; [cbn in E; discriminate|]. cbn. split; cbn; auto.
  - apply rename_agree; [discriminate|apply m_exists_false, E].
Qed.

(* one command: no hypothesis at all *)
Lemma srv_step_agree rf t c : srv_step m_run (rf, t) c = srv_step p_run (rf, t) c.
Proof.
  destruct c as [p|p|p|p|p|p restart blocks|p restart blocks|p restart|p|p|p|p];
    cbn [srv_step conds];
    rewrite ?ask_exists_m, ?ask_exists_p, ?ask_is_dir_m, ?ask_is_dir_p, ?ask_is_file_m, ?ask_is_file_p.
  - (* MKD *) destruct (m_exists t p) eqn:E; [reflexivity|]. unfold simple. cbn [m_run p_run].
    rewrite (mkd_agree t p (m_exists_false _ _ E)). reflexivity.
  - (* RMD *) destruct (m_exists t p); [|reflexivity]. destruct (m_is_dir t p); [|reflexivity].
    unfold simple. cbn [m_run p_run]. rewrite (simple_agree _ _ 250 (rmdir_agree t p)). reflexivity.
  - (* DELE *) destruct (m_exists t p); [|reflexivity]. destruct (m_is_file t p); [|reflexivity].
    unfold simple. cbn [m_run p_run]. rewrite (simple_agree _ _ 250 (unlink_agree t p)). reflexivity.
  - (* RNFR *) reflexivity.
  - (* RNTO *) destruct rf as [a|]; [|reflexivity]. destruct (m_exists t p) eqn:E; [reflexivity|].
    unfold simple. cbn [m_run p_run].
    rewrite (simple_agree _ _ 250 (rnto_step_agree t a p E)). reflexivity.
  - (* STOR *) rewrite (store_agree t p WB restart blocks); [reflexivity|left; reflexivity].
  - (* APPE *) rewrite (store_agree t p AB restart blocks); [reflexivity|right; reflexivity].
  - (* RETR *) destruct (m_exists t p); [|reflexivity]. destruct (m_is_file t p) eqn:F; [|reflexivity].
    destruct (m_is_file_true _ _ F) as [d Hd]. rewrite (retrieve_agree t p d restart Hd). reflexivity.
  - (* LIST *) destruct (m_exists t p); [|reflexivity]. rewrite listing_agree. reflexivity.
  - (* MLSD *) destruct (m_exists t p); [|reflexivity]. rewrite listing_agree. reflexivity.
  - (* CWD *) reflexivity.
  - (* MLST *) destruct (m_exists t p); [|reflexivity]. cbn [m_run p_run fst].
    pose proof (stat_agree t p) as H.
    destruct (m_stat t p) as [v|e], (p_stat t p) as [w|e']; cbn in H; try contradiction; subst; reflexivity.
Qed.

(* every tree the server model produces is the tree after some backend operation (or unchanged) *)
Section Preserve.
  Variable run : node -> fsop -> result * node.
  Variable P : node -> Prop.
  Hypothesis run_pres : forall t o, P t -> P (snd (run t o)).

  Lemma conds_pres t cs k : P t -> P (snd k) -> P (snd (conds run t cs k)).
  Proof.
    intros Ht Hk. induction cs as [|[o want] r IH]; [exact Hk|]. cbn.
    destruct (ask run t o); destruct want; try exact Ht; exact IH.
  Qed.

  Lemma simple_pres t o c : P t -> P (snd (simple run t o c)).
  Proof.
    intro Ht. unfold simple. pose proof (run_pres t o Ht) as H.
    destruct (run t o) as [[v|e] t']; exact H.
  Qed.

  Lemma store_pres t p m restart blocks : P t -> P (snd (store run t p m restart blocks)).
  Proof.
    intro Ht. unfold store. destruct (unsnoc p) as [[pp x]|]; [|exact Ht].
    destruct (ask run t (IsDir pp)); try exact Ht.
    match goal with |- context [run t ?o] => pose proof (run_pres t o Ht) as H; destruct (run t o) as [[v|e] t'] end;
      [|exact H].
    destruct v; try exact H. destruct (forallb hres_ok rs); exact H.
  Qed.

  Lemma retrieve_pres t p restart : P t -> P (snd (retrieve run t p restart)).
  Proof.
    intro Ht. unfold retrieve.
    match goal with |- context [run t ?o] => pose proof (run_pres t o Ht) as H; destruct (run t o) as [[v|e] t'] end;
      [|exact H].
    destruct v; try exact H. destruct (last rs (HErr EValue)); try exact H. destruct (forallb hres_ok rs); exact H.
  Qed.

  Lemma listing_pres t p c : P t -> P (snd (listing run t p c)).
  Proof.
    intro Ht. unfold listing. destruct (fst (run t (List p))) as [v|e]; [|exact Ht].
    destruct v; try exact Ht. destruct (stat_entries run t p l); exact Ht.
  Qed.

  Lemma srv_step_pres rf t c : P t -> P (snd (snd (srv_step run (rf, t) c))).
  Proof.
    intro Ht. destruct c as [p|p|p|p|p|p restart blocks|p restart blocks|p restart|p|p|p|p]; cbn [srv_step fst snd].
    - apply conds_pres; [exact Ht|apply simple_pres, Ht].
    - apply conds_pres; [exact Ht|apply simple_pres, Ht].
    - apply conds_pres; [exact Ht|apply simple_pres, Ht].
    - destruct (ask run t (Exists p)); exact Ht.
    - destruct rf as [a|]; [|exact Ht]. destruct (ask run t (Exists p)); try exact Ht.
      pose proof (simple_pres t (Rename a p) 250 Ht) as H. destruct (simple run t (Rename a p) 250). exact H.
    - apply store_pres, Ht.
    - apply store_pres, Ht.
    - apply conds_pres; [exact Ht|apply retrieve_pres, Ht].
    - apply conds_pres; [exact Ht|apply listing_pres, Ht].
    - apply conds_pres; [exact Ht|apply listing_pres, Ht].
    - apply conds_pres; [exact Ht|exact Ht].
    - apply conds_pres; [exact Ht|]. destruct (fst (run t (Stat p))) as [v|e]; [|exact Ht]. destruct v; exact Ht.
  Qed.
End Preserve.

Lemma srv_step_wf rf t c : wf t -> wf (snd (snd (srv_step m_run (rf, t) c))).
Proof. apply srv_step_pres. intros t0 o. apply m_run_wf. Qed.

(* ---- a failing command changes nothing (MemFS side; the PosixFS side follows by agreement) ---- *)
Lemma m_mkdir_err t p par eok e : fst (m_mkdir t p par eok) = Err e -> snd (m_mkdir t p par eok) = t.
Proof.
  unfold m_mkdir, get_node. destruct (lookup p t) as [n|].
  - destruct (negb (is_dir_node n) || negb eok); reflexivity.
  - destruct (negb par).
    + destruct (unsnoc p) as [[pp x]|]; [|reflexivity]. destruct (lookup pp t) as [[d|es]|]; try reflexivity. discriminate.
    + destruct (m_mkdir_walk p t); [discriminate|reflexivity].
Qed.

Lemma m_rmdir_err t p e : fst (m_rmdir t p) = Err e -> snd (m_rmdir t p) = t.
Proof.
  unfold m_rmdir, get_node. destruct (lookup p t) as [[d|[|x es]]|]; try reflexivity. destruct p; [reflexivity|discriminate].
Qed.

Lemma m_unlink_err t p e : fst (m_unlink t p) = Err e -> snd (m_unlink t p) = t.
Proof. unfold m_unlink, get_node. destruct (lookup p t) as [[d|es]|]; try reflexivity. discriminate. Qed.

Lemma p_rename_err t a b e : fst (p_rename t a b) = Err e -> snd (p_rename t a b) = t.
Proof.
  unfold p_rename. destruct (unsnoc a) as [[ap an]|]; [|reflexivity]. destruct (unsnoc b) as [[bp bn]|]; [|reflexivity].
  destruct (resolve_parent t ap) as [ses|e1]; [|reflexivity]. destruct (resolve_parent t bp) as [des|e2]; [|reflexivity].
  destruct (assoc an ses) as [sn|]; [|reflexivity]. destruct (path_eqb a b); [reflexivity|].
  destruct (is_prefix a b); [reflexivity|]. destruct (is_prefix b a); [reflexivity|].
  destruct sn as [d|es]; destruct (assoc bn des) as [[d'|[|x es']]|]; try reflexivity; discriminate.
Qed.

Lemma m_open_err t p m s e : fst (m_open t p m s) = Err e -> snd (m_open t p m s) = t.
Proof.
  unfold m_open, get_node.
  assert (Hrun : forall d pos t0 X,
            fst (let '(rs, data') := run_hops true true false EValue d pos s in
                 (Ok (VOpen rs), upd p (fun _ => File data') t0)) = Err e -> X).
  { intros d pos t0 X. destruct (run_hops true true false EValue d pos s). discriminate. }
  destruct m; try reflexivity;
    (destruct (lookup p t) as [[d|es]|]; try reflexivity; try (apply Hrun; fail)).
  all: destruct (unsnoc p) as [[pp x]|]; try reflexivity;
    destruct (lookup pp t) as [[d|es]|]; try reflexivity;
    destruct (run_hops true true false EValue [] 0 s); discriminate.
Qed.

Lemma run_hops_no_write r w a e s : forall data pos,
  Forall seek_read s -> snd (run_hops r w a e data pos s) = data.
Proof.
  induction s as [|h s IH]; intros data pos F; [reflexivity|].
  inversion F as [|? ? Hh Hs]; subst. destruct h as [off|n|d]; cbn in Hh |- *; [| |contradiction].
  - destruct (off <? 0).
    + specialize (IH data pos Hs). destruct (run_hops r w a e data pos s). exact IH.
    + specialize (IH data off Hs). destruct (run_hops r w a e data off s). exact IH.
  - destruct r.
    + specialize (IH data (pos + zlen (read_at data pos n)) Hs).
      destruct (run_hops true w a e data (pos + zlen (read_at data pos n)) s). exact IH.
    + specialize (IH data pos Hs). destruct (run_hops false w a e data pos s). exact IH.
Qed.

Lemma retrieve_tree t p d restart : lookup p t = Some (File d) -> snd (retrieve m_run t p restart) = t.
Proof.
  intro H. unfold retrieve. cbn [m_run]. unfold m_open, get_node. rewrite H.
  pose proof (run_hops_no_write true true false EValue _ d 0 (retr_script_ok restart)) as Hd.
  destruct (run_hops true true false EValue d 0 _) as [rs data']. cbn in Hd. subst data'.
  assert (U : upd p (fun _ => File d) t = t) by (eapply upd_id; [exact H|reflexivity]). rewrite U.
  destruct (last rs (HErr EValue)); try reflexivity. destruct (forallb hres_ok rs); reflexivity.
Qed.

Definition mem_hop_ok (h : hop) : Prop :=
  match h with HSeek off => 0 <= off | HRead _ => true = true | HWrite _ => True end.

(* on a MemoryPathIO handle a script without negative seeks cannot fail *)
Lemma m_open_ok t p m s v t' :
  Forall mem_hop_ok s -> m_open t p m s = (Ok v, t') ->
  exists rs, v = VOpen rs /\ forallb hres_ok rs = true.
Proof.
  intros Fs. unfold m_open, get_node.
  assert (Hrun : forall d pos t0,
            (let '(rs0, data') := run_hops true true false EValue d pos s in
             (Ok (VOpen rs0), upd p (fun _ => File data') t0)) = (Ok v, t') ->
            exists rs, v = VOpen rs /\ forallb hres_ok rs = true).
  { intros d pos t0. pose proof (hops_ok_writes true false EValue s d pos Fs) as Hk.
    destruct (run_hops true true false EValue d pos s) as [rs0 d0]. cbn in Hk.
    intro Hq. inversion Hq; subst. exists rs0. auto. }
  destruct m; try discriminate;
    (destruct (lookup p t) as [[d|es]|]; try discriminate; try (apply Hrun; fail)).
  all: destruct (unsnoc p) as [[pp x]|]; try discriminate;
    destruct (lookup pp t) as [[d|es]|]; try discriminate;
    pose proof (hops_ok_writes true false EValue s [] 0 Fs) as Hk;
    destruct (run_hops true true false EValue [] 0 s) as [rs0 d0]; cbn in Hk;
    intro Hq; inversion Hq; subst; exists rs0; auto.
Qed.

Lemma store_script_ok restart blocks :
  Forall mem_hop_ok ((if 0 <? restart then [HSeek restart] else []) ++ map HWrite blocks).
Proof.
  destruct (0 <? restart) eqn:R; cbn [app].
  - constructor; [cbn; lia|]. apply Forall_forall. intros h Hh. apply in_map_iff in Hh as [b [<- _]]. exact Logic.I.
  - apply Forall_forall. intros h Hh. apply in_map_iff in Hh as [b [<- _]]. exact Logic.I.
Qed.

Lemma store_inert t p m restart blocks :
  failing (fst (store m_run t p m restart blocks)) = true -> snd (store m_run t p m restart blocks) = t.
Proof.
  unfold store. destruct (unsnoc p) as [[pp x]|]; [|reflexivity].
  destruct (ask m_run t (IsDir pp)); try reflexivity. cbn [m_run].
  set (fm := if 0 <? restart then RPB else m).
  set (script := (if 0 <? restart then [HSeek restart] else []) ++ map HWrite blocks).
  pose proof (m_open_err t p fm script) as He.
  pose proof (m_open_ok t p fm script) as Hk.
  destruct (m_open t p fm script) as [[v|e] t'] eqn:Eo.
  - destruct (Hk v t' (store_script_ok restart blocks) eq_refl) as [rs [-> Hok]].
    rewrite Hok. cbn. discriminate.
  - intros _. cbn [fst snd] in *. eapply He. reflexivity.
Qed.

Lemma listing_tree run t p c : snd (listing run t p c) = t.
Proof.
  unfold listing. destruct (fst (run t (List p))) as [v|e]; [|reflexivity].
  destruct v; try reflexivity. destruct (stat_entries run t p l); reflexivity.
Qed.

Lemma srv_step_inert rf t c :
  failing (fst (srv_step m_run (rf, t) c)) = true -> snd (snd (srv_step m_run (rf, t) c)) = t.
Proof.
  destruct c as [p|p|p|p|p|p restart blocks|p restart blocks|p restart|p|p|p|p];
    cbn [srv_step conds]; rewrite ?ask_exists_m, ?ask_is_dir_m, ?ask_is_file_m.
  - destruct (m_exists t p); [reflexivity|]. unfold simple. cbn [m_run].
    pose proof (m_mkdir_err t p true false) as He. destruct (m_mkdir t p true false) as [[v|e] t'].
    + cbn. discriminate.
    + intros _. cbn [fst snd] in *. eapply He. reflexivity.
  - destruct (m_exists t p); [|reflexivity]. destruct (m_is_dir t p); [|reflexivity]. unfold simple. cbn [m_run].
    pose proof (m_rmdir_err t p) as He. destruct (m_rmdir t p) as [[v|e] t'].
    + cbn. discriminate.
    + intros _. cbn [fst snd] in *. eapply He. reflexivity.
  - destruct (m_exists t p); [|reflexivity]. destruct (m_is_file t p); [|reflexivity]. unfold simple. cbn [m_run].
    pose proof (m_unlink_err t p) as He. destruct (m_unlink t p) as [[v|e] t'].
    + cbn. discriminate.
    + intros _. cbn [fst snd] in *. eapply He. reflexivity.
  - destruct (m_exists t p); reflexivity.
  - destruct rf as [a|]; [|reflexivity]. destruct (m_exists t p) eqn:E; [reflexivity|].
    pose proof (rnto_step_agree t a p E) as [A1 A2].
    unfold simple. cbn [m_run]. pose proof (p_rename_err t a p) as He.
    destruct (m_rename t a p) as [[v|e] t'], (p_rename t a p) as [[w|e'] t2]; cbn in A1, A2 |- *; try contradiction.
    + discriminate.
    + intros _. subst t2. eapply He. reflexivity.
  - apply store_inert.
  - apply store_inert.
  - destruct (m_exists t p); [|reflexivity]. destruct (m_is_file t p) eqn:F; [|reflexivity].
    destruct (m_is_file_true _ _ F) as [d Hd]. intros _. cbn [fst snd]. apply (retrieve_tree t p d restart Hd).
  - destruct (m_exists t p); [|reflexivity]. intros _. cbn [fst snd]. apply listing_tree.
  - destruct (m_exists t p); [|reflexivity]. intros _. cbn [fst snd]. apply listing_tree.
  - destruct (m_exists t p); [|reflexivity]. destruct (m_is_dir t p); reflexivity.
  - destruct (m_exists t p); [|reflexivity]. cbn [m_run fst]. destruct (m_stat t p) as [v|e]; [|reflexivity].
    destruct v; reflexivity.
Qed.

(* ---- the composed theorem ---- *)
(* every tree, every pending rename_from, every history: no hypothesis on the tree or the history is
   needed for agreement and inertness themselves *)
Theorem backends_agree_all : forall cs rf t,
  srv_run m_run (rf, t) cs = srv_run p_run (rf, t) cs
  /\ inert_from t (srv_run m_run (rf, t) cs)
  /\ inert_from t (srv_run p_run (rf, t) cs).
Proof.
  induction cs as [|c r IH]; intros rf t; [cbn; auto|].
  pose proof (srv_step_agree rf t c) as A.
  pose proof (srv_step_inert rf t c) as I1.
  cbn [srv_run]. rewrite <- A.
  destruct (srv_step m_run (rf, t) c) as [rep [rf' t']]. cbn [fst snd] in *.
  destruct (IH rf' t') as [E [J1 J2]].
  rewrite <- E. split; [reflexivity|]. split; cbn [inert_from]; (split; [exact I1|assumption]).
Qed.

(* the property as stated: histories without mutations aimed at the virtual root itself (for those the
   models answer with the placeholder ERoot on both sides and say nothing about the real backends) *)
Theorem backends_agree : forall cs rf t,
  shapes_ok cs = true ->
  srv_run m_run (rf, t) cs = srv_run p_run (rf, t) cs
  /\ inert_from t (srv_run m_run (rf, t) cs)
  /\ inert_from t (srv_run p_run (rf, t) cs).
Proof. intros cs rf t _. apply backends_agree_all. Qed.

Corollary backends_agree_abs : forall cs rf t,
  shapes_ok cs = true ->
  map (fun x => (fst x, abs (snd x))) (srv_run m_run (rf, t) cs)
  = map (fun x => (fst x, abs (snd x))) (srv_run p_run (rf, t) cs).
Proof. intros cs rf t S. destruct (backends_agree cs rf t S) as [E _]. rewrite E. reflexivity. Qed.

(* ---- the former witnesses of the repaired divergences, now ordinary cases ---- *)
Definition nd : name := [100]. Definition ne : name := [101]. Definition nf : name := [102].
Definition ng : name := [103]. Definition nh : name := [104]. Definition nm : name := [109].
Definition nx : name := [120].

(* /d/{f = "abc", e/}, /g = "xyz" *)
Definition wt0 : node :=
  Dir [(nd, Dir [(nf, File [97; 98; 99]); (ne, Dir [])]); (ng, File [120; 121; 122])].

Lemma wt0_wf : wf wt0.
Proof.
  unfold wt0. cbn.
  repeat match goal with
         | |- _ /\ _ => split
         | |- True => exact Logic.I
         | |- NoDup _ => constructor
         | |- ~ _ => cbn; intuition discriminate
         end.
Qed.

Definition codes_of (l : list (reply * node)) : list (list Z) := map (fun x => fst (fst x)) l.
Definition last_tree (t : node) (l : list (reply * node)) : node := last (map snd l) t.

(* The four histories that refuted the statement before MemoryPathIO was repaired (F06, F07a, F07b,
   F17), kept as computed cases: both backends now give the file system's answer and change nothing.
   (The harness replays the same four sessions on three real servers on every run.) *)
Example former_F06_witness_agrees :      (* REST 2; STOR /m  (m missing) *)
  codes_of (srv_run m_run (None, wt0) [CStor [nm] 2 [[80; 81]]]) = [[150; 451]] /\
  srv_run m_run (None, wt0) [CStor [nm] 2 [[80; 81]]] = srv_run p_run (None, wt0) [CStor [nm] 2 [[80; 81]]] /\
  last_tree wt0 (srv_run m_run (None, wt0) [CStor [nm] 2 [[80; 81]]]) = wt0.
Proof. repeat split; vm_compute; reflexivity. Qed.

Example former_F07a_witness_agrees :     (* RNFR /d; RNTO /d/e/h *)
  codes_of (srv_run m_run (None, wt0) [CRnfr [nd]; CRnto [nd; ne; nh]]) = [[350]; [451]] /\
  srv_run m_run (None, wt0) [CRnfr [nd]; CRnto [nd; ne; nh]] = srv_run p_run (None, wt0) [CRnfr [nd]; CRnto [nd; ne; nh]] /\
  last_tree wt0 (srv_run m_run (None, wt0) [CRnfr [nd]; CRnto [nd; ne; nh]]) = wt0.
Proof. repeat split; vm_compute; reflexivity. Qed.

Example former_F07b_witness_agrees :     (* RNFR /d; RNTO /g/x  (g is a file) *)
  codes_of (srv_run m_run (None, wt0) [CRnfr [nd]; CRnto [ng; nx]]) = [[350]; [451]] /\
  srv_run m_run (None, wt0) [CRnfr [nd]; CRnto [ng; nx]] = srv_run p_run (None, wt0) [CRnfr [nd]; CRnto [ng; nx]] /\
  last_tree wt0 (srv_run m_run (None, wt0) [CRnfr [nd]; CRnto [ng; nx]]) = wt0.
Proof. repeat split; vm_compute; reflexivity. Qed.

Example former_F17_witness_agrees :      (* RNFR /g; DELE /g; RNTO /g *)
  codes_of (srv_run m_run (None, wt0) [CRnfr [ng]; CDele [ng]; CRnto [ng]]) = [[350]; [250]; [451]] /\
  srv_run m_run (None, wt0) [CRnfr [ng]; CDele [ng]; CRnto [ng]] = srv_run p_run (None, wt0) [CRnfr [ng]; CDele [ng]; CRnto [ng]].
Proof. repeat split; vm_compute; reflexivity. Qed.

(* the hypothesis of backends_agree is satisfiable by a history that exercises every verb (and the
   history is not trivial: 226/250/257/350 and 451/503 replies all occur) *)
Definition hist0 : list cmd :=
    [CMkd [nm; nx]; CStor [nm; nx; nf] 0 [[1; 2]; [3]]; CStor [nm; nx; nf] 1 [[9]]; CAppe [nm; nx; nf] 0 [[4]];
     CRetr [nm; nx; nf] 1; CRnfr [nm]; CRnto [nd; ne; nm]; CList [nd; ne]; CDele [nd; ne; nm; nx; nf];
     CRmd [nd; ne; nm; nx]; CRmd [nd]; CCwd [nd]; CMlst [ng]; CRnfr [ng]; CRnto [nm; nx];
     CStor [nh] 2 [[7]]; CRnfr [nd]; CRnto [nd; ne; nh]; CRnfr [nd]; CRnto [ng; nx]; CRnto [nd]].

Example agree_nonvacuous :
  wf wt0 /\ shapes_ok hist0 = true /\
  codes_of (srv_run m_run (None, wt0) hist0) =
    [[257]; [150; 226]; [150; 226]; [150; 226]; [150; 226]; [350]; [250]; [150; 226]; [250]; [250]; [451]; [250];
     [250]; [350]; [451]; [150; 451]; [350]; [451]; [350]; [451]; [503]].
Proof. split; [exact wt0_wf|]. split; vm_compute; reflexivity. Qed.

(* ---- 9. API level: PathIO and AsyncPathIO ---- *)
(* A row of Gen.PathIOTable.table: (class, method, decorator stack outermost first, signature,
   forwarded call).  The semantics of a forwarded call is ANY function of the call text, the
   signature, the arguments and the state (`interp`, universally quantified: in particular what
   pathlib and the kernel really do); the decorators are modelled:
     universal_exception  turns the raised exception into PathIOError(reason=exc): the same outcome
                          tagged differently -- identity on `raw` (RRaise e stands for it);
     defend_file_methods  identity for file objects that come from _open (the API contract);
     _blocking_io         loop.run_in_executor(executor, partial(f, self, *args, **kwargs)) returns
                          f's result or raises f's exception: identity on outcomes;
     with_timeout         asyncio.wait_for(coro, timeout): identity when timeout is None, and when
                          the call finishes before the timeout; TimeoutError otherwise. *)
Definition row := (Z * list Z * list (list Z) * list Z * list Z)%type.
Definition r_class (r : row) : Z := fst (fst (fst (fst r))).
Definition r_method (r : row) : list Z := snd (fst (fst (fst r))).
Definition r_decos (r : row) : list (list Z) := snd (fst (fst r)).
Definition r_sig (r : row) : list Z := snd (fst r).
Definition r_call (r : row) : list Z := snd r.

Definition find_row (tbl : list row) (cls : Z) (m : list Z) : option row :=
  find (fun r => (r_class r =? cls) && name_eqb (r_method r) m) tbl.

Section Api.
  Variables (n_ue n_wt n_bio n_defend : list Z).
  Variables (V S : Type).

  Inductive raw := RRet (v : V) | RRaise (e : Z).

  Variable interp : list Z -> list Z -> sx -> S -> raw * S.

  Definition with_timeout_sem (timeout : option Z) (dur : Z) (r : raw) : raw :=
    match timeout with
    | None => r
    | Some tau => if dur <? tau then r else RRaise 110
    end.
  Definition blocking_io_sem (r : raw) : raw := r.

  Lemma with_timeout_none_blocking_io_id dur r : with_timeout_sem None dur (blocking_io_sem r) = r.
  Proof. reflexivity. Qed.

  Lemma with_timeout_in_time tau dur r : dur < tau -> with_timeout_sem (Some tau) dur (blocking_io_sem r) = r.
  Proof. intro H. cbn. assert (dur <? tau = true) as -> by lia. reflexivity. Qed.

  Definition deco_sem (timeout : option Z) (dur : Z) (d : list Z) : option (raw -> raw) :=
    if name_eqb d n_wt then Some (with_timeout_sem timeout dur)
    else if name_eqb d n_bio then Some blocking_io_sem
    else if name_eqb d n_defend then Some (fun r => r)
    else if name_eqb d n_ue then Some (fun r => r)
    else None.

  Fixpoint stack_sem (timeout : option Z) (dur : Z) (ds : list (list Z)) : option (raw -> raw) :=
    match ds with
    | [] => Some (fun r => r)
    | d :: rest =>
        match deco_sem timeout dur d, stack_sem timeout dur rest with
        | Some f, Some g => Some (fun r => f (g r))
        | _, _ => None
        end
    end.

  (* one API call: (method, arguments, how long the underlying call takes) *)
  Definition aop := (list Z * sx * Z)%type.

  Definition api_step (tbl : list row) (cls : Z) (timeout : option Z) (o : aop) (s : S) : raw * S :=
    let '(m, args, dur) := o in
    match find_row tbl cls m with
    | None => (RRaise 101, s)
    | Some r =>
        match stack_sem timeout dur (r_decos r) with
        | None => (RRaise 101, s)
        | Some f => let '(x, s') := interp (r_sig r) (r_call r) args s in (f x, s')
        end
    end.

  Fixpoint api_run (tbl : list row) (cls : Z) (timeout : option Z) (os : list aop) (s : S) : list raw * S :=
    match os with
    | [] => ([], s)
    | o :: rest =>
        let '(x, s') := api_step tbl cls timeout o s in
        let '(xs, s'') := api_run tbl cls timeout rest s' in (x :: xs, s'')
    end.

  (* closed obligations over the generated table *)
  Definition same_calls (tbl : list row) (ops : list (list Z)) : bool :=
    forallb (fun m =>
               match find_row tbl 0 m, find_row tbl 1 m with
               | Some a, Some b =>
                   name_eqb (r_sig a) (r_sig b) && name_eqb (r_call a) (r_call b)
                   && negb (match r_call a with [] => true | _ => false end)
               | _, _ => false
               end) ops.

  Definition stacks_known (tbl : list row) : bool :=
    forallb (fun r => match stack_sem None 0 (r_decos r) with Some _ => true | None => false end) tbl.

  Definition all_wrapped (tbl : list row) : bool :=
    forallb (fun r => match r_decos r with d :: _ => name_eqb d n_ue | [] => false end) tbl.

  (* every decorator is the identity on outcomes when the timeout cannot fire *)
  Definition quiet (timeout : option Z) (dur : Z) : Prop :=
    match timeout with None => True | Some tau => dur < tau end.

  Lemma deco_sem_id timeout dur d f : quiet timeout dur -> deco_sem timeout dur d = Some f -> forall r, f r = r.
  Proof.
    unfold deco_sem. intros Q H r.
    destruct (name_eqb d n_wt).
    - inversion H; subst. destruct timeout as [tau|]; cbn in *; [|reflexivity].
      assert (dur <? tau = true) as -> by lia. reflexivity.
    - destruct (name_eqb d n_bio); [inversion H; reflexivity|].
      destruct (name_eqb d n_defend); [inversion H; reflexivity|].
      destruct (name_eqb d n_ue); [inversion H; reflexivity|discriminate].
  Qed.

  Lemma stack_sem_id timeout dur ds : forall f,
    quiet timeout dur -> stack_sem timeout dur ds = Some f -> forall r, f r = r.
  Proof.
    induction ds as [|d rest IH]; intros f Q H r; cbn in H; [inversion H; reflexivity|].
    destruct (deco_sem timeout dur d) as [f1|] eqn:E1; [|discriminate].
    destruct (stack_sem timeout dur rest) as [g|] eqn:E2; [|discriminate].
    inversion H; subst. rewrite (IH g Q eq_refl r). apply (deco_sem_id _ _ _ _ Q E1).
  Qed.

  Lemma deco_sem_defined t1 d1 t2 d2 d f : deco_sem t1 d1 d = Some f -> exists g, deco_sem t2 d2 d = Some g.
  Proof.
    unfold deco_sem. destruct (name_eqb d n_wt); [eauto|]. destruct (name_eqb d n_bio); [eauto|].
    destruct (name_eqb d n_defend); [eauto|]. destruct (name_eqb d n_ue); [eauto|discriminate].
  Qed.

  Lemma stack_sem_defined t1 d1 t2 d2 ds : forall f,
    stack_sem t1 d1 ds = Some f -> exists g, stack_sem t2 d2 ds = Some g.
  Proof.
    induction ds as [|d rest IH]; intros f H; cbn in *; [eauto|].
    destruct (deco_sem t1 d1 d) as [f1|] eqn:E1; [|discriminate].
    destruct (stack_sem t1 d1 rest) as [g1|] eqn:E2; [|discriminate].
    destruct (deco_sem_defined _ _ t2 d2 _ _ E1) as [f2 ->]. destruct (IH g1 eq_refl) as [g2 ->]. eauto.
  Qed.

  Lemma find_row_in tbl cls m r : find_row tbl cls m = Some r -> In r tbl.
  Proof. unfold find_row. intro H. apply find_some in H. tauto. Qed.

  Lemma api_step_equal tbl ops timeout m args dur s :
    same_calls tbl ops = true -> stacks_known tbl = true -> In m ops -> quiet timeout dur ->
    api_step tbl 0 timeout (m, args, dur) s = api_step tbl 1 timeout (m, args, dur) s.
  Proof.
    intros SC SK Hm Q. unfold same_calls in SC. rewrite forallb_forall in SC. specialize (SC m Hm).
    unfold stacks_known in SK. rewrite forallb_forall in SK. unfold api_step.
    destruct (find_row tbl 0 m) as [a|] eqn:Ea; [|discriminate].
    destruct (find_row tbl 1 m) as [b|] eqn:Eb; [|discriminate].
    apply andb_true_iff in SC as [SC _]. apply andb_true_iff in SC as [S1 S2].
    apply name_eqb_eq in S1, S2. rewrite S1, S2.
    pose proof (SK a (find_row_in _ _ _ _ Ea)) as Ka. pose proof (SK b (find_row_in _ _ _ _ Eb)) as Kb.
    destruct (stack_sem None 0 (r_decos a)) as [fa0|] eqn:Fa0; [|discriminate].
    destruct (stack_sem None 0 (r_decos b)) as [fb0|] eqn:Fb0; [|discriminate].
    destruct (stack_sem_defined None 0 timeout dur _ _ Fa0) as [fa Fa].
    destruct (stack_sem_defined None 0 timeout dur _ _ Fb0) as [fb Fb].
    rewrite Fa, Fb. destruct (interp (r_sig b) (r_call b) args s) as [x s'].
    rewrite (stack_sem_id _ _ _ _ Q Fa x), (stack_sem_id _ _ _ _ Q Fb x). reflexivity.
  Qed.

  (* same result-or-failure and same state after every operation sequence over the 14 backend
     operations; with a finite path_timeout for the operations that finish in time *)
  Theorem fs_backends_equal tbl ops timeout os : forall s,
    same_calls tbl ops = true -> stacks_known tbl = true ->
    Forall (fun o : aop => In (fst (fst o)) ops /\ quiet timeout (snd o)) os ->
    api_run tbl 0 timeout os s = api_run tbl 1 timeout os s.
  Proof.
    induction os as [|[[m args] dur] rest IH]; intros s SC SK F; [reflexivity|].
    inversion F as [|? ? [Hm Q] Fr]; subst. cbn [api_run fst snd] in *.
    rewrite (api_step_equal tbl ops timeout m args dur s SC SK Hm Q).
    destruct (api_step tbl 1 timeout (m, args, dur) s) as [x s']. rewrite (IH s' SC SK Fr). reflexivity.
  Qed.
End Api.
