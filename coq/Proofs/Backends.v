(* Proofs for C18: MemFS (MemoryPathIO) and PosixFS (pathlib on a POSIX kernel) agree, operation by
   operation, under the preconditions the server's handler stack establishes; composition over
   guarded command sequences; witnesses for the genuine divergences. *)
From Coq Require Import ZArith List Bool Lia.
From Verif Require Import Lib.Sx Model.FsBase Model.MemFS Model.PosixFS Model.BackendSrv Proofs.FsFacts.
Import ListNotations.
Open Scope Z_scope.

(* same success/failure and same value: every failure is PathIOError at the API *)
Definition res_eq (a b : result) : Prop :=
  match a, b with
  | Ok v, Ok w => v = w
  | Err _, Err _ => True
  | _, _ => False
  end.

Definition step_agree (x y : result * node) : Prop := res_eq (fst x) (fst y) /\ snd x = snd y.

Lemma res_eq_refl r : res_eq r r.
Proof. destruct r; cbn; auto. Qed.

Lemma step_agree_refl x : step_agree x x.
Proof. split; [apply res_eq_refl|reflexivity]. Qed.

Lemma res_eq_api a b : res_eq a b -> result_api a = result_api b.
Proof. destruct a, b; cbn; intros H; try contradiction; subst; reflexivity. Qed.

(* ---- 1. path resolution: get_node and the kernel walk find the same node ---- *)
Lemma resolve_lookup p t :
  lookup p t = match resolve p t with Found n => Some n | Fail _ => None end.
Proof.
  revert t. induction p as [|x p IH]; intro t; cbn; [reflexivity|].
  destruct t as [d|es]; [reflexivity|]. destruct (assoc x es); [apply IH|reflexivity].
Qed.

Lemma resolve_found p t n : resolve p t = Found n <-> lookup p t = Some n.
Proof.
  rewrite resolve_lookup. destruct (resolve p t); split; intro H; inversion H; reflexivity.
Qed.

Lemma resolve_fail p t : (exists e, resolve p t = Fail e) <-> lookup p t = None.
Proof.
  rewrite resolve_lookup. destruct (resolve p t) as [n|e]; split; intro H.
  - destruct H as [e H]; discriminate.
  - discriminate.
  - reflexivity.
  - exists e; reflexivity.
Qed.

Lemma exists_agree t p : m_exists t p = p_exists t p.
Proof. unfold m_exists, p_exists, get_node. rewrite resolve_lookup. destruct (resolve p t); reflexivity. Qed.

Lemma is_dir_agree t p : m_is_dir t p = p_is_dir t p.
Proof. unfold m_is_dir, p_is_dir, get_node. rewrite resolve_lookup. destruct (resolve p t) as [[|]|]; reflexivity. Qed.

Lemma is_file_agree t p : m_is_file t p = p_is_file t p.
Proof. unfold m_is_file, p_is_file, get_node. rewrite resolve_lookup. destruct (resolve p t) as [[|]|]; reflexivity. Qed.

Lemma list_agree t p : m_list t p = p_list t p.
Proof. unfold m_list, p_list, get_node. rewrite resolve_lookup. destruct (resolve p t) as [[|]|]; reflexivity. Qed.

Lemma stat_agree t p : res_eq (m_stat t p) (p_stat t p).
Proof. unfold m_stat, p_stat, get_node. rewrite resolve_lookup. destruct (resolve p t) as [[|]|]; cbn; auto. Qed.

(* ---- 2. rmdir / unlink: agree on every path (RMD: exists and is_dir; DELE: exists and is_file) ---- *)
Lemma rmdir_agree t p : step_agree (m_rmdir t p) (p_rmdir t p).
Proof.
  unfold m_rmdir, p_rmdir, get_node. rewrite resolve_lookup.
  destruct (resolve p t) as [[d|[|e es]]|e]; try (split; cbn; auto; fail).
  destruct p; split; cbn; auto.
Qed.

Lemma unlink_agree t p : step_agree (m_unlink t p) (p_unlink t p).
Proof.
  unfold m_unlink, p_unlink, get_node. rewrite resolve_lookup.
  destruct (resolve p t) as [[d|es]|e]; split; cbn; auto.
Qed.

(* ---- 3. handle scripts ---- *)
(* a script the server issues: non-negative seeks, reads only on handles readable in both
   backends, writes only on handles writable in both *)
Definition hop_fits (r1 w1 r2 w2 : bool) (h : hop) : Prop :=
  match h with
  | HSeek off => 0 <= off
  | HRead _ => r1 = true /\ r2 = true
  | HWrite _ => w1 = true /\ w2 = true
  end.

Lemma run_hops_agree r1 w1 r2 w2 a e1 e2 s : forall data pos,
  Forall (hop_fits r1 w1 r2 w2) s ->
  run_hops r1 w1 a e1 data pos s = run_hops r2 w2 a e2 data pos s.
Proof.
  induction s as [|h s IH]; intros data pos F; [reflexivity|].
  inversion F as [|? ? Hh Hs]; subst. destruct h as [off|n|d]; cbn in Hh |- *.
  - assert (off <? 0 = false) as -> by lia. rewrite (IH data off Hs). reflexivity.
  - destruct Hh as [-> ->]. rewrite (IH _ _ Hs). reflexivity.
  - destruct Hh as [-> ->]. rewrite (IH _ _ Hs). reflexivity.
Qed.

Lemma zlen_app a b : zlen (a ++ b) = zlen a + zlen b.
Proof. unfold zlen. rewrite app_length. lia. Qed.

Lemma write_at_end data d : write_at data (zlen data) d = data ++ d.
Proof.
  unfold write_at. destruct d as [|x d]; [rewrite app_nil_r; reflexivity|].
  unfold zlen. rewrite Nat2Z.id. rewrite firstn_all, Nat.sub_diag. cbn [zeros app].
  rewrite skipn_all2 by lia. rewrite app_nil_r. reflexivity.
Qed.

(* 'ab': MemoryPathIO seeks to the end once, the kernel appends on every write (O_APPEND);
   the same for scripts of writes only (the server never seeks on an 'ab' handle) *)
Definition is_write (h : hop) : Prop := match h with HWrite _ => True | _ => False end.

Lemma run_hops_append r1 r2 e1 e2 s : forall data,
  Forall is_write s ->
  run_hops r1 true false e1 data (zlen data) s = run_hops r2 true true e2 data (zlen data) s.
Proof.
  induction s as [|h s IH]; intros data F; [reflexivity|].
  inversion F as [|? ? Hh Hs]; subst. destruct h as [off|n|d]; cbn in Hh; try contradiction.
  cbn. rewrite write_at_end, <- zlen_app. rewrite (IH _ Hs). reflexivity.
Qed.

Lemma hops_ok_writes r a e s : forall data pos,
  Forall (fun h => match h with HSeek off => 0 <= off | HRead _ => r = true | HWrite _ => True end) s ->
  forallb hres_ok (fst (run_hops r true a e data pos s)) = true.
Proof.
  induction s as [|h s IH]; intros data pos F; [reflexivity|].
  inversion F as [|? ? Hh Hs]; subst. destruct h as [off|n|d]; cbn.
  - assert (off <? 0 = false) as -> by lia.
    specialize (IH data off Hs). destruct (run_hops r true a e data off s). cbn in *. exact IH.
  - subst r. specialize (IH data (pos + zlen (read_at data pos n)) Hs).
    destruct (run_hops true true a e data (pos + zlen (read_at data pos n)) s). cbn in *. exact IH.
  - match goal with |- context [run_hops r true a e ?D ?P s] => specialize (IH D P Hs); destruct (run_hops r true a e D P s) end.
    cbn in *. exact IH.
Qed.

(* ---- 4. open as the transfer workers use it ---- *)
Lemma lookup_snoc_dir pp x t es : lookup pp t = Some (Dir es) -> lookup (pp ++ [x]) t = assoc x es.
Proof. intro H. rewrite lookup_snoc, H. reflexivity. Qed.

Lemma lookup_snoc_some pp x t n :
  lookup (pp ++ [x]) t = Some n -> exists es, lookup pp t = Some (Dir es) /\ assoc x es = Some n.
Proof.
  rewrite lookup_snoc. destruct (lookup pp t) as [[d|es]|]; try discriminate. intro H. exists es. auto.
Qed.

Definition seek_write (h : hop) : Prop :=
  match h with HSeek off => 0 <= off | HRead _ => False | HWrite _ => True end.

Lemma seek_write_fits r1 r2 s : Forall seek_write s -> Forall (hop_fits r1 true r2 true) s.
Proof.
  intro F. eapply Forall_impl; [|exact F]. intros [off|n|d]; cbn; tauto.
Qed.

(* STOR / APPE: the handler has checked is_dir(parent).  Agreement for 'wb', for 'ab' when the
   script only writes, for 'r+b' when the file exists (r+b on a missing file is finding F6). *)
Lemma open_write_agree t pp x es m s :
  lookup pp t = Some (Dir es) ->
  Forall seek_write s ->
  (m = WB \/ (m = AB /\ Forall is_write s) \/ (m = RPB /\ assoc x es <> None)) ->
  step_agree (m_open t (pp ++ [x]) m s) (p_open t (pp ++ [x]) m s).
Proof.
  intros Hpp Fs Hm.
  assert (Hres : resolve pp t = Found (Dir es)) by (apply resolve_found, Hpp).
  unfold m_open, p_open, get_node, resolve_parent.
  rewrite (lookup_snoc_dir _ x _ _ Hpp), unsnoc_snoc, Hpp, Hres.
  destruct Hm as [->|[[-> Fw]|[-> Hex]]].
  - (* wb *)
    destruct (assoc x es) as [[d|es']|] eqn:E.
    + rewrite (run_hops_agree true true false true false EValue EINVAL s [] 0 (seek_write_fits _ _ _ Fs)).
      apply step_agree_refl.
    + split; cbn; auto.
    + rewrite (run_hops_agree true true false true false EValue EINVAL s [] 0 (seek_write_fits _ _ _ Fs)).
      apply step_agree_refl.
  - (* ab *)
    destruct (assoc x es) as [[d|es']|] eqn:E.
    + rewrite (run_hops_append true false EValue EINVAL s d Fw). apply step_agree_refl.
    + split; cbn; auto.
    + change 0 with (zlen []).
      rewrite (run_hops_append true false EValue EINVAL s [] Fw). apply step_agree_refl.
  - (* r+b on an existing path *)
    destruct (assoc x es) as [[d|es']|] eqn:E; [| |congruence].
    + assert (Hr : resolve (pp ++ [x]) t = Found (File d))
        by (apply resolve_found; rewrite (lookup_snoc_dir _ x _ _ Hpp); exact E).
      rewrite Hr.
      rewrite (run_hops_agree true true true true false EValue EINVAL s d 0 (seek_write_fits _ _ _ Fs)).
      apply step_agree_refl.
    + assert (Hr : resolve (pp ++ [x]) t = Found (Dir es'))
        by (apply resolve_found; rewrite (lookup_snoc_dir _ x _ _ Hpp); exact E).
      rewrite Hr. split; cbn; auto.
Qed.

(* RETR: the handler has checked exists and is_file *)
Definition seek_read (h : hop) : Prop :=
  match h with HSeek off => 0 <= off | HRead _ => True | HWrite _ => False end.

Lemma open_read_agree t p d s :
  lookup p t = Some (File d) -> Forall seek_read s ->
  m_open t p RB s = p_open t p RB s.
Proof.
  intros Hp Fs. unfold m_open, p_open, get_node. rewrite Hp.
  assert (Hr : resolve p t = Found (File d)) by (apply resolve_found, Hp). rewrite Hr.
  rewrite (run_hops_agree true true true false false EValue EINVAL s d 0); [reflexivity|].
  eapply Forall_impl; [|exact Fs]. intros [off|n|b]; cbn; tauto.
Qed.

(* ---- 5. rename as RNTO issues it ---- *)
Lemma pop_loop_notin x es : ~ In x (map fst es) -> pop_loop x es = es.
Proof.
  induction es as [|[n c] r IH]; cbn; [reflexivity|]. intro H.
  destruct (name_eqb n x) eqn:E; [apply name_eqb_eq in E; subst; exfalso; apply H; left; reflexivity|].
  rewrite IH; [reflexivity|]. intro Hi; apply H; right; exact Hi.
Qed.

Lemma pop_loop_nodup x es : NoDup (map fst es) -> pop_loop x es = remove_first x es.
Proof.
  induction es as [|[n c] r IH]; cbn; [reflexivity|]. intro H. inversion H as [|? ? Hn Hr]; subst.
  destruct (name_eqb n x) eqn:E.
  - apply name_eqb_eq in E. subst. destruct r as [|e r']; [reflexivity|].
    f_equal. apply pop_loop_notin. intro Hi. apply Hn. right. exact Hi.
  - rewrite (IH Hr). reflexivity.
Qed.

Lemma upd_ext_at p f g t n : lookup p t = Some n -> f n = g n -> upd p f t = upd p g t.
Proof.
  revert t. induction p as [|x p IH]; intro t; cbn; [intros H E; inversion H; subst; exact E|].
  destruct t as [d|es]; [reflexivity|]. destruct (assoc x es) as [c|]; [|reflexivity].
  intros H E. rewrite (IH c H E). reflexivity.
Qed.

Lemma is_prefix_snoc a bp bn :
  is_prefix a (bp ++ [bn]) = is_prefix a bp || path_eqb a (bp ++ [bn]).
Proof.
  revert bp. induction a as [|x a IH]; intro bp; [reflexivity|].
  destruct bp as [|y bp]; cbn.
  - destruct (name_eqb x bn); [|reflexivity]. destruct a; reflexivity.
  - destruct (name_eqb x y); [apply IH|reflexivity].
Qed.

Lemma prefix_lookup b a t : is_prefix b a = true -> lookup a t <> None -> lookup b t <> None.
Proof.
  intros H L. apply is_prefix_spec in H as [c ->]. rewrite lookup_app in L.
  destruct (lookup b t); congruence.
Qed.

(* the two shapes of RNTO on which the backends differ although the guards pass (F7) *)
Definition rename_bad (t : node) (a b : path) : bool :=
  match lookup a t, unsnoc b with
  | Some _, Some (bp, _) =>
      match lookup bp t with
      | Some (File _) => true                (* destination parent is a file *)
      | Some (Dir _) => is_prefix a bp       (* destination inside the moved subtree *)
      | None => false
      end
  | _, _ => false
  end.

(* RNTO: the handler has checked that the destination does not exist; source <> destination
   (equal paths with a vanished source is finding F15) *)
Lemma rename_agree t a b :
  wf t -> a <> [] -> lookup b t = None -> path_eqb a b = false -> rename_bad t a b = false ->
  step_agree (m_rename t a b) (p_rename t a b).
Proof.
  intros W Ha Hb Hab Hbad.
  destruct (unsnoc a) as [[ap an]|] eqn:Ea; [|apply unsnoc_none in Ea; contradiction].
  destruct (unsnoc b) as [[bp bn]|] eqn:Eb; [|apply unsnoc_none in Eb; subst; discriminate].
  apply unsnoc_spec in Ea. apply unsnoc_spec in Eb.
  unfold m_rename, p_rename, get_node, rename_bad in *. rewrite Hab.
  rewrite (proj2 (unsnoc_spec a ap an) Ea), (proj2 (unsnoc_spec b bp bn) Eb) in *.
  unfold resolve_parent.
  destruct (lookup a t) as [sn|] eqn:La.
  - (* the source exists *)
    subst a. destruct (lookup_snoc_some _ _ _ _ La) as [ses [Lap Has]].
    rewrite (proj2 (resolve_found ap t (Dir ses)) Lap).
    destruct (lookup bp t) as [[d|des]|] eqn:Lbp; [discriminate| |].
    + rewrite (proj2 (resolve_found bp t (Dir des)) Lbp). rewrite Has, Hbad.
      subst b. rewrite is_prefix_snoc, Hbad, Hab. cbn [orb].
      destruct (is_prefix (bp ++ [bn]) (ap ++ [an])) eqn:Pba.
      { exfalso. eapply prefix_lookup in Pba; [apply Pba, Hb|rewrite La; discriminate]. }
      assert (Hbn : assoc bn des = None) by (rewrite <- (lookup_snoc_dir _ bn _ _ Lbp); exact Hb).
      rewrite Hbn.
      assert (Hpop : upd ap (on_dir (pop_loop an)) t = upd ap (on_dir (remove_first an)) t).
      { eapply upd_ext_at; [exact Lap|]. cbn. f_equal. apply pop_loop_nodup.
        apply (wf_lookup _ _ _ W) in Lap. apply wf_dir in Lap. tauto. }
      rewrite Hpop. destruct sn; split; cbn; auto.
    + destruct (proj2 (resolve_fail bp t) Lbp) as [e He]. rewrite He. split; cbn; auto.
  - (* the source is gone *)
    destruct (lookup bp t) as [dp|] eqn:Lbp.
    + assert (forall X : result * node, fst X = Err ENOENT /\ snd X = t -> step_agree (Err ENOENT, t) X -> True) by auto.
      destruct (resolve ap t) as [[d|ses]|e] eqn:Rap; try (split; cbn; auto; fail).
      destruct (resolve bp t) as [[d|des]|e] eqn:Rbp; try (split; cbn; auto; fail).
      assert (Has : assoc an ses = None).
      { subst a. apply resolve_found in Rap. rewrite <- (lookup_snoc_dir _ an _ _ Rap). exact La. }
      rewrite Has. split; cbn; auto.
    + destruct (resolve ap t) as [[d|ses]|e] eqn:Rap; try (split; cbn; auto; fail).
      destruct (proj2 (resolve_fail bp t) Lbp) as [e He]. rewrite He. split; cbn; auto.
Qed.

(* ---- 6. MKD: mkdir(parents=True) on a path that does not exist ---- *)
Lemma resolve_snoc pp x t :
  resolve (pp ++ [x]) t =
  match resolve pp t with
  | Fail e => Fail e
  | Found (File _) => Fail ENOTDIR
  | Found (Dir es) => match assoc x es with Some c => Found c | None => Fail ENOENT end
  end.
Proof.
  revert t. induction pp as [|y q IH]; intro t; cbn.
  - destruct t as [d|es]; [reflexivity|]. destruct (assoc x es); reflexivity.
  - destruct t as [d|es]; [reflexivity|]. destruct (assoc y es); [apply IH|reflexivity].
Qed.

Lemma resolve_fail_kind p t e : resolve p t = Fail e -> e = ENOENT \/ e = ENOTDIR.
Proof.
  revert t. induction p as [|x p IH]; intro t; cbn; [discriminate|].
  destruct t as [d|es]; [intros H; inversion H; auto|].
  destruct (assoc x es); [apply IH|intros H; inversion H; auto].
Qed.

Definition add_dir (x : name) : node -> node := on_dir (fun es => es ++ [(x, Dir [])]).

Lemma walk_enotdir p : forall t, resolve p t = Fail ENOTDIR -> m_mkdir_walk p t = None.
Proof.
  induction p as [|x p IH]; intro t; cbn; [discriminate|].
  destruct t as [d|es]; [reflexivity|]. destruct (assoc x es) as [c|]; [|discriminate].
  intro H. rewrite (IH c H). reflexivity.
Qed.

Lemma walk_snoc_found pp x : forall t es,
  resolve pp t = Found (Dir es) -> assoc x es = None ->
  m_mkdir_walk (pp ++ [x]) t = Some (upd pp (add_dir x) t).
Proof.
  induction pp as [|y q IH]; intros t es; cbn.
  - intros H E. inversion H; subst. rewrite E. reflexivity.
  - destruct t as [d|es0]; [discriminate|]. destruct (assoc y es0) as [c|] eqn:Ey; [|discriminate].
    intros H E. rewrite (IH c es H E). reflexivity.
Qed.

Lemma walk_enoent pp : forall t,
  resolve pp t = Fail ENOENT ->
  exists t1, m_mkdir_walk pp t = Some t1 /\ resolve pp t1 = Found (Dir []) /\
             forall x, m_mkdir_walk (pp ++ [x]) t = Some (upd pp (add_dir x) t1).
Proof.
  induction pp as [|y q IH]; intro t; [discriminate|].
  destruct t as [d|es]; [discriminate|]. cbn [resolve m_mkdir_walk app].
  destruct (assoc y es) as [c|] eqn:Ey.
  - intro H. destruct (IH c H) as [t1c [Hw [Hr Hx]]].
    exists (Dir (set_assoc y t1c es)). rewrite Hw. split; [reflexivity|]. split.
    + cbn. rewrite assoc_set_same by congruence. exact Hr.
    + intro x. rewrite (Hx x). cbn. rewrite assoc_set_same by congruence.
      rewrite set_assoc_twice. reflexivity.
  - intros _. destruct q as [|z q'].
    + exists (Dir (es ++ [(y, Dir [])])). cbn. split; [reflexivity|]. split.
      * rewrite (assoc_app_none _ _ _ Ey). reflexivity.
      * intro x. rewrite (assoc_app_none _ _ _ Ey). cbn. rewrite (set_assoc_app_none _ _ _ _ Ey). reflexivity.
    + assert (H0 : resolve (z :: q') (Dir []) = Fail ENOENT) by reflexivity.
      destruct (IH (Dir []) H0) as [t1c [Hw [Hr Hx]]].
      exists (Dir (es ++ [(y, t1c)])). rewrite Hw. split; [reflexivity|]. split.
      * cbn [resolve]. rewrite (assoc_app_none _ _ _ Ey). exact Hr.
      * intro x. rewrite (Hx x). cbn [upd]. rewrite (assoc_app_none _ _ _ Ey).
        rewrite (set_assoc_app_none _ _ _ _ Ey). reflexivity.
Qed.

Lemma mkdir_parents_enoent rp : forall t eok,
  resolve (rev rp) t = Fail ENOENT ->
  exists t', m_mkdir_walk (rev rp) t = Some t' /\ p_mkdir_parents rp t eok = (Ok VUnit, t').
Proof.
  induction rp as [|x rp' IH]; intros t eok; [discriminate|].
  cbn [rev p_mkdir_parents]. unfold sys_mkdir at 1. rewrite unsnoc_snoc. unfold resolve_parent.
  rewrite resolve_snoc. destruct (resolve (rev rp') t) as [[d|es]|e] eqn:R.
  - discriminate.
  - destruct (assoc x es) as [c|] eqn:Ex; [discriminate|]. intros _.
    exists (upd (rev rp') (add_dir x) t). split; [eapply walk_snoc_found; eassumption|reflexivity].
  - intro H. inversion H; subst e.
    destruct (IH t true R) as [t1 [Hw Hp]]. rewrite Hp.
    destruct (walk_enoent _ _ R) as [t1' [Hw' [Hr' Hx']]].
    rewrite Hw in Hw'. inversion Hw'; subst t1'.
    exists (upd (rev rp') (add_dir x) t1). split; [apply Hx'|].
    unfold p_mkdir_flat, sys_mkdir. rewrite unsnoc_snoc. unfold resolve_parent. rewrite Hr'. reflexivity.
Qed.

Lemma mkdir_parents_enotdir rp t eok :
  resolve (rev rp) t = Fail ENOTDIR -> p_mkdir_parents rp t eok = (Err ENOTDIR, t).
Proof.
  destruct rp as [|x rp']; [discriminate|]. intro H.
  assert (Hd : p_is_dir t (rev (x :: rp')) = false) by (unfold p_is_dir; rewrite H; reflexivity).
  cbn [p_mkdir_parents]. rewrite Hd, andb_false_r.
  cbn [rev] in *. unfold sys_mkdir. rewrite unsnoc_snoc. unfold resolve_parent.
  rewrite resolve_snoc in H. destruct (resolve (rev rp') t) as [[d|es]|e] eqn:R.
  - reflexivity.
  - destruct (assoc x es); discriminate.
  - inversion H; subst. reflexivity.
Qed.

(* MKD: the handler has checked that the path does not exist *)
Lemma mkd_agree t p :
  lookup p t = None -> m_mkdir t p true false = p_mkdir t p true false.
Proof.
  intro H. unfold m_mkdir, p_mkdir, get_node. rewrite H. cbn [negb].
  destruct (proj2 (resolve_fail p t) H) as [e He].
  destruct (resolve_fail_kind _ _ _ He); subst e.
  - rewrite <- (rev_involutive p) in He.
    destruct (mkdir_parents_enoent (rev p) t false He) as [t' [Hw Hp]].
    rewrite rev_involutive in Hw. rewrite Hw, Hp. reflexivity.
  - rewrite (walk_enotdir _ _ He). rewrite <- (rev_involutive p) in He.
    rewrite (mkdir_parents_enotdir _ _ false He). reflexivity.
Qed.

(* ---- 7. MemFS keeps names unique ---- *)
Lemma wf_empty_dir : wf (Dir []).
Proof. apply wf_dir. split; [apply NoDup_nil|apply Forall_nil]. Qed.

Lemma walk_wf p : forall t t', wf t -> m_mkdir_walk p t = Some t' -> wf t'.
Proof.
  induction p as [|x p IH]; intros t t' W; cbn; [intros H; inversion H; subst; exact W|].
  destruct t as [d|es]; [discriminate|]. destruct (assoc x es) as [c|] eqn:E.
  - destruct (m_mkdir_walk p c) as [c'|] eqn:Hw; [|discriminate]. intros H; inversion H; subst.
    apply wf_set_assoc; [exact W|]. eapply IH; [eapply wf_child; eassumption|exact Hw].
  - destruct (m_mkdir_walk p (Dir [])) as [c'|] eqn:Hw; [|discriminate]. intros H; inversion H; subst.
    apply wf_append; [exact W|exact E|]. eapply IH; [exact wf_empty_dir|exact Hw].
Qed.

Lemma wf_add_at pp x c t :
  wf t -> lookup (pp ++ [x]) t = None -> wf c ->
  wf (upd pp (on_dir (fun es => es ++ [(x, c)])) t).
Proof.
  intros W L Wc. apply wf_upd; [exact W|]. intros n Ln Wn. destruct n as [d|es]; [exact Logic.I|].
  cbn. apply wf_append; [exact Wn| |exact Wc]. rewrite <- (lookup_snoc_dir _ x _ _ Ln). exact L.
Qed.

Lemma wf_remove t p : wf t -> wf (m_remove t p).
Proof.
  intro W. unfold m_remove. destruct (unsnoc p) as [[pp x]|]; [|exact W].
  apply wf_upd; [exact W|]. intros n _ Wn. destruct n as [d|es]; [exact Logic.I|]. apply wf_remove_first, Wn.
Qed.

Lemma wf_set_file p d t : wf t -> wf (upd p (fun _ => File d) t).
Proof. intro W. apply wf_upd; [exact W|]. intros; exact Logic.I. Qed.

Lemma m_run_wf t o : wf t -> wf (snd (m_run t o)).
Proof.
  intro W. destruct o as [p|p|p|p par eok|p|p|p|p|a b|p m s]; cbn [m_run snd]; try exact W.
  - (* mkdir *)
    unfold m_mkdir, get_node. destruct (lookup p t) as [n|] eqn:L.
    + destruct (negb (is_dir_node n) || negb eok); exact W.
    + destruct par; cbn [negb].
      * destruct (m_mkdir_walk p t) as [t'|] eqn:Hw; [|exact W]. eapply walk_wf; eassumption.
      * destruct (unsnoc p) as [[pp x]|] eqn:E; [|exact W]. apply unsnoc_spec in E. subst p.
        destruct (lookup pp t) as [[d|es]|]; try exact W. cbn [snd].
        apply wf_add_at; [exact W|exact L|exact wf_empty_dir].
  - (* rmdir *)
    unfold m_rmdir, get_node. destruct (lookup p t) as [[d|[|e es]]|]; try exact W.
    destruct p; [exact W|]. apply wf_remove, W.
  - (* unlink *)
    unfold m_unlink, get_node. destruct (lookup p t) as [[d|es]|]; try exact W. apply wf_remove, W.
  - (* rename *)
    unfold m_rename, get_node. destruct (path_eqb a b); [exact W|].
    destruct (unsnoc a) as [[ap an]|]; [|exact W]. destruct (unsnoc b) as [[bp bn]|]; [|exact W].
    destruct (lookup a t) as [sn|] eqn:La; [|exact W]. destruct (lookup bp t) as [dp|] eqn:Lbp; [|exact W].
    assert (W1 : wf (upd ap (on_dir (pop_loop an)) t)).
    { apply wf_upd; [exact W|]. intros n _ Wn. destruct n as [d|es]; [exact Logic.I|]. cbn.
      rewrite pop_loop_nodup by (apply wf_dir in Wn; tauto). apply wf_remove_first, Wn. }
    destruct dp as [d|des]; [exact W1|]. destruct (is_prefix a bp); [exact W1|]. cbn [snd].
    apply wf_upd; [exact W1|]. intros n _ Wn. destruct n as [d|es]; [exact Logic.I|]. cbn.
    apply wf_put; [exact Wn|]. exact (wf_lookup _ _ _ W La).
  - (* open *)
    unfold m_open, get_node.
    assert (Hrun : forall d pos t0, wf t0 ->
              wf (snd (let '(rs, data') := run_hops true true false EValue d pos s in
                       (Ok (VOpen rs), upd p (fun _ => File data') t0)))).
    { intros d pos t0 W0. destruct (run_hops true true false EValue d pos s). apply wf_set_file, W0. }
    destruct m; try exact W;
      (destruct (lookup p t) as [[d|es]|] eqn:L; try exact W; try (apply Hrun; exact W)).
    all: destruct (unsnoc p) as [[pp x]|] eqn:E; try exact W; apply unsnoc_spec in E; subst p;
      destruct (lookup pp t) as [[d|es]|]; try exact W;
      destruct (run_hops true true false EValue [] 0 s); cbn [snd];
      apply wf_set_file, wf_add_at; [exact W|exact L|exact Logic.I].
Qed.
