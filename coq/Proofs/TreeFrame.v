(* C17: frame lemmas for the tree operations of Model/Session.v.
   Every operation at a path below an EXISTING path a factors through the subtree at a:
     op (a ++ q) n = option_map (fun s' => graft a s' n) (op q sub)     when lookup a n = Some sub
   so it neither depends on nor changes anything outside a's subtree; grafts at incomparable
   paths commute. *)
From Coq Require Import ZArith List Bool String Lia.
From Verif Require Import Lib.Sx Lib.PyStr Lib.Facts Model.Session Model.Multi Proofs.PyStrFacts.
Import ListNotations.
Open Scope list_scope.
Open Scope Z_scope.

(* ------------------------------------------------------------------ text keys *)
Lemma text_eqb_sym a b : text_eqb a b = text_eqb b a.
Proof.
  destruct (text_eqb a b) eqn:E1; destruct (text_eqb b a) eqn:E2; try reflexivity.
  - apply text_eqb_eq in E1. subst. rewrite text_eqb_refl in E2. discriminate.
  - apply text_eqb_eq in E2. subst. rewrite text_eqb_refl in E1. discriminate.
Qed.

Lemma is_prefix_app a p : is_prefix a p = true -> exists q, p = a ++ q.
Proof.
  revert p. induction a as [|x a IH]; intros p H.
  - exists p. reflexivity.
  - destruct p as [|y p]; [discriminate|]. cbn in H. apply andb_true_iff in H as [E H].
    apply text_eqb_eq in E. subst y. destruct (IH p H) as [q ->]. exists q. reflexivity.
Qed.

Lemma is_prefix_app_r a q : is_prefix a (a ++ q) = true.
Proof. induction a as [|x a IH]; cbn; [reflexivity|]. rewrite text_eqb_refl, IH. reflexivity. Qed.

Lemma is_prefix_cancel a p q : is_prefix (a ++ p) (a ++ q) = is_prefix p q.
Proof. induction a as [|x a IH]; cbn; [reflexivity|]. rewrite text_eqb_refl, IH. reflexivity. Qed.

(* ------------------------------------------------------------------ association lists *)
Section Assoc.
  Context {A : Type}.
  Implicit Types (ch : list (text * A)) (x y : text) (v : A).

  Lemma assoc_replace_same x v ch c : assoc_t x ch = Some c -> assoc_t x (replace_t x v ch) = Some v.
  Proof.
    induction ch as [|[k w] ch IH]; cbn; [discriminate|].
    destruct (text_eqb x k) eqn:E; cbn; rewrite E; [reflexivity|exact IH].
  Qed.

  Lemma assoc_replace_other x y v ch : text_eqb y x = false -> assoc_t y (replace_t x v ch) = assoc_t y ch.
  Proof.
    intro N. induction ch as [|[k w] ch IH]; cbn; [reflexivity|].
    destruct (text_eqb x k) eqn:E; cbn.
    - apply text_eqb_eq in E. subst k. rewrite N. reflexivity.
    - rewrite IH. reflexivity.
  Qed.

  Lemma replace_replace x v1 v2 ch : replace_t x v2 (replace_t x v1 ch) = replace_t x v2 ch.
  Proof.
    induction ch as [|[k w] ch IH]; cbn; [reflexivity|].
    destruct (text_eqb x k) eqn:E; cbn; rewrite E; [reflexivity|]. rewrite IH. reflexivity.
  Qed.

  Lemma replace_same x c ch : assoc_t x ch = Some c -> replace_t x c ch = ch.
  Proof.
    induction ch as [|[k w] ch IH]; cbn; [reflexivity|].
    destruct (text_eqb x k) eqn:E.
    - intro H. inversion H. reflexivity.
    - intro H. rewrite (IH H). reflexivity.
  Qed.

  Lemma replace_absent x v ch : assoc_t x ch = None -> replace_t x v ch = ch.
  Proof.
    induction ch as [|[k w] ch IH]; cbn; [reflexivity|].
    destruct (text_eqb x k) eqn:E; [discriminate|]. intro H. rewrite (IH H). reflexivity.
  Qed.

  Lemma replace_comm x y vx vy ch :
    text_eqb x y = false -> replace_t x vx (replace_t y vy ch) = replace_t y vy (replace_t x vx ch).
  Proof.
    intro N. induction ch as [|[k w] ch IH]; cbn; [reflexivity|].
    destruct (text_eqb y k) eqn:Ey; destruct (text_eqb x k) eqn:Ex; cbn; rewrite ?Ex, ?Ey; try reflexivity.
    - apply text_eqb_eq in Ey, Ex. subst. rewrite text_eqb_refl in N. discriminate.
    - rewrite IH. reflexivity.
  Qed.
End Assoc.

(* ------------------------------------------------------------------ graft *)
Lemma lookup_app a q n sub : lookup a n = Some sub -> lookup (a ++ q) n = lookup q sub.
Proof.
  revert n. induction a as [|x a IH]; intros n H; cbn in *.
  - inversion H. reflexivity.
  - destruct n as [c|ch]; [discriminate|]. destruct (assoc_t x ch) as [c|]; [|discriminate].
    apply IH. exact H.
Qed.

Lemma lookup_graft_same a s n s0 : lookup a n = Some s0 -> lookup a (graft a s n) = Some s.
Proof.
  revert n. induction a as [|x a IH]; intros n H; cbn in *; [reflexivity|].
  destruct n as [c|ch]; [discriminate|]. destruct (assoc_t x ch) as [c|] eqn:E; [|discriminate].
  cbn. rewrite (assoc_replace_same x _ ch c E). apply IH. exact H.
Qed.

Lemma lookup_graft_other a b s n : incomparable a b = true -> lookup b (graft a s n) = lookup b n.
Proof.
  revert b n. induction a as [|x a IH]; intros b n H.
  - discriminate.
  - destruct b as [|y b]; [unfold incomparable in H; cbn in H; discriminate|].
    cbn [graft]. destruct n as [c|ch]; [reflexivity|].
    destruct (assoc_t x ch) as [c|] eqn:E; [|reflexivity].
    cbn [lookup]. destruct (text_eqb y x) eqn:Eyx.
    + apply text_eqb_eq in Eyx. subst y. rewrite (assoc_replace_same x _ ch c E), E.
      apply IH. unfold incomparable in *. cbn in H. rewrite text_eqb_refl in H. exact H.
    + rewrite (assoc_replace_other x y _ ch Eyx). reflexivity.
Qed.

Lemma graft_graft a s1 s2 n : graft a s2 (graft a s1 n) = graft a s2 n.
Proof.
  revert n. induction a as [|x a IH]; intro n; cbn; [reflexivity|].
  destruct n as [c|ch]; [reflexivity|]. destruct (assoc_t x ch) as [c|] eqn:E; cbn.
  - rewrite (assoc_replace_same x _ ch c E), replace_replace, IH. reflexivity.
  - rewrite E. reflexivity.
Qed.

Lemma graft_same a s n : lookup a n = Some s -> graft a s n = n.
Proof.
  revert n. induction a as [|x a IH]; intros n H; cbn in *; [inversion H; reflexivity|].
  destruct n as [c|ch]; [reflexivity|]. destruct (assoc_t x ch) as [c|] eqn:E; [|reflexivity].
  rewrite (IH c H), (replace_same x c ch E). reflexivity.
Qed.

Lemma graft_comm a b s s' n :
  incomparable a b = true -> graft a s (graft b s' n) = graft b s' (graft a s n).
Proof.
  revert b n. induction a as [|x a IH]; intros b n H; [discriminate|].
  destruct b as [|y b]; [unfold incomparable in H; cbn in H; discriminate|].
  destruct n as [c|ch]; [reflexivity|]. cbn [graft].
  destruct (text_eqb x y) eqn:Exy.
  - apply text_eqb_eq in Exy. subst y.
    destruct (assoc_t x ch) as [c|] eqn:E; cbn [graft]; [|rewrite E; reflexivity].
    rewrite !(assoc_replace_same x _ ch c E), !replace_replace.
    rewrite IH; [reflexivity|]. unfold incomparable in *. cbn in H. rewrite text_eqb_refl in H. exact H.
  - assert (Eyx : text_eqb y x = false) by (rewrite text_eqb_sym; exact Exy).
    destruct (assoc_t x ch) as [cx|] eqn:Ex; destruct (assoc_t y ch) as [cy|] eqn:Ey; cbn [graft];
      rewrite ?(assoc_replace_other y x _ ch Exy), ?(assoc_replace_other x y _ ch Eyx), ?Ex, ?Ey; try reflexivity.
    rewrite (replace_comm x y _ _ ch Exy). reflexivity.
Qed.

Lemma incomparable_sym a b : incomparable a b = incomparable b a.
Proof. unfold incomparable. apply andb_comm. Qed.

Lemma incomparable_nonempty a b : incomparable a b = true -> a <> [] /\ b <> [].
Proof.
  unfold incomparable. intro H. apply andb_true_iff in H as [H1 H2].
  split; intro E; subst; cbn in *; discriminate.
Qed.

(* ------------------------------------------------------------------ operations below a *)
Definition lift (a : list text) (n : node) (o : option node) : option node :=
  match o with Some s' => Some (graft a s' n) | None => None end.

Lemma modify_app a q f n sub :
  lookup a n = Some sub -> modify (a ++ q) f n = lift a n (modify q f sub).
Proof.
  revert n. induction a as [|x a IH]; intros n H; cbn in *.
  - inversion H. subst. destruct (modify q f sub); reflexivity.
  - destruct n as [c|ch]; [discriminate|]. destruct (assoc_t x ch) as [c|] eqn:E; [|discriminate].
    rewrite (IH c H). destruct (modify q f sub); cbn; rewrite ?E; reflexivity.
Qed.

Lemma mkdir_p_app a q n sub :
  lookup a n = Some sub -> mkdir_p (a ++ q) n = lift a n (mkdir_p q sub).
Proof.
  revert n. induction a as [|x a IH]; intros n H; cbn in *.
  - inversion H. subst. destruct (mkdir_p q sub); reflexivity.
  - destruct n as [c|ch]; [discriminate|]. destruct (assoc_t x ch) as [c|] eqn:E; [|discriminate].
    rewrite (IH c H). destruct (mkdir_p q sub); cbn; rewrite ?E; reflexivity.
Qed.

Lemma split_path_snoc par x : split_path (par ++ [x]) = Some (par, x).
Proof. unfold split_path. rewrite rev_app_distr. cbn. rewrite rev_involutive. reflexivity. Qed.

Lemma split_path_some p par x : split_path p = Some (par, x) -> p = par ++ [x].
Proof.
  unfold split_path. destruct (rev p) as [|y rp] eqn:E; [discriminate|].
  intro H. inversion H. subst. rewrite <- (rev_involutive p), E. reflexivity.
Qed.

Lemma split_path_none p : split_path p = None -> p = [].
Proof.
  unfold split_path. destruct (rev p) as [|y rp] eqn:E; [|discriminate].
  intros _. rewrite <- (rev_involutive p), E. reflexivity.
Qed.

(* a non-empty path is its parent plus its last component *)
Lemma snoc_of_parent (a p q : list text) :
  a <> [] -> removelast p = a ++ q -> exists x, p = a ++ q ++ [x].
Proof.
  intros Na H. destruct p as [|y p'] eqn:Ep.
  - cbn in H. destruct a; [contradiction|discriminate].
  - assert (NE : y :: p' <> []) by discriminate.
    exists (last (y :: p') y). rewrite (app_removelast_last y NE) at 1. rewrite H, <- app_assoc. reflexivity.
Qed.

Lemma removelast_snoc {A} (l : list A) x : removelast (l ++ [x]) = l.
Proof. rewrite removelast_app; [|discriminate]. cbn. apply app_nil_r. Qed.

Lemma rmdir_app a par x n sub :
  lookup a n = Some sub -> rmdir (a ++ par ++ [x]) n = lift a n (rmdir (par ++ [x]) sub).
Proof.
  intro H. unfold rmdir. rewrite app_assoc, !split_path_snoc. apply modify_app. exact H.
Qed.

Lemma unlink_app a par x n sub :
  lookup a n = Some sub -> unlink (a ++ par ++ [x]) n = lift a n (unlink (par ++ [x]) sub).
Proof.
  intro H. unfold unlink. rewrite app_assoc, !split_path_snoc. apply modify_app. exact H.
Qed.

Lemma store_app a par x m off payload n sub :
  lookup a n = Some sub ->
  store (a ++ par ++ [x]) m off payload n = lift a n (store (par ++ [x]) m off payload sub).
Proof.
  intro H. unfold store. rewrite app_assoc, !split_path_snoc. apply modify_app. exact H.
Qed.

Lemma is_dir_app a q n sub : lookup a n = Some sub -> is_dir (a ++ q) n = is_dir q sub.
Proof. intro H. unfold is_dir. rewrite (lookup_app a q n sub H). reflexivity. Qed.
Lemma is_file_app a q n sub : lookup a n = Some sub -> is_file (a ++ q) n = is_file q sub.
Proof. intro H. unfold is_file. rewrite (lookup_app a q n sub H). reflexivity. Qed.
Lemma exists_app a q n sub : lookup a n = Some sub -> exists_ (a ++ q) n = exists_ q sub.
Proof. intro H. unfold exists_. rewrite (lookup_app a q n sub H). reflexivity. Qed.

Lemma rename_app a sp sx dp dx n sub :
  lookup a n = Some sub ->
  rename (a ++ sp ++ [sx]) (a ++ dp ++ [dx]) n = lift a n (rename (sp ++ [sx]) (dp ++ [dx]) sub).
Proof.
  intro H. unfold rename.
  rewrite (lookup_app a (sp ++ [sx]) n sub H).
  destruct (lookup (sp ++ [sx]) sub) as [moved|]; [|reflexivity].
  rewrite is_prefix_cancel.
  rewrite !(app_assoc a), !split_path_snoc.
  destruct (is_prefix (sp ++ [sx]) (dp ++ [dx])); [reflexivity|].
  rewrite (is_dir_app a dp n sub H).
  destruct (is_dir dp sub); cbn [negb]; [|reflexivity].
  rewrite (modify_app a sp _ n sub H).
  destruct (modify sp _ sub) as [s1|]; cbn [lift]; [|reflexivity].
  rewrite (modify_app a dp _ (graft a s1 n) s1 (lookup_graft_same a s1 n sub H)).
  destruct (modify dp _ s1) as [s2|]; cbn [lift]; [|reflexivity].
  rewrite graft_graft. reflexivity.
Qed.

(* ---- the same, on a tree of the form [graft a sub n] (the shape every reachable tree has) *)
Section OnGraft.
  Variables (a : list text) (n : node) (s0 : node).
  Hypothesis Ha : lookup a n = Some s0.

  Lemma lift_graft sub o : lift a (graft a sub n) o = lift a n o.
  Proof. destruct o; cbn; [rewrite graft_graft|]; reflexivity. Qed.

  Lemma lookup_g sub q : lookup (a ++ q) (graft a sub n) = lookup q sub.
  Proof. apply lookup_app. eapply lookup_graft_same. exact Ha. Qed.
  Lemma is_dir_g sub q : is_dir (a ++ q) (graft a sub n) = is_dir q sub.
  Proof. unfold is_dir. rewrite lookup_g. reflexivity. Qed.
  Lemma is_file_g sub q : is_file (a ++ q) (graft a sub n) = is_file q sub.
  Proof. unfold is_file. rewrite lookup_g. reflexivity. Qed.
  Lemma exists_g sub q : exists_ (a ++ q) (graft a sub n) = exists_ q sub.
  Proof. unfold exists_. rewrite lookup_g. reflexivity. Qed.
  Lemma mkdir_p_g sub q : mkdir_p (a ++ q) (graft a sub n) = lift a n (mkdir_p q sub).
  Proof. rewrite (mkdir_p_app a q _ sub (lookup_graft_same a sub n s0 Ha)). apply lift_graft. Qed.
  Lemma rmdir_g sub par x : rmdir (a ++ par ++ [x]) (graft a sub n) = lift a n (rmdir (par ++ [x]) sub).
  Proof. rewrite (rmdir_app a par x _ sub (lookup_graft_same a sub n s0 Ha)). apply lift_graft. Qed.
  Lemma unlink_g sub par x : unlink (a ++ par ++ [x]) (graft a sub n) = lift a n (unlink (par ++ [x]) sub).
  Proof. rewrite (unlink_app a par x _ sub (lookup_graft_same a sub n s0 Ha)). apply lift_graft. Qed.
  Lemma store_g sub par x m off payload :
    store (a ++ par ++ [x]) m off payload (graft a sub n) = lift a n (store (par ++ [x]) m off payload sub).
  Proof. rewrite (store_app a par x m off payload _ sub (lookup_graft_same a sub n s0 Ha)). apply lift_graft. Qed.
  Lemma rename_g sub sp sx dp dx :
    rename (a ++ sp ++ [sx]) (a ++ dp ++ [dx]) (graft a sub n) = lift a n (rename (sp ++ [sx]) (dp ++ [dx]) sub).
  Proof. rewrite (rename_app a sp sx dp dx _ sub (lookup_graft_same a sub n s0 Ha)). apply lift_graft. Qed.
End OnGraft.

(* ------------------------------------------------------------------ several grafts *)
Lemma grafts_same dirs n :
  (forall a, In a dirs -> exists s, lookup a n = Some s) ->
  grafts (map (fun a => (a, sub_at a n)) dirs) n = n.
Proof.
  induction dirs as [|a dirs IH]; intro H; cbn; [reflexivity|].
  rewrite IH by (intros b Hb; apply H; right; exact Hb).
  apply graft_same. unfold sub_at. destruct (H a (or_introl eq_refl)) as [s ->]. reflexivity.
Qed.
