(* Proofs about Model/PermXfer.v and Model/ResolveCheck.v (C04: deferred transfers) *)
From Coq Require Import ZArith List Bool String.
From Verif Require Import Lib.Sx Lib.PyStr Lib.PosixPath Lib.Facts Model.Paths Model.Perm Model.PermXfer Model.ResolveCheck
  Model.PathsSess Proofs.PosixPathFacts Proofs.Paths Proofs.Perm Proofs.PathsSess.
Import ListNotations.
Open Scope list_scope.
Open Scope Z_scope.

(* whatever the session does between the 150 reply and the data connection, a worker that uses the handler's
   real_path hands to the backend exactly the location the permission was looked up for *)
Theorem transfer_target_is_authorised flags st0 bs rest : abs_wf (r_cwd st0) ->
  let n := normalize (parts (r_cwd st0)) rest in
  let cur := nearest (r_perms st0) (mkp 1 n) in
  request flags st0 rest
  = Some (path_permissions flags cur, cur,
          match path_permissions flags cur with
          | CallBody => Some (mkp (anchor (r_base st0)) (parts (r_base st0) ++ n))
          | _ => None
          end)
  /\ worker_path false st0 (between_run st0 bs) rest
     = Some (mkp (anchor (r_base st0)) (parts (r_base st0) ++ n)).
Proof.
  intros Hc n cur. unfold request, worker_path.
  pose proof (lookup_on_resolved (r_base st0) (r_cwd st0) (r_perms st0) flags rest Hc) as H. cbv zeta in H.
  rewrite H. rewrite (get_paths_spec (r_base st0) (r_cwd st0) rest Hc). cbn [option_map fst].
  split; reflexivity.
Qed.

(* a worker that resolves again when it starts does not: /rw writable, /ro not; STOR up.bin from /rw is
   authorised, CWD /ro arrives before the data connection, the file is opened in /ro *)
Definition x_perms : list perm :=
  [ mkperm 0 (parse [47]) true true; mkperm 1 (parse [47;114;111]) true false ].
Definition x_st0 : rstate := mkrs (parse [47;115]) (parse [47;114;119]) x_perms.

Theorem late_resolution_breaks :
  exists flags st0 bs rest p,
    abs_wf (r_cwd st0)
    /\ (exists cur, request flags st0 rest = Some (CallBody, cur, Some p))
    /\ (exists q, worker_path true st0 (between_run st0 bs) rest = Some q /\ q <> p
        /\ exists cur', request flags (between_run st0 bs) rest = Some (Deny550, cur', None)).
Proof.
  exists [Writable], x_st0, [BNav (Cwd [47;114;111] true)], [117;112], (mkp 1 [[115];[114;119];[117;112]]).
  split; [split; [discriminate|repeat constructor; cbn; discriminate]|].
  split.
  - eexists. vm_compute. reflexivity.
  - eexists. split; [vm_compute; reflexivity|]. split; [discriminate|]. eexists. vm_compute. reflexivity.
Qed.

(* the checker over Gen/Resolve.v is sound: no transfer worker of an accepted source resolves late *)
Local Open Scope string_scope.
Theorem check_worker_paths_sound wp hr : check_worker_paths wp hr = true ->
  forall w, In w transfer_workers -> late_of wp w = false.
Proof.
  unfold check_worker_paths. intros H w Hw. rewrite forallb_forall in H. specialize (H w Hw).
  unfold late_of. destruct (assoc_s w wp) as [[o [free [calls b]]]|]; [|discriminate].
  apply andb_true_iff in H. destruct H as [H _]. apply andb_true_iff in H. destruct H as [Hf Hc].
  rewrite Hf. cbn [negb orb]. apply negb_true_iff in Hc. exact Hc.
Qed.

Theorem transfer_target_checked wp hr : check_worker_paths wp hr = true ->
  forall w, In w transfer_workers ->
  forall st0 bs rest, abs_wf (r_cwd st0) ->
  worker_path (late_of wp w) st0 (between_run st0 bs) rest
  = Some (mkp (anchor (r_base st0)) (parts (r_base st0) ++ normalize (parts (r_cwd st0)) rest)).
Proof.
  intros H w Hw st0 bs rest Hc. rewrite (check_worker_paths_sound wp hr H w Hw).
  exact (proj2 (transfer_target_is_authorised [] st0 bs rest Hc)).
Qed.

(* ---- histories of requests with CWD/CDUP and re-logins in between ---- *)
Local Close Scope string_scope.
Definition between_ok (b : between) : Prop :=
  match b with BLogin _ h _ => abs_wf h | _ => True end.
Definition sreq_ok (e : sreq) : Prop := match e with SBetween b => between_ok b | SReq _ _ => True end.

Lemma between_step_inv st b : abs_wf (r_cwd st) -> between_ok b ->
  abs_wf (r_cwd (between_step st b))
  /\ (r_perms (between_step st b), parts (r_cwd (between_step st b)))
     = spec_between (r_perms st, parts (r_cwd st)) b.
Proof.
  intros Hc Hb. destruct b as [c|b h p|]; cbn [between_step spec_between r_cwd r_perms fst snd].
  - destruct c as [s ok|ok]; cbn [nav_step].
    + rewrite (get_paths_spec (r_base st) (r_cwd st) s Hc).
      destruct ok; cbn [parts]; split; try reflexivity; try assumption.
      apply normalize_abs_wf. exact (proj2 Hc).
    + rewrite (cdup_spec (r_base st) (r_cwd st) Hc).
      destruct ok; cbn [parts]; split; try reflexivity; try assumption.
      split; [discriminate|apply (spec_cdup_ok _ (proj2 Hc))].
  - split; [exact Hb|reflexivity].
  - split; [assumption|reflexivity].
Qed.

(* every request of every history is decided by the nearest entry, IN THE TABLE OF THE USER LOGGED IN NOW, of the
   normal form of the argument under the working directory as it is now *)
Theorem reqs_run_spec h : Forall sreq_ok h -> forall st, abs_wf (r_cwd st) ->
  reqs_run st h = reqs_spec (r_perms st, parts (r_cwd st)) h.
Proof.
  induction 1 as [|e h He Hh IH]; intros st Hc; [reflexivity|].
  destruct e as [b|f r]; cbn [reqs_run reqs_spec].
  - destruct (between_step_inv st b Hc He) as [Hc' E]. rewrite <- E. apply IH. exact Hc'.
  - rewrite (IH st Hc). f_equal.
    destruct (transfer_target_is_authorised f st [] r Hc) as [E _]. cbv zeta in E. rewrite E. reflexivity.
Qed.
