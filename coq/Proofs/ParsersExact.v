(* C19, second layer of proofs about Model/Parsers.v:
   (A) the lister of Client.list at full strength: work bounded by what the server sent, and
       stability of the outcome against ANY (possibly never-refusing, infinite) server;
   (B) value-exactness of the parsers on well-formed input (not only exception classes):
       for every well-formed line built from arbitrary components, the parser returns exactly
       those components. *)
From Coq Require Import ZArith List Bool Lia.
From Verif Require Import Lib.Sx Lib.PyStr Lib.PyStr3 Model.Framing Model.Parsers.
From Verif Require Import Proofs.PyStrFacts Proofs.Parsers Gen.Unicode.
Import ListNotations.
Open Scope Z_scope.

(* ================= (A) the lister ================= *)
Section ListerBounds.
  Variable L : Type.
  Variable parse : bool -> L -> result (text * dict).
  Notation loop := (lister_loop L parse).
  Notation measure := (lister_measure L).

  Definition total_lines (sc : script L) : nat :=
    fold_right (fun e n => (length (snd e) + n)%nat) O sc.

  (* the client never yields more entries than lines it received, and never asks for more
     directories than the server answered plus the one that was refused *)
  Lemma lister_bounds fuel rec cur mode lines queue sc acc reqs :
    let r := loop fuel rec cur mode lines queue sc acc reqs in
    (length (yields r) <= length acc + length lines + total_lines sc)%nat
    /\ (length (requests r) <= length reqs + S (length sc))%nat.
  Proof.
    revert cur mode lines queue sc acc reqs.
    induction fuel as [|f IH]; intros cur mode lines queue sc acc reqs; cbn [lister_loop].
    - cbn. rewrite !rev_length. lia.
    - destruct lines as [|l ls].
      + destruct queue as [|d q]; [cbn; rewrite !rev_length; lia|].
        destruct sc as [|[m ls] sc'].
        * cbn [yields requests]. rewrite !rev_length. cbn [length total_lines fold_right]. lia.
        * specialize (IH d m ls q sc' acc (d :: reqs)). cbn zeta in IH. cbn [length total_lines fold_right snd] in *.
          fold (total_lines sc') in *. lia.
      + destruct (parse mode l) as [[name info]|e]; [|cbn; rewrite !rev_length; lia].
        destruct (dict_get k_type info) as [t|]; [|cbn; rewrite !rev_length; lia].
        destruct (is_dot_name name).
        * specialize (IH cur mode ls queue sc acc reqs). cbn zeta in IH. cbn [length]. lia.
        * match goal with |- context [loop f rec cur mode ls ?q sc ?a reqs] =>
            specialize (IH cur mode ls q sc a reqs) end.
          cbn zeta in IH. cbn [length] in *. lia.
  Qed.

  Theorem lister_work_bounded rec path sc :
    let r := run_lister L parse rec path sc in
    (length (yields r) <= total_lines sc)%nat /\ (length (requests r) <= S (length sc))%nat.
  Proof.
    unfold run_lister.
    pose proof (lister_bounds (S (measure [] [path] sc)) rec path false [] [path] sc [] []) as H.
    cbn zeta in H. cbn [length] in H. cbn zeta. lia.
  Qed.

  (* a run that did not exhaust the script (it asked for at most as many directories as the
     script answers) is unchanged by whatever the server would have answered afterwards *)
  Lemma lister_extension ex fuel :
    forall fuel' rec cur mode lines queue sc acc reqs,
    (measure lines queue sc < fuel)%nat -> (measure lines queue (sc ++ ex) < fuel')%nat ->
    (length (requests (loop fuel rec cur mode lines queue sc acc reqs)) <= length reqs + length sc)%nat ->
    loop fuel' rec cur mode lines queue (sc ++ ex) acc reqs = loop fuel rec cur mode lines queue sc acc reqs.
  Proof.
    induction fuel as [|f IH]; intros fuel' rec cur mode lines queue sc acc reqs H1 H2 Hr; [lia|].
    destruct fuel' as [|f']; [lia|].
    cbn [lister_loop] in *.
    destruct lines as [|l ls].
    - destruct queue as [|d q]; [reflexivity|].
      destruct sc as [|[m ls] sc'].
      + cbn [requests] in Hr. rewrite rev_length in Hr. cbn [length] in Hr. lia.
      + cbn [app]. apply IH.
        * unfold lister_measure in *. rewrite weight_cons in H1. cbn [length] in *. lia.
        * unfold lister_measure in *. cbn [app] in H2. rewrite weight_cons in H2. cbn [length] in *. lia.
        * cbn [length] in *. lia.
    - destruct (parse mode l) as [[name info]|e]; [|reflexivity].
      destruct (dict_get k_type info) as [t|]; [|reflexivity].
      destruct (is_dot_name name).
      + apply IH; [| |exact Hr]; unfold lister_measure in *; cbn [length] in *; lia.
      + apply IH; [| |exact Hr]; unfold lister_measure in *;
          destruct (text_eqb t t_dir && rec); rewrite ?app_length; cbn [length] in *; lia.
  Qed.

  Theorem lister_prefix_stable rec path sc ex :
    (length (requests (run_lister L parse rec path sc)) <= length sc)%nat ->
    run_lister L parse rec path (sc ++ ex) = run_lister L parse rec path sc.
  Proof.
    unfold run_lister. intro H. apply lister_extension; [lia|lia|exact H].
  Qed.

  (* ANY server, also one that never refuses: srv k = its answer to the k-th MLSD/LIST request.
     Cut after n answers, Client.list either has already ended -- and then ends in exactly the
     same way whatever the server would answer later -- or it has used up all n answers and
     asked for one more.  So the client runs on only for as long as the peer keeps answering
     requests (each answer a finite listing): it never spins on its own. *)
  Definition server_prefix (srv : nat -> bool * list L) (n : nat) : script L := map srv (seq 0 n).

  Theorem lister_against_any_server (srv : nat -> bool * list L) rec path n :
    let r := run_lister L parse rec path (server_prefix srv n) in
    ending r <> LFuel
    /\ (length (requests r) = S n
        \/ forall m, (n <= m)%nat -> run_lister L parse rec path (server_prefix srv m) = r).
  Proof.
    cbn zeta. split; [apply run_lister_terminates|].
    pose proof (lister_work_bounded rec path (server_prefix srv n)) as [_ Hb]. cbn zeta in Hb.
    unfold server_prefix in *. rewrite map_length, seq_length in Hb.
    destruct (Nat.eq_dec (length (requests (run_lister L parse rec path (map srv (seq 0 n))))) (S n))
      as [E|NE]; [left; exact E|right].
    intros m Hm. replace m with (n + (m - n))%nat by lia.
    rewrite seq_app, map_app. apply lister_prefix_stable.
    rewrite map_length, seq_length. lia.
  Qed.
End ListerBounds.

(* ================= (B) value-exactness on well-formed input ================= *)
Definition no (c : Z) (s : text) : Prop := forallb (fun x => negb (x =? c)) s = true.

Lemma no_app c a b : no c (a ++ b) <-> no c a /\ no c b.
Proof. unfold no. rewrite forallb_app, andb_true_iff. tauto. Qed.
Lemma no_cons c x s : no c (x :: s) <-> x <> c /\ no c s.
Proof.
  unfold no. cbn. rewrite andb_true_iff, negb_true_iff, Z.eqb_neq. tauto.
Qed.
Lemma no_nil c : no c []. Proof. reflexivity. Qed.

Lemma rstrip_app_nonempty a b : rstrip b = b -> b <> [] -> rstrip (a ++ b) = a ++ b.
Proof.
  intros Hb Hn. induction a as [|c a IH]; [exact Hb|].
  cbn [app rstrip]. rewrite IH. destruct (a ++ b) eqn:E; [|reflexivity].
  apply app_eq_nil in E as [_ E]. contradiction.
Qed.

Lemma split_on_plain c h : no c h -> split_on c h = [h].
Proof.
  induction h as [|x h IH]; intro H; [reflexivity|].
  apply no_cons in H as [Hx Hh]. cbn. apply Z.eqb_neq in Hx. rewrite Hx, (IH Hh). reflexivity.
Qed.

Lemma split_on_app c h rest : no c h -> split_on c (h ++ c :: rest) = h :: split_on c rest.
Proof.
  induction h as [|x h IH]; intro H.
  - cbn. rewrite Z.eqb_refl. reflexivity.
  - apply no_cons in H as [Hx Hh]. cbn. apply Z.eqb_neq in Hx. rewrite Hx, (IH Hh). reflexivity.
Qed.

Lemma split_on_join c h t :
  Forall (no c) (h :: t) -> split_on c (join [c] (h :: t)) = h :: t.
Proof.
  revert h. induction t as [|x t IH]; intros h H; cbn [join flat_map].
  - rewrite app_nil_r. apply split_on_plain. inversion H; assumption.
  - inversion H as [|? ? Hh Ht]; subst. cbn [app].
    rewrite split_on_app by exact Hh. f_equal. apply (IH x Ht).
Qed.

Lemma no_join c sep parts : sep <> c -> Forall (no c) parts -> no c (join [sep] parts).
Proof.
  intros Hs H. destruct parts as [|h t]; [apply no_nil|]. cbn [join].
  inversion H as [|? ? Hh Ht]; subst. apply no_app. split; [exact Hh|].
  induction t as [|x t IH]; [apply no_nil|]. cbn [flat_map]. inversion Ht as [|? ? Hx Ht']; subst.
  cbn [app]. apply no_cons. split; [exact Hs|]. apply no_app. split; [exact Hx|].
  apply IH; [constructor; assumption|assumption].
Qed.

(* ---- parse_mlsx_line: "k1=v1;k2=v2; name" returns exactly the name and the facts ---- *)
Definition fact_text (kv : text * text) : text := fst kv ++ 61 :: snd kv.
Definition mlsx_facts (fs : list (text * text)) : text := join [59] (map fact_text fs) ++ [59].
Definition fact_ok (kv : text * text) : Prop :=
  (no SP (fst kv) /\ no 59 (fst kv) /\ no 61 (fst kv)) /\ (no SP (snd kv) /\ no 59 (snd kv)).
Definition facts_dict (fs : list (text * text)) : dict :=
  fold_left (fun d kv => dict_set (lower (fst kv)) (snd kv) d) fs [].

Lemma fact_text_no c kv : c <> 61 -> no c (fst kv) -> no c (snd kv) -> no c (fact_text kv).
Proof.
  intros Hc Hk Hv. unfold fact_text. apply no_app. split; [exact Hk|].
  apply no_cons. split; [congruence|exact Hv].
Qed.

Lemma mlsx_fold fs d :
  Forall fact_ok fs ->
  fold_left (fun d fact => let '(k, _, v) := partition 61 fact in dict_set (lower k) v d)
            (map fact_text fs) d
  = fold_left (fun d kv => dict_set (lower (fst kv)) (snd kv) d) fs d.
Proof.
  revert d. induction fs as [|kv fs IH]; intros d H; [reflexivity|].
  inversion H as [|? ? Hkv Hfs]; subst. cbn [map fold_left].
  destruct Hkv as [[_ [_ Hk]] _]. change (fact_text kv) with (fst kv ++ 61 :: snd kv). rewrite (partition_app 61 _ _ Hk).
  apply IH. exact Hfs.
Qed.

Theorem mlsx_text_exact fs name eol :
  fs <> [] -> Forall fact_ok fs -> name <> [] -> rstrip name = name -> forallb is_space eol = true ->
  parse_mlsx_text (mlsx_facts fs ++ SP :: name ++ eol) = Ok (posix_norm name, facts_dict fs).
Proof.
  intros Hne Hok Hn Hr He. unfold parse_mlsx_text.
  replace (mlsx_facts fs ++ SP :: name ++ eol) with ((mlsx_facts fs ++ SP :: name) ++ eol)
    by (rewrite <- app_assoc; reflexivity).
  rewrite rstrip_app_spaces by exact He.
  replace (mlsx_facts fs ++ SP :: name) with ((mlsx_facts fs ++ [SP]) ++ name)
    by (rewrite <- app_assoc; reflexivity).
  rewrite rstrip_app_nonempty by assumption. rewrite <- app_assoc. cbn [app].
  assert (Hsp : no SP (mlsx_facts fs)).
  { unfold mlsx_facts. apply no_app. split; [|apply no_cons; split; [unfold SP; congruence|apply no_nil]].
    apply no_join; [unfold SP; congruence|]. apply Forall_map. eapply Forall_impl; [|exact Hok].
    intros kv [[H1 _] [H2 _]]. apply fact_text_no; [unfold SP; congruence|assumption|assumption]. }
  rewrite (partition_app SP _ _ Hsp). cbn [negb orb].
  destruct name as [|n0 name']; [contradiction|]. unfold mlsx_entry, mlsx_facts. rewrite removelast_last.
  destruct fs as [|kv fs]; [contradiction|]. cbn [map].
  rewrite split_on_join.
  2:{ apply (Forall_map fact_text (no 59) (kv :: fs)). eapply Forall_impl; [|exact Hok].
      intros x [[_ [H1 _]] [_ H2]]. apply fact_text_no; [congruence|assumption|assumption]. }
  change (fact_text kv :: map fact_text fs) with (map fact_text (kv :: fs)).
  rewrite mlsx_fold by exact Hok. reflexivity.
Qed.

Theorem mlsx_line_exact dec b fs name eol :
  dec b = Some (mlsx_facts fs ++ SP :: name ++ eol) ->
  fs <> [] -> Forall fact_ok fs -> name <> [] -> rstrip name = name -> forallb is_space eol = true ->
  parse_mlsx_line dec b = Ok (posix_norm name, facts_dict fs).
Proof.
  intros Hd Hne Hok Hn Hr He. unfold parse_mlsx_line. rewrite Hd. cbn [of_opt bind].
  apply mlsx_text_exact; assumption.
Qed.

(* ---- int() of a run of ASCII digits ---- *)
Lemma decimal_ranges_head : exists r, decimal_ranges = (48, 57) :: r.
Proof. eexists. vm_compute. reflexivity. Qed.

Lemma ascii_digit_is_decimal c : is_ascii_digit c = true -> is_decimal_char c = true.
Proof.
  unfold is_ascii_digit, is_decimal_char, in_ranges. intro H.
  destruct decimal_ranges_head as [r ->]. cbn. rewrite H. reflexivity.
Qed.

Lemma ascii_digit_decimal_val c : is_ascii_digit c = true -> decimal_val c = Some (digit_val c).
Proof.
  unfold is_ascii_digit, decimal_val, digit_val. intro H.
  destruct decimal_ranges_head as [r ->]. cbn [find fst snd]. rewrite H.
  apply andb_true_iff in H as [H1 H2]. apply Z.leb_le in H1, H2.
  f_equal. apply Z.mod_small. lia.
Qed.

Lemma int_digits_ascii ds : forall p acc n,
  forallb is_ascii_digit ds = true -> (ds <> [] \/ p = true) ->
  int_digits ds p acc n
  = Some (fold_left (fun a c => a * 10 + digit_val c) ds acc, n + Z.of_nat (length ds)).
Proof.
  induction ds as [|c ds IH]; intros p acc n H Hp.
  - destruct Hp as [Hp| ->]; [contradiction|]. cbn. rewrite Z.add_0_r. reflexivity.
  - cbn [forallb] in H. apply andb_true_iff in H as [Hc Hds].
    cbn [int_digits]. assert (E : (c =? 95) = false).
    { unfold is_ascii_digit in Hc. apply andb_true_iff in Hc as [_ H2]. apply Z.leb_le in H2.
      apply Z.eqb_neq. lia. }
    rewrite E, (ascii_digit_decimal_val c Hc). rewrite IH by (auto).
    cbn [fold_left length]. f_equal. f_equal. lia.
Qed.

Lemma lstrip_by_head f c r : f c = false -> lstrip_by f (c :: r) = c :: r.
Proof. intro H. cbn. rewrite H. reflexivity. Qed.

Lemma ascii_digit_not_int_space c : is_ascii_digit c = true -> int_space c = false.
Proof.
  unfold is_ascii_digit, int_space. intro H. apply andb_true_iff in H as [H1 H2].
  apply Z.leb_le in H1, H2. replace (c <? 127) with true by (symmetry; apply Z.ltb_lt; lia).
  apply orb_false_iff. split; [apply Z.eqb_neq; lia|].
  apply andb_false_iff. right. apply Z.leb_gt. lia.
Qed.

Lemma strip_int_space_digits ds :
  forallb is_ascii_digit ds = true -> rstrip_by int_space (lstrip_by int_space ds) = ds.
Proof.
  intro H. destruct ds as [|c r]; [reflexivity|].
  assert (Hc : is_ascii_digit c = true) by (cbn in H; apply andb_true_iff in H; tauto).
  rewrite lstrip_by_head by (apply ascii_digit_not_int_space; exact Hc).
  unfold rstrip_by. destruct (rev (c :: r)) as [|x t] eqn:E.
  - apply (f_equal (@rev Z)) in E. rewrite rev_involutive in E. discriminate.
  - assert (Hx : is_ascii_digit x = true).
    { rewrite forallb_forall in H. apply H. apply in_rev. rewrite E. left. reflexivity. }
    rewrite lstrip_by_head by (apply ascii_digit_not_int_space; exact Hx).
    rewrite <- E. apply rev_involutive.
Qed.

Theorem py_int_ascii_digits ds :
  ds <> [] -> forallb is_ascii_digit ds = true -> Z.of_nat (length ds) <= int_max_str_digits ->
  py_int ds = Some (int_of_ascii_digits ds).
Proof.
  intros Hn H Hl. unfold py_int. rewrite strip_int_space_digits by exact H.
  destruct ds as [|c r]; [contradiction|].
  assert (Hc : is_ascii_digit c = true) by (cbn in H; apply andb_true_iff in H; tauto).
  match goal with |- ?lhs = _ => assert (E : lhs = int_unsigned (c :: r)) end.
  { clear -Hc. unfold is_ascii_digit in Hc. apply andb_true_iff in Hc as [H1 H2]. apply Z.leb_le in H1, H2.
    assert (Hc : c = 48 \/ c = 49 \/ c = 50 \/ c = 51 \/ c = 52 \/ c = 53 \/ c = 54 \/ c = 55
                 \/ c = 56 \/ c = 57) by lia.
    repeat (destruct Hc as [-> | Hc]; [reflexivity|]). subst. reflexivity. }
  rewrite E. clear E.
  unfold int_unsigned. rewrite int_digits_ascii by (auto).
  assert (G : (0 + Z.of_nat (length (c :: r)) >? int_max_str_digits) = false)
    by (rewrite Z.gtb_ltb; apply Z.ltb_ge; lia).
  rewrite G. reflexivity.
Qed.

(* ---- parse_epsv_response: "text (|||port|) text" returns exactly the port ---- *)
Lemma epsv_match_at_needs_paren s : (forall r, s <> 40 :: r) -> epsv_match_at s = None.
Proof.
  intro H. destruct s as [|x r]; [reflexivity|].
  destruct (Z.eq_dec x 40) as [->|Hx]; [exfalso; apply (H r); reflexivity|].
  unfold epsv_match_at.
  destruct x as [|p|p]; try reflexivity.
  do 6 (destruct p as [p|p|]; try reflexivity). contradiction.
Qed.

Lemma epsv_scan_no_paren s last : no 40 s -> epsv_scan s O last = last.
Proof.
  induction s as [|x r IH]; intro H; [reflexivity|].
  apply no_cons in H as [Hx Hr]. cbn [epsv_scan].
  rewrite epsv_match_at_needs_paren by (intros r' E; injection E; intros; contradiction).
  apply IH. exact Hr.
Qed.

Lemma epsv_scan_step x r last :
  epsv_scan (x :: r) O last
  = match epsv_match_at (x :: r) with
    | Some (digits, len) => epsv_scan r (len - 1) (Some digits)
    | None => epsv_scan r O last
    end.
Proof. reflexivity. Qed.

Lemma epsv_scan_skip a b last : epsv_scan (a ++ b) (length a) last = epsv_scan b O last.
Proof. induction a as [|x a IH]; [reflexivity|]. cbn [app length epsv_scan]. exact IH. Qed.

Lemma span_decimal_app ds x r :
  forallb is_decimal_char ds = true -> is_decimal_char x = false ->
  span_decimal (ds ++ x :: r) = (ds, x :: r).
Proof.
  intros H Hx. induction ds as [|c ds IH]; cbn [app span_decimal].
  - rewrite Hx. reflexivity.
  - cbn [forallb] in H. apply andb_true_iff in H as [Hc Hds]. rewrite Hc, (IH Hds). reflexivity.
Qed.

Definition epsv_text (pre ds post : text) : text :=
  pre ++ [40; 124; 124; 124] ++ ds ++ [124; 41] ++ post.

Theorem epsv_exact pre ds post :
  no 40 pre -> no 40 post ->
  ds <> [] -> forallb is_ascii_digit ds = true -> Z.of_nat (length ds) <= int_max_str_digits ->
  parse_epsv_response (epsv_text pre ds post) = Ok (int_of_ascii_digits ds).
Proof.
  intros Hpre Hpost Hn Hd Hl. unfold parse_epsv_response, epsv_text.
  assert (Hscan : epsv_scan (pre ++ [40; 124; 124; 124] ++ ds ++ [124; 41] ++ post) O None = Some ds).
  { assert (G : forall last, epsv_scan (pre ++ [40; 124; 124; 124] ++ ds ++ [124; 41] ++ post) O last = Some ds).
    { induction pre as [|x pre IH]; intro last.
      - cbn [app]. rewrite epsv_scan_step.
        assert (M : epsv_match_at (40 :: 124 :: 124 :: 124 :: ds ++ 124 :: 41 :: post)
                    = Some (ds, (4 + length ds + 2)%nat)).
        { unfold epsv_match_at.
          replace ((124 =? 10) || negb ((124 =? 124) && (124 =? 124))) with false by reflexivity.
          rewrite span_decimal_app.
          2:{ rewrite forallb_forall in *. intros c Hc. apply ascii_digit_is_decimal, Hd, Hc. }
          2:{ vm_compute. reflexivity. }
          replace (is_decimal_char 124) with false by (vm_compute; reflexivity).
          destruct ds as [|c r]; [contradiction|]. rewrite Z.eqb_refl. reflexivity. }
        rewrite M.
        replace (124 :: 124 :: 124 :: ds ++ 124 :: 41 :: post)
          with (([124; 124; 124] ++ ds ++ [124; 41]) ++ post)
          by (cbn [app]; rewrite <- app_assoc; reflexivity).
        replace (4 + length ds + 2 - 1)%nat with (length ([124; 124; 124] ++ ds ++ [124; 41]))
          by (cbn [app length]; rewrite app_length; cbn [length]; lia).
        rewrite epsv_scan_skip. apply epsv_scan_no_paren. exact Hpost.
      - apply no_cons in Hpre as [Hx Hpre']. cbn [app epsv_scan].
        rewrite epsv_match_at_needs_paren by (intros r' E; injection E; intros; contradiction).
        apply IH. exact Hpre'. }
    apply G. }
  rewrite Hscan. cbn [of_opt bind]. rewrite py_int_ascii_digits by assumption. reflexivity.
Qed.

(* ---- parse_directory_response: 257 "quoted path" text (repaired state machine) ---- *)
(* quoting as RFC 959 prescribes: every double quote is doubled *)
Definition dq_escape (d : text) : text := flat_map (fun c => if c =? 34 then [34; 34] else [c]) d.

Lemma odd_double k : Nat.odd (2 * k) = false.
Proof.
  induction k as [|k IH]; [reflexivity|].
  replace (2 * S k)%nat with (S (S (2 * k))) by lia. exact IH.
Qed.
Lemma odd_S_double k : Nat.odd (S (2 * k)) = true.
Proof.
  induction k as [|k IH]; [reflexivity|].
  replace (S (2 * S k))%nat with (S (S (S (2 * k)))) by lia. exact IH.
Qed.

Lemma repeat_snoc {A} (x : A) n : repeat x n ++ [x] = x :: repeat x n.
Proof. induction n as [|n IH]; [reflexivity|]. cbn. rewrite IH. reflexivity. Qed.

(* scanning the escaped path: the quotes still pending (2k of them seen) plus what is
   accumulated always denote the path read so far *)
Lemma dir_loop_body d : forall rest k acc,
  exists k' acc',
    dir_loop (dq_escape d ++ rest) true (2 * k) acc = dir_loop rest true (2 * k') acc'
    /\ repeat 34 k' ++ acc' = rev d ++ repeat 34 k ++ acc.
Proof.
  induction d as [|c d IH]; intros rest k acc.
  - exists k, acc. split; reflexivity.
  - destruct (c =? 34) eqn:Ec.
    + apply Z.eqb_eq in Ec. subst c. cbn [dq_escape flat_map]. rewrite Z.eqb_refl. cbn [app dir_loop negb].
      rewrite Z.eqb_refl. fold (dq_escape d).
      replace (S (S (2 * k))) with (2 * S k)%nat by lia.
      destruct (IH rest (S k) acc) as [k' [acc' [H1 H2]]]. exists k', acc'. split; [exact H1|].
      rewrite H2. cbn [rev repeat]. rewrite <- app_assoc. reflexivity.
    + cbn [dq_escape flat_map]. rewrite Ec. cbn [app dir_loop negb]. rewrite Ec.
      rewrite odd_double, Nat.div2_double. fold (dq_escape d).
      destruct (IH rest O (c :: repeat 34 k ++ acc)) as [k' [acc' [H1 H2]]].
      exists k', acc'. split; [exact H1|]. rewrite H2. cbn [rev repeat app]. rewrite <- app_assoc. reflexivity.
Qed.

Lemma dir_loop_pre pre rest : no 34 pre ->
  dir_loop (pre ++ 34 :: rest) false O [] = dir_loop rest true O [].
Proof.
  induction pre as [|x pre IH]; intro H.
  - reflexivity.
  - apply no_cons in H as [Hx Hp]. apply Z.eqb_neq in Hx. cbn [app dir_loop negb]. rewrite Hx.
    apply IH. exact Hp.
Qed.

(* EVERY path d (also one that ends in a double quote or contains several in a row: the F08
   repair) is recovered exactly from its RFC 959 quoting *)
Theorem directory_exact pre d post :
  no 34 pre -> (forall r, post <> 34 :: r) ->
  parse_directory_response (pre ++ 34 :: dq_escape d ++ 34 :: post) = posix_norm d.
Proof.
  intros Hpre Hpost. unfold parse_directory_response. f_equal.
  rewrite dir_loop_pre by exact Hpre.
  destruct (dir_loop_body d (34 :: post) O []) as [k' [acc' [H1 H2]]].
  change (2 * 0)%nat with O in H1. rewrite H1. cbn [dir_loop negb]. rewrite Z.eqb_refl.
  cbn [repeat app] in H2. rewrite app_nil_r in H2.
  destruct post as [|x r].
  - cbn [dir_loop]. rewrite Nat.div2_succ_double, H2. apply rev_involutive.
  - assert (Hx : (x =? 34) = false) by (apply Z.eqb_neq; intro; subst; apply (Hpost r); reflexivity).
    cbn [dir_loop negb]. rewrite Hx, odd_S_double, Nat.div2_succ_double, H2. apply rev_involutive.
Qed.

(* ---- small list facts ---- *)
Lemma firstn_len_app {A} (a b : list A) : firstn (length a) (a ++ b) = a.
Proof. induction a as [|x a IH]; [reflexivity|]. cbn. rewrite IH. reflexivity. Qed.
Lemma skipn_len_app {A} (a b : list A) : skipn (length a) (a ++ b) = b.
Proof. induction a as [|x a IH]; [reflexivity|]. cbn. exact IH. Qed.
Lemma index_of_app c a b : no c a -> index_of c (a ++ c :: b) = Some (length a).
Proof.
  induction a as [|x a IH]; intro H.
  - cbn. rewrite Z.eqb_refl. reflexivity.
  - apply no_cons in H as [Hx Ha]. apply Z.eqb_neq in Hx. cbn. rewrite Hx, (IH Ha). reflexivity.
Qed.
Lemma digits_no c ds : forallb is_ascii_digit ds = true -> (c < 48 \/ 57 < c) -> no c ds.
Proof.
  intros H Hc. unfold no. rewrite forallb_forall in *. intros x Hx. specialize (H x Hx).
  unfold is_ascii_digit in H. apply andb_true_iff in H as [H1 H2]. apply Z.leb_le in H1, H2.
  apply negb_true_iff, Z.eqb_neq. lia.
Qed.

(* ---- parse_pasv_response: "text (h1,h2,h3,h4,p1,p2) text" ---- *)
Definition digits_ok (d : text) : Prop :=
  d <> [] /\ forallb is_ascii_digit d = true /\ Z.of_nat (length d) <= int_max_str_digits.

Lemma map_int_digits l :
  Forall digits_ok l -> map_int l = Ok (map int_of_ascii_digits l).
Proof.
  induction 1 as [|d l [H1 [H2 H3]] _ IH]; [reflexivity|].
  cbn [map_int map]. rewrite py_int_ascii_digits by assumption. cbn [of_opt bind]. rewrite IH. reflexivity.
Qed.

Definition pasv_text (pre : text) (nums : list text) (post : text) : text :=
  pre ++ 40 :: join [44] nums ++ 41 :: post.

Theorem pasv_exact pre d1 d2 d3 d4 d5 d6 post :
  no 40 pre -> Forall digits_ok [d1; d2; d3; d4; d5; d6] ->
  parse_pasv_response (pasv_text pre [d1; d2; d3; d4; d5; d6] post)
  = Ok (join [DOT] (map (fun d => str_of_Z (int_of_ascii_digits d)) [d1; d2; d3; d4]),
        Z.lor (Z.shiftl (int_of_ascii_digits d5) 8) (int_of_ascii_digits d6)).
Proof.
  intros Hpre Hd. unfold parse_pasv_response, pasv_text, pasv_sub.
  rewrite index_of_app by exact Hpre.
  change (S (length pre)) with (length pre + 1)%nat || idtac.
  replace (skipn (S (length pre)) (pre ++ 40 :: join [44] [d1; d2; d3; d4; d5; d6] ++ 41 :: post))
    with (join [44] [d1; d2; d3; d4; d5; d6] ++ 41 :: post).
  2:{ replace (pre ++ 40 :: join [44] [d1; d2; d3; d4; d5; d6] ++ 41 :: post)
        with ((pre ++ [40]) ++ join [44] [d1; d2; d3; d4; d5; d6] ++ 41 :: post)
        by (rewrite <- app_assoc; reflexivity).
      replace (S (length pre)) with (length (pre ++ [40])) by (rewrite app_length; cbn; lia).
      rewrite skipn_len_app. reflexivity. }
  assert (Hno : forall c, (c < 48 \/ 57 < c) -> Forall (no c) [d1; d2; d3; d4; d5; d6]).
  { intros c Hc. eapply Forall_impl; [|exact Hd]. intros d [_ [H _]]. apply digits_no; assumption. }
  rewrite partition_app by (apply no_join; [congruence|apply Hno; lia]).
  cbn [fst of_opt bind]. rewrite split_on_join by (apply Hno; lia).
  rewrite map_int_digits by exact Hd. reflexivity.
Qed.

(* ---- parse_list_line_unix on a well-formed `ls -l` line (not a symlink) ---- *)
Definition headns (s : text) : Prop := match s with c :: _ => is_space c = false | [] => False end.
Definition ty_of (t : Z) : text :=
  if t =? 45 then t_file else if t =? 100 then t_dir else if t =? 108 then t_link else t_unknown.

Lemma lstrip_headns s : headns s -> lstrip s = s.
Proof. destruct s as [|c r]; [contradiction|]. cbn. intros ->. reflexivity. Qed.

Lemma field_tok tok rest :
  no SP tok -> headns rest -> field (tok ++ SP :: rest) = Ok (tok, rest).
Proof.
  intros Ht Hr. unfold field. rewrite index_of_app by exact Ht. cbn [of_opt bind].
  rewrite firstn_len_app, skipn_len_app. cbn [lstrip]. change (is_space SP) with (is_space 32); rewrite is_space_SP, lstrip_headns by exact Hr.
  reflexivity.
Qed.

Lemma digits_headns d : d <> [] -> forallb is_ascii_digit d = true -> headns d.
Proof.
  destruct d as [|c r]; [contradiction|]. cbn. intros _ H. apply andb_true_iff in H as [H _].
  apply ascii_digit_not_space. exact H.
Qed.

Lemma headns_app a b : headns a -> headns (a ++ b).
Proof. destruct a; [contradiction|]. cbn. tauto. Qed.

Definition unix_line (t : Z) (m links owner group size date name : text) : text :=
  t :: m ++ SP :: links ++ SP :: owner ++ SP :: group ++ SP :: size ++ SP :: date ++ SP :: name.

Section UnixExact.
  Variable dec : list Z -> option text.
  Variable ls_date : text -> result text.
  Variables (t : Z) (m links owner group size date name eol : text) (mode : Z) (b : list Z).
  Hypothesis Hdec : dec b = Some (unix_line t m links owner group size date name ++ eol).
  Hypothesis Heol : forallb is_space eol = true.
  Hypothesis Hm : length m = 9%nat.
  Hypothesis Hmode : parse_unix_mode m = Ok mode.
  Hypothesis Hlinks : links <> [] /\ forallb is_ascii_digit links = true.
  Hypothesis Hsize : size <> [] /\ forallb is_ascii_digit size = true.
  Hypothesis Howner : headns owner /\ no SP owner.
  Hypothesis Hgroup : headns group /\ no SP group.
  Hypothesis Hdate : length date = 12%nat /\ headns date.
  Hypothesis Hname : name <> [] /\ headns name /\ rstrip name = name.

  Lemma unix_line_rstrip :
    rstrip (unix_line t m links owner group size date name ++ eol)
    = unix_line t m links owner group size date name.
  Proof.
    rewrite rstrip_app_spaces by exact Heol. unfold unix_line.
    replace (t :: m ++ SP :: links ++ SP :: owner ++ SP :: group ++ SP :: size ++ SP :: date ++ SP :: name)
      with ((t :: m ++ SP :: links ++ SP :: owner ++ SP :: group ++ SP :: size ++ SP :: date ++ [SP]) ++ name).
    2:{ cbn [app]. f_equal. repeat (rewrite <- app_assoc; cbn [app]). reflexivity. }
    apply rstrip_app_nonempty; tauto.
  Qed.

  Lemma unix_prefix_exact :
    unix_prefix dec b = Ok (ty_of t, mode, (links, owner, group, size), date ++ SP :: name).
  Proof.
    unfold unix_prefix. rewrite Hdec. cbn [of_opt bind]. rewrite unix_line_rstrip.
    unfold unix_line. cbn [char_at nth_error of_opt bind].
    assert (E1 : slice 1 10 (t :: m ++ SP :: links ++ SP :: owner ++ SP :: group ++ SP :: size ++ SP :: date ++ SP :: name) = m).
    { unfold slice. cbn [Nat.sub skipn]. rewrite <- Hm. apply firstn_len_app. }
    rewrite E1, Hmode. cbn [bind].
    assert (E2 : skipn 10 (t :: m ++ SP :: links ++ SP :: owner ++ SP :: group ++ SP :: size ++ SP :: date ++ SP :: name)
                 = SP :: links ++ SP :: owner ++ SP :: group ++ SP :: size ++ SP :: date ++ SP :: name).
    { change (skipn 10 (t :: ?x)) with (skipn 9 x). rewrite <- Hm. apply skipn_len_app. }
    rewrite E2. cbn [lstrip]. change (is_space SP) with (is_space 32); rewrite is_space_SP.
    destruct Hlinks as [Hl1 Hl2]. destruct Hsize as [Hs1 Hs2].
    destruct Howner as [Ho1 Ho2]. destruct Hgroup as [Hg1 Hg2]. destruct Hdate as [Hd1 Hd2].
    rewrite (lstrip_headns (links ++ _)) by (apply headns_app, digits_headns; assumption).
    rewrite field_tok; [|apply digits_no; [assumption|unfold SP; lia]|apply headns_app; assumption].
    cbn [bind]. rewrite all_ascii_digit_isdigit by assumption. cbn [guard bind].
    rewrite field_tok; [|assumption|apply headns_app; assumption]. cbn [bind].
    rewrite field_tok; [|assumption|apply headns_app, digits_headns; assumption]. cbn [bind].
    rewrite field_tok; [|apply digits_no; [assumption|unfold SP; lia]|apply headns_app; assumption].
    cbn [bind]. rewrite all_ascii_digit_isdigit by assumption. cbn [guard bind].
    reflexivity.
  Qed.

  Hypothesis Hnotlink : t <> 108.

  Theorem unix_line_exact :
    parse_list_line_unix dec ls_date b
    = bind (ls_date (strip date))
           (fun modify => Ok (posix_norm name,
              [(k_type, ty_of t); (k_mode, str_of_Z mode); (k_links, links); (k_owner, owner);
               (k_group, group); (k_size, size); (k_modify, modify)])).
  Proof.
    unfold parse_list_line_unix. rewrite unix_prefix_exact. cbn [bind].
    destruct Hdate as [Hd1 Hd2]. destruct Hname as [Hn1 [Hn2 Hn3]].
    replace (firstn 12 (date ++ SP :: name)) with date by (rewrite <- Hd1; symmetry; apply firstn_len_app).
    replace (skipn 12 (date ++ SP :: name)) with (SP :: name) by (rewrite <- Hd1; symmetry; apply skipn_len_app).
    assert (E : strip (SP :: name) = name).
    { unfold strip. change (SP :: name) with ([SP] ++ name). rewrite rstrip_app_nonempty by assumption.
      cbn [app lstrip]. change (is_space SP) with (is_space 32); rewrite is_space_SP. apply lstrip_headns. exact Hn2. }
    rewrite E.
    destruct name as [|n0 name']; [contradiction|]. cbn [is_nil negb guard bind].
    assert (T : text_eqb (ty_of t) t_link = false).
    { unfold ty_of. destruct (t =? 45); [reflexivity|]. destruct (t =? 100); [reflexivity|].
      apply Z.eqb_neq in Hnotlink. rewrite Hnotlink. reflexivity. }
    rewrite T. reflexivity.
  Qed.
End UnixExact.

(* ---- parse_list_line_windows on a well-formed `dir` line ---- *)
Definition in_set (cs : list Z) (c : Z) : bool := existsb (Z.eqb c) cs.

Lemma rstrip_chars_all cs s : forallb (in_set cs) s = true -> rstrip_chars cs s = [].
Proof.
  induction s as [|c s IH]; cbn; [reflexivity|]. intro H.
  apply andb_true_iff in H as [Hc Hs]. rewrite (IH Hs). unfold in_set in Hc. rewrite Hc. reflexivity.
Qed.

Lemma rstrip_chars_app_in cs s t : forallb (in_set cs) t = true -> rstrip_chars cs (s ++ t) = rstrip_chars cs s.
Proof.
  intro Ht. induction s as [|c s IH]; cbn.
  - apply rstrip_chars_all; exact Ht.
  - rewrite IH. reflexivity.
Qed.

Lemma rstrip_chars_app_nonempty cs a b : rstrip_chars cs b = b -> b <> [] -> rstrip_chars cs (a ++ b) = a ++ b.
Proof.
  intros Hb Hn. induction a as [|c a IH]; [exact Hb|].
  cbn [app rstrip_chars]. rewrite IH. destruct (a ++ b) eqn:E; [|reflexivity].
  apply app_eq_nil in E as [_ E]. contradiction.
Qed.

Definition win_line (d tm : text) (ap : Z) (gap : nat) (col : text) (gap2 : nat) (name : text) : text :=
  d ++ SP :: tm ++ SP :: [ap; 77] ++ repeat SP (S gap) ++ col ++ repeat SP (S gap2) ++ name.

Lemma lstrip_spaces n s : headns s -> lstrip (repeat SP n ++ s) = s.
Proof.
  intro H. induction n as [|n IH]; cbn [repeat app]; [apply lstrip_headns; exact H|].
  cbn [lstrip]. change (is_space SP) with (is_space 32); rewrite is_space_SP. exact IH.
Qed.

Lemma starts_with_app_false p : forall a x r,
  starts_with p a = false -> no x p -> starts_with p (a ++ x :: r) = false.
Proof.
  induction p as [|y p IH]; intros a x r H Hx; [discriminate|].
  apply no_cons in Hx as [Hy Hp].
  destruct a as [|z a]; cbn [app starts_with] in *.
  - apply Z.eqb_neq in Hy. rewrite Hy. reflexivity.
  - destruct (y =? z); [|reflexivity]. cbn [andb] in *. apply IH; assumption.
Qed.

Section WindowsExact.
  Variable dec : list Z -> option text.
  Variable win_date : text -> result text.
  Variables (d tm : text) (ap : Z) (gap gap2 : nat) (col name eol : text) (b : list Z).
  Hypothesis Hdec : dec b = Some (win_line d tm ap gap col gap2 name ++ eol).
  Hypothesis Heol : forallb (in_set [13; 10]) eol = true.
  Hypothesis Hd : headns d /\ no SP d /\ no 77 d.
  Hypothesis Htm : tm <> [] /\ no SP tm /\ no 77 tm.
  Hypothesis Hap : ap <> 77 /\ ap <> SP.
  Hypothesis Hcol : headns col /\ no SP col.
  Hypothesis Hname : name <> [] /\ headns name /\ rstrip_chars [13; 10] name = name.

  Lemma win_line_rstrip :
    rstrip_chars [13; 10] (win_line d tm ap gap col gap2 name ++ eol) = win_line d tm ap gap col gap2 name.
  Proof.
    rewrite rstrip_chars_app_in by exact Heol. unfold win_line.
    replace (d ++ SP :: tm ++ SP :: [ap; 77] ++ repeat SP (S gap) ++ col ++ repeat SP (S gap2) ++ name)
      with ((d ++ SP :: tm ++ SP :: [ap; 77] ++ repeat SP (S gap) ++ col ++ repeat SP (S gap2)) ++ name).
    2:{ repeat (rewrite <- app_assoc; cbn [app]). reflexivity. }
    apply rstrip_chars_app_nonempty; tauto.
  Qed.

  Lemma win_prefix_exact :
    win_prefix dec b = Ok (d ++ SP :: tm ++ SP :: [ap; 77], col ++ repeat SP (S gap2) ++ name).
  Proof.
    destruct Hd as [Hd1 [Hd2 Hd3]]. destruct Htm as [Ht1 [Ht2 Ht3]]. destruct Hap as [Ha1 Ha2].
    destruct Hcol as [Hc1 Hc2].
    unfold win_prefix. rewrite Hdec. cbn [of_opt bind]. rewrite win_line_rstrip. unfold win_line.
    set (tail := repeat SP (S gap) ++ col ++ repeat SP (S gap2) ++ name).
    assert (Hpre : no 77 (d ++ SP :: tm ++ SP :: [ap])).
    { apply no_app. split; [exact Hd3|]. apply no_cons. split; [unfold SP; congruence|].
      apply no_app. split; [exact Ht3|]. apply no_cons. split; [unfold SP; congruence|].
      apply no_cons. split; [exact Ha1|apply no_nil]. }
    replace (d ++ SP :: tm ++ SP :: [ap; 77] ++ tail) with ((d ++ SP :: tm ++ SP :: [ap]) ++ 77 :: tail)
      by (repeat (rewrite <- app_assoc; cbn [app]); reflexivity).
    rewrite index_of_app by exact Hpre. cbn [of_opt bind].
    replace (S (length (d ++ SP :: tm ++ SP :: [ap]))) with (length ((d ++ SP :: tm ++ SP :: [ap]) ++ [77]))
      by (rewrite app_length; cbn [length]; lia).
    replace ((d ++ SP :: tm ++ SP :: [ap]) ++ 77 :: tail) with (((d ++ SP :: tm ++ SP :: [ap]) ++ [77]) ++ tail)
      by (rewrite <- app_assoc; reflexivity).
    rewrite firstn_len_app, skipn_len_app.
    replace ((d ++ SP :: tm ++ SP :: [ap]) ++ [77]) with (d ++ SP :: tm ++ SP :: [ap; 77])
      by (repeat (rewrite <- app_assoc; cbn [app]); reflexivity).
    unfold tail. rewrite lstrip_spaces by (apply headns_app; exact Hc1).
    (* strip: the last character is M, the first is the head of d *)
    assert (Hs : strip (d ++ SP :: tm ++ SP :: [ap; 77]) = d ++ SP :: tm ++ SP :: [ap; 77]).
    { unfold strip.
      replace (d ++ SP :: tm ++ SP :: [ap; 77]) with ((d ++ SP :: tm ++ SP :: [ap]) ++ [77])
        by (repeat (rewrite <- app_assoc; cbn [app]); reflexivity).
      rewrite rstrip_app_nonempty by (try discriminate; vm_compute; reflexivity).
      apply lstrip_headns. rewrite <- app_assoc. apply headns_app. exact Hd1. }
    rewrite Hs.
    (* split on SP: exactly the three tokens *)
    rewrite split_on_app by exact Hd2. rewrite split_on_app by exact Ht2.
    rewrite split_on_plain by (apply no_cons; split; [exact Ha2|apply no_cons; split; [unfold SP; congruence|apply no_nil]]).
    destruct d as [|d0 d']; [contradiction|]. destruct tm as [|t0 t']; [contradiction|].
    cbn [filter is_nil negb join flat_map app].
    reflexivity.
  Qed.

  Hypothesis Hnodot : is_dot_name name = false.

  (* <DIR> entries *)
  Theorem windows_dir_exact :
    col = DIRTAG ->
    parse_list_line_windows dec win_date b
    = bind (win_date (d ++ SP :: tm ++ SP :: [ap; 77]))
           (fun modify => Ok (posix_norm name, [(k_modify, modify); (k_type, t_dir)])).
  Proof.
    intro Hc. destruct Hname as [Hn1 [Hn2 Hn3]].
    unfold parse_list_line_windows. rewrite win_prefix_exact. cbn [bind].
    destruct (win_date (d ++ SP :: tm ++ SP :: [ap; 77])) as [modify|e]; [|reflexivity]. cbn [bind].
    subst col. cbn [repeat app].
    replace (index_of SP (DIRTAG ++ SP :: repeat SP gap2 ++ name)) with (Some (length DIRTAG))
      by (symmetry; apply index_of_app; vm_compute; reflexivity).
    cbn [of_opt bind].
    replace (starts_with DIRTAG (DIRTAG ++ SP :: repeat SP gap2 ++ name)) with true by reflexivity.
    cbn [bind]. rewrite skipn_len_app.
    change (SP :: repeat SP gap2 ++ name) with (repeat SP (S gap2) ++ name).
    rewrite lstrip_spaces by exact Hn2. rewrite Hnodot.
    destruct name as [|n0 name']; [contradiction|]. reflexivity.
  Qed.

  (* files: the size column is ASCII digits with optional thousands separators *)
  Theorem windows_file_exact :
    starts_with DIRTAG col = false -> remove_char 44 col <> [] ->
    forallb is_ascii_digit (remove_char 44 col) = true ->
    parse_list_line_windows dec win_date b
    = bind (win_date (d ++ SP :: tm ++ SP :: [ap; 77]))
           (fun modify => Ok (posix_norm name, [(k_modify, modify); (k_type, t_file); (k_size, remove_char 44 col)])).
  Proof.
    intros Hnd Hs1 Hs2. destruct Hname as [Hn1 [Hn2 Hn3]]. destruct Hcol as [Hc1 Hc2].
    unfold parse_list_line_windows. rewrite win_prefix_exact. cbn [bind].
    destruct (win_date (d ++ SP :: tm ++ SP :: [ap; 77])) as [modify|e]; [|reflexivity]. cbn [bind].
    cbn [repeat app]. rewrite index_of_app by exact Hc2. cbn [of_opt bind].
    assert (Hsw : starts_with DIRTAG (col ++ SP :: repeat SP gap2 ++ name) = false).
    { apply starts_with_app_false; [exact Hnd|vm_compute; reflexivity]. }
    rewrite Hsw. rewrite firstn_len_app. rewrite all_ascii_digit_isdigit by assumption.
    cbn [guard bind]. rewrite skipn_len_app.
    change (SP :: repeat SP gap2 ++ name) with (repeat SP (S gap2) ++ name).
    rewrite lstrip_spaces by exact Hn2. rewrite Hnodot.
    destruct name as [|n0 name']; [contradiction|]. reflexivity.
  Qed.
End WindowsExact.

(* ================= non-vacuity: every set of hypotheses above is satisfiable ================= *)
(* type=file;Size=12; a.txt CRLF   -> a.txt {type: file, size: 12} *)
Example mlsx_exact_example :
  parse_mlsx_line utf8
    [116; 121; 112; 101; 61; 102; 105; 108; 101; 59; 83; 105; 122; 101; 61; 49; 50; 59; 32;
     97; 46; 116; 120; 116; 13; 10]
  = Ok ([97; 46; 116; 120; 116], [(k_type, t_file); (k_size, [49; 50])]).
Proof.
  rewrite (mlsx_line_exact utf8 _ [(k_type, t_file); ([83; 105; 122; 101], [49; 50])]
                           [97; 46; 116; 120; 116] [13; 10]).
  - reflexivity.
  - reflexivity.
  - discriminate.
  - repeat constructor.
  - discriminate.
  - vm_compute. reflexivity.
  - vm_compute. reflexivity.
Qed.

(* 229 ok (|||2121|) *)
Example epsv_exact_example :
  parse_epsv_response (epsv_text [50; 50; 57; 32; 111; 107; 32] [50; 49; 50; 49] []) = Ok 2121.
Proof.
  rewrite epsv_exact; [reflexivity|reflexivity|reflexivity|discriminate|reflexivity|].
  vm_compute. discriminate.
Qed.

(* 227 ok (127,0,0,1,8,73) *)
Example pasv_exact_example :
  parse_pasv_response (pasv_text [50; 50; 55; 32] [[49; 50; 55]; [48]; [48]; [49]; [56]; [55; 51]] [46])
  = Ok ([49; 50; 55; 46; 48; 46; 48; 46; 49], 2121).
Proof.
  rewrite pasv_exact; [reflexivity|reflexivity|].
  repeat constructor; try discriminate; vm_compute; discriminate.
Qed.

(* 257 <dq>/a<dq><dq><dq><dq>b<dq><dq><dq> c  ->  /a<dq><dq>b<dq>   (dq = the double quote character) *)
Example directory_exact_example :
  parse_directory_response ([50; 53; 55; 32] ++ 34 :: dq_escape [47; 97; 34; 34; 98; 34] ++ 34 :: [32; 99])
  = [47; 97; 34; 34; 98; 34].
Proof. rewrite directory_exact; [reflexivity|reflexivity|intros r; discriminate]. Qed.

(* drwxr-xr-x 2 o g 4096 Nov 18 12:29 sub CRLF *)
Example unix_line_exact_example :
  parse_list_line_unix utf8 (fun _ => Ok [50; 48])
    (unix_line 100 [114; 119; 120; 114; 45; 120; 114; 45; 120] [50] [111] [103] [52; 48; 57; 54]
               [78; 111; 118; 32; 49; 56; 32; 49; 50; 58; 50; 57] [115; 117; 98] ++ [13; 10])
  = Ok ([115; 117; 98],
        [(k_type, t_dir); (k_mode, [52; 57; 51]); (k_links, [50]); (k_owner, [111]); (k_group, [103]);
         (k_size, [52; 48; 57; 54]); (k_modify, [50; 48])]).
Proof.
  rewrite (unix_line_exact utf8 (fun _ => Ok [50; 48]) 100 [114; 119; 120; 114; 45; 120; 114; 45; 120]
             [50] [111] [103] [52; 48; 57; 54] [78; 111; 118; 32; 49; 56; 32; 49; 50; 58; 50; 57]
             [115; 117; 98] [13; 10] 493).
  - reflexivity.
  - reflexivity.
  - reflexivity.
  - reflexivity.
  - reflexivity.
  - split; [discriminate|reflexivity].
  - split; [discriminate|reflexivity].
  - split; [vm_compute; reflexivity|reflexivity].
  - split; [vm_compute; reflexivity|reflexivity].
  - split; [reflexivity|vm_compute; reflexivity].
  - split; [discriminate|split; vm_compute; reflexivity].
  - discriminate.
Qed.

(* a server that never refuses and always answers one sub-directory: the client keeps asking *)
Example endless_server_example :
  forall n, (n <= 3)%nat ->
  length (requests (run_lister oline (parse_oline utf8 65536) true root_path
            (server_prefix oline
               (fun _ => (false, [mlsd_line [116; 121; 112; 101; 61; 100; 105; 114; 59; 32; 100; 13; 10]])) n)))
  = S n.
Proof. intros n H. do 4 (destruct n as [|n]; [vm_compute; reflexivity|]). lia. Qed.

(* 10/27/2016 06:02 PM    <DIR>          sub dir CRLF *)
Example windows_dir_exact_example :
  parse_list_line_windows utf8 (fun _ => Ok [50; 48])
    (win_line [49; 48; 47; 50; 55; 47; 50; 48; 49; 54] [48; 54; 58; 48; 50] 80 3 DIRTAG 9
              [115; 117; 98; 32; 100; 105; 114] ++ [13; 10])
  = Ok ([115; 117; 98; 32; 100; 105; 114], [(k_modify, [50; 48]); (k_type, t_dir)]).
Proof.
  rewrite (windows_dir_exact utf8 (fun _ => Ok [50; 48]) [49; 48; 47; 50; 55; 47; 50; 48; 49; 54]
             [48; 54; 58; 48; 50] 80 3 9 DIRTAG [115; 117; 98; 32; 100; 105; 114] [13; 10]).
  - reflexivity.
  - reflexivity.
  - reflexivity.
  - split; [vm_compute; reflexivity|split; reflexivity].
  - split; [discriminate|split; reflexivity].
  - split; discriminate.
  - split; [vm_compute; reflexivity|reflexivity].
  - split; [discriminate|split; vm_compute; reflexivity].
  - reflexivity.
  - reflexivity.
Qed.
