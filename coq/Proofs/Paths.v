(* Proofs about Model/Paths.v (C02, POSIX flavour of the real side) *)
From Coq Require Import ZArith List Bool Lia.
From Verif Require Import Lib.Sx Lib.PyStr Lib.PosixPath Model.Paths Proofs.PyStrFacts Proofs.PosixPathFacts.
Import ListNotations.
Open Scope Z_scope.

(* what a working directory is: absolute, parsed (it may still contain '..': a configured
   home_path is only required to be absolute) *)
Definition abs_wf (p : ppath) : Prop := anchor p <> 0 /\ Forall seg_ok (parts p).

(* normalised absolute path: '/'-anchored, proper components, no '..' *)
Definition normal (p : ppath) : Prop :=
  anchor p = 1 /\ Forall seg_ok (parts p) /\ no_dotdot (parts p) = true.

Lemma normal_abs_wf p : normal p -> abs_wf p.
Proof. intros [Ha [Hp _]]. split; [rewrite Ha; discriminate|exact Hp]. Qed.

(* ---- the loop of get_paths on parsed components ---- *)
Definition fstep (st : list text) (part : text) : list text :=
  if text_eqb part dotdot then removelast st else st ++ [part].

Lemma fold_step_fstep r part :
  seg_ok part -> fold_step r part = mkp (anchor r) (fstep (parts r) part).
Proof.
  intro H. unfold fold_step, fstep. destruct (text_eqb part dotdot).
  - unfold parent. destruct r as [a ps]. cbn [parts anchor]. destruct ps; reflexivity.
  - rewrite (parse_seg part H). reflexivity.
Qed.

Lemma fold_steps l : Forall seg_ok l ->
  forall r, fold_left fold_step l r = mkp (anchor r) (fold_left fstep l (parts r)).
Proof.
  induction 1 as [|x l Hx Hl IH]; intro r; cbn [fold_left].
  - destruct r; reflexivity.
  - rewrite (fold_step_fstep r x Hx), IH. reflexivity.
Qed.

Lemma rev_removelast {A} (l : list A) : rev (removelast l) = tl (rev l).
Proof.
  induction l as [|x l IH] using rev_ind; [reflexivity|].
  rewrite removelast_last, rev_unit. reflexivity.
Qed.

Lemma fstep_spec st part : seg_ok part -> rev (fstep st part) = spec_step (rev st) part.
Proof.
  intros [H1 [H2 _]]. unfold fstep, spec_step. destruct (text_eqb part dotdot).
  - apply rev_removelast.
  - assert (E1 : text_eqb part [] = false).
    { destruct (text_eqb part []) eqn:E; [apply text_eqb_eq in E; contradiction|reflexivity]. }
    assert (E2 : text_eqb part dot = false).
    { destruct (text_eqb part dot) eqn:E; [apply text_eqb_eq in E; contradiction|reflexivity]. }
    rewrite E1, E2. cbn [orb]. apply rev_unit.
Qed.

Lemma fsteps_spec l : Forall seg_ok l ->
  forall st, rev (fold_left fstep l st) = fold_left spec_step l (rev st).
Proof.
  induction 1 as [|x l Hx Hl IH]; intro st; cbn [fold_left]; [reflexivity|].
  rewrite IH, (fstep_spec st x Hx). reflexivity.
Qed.

(* ---- the specification skips what the parser drops ---- *)
Lemma spec_skip st x : keep_seg x = false -> spec_step st x = st.
Proof. intro H. destruct (keep_seg_false x H) as [->| ->]; reflexivity. Qed.

Lemma spec_filter l : forall st,
  fold_left spec_step (filter keep_seg l) st = fold_left spec_step l st.
Proof.
  induction l as [|a l IH]; intro st; cbn [filter fold_left]; [reflexivity|].
  destruct (keep_seg a) eqn:E; cbn [fold_left].
  - apply IH.
  - rewrite (spec_skip st a E). apply IH.
Qed.

Lemma parse_segments s st :
  fold_left spec_step (parts (parse s)) st = fold_left spec_step (split_on SLASH s) st.
Proof.
  destruct s as [|c s']; [reflexivity|].
  unfold parse. destruct (splitroot_cases (c :: s')) as [[E _]|[[r [Hs E]]|[r [Hs E]]]]; rewrite E; cbn [parts].
  - apply spec_filter.
  - rewrite spec_filter, Hs.
    change (split_on SLASH (SLASH :: r)) with ([] :: split_on SLASH r). reflexivity.
  - rewrite spec_filter, Hs.
    change (split_on SLASH (SLASH :: SLASH :: r)) with ([] :: [] :: split_on SLASH r). reflexivity.
Qed.

Lemma parse_abs s : is_absolute (parse s) = starts_slash s.
Proof.
  destruct s as [|c s']; [reflexivity|].
  unfold parse, is_absolute.
  destruct (splitroot_cases (c :: s')) as [[E H]|[[r [Hs E]]|[r [Hs E]]]]; rewrite E; cbn [anchor].
  - cbn. rewrite H. reflexivity.
  - rewrite Hs. reflexivity.
  - rewrite Hs. reflexivity.
Qed.

(* ---- invariants of the specification stack ---- *)
Definition stack_ok (st : list text) : Prop := Forall (fun x => seg_ok x /\ x <> dotdot) st.

Lemma spec_step_ok st seg : stack_ok st -> nosep SLASH seg -> stack_ok (spec_step st seg).
Proof.
  intros Hst Hseg. unfold spec_step. destruct (text_eqb seg dotdot) eqn:E1.
  - destruct st; [constructor|inversion Hst; assumption].
  - destruct (text_eqb seg []) eqn:E2; cbn [orb]; [exact Hst|].
    destruct (text_eqb seg dot) eqn:E3; [exact Hst|].
    constructor; [|exact Hst]. repeat split.
    + intro H. rewrite H, text_eqb_refl in E2. discriminate.
    + intro H. rewrite H, text_eqb_refl in E3. discriminate.
    + exact Hseg.
    + intro H. rewrite H, text_eqb_refl in E1. discriminate.
Qed.

Lemma spec_fold_ok l : Forall (nosep SLASH) l ->
  forall st, stack_ok st -> stack_ok (fold_left spec_step l st).
Proof.
  induction 1 as [|x l Hx Hl IH]; intros st Hst; cbn [fold_left]; [exact Hst|].
  apply IH. apply spec_step_ok; assumption.
Qed.

Lemma stack_ok_rev st : stack_ok st -> Forall seg_ok (rev st) /\ no_dotdot (rev st) = true.
Proof.
  intro H. split.
  - apply Forall_rev. eapply Forall_impl; [|exact H]. intros x [Hx _]. exact Hx.
  - unfold no_dotdot. apply forallb_forall. intros x Hx. apply in_rev in Hx.
    unfold stack_ok in H. rewrite Forall_forall in H. destruct (H x Hx) as [_ Hd].
    apply negb_true_iff. destruct (text_eqb x dotdot) eqn:E; [apply text_eqb_eq in E; contradiction|reflexivity].
Qed.

Lemma normalize_stack cwdp s : Forall seg_ok cwdp ->
  exists st, stack_ok st /\ normalize cwdp s = rev st.
Proof.
  intro H. unfold normalize. eexists. split; [|reflexivity].
  apply spec_fold_ok; [apply split_on_nosep_all|].
  destruct (starts_slash s); [constructor|].
  apply spec_fold_ok; [apply segs_nosep; exact H|constructor].
Qed.

Lemma normalize_ok cwdp s : Forall seg_ok cwdp ->
  Forall seg_ok (normalize cwdp s) /\ no_dotdot (normalize cwdp s) = true.
Proof. intro H. destruct (normalize_stack cwdp s H) as [st [Hst ->]]. apply stack_ok_rev; exact Hst. Qed.

(* ---- get_paths ---- *)
Lemma tl_pparts p : anchor p <> 0 -> tl (pparts p) = parts p.
Proof.
  unfold pparts. intro H. destruct (anchor p =? 0) eqn:E; [apply Z.eqb_eq in E; contradiction|reflexivity].
Qed.

Definition spec_parts (cwdp : list text) (v0 : ppath) : list text :=
  if is_absolute v0 then parts v0 else cwdp ++ parts v0.

Lemma fold_fstep_spec l : Forall seg_ok l -> fold_left fstep l [] = rev (fold_left spec_step l []).
Proof.
  intro H. pose proof (fsteps_spec l H []) as E. cbn [rev] in E. rewrite <- E. symmetry. apply rev_involutive.
Qed.

Lemma virtual_of_spec cwd v0 : abs_wf cwd -> Forall seg_ok (parts v0) ->
  virtual_of cwd v0 = mkp 1 (rev (fold_left spec_step (spec_parts (parts cwd) v0) [])).
Proof.
  intros [Hca Hcp] Hvp. unfold virtual_of, resolve, spec_parts. change root with (mkp 1 []).
  destruct (is_absolute v0) eqn:Ea.
  - assert (Hva : anchor v0 <> 0).
    { unfold is_absolute in Ea. intro H. rewrite H in Ea. discriminate. }
    rewrite (tl_pparts v0 Hva), (fold_steps _ Hvp). cbn [anchor parts].
    rewrite (fold_fstep_spec _ Hvp). reflexivity.
  - assert (Hva : anchor v0 = 0).
    { unfold is_absolute in Ea. apply negb_false_iff, Z.eqb_eq in Ea. exact Ea. }
    unfold joinp. rewrite Hva. cbn [Z.eqb].
    assert (Hall : Forall seg_ok (parts cwd ++ parts v0)) by (apply Forall_app; split; assumption).
    rewrite tl_pparts by exact Hca. cbn [parts].
    rewrite (fold_steps _ Hall). cbn [anchor parts].
    rewrite (fold_fstep_spec _ Hall). reflexivity.
Qed.

Lemma spec_parts_ok cwd v0 : abs_wf cwd -> Forall seg_ok (parts v0) ->
  exists st, stack_ok st /\ fold_left spec_step (spec_parts (parts cwd) v0) [] = st.
Proof.
  intros [_ Hcp] Hvp. eexists. split; [|reflexivity]. apply spec_fold_ok; [|constructor].
  apply segs_nosep. unfold spec_parts. destruct (is_absolute v0); [exact Hvp|].
  apply Forall_app. split; assumption.
Qed.

Lemma get_paths_p_spec base cwd v0 : abs_wf cwd -> Forall seg_ok (parts v0) ->
  let v := rev (fold_left spec_step (spec_parts (parts cwd) v0) []) in
  get_paths_p base cwd v0 = Some (mkp (anchor base) (parts base ++ v), mkp 1 v).
Proof.
  intros Hc Hv0 v. unfold get_paths_p. rewrite (virtual_of_spec cwd v0 Hc Hv0). fold v.
  destruct (spec_parts_ok cwd v0 Hc Hv0) as [st [Hst Est]].
  assert (Hv : Forall seg_ok v) by (unfold v; rewrite Est; apply stack_ok_rev; exact Hst).
  rewrite (relative_to_some (mkp 1 v) (parse [SLASH]) v eq_refl eq_refl).
  rewrite (parse_to_str (mkp 0 v)) by (split; [left; reflexivity|exact Hv]).
  change (joinp base (mkp 0 v)) with (mkp (anchor base) (parts base ++ v)).
  unfold is_relative_to. cbn [anchor parts]. rewrite Z.eqb_refl, is_prefix_app. reflexivity.
Qed.

Lemma spec_parts_normalize cwdp s :
  rev (fold_left spec_step (spec_parts cwdp (parse s)) []) = normalize cwdp s.
Proof.
  unfold spec_parts, normalize. rewrite parse_abs. destruct (starts_slash s).
  - rewrite parse_segments. reflexivity.
  - rewrite fold_left_app, parse_segments. reflexivity.
Qed.

(* the whole of get_paths in one equation: for every base, every absolute parsed cwd,
   every string *)
Theorem get_paths_spec base cwd s : abs_wf cwd ->
  get_paths base cwd s
  = Some (mkp (anchor base) (parts base ++ normalize (parts cwd) s), mkp 1 (normalize (parts cwd) s)).
Proof.
  intro Hc. unfold get_paths.
  pose proof (get_paths_p_spec base cwd (parse s) Hc (proj2 (parse_wf s))) as H. cbv zeta in H.
  rewrite spec_parts_normalize in H. exact H.
Qed.

Theorem virt_normal base cwd s real virt : abs_wf cwd ->
  get_paths base cwd s = Some (real, virt) -> normal virt.
Proof.
  intros Hc H. rewrite (get_paths_spec base cwd s Hc) in H. inversion H; subst.
  destruct (normalize_ok (parts cwd) s (proj2 Hc)) as [H1 H2]. split; [reflexivity|split; assumption].
Qed.

Theorem virt_spec base cwd s real virt : abs_wf cwd ->
  get_paths base cwd s = Some (real, virt) ->
  anchor virt = 1 /\ parts virt = normalize (parts cwd) s.
Proof.
  intros Hc H. rewrite (get_paths_spec base cwd s Hc) in H. inversion H; subst. split; reflexivity.
Qed.

Theorem get_paths_total base cwd s : abs_wf cwd -> exists real virt, get_paths base cwd s = Some (real, virt).
Proof. intro Hc. rewrite (get_paths_spec base cwd s Hc). eexists. eexists. reflexivity. Qed.

Theorem alias_same base cwd1 s1 cwd2 s2 : abs_wf cwd1 -> abs_wf cwd2 ->
  normalize (parts cwd1) s1 = normalize (parts cwd2) s2 ->
  get_paths base cwd1 s1 = get_paths base cwd2 s2.
Proof.
  intros H1 H2 E. rewrite (get_paths_spec base cwd1 s1 H1), (get_paths_spec base cwd2 s2 H2), E. reflexivity.
Qed.

Theorem real_is_base_plus_virt base cwd s real virt : abs_wf cwd ->
  get_paths base cwd s = Some (real, virt) ->
  anchor real = anchor base /\ parts real = parts base ++ parts virt.
Proof.
  intros Hc H. rewrite (get_paths_spec base cwd s Hc) in H. inversion H; subst. split; reflexivity.
Qed.

Theorem confined_thm base cwd s real virt : abs_wf cwd ->
  get_paths base cwd s = Some (real, virt) -> confined base real = true.
Proof.
  intros Hc H. rewrite (get_paths_spec base cwd s Hc) in H. inversion H; subst.
  unfold confined. cbn [anchor parts]. rewrite Z.eqb_refl, is_prefix_app, skipn_length_app.
  destruct (normalize_ok (parts cwd) s (proj2 Hc)) as [_ H2]. rewrite H2. reflexivity.
Qed.

(* ---- going up stops at the virtual root ---- *)
Fixpoint updirs (n : nat) : text :=
  match n with O => [] | S k => DOT :: DOT :: SLASH :: updirs k end.    (* "../" * n *)

Lemma pops n : forall st, (length st <= n)%nat -> fold_left spec_step (repeat dotdot n) st = [].
Proof.
  induction n as [|n IH]; intros st H; cbn [repeat fold_left].
  - destruct st; [reflexivity|cbn in H; lia].
  - change (spec_step st dotdot) with (tl st). apply IH. destruct st; cbn in *; lia.
Qed.

Lemma split_updirs n : split_on SLASH (updirs n) = repeat dotdot n ++ [[]].
Proof.
  induction n as [|n IH]; [reflexivity|].
  change (updirs (S n)) with (dotdot ++ SLASH :: updirs n).
  rewrite split_on_app by reflexivity. rewrite IH. reflexivity.
Qed.

Lemma spec_fold_length l : forall st, (length (fold_left spec_step l st) <= length st + length l)%nat.
Proof.
  induction l as [|x l IH]; intro st; cbn [fold_left length]; [lia|].
  specialize (IH (spec_step st x)).
  assert (length (spec_step st x) <= S (length st))%nat.
  { unfold spec_step. destruct (text_eqb x dotdot); [destruct st; cbn; lia|].
    destruct (text_eqb x [] || text_eqb x dot); cbn; lia. }
  lia.
Qed.

Theorem up_clamps cwdp n : (length cwdp <= n)%nat -> normalize cwdp (updirs n) = [].
Proof.
  intro H. unfold normalize.
  assert (E : starts_slash (updirs n) = false) by (destruct n; reflexivity).
  rewrite E, split_updirs, fold_left_app, pops; [reflexivity|].
  pose proof (spec_fold_length cwdp []) as L. cbn [length] in L. lia.
Qed.

(* a normalised path is a fixed point of normalize *)
Lemma spec_fold_normal l : Forall seg_ok l -> no_dotdot l = true ->
  forall st, fold_left spec_step l st = rev l ++ st.
Proof.
  induction 1 as [|x l Hx Hl IH]; intros Hd st; cbn [fold_left rev]; [reflexivity|].
  cbn in Hd. apply andb_true_iff in Hd as [Hx' Hd]. apply negb_true_iff in Hx'.
  rewrite (IH Hd), <- app_assoc. cbn [app].
  rewrite <- (rev_involutive st), <- (fstep_spec (rev st) x Hx). unfold fstep. rewrite Hx'.
  rewrite rev_unit, rev_involutive. reflexivity.
Qed.

Theorem normalize_fixed p : normal p -> normalize (parts p) [] = parts p.
Proof.
  intros [_ [Hp Hd]]. unfold normalize. cbn [starts_slash split_on fold_left].
  rewrite (spec_fold_normal _ Hp Hd). rewrite app_nil_r.
  change (spec_step (rev (parts p)) []) with (rev (parts p)). apply rev_involutive.
Qed.

(* ---- the working directory along any CWD/CDUP history ---- *)
Lemma parent_parts p : parts (parent p) = removelast (parts p).
Proof. destruct p as [a ps]. unfold parent. cbn [parts]. destruct ps; reflexivity. Qed.

Lemma parent_anchor p : anchor (parent p) = anchor p.
Proof. destruct p as [a ps]. unfold parent. cbn [parts]. destruct ps; reflexivity. Qed.

Lemma parent_parts_ok p : Forall seg_ok (parts p) -> Forall seg_ok (parts (parent p)).
Proof. intro H. rewrite parent_parts. apply Forall_removelast. exact H. Qed.

Lemma in_removelast {A} (x : A) l : In x (removelast l) -> In x l.
Proof.
  induction l as [|y l IH]; [intros []|]. cbn [removelast]. destruct l as [|z l]; [intros []|].
  intros [->|H]; [left; reflexivity|right; apply IH; exact H].
Qed.

Lemma nav_step_inv base cwd c : abs_wf cwd -> nav_step base cwd c = cwd \/ normal (nav_step base cwd c).
Proof.
  intro Hc. destruct c as [s [|]|[|]]; cbn [nav_step]; auto.
  - destruct (get_paths base cwd s) as [[re vi]|] eqn:E; [|auto].
    right. eapply virt_normal; eassumption.
  - pose proof (parent_parts_ok cwd (proj2 Hc)) as Hp.
    pose proof (get_paths_p_spec base cwd (parent cwd) Hc Hp) as H.
    cbv zeta in H. rewrite H. right.
    destruct (spec_parts_ok cwd (parent cwd) Hc Hp) as [st [Hst Est]]. rewrite Est.
    destruct (stack_ok_rev st Hst) as [H1 H2]. split; [reflexivity|split; assumption].
Qed.

Theorem cwd_invariant base home h : abs_wf home ->
  nav_run base home h = home \/ normal (nav_run base home h).
Proof.
  intro Hh. unfold nav_run.
  assert (G : forall cwd, (cwd = home \/ normal cwd) ->
              fold_left (nav_step base) h cwd = home \/ normal (fold_left (nav_step base) h cwd)).
  { induction h as [|c h IH]; intros cwd Hc; cbn [fold_left]; [exact Hc|].
    apply IH.
    assert (Hw : abs_wf cwd) by (destruct Hc as [->|Hn]; [exact Hh|apply normal_abs_wf; exact Hn]).
    destruct (nav_step_inv base cwd c Hw) as [E|N]; [rewrite E; exact Hc|right; exact N]. }
  apply G. left. reflexivity.
Qed.

(* CDUP from a normalised directory is exactly its parent *)
Theorem cdup_is_parent base cwd : normal cwd ->
  nav_step base cwd (Cdup true) = parent cwd.
Proof.
  intros [Ha [Hp Hd]]. cbn [nav_step].
  assert (Hc : abs_wf cwd) by (apply normal_abs_wf; repeat split; assumption).
  pose proof (parent_parts_ok cwd Hp) as Hpp.
  pose proof (get_paths_p_spec base cwd (parent cwd) Hc Hpp) as H. cbv zeta in H. rewrite H.
  assert (Eabs : is_absolute (parent cwd) = true).
  { unfold is_absolute. rewrite parent_anchor, Ha. reflexivity. }
  unfold spec_parts. rewrite Eabs.
  assert (Hdd : no_dotdot (parts (parent cwd)) = true).
  { rewrite parent_parts. unfold no_dotdot in *. apply forallb_forall. intros x Hx.
    rewrite forallb_forall in Hd. apply Hd. apply in_removelast. exact Hx. }
  rewrite (spec_fold_normal _ Hpp Hdd), app_nil_r, rev_involutive.
  destruct (parent cwd) as [a ps] eqn:E.
  assert (Ea : a = 1) by (rewrite <- Ha, <- parent_anchor, E; reflexivity).
  subst a. reflexivity.
Qed.

(* ---- a segment is '..' (or '.') only when it is EXACTLY that text ----
   Names that merely look like '..' / '.' -- decorated with blanks, TABs, NBSP or any other
   code point before or after -- are ordinary names: pushed, never popped, and they come out of
   get_paths unchanged on both the real and the virtual side. *)
Definition name_seg (x : text) : Prop := seg_ok x /\ x <> dotdot.

Lemma spec_step_name st x : name_seg x -> spec_step st x = x :: st.
Proof.
  intros [[Hne [Hd _]] Hdd]. unfold spec_step.
  destruct (text_eqb x dotdot) eqn:E1; [apply text_eqb_eq in E1; contradiction|].
  destruct (text_eqb x []) eqn:E2; [apply text_eqb_eq in E2; contradiction|].
  destruct (text_eqb x dot) eqn:E3; [apply text_eqb_eq in E3; contradiction|]. reflexivity.
Qed.

Lemma spec_fold_names l : Forall name_seg l -> forall st, fold_left spec_step l st = rev l ++ st.
Proof.
  induction 1 as [|x l Hx Hl IH]; intro st; cbn [fold_left rev app]; [reflexivity|].
  rewrite IH, (spec_step_name st x Hx), <- app_assoc. reflexivity.
Qed.

Lemma names_nosep l : Forall name_seg l -> Forall (nosep SLASH) l.
Proof. intro H. eapply Forall_impl; [|exact H]. intros x [[_ [_ Hs]] _]. exact Hs. Qed.

(* an absolute path made of names only: the names come out as they went in *)
Theorem names_kept_abs cwdp l : Forall name_seg l -> l <> [] ->
  normalize cwdp (SLASH :: join [SLASH] l) = l.
Proof.
  intros Hl Hne. unfold normalize. cbn [starts_slash]. rewrite Z.eqb_refl.
  change (SLASH :: join [SLASH] l) with ([] ++ SLASH :: join [SLASH] l).
  rewrite (split_on_app SLASH [] _ eq_refl), (split_on_join SLASH l (names_nosep l Hl) Hne).
  cbn [fold_left]. change (spec_step [] []) with (@nil text).
  rewrite (spec_fold_names l Hl), app_nil_r. apply rev_involutive.
Qed.

Lemma nosep_app c a b : nosep c a -> nosep c b -> nosep c (a ++ b).
Proof. unfold nosep. intros Ha Hb. rewrite forallb_app, Ha, Hb. reflexivity. Qed.

Lemma nosep_dotdot : nosep SLASH dotdot.
Proof. reflexivity. Qed.

(* '..' with anything (non-empty, without '/') before or after it is a name *)
Lemma decorated_dotdot_name_r w : w <> [] -> nosep SLASH w -> name_seg (dotdot ++ w).
Proof.
  intros Hw Hs. destruct w as [|c w]; [congruence|].
  repeat split; try (cbn; discriminate). apply nosep_app; [exact nosep_dotdot|exact Hs].
Qed.

Lemma decorated_dotdot_name_l w : w <> [] -> nosep SLASH w -> name_seg (w ++ dotdot).
Proof.
  intros Hw Hs. destruct w as [|c w]; [congruence|].
  assert (Hlen : forall y : text, length ((c :: w) ++ dotdot) = length y -> (3 <= length y)%nat).
  { intros y <-. rewrite app_length. cbn. lia. }
  repeat split.
  - cbn; discriminate.
  - intro H. apply (f_equal (@length Z)) in H. apply Hlen in H. cbn in H. lia.
  - apply nosep_app; [exact Hs|exact nosep_dotdot].
  - intro H. apply (f_equal (@length Z)) in H. apply Hlen in H. cbn in H. lia.
Qed.

Theorem get_paths_names_kept base cwd l : abs_wf cwd -> Forall name_seg l -> l <> [] ->
  get_paths base cwd (SLASH :: join [SLASH] l) = Some (mkp (anchor base) (parts base ++ l), mkp 1 l).
Proof. intros Hc Hl Hne. rewrite (get_paths_spec base cwd _ Hc), (names_kept_abs _ l Hl Hne). reflexivity. Qed.

(* the shape of the escape attempt: "<'..' + w>/<rest>" from the root *)
Theorem decorated_dotdot_not_folded base cwd w l : abs_wf cwd -> w <> [] -> nosep SLASH w -> Forall name_seg l ->
  get_paths base cwd (SLASH :: join [SLASH] ((dotdot ++ w) :: l))
  = Some (mkp (anchor base) (parts base ++ (dotdot ++ w) :: l), mkp 1 ((dotdot ++ w) :: l)).
Proof.
  intros Hc Hw Hs Hl. apply get_paths_names_kept; [exact Hc| |discriminate].
  constructor; [apply decorated_dotdot_name_r; assumption|exact Hl].
Qed.
