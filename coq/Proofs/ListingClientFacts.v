(* Facts about Model/ListingClient.v: Client.list()'s loop and parser chain, Client.stat() over
   MLST (through the reply framing of C06) and over the LIST/MLSD fallback, and the agreement of
   the two listing commands. *)
From Coq Require Import ZArith List Bool Lia.
From Verif Require Import Lib.Sx Lib.PyStr Lib.PyStr2 Lib.Civil Model.LsDate Model.Listing Model.ListingClient.
From Verif Require Import Proofs.PyStrFacts Proofs.PyStr2Facts Proofs.CivilFacts Proofs.LsDateFacts Proofs.ListingFacts.
From Verif Require Model.Framing Proofs.Framing.
Import ListNotations.
Open Scope Z_scope.

(* ---------------- the eager listing loop ---------------- *)
Lemma client_collect_all_ok {I : Type} (parse : text -> res (text * I)) has_type (lines : list text) (rs : list (text * I)) :
  map parse lines = map (@Ok _) rs ->
  Forall (fun r => has_type (snd r) = true) rs ->
  client_collect parse has_type lines = Ok (filter (fun r => negb (is_dot_name (fst r))) rs).
Proof.
  revert rs. induction lines as [|l rest IH]; intros rs H F.
  - destruct rs; [reflexivity|discriminate].
  - destruct rs as [|r rs]; [discriminate|]. cbn [map] in H. injection H as H1 H2.
    inversion F as [|? ? Hr Fr]; subst.
    cbn [client_collect]. rewrite H1. cbn [bind filter]. rewrite Hr. cbn [negb].
    destruct (is_dot_name (fst r)); cbn [negb]; [exact (IH rs H2 Fr)|].
    rewrite (IH rs H2 Fr). reflexivity.
Qed.

(* one failing line fails the whole listing *)
Lemma client_collect_err {I : Type} (parse : text -> res (text * I)) has_type pre l post t :
  Forall (fun x => exists r, parse x = Ok r /\ has_type (snd r) = true) pre -> parse l = Err t ->
  client_collect parse has_type (pre ++ l :: post) = Err t.
Proof.
  intros F E. induction F as [|x pre [r [Hr Ht]] _ IH]; cbn [app client_collect].
  - rewrite E. reflexivity.
  - rewrite Hr. cbn [bind]. rewrite Ht. cbn [negb]. destruct (is_dot_name (fst r)); [exact IH|]. rewrite IH. reflexivity.
Qed.

(* a parsed line without a type fact is a ValueError for the whole listing — even a "." line *)
Lemma client_collect_typeless {I : Type} (parse : text -> res (text * I)) has_type pre l post r :
  Forall (fun x => exists r, parse x = Ok r /\ has_type (snd r) = true) pre ->
  parse l = Ok r -> has_type (snd r) = false ->
  client_collect parse has_type (pre ++ l :: post) = Err E_VALUE.
Proof.
  intros F E Ht. induction F as [|x pre [r' [Hr Ht']] _ IH]; cbn [app client_collect].
  - rewrite E. cbn [bind]. rewrite Ht. reflexivity.
  - rewrite Hr. cbn [bind]. rewrite Ht'. cbn [negb]. destruct (is_dot_name (fst r')); [exact IH|]. rewrite IH. reflexivity.
Qed.

(* the chain: a line the unix parser accepts is the unix parser's result, whatever the others do *)
Lemma parse_list_line_unix_ok unix others b r : unix b = Ok r -> parse_list_line unix others b = Ok r.
Proof. intro H. unfold parse_list_line. cbn [first_ok]. rewrite H. reflexivity. Qed.

(* ... and when every parser raises, ValueError *)
Lemma parse_list_line_all_fail unix others b :
  (exists t, unix b = Err t) -> Forall (fun p => exists t, p b = Err t) others ->
  parse_list_line unix others b = Err E_VALUE.
Proof.
  intros [t Hu] F. unfold parse_list_line. cbn [first_ok]. rewrite Hu.
  induction F as [|p ps [t' Hp] _ IH]; cbn [first_ok]; [reflexivity|]. rewrite Hp. exact IH.
Qed.

Definition not_dot (name : text) : Prop := name <> DOT /\ name <> DOTDOT.

Lemma is_dot_name_false n : not_dot n -> is_dot_name n = false.
Proof.
  intros [A B]. unfold is_dot_name.
  destruct (text_eqb n DOT) eqn:E1; [apply text_eqb_eq in E1; contradiction|].
  destruct (text_eqb n DOTDOT) eqn:E2; [apply text_eqb_eq in E2; contradiction|]. reflexivity.
Qed.

Lemma filter_not_dot {I : Type} (rs : list (text * I)) :
  Forall (fun r => not_dot (fst r)) rs -> filter (fun r => negb (is_dot_name (fst r))) rs = rs.
Proof.
  induction 1 as [|r rs N _ IH]; [reflexivity|]. cbn [filter]. rewrite (is_dot_name_false _ N). cbn [negb].
  f_equal. exact IH.
Qed.

(* entries that still exist when the LIST worker reaches them *)
Definition present (dir : list dentry) : list (text * stats) :=
  flat_map (fun e => match de_stat e with Some st => [(de_name e, st)] | None => [] end) dir.

Definition list_item_ok (off now : Z) (r : text * stats) : Prop :=
  plain_entry (snd r) (fst r) /\ not_dot (fst r) /\
  1000 <= yr (civil_of_epoch (st_mtime (snd r) + off)) <= 9999 /\
  outside_window now (st_mtime (snd r)).

Lemma list_lines_present half off now dir :
  list_lines half off now dir = map (fun r => build_list_string half off now (snd r) (fst r)) (present dir).
Proof.
  unfold list_lines, present. induction dir as [|e rest IH]; [reflexivity|].
  cbn [flat_map]. rewrite IH. destruct (de_stat e); reflexivity.
Qed.

Lemma list_line_exact half two off now now' (r : text * stats) :
  consts_ok half two = true ->
  now <= now' <= now + HOUR -> yr (client_now off now') <= 9999 ->
  list_item_ok off now r ->
  parse_list_line_unix half two (client_now off now') (build_list_string half off now (snd r) (fst r))
  = Ok (fst r, list_info (snd r) (expected_modify off now (snd r))).
Proof.
  intros C Hn HY' (P & _ & HY & W).
  assert (C' := C). unfold consts_ok in C'. apply andb_true_iff in C' as [C' _].
  apply andb_true_iff in C' as [_ C2]. apply Z.leb_le in C2.
  unfold expected_modify.
  destruct ((st_mtime (snd r) <=? now - half_year_spec) || (now <? st_mtime (snd r))) eqn:B.
  - apply list_line_old_or_future; try assumption.
    apply orb_true_iff in B as [B|B]; [left; apply Z.leb_le in B; exact B|right; apply Z.ltb_lt in B; exact B].
  - apply orb_false_iff in B as [B1 B2]. apply Z.leb_gt in B1. apply Z.ltb_ge in B2.
    apply list_line_recent; try assumption; try lia.
    destruct W as [W|[W|W]]; [exact W|lia|lia].
Qed.

(* Client.list(raw_command="LIST") (or the fallback) on what the server's LIST worker sends: each
   entry present in the directory exactly once, in order, none invented, whatever the Windows /
   custom parsers of the chain would do *)
Theorem client_list_exact half two off now now' others dir :
  consts_ok half two = true ->
  now <= now' <= now + HOUR -> yr (client_now off now') <= 9999 ->
  Forall (list_item_ok off now) (present dir) ->
  client_collect (parse_list_line (parse_list_line_unix half two (client_now off now')) others) (fun _ => true)
                 (list_lines half off now dir)
  = Ok (map (fun r => (fst r, list_info (snd r) (expected_modify off now (snd r)))) (present dir)).
Proof.
  intros C Hn HY' F. rewrite list_lines_present.
  rewrite (client_collect_all_ok _ _ _
             (map (fun r => (fst r, list_info (snd r) (expected_modify off now (snd r)))) (present dir))).
  - rewrite filter_not_dot; [reflexivity|].
    apply Forall_map. eapply Forall_impl; [|exact F]. intros r (_ & N & _). exact N.
  - rewrite !map_map. apply map_ext_Forall. eapply Forall_impl; [|exact F]. intros r H.
    apply parse_list_line_unix_ok. apply list_line_exact; assumption.
  - apply Forall_map. apply Forall_forall. reflexivity.
Qed.

Lemma mlsx_entry_has_type st kind : entry_has_type (entry_of (mlsx_facts st kind)) = true.
Proof. destruct st as [s|]; reflexivity. Qed.

(* the MLSD listing through the same loop *)
Theorem client_mlsd_collect dir :
  Forall (fun e => entry_name_ok (de_name e)) dir ->
  client_collect parse_mlsx_line entry_has_type (mlsd_lines dir)
  = Ok (map (fun e => (de_name e, entry_of (mlsx_facts (de_stat e) (de_kind e)))) dir).
Proof.
  intro F.
  rewrite (client_collect_all_ok _ _ _
             (map (fun e => (de_name e, entry_of (mlsx_facts (de_stat e) (de_kind e)))) dir)).
  - rewrite filter_not_dot; [reflexivity|]. apply Forall_map. eapply Forall_impl; [|exact F].
    intros e (_ & A & B). split; assumption.
  - unfold mlsd_lines. rewrite !map_map. apply map_ext_Forall. eapply Forall_impl; [|exact F].
    intros e (N & _). cbv beta. rewrite build_mlsx_string_eq.
    apply parse_mlsx_facts; [unfold mlsx_facts; destruct (de_stat e); discriminate|apply mlsx_facts_clean|exact N].
  - apply Forall_map. apply Forall_forall. intros e _. cbn [snd]. apply mlsx_entry_has_type.
Qed.

(* ---------------- both commands tell the same name, type and size ---------------- *)
(* the backend is consistent: is_file / is_dir agree with the S_IFMT bits of st_mode *)
Definition kind_consistent (st : stats) (kind : Z) : Prop :=
  (kind = K_FILE /\ filetype_char (st_mode st) = 45) \/ (kind = K_DIR /\ filetype_char (st_mode st) = 100).

Theorem list_agrees_with_mlsd st kind modify :
  kind_consistent st kind ->
  let info := list_info st modify in
  let entry := entry_of (mlsx_facts (Some st) kind) in
  dict_get l_type entry = Some (li_type info) /\
  dict_get l_size entry = Some (li_size info) /\
  li_size info = str_of_Z (st_size st) /\
  li_links info = str_of_Z (st_nlink st) /\
  li_mode info = mode_view (st_mode st).
Proof.
  intros [[-> E]|[-> E]]; cbn zeta; unfold list_info; cbn [li_type li_size li_links li_mode]; rewrite E;
    repeat split; reflexivity.
Qed.

(* ---------------- Client.stat over MLST, through the reply framing ---------------- *)
Lemma avoids_lf_free s : avoids 10 s -> Proofs.Framing.lf_free s.
Proof. exact (fun H => H). Qed.

Lemma mlsx_string_lf_free st kind name : avoids 10 name -> Proofs.Framing.lf_free (build_mlsx_string st kind name).
Proof.
  intro N. apply avoids_lf_free. rewrite build_mlsx_string_eq. apply avoids_app; [|apply avoids_app; [reflexivity|exact N]].
  assert (K : avoids 10 (kind_text kind)).
  { unfold kind_text. destruct (kind =? K_FILE); [|destruct (kind =? K_DIR)]; reflexivity. }
  unfold mlsx_facts. destruct st as [s|]; cbn [flat_map app fst snd].
  - repeat (apply avoids_app); try reflexivity; try exact K;
      try (apply avoids_str_of_Z; [reflexivity|lia]); try (apply avoids_fmt14; [reflexivity|lia]);
      try (apply avoids_zfill2; reflexivity).
  - repeat (apply avoids_app); try reflexivity; exact K.
Qed.

Lemma mlsx_string_starts st kind name : starts_nonspace (build_mlsx_string st kind name).
Proof.
  rewrite build_mlsx_string_eq. apply starts_nonspace_app.
  unfold mlsx_facts. destruct st as [s|]; cbn [flat_map app]; unfold fact_text, k_Size, k_Type; cbn [fst snd app];
    eexists _, _; (split; [reflexivity|reflexivity]).
Qed.

Lemma mlsx_string_rstrip st kind name : name_ok name ->
  rstrip (build_mlsx_string st kind name) = build_mlsx_string st kind name.
Proof.
  intros [Nn Nr]. rewrite build_mlsx_string_eq. rewrite app_assoc. apply rstrip_app_nonempty; assumption.
Qed.

(* MLST: the server's reply lines through write_response / the wire / the client's
   parse_response, then info[1].lstrip() and parse_mlsx_line: exactly the entry's own facts *)
Theorem mlst_roundtrip st kind name k :
  name_ok name -> avoids 10 name ->
  exists wl info,
    Model.Framing.write_response c250 (mlst_lines st kind name) true = Some wl /\
    Model.Framing.parse_response (Model.Framing.split_lines (Model.Framing.wire wl ++ k))
      = Model.Framing.POk c250 info (Model.Framing.split_lines k) /\
    client_stat_mlst info = Ok (entry_of (mlsx_facts st kind)).
Proof.
  intros N L.
  destruct (Proofs.Framing.decode_encode_list c250 (mlst_lines st kind name) k) as [wl [W P]].
  - split; reflexivity.
  - cbn. lia.
  - repeat constructor; try reflexivity. apply mlsx_string_lf_free. exact L.
  - exists wl, (Proofs.Framing.decoded_info (mlst_lines st kind name) true). split; [exact W|]. split; [exact P|].
    unfold mlst_lines, Proofs.Framing.decoded_info. cbn [Model.Framing.split_last map app].
    unfold client_stat_mlst. cbn [nth_error].
    assert (R : rstrip (Model.Framing.SP :: build_mlsx_string st kind name)
                = 32 :: build_mlsx_string st kind name).
    { change (Model.Framing.SP :: build_mlsx_string st kind name) with ([32] ++ build_mlsx_string st kind name).
      rewrite rstrip_app_nonempty; [reflexivity| |apply mlsx_string_rstrip; exact N].
      destruct (mlsx_string_starts st kind name) as (c & r & E & _). rewrite E. discriminate. }
    rewrite R. rewrite lstrip_cons_space by reflexivity.
    rewrite (lstrip_starts_nonspace _ (mlsx_string_starts st kind name)).
    rewrite build_mlsx_string_eq.
    rewrite parse_mlsx_facts; [reflexivity|unfold mlsx_facts; destruct st; discriminate|apply mlsx_facts_clean|exact N].
Qed.

(* an MLST reply whose second line carries no pathname is a ValueError, not facts *)
Lemma client_stat_mlst_no_name a l c :
  parse_mlsx_line (lstrip l) = Err E_VALUE -> client_stat_mlst (a :: l :: c) = Err E_VALUE.
Proof. intro H. unfold client_stat_mlst. cbn [nth_error]. rewrite H. reflexivity. Qed.

(* ---------------- Client.stat over the listing fallback ---------------- *)
Lemma find_unique {A I : Type} (key : A -> text) (val : A -> I) (l : list A) (x : A) :
  NoDup (map key l) -> In x l ->
  client_stat_via_list (key x) (map (fun a => (key a, val a)) l) = Some (val x).
Proof.
  unfold client_stat_via_list. induction l as [|a l IH]; intros ND H; [contradiction|].
  cbn [map find fst]. inversion ND as [|? ? Hn ND']; subst.
  destruct H as [->|H].
  - rewrite text_eqb_refl. reflexivity.
  - destruct (text_eqb (key a) (key x)) eqn:E.
    + apply text_eqb_eq in E. exfalso. apply Hn. rewrite E. apply in_map. exact H.
    + apply IH; assumption.
Qed.

Lemma find_absent {A I : Type} (key : A -> text) (val : A -> I) (l : list A) (n : text) :
  ~ In n (map key l) -> client_stat_via_list n (map (fun a => (key a, val a)) l) = None.
Proof.
  unfold client_stat_via_list. induction l as [|a l IH]; intro H; [reflexivity|].
  cbn [map find fst]. destruct (text_eqb (key a) n) eqn:E.
  - apply text_eqb_eq in E. exfalso. apply H. left. exact E.
  - apply IH. intro H'. apply H. right. exact H'.
Qed.

(* stat() of an entry through the LIST listing of its parent: that entry's own line *)
Theorem stat_via_list_exact off now (dir : list dentry) (r : text * stats) :
  NoDup (map fst (present dir)) -> In r (present dir) ->
  client_stat_via_list (fst r)
    (map (fun r => (fst r, list_info (snd r) (expected_modify off now (snd r)))) (present dir))
  = Some (list_info (snd r) (expected_modify off now (snd r))).
Proof. intros ND H. exact (find_unique fst _ (present dir) r ND H). Qed.

(* ... and through the MLSD listing *)
Theorem stat_via_mlsd_exact (dir : list dentry) (e : dentry) :
  NoDup (map de_name dir) -> In e dir ->
  client_stat_via_list (de_name e)
    (map (fun e => (de_name e, entry_of (mlsx_facts (de_stat e) (de_kind e)))) dir)
  = Some (entry_of (mlsx_facts (de_stat e) (de_kind e))).
Proof. intros ND H. exact (find_unique de_name _ dir e ND H). Qed.

(* a name that is not in the directory is reported missing (StatusCodeError 550), not invented *)
Theorem stat_via_list_missing off now (dir : list dentry) (n : text) :
  ~ In n (map fst (present dir)) ->
  client_stat_via_list n
    (map (fun r => (fst r, list_info (snd r) (expected_modify off now (snd r)))) (present dir)) = None.
Proof. intro H. exact (find_absent fst _ (present dir) n H). Qed.

(* ---------------- which command reads the listing ---------------- *)
Lemma list_plan_cases :
  list_plan_of 0 false = UseMLSD /\ list_plan_of 0 true = UseLIST /\
  list_plan_of 1 false = UseMLSD /\ list_plan_of 1 true = RaiseStatus /\
  (forall b, list_plan_of 2 b = UseLIST).
Proof. repeat split. Qed.

(* the plan of a call does not depend on the calls (refused or not) made earlier on the connection *)
Lemma list_plans_app h t : list_plans (h ++ t) = list_plans h ++ list_plans t.
Proof. unfold list_plans. apply map_app. Qed.

Lemma list_plan_history_independent h raw b :
  list_plans (h ++ [(raw, b)]) = list_plans h ++ [list_plan_of raw b].
Proof. rewrite list_plans_app. reflexivity. Qed.

Lemma list_plan_after_any_history h raw :
  last (list_plans (h ++ [(raw, false)])) RaiseStatus = (if raw =? 2 then UseLIST else UseMLSD).
Proof.
  rewrite list_plan_history_independent, last_last. unfold list_plan_of.
  destruct (raw =? 2); reflexivity.
Qed.

(* ---------------- the workers under backend faults ---------------- *)
Lemma worker_lines_ok faulty line_of dir :
  existsb faulty dir = false -> worker_lines faulty line_of dir = Some (flat_map line_of dir).
Proof.
  induction dir as [|e rest IH]; intro H; [reflexivity|]. cbn [existsb] in H.
  apply orb_false_iff in H as [He Hr]. cbn [worker_lines flat_map]. rewrite He, (IH Hr). reflexivity.
Qed.

Lemma worker_lines_fault faulty line_of dir :
  existsb faulty dir = true -> worker_lines faulty line_of dir = None.
Proof.
  induction dir as [|e rest IH]; intro H; [discriminate|]. cbn [existsb] in H. cbn [worker_lines].
  destruct (faulty e); [reflexivity|]. cbn [orb] in H. rewrite (IH H). reflexivity.
Qed.

Lemma flat_map_single {A B} (f : A -> B) l : flat_map (fun x => [f x]) l = map f l.
Proof. induction l as [|x l IH]; [reflexivity|]. cbn [flat_map map app]. rewrite IH. reflexivity. Qed.

(* a listing that completes is complete; a fault at ANY entry fails the command (no 2xx listing
   ever hides an entry whose stat failed) *)
Theorem mlsd_complete_or_fails faulty dir :
  Forall (fun e => entry_name_ok (de_name e)) dir ->
  (existsb faulty dir = true -> mlsd_worker faulty dir = None) /\
  (forall ls, mlsd_worker faulty dir = Some ls ->
     existsb faulty dir = false /\
     client_collect parse_mlsx_line entry_has_type ls
     = Ok (map (fun e => (de_name e, entry_of (mlsx_facts (de_stat e) (de_kind e)))) dir)).
Proof.
  intro F. split; [apply worker_lines_fault|]. intros ls H.
  destruct (existsb faulty dir) eqn:E.
  - unfold mlsd_worker in H. rewrite (worker_lines_fault _ _ _ E) in H. discriminate.
  - split; [reflexivity|]. unfold mlsd_worker in H. rewrite (worker_lines_ok _ _ _ E), flat_map_single in H.
    injection H as <-. exact (client_mlsd_collect dir F).
Qed.

Theorem list_complete_or_fails half two off now now' others faulty dir :
  consts_ok half two = true ->
  now <= now' <= now + HOUR -> yr (client_now off now') <= 9999 ->
  Forall (list_item_ok off now) (present dir) ->
  (existsb faulty dir = true -> list_worker half off now faulty dir = None) /\
  (forall ls, list_worker half off now faulty dir = Some ls ->
     existsb faulty dir = false /\
     client_collect (parse_list_line (parse_list_line_unix half two (client_now off now')) others) (fun _ => true) ls
     = Ok (map (fun r => (fst r, list_info (snd r) (expected_modify off now (snd r)))) (present dir))).
Proof.
  intros C Hn HY F. split; [apply worker_lines_fault|]. intros ls H.
  destruct (existsb faulty dir) eqn:E.
  - unfold list_worker in H. rewrite (worker_lines_fault _ _ _ E) in H. discriminate.
  - split; [reflexivity|]. unfold list_worker in H. rewrite (worker_lines_ok _ _ _ E) in H.
    injection H as <-. exact (client_list_exact half two off now now' others dir C Hn HY F).
Qed.

(* ---------------- zones whose offset differs between mtime and "now" (DST) ---------------- *)
(* the recent-date theorem with one offset for the file's instant and another for the client's
   clock: it is the fixed-offset theorem with the client's clock shifted by the difference *)
Lemma client_now_shift off_m off_n now' : client_now off_n now' = client_now off_m (now' + (off_n - off_m)).
Proof. unfold client_now. f_equal. lia. Qed.

Theorem ls_date_recent_two_offsets half two off_m off_n mtime now now' :
  consts_ok half two = true ->
  now <= now' + (off_n - off_m) <= now + HOUR ->
  now - half_year_spec + DAY < mtime <= now ->
  let tm := civil_of_epoch (mtime + off_m) in
  1000 <= yr tm -> yr (client_now off_n now') <= 9999 ->
  parse_ls_date_dt half two (build_list_mtime half off_m mtime now) (client_now off_n now')
  = Some (minute_floor tm).
Proof.
  intros C Hn Hm tm HY HY'. rewrite (client_now_shift off_m off_n now') in *.
  exact (ls_date_recent half two off_m mtime now (now' + (off_n - off_m)) C Hn Hm HY HY').
Qed.

(* ---------------- sub-second timestamps: the facts are those of the floor ---------------- *)
From Coq Require Import QArith Qround.
Open Scope Z_scope.

Theorem mlsx_time_real_floor (q : Q) :
  1000 <= yr (civil_of_epoch (Qfloor q)) <= 9999 ->
  let e := epoch_of_civil (parse14 (format_mlsx_time_real q)) in
  (inject_Z e <= q)%Q /\ (q < inject_Z (e + 1))%Q.
Proof.
  intro H. cbv zeta. unfold format_mlsx_time_real. rewrite (mlsx_time_exact (Qfloor q) H).
  split; [apply Qfloor_le|apply Qlt_floor].
Qed.
