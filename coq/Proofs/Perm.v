(* Proofs about Model/Perm.v (C04) *)
From Coq Require Import ZArith List Bool String Lia.
From Verif Require Import Lib.Sx Lib.PyStr Lib.PosixPath Lib.Facts Model.Paths Model.Perm
  Proofs.PyStrFacts Proofs.PosixPathFacts Proofs.Paths.
Import ListNotations.
Open Scope list_scope.
Open Scope Z_scope.

(* ---- is_parent / key in terms of ancestor / depth ---- *)
Lemma is_parent_ancestor p path : is_parent p path = ancestor (p_path p) path.
Proof.
  unfold is_parent, relative_to, is_relative_to, ancestor.
  destruct ((anchor (p_path p) =? anchor path) && is_prefix (parts (p_path p)) (parts path)); reflexivity.
Qed.

Lemma ancestor_depth p path : ancestor (p_path p) path = true ->
  (depth p <= List.length (parts path))%nat /\ key path p = (List.length (parts path) - depth p)%nat.
Proof.
  intro H. unfold ancestor in H. apply andb_true_iff in H as [Ha Hp].
  apply Z.eqb_eq in Ha. apply is_prefix_iff in Hp as [c Hc].
  unfold key, depth. rewrite (relative_to_some path (p_path p) c Ha Hc).
  unfold pparts. cbn [anchor parts Z.eqb]. rewrite Hc, app_length. split; lia.
Qed.

(* ---- min with key: first minimum ---- *)
Lemma min_by_keep k b best : (forall q, In q b -> (k best <= k q)%nat) -> min_by k b best = best.
Proof.
  induction b as [|x b IH]; intro H; cbn [min_by]; [reflexivity|].
  assert (Hx : (k best <= k x)%nat) by (apply H; left; reflexivity).
  destruct (Nat.ltb_spec (k x) (k best)); [lia|]. apply IH. intros q Hq. apply H. right. exact Hq.
Qed.

Lemma min_by_first k a p b : forall best,
  (forall q, In q a -> (k p < k q)%nat) -> (k p < k best)%nat ->
  (forall q, In q b -> (k p <= k q)%nat) ->
  min_by k (a ++ p :: b) best = p.
Proof.
  induction a as [|x a IH]; intros best Ha Hb Hbb; cbn [app min_by].
  - destruct (Nat.ltb_spec (k p) (k best)); [|lia]. apply min_by_keep. exact Hbb.
  - assert (Hx : (k p < k x)%nat) by (apply Ha; left; reflexivity).
    assert (Ha' : forall q, In q a -> (k p < k q)%nat) by (intros q Hq; apply Ha; right; exact Hq).
    destruct (Nat.ltb (k x) (k best)); apply IH; assumption.
Qed.

(* ---- declarative characterisation ---- *)
Theorem get_permissions_default perms path :
  (forall q, In q perms -> ancestor (p_path q) path = false) ->
  get_permissions perms path = default_perm.
Proof.
  intro H. unfold get_permissions.
  assert (E : filter (fun p => is_parent p path) perms = []).
  { induction perms as [|x l IH]; [reflexivity|]. cbn [filter].
    rewrite is_parent_ancestor, (H x (or_introl eq_refl)). apply IH. intros q Hq. apply H. right. exact Hq. }
  rewrite E. reflexivity.
Qed.

(* p is the FIRST DEEPEST ancestor entry: every ancestor entry before it is strictly shallower,
   every ancestor entry after it is not deeper *)
Theorem get_permissions_first_deepest perms path l1 p l2 :
  perms = l1 ++ p :: l2 ->
  ancestor (p_path p) path = true ->
  (forall q, In q l1 -> ancestor (p_path q) path = true -> (depth q < depth p)%nat) ->
  (forall q, In q l2 -> ancestor (p_path q) path = true -> (depth q <= depth p)%nat) ->
  get_permissions perms path = p.
Proof.
  intros -> Hp H1 H2. unfold get_permissions. rewrite filter_app. cbn [filter].
  rewrite (is_parent_ancestor p), Hp.
  destruct (ancestor_depth p path Hp) as [Dp Kp].
  assert (Ka : forall q, In q (filter (fun p0 => is_parent p0 path) l1) -> (key path p < key path q)%nat).
  { intros q Hq. apply filter_In in Hq as [Hin Hanc]. rewrite is_parent_ancestor in Hanc.
    destruct (ancestor_depth q path Hanc) as [Dq Kq]. specialize (H1 q Hin Hanc). lia. }
  assert (Kb : forall q, In q (filter (fun p0 => is_parent p0 path) l2) -> (key path p <= key path q)%nat).
  { intros q Hq. apply filter_In in Hq as [Hin Hanc]. rewrite is_parent_ancestor in Hanc.
    destruct (ancestor_depth q path Hanc) as [Dq Kq]. specialize (H2 q Hin Hanc). lia. }
  destruct (filter (fun p0 => is_parent p0 path) l1) as [|x fa] eqn:E; cbn [app].
  - apply min_by_keep. exact Kb.
  - apply min_by_first.
    + intros q Hq. apply Ka. right. exact Hq.
    + apply Ka. left. reflexivity.
    + exact Kb.
Qed.

(* ---- executable specification ---- *)
Lemma nearest_from_some path l : forall b, ancestor (p_path b) path = true ->
  nearest_from path l (Some b) = Some (min_by (key path) (filter (fun p => is_parent p path) l) b).
Proof.
  induction l as [|x l IH]; intros b Hb; cbn [nearest_from filter]; [reflexivity|].
  rewrite is_parent_ancestor. destruct (ancestor (p_path x) path) eqn:E; [|apply IH; exact Hb].
  cbn [min_by].
  destruct (ancestor_depth x path E) as [Dx Kx]. destruct (ancestor_depth b path Hb) as [Db Kb].
  assert (Elt : Nat.ltb (depth b) (depth x) = Nat.ltb (key path x) (key path b)).
  { destruct (Nat.ltb_spec (depth b) (depth x)); destruct (Nat.ltb_spec (key path x) (key path b)); try reflexivity; lia. }
  rewrite Elt. destruct (Nat.ltb (key path x) (key path b)); apply IH; assumption.
Qed.

Lemma nearest_from_none path l :
  nearest_from path l None
  = match filter (fun p => is_parent p path) l with
    | [] => None
    | x :: r => Some (min_by (key path) r x)
    end.
Proof.
  induction l as [|x l IH]; cbn [nearest_from filter]; [reflexivity|].
  rewrite is_parent_ancestor. destruct (ancestor (p_path x) path) eqn:E; [|exact IH].
  apply nearest_from_some. exact E.
Qed.

Theorem get_permissions_is_nearest perms path : get_permissions perms path = nearest perms path.
Proof.
  unfold get_permissions, nearest. rewrite nearest_from_none.
  destruct (filter (fun p => is_parent p path) perms); reflexivity.
Qed.

(* entries whose path is relative or '//'-anchored never apply to a resolved virtual path *)
Theorem foreign_anchor_never_matches q path :
  anchor path = 1 -> anchor (p_path q) <> 1 -> ancestor (p_path q) path = false.
Proof.
  intros Hp Hq. unfold ancestor. rewrite Hp.
  destruct (anchor (p_path q) =? 1) eqn:E; [apply Z.eqb_eq in E; contradiction|reflexivity].
Qed.

(* the selected entry is an entry of the table that is an ancestor, or the default *)
Theorem get_permissions_sound perms path :
  get_permissions perms path = default_perm
  \/ (In (get_permissions perms path) perms /\ ancestor (p_path (get_permissions perms path)) path = true).
Proof.
  unfold get_permissions.
  destruct (filter (fun p => is_parent p path) perms) as [|x r] eqn:E; [left; reflexivity|right].
  assert (G : forall l best, In best (x :: r) -> incl l (x :: r) -> In (min_by (key path) l best) (x :: r)).
  { induction l as [|y l IH]; intros best Hb Hl; cbn [min_by]; [exact Hb|].
    destruct (Nat.ltb (key path y) (key path best)); apply IH; try assumption.
    - apply Hl. left. reflexivity.
    - intros z Hz. apply Hl. right. exact Hz.
    - intros z Hz. apply Hl. right. exact Hz. }
  specialize (G r x (or_introl eq_refl) (fun z Hz => or_intror Hz)).
  rewrite <- E in G. apply filter_In in G as [Hin Hanc]. rewrite is_parent_ancestor in Hanc.
  split; assumption.
Qed.

(* ---- the decision ---- *)
Theorem deny_iff flags cur :
  path_permissions flags cur = Deny550 <-> exists f r, flags = f :: r /\ getflag cur f = false.
Proof.
  unfold path_permissions. split.
  - destruct flags as [|f r]; [discriminate|]. destruct (getflag cur f) eqn:E; [discriminate|].
    intros _. exists f, r. split; [reflexivity|exact E].
  - intros [f [r [-> E]]]. rewrite E. reflexivity.
Qed.

Theorem single_flag f cur :
  path_permissions [f] cur = if getflag cur f then CallBody else Deny550.
Proof. reflexivity. Qed.

(* the lookup happens on the RESOLVED virtual path *)
Theorem lookup_on_resolved base cwd perms flags s : abs_wf cwd ->
  authorise base cwd perms flags s
  = let cur := nearest perms (mkp 1 (normalize (parts cwd) s)) in
    Some (path_permissions flags cur, cur).
Proof.
  intro Hc. unfold authorise. rewrite (get_paths_spec base cwd s Hc), get_permissions_is_nearest. reflexivity.
Qed.

Theorem alias_invariant base perms flags cwd1 s1 cwd2 s2 : abs_wf cwd1 -> abs_wf cwd2 ->
  normalize (parts cwd1) s1 = normalize (parts cwd2) s2 ->
  authorise base cwd1 perms flags s1 = authorise base cwd2 perms flags s2.
Proof.
  intros H1 H2 E. rewrite (lookup_on_resolved base cwd1 perms flags s1 H1),
    (lookup_on_resolved base cwd2 perms flags s2 H2), E. reflexivity.
Qed.

(* ---- checker soundness (function level) ---- *)
Local Open Scope string_scope.

Lemma strings_eqb_eq a b : strings_eqb a b = true -> a = b.
Proof.
  revert b. induction a as [|x a IH]; intros [|y b]; cbn; intro H; try discriminate; [reflexivity|].
  apply andb_true_iff in H as [H1 H2]. apply String.eqb_eq in H1. rewrite H1, (IH b H2). reflexivity.
Qed.

Lemma verb_carries_outcome d hs fl f verb cur :
  flag_of_string fl = Some f ->
  verb_carries d hs fl verb = true ->
  verb_outcome d hs verb cur = Some (if getflag cur f then CallBody else Deny550).
Proof.
  intros Hf H. unfold verb_carries in H. unfold verb_outcome.
  destruct (verb_handler d hs verb) as [h|]; [|discriminate].
  destruct (perm_decos h) as [|l [|l2 r]]; try discriminate.
  apply strings_eqb_eq in H. subst l. cbn [flat_map]. rewrite Hf. reflexivity.
Qed.

Lemma check_readers d hs : check_perm_table d hs = true ->
  forallb (verb_carries d hs "readable") reader_verbs = true.
Proof. unfold check_perm_table. intro H. do 4 (apply andb_true_iff in H as [H _]). exact H. Qed.

Lemma check_writers d hs : check_perm_table d hs = true ->
  forallb (verb_carries d hs "writable") writer_verbs = true.
Proof.
  unfold check_perm_table. intro H. do 3 (apply andb_true_iff in H as [H _]).
  apply andb_true_iff in H as [_ H]. exact H.
Qed.

(* for EVERY table accepted by the checker: a reading verb is refused exactly when the
   applicable entry is not readable, a modifying verb exactly when it is not writable *)
Theorem check_perm_table_sound d hs : check_perm_table d hs = true ->
  (forall verb cur, In verb reader_verbs ->
     verb_outcome d hs verb cur = Some (if p_read cur then CallBody else Deny550))
  /\ (forall verb cur, In verb writer_verbs ->
     verb_outcome d hs verb cur = Some (if p_write cur then CallBody else Deny550)).
Proof.
  intro H. split; intros verb cur Hin.
  - pose proof (check_readers d hs H) as R. rewrite forallb_forall in R.
    exact (verb_carries_outcome d hs "readable" Readable verb cur eq_refl (R verb Hin)).
  - pose proof (check_writers d hs H) as W. rewrite forallb_forall in W.
    exact (verb_carries_outcome d hs "writable" Writable verb cur eq_refl (W verb Hin)).
Qed.

(* with exactly one flag per decorator, "only the first flag is checked" loses nothing *)
Theorem one_flag_everywhere d hs : check_perm_table d hs = true ->
  forall h l, In h hs -> In l (perm_decos h) -> exists f fl, l = [f] /\ flag_of_string f = Some fl.
Proof.
  unfold check_perm_table. intros H h l Hh Hl. do 2 (apply andb_true_iff in H as [H _]).
  apply andb_true_iff in H as [_ H]. rewrite forallb_forall in H. specialize (H h Hh).
  rewrite forallb_forall in H. specialize (H l Hl).
  destruct l as [|f [|f2 r]]; try discriminate. destruct (flag_of_string f) as [fl|] eqn:E; [|discriminate].
  exists f, fl. split; [reflexivity|exact E].
Qed.
