(* Proofs about Model/Timeouts.v (property C16). *)
From Coq Require Import QArith ZArith List Bool String Lqa Lia.
From Verif Require Import Lib.Sx Model.Timeouts.
Import ListNotations.
Open Scope Q_scope.

(* ---------------------------------------------------------------- comparisons *)
Lemma qle_true : forall a b, qle a b = true <-> a <= b.
Proof. intros a b. unfold qle. apply Qle_bool_iff. Qed.

Lemma qle_false : forall a b, qle a b = false -> b < a.
Proof.
  intros a b H. apply Qnot_le_lt. intro H1. apply qle_true in H1. congruence.
Qed.

Lemma qlt_true : forall a b, qlt a b = true <-> a < b.
Proof.
  intros a b. unfold qlt. split.
  - intro H. apply negb_true_iff in H. apply qle_false. exact H.
  - intro H. apply negb_true_iff. destruct (Qle_bool b a) eqn:E; [|reflexivity].
    apply Qle_bool_iff in E. lra.
Qed.

Lemma qlt_false : forall a b, qlt a b = false -> b <= a.
Proof.
  intros a b H. unfold qlt in H. apply negb_false_iff in H. apply Qle_bool_iff. exact H.
Qed.

Lemma truthy_pos : forall i, 0 < i -> truthy (Some i) = true.
Proof.
  intros i Hi. unfold truthy. apply negb_true_iff.
  destruct (Qeq_bool i 0) eqn:E; [|reflexivity]. apply Qeq_bool_iff in E. lra.
Qed.

Lemma truthy_zero : forall z, z == 0 -> truthy (Some z) = false.
Proof.
  intros z Hz. unfold truthy. apply negb_false_iff. apply Qeq_bool_iff. exact Hz.
Qed.

(* the instant at which asyncio.wait_for(aw, i) entered at [a] gives up: a + i, at once when i <= 0 *)
Definition due (a i : Q) : Q := if qlt 0 i then a + i else a.

Lemma deadline_due : forall a i, deadline a (Some i) = Some (due a i).
Proof. reflexivity. Qed.

Lemma due_pos : forall a i, 0 < i -> due a i = a + i.
Proof. intros a i Hi. unfold due. apply qlt_true in Hi. rewrite Hi. reflexivity. Qed.

Lemma due_nonpos : forall a i, i <= 0 -> due a i = a.
Proof.
  intros a i Hi. unfold due. destruct (qlt 0 i) eqn:E; [|reflexivity].
  apply qlt_true in E. lra.
Qed.

Lemma due_ge : forall a i, a <= due a i.
Proof.
  intros a i. unfold due. destruct (qlt 0 i) eqn:E; [|lra]. apply qlt_true in E. lra.
Qed.

Lemma due_le : forall a i, 0 <= i -> due a i <= a + i.
Proof.
  intros a i Hi. unfold due. destruct (qlt 0 i); lra.
Qed.

Lemma due_reached_now : forall a i, due a i <= a -> due a i = a.
Proof.
  intros a i H. unfold due in *. destruct (qlt 0 i) eqn:E; [|reflexivity].
  apply qlt_true in E. lra.
Qed.

Lemma due_spec : forall a T,
  (0 < T -> due a T = a + T) /\ (T <= 0 -> due a T = a) /\ a <= due a T /\ (0 <= T -> due a T <= a + T).
Proof.
  intros a T. split; [apply due_pos|]. split; [apply due_nonpos|]. split; [apply due_ge|apply due_le].
Qed.

Lemma deadline_pos : forall a i, 0 < i -> deadline a (Some i) = Some (a + i).
Proof. intros a i Hi. rewrite deadline_due, (due_pos _ _ Hi). reflexivity. Qed.

Lemma deadline_nonpos : forall a i, i <= 0 -> deadline a (Some i) = Some a.
Proof. intros a i Hi. rewrite deadline_due, (due_nonpos _ _ Hi). reflexivity. Qed.

(* ---------------------------------------------------------------- the wiring of the source *)
Definition alive (s : state) : Prop := ended s = None.

(* every await is governed by exactly the configured value: None is None and 0 is 0 *)
Lemma ctrl_read_is_idle : forall c, eval c (w_ctrl_read std_wiring) = idle c.
Proof. intros c. cbn. destruct (idle c); reflexivity. Qed.

Lemma ctrl_write_is_socket : forall c, eval c (w_ctrl_write std_wiring) = socket c.
Proof. intros c. cbn. destruct (socket c); reflexivity. Qed.

Lemma data_timeout_is_socket : forall c d, eval c (data_texpr std_wiring d) = socket c.
Proof. intros c d. destruct d; reflexivity. Qed.

Lemma wait_is_wait_future : forall c, eval c (w_wait std_wiring) = wait_future c.
Proof. reflexivity. Qed.

Theorem effective_timeouts : forall c,
  eval c (w_ctrl_read std_wiring) = idle c /\ eval c (w_ctrl_write std_wiring) = socket c /\
  eval c (w_data_read std_wiring) = socket c /\ eval c (w_data_write std_wiring) = socket c /\
  eval c (w_wait std_wiring) = wait_future c.
Proof.
  intros c. split; [apply ctrl_read_is_idle|]. split; [apply ctrl_write_is_socket|].
  split; [exact (data_timeout_is_socket c Up)|]. split; [exact (data_timeout_is_socket c Down)|].
  reflexivity.
Qed.

Lemma idle_dl_set : forall c s i, idle c = Some i ->
  idle_dl std_wiring c s = Some (due (armed s) i, CIdle).
Proof. intros c s i H. unfold idle_dl. rewrite ctrl_read_is_idle, H. reflexivity. Qed.

Lemma idle_dl_unset : forall c s, idle c = None -> idle_dl std_wiring c s = None.
Proof. intros c s H. unfold idle_dl. rewrite ctrl_read_is_idle, H. reflexivity. Qed.

Lemma data_dl_set : forall c s d p x, xf s = XMove d p -> socket c = Some x ->
  data_dl std_wiring c s = Some (due p x, CData).
Proof.
  intros c s d p x Hx H. unfold data_dl. rewrite Hx, data_timeout_is_socket, H. reflexivity.
Qed.

Lemma data_dl_unset : forall c s, socket c = None -> data_dl std_wiring c s = None.
Proof.
  intros c s H. unfold data_dl. destruct (xf s); try reflexivity.
  rewrite data_timeout_is_socket, H. reflexivity.
Qed.

Lemma data_dl_not_moving : forall w c s, (forall d p, xf s <> XMove d p) -> data_dl w c s = None.
Proof.
  intros w c s H. unfold data_dl. destruct (xf s) eqn:E; try reflexivity.
  exfalso. eapply H. reflexivity.
Qed.

Lemma cw_dl_none : forall w c s, cw s = None -> cw_dl w c s = None.
Proof. intros w c s H. unfold cw_dl. rewrite H. reflexivity. Qed.

Lemma cw_dl_set : forall c s t x, cw s = Some t -> socket c = Some x ->
  cw_dl std_wiring c s = Some (due t x, CCtrlWrite).
Proof.
  intros c s t x Hc H. unfold cw_dl. rewrite Hc, ctrl_write_is_socket, H. reflexivity.
Qed.

Lemma cw_dl_unset : forall c s, socket c = None -> cw_dl std_wiring c s = None.
Proof.
  intros c s H. unfold cw_dl. destruct (cw s); [|reflexivity].
  rewrite ctrl_write_is_socket, H. reflexivity.
Qed.

(* ---------------------------------------------------------------- pick *)
Lemma pick_cases : forall a b, pick a b = a \/ pick a b = b.
Proof.
  intros [[x kx]|] [[y ky]|]; cbn; auto. destruct (qle x y); auto.
Qed.

Lemma pick_none : forall a b, pick a b = None -> a = None /\ b = None.
Proof.
  intros [[x kx]|] [[y ky]|]; cbn; auto; try discriminate.
  destruct (qle x y); discriminate.
Qed.

Lemma pick_le_l : forall a b x kx, a = Some (x, kx) ->
  exists d k, pick a b = Some (d, k) /\ d <= x /\ (d == x -> pick a b = a).
Proof.
  intros a b x kx ->. destruct b as [[y ky]|]; cbn.
  - destruct (qle x y) eqn:E.
    + exists x, kx. repeat split; auto. lra.
    + apply qle_false in E. exists y, ky. repeat split; auto; lra.
  - exists x, kx. repeat split; auto. lra.
Qed.

Lemma pick_le_r : forall a b y ky, b = Some (y, ky) ->
  exists d k, pick a b = Some (d, k) /\ d <= y.
Proof.
  intros a b y ky ->. destruct a as [[x kx]|]; cbn.
  - destruct (qle x y) eqn:E.
    + apply qle_true in E. exists x, kx. split; auto.
    + exists y, ky. split; auto. lra.
  - exists y, ky. split; auto. lra.
Qed.

(* pick returns a lower bound of both *)
Lemma pick_lower : forall a b d k, pick a b = Some (d, k) ->
  (forall x kx, a = Some (x, kx) -> d <= x) /\ (forall y ky, b = Some (y, ky) -> d <= y).
Proof.
  intros [[x kx]|] [[y ky]|] d k; cbn; intro H.
  - destruct (qle x y) eqn:E; inversion H; subst; split; intros ? ? H1; inversion H1; subst.
    + lra. + apply qle_true in E. exact E. + apply qle_false in E. lra. + lra.
  - inversion H; subst. split; intros ? ? H1; inversion H1; subst. lra.
  - inversion H; subst. split; intros ? ? H1; inversion H1; subst. lra.
  - discriminate.
Qed.

Lemma pick_left_wins : forall a b x kx,
  a = Some (x, kx) -> (forall y ky, b = Some (y, ky) -> x <= y) -> pick a b = a.
Proof.
  intros a b x kx -> H. destruct b as [[y ky]|]; cbn; [|reflexivity].
  specialize (H y ky eq_refl). apply qle_true in H. rewrite H. reflexivity.
Qed.

Lemma pick_right_wins : forall a b y ky,
  b = Some (y, ky) -> (forall x kx, a = Some (x, kx) -> y < x) -> pick a b = b.
Proof.
  intros a b y ky -> H. destruct a as [[x kx]|]; cbn; [|reflexivity].
  specialize (H x kx eq_refl). destruct (qle x y) eqn:E; [|reflexivity].
  apply qle_true in E. lra.
Qed.

(* ---------------------------------------------------------------- end_dl *)
Lemma end_dl_sources : forall w c s d k, end_dl w c s = Some (d, k) ->
  idle_dl w c s = Some (d, k) \/ data_dl w c s = Some (d, k) \/ cw_dl w c s = Some (d, k).
Proof.
  intros w c s d k H. unfold end_dl in H.
  destruct (pick_cases (pick (idle_dl w c s) (data_dl w c s)) (cw_dl w c s)) as [E|E];
    rewrite E in H; auto.
  destruct (pick_cases (idle_dl w c s) (data_dl w c s)) as [E1|E1]; rewrite E1 in H; auto.
Qed.

Lemma end_dl_lower : forall w c s d k, end_dl w c s = Some (d, k) ->
  (forall x kx, idle_dl w c s = Some (x, kx) -> d <= x) /\
  (forall x kx, data_dl w c s = Some (x, kx) -> d <= x) /\
  (forall x kx, cw_dl w c s = Some (x, kx) -> d <= x).
Proof.
  intros w c s d k H. unfold end_dl in H.
  destruct (pick_lower _ _ _ _ H) as [H1 H2].
  destruct (pick (idle_dl w c s) (data_dl w c s)) as [[m km]|] eqn:E.
  - specialize (H1 m km eq_refl). destruct (pick_lower _ _ _ _ E) as [H3 H4].
    repeat split; intros x kx Hx.
    + specialize (H3 x kx Hx). lra.
    + specialize (H4 x kx Hx). lra.
    + exact (H2 x kx Hx).
  - apply pick_none in E. destruct E as [E1 E2]. rewrite E1, E2.
    repeat split; intros x kx Hx; try discriminate. exact (H2 x kx Hx).
Qed.

Lemma end_dl_none : forall w c s,
  idle_dl w c s = None -> data_dl w c s = None -> cw_dl w c s = None -> end_dl w c s = None.
Proof. intros w c s H1 H2 H3. unfold end_dl. rewrite H1, H2, H3. reflexivity. Qed.

Lemma end_dl_none_inv : forall w c s, end_dl w c s = None ->
  idle_dl w c s = None /\ data_dl w c s = None /\ cw_dl w c s = None.
Proof.
  intros w c s H. unfold end_dl in H. apply pick_none in H. destruct H as [H1 H2].
  apply pick_none in H1. tauto.
Qed.

(* the idle deadline wins when no other deadline is strictly earlier *)
Lemma end_dl_idle_wins : forall w c s x,
  idle_dl w c s = Some (x, CIdle) ->
  (forall y ky, data_dl w c s = Some (y, ky) -> x <= y) ->
  (forall y ky, cw_dl w c s = Some (y, ky) -> x <= y) ->
  end_dl w c s = Some (x, CIdle).
Proof.
  intros w c s x Hi Hd Hc. unfold end_dl.
  rewrite (pick_left_wins _ _ x CIdle Hi Hd). rewrite (pick_left_wins _ _ x CIdle Hi Hc). exact Hi.
Qed.

Lemma end_dl_data_wins : forall w c s x,
  data_dl w c s = Some (x, CData) ->
  (forall y ky, idle_dl w c s = Some (y, ky) -> x < y) ->
  (forall y ky, cw_dl w c s = Some (y, ky) -> x <= y) ->
  end_dl w c s = Some (x, CData).
Proof.
  intros w c s x Hd Hi Hc. unfold end_dl.
  rewrite (pick_right_wins _ _ x CData Hd Hi). rewrite (pick_left_wins _ _ x CData Hd Hc). exact Hd.
Qed.

Lemma end_dl_le_idle : forall w c s x, idle_dl w c s = Some (x, CIdle) ->
  exists d k, end_dl w c s = Some (d, k) /\ d <= x.
Proof.
  intros w c s x Hi. unfold end_dl.
  destruct (pick_le_l _ (data_dl w c s) x CIdle Hi) as (d & k & E & Hle & _).
  destruct (pick_le_l _ (cw_dl w c s) d k E) as (d' & k' & E' & Hle' & _).
  exists d', k'. split; [exact E'|lra].
Qed.

Lemma end_dl_le_data : forall w c s x, data_dl w c s = Some (x, CData) ->
  exists d k, end_dl w c s = Some (d, k) /\ d <= x.
Proof.
  intros w c s x Hd. unfold end_dl.
  destruct (pick_le_r (idle_dl w c s) _ x CData Hd) as (d & k & E & Hle).
  destruct (pick_le_l _ (cw_dl w c s) d k E) as (d' & k' & E' & Hle' & _).
  exists d', k'. split; [exact E'|lra].
Qed.

Lemma end_dl_le_cw : forall w c s x, cw_dl w c s = Some (x, CCtrlWrite) ->
  exists d k, end_dl w c s = Some (d, k) /\ d <= x.
Proof.
  intros w c s x Hc. unfold end_dl. exact (pick_le_r _ _ x CCtrlWrite Hc).
Qed.

(* the cause names the deadline that fired *)
Lemma tag_cause : forall k o d k', tag k o = Some (d, k') -> k' = k /\ o = Some d.
Proof. intros k [x|] d k' H; cbn in H; inversion H; auto. Qed.

Lemma end_dl_cause_idle : forall w c s d, end_dl w c s = Some (d, CIdle) ->
  idle_dl w c s = Some (d, CIdle).
Proof.
  intros w c s d H. destruct (end_dl_sources _ _ _ _ _ H) as [E|[E|E]]; auto.
  - unfold data_dl in E. destruct (xf s); try discriminate. apply tag_cause in E. destruct E; discriminate.
  - unfold cw_dl in E. destruct (cw s); try discriminate. apply tag_cause in E. destruct E; discriminate.
Qed.

Lemma end_dl_cause_data : forall w c s d, end_dl w c s = Some (d, CData) ->
  data_dl w c s = Some (d, CData).
Proof.
  intros w c s d H. destruct (end_dl_sources _ _ _ _ _ H) as [E|[E|E]]; auto.
  - unfold idle_dl in E. apply tag_cause in E. destruct E; discriminate.
  - unfold cw_dl in E. destruct (cw s); try discriminate. apply tag_cause in E. destruct E; discriminate.
Qed.

Lemma end_dl_not_waitfail : forall w c s d, end_dl w c s <> Some (d, CWaitFail).
Proof.
  intros w c s d H. destruct (end_dl_sources _ _ _ _ _ H) as [E|[E|E]].
  - unfold idle_dl in E. apply tag_cause in E. destruct E; discriminate.
  - unfold data_dl in E. destruct (xf s); try discriminate. apply tag_cause in E. destruct E; discriminate.
  - unfold cw_dl in E. destruct (cw s); try discriminate. apply tag_cause in E. destruct E; discriminate.
Qed.

(* ---------------------------------------------------------------- fire_wait / fire_end / advance *)
Lemma reply_425_fields : forall s t,
  armed (reply_425 s t) = armed s /\ cw (reply_425 s t) = cw s /\ ended (reply_425 s t) = ended s /\
  xf (reply_425 s t) = XNone /\ r425 (reply_425 s t) = t :: r425 s /\
  data_ready (reply_425 s t) = data_ready s.
Proof. intros. cbn. repeat split. Qed.

Lemma end_dl_reply_425 : forall w c s t, (forall d p, xf s <> XMove d p) ->
  end_dl w c (reply_425 s t) = end_dl w c s.
Proof.
  intros w c s t H. unfold end_dl, idle_dl, cw_dl. cbn.
  rewrite (data_dl_not_moving w c s H). unfold data_dl. cbn. reflexivity.
Qed.

Definition fw_spec (w : wiring) (c : config) (lim : option Q) (s s' : state) : Prop :=
  s' = s \/
  exists dr cmd wd, xf s = XWait dr cmd /\ wait_dl w c s = Some wd /\
    reached lim wd = true /\ strictly_before wd (end_dl w c s) = true /\ s' = reply_425 s wd.

Lemma fire_wait_spec : forall w c lim s, w_wait_continues w = true ->
  fw_spec w c lim s (fire_wait w c lim s).
Proof.
  intros w c lim s Hc. unfold fire_wait, fw_spec.
  destruct (wait_dl w c s) as [wd|] eqn:E; [|auto].
  destruct (reached lim wd && strictly_before wd (end_dl w c s)) eqn:B; [|auto].
  apply andb_true_iff in B. destruct B as [B1 B2]. rewrite Hc. right.
  unfold wait_dl in E. destruct (xf s) as [|dr cmd|] eqn:X; try discriminate.
  exists dr, cmd, wd. repeat split; auto.
Qed.

Lemma fire_wait_keeps : forall w c lim s, w_wait_continues w = true ->
  let s' := fire_wait w c lim s in
  armed s' = armed s /\ cw s' = cw s /\ ended s' = ended s /\ data_ready s' = data_ready s /\
  end_dl w c s' = end_dl w c s.
Proof.
  intros w c lim s Hc. cbn zeta.
  destruct (fire_wait_spec w c lim s Hc) as [E|(dr & cmd & wd & X & _ & _ & _ & E)]; rewrite E.
  - repeat split.
  - repeat split. apply end_dl_reply_425. intros d p H. congruence.
Qed.

Lemma fire_wait_not_waiting : forall w c lim s, (forall d t, xf s <> XWait d t) ->
  fire_wait w c lim s = s.
Proof.
  intros w c lim s H. unfold fire_wait, wait_dl. destruct (xf s) eqn:E; try reflexivity.
  exfalso. eapply H. reflexivity.
Qed.

Lemma fire_wait_no_deadline : forall w c lim s, wait_dl w c s = None -> fire_wait w c lim s = s.
Proof. intros w c lim s H. unfold fire_wait. rewrite H. reflexivity. Qed.

(* advance: the three possible outcomes *)
Lemma advance_alive_before : forall w c t s, w_wait_continues w = true -> alive s ->
  (forall d k, end_dl w c s = Some (d, k) -> t < d) ->
  advance w c (Some t) s = fire_wait w c (Some t) s /\ alive (advance w c (Some t) s).
Proof.
  intros w c t s Hc Ha Hd. unfold advance. rewrite Ha.
  destruct (fire_wait_keeps w c (Some t) s Hc) as (_ & _ & He & _ & Hend).
  unfold fire_end. rewrite He, Ha, Hend.
  destruct (end_dl w c s) as [[d k]|] eqn:E.
  - specialize (Hd d k eq_refl). cbn. destruct (qle d t) eqn:Q.
    + apply qle_true in Q. lra.
    + split; [reflexivity|]. unfold alive. rewrite He. exact Ha.
  - split; [reflexivity|]. unfold alive. rewrite He. exact Ha.
Qed.

Lemma advance_ends : forall w c lim s d k, w_wait_continues w = true -> alive s ->
  end_dl w c s = Some (d, k) -> reached lim d = true ->
  ended (advance w c lim s) = Some (d, k).
Proof.
  intros w c lim s d k Hc Ha Hd Hr. unfold advance. rewrite Ha.
  destruct (fire_wait_keeps w c lim s Hc) as (_ & _ & He & _ & Hend).
  unfold fire_end. rewrite He, Ha, Hend, Hd, Hr. reflexivity.
Qed.

Lemma advance_never : forall w c lim s, w_wait_continues w = true -> alive s ->
  end_dl w c s = None -> advance w c lim s = fire_wait w c lim s /\ alive (advance w c lim s).
Proof.
  intros w c lim s Hc Ha Hd. unfold advance. rewrite Ha.
  destruct (fire_wait_keeps w c lim s Hc) as (_ & _ & He & _ & Hend).
  unfold fire_end. rewrite He, Ha, Hend, Hd. split; [reflexivity|]. unfold alive. rewrite He. exact Ha.
Qed.

Lemma advance_ended : forall w c lim s e, ended s = Some e -> advance w c lim s = s.
Proof. intros w c lim s e H. unfold advance. rewrite H. reflexivity. Qed.

Lemma apply_event_ended : forall s e, ended (apply_event s e) = ended s.
Proof.
  intros s e. destruct e; cbn; try reflexivity.
  - destruct (xf s); reflexivity.
  - destruct (xf s); reflexivity.
  - destruct (xf s); reflexivity.
  - destruct (cw s); reflexivity.
Qed.

Lemma apply_event_r425 : forall s e, r425 (apply_event s e) = r425 s.
Proof.
  intros s e. destruct e; cbn; try reflexivity.
  - destruct (xf s); reflexivity.
  - destruct (xf s); reflexivity.
  - destruct (xf s); reflexivity.
  - destruct (cw s); reflexivity.
Qed.

Definition next_armed (a : Q) (e : event) : Q :=
  match e with Line t d _ => t + d | _ => a end.

Lemma apply_event_armed : forall s e, armed (apply_event s e) = next_armed (armed s) e.
Proof.
  intros s e. destruct e; cbn; try reflexivity.
  - destruct (xf s); reflexivity.
  - destruct (xf s); reflexivity.
  - destruct (xf s); reflexivity.
  - destruct (cw s); reflexivity.
Qed.

Lemma step_ended : forall w c s e x, ended s = Some x -> step w c s e = s.
Proof.
  intros w c s e x H. unfold step. rewrite (advance_ended w c _ s x H), H. reflexivity.
Qed.

Lemma run_events_cons : forall w c s e r,
  run_events w c s (e :: r) = run_events w c (step w c s e) r.
Proof. reflexivity. Qed.

Lemma run_events_nil : forall w c s, run_events w c s [] = s.
Proof. reflexivity. Qed.

Lemma run_events_ended : forall w c evs s x, ended s = Some x -> run_events w c s evs = s.
Proof.
  intros w c evs. induction evs as [|e r IH]; intros s x H; [reflexivity|].
  rewrite run_events_cons, (step_ended w c s e x H). exact (IH s x H).
Qed.

(* ---------------------------------------------------------------- one step: no early drop / exact drop *)
(* never_before_bound: an event that comes strictly before every session-ending deadline is
   handled by a live session *)
Theorem never_before_bound : forall w c s e, w_wait_continues w = true -> alive s ->
  (forall d k, end_dl w c s = Some (d, k) -> time_of e < d) ->
  alive (step w c s e) /\
  step w c s e = apply_event (fire_wait w c (Some (time_of e)) s) e.
Proof.
  intros w c s e Hc Ha Hd. unfold step.
  destruct (advance_alive_before w c (time_of e) s Hc Ha Hd) as [E A].
  rewrite A. split.
  - unfold alive. rewrite apply_event_ended. exact A.
  - rewrite E. reflexivity.
Qed.

(* the session ends at exactly the earliest session-ending deadline, whatever the peer does later *)
Theorem dropped_at_deadline : forall w c s e d k, w_wait_continues w = true -> alive s ->
  end_dl w c s = Some (d, k) -> d <= time_of e ->
  ended (step w c s e) = Some (d, k).
Proof.
  intros w c s e d k Hc Ha Hd Hle. unfold step.
  assert (R : reached (Some (time_of e)) d = true) by (cbn; apply qle_true; exact Hle).
  pose proof (advance_ends w c _ s d k Hc Ha Hd R) as E. rewrite E. exact E.
Qed.

Theorem stall_ends_at_deadline : forall w c s d k, w_wait_continues w = true -> alive s ->
  end_dl w c s = Some (d, k) -> ended (finish w c s) = Some (d, k).
Proof.
  intros w c s d k Hc Ha Hd. unfold finish. apply advance_ends; auto.
Qed.

Theorem stall_never_released : forall w c s, w_wait_continues w = true -> alive s ->
  end_dl w c s = None -> alive (finish w c s).
Proof.
  intros w c s Hc Ha Hd. unfold finish. exact (proj2 (advance_never w c None s Hc Ha Hd)).
Qed.

Lemma step_armed : forall w c s e, w_wait_continues w = true -> alive (step w c s e) ->
  armed (step w c s e) = next_armed (armed s) e.
Proof.
  intros w c s e Hc Ha. unfold step in *. unfold alive in Ha.
  destruct (ended (advance w c (Some (time_of e)) s)) eqn:E; [congruence|].
  rewrite apply_event_armed. f_equal.
  unfold advance in *. destruct (ended s) eqn:Es; [reflexivity|].
  destruct (fire_wait_keeps w c (Some (time_of e)) s Hc) as (Harm & _ & _ & _ & _).
  unfold fire_end in *. destruct (ended (fire_wait w c (Some (time_of e)) s)); [exact Harm|].
  destruct (end_dl w c (fire_wait w c (Some (time_of e)) s)) as [[d k]|]; [|exact Harm].
  destruct (reached (Some (time_of e)) d); [cbn in E; discriminate|exact Harm].
Qed.

(* how a step can end the session: only through a session-ending deadline that was reached *)
Lemma step_end_cause : forall w c s e d k, w_wait_continues w = true -> alive s ->
  ended (step w c s e) = Some (d, k) -> end_dl w c s = Some (d, k) /\ d <= time_of e.
Proof.
  intros w c s e d k Hc Ha H. unfold step in H.
  destruct (ended (advance w c (Some (time_of e)) s)) eqn:E.
  - rewrite E in H. inversion H; subst. clear H. unfold advance in E. rewrite Ha in E.
    destruct (fire_wait_keeps w c (Some (time_of e)) s Hc) as (_ & _ & He & _ & Hend).
    unfold fire_end in E. rewrite He, Ha, Hend in E.
    destruct (end_dl w c s) as [[d' k']|]; [|congruence].
    destruct (reached (Some (time_of e)) d') eqn:R.
    + cbn in E. inversion E; subst. split; [reflexivity|]. cbn in R. apply qle_true. exact R.
    + congruence.
  - rewrite apply_event_ended in H. congruence.
Qed.

(* ---------------------------------------------------------------- idle *)
(* a session whose last control line was consumed, with the next read armed at [armed s], is
   dropped at exactly due (armed s) idle (= armed s + idle; = armed s when idle <= 0) when the peer
   stalls -- unless a data / control-write deadline comes strictly earlier *)
Theorem idle_drop_exact : forall c s i, alive s -> idle c = Some i ->
  (forall y ky, data_dl std_wiring c s = Some (y, ky) -> due (armed s) i <= y) ->
  (forall y ky, cw_dl std_wiring c s = Some (y, ky) -> due (armed s) i <= y) ->
  ended (finish std_wiring c s) = Some (due (armed s) i, CIdle).
Proof.
  intros c s i Ha Hi Hd Hc. apply stall_ends_at_deadline; auto.
  apply end_dl_idle_wins; auto. apply idle_dl_set; auto.
Qed.

(* the same, whatever the peer does on the data channel or later on the control channel:
   the first event at or after the idle deadline finds the session dropped at the deadline *)
Theorem idle_drop_exact_event : forall c s i e, alive s -> idle c = Some i ->
  (forall y ky, data_dl std_wiring c s = Some (y, ky) -> due (armed s) i <= y) ->
  (forall y ky, cw_dl std_wiring c s = Some (y, ky) -> due (armed s) i <= y) ->
  due (armed s) i <= time_of e ->
  ended (step std_wiring c s e) = Some (due (armed s) i, CIdle).
Proof.
  intros c s i e Ha Hi Hd Hc Ht. apply dropped_at_deadline; auto.
  apply end_dl_idle_wins; auto. apply idle_dl_set; auto.
Qed.

(* wherever the stall begins, a session with an idle timeout (ANY value) is released no later than
   due (armed s) idle *)
Theorem idle_release_due : forall c s i, alive s -> idle c = Some i ->
  exists d k, ended (finish std_wiring c s) = Some (d, k) /\ d <= due (armed s) i.
Proof.
  intros c s i Ha Hi.
  destruct (end_dl_le_idle std_wiring c s _ (idle_dl_set c s i Hi)) as (d & k & E & Hle).
  exists d, k. split; [|exact Hle]. apply stall_ends_at_deadline; auto.
Qed.

(* the statement of the property, for every value 0 <= i (0 included) *)
Theorem idle_release_bound : forall c s i, alive s -> idle c = Some i -> 0 <= i ->
  exists d k, ended (finish std_wiring c s) = Some (d, k) /\ d <= armed s + i.
Proof.
  intros c s i Ha Hi Hp. destruct (idle_release_due c s i Ha Hi) as (d & k & E & Hle).
  exists d, k. split; [exact E|]. pose proof (due_le (armed s) i Hp). lra.
Qed.

(* idle_timeout <= 0: gone by the instant the read was armed *)
Theorem idle_zero_release : forall c s z, alive s -> idle c = Some z -> z <= 0 ->
  exists d k, ended (finish std_wiring c s) = Some (d, k) /\ d <= armed s.
Proof.
  intros c s z Ha Hi Hz. destruct (idle_release_due c s z Ha Hi) as (d & k & E & Hle).
  exists d, k. split; [exact E|]. rewrite (due_nonpos _ _ Hz) in Hle. exact Hle.
Qed.

(* ... and never if the next line arrives before: it is handled and re-arms the timer *)
Theorem next_line_rearms : forall c s t d k,
  alive s -> (forall x kx, end_dl std_wiring c s = Some (x, kx) -> t < x) ->
  alive (step std_wiring c s (Line t d k)) /\ armed (step std_wiring c s (Line t d k)) = t + d.
Proof.
  intros c s t d k Ha Hd.
  destruct (never_before_bound std_wiring c s (Line t d k) eq_refl Ha Hd) as [A E].
  split; [exact A|]. rewrite (step_armed std_wiring c s _ eq_refl A). reflexivity.
Qed.

(* every event of the script comes strictly before the idle deadline of the latest command *)
Fixpoint within_idle (i a : Q) (evs : list event) : Prop :=
  match evs with
  | [] => True
  | e :: r => time_of e < due a i /\ within_idle i (next_armed a e) r
  end.

Theorem active_never_idle_dropped : forall c i evs s, idle c = Some i -> alive s ->
  within_idle i (armed s) evs ->
  forall d k, ended (run_events std_wiring c s evs) = Some (d, k) -> k <> CIdle.
Proof.
  intros c i evs. induction evs as [|e r IH]; intros s Hi Ha Hw d k H.
  - rewrite run_events_nil in H. rewrite Ha in H. discriminate.
  - rewrite run_events_cons in H. destruct Hw as [Ht Hw].
    destruct (ended (step std_wiring c s e)) as [[d' k']|] eqn:E.
    + rewrite (run_events_ended _ _ r _ _ E) in H. rewrite E in H. inversion H; subst.
      destruct (step_end_cause std_wiring c s e d k eq_refl Ha E) as [Hd Hle].
      intro Hk. subst k. apply end_dl_cause_idle in Hd.
      rewrite (idle_dl_set c s i Hi) in Hd. inversion Hd; subst. lra.
    + refine (IH (step std_wiring c s e) Hi E _ d k H).
      rewrite (step_armed std_wiring c s e eq_refl E). exact Hw.
Qed.

(* data-channel activity never re-arms the idle timer: with no further control line the session
   is gone by the idle deadline whatever happens on the data channel *)
Definition is_line (e : event) : bool := match e with Line _ _ _ => true | _ => false end.

Theorem idle_drop_during_transfer : forall c i evs s, idle c = Some i -> alive s ->
  forallb (fun e => negb (is_line e)) evs = true ->
  exists d k, ended (finish std_wiring c (run_events std_wiring c s evs)) = Some (d, k) /\
              d <= due (armed s) i /\ (k = CIdle -> d = due (armed s) i).
Proof.
  intros c i evs. induction evs as [|e r IH]; intros s Hi Ha Hn.
  - rewrite run_events_nil.
    destruct (end_dl_le_idle std_wiring c s _ (idle_dl_set c s i Hi)) as (d & k & E & Hle).
    exists d, k. split; [apply stall_ends_at_deadline; auto|]. split; [exact Hle|].
    intro Hk. subst k. apply end_dl_cause_idle in E. rewrite (idle_dl_set c s i Hi) in E.
    inversion E. reflexivity.
  - cbn in Hn. apply andb_true_iff in Hn. destruct Hn as [Hl Hn]. rewrite run_events_cons.
    destruct (ended (step std_wiring c s e)) as [[d k]|] eqn:E.
    + rewrite (run_events_ended _ _ r _ _ E). unfold finish. rewrite (advance_ended _ _ _ _ _ E), E.
      destruct (step_end_cause std_wiring c s e d k eq_refl Ha E) as [Hd Hle].
      exists d, k. split; [reflexivity|].
      destruct (end_dl_lower _ _ _ _ _ Hd) as (L1 & _ & _).
      specialize (L1 _ _ (idle_dl_set c s i Hi)). split; [exact L1|].
      intro Hk. subst k. apply end_dl_cause_idle in Hd. rewrite (idle_dl_set c s i Hi) in Hd.
      inversion Hd. reflexivity.
    + destruct (IH (step std_wiring c s e) Hi E Hn) as (d & k & H1 & H2 & H3).
      assert (A : armed (step std_wiring c s e) = armed s).
      { rewrite (step_armed std_wiring c s e eq_refl E). destruct e; try reflexivity. discriminate. }
      rewrite A in H2, H3. exists d, k. auto.
Qed.

(* ---------------------------------------------------------------- data-connection wait -> 425 *)
Lemma wait_dl_set : forall c s dr cmd x, xf s = XWait dr cmd -> wait_future c = Some x ->
  wait_dl std_wiring c s = Some (due cmd x).
Proof. intros c s dr cmd x Hx H. unfold wait_dl. rewrite Hx. cbn. rewrite H. reflexivity. Qed.

Lemma fire_wait_fires : forall w c lim s dr cmd wd, w_wait_continues w = true ->
  xf s = XWait dr cmd -> wait_dl w c s = Some wd -> reached lim wd = true ->
  (forall d k, end_dl w c s = Some (d, k) -> wd < d) ->
  fire_wait w c lim s = reply_425 s wd.
Proof.
  intros w c lim s dr cmd wd Hc Hx Hw Hr Hd. unfold fire_wait. rewrite Hw, Hr, Hc.
  assert (B : strictly_before wd (end_dl w c s) = true).
  { unfold strictly_before. destruct (end_dl w c s) as [[d k]|]; [|reflexivity].
    apply qlt_true. exact (Hd d k eq_refl). }
  rewrite B. reflexivity.
Qed.

(* a transfer whose data connection has not arrived by command time + wait_future_timeout gets
   one 425 at exactly that instant and the session continues: the next event (for instance the
   next command line) is handled by a live session with no transfer pending *)
Theorem data_wait_425 : forall c s dr cmd x e, alive s ->
  xf s = XWait dr cmd -> wait_future c = Some x ->
  let wd := due cmd x in
  (forall d k, end_dl std_wiring c s = Some (d, k) -> wd < d /\ time_of e < d) ->
  wd <= time_of e ->
  step std_wiring c s e = apply_event (reply_425 s wd) e /\
  alive (step std_wiring c s e) /\
  r425 (step std_wiring c s e) = wd :: r425 s.
Proof.
  intros c s dr cmd x e Ha Hx Hw wd Hd Hle.
  assert (Hd2 : forall d k, end_dl std_wiring c s = Some (d, k) -> time_of e < d)
    by (intros d k H; exact (proj2 (Hd d k H))).
  destruct (never_before_bound std_wiring c s e eq_refl Ha Hd2) as [A E].
  assert (F : fire_wait std_wiring c (Some (time_of e)) s = reply_425 s wd).
  { eapply fire_wait_fires; eauto.
    - apply wait_dl_set with (dr := dr); auto.
    - cbn. apply qle_true. exact Hle.
    - intros d k H. exact (proj1 (Hd d k H)). }
  rewrite F in E. split; [exact E|]. split; [exact A|]. rewrite E, apply_event_r425. reflexivity.
Qed.

(* the same when the peer stalls for good: one 425 at the deadline; afterwards only the idle
   timer (if set) can end the session *)
Theorem data_wait_425_stall : forall c s dr cmd x, alive s ->
  xf s = XWait dr cmd -> wait_future c = Some x ->
  let wd := due cmd x in
  (forall d k, end_dl std_wiring c s = Some (d, k) -> wd < d) ->
  r425 (finish std_wiring c s) = wd :: r425 s /\ xf (finish std_wiring c s) = XNone /\
  ended (finish std_wiring c s) = end_dl std_wiring c s.
Proof.
  intros c s dr cmd x Ha Hx Hw wd Hd.
  assert (F : fire_wait std_wiring c None s = reply_425 s wd).
  { eapply fire_wait_fires; eauto. apply wait_dl_set with (dr := dr); auto. }
  unfold finish, advance. rewrite Ha, F. unfold fire_end.
  assert (He : end_dl std_wiring c (reply_425 s wd) = end_dl std_wiring c s).
  { apply end_dl_reply_425. intros d p H. congruence. }
  cbn [ended reply_425]. rewrite Ha, He.
  destruct (end_dl std_wiring c s) as [[d k]|]; cbn; auto.
Qed.

(* a data connection that arrives strictly before the deadline starts the transfer: no 425 *)
Theorem data_connect_in_time : forall c s dr cmd x t, alive s ->
  xf s = XWait dr cmd -> wait_future c = Some x -> t < due cmd x ->
  (forall d k, end_dl std_wiring c s = Some (d, k) -> t < d) ->
  step std_wiring c s (DataConnects t) = set_xf s (XMove dr t).
Proof.
  intros c s dr cmd x t Ha Hx Hw Hlt Hd.
  destruct (never_before_bound std_wiring c s (DataConnects t) eq_refl Ha Hd) as [A E].
  rewrite E. unfold fire_wait. rewrite (wait_dl_set c s dr cmd x Hx Hw). cbn [time_of reached].
  destruct (qle (due cmd x) t) eqn:Q.
  - apply qle_true in Q. lra.
  - cbn. rewrite Hx. reflexivity.
Qed.

(* no 425 is ever produced while no worker waits for a data connection *)
Theorem no_425_without_wait : forall w c lim s, (forall d t, xf s <> XWait d t) ->
  r425 (advance w c lim s) = r425 s.
Proof.
  intros w c lim s H. unfold advance. destruct (ended s) eqn:E; [reflexivity|].
  rewrite (fire_wait_not_waiting w c lim s H). unfold fire_end. rewrite E.
  destruct (end_dl w c s) as [[d k]|]; [|reflexivity]. destruct (reached lim d); reflexivity.
Qed.

(* at most one 425 per transfer command: counting over whole scripts *)
Definition is_xfer_line (e : event) : bool :=
  match e with Line _ _ (KXfer _) => true | _ => false end.

Definition waiting (s : state) : nat := match xf s with XWait _ _ => 1 | _ => 0 end.

Lemma advance_425_count : forall w c lim s,
  (List.length (r425 (advance w c lim s)) + waiting (advance w c lim s) <= List.length (r425 s) + waiting s)%nat.
Proof.
  intros w c lim s. unfold advance. destruct (ended s) eqn:E; [lia|].
  assert (F : (List.length (r425 (fire_wait w c lim s)) + waiting (fire_wait w c lim s)
               <= List.length (r425 s) + waiting s)%nat).
  { unfold fire_wait. destruct (wait_dl w c s) as [wd|] eqn:W; [|lia].
    destruct (reached lim wd && strictly_before wd (end_dl w c s)); [|lia].
    unfold wait_dl in W. destruct (xf s) eqn:X; try discriminate.
    destruct (w_wait_continues w); unfold waiting; cbn; rewrite X; lia. }
  unfold fire_end. destruct (ended (fire_wait w c lim s)); [exact F|].
  destruct (end_dl w c (fire_wait w c lim s)) as [[d k]|]; [|exact F].
  destruct (reached lim d); [|exact F]. unfold waiting in *. cbn. exact F.
Qed.

Lemma apply_event_425_count : forall s e,
  (List.length (r425 (apply_event s e)) + waiting (apply_event s e)
   <= List.length (r425 s) + waiting s + (if is_xfer_line e then 1 else 0))%nat.
Proof.
  intros s e. rewrite apply_event_r425. unfold waiting.
  destruct e as [t d k| | | | | |]; cbn; try (destruct (xf s) eqn:X; cbn; rewrite ?X; lia).
  - destruct k; destruct (xf s) eqn:X; cbn; rewrite ?X; try lia. destruct (data_ready s); cbn; lia.
  - destruct (cw s); cbn; lia.
Qed.

Theorem at_most_one_425_per_transfer : forall w c evs s,
  (List.length (r425 (finish w c (run_events w c s evs)))
   <= List.length (r425 s) + waiting s + List.length (filter is_xfer_line evs))%nat.
Proof.
  intros w c evs. induction evs as [|e r IH]; intros s.
  - rewrite run_events_nil. cbn [filter List.length]. unfold finish.
    pose proof (advance_425_count w c None s). lia.
  - rewrite run_events_cons.
    specialize (IH (step w c s e)).
    assert (S1 : (List.length (r425 (step w c s e)) + waiting (step w c s e)
                  <= List.length (r425 s) + waiting s + (if is_xfer_line e then 1 else 0))%nat).
    { unfold step. pose proof (advance_425_count w c (Some (time_of e)) s) as A.
      destruct (ended (advance w c (Some (time_of e)) s)); [destruct (is_xfer_line e); lia|].
      pose proof (apply_event_425_count (advance w c (Some (time_of e)) s) e). lia. }
    cbn [filter]. destruct (is_xfer_line e); cbn [List.length] in *; lia.
Qed.

(* ---------------------------------------------------------------- data stall *)
(* a data stream whose pending read/write started at p (= last progress) is abandoned at exactly
   due p socket_timeout (p + socket_timeout; p itself when the timeout is <= 0), and -- as the code is
   written -- that ends the whole session *)
Theorem data_stall_bound : forall c s dr p x, alive s ->
  xf s = XMove dr p -> socket c = Some x ->
  (forall y ky, idle_dl std_wiring c s = Some (y, ky) -> due p x < y) ->
  (forall y ky, cw_dl std_wiring c s = Some (y, ky) -> due p x <= y) ->
  ended (finish std_wiring c s) = Some (due p x, CData).
Proof.
  intros c s dr p x Ha Hx Hs Hi Hc. apply stall_ends_at_deadline; auto.
  apply end_dl_data_wins; auto. apply data_dl_set with (d := dr); auto.
Qed.

(* released no later than that whatever else is pending *)
Theorem data_stall_release_bound : forall c s dr p x, alive s ->
  xf s = XMove dr p -> socket c = Some x ->
  exists d k, ended (finish std_wiring c s) = Some (d, k) /\ d <= due p x.
Proof.
  intros c s dr p x Ha Hx Hs.
  destruct (end_dl_le_data std_wiring c s _ (data_dl_set c s dr p x Hx Hs)) as (d & k & E & Hle).
  exists d, k. split; [|exact Hle]. apply stall_ends_at_deadline; auto.
Qed.

(* progress before the deadline re-arms the data timer at the instant the NEXT operation starts: the instant
   of the progress plus the stream's throttle wait d, however long that wait is *)
Theorem data_progress_rearms : forall c s dr p t d, alive s -> xf s = XMove dr p ->
  (forall x k, end_dl std_wiring c s = Some (x, k) -> t < x) ->
  step std_wiring c s (DataProgress t d) = set_xf s (XMove dr (t + d)).
Proof.
  intros c s dr p t d Ha Hx Hd.
  destruct (never_before_bound std_wiring c s (DataProgress t d) eq_refl Ha Hd) as [A E].
  rewrite E, fire_wait_not_waiting by (intros; congruence). cbn. rewrite Hx. reflexivity.
Qed.

(* ... so the throttle wait is not counted against socket_timeout: after progress at t with a wait d the
   data deadline is due (t + d) socket_timeout, and an event before it finds the session alive *)
Theorem data_pause_not_counted : forall c s dr p t d x e, alive s -> xf s = XMove dr p ->
  socket c = Some x ->
  (forall y k, end_dl std_wiring c s = Some (y, k) -> t < y) ->
  let s' := step std_wiring c s (DataProgress t d) in
  data_dl std_wiring c s' = Some (due (t + d) x, CData) /\
  ((forall y k, idle_dl std_wiring c s' = Some (y, k) -> time_of e < y) ->
   (forall y k, cw_dl std_wiring c s' = Some (y, k) -> time_of e < y) ->
   time_of e < due (t + d) x -> alive (step std_wiring c s' e)).
Proof.
  intros c s dr p t d x e Ha Hx Hs Hd s'.
  assert (E : s' = set_xf s (XMove dr (t + d))) by (apply data_progress_rearms with (p := p); auto).
  assert (D : data_dl std_wiring c s' = Some (due (t + d) x, CData)).
  { apply data_dl_set with (d := dr); auto. rewrite E. reflexivity. }
  split; [exact D|]. intros Hi Hc Ht.
  apply (never_before_bound std_wiring c s' e eq_refl).
  - unfold alive. rewrite E. exact Ha.
  - intros y k Hy. destruct (end_dl_sources _ _ _ _ _ Hy) as [S|[S|S]].
    + exact (Hi y k S).
    + rewrite D in S. injection S as Hy' _. rewrite <- Hy'. exact Ht.
    + exact (Hc y k S).
Qed.

(* a blocked control-channel write (peer does not read replies) is bounded by socket_timeout *)
Theorem ctrl_write_stall_bound : forall c s t x, alive s ->
  cw s = Some t -> socket c = Some x ->
  exists d k, ended (finish std_wiring c s) = Some (d, k) /\ d <= due t x.
Proof.
  intros c s t x Ha Hc Hs.
  destruct (end_dl_le_cw std_wiring c s _ (cw_dl_set c s t x Hc Hs)) as (d & k & E & Hle).
  exists d, k. split; [|exact Hle]. apply stall_ends_at_deadline; auto.
Qed.

(* ---------------------------------------------------------------- unset means unbounded *)
Theorem unset_idle_never_dropped : forall c s, alive s -> idle c = None ->
  (forall d p, xf s <> XMove d p) -> cw s = None ->
  alive (finish std_wiring c s).
Proof.
  intros c s Ha Hi Hx Hc. apply stall_never_released; auto.
  apply end_dl_none; [apply idle_dl_unset; auto|apply data_dl_not_moving; auto|apply cw_dl_none; auto].
Qed.

Theorem unset_wait_never_425 : forall c s, wait_future c = None ->
  r425 (finish std_wiring c s) = r425 s /\
  (alive (finish std_wiring c s) -> xf (finish std_wiring c s) = xf s).
Proof.
  intros c s Hw. unfold finish, advance. destruct (ended s) eqn:E; [split; reflexivity|].
  assert (W : wait_dl std_wiring c s = None).
  { unfold wait_dl. destruct (xf s); try reflexivity. cbn. rewrite Hw. reflexivity. }
  rewrite (fire_wait_no_deadline _ _ _ _ W). unfold fire_end. rewrite E.
  destruct (end_dl std_wiring c s) as [[d k]|]; cbn; split; auto.
Qed.

Theorem unset_socket_never_abandoned : forall c s, alive s -> socket c = None ->
  idle c = None -> alive (finish std_wiring c s).
Proof.
  intros c s Ha Hs Hi. apply stall_never_released; auto.
  apply end_dl_none; [apply idle_dl_unset; auto|apply data_dl_unset; auto|apply cw_dl_unset; auto].
Qed.

(* ---------------------------------------------------------------- whole sessions: the greeting *)
Lemma finish_ended : forall w c s x, ended s = Some x -> finish w c s = s.
Proof. intros w c s x H. unfold finish. exact (advance_ended w c None s x H). Qed.

Lemma run_dead_start : forall w c t0 evs x, ended (start w c t0) = Some x ->
  ended (run w c t0 evs) = Some x.
Proof.
  intros w c t0 evs x H. unfold run.
  rewrite (run_events_ended w c evs _ x H), (finish_ended w c _ x H). exact H.
Qed.

Lemma start_unfold : forall w c t0,
  start w c t0 = step w c (step w c (init t0) (CtrlBlocks t0)) (CtrlUnblocks t0).
Proof. reflexivity. Qed.

(* the greeting write entered at t0, when the session survives it *)
Lemma first_step_alive : forall w c t0, ended (step w c (init t0) (CtrlBlocks t0)) = None ->
  step w c (init t0) (CtrlBlocks t0)
  = {| armed := t0; xf := XNone; data_ready := false; cw := Some t0; r425 := []; ended := None |}.
Proof.
  intros w c t0 H. unfold step in *.
  destruct (ended (advance w c (Some (time_of (CtrlBlocks t0))) (init t0))) eqn:A; [rewrite A in H; discriminate|].
  clear H. unfold advance in *. cbn [ended init] in *.
  rewrite fire_wait_not_waiting in * by (cbn; discriminate).
  unfold fire_end in *. cbn [ended init] in *.
  destruct (end_dl w c (init t0)) as [[d k]|]; [destruct (reached (Some (time_of (CtrlBlocks t0))) d)|];
    try (cbn in A; discriminate); reflexivity.
Qed.

(* ---------------------------------------------------------------- zero is zero seconds *)
(* idle_timeout <= 0: the very first control read is given up at the session's start, whatever the
   peer does afterwards *)
Theorem idle_zero_drops_at_once : forall c z t0 evs, idle c = Some z -> z <= 0 ->
  ended (run std_wiring c t0 evs) = Some (t0, CIdle).
Proof.
  intros c z t0 evs Hi Hz. apply run_dead_start. rewrite start_unfold.
  assert (E : ended (step std_wiring c (init t0) (CtrlBlocks t0)) = Some (t0, CIdle)).
  { apply dropped_at_deadline; try reflexivity; [|cbn; lra].
    apply end_dl_idle_wins.
    - rewrite (idle_dl_set c (init t0) z Hi). cbn [armed init]. rewrite (due_nonpos _ _ Hz). reflexivity.
    - intros y ky H. discriminate.
    - intros y ky H. discriminate. }
  rewrite (step_ended _ _ _ _ _ E). exact E.
Qed.

(* socket_timeout <= 0: the greeting (the first reply write, entered at t0) is given up at once:
   the session is over at its start *)
Theorem zero_socket_ends_at_greeting : forall c z t0 evs, socket c = Some z -> z <= 0 ->
  exists d k, ended (run std_wiring c t0 evs) = Some (d, k) /\ d == t0.
Proof.
  intros c z t0 evs Hs Hz.
  destruct (ended (step std_wiring c (init t0) (CtrlBlocks t0))) as [[d k]|] eqn:E1.
  - (* the idle timer fired at t0 already *)
    exists d, k. split.
    + apply run_dead_start. rewrite start_unfold, (step_ended _ _ _ _ _ E1). exact E1.
    + destruct (step_end_cause std_wiring c (init t0) (CtrlBlocks t0) d k eq_refl eq_refl E1) as [Hd Hle].
      cbn [time_of] in Hle.
      destruct (end_dl_sources _ _ _ _ _ Hd) as [S|[S|S]]; try discriminate.
      unfold idle_dl in S. destruct (eval c (w_ctrl_read std_wiring)) as [i|]; [|discriminate].
      cbn in S. inversion S; subst. change (due t0 i == t0).
      pose proof (due_ge t0 i). apply Qle_antisym; assumption.
  - pose proof (first_step_alive std_wiring c t0 E1) as F1.
    set (s1 := step std_wiring c (init t0) (CtrlBlocks t0)) in *.
    assert (C1 : cw s1 = Some t0) by (rewrite F1; reflexivity).
    assert (A1 : armed s1 = t0) by (rewrite F1; reflexivity).
    assert (X1 : xf s1 = XNone) by (rewrite F1; reflexivity).
    destruct (end_dl_le_cw std_wiring c s1 _ (cw_dl_set c s1 t0 z C1 Hs)) as (d & k & Ed & Hle).
    rewrite (due_nonpos _ _ Hz) in Hle.
    assert (E2 : ended (step std_wiring c s1 (CtrlUnblocks t0)) = Some (d, k))
      by (apply dropped_at_deadline; auto).
    exists d, k. split; [apply run_dead_start; rewrite start_unfold; exact E2|].
    apply Qle_antisym; [exact Hle|].
    destruct (end_dl_sources _ _ _ _ _ Ed) as [S|[S|S]].
    + unfold idle_dl in S. rewrite A1 in S. destruct (eval c (w_ctrl_read std_wiring)) as [i|]; [|discriminate].
      cbn in S. injection S as Hd' _. rewrite <- Hd'. exact (due_ge t0 i).
    + unfold data_dl in S. rewrite X1 in S. discriminate.
    + rewrite (cw_dl_set c s1 t0 z C1 Hs) in S. injection S as Hd' _. rewrite <- Hd'. exact (due_ge t0 z).
Qed.

(* state level: a reply write pending since t under socket_timeout <= 0 ends the session by t ... *)
Theorem zero_socket_ctrl_immediate : forall c s t z, alive s ->
  cw s = Some t -> socket c = Some z -> z <= 0 ->
  exists d k, ended (finish std_wiring c s) = Some (d, k) /\ d <= t.
Proof.
  intros c s t z Ha Hc Hs Hz. destruct (ctrl_write_stall_bound c s t z Ha Hc Hs) as (d & k & E & Hle).
  exists d, k. split; [exact E|]. rewrite (due_nonpos _ _ Hz) in Hle. exact Hle.
Qed.

(* ... and every data-stream read/write is given up the instant it starts *)
Theorem zero_socket_data_immediate : forall c s dr p z, alive s ->
  xf s = XMove dr p -> socket c = Some z -> z <= 0 ->
  (forall y ky, idle_dl std_wiring c s = Some (y, ky) -> p < y) ->
  (forall y ky, cw_dl std_wiring c s = Some (y, ky) -> p <= y) ->
  ended (finish std_wiring c s) = Some (p, CData).
Proof.
  intros c s dr p z Ha Hx Hs Hz Hi Hc.
  pose proof (data_stall_bound c s dr p z Ha Hx Hs) as H. rewrite (due_nonpos _ _ Hz) in H.
  exact (H Hi Hc).
Qed.

(* wait_future_timeout <= 0: 425 at the instant of the command unless the data connection is already there *)
Theorem zero_wait_immediate_425 : forall c s dr cmd z, alive s ->
  xf s = XWait dr cmd -> wait_future c = Some z -> z <= 0 ->
  (forall d k, end_dl std_wiring c s = Some (d, k) -> cmd < d) ->
  r425 (finish std_wiring c s) = cmd :: r425 s.
Proof.
  intros c s dr cmd z Ha Hx Hw Hz Hd.
  pose proof (data_wait_425_stall c s dr cmd z Ha Hx Hw) as H. cbn zeta in H.
  rewrite (due_nonpos _ _ Hz) in H. exact (proj1 (H Hd)).
Qed.

(* ---------------------------------------------------------------- the shape before the repair *)
(* `X or timeout`: what gen_wiring computes when the source goes back to it.  It differs from
   std_wiring exactly on the value 0 (so the obligation of Props/C16.v can tell the two apart), and
   under it a silent session with idle_timeout = 0 is never dropped *)
Definition or_wiring : wiring :=
  {| w_ctrl_read := EOr EIdle ENone; w_ctrl_write := EOr ESocket ENone;
     w_data_read := EOr ENone ESocket; w_data_write := EOr ENone ESocket;
     w_wait := EWaitFuture; w_wait_continues := true |}.

Theorem or_wiring_zero_is_unset : forall c z, idle c = Some z -> z == 0 ->
  eval c (w_ctrl_read or_wiring) = None /\ eval c (w_ctrl_read std_wiring) = Some z.
Proof.
  intros c z Hi Hz. split.
  - cbn. rewrite Hi, (truthy_zero z Hz). reflexivity.
  - rewrite ctrl_read_is_idle. exact Hi.
Qed.

(* ---------------------------------------------------------------- the reader task fails *)
(* a command line that cannot be decoded / the peer closing its control connection makes parse_command raise:
   the session ends at that very instant (cause CError), with no timeout involved -- unless a deadline ended it
   before, at exactly that deadline; either way it is gone by t and nothing is left to hold *)
Theorem abort_ends_session : forall c s t, alive s ->
  (forall d k, end_dl std_wiring c s = Some (d, k) -> t < d) ->
  ended (abort_at std_wiring c s t) = Some (t, CError).
Proof.
  intros c s t Ha Hd. unfold abort_at.
  destruct (never_before_bound std_wiring c s (Tick t) eq_refl Ha Hd) as [A _].
  unfold alive in A. rewrite A. reflexivity.
Qed.

Theorem abort_after_deadline : forall c s t d k, alive s ->
  end_dl std_wiring c s = Some (d, k) -> d <= t ->
  ended (abort_at std_wiring c s t) = Some (d, k).
Proof.
  intros c s t d k Ha Hd Hle. unfold abort_at.
  rewrite (dropped_at_deadline std_wiring c s (Tick t) d k eq_refl Ha Hd Hle).
  apply (dropped_at_deadline std_wiring c s (Tick t) d k eq_refl Ha Hd Hle).
Qed.

Theorem abort_released_by : forall c s t, alive s ->
  exists d k, ended (abort_at std_wiring c s t) = Some (d, k) /\ d <= t.
Proof.
  intros c s t Ha. unfold abort_at.
  destruct (ended (step std_wiring c s (Tick t))) as [[d k]|] eqn:E.
  - exists d, k. split; [exact E|].
    exact (proj2 (step_end_cause std_wiring c s (Tick t) d k eq_refl Ha E)).
  - exists t, CError. split; [reflexivity|]. lra.
Qed.
