(* C17: removals of DIFFERENT entries of the SAME directory (siblings) commute in the tree model.
   This is the case that lies outside the hypothesis of the isolation theorem (the footprint of DELE / RMD
   contains the parent directory, which is the same for both sessions), stated at the level of the tree
   operations of Model/Session.v: unlink / rmdir of par/x and par/y with x <> y succeed in either order,
   give the same tree, and neither changes what the other finds at its own entry. *)
From Coq Require Import ZArith List Bool String Lia.
From Verif Require Import Lib.Sx Lib.PyStr Lib.Facts Model.Session Model.Multi Proofs.PyStrFacts Proofs.TreeFrame.
Import ListNotations.
Open Scope list_scope.

Lemma assoc_remove_other {A} x y (l : list (text * A)) :
  text_eqb y x = false -> assoc_t y (remove_t x l) = assoc_t y l.
Proof.
  intro H. induction l as [|[k v] r IH]; cbn; [reflexivity|].
  destruct (text_eqb x k) eqn:Exk.
  - apply text_eqb_eq in Exk. subst k. rewrite H. reflexivity.
  - cbn. destruct (text_eqb y k); [reflexivity|exact IH].
Qed.

Lemma remove_comm {A} x y (l : list (text * A)) :
  text_eqb x y = false -> remove_t x (remove_t y l) = remove_t y (remove_t x l).
Proof.
  intro H. induction l as [|[k v] r IH]; cbn; [reflexivity|].
  destruct (text_eqb y k) eqn:Ey; destruct (text_eqb x k) eqn:Ex; cbn; rewrite ?Ey, ?Ex; try reflexivity.
  - apply text_eqb_eq in Ey. apply text_eqb_eq in Ex. subst. rewrite text_eqb_refl in H. discriminate.
  - rewrite IH. reflexivity.
Qed.

(* remove the entry x of a directory when it satisfies ok *)
Definition rm_if (ok : node -> bool) (x : text) (d : node) : option node :=
  match d with
  | NDir ch => match assoc_t x ch with
               | Some c => if ok c then Some (NDir (remove_t x ch)) else None
               | None => None
               end
  | NFile _ => None
  end.

Definition is_filenode (c : node) : bool := match c with NFile _ => true | NDir _ => false end.
Definition is_emptydir (c : node) : bool := match c with NDir [] => true | _ => false end.

Lemma modify_ext p f g n : (forall d, f d = g d) -> modify p f n = modify p g n.
Proof.
  intro E. revert n. induction p as [|x r IH]; intro n; cbn; [apply E|].
  destruct n as [c|ch]; [reflexivity|]. destruct (assoc_t x ch) as [c|]; [|reflexivity].
  rewrite IH. reflexivity.
Qed.

Lemma modify_at par f n sub : lookup par n = Some sub -> modify par f n = lift par n (f sub).
Proof.
  intro H. rewrite <- (app_nil_r par) at 1. rewrite (modify_app par [] f n sub H). reflexivity.
Qed.

Lemma unlink_rm par x n : unlink (par ++ [x]) n = modify par (rm_if is_filenode x) n.
Proof.
  unfold unlink. rewrite split_path_snoc. apply modify_ext. intro d. destruct d as [c|ch]; cbn; [reflexivity|].
  destruct (assoc_t x ch) as [[c|cc]|]; reflexivity.
Qed.

Lemma rmdir_rm par x n : rmdir (par ++ [x]) n = modify par (rm_if is_emptydir x) n.
Proof.
  unfold rmdir. rewrite split_path_snoc. apply modify_ext. intro d. destruct d as [c|ch]; cbn; [reflexivity|].
  destruct (assoc_t x ch) as [[c|[|e cc]]|]; reflexivity.
Qed.

Lemma rm_if_commute okx oky par x y n ch n1 n2 :
  text_eqb x y = false -> lookup par n = Some (NDir ch) ->
  modify par (rm_if okx x) n = Some n1 -> modify par (rm_if oky y) n = Some n2 ->
  exists n', modify par (rm_if oky y) n1 = Some n' /\ modify par (rm_if okx x) n2 = Some n' /\
             lookup (par ++ [y]) n1 = lookup (par ++ [y]) n /\ lookup (par ++ [x]) n2 = lookup (par ++ [x]) n.
Proof.
  intros Hxy L H1 H2.
  assert (Hyx : text_eqb y x = false) by (rewrite text_eqb_sym; exact Hxy).
  rewrite (modify_at par _ n _ L) in H1. rewrite (modify_at par _ n _ L) in H2. cbn in H1, H2.
  destruct (assoc_t x ch) as [cx|] eqn:Ex; [|discriminate]. destruct (okx cx) eqn:Ox; [|discriminate].
  destruct (assoc_t y ch) as [cy|] eqn:Ey; [|discriminate]. destruct (oky cy) eqn:Oy; [|discriminate].
  cbn in H1, H2. inversion H1 as [E1]. inversion H2 as [E2]. clear H1 H2.
  pose proof (lookup_graft_same par (NDir (remove_t x ch)) n _ L) as L1.
  pose proof (lookup_graft_same par (NDir (remove_t y ch)) n _ L) as L2.
  exists (graft par (NDir (remove_t y (remove_t x ch))) n).
  split; [|split; [|split]].
  - rewrite (modify_at par _ _ _ L1). cbn. rewrite (assoc_remove_other x y ch Hyx), Ey, Oy. cbn.
    rewrite graft_graft. reflexivity.
  - rewrite (modify_at par _ _ _ L2). cbn. rewrite (assoc_remove_other y x ch Hxy), Ex, Ox. cbn.
    rewrite graft_graft, (remove_comm x y ch Hxy). reflexivity.
  - rewrite (lookup_app par [y] _ _ L1), (lookup_app par [y] _ _ L). cbn.
    rewrite (assoc_remove_other x y ch Hyx). reflexivity.
  - rewrite (lookup_app par [x] _ _ L2), (lookup_app par [x] _ _ L). cbn.
    rewrite (assoc_remove_other y x ch Hxy). reflexivity.
Qed.

(* unlink (file) or rmdir (empty directory) *)
Definition rm (file : bool) : list text -> node -> option node := if file then unlink else rmdir.

Lemma rm_is file par x n :
  rm file (par ++ [x]) n = modify par (rm_if (if file then is_filenode else is_emptydir) x) n.
Proof. destruct file; [apply unlink_rm|apply rmdir_rm]. Qed.

Theorem sibling_removals_commute fx fy par x y n ch n1 n2 :
  text_eqb x y = false -> lookup par n = Some (NDir ch) ->
  rm fx (par ++ [x]) n = Some n1 -> rm fy (par ++ [y]) n = Some n2 ->
  exists n', rm fy (par ++ [y]) n1 = Some n' /\ rm fx (par ++ [x]) n2 = Some n' /\
             lookup (par ++ [y]) n1 = lookup (par ++ [y]) n /\ lookup (par ++ [x]) n2 = lookup (par ++ [x]) n.
Proof.
  intros Hxy L. rewrite !rm_is. apply (rm_if_commute _ _ par x y n ch n1 n2 Hxy L).
Qed.
