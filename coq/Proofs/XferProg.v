(* Proofs about Model/XferProg.v (C01): the workers / client loops of Model/TransferBytes.v are
   the denotations of the translated programs; exactness for the programs of today's source. *)
From Coq Require Import ZArith QArith Bool Arith String List Lia.
From Verif Require Import Lib.Sx Lib.Facts Lib.XferFacts Model.Bytes Model.TransferBytes Model.XferProg
     Model.TransferTimed Proofs.Bytes Proofs.TransferBytes Proofs.TransferTimed Proofs.TransferBytesGen.
From Verif Require Gen.Xfer.
Import ListNotations.
Open Scope string_scope.
Open Scope list_scope.
Open Scope nat_scope.

Definition expected_stor_prog : list xstmt :=
  [XIfOffset [XSeek "FILE"]; XForBlocks "STREAM" "conn.block_size" [XWrite "FILE"]].
Definition expected_retr_prog : list xstmt :=
  [XIfOffset [XSeek "FILE"]; XForBlocks "FILE" "conn.block_size" [XWrite "STREAM"]].
Definition expected_upload_prog : string * list xstmt :=
  ("rb", [XForBlocks "FILE" "block_size" [XWrite "STREAM"]]).
Definition expected_download_prog : string * list xstmt :=
  ("wb", [XForBlocks "STREAM" "block_size" [XWrite "FILE"]]).

(* the two loop bodies that occur *)
Lemma xloop_write_file : forall env reads st,
  xloop env [XWrite "FILE"] reads st = Some (mkXS (stor_loop (xs_file st) reads) (xs_sent st)).
Proof.
  intros env. induction reads as [|d r IH]; intros [h s]; [reflexivity|].
  destruct d as [|x d]; [reflexivity|].
  cbn [xloop xsimples xsimple_step String.eqb Ascii.eqb Bool.eqb xs_file xs_sent stor_loop].
  rewrite IH. reflexivity.
Qed.

Lemma xloop_write_stream : forall env reads st,
  xloop env [XWrite "STREAM"] reads st = Some (mkXS (xs_file st) (send_loop (xs_sent st) reads)).
Proof.
  intros env. induction reads as [|d r IH]; intros [h s]; [reflexivity|].
  destruct d as [|x d]; [reflexivity|].
  cbn [xloop xsimples xsimple_step String.eqb Ascii.eqb Bool.eqb xs_file xs_sent send_loop].
  rewrite IH. reflexivity.
Qed.

(* ---- the model's workers ARE the denotations of the expected programs ---- *)
Theorem prog_stor_is_model : forall table vm off old reads,
  prog_stor expected_stor_prog table vm off old reads = stor_worker table vm off old reads.
Proof.
  intros table vm off old reads. unfold prog_stor, stor_worker.
  destruct (select_mode table vm (negb (off =? 0))) as [m|]; [|reflexivity].
  unfold expected_stor_prog.
  cbn [xprog xstmt_step xe_off xe_count xe_stream_reads String.eqb Ascii.eqb Bool.eqb negb].
  destruct (off =? 0) eqn:Hoff.
  - cbn [negb]. rewrite xloop_write_file. reflexivity.
  - cbn [negb xsimples xsimple_step String.eqb Ascii.eqb Bool.eqb xe_off xs_file xs_sent].
    rewrite xloop_write_file. reflexivity.
Qed.

Theorem prog_retr_is_model : forall table off content block foracle,
  prog_retr expected_retr_prog table off content block foracle = retr_worker table off content block foracle.
Proof.
  intros table off content block foracle. unfold prog_retr, retr_worker.
  destruct (select_mode table RB (negb (off =? 0))) as [m|]; [|reflexivity].
  unfold expected_retr_prog.
  cbn [xprog xstmt_step xe_off xe_count xe_block xe_foracle String.eqb Ascii.eqb Bool.eqb negb existsb orb].
  destruct (off =? 0) eqn:Hoff.
  - cbn [negb]. rewrite xloop_write_stream. reflexivity.
  - cbn [negb xsimples xsimple_step String.eqb Ascii.eqb Bool.eqb xe_off xs_file xs_sent].
    rewrite xloop_write_stream. reflexivity.
Qed.

Theorem prog_upload_is_model : forall local cblock coracle,
  prog_upload expected_upload_prog local cblock coracle = Some (client_upload_wire local cblock coracle).
Proof.
  intros. unfold prog_upload, expected_upload_prog, client_upload_wire.
  cbn [fst snd mode_of_name String.eqb Ascii.eqb Bool.eqb].
  cbn [xprog xstmt_step xe_count xe_block xe_foracle String.eqb Ascii.eqb Bool.eqb negb existsb orb].
  rewrite xloop_write_stream. reflexivity.
Qed.

Theorem prog_download_is_model : forall prev reads,
  prog_download expected_download_prog prev reads = Some (client_download_file reads).
Proof.
  intros. unfold prog_download, expected_download_prog, client_download_file.
  cbn [fst snd mode_of_name String.eqb Ascii.eqb Bool.eqb].
  cbn [xprog xstmt_step xe_count xe_stream_reads String.eqb Ascii.eqb Bool.eqb negb].
  rewrite xloop_write_file. reflexivity.
Qed.

(* ---- today's source: the translated programs are the expected ones (closed obligations) ---- *)
Lemma gen_stor_prog : xf_stor_prog Gen.Xfer.facts = expected_stor_prog.
Proof. vm_compute. reflexivity. Qed.
Lemma gen_retr_prog : xf_retr_prog Gen.Xfer.facts = expected_retr_prog.
Proof. vm_compute. reflexivity. Qed.
Lemma gen_upload_prog : xf_upload_prog Gen.Xfer.facts = expected_upload_prog.
Proof. vm_compute. reflexivity. Qed.
Lemma gen_download_prog : xf_download_prog Gen.Xfer.facts = expected_download_prog.
Proof. vm_compute. reflexivity. Qed.

Theorem gen_model_is_program_denotation :
  (forall table vm off old reads,
     prog_stor (xf_stor_prog Gen.Xfer.facts) table vm off old reads = stor_worker table vm off old reads)
  /\ (forall table off content block foracle,
     prog_retr (xf_retr_prog Gen.Xfer.facts) table off content block foracle
     = retr_worker table off content block foracle)
  /\ (forall local cblock coracle,
     prog_upload (xf_upload_prog Gen.Xfer.facts) local cblock coracle
     = Some (client_upload_wire local cblock coracle))
  /\ (forall prev reads,
     prog_download (xf_download_prog Gen.Xfer.facts) prev reads = Some (client_download_file reads)).
Proof.
  rewrite gen_stor_prog, gen_retr_prog, gen_upload_prog, gen_download_prog.
  exact (conj prog_stor_is_model (conj prog_retr_is_model (conj prog_upload_is_model prog_download_is_model))).
Qed.

Lemma gen_stor_table_ok : stor_table_ok stor_modes.
Proof. apply check_stor_table_sound. vm_compute. reflexivity. Qed.
Lemma gen_retr_table_ok : retr_table_ok retr_modes.
Proof. apply check_retr_table_sound. vm_compute. reflexivity. Qed.

Lemma gen_verb_store_mode : forall verb vm, verb_mode Gen.Xfer.facts verb = Some vm -> store_mode vm.
Proof. intros verb vm H. exact (proj1 (verb_mode_store _ _ _ gen_xfer_facts_ok H)). Qed.

(* ---- exactness of the translated programs ---- *)
Theorem gen_prog_stor_exact : forall verb vm off old block payload reads,
  verb_mode Gen.Xfer.facts verb = Some vm ->
  conforming block payload reads ->
  prog_stor (xf_stor_prog Gen.Xfer.facts) stor_modes vm off old reads = Some (spec_store vm off payload old).
Proof.
  intros verb vm off old block payload reads Hv Hc.
  rewrite gen_stor_prog, prog_stor_is_model.
  exact (stor_worker_exact _ _ _ _ _ _ _ gen_stor_table_ok (gen_verb_store_mode _ _ Hv) Hc).
Qed.

Theorem gen_prog_retr_exact : forall off content block foracle,
  1 <= block ->
  prog_retr (xf_retr_prog Gen.Xfer.facts) retr_modes off content block foracle = Some (spec_retr off content).
Proof.
  intros off content block foracle Hb.
  rewrite gen_retr_prog, prog_retr_is_model.
  exact (retr_worker_exact _ _ _ _ _ gen_retr_table_ok Hb).
Qed.

Theorem gen_prog_upload_exact : forall local cblock coracle,
  1 <= cblock ->
  prog_upload (xf_upload_prog Gen.Xfer.facts) local cblock coracle = Some local.
Proof.
  intros local cblock coracle Hcb. rewrite gen_upload_prog, prog_upload_is_model. f_equal.
  unfold client_upload_wire.
  pose proof (file_trace_conforming cblock coracle (h_open RB local) Hcb) as Hc.
  change (skipn (h_pos (h_open RB local)) (h_content (h_open RB local))) with local in Hc.
  now rewrite (send_loop_conforming _ _ _ [] Hc).
Qed.

Theorem gen_prog_download_exact : forall prev cblock s reads,
  conforming cblock s reads ->
  prog_download (xf_download_prog Gen.Xfer.facts) prev reads = Some s.
Proof.
  intros prev cblock s reads Hc. rewrite gen_download_prog, prog_download_is_model. f_equal.
  unfold client_download_file. rewrite (stor_loop_conforming _ _ _ _ Hc).
  cbn [h_open h_pos h_content]. apply write_at_0_nil.
Qed.

(* ---- whole paths: program -> timed network -> program, every timing, every latency ---- *)

(* upload(): the client's program puts `wire` on the connection; it crosses the network cut and
   delayed in any way; the server's program stores it under any timing of its own *)
Theorem gen_upload_path_exact : forall T (stm : timing T) verb vm off old local cblock coracle wire
    net block rs sst st0,
  verb_mode Gen.Xfer.facts verb = Some vm ->
  1 <= cblock -> 1 <= block ->
  prog_upload (xf_upload_prog Gen.Xfer.facts) local cblock coracle = Some wire ->
  net_bytes net = wire ->
  prog_stor (xf_stor_prog Gen.Xfer.facts) stor_modes vm off old
            (map snd (timed_trace stm block rs sst st0 net))
  = Some (spec_store vm off local old).
Proof.
  intros T stm verb vm off old local cblock coracle wire net block rs sst st0 Hv Hcb Hb Hu Hn.
  rewrite (gen_prog_upload_exact local cblock coracle Hcb) in Hu. injection Hu as <-.
  apply gen_prog_stor_exact with (verb := verb) (block := block); [exact Hv|].
  rewrite <- Hn. apply timed_trace_conforming. exact Hb.
Qed.

(* download(): the server's program queues `wire`; any cut, any delays; the client's program
   writes the destination under any timing of its own *)
Theorem gen_download_path_exact : forall C (ctm : timing C) off content block foracle wire
    net cblock crs cst ct0 prev,
  1 <= block -> 1 <= cblock ->
  prog_retr (xf_retr_prog Gen.Xfer.facts) retr_modes off content block foracle = Some wire ->
  net_bytes net = wire ->
  prog_download (xf_download_prog Gen.Xfer.facts) prev
                (map snd (timed_trace ctm cblock crs cst ct0 net))
  = Some (spec_retr off content).
Proof.
  intros C ctm off content block foracle wire net cblock crs cst ct0 prev Hb Hcb Hr Hn.
  rewrite (gen_prog_retr_exact off content block foracle Hb) in Hr. injection Hr as <-.
  apply gen_prog_download_exact with (cblock := cblock).
  rewrite <- Hn. apply timed_trace_conforming. exact Hcb.
Qed.

(* timed theorems instantiated with today's tables *)
Theorem gen_timed_stor_exact : forall T (tm : timing T) verb vm off old block rs st t0 net,
  verb_mode Gen.Xfer.facts verb = Some vm -> 1 <= block ->
  timed_stor tm stor_modes vm off old block rs st t0 net = Some (spec_store vm off (net_bytes net) old).
Proof.
  intros. apply timed_stor_exact; [exact gen_stor_table_ok|eapply gen_verb_store_mode; eassumption|assumption].
Qed.

Theorem gen_timed_retr_exact : forall T (stm : timing T) C (ctm : timing C) off content block foracle
    sst st0 lat cblock crs cst ct0,
  1 <= block -> 1 <= cblock ->
  timed_retr stm ctm retr_modes off content block foracle sst st0 lat cblock crs cst ct0
  = Some (spec_retr off content).
Proof. intros. apply timed_retr_exact; [exact gen_retr_table_ok|assumption|assumption]. Qed.

Theorem gen_stor_timing_irrelevant : forall T1 (tm1 : timing T1) T2 (tm2 : timing T2) verb vm off old
    block1 rs1 st1 t1 net1 block2 rs2 st2 t2 net2,
  verb_mode Gen.Xfer.facts verb = Some vm -> 1 <= block1 -> 1 <= block2 ->
  net_bytes net1 = net_bytes net2 ->
  timed_stor tm1 stor_modes vm off old block1 rs1 st1 t1 net1
  = timed_stor tm2 stor_modes vm off old block2 rs2 st2 t2 net2.
Proof.
  intros. apply stor_timing_irrelevant; try assumption;
    [exact gen_stor_table_ok|eapply gen_verb_store_mode; eassumption].
Qed.

Theorem gen_timed_stor_is_untimed : forall T (tm : timing T) verb vm off old block rs st t0 net
    block' segs oracle,
  verb_mode Gen.Xfer.facts verb = Some vm -> 1 <= block -> 1 <= block' ->
  concat segs = net_bytes net ->
  timed_stor tm stor_modes vm off old block rs st t0 net = e2e_stor stor_modes vm off old block' segs oracle.
Proof.
  intros. apply timed_stor_is_untimed; try assumption;
    [exact gen_stor_table_ok|eapply gen_verb_store_mode; eassumption].
Qed.

Theorem gen_retr_timing_irrelevant : forall T1 (stm1 : timing T1) C1 (ctm1 : timing C1)
    T2 (stm2 : timing T2) C2 (ctm2 : timing C2) off content
    block1 fo1 sst1 st1 lat1 cblock1 crs1 cst1 ct1
    block2 fo2 sst2 st2 lat2 cblock2 crs2 cst2 ct2,
  1 <= block1 -> 1 <= cblock1 -> 1 <= block2 -> 1 <= cblock2 ->
  timed_retr stm1 ctm1 retr_modes off content block1 fo1 sst1 st1 lat1 cblock1 crs1 cst1 ct1
  = timed_retr stm2 ctm2 retr_modes off content block2 fo2 sst2 st2 lat2 cblock2 crs2 cst2 ct2.
Proof. intros. apply retr_timing_irrelevant; try assumption. exact gen_retr_table_ok. Qed.

Theorem gen_timed_upload_exact : forall C (ctm : timing C) T (stm : timing T) verb vm off old chunks
    cst ct0 lat block rs sst st0,
  verb_mode Gen.Xfer.facts verb = Some vm -> 1 <= block ->
  Forall nonempty chunks ->
  timed_upload ctm stm stor_modes vm off old chunks cst ct0 lat block rs sst st0
  = Some (spec_store vm off (concat chunks) old).
Proof.
  intros. apply timed_upload_exact; try assumption;
    [exact gen_stor_table_ok|eapply gen_verb_store_mode; eassumption].
Qed.

(* ---- the interpreter discriminates: programs that differ from today's in one statement ---- *)
(* no seek: REST 2 + STOR overwrites from 0 *)
Lemma prog_without_seek_is_wrong :
  prog_stor [XForBlocks "STREAM" "conn.block_size" [XWrite "FILE"]] expected_stor_modes WB 2
            [7; 7; 7; 7]%Z [[1; 2]%Z; []]
  = Some [1; 2; 7; 7]%Z
  /\ spec_store WB 2 [1; 2]%Z [7; 7; 7; 7]%Z = [7; 7; 1; 2]%Z.
Proof. split; vm_compute; reflexivity. Qed.

(* seek AFTER the loop: RETR from offset 2 sends the whole file *)
Lemma prog_seek_after_loop_is_wrong :
  prog_retr [XForBlocks "FILE" "conn.block_size" [XWrite "STREAM"]; XIfOffset [XSeek "FILE"]]
            expected_retr_modes 2 [1; 2; 3; 4]%Z 3 []
  = Some [1; 2; 3; 4]%Z
  /\ spec_retr 2 [1; 2; 3; 4]%Z = [3; 4]%Z.
Proof. split; vm_compute; reflexivity. Qed.

(* an unclassified statement: nothing is claimed *)
Lemma prog_unclassified_has_no_result :
  prog_stor [XIfOffset [XSeek "FILE"]; XOther "x = 1"; XForBlocks "STREAM" "conn.block_size" [XWrite "FILE"]]
            expected_stor_modes WB 0 [] [[1%Z]; []] = None
  /\ prog_stor [XIfOffset [XSeek "FILE"]; XForBlocks "STREAM" "conn.block_size - 1" [XWrite "FILE"]]
            expected_stor_modes WB 0 [] [[1%Z]; []] = None.
Proof. split; vm_compute; reflexivity. Qed.
