(* The dispatch table of Model/Session.v built from the facts regenerated out of server.py. *)
From Coq Require Import ZArith List Bool String.
From Verif Require Import Lib.Sx Lib.Facts Model.Session Gen.Dispatch.
Import ListNotations.
Open Scope list_scope.

Definition entry_of (vh : string * string) : string * (string * list deco * option string) :=
  let '(verb, hname) := vh in
  match find_handler hname handlers with
  | Some h => (verb, (hname, h_decos h, h_delegate h))
  | None => (verb, (hname, [DOther "missing"%string], None))
  end.

Definition gen_table : list (string * (string * list deco * option string)) :=
  map entry_of (d_table dispatcher).

(* structural equality of tables (for "the code's table is the reference table") *)
Definition list_eqb {A} (eqb : A -> A -> bool) : list A -> list A -> bool :=
  fix go (a b : list A) : bool :=
    match a, b with
    | [], [] => true
    | x :: a', y :: b' => eqb x y && go a' b'
    | _, _ => false
    end.

Definition deco_eqb (a b : deco) : bool :=
  match a, b with
  | DConn f w c, DConn f' w' c' => list_eqb String.eqb f f' && Bool.eqb w w' && String.eqb c c'
  | DPathCond c, DPathCond c' => list_eqb String.eqb c c'
  | DPathPerm p, DPathPerm p' => list_eqb String.eqb p p'
  | DWorker, DWorker => true
  | DOther n, DOther n' => String.eqb n n'
  | _, _ => false
  end.

Definition opt_s_eqb (a b : option string) : bool :=
  match a, b with
  | Some x, Some y => String.eqb x y
  | None, None => true
  | _, _ => false
  end.

Definition entry_eqb (a b : string * (string * list deco * option string)) : bool :=
  let '(v, (h, ds, dl)) := a in
  let '(v', (h', ds', dl')) := b in
  String.eqb v v' && String.eqb h h' && list_eqb deco_eqb ds ds' && opt_s_eqb dl dl'.

Definition table_eqb := list_eqb entry_eqb.

(* footprints (as extracted by py2v) of the handlers that may run before login, and of the pure
   delegators: no backend call, no helper, no worker, no listener, no get_paths, no write to the
   server object; connection attributes written only within the allowed set *)
Definition subset_s (a b : list string) : bool := forallb (fun x => mem_s x b) a.

Definition quiet (h : Facts.handler) (sets dels : list string) : bool :=
  match h_backend h with [] => true | _ => false end
  && match h_helpers h with [] => true | _ => false end
  && match h_spawns h with [] => true | _ => false end
  && negb (h_starts_passive h) && negb (h_get_paths h)
  && match h_self_writes h with [] => true | _ => false end
  && subset_s (h_conn_sets h) sets && subset_s (h_conn_dels h) dels.

Definition fp_ok (name : string) (sets dels : list string) : bool :=
  match find_handler name handlers with Some h => quiet h sets dels | None => false end.

Definition prelogin_footprints_ok : bool :=
  fp_ok "quit" [] [] && fp_ok "syst" [] [] && fp_ok "rest" ["restart_offset"%string] []
  && fp_ok "appe" [] [] && fp_ok "cdup" [] []
  && fp_ok "pass_" ["logged"%string] []
  && match find_handler "user" handlers with
     | Some h => match h_backend h, h_helpers h, h_spawns h with [], [], [] => true | _, _, _ => false end
                 && negb (h_starts_passive h) && negb (h_get_paths h)
                 && subset_s (h_conn_sets h) ["logged"; "user"; "current_directory"]%string
                 && subset_s ["user"; "logged"]%string (h_conn_dels h)
     | None => false
     end.
