(* Proofs about Model/Parsers.v (C19) *)
From Coq Require Import ZArith List Bool Lia.
From Verif Require Import Lib.Sx Lib.PyStr Lib.PyStr3 Model.Framing Model.Parsers Proofs.PyStrFacts.
Import ListNotations.
Open Scope Z_scope.

(* ---- exception-class inclusion, composed through bind ---- *)
Definition allowed {A} (S : exc -> bool) (r : result A) : Prop :=
  match r with Ok _ => True | Exc e => S e = true end.

Lemma allowed_bind {A B} S (m : result A) (f : A -> result B) :
  allowed S m -> (forall a, allowed S (f a)) -> allowed S (bind m f).
Proof. destruct m as [a|e]; cbn; intros Hm Hf; [apply Hf|exact Hm]. Qed.

Lemma allowed_of_opt {A} S e (o : option A) : S e = true -> allowed S (of_opt e o).
Proof. destruct o; cbn; intro H; [exact Logic.I|exact H]. Qed.

Lemma allowed_guard S b e : S e = true -> allowed S (guard b e).
Proof. destruct b; cbn; intro H; [exact Logic.I|exact H]. Qed.

Lemma allowed_weaken {A} (S S' : exc -> bool) (r : result A) :
  (forall e, S e = true -> S' e = true) -> allowed S r -> allowed S' r.
Proof. destruct r; cbn; intros H Hr; [exact Logic.I|apply H; exact Hr]. Qed.

Lemma allowed_ok_or {A} S (r : result A) :
  allowed S r -> (exists v, r = Ok v) \/ (exists e, r = Exc e /\ S e = true).
Proof. destruct r as [v|e]; cbn; intro H; [left; eauto|right; eauto]. Qed.

Ltac allow_step :=
  match goal with
  | |- allowed _ (bind _ _) => apply allowed_bind; [|intros ?]
  | |- allowed _ (of_opt _ _) => apply allowed_of_opt; reflexivity
  | |- allowed _ (guard _ _) => apply allowed_guard; reflexivity
  | |- allowed _ (Ok _) => exact Logic.I
  | |- allowed _ (Exc _) => reflexivity
  | |- allowed _ (match ?x with pair _ _ => _ end) => destruct x
  | |- allowed _ (if ?c then _ else _) => destruct c
  | H : forall s, allowed _ (?f s) |- allowed _ (?f _) => apply H
  end.
Ltac allow := repeat (cbv zeta; allow_step).

(* the classes, as sets *)
Definition mode_set (e : exc) : bool :=
  match e with KeyError | IndexError | ValueError => true | _ => false end.
Definition decode_set (e : exc) : bool :=
  match e with UnicodeDecodeError => true | _ => false end.
Definition passive_set (e : exc) : bool :=
  match e with ValueError | IndexError => true | _ => false end.
Definition index_set (e : exc) : bool :=
  match e with IndexError => true | _ => false end.
Definition value_error (e : exc) : bool :=      (* isinstance(e, ValueError) *)
  match e with ValueError | UnicodeDecodeError => true | _ => false end.
Definition reply_set (e : exc) : bool :=
  match e with
  | StatusCodeError | ConnectionResetError | UnicodeDecodeError | ValueError => true
  | _ => false
  end.
(* an ordinary exception: derives from Exception (CancelledError derives from BaseException only) *)
Definition ordinary (e : exc) : bool := negb (exc_eqb e CancelledError).

Lemma mode_sub_funnel e : mode_set e = true -> funnel e = true.
Proof. destruct e; cbn; congruence. Qed.
Lemma value_sub_funnel e : value_error e = true -> funnel e = true.
Proof. destruct e; cbn; congruence. Qed.
Lemma funnel_ordinary e : funnel e = true -> ordinary e = true.
Proof. destruct e; cbn; congruence. Qed.
Lemma passive_ordinary e : passive_set e = true -> ordinary e = true.
Proof. destruct e; cbn; congruence. Qed.
Lemma reply_ordinary e : reply_set e = true -> ordinary e = true.
Proof. destruct e; cbn; congruence. Qed.

(* ---- the small parsers ---- *)
Lemma parse_rw_classes k : allowed mode_set (parse_rw k).
Proof. unfold parse_rw. allow. Qed.

Lemma special_bit_classes s i cs vs vx cu vu : allowed mode_set (special_bit s i cs vs vx cu vu).
Proof. unfold special_bit. allow. Qed.

Theorem parse_unix_mode_classes s : allowed mode_set (parse_unix_mode s).
Proof.
  unfold parse_unix_mode.
  repeat (apply allowed_bind; [first [apply parse_rw_classes|apply special_bit_classes]|intros ?]).
  exact Logic.I.
Qed.

Lemma map_int_classes l : allowed passive_set (map_int l).
Proof. induction l as [|x r IH]; cbn [map_int]; [exact Logic.I|]. allow. exact IH. Qed.

Theorem parse_pasv_classes s : allowed passive_set (parse_pasv_response s).
Proof.
  unfold parse_pasv_response. apply allowed_bind; [allow|intros sub].
  apply allowed_bind; [apply map_int_classes|intros nums]. allow.
Qed.

Theorem parse_epsv_classes s : allowed passive_set (parse_epsv_response s).
Proof. unfold parse_epsv_response. allow. Qed.

Lemma parse_mlsx_text_classes (S : exc -> bool) s : S ValueError = true -> allowed S (parse_mlsx_text s).
Proof.
  intro H. unfold parse_mlsx_text. destruct (partition SP (rstrip s)) as [[ff sep] name].
  destruct (negb sep || match name with [] => true | _ :: _ => false end); cbn; [exact H|exact Logic.I].
Qed.

Theorem stat_mlst_classes info : allowed passive_set (stat_mlst info).
Proof.
  unfold stat_mlst. apply allowed_bind; [allow|intros l].
  apply allowed_bind; [|intros v; exact Logic.I].
  apply parse_mlsx_text_classes. reflexivity.
Qed.

Section Codec.
  Variable dec : list Z -> option text.
  Variables ls_date win_date : text -> result text.

  Theorem parse_mlsx_classes b : allowed value_error (parse_mlsx_line dec b).
  Proof.
    unfold parse_mlsx_line. apply allowed_bind; [allow|intros s]. apply parse_mlsx_text_classes. reflexivity.
  Qed.

  Lemma field_classes s : allowed funnel (field s).
  Proof. unfold field. allow. Qed.

  Lemma unix_prefix_classes b : allowed funnel (unix_prefix dec b).
  Proof.
    unfold unix_prefix.
    apply allowed_bind; [allow|intros s0]. cbv zeta.
    apply allowed_bind; [allow|intros c0].
    apply allowed_bind; [eapply allowed_weaken; [exact mode_sub_funnel|apply parse_unix_mode_classes]|intros mode].
    repeat first [ apply allowed_bind; [first [apply field_classes|allow]|intros ?]
                 | match goal with |- allowed _ (match ?x with pair _ _ => _ end) => destruct x end ].
    exact Logic.I.
  Qed.

  (* every class parse_list_line_unix can raise is inside the funnel, whatever the date parser
     raises inside the funnel *)
  Theorem unix_classes :
    (forall s, allowed funnel (ls_date s)) ->
    forall b, allowed funnel (parse_list_line_unix dec ls_date b).
  Proof.
    intros Hd b. unfold parse_list_line_unix.
    apply allowed_bind; [apply unix_prefix_classes|intros [[[ty mode] [[[links owner] group] size]] s5]].
    allow.
  Qed.

  Lemma win_prefix_classes b : allowed funnel (win_prefix dec b).
  Proof. unfold win_prefix. allow. Qed.

  Theorem windows_classes :
    (forall s, allowed funnel (win_date s)) ->
    forall b, allowed funnel (parse_list_line_windows dec win_date b).
  Proof.
    intros Hd b. unfold parse_list_line_windows.
    apply allowed_bind; [apply win_prefix_classes|intros [dts line]].
    allow.
  Qed.

  (* with strptime raising only ValueError, the windows parser raises only ValueError (or its
     subclass UnicodeDecodeError) *)
  Theorem windows_value_error_only :
    (forall s, allowed value_error (win_date s)) ->
    forall b, allowed value_error (parse_list_line_windows dec win_date b).
  Proof.
    intros Hd b. unfold parse_list_line_windows, win_prefix. allow.
  Qed.

  (* the documented contract of parse_list_line *)
  Theorem list_line_value_error_only :
    (forall s, allowed funnel (ls_date s)) ->
    (forall s, allowed funnel (win_date s)) ->
    forall b, (exists v, parse_list_line dec ls_date win_date b = Ok v)
              \/ parse_list_line dec ls_date win_date b = Exc ValueError.
  Proof.
    intros H1 H2 b. unfold parse_list_line.
    pose proof (unix_classes H1 b) as Hu. pose proof (windows_classes H2 b) as Hw.
    destruct (parse_list_line_unix dec ls_date b) as [v|e]; [left; eauto|].
    cbn in Hu. rewrite Hu.
    destruct (parse_list_line_windows dec win_date b) as [v|e']; [left; eauto|].
    cbn in Hw. rewrite Hw. right. reflexivity.
  Qed.

  Corollary list_line_classes :
    (forall s, allowed funnel (ls_date s)) ->
    (forall s, allowed funnel (win_date s)) ->
    forall b, allowed value_error (parse_list_line dec ls_date win_date b).
  Proof.
    intros H1 H2 b. destruct (list_line_value_error_only H1 H2 b) as [[v ->]| ->]; cbn; auto.
  Qed.
End Codec.

(* ---- results of the list-line parsers always carry a type fact ---- *)
Definition ok_sat {A} (P : A -> Prop) (r : result A) : Prop :=
  match r with Ok a => P a | Exc _ => True end.
Lemma ok_sat_bind {A B} (P : B -> Prop) (m : result A) (f : A -> result B) :
  (forall a, ok_sat P (f a)) -> ok_sat P (bind m f).
Proof. destruct m; cbn; intro H; [apply H|exact Logic.I]. Qed.

Definition has_type (v : text * dict) : Prop := exists t, dict_get k_type (snd v) = Some t.

Ltac sat_step :=
  match goal with
  | |- ok_sat _ (bind _ _) => apply ok_sat_bind; intros ?
  | |- ok_sat _ (match ?x with pair _ _ => _ end) => destruct x
  | |- ok_sat _ (if ?c then _ else _) => destruct c
  | |- ok_sat _ (Exc _) => exact Logic.I
  end.

Lemma unix_has_type dec ls_date b : ok_sat has_type (parse_list_line_unix dec ls_date b).
Proof.
  unfold parse_list_line_unix. repeat (cbv zeta; sat_step);
    (eexists; cbn [ok_sat snd dict_get dict_set k_type k_link_dst k_mode k_links k_owner k_group k_size
                     k_modify text_eqb Z.eqb Pos.eqb andb]; reflexivity).
Qed.

Lemma ok_sat_bind2 {A B} (Q : A -> Prop) (P : B -> Prop) (m : result A) (f : A -> result B) :
  ok_sat Q m -> (forall a, Q a -> ok_sat P (f a)) -> ok_sat P (bind m f).
Proof. destruct m; cbn; intros Hm H; [apply H; exact Hm|exact Logic.I]. Qed.

Lemma windows_has_type dec win_date b : ok_sat has_type (parse_list_line_windows dec win_date b).
Proof.
  unfold parse_list_line_windows.
  apply ok_sat_bind; intros [dts line]. apply ok_sat_bind; intros modify.
  apply ok_sat_bind; intros ns.
  apply (ok_sat_bind2 (fun i : dict => exists t, dict_get k_type i = Some t)).
  - destruct (starts_with DIRTAG line); [eexists; vm_compute; reflexivity|].
    apply ok_sat_bind; intros _. cbn [ok_sat]. eexists.
    cbn [dict_get k_type k_modify text_eqb Z.eqb Pos.eqb andb]. reflexivity.
  - intros info0 Hi. cbv zeta. apply ok_sat_bind; intros _. exact Hi.
Qed.

Lemma list_line_has_type dec ls_date win_date b :
  ok_sat has_type (parse_list_line dec ls_date win_date b).
Proof.
  unfold parse_list_line.
  pose proof (unix_has_type dec ls_date b) as Hu. pose proof (windows_has_type dec win_date b) as Hw.
  destruct (parse_list_line_unix dec ls_date b) as [v|e]; [exact Hu|].
  destruct (funnel e); [|exact Logic.I].
  destruct (parse_list_line_windows dec win_date b) as [v|e']; [exact Hw|].
  destruct (funnel e'); exact Logic.I.
Qed.

(* ---- the reply loop ---- *)
Section Reply.
  Variable dec : list Z -> option text.
  Variable limit : Z.

  Lemma read_text_line_classes l : allowed reply_set (read_text_line dec limit l).
  Proof. unfold read_text_line. allow. Qed.

  Definition rrest (r : rresult) : list (list Z) :=
    match r with ROk _ _ k => k | RExc _ k => k end.
  Definition rclass_ok (r : rresult) : Prop :=
    match r with ROk _ _ _ => True | RExc e _ => reply_set e = true end.
  (* what was read is a prefix of the stream, at least one line of it unless the stream is empty *)
  Definition consumes (ls : list (list Z)) (r : rresult) : Prop :=
    exists consumed, ls = consumed ++ rrest r /\ (ls <> [] -> consumed <> []).

  Lemma reply_loop_spec code acc ls :
    rclass_ok (reply_loop dec limit code acc ls) /\ consumes ls (reply_loop dec limit code acc ls).
  Proof.
    revert acc. induction ls as [|l ls IH]; intro acc; cbn [reply_loop].
    - split; [reflexivity|]. exists []. split; [reflexivity|congruence].
    - pose proof (read_text_line_classes l) as Hc.
      assert (Hstep : forall r, (rclass_ok r /\ consumes ls r) \/ (rclass_ok r /\ rrest r = ls) ->
                                rclass_ok r /\ consumes (l :: ls) r).
      { intros r [[H1 [c [Hc1 Hc2]]]|[H1 H2]]; split; try exact H1.
        - exists (l :: c). split; [cbn [app]; rewrite <- Hc1; reflexivity|intros _; discriminate].
        - exists [l]. split; [cbn [app]; rewrite H2; reflexivity|intros _; discriminate]. }
      destruct (read_text_line dec limit l) as [t|e].
      + destruct (str_isdigit (firstn 3 (rstrip t))).
        * destruct (text_eqb (firstn 3 (rstrip t)) code).
          -- destruct (starts_with [DASH] (skipn 3 (rstrip t))).
             ++ apply Hstep. left. apply IH.
             ++ apply Hstep. right. split; reflexivity.
          -- apply Hstep. right. split; reflexivity.
        * apply Hstep. left. apply IH.
      + apply Hstep. right. split; [exact Hc|reflexivity].
  Qed.

  Theorem reply_parse_spec ls :
    rclass_ok (reply_parse dec limit ls) /\ consumes ls (reply_parse dec limit ls).
  Proof.
    destruct ls as [|l ls]; cbn [reply_parse].
    - split; [reflexivity|]. exists []. split; [reflexivity|congruence].
    - pose proof (read_text_line_classes l) as Hc.
      destruct (read_text_line dec limit l) as [t|e].
      + destruct (starts_with [DASH] (skipn 3 (rstrip t)) || negb (str_isdigit (firstn 3 (rstrip t)))).
        * destruct (reply_loop_spec (firstn 3 (rstrip t)) [skipn 3 (rstrip t)] ls) as [H1 [c [Hc1 Hc2]]].
          split; [exact H1|]. exists (l :: c). split; [cbn [app]; rewrite <- Hc1; reflexivity|intros _; discriminate].
        * split; [exact Logic.I|]. exists [l]. split; [reflexivity|intros _; discriminate].
      + split; [exact Hc|]. exists [l]. split; [reflexivity|intros _; discriminate].
  Qed.

  (* on lines that are within the limit and decode, it IS the C06 model (Model/Framing.v) *)
  Definition reads (l : list Z) (t : text) : Prop := read_text_line dec limit l = Ok t.
  Definition same_outcome (p : presult) (r : rresult) : Prop :=
    match p with
    | POk c i k => exists k', r = ROk c i k' /\ Forall2 reads k' k
    | PStatusErr _ _ _ k => exists k', r = RExc StatusCodeError k' /\ Forall2 reads k' k
    | PReset => r = RExc ConnectionResetError []
    end.

  Lemma reply_loop_framing code acc ls ts :
    Forall2 reads ls ts -> same_outcome (parse_loop code acc ts) (reply_loop dec limit code acc ls).
  Proof.
    intro H. revert acc. induction H as [|l t ls ts Hl Hls IH]; intro acc; cbn [parse_loop reply_loop].
    - reflexivity.
    - unfold reads in Hl. rewrite Hl.
      destruct (str_isdigit (firstn 3 (rstrip t))).
      + destruct (text_eqb (firstn 3 (rstrip t)) code).
        * destruct (starts_with [DASH] (skipn 3 (rstrip t))); [apply IH|].
          cbn. eexists. split; [reflexivity|exact Hls].
        * cbn. eexists. split; [reflexivity|exact Hls].
      + apply IH.
  Qed.

  Theorem reply_parse_framing ls ts :
    Forall2 reads ls ts -> same_outcome (Framing.parse_response ts) (reply_parse dec limit ls).
  Proof.
    intro H. destruct H as [|l t ls ts Hl Hls]; cbn [Framing.parse_response reply_parse]; [reflexivity|].
    unfold reads in Hl. rewrite Hl.
    destruct (starts_with [DASH] (skipn 3 (rstrip t)) || negb (str_isdigit (firstn 3 (rstrip t)))).
    - apply reply_loop_framing. exact Hls.
    - cbn. eexists. split; [reflexivity|exact Hls].
  Qed.

  (* the server's reader *)
  Theorem server_parse_command_classes ls :
    match server_parse_command dec limit ls with
    | CmdOk _ _ => True
    | CmdExc e => reply_set e = true /\ e <> StatusCodeError
    end.
  Proof.
    destruct ls as [|l ls]; cbn [server_parse_command]; [split; [reflexivity|congruence]|].
    unfold read_text_line. destruct (negb (over_limit limit l)); cbn [guard bind];
      [|split; [reflexivity|congruence]].
    destruct (dec l) as [t|]; cbn [of_opt]; [|split; [reflexivity|congruence]].
    destruct (Framing.parse_command t) as [[c r]|]; [exact Logic.I|split; [reflexivity|congruence]].
  Qed.
End Reply.

(* ---- the lister loop ---- *)
Section ListerProofs.
  Variable L : Type.
  Variable parse : bool -> L -> result (text * dict).
  Notation loop := (lister_loop L parse).
  Notation measure := (lister_measure L).

  Lemma weight_cons (m : bool) (ls : list L) (sc : script L) :
    script_weight L ((m, ls) :: sc) = (2 * length ls + script_weight L sc)%nat.
  Proof. reflexivity. Qed.

  (* what one iteration does to the state, when it does not end the listing *)
  Inductive lprogress (lines : list L) (queue : list text) (sc : script L)
    : list L -> list text -> script L -> Prop :=
  | consumes_line l ls queue' :
      lines = l :: ls -> (queue' = queue \/ exists p, queue' = queue ++ [p]) ->
      lprogress lines queue sc ls queue' sc
  | pops_directory d q m ls sc' :
      lines = [] -> queue = d :: q -> sc = (m, ls) :: sc' ->
      lprogress lines queue sc ls q sc'.

  Lemma lprogress_decreases lines queue sc lines' queue' sc' :
    lprogress lines queue sc lines' queue' sc' ->
    (measure lines' queue' sc' < measure lines queue sc)%nat.
  Proof.
    intros [l ls q' -> [->|[p ->]]|d q m ls sc'' -> -> ->]; unfold lister_measure;
      rewrite ?weight_cons, ?app_length; cbn [length]; lia.
  Qed.

  (* each iteration consumes a line, pops a queued directory, or ends *)
  Theorem lister_progress rec cur mode lines queue sc acc reqs :
    (forall f, loop (S f) rec cur mode lines queue sc acc reqs = loop 1 rec cur mode lines queue sc acc reqs
               /\ ending (loop 1 rec cur mode lines queue sc acc reqs) <> LFuel)
    \/ exists cur' mode' lines' queue' sc' acc' reqs',
         lprogress lines queue sc lines' queue' sc'
         /\ forall f, loop (S f) rec cur mode lines queue sc acc reqs
                      = loop f rec cur' mode' lines' queue' sc' acc' reqs'.
  Proof.
    destruct lines as [|l ls].
    - destruct queue as [|d q].
      + left. intro f. cbn. split; [reflexivity|discriminate].
      + destruct sc as [|[m ls] sc'].
        * left. intro f. cbn. split; [reflexivity|discriminate].
        * right. exists d, m, ls, q, sc', acc, (d :: reqs). split; [|intro f; reflexivity].
          eapply pops_directory; reflexivity.
    - destruct (parse mode l) as [[name info]|e] eqn:Ep.
      + destruct (dict_get k_type info) as [t|] eqn:Et.
        * destruct (is_dot_name name) eqn:Ed.
          -- right. exists cur, mode, ls, queue, sc, acc, reqs. split.
             ++ eapply consumes_line; [reflexivity|left; reflexivity].
             ++ intro f. cbn [lister_loop]. rewrite Ep, Et, Ed. reflexivity.
          -- right. eexists cur, mode, ls, _, sc, _, reqs. split.
             2:{ intro f. cbn [lister_loop]. rewrite Ep, Et, Ed. reflexivity. }
             eapply consumes_line; [reflexivity|].
             destruct (text_eqb t t_dir && rec); [right; eexists; reflexivity|left; reflexivity].
        * left. intro f. cbn [lister_loop]. rewrite Ep, Et. cbn. split; [reflexivity|discriminate].
      + left. intro f. cbn [lister_loop]. rewrite Ep. cbn. split; [reflexivity|discriminate].
  Qed.

  (* hence the loop ends before the fuel does: it terminates on every finite script *)
  Theorem lister_terminates fuel rec cur mode lines queue sc acc reqs :
    (measure lines queue sc < fuel)%nat ->
    ending (loop fuel rec cur mode lines queue sc acc reqs) <> LFuel.
  Proof.
    revert cur mode lines queue sc acc reqs.
    induction fuel as [|f IH]; intros cur mode lines queue sc acc reqs Hm; [lia|].
    destruct (lister_progress rec cur mode lines queue sc acc reqs)
      as [Hend|[cur' [mode' [lines' [queue' [sc' [acc' [reqs' [Hp Hstep]]]]]]]]].
    - destruct (Hend f) as [-> H]. exact H.
    - rewrite Hstep. apply IH. apply lprogress_decreases in Hp. lia.
  Qed.

  Corollary run_lister_terminates rec path sc :
    ending (run_lister L parse rec path sc) <> LFuel.
  Proof. unfold run_lister. apply lister_terminates. lia. Qed.

  (* more fuel than needed changes nothing *)
  Lemma lister_fuel_irrelevant fuel fuel' rec cur mode lines queue sc acc reqs :
    (measure lines queue sc < fuel)%nat -> (measure lines queue sc < fuel')%nat ->
    loop fuel rec cur mode lines queue sc acc reqs = loop fuel' rec cur mode lines queue sc acc reqs.
  Proof.
    revert fuel' cur mode lines queue sc acc reqs.
    induction fuel as [|f IH]; intros fuel' cur mode lines queue sc acc reqs H1 H2; [lia|].
    destruct fuel' as [|f']; [lia|].
    destruct (lister_progress rec cur mode lines queue sc acc reqs)
      as [Hend|[cur' [mode' [lines' [queue' [sc' [acc' [reqs' [Hp Hstep]]]]]]]]].
    - destruct (Hend f) as [-> _]. destruct (Hend f') as [-> _]. reflexivity.
    - rewrite !Hstep. apply lprogress_decreases in Hp. apply IH; lia.
  Qed.

  (* '.' and '..' are never yielded nor queued: every yielded entry has another name, and every
     directory ever requested is the one asked for or the path of a yielded directory entry *)
  Definition nodot (e : lentry) : Prop := is_dot_name (e_name e) = false.
  Definition from_yield (root : text) (ys : list lentry) (p : text) : Prop :=
    p = root \/ exists e, In e ys /\ e_path e = p /\ nodot e
                          /\ dict_get k_type (e_info e) = Some t_dir.

  Lemma from_yield_mono root ys y p : from_yield root ys p -> from_yield root (y :: ys) p.
  Proof. intros [->|[e [Hi H]]]; [left; reflexivity|right; exists e; split; [right; exact Hi|exact H]]. Qed.

  Lemma lister_invariant root fuel rec cur mode lines queue sc acc reqs :
    Forall nodot acc -> Forall (from_yield root acc) queue -> Forall (from_yield root acc) reqs ->
    let r := loop fuel rec cur mode lines queue sc acc reqs in
    Forall nodot (yields r) /\ Forall (from_yield root (yields r)) (requests r).
  Proof.
    revert cur mode lines queue sc acc reqs.
    assert (Hfin : forall acc reqs e, Forall nodot acc -> Forall (from_yield root acc) reqs ->
              let r := {| yields := rev acc; requests := rev reqs; ending := e |} in
              Forall nodot (yields r) /\ Forall (from_yield root (yields r)) (requests r)).
    { intros acc reqs e Ha Hr. cbn. split.
      - apply Forall_rev. exact Ha.
      - apply Forall_rev. eapply Forall_impl; [|exact Hr].
        intros p [->|[x [Hi H]]]; [left; reflexivity|right; exists x; split; [rewrite <- in_rev; exact Hi|exact H]]. }
    induction fuel as [|f IH]; intros cur mode lines queue sc acc reqs Ha Hq Hr; cbn [lister_loop].
    - apply Hfin; assumption.
    - destruct lines as [|l ls].
      + destruct queue as [|d q]; [apply Hfin; assumption|].
        inversion Hq as [|? ? Hd Hq']; subst.
        destruct sc as [|[m ls] sc'].
        * apply Hfin; [assumption|constructor; assumption].
        * apply IH; [assumption|assumption|constructor; assumption].
      + destruct (parse mode l) as [[name info]|e]; [|apply Hfin; assumption].
        destruct (dict_get k_type info) as [t|] eqn:Et; [|apply Hfin; assumption].
        destruct (is_dot_name name) eqn:Ed; [apply IH; assumption|].
        set (y := {| e_path := posix_div cur name; e_name := name; e_info := info |}).
        apply IH.
        * constructor; [exact Ed|exact Ha].
        * assert (Hq' : Forall (from_yield root (y :: acc)) queue)
            by (eapply Forall_impl; [|exact Hq]; intros p; apply from_yield_mono).
          destruct (text_eqb t t_dir && rec) eqn:Ec; [|exact Hq'].
          apply Forall_app. split; [exact Hq'|]. constructor; [|constructor].
          right. exists y. split; [left; reflexivity|]. split; [reflexivity|]. split; [exact Ed|].
          apply andb_true_iff in Ec as [Ec _]. apply text_eqb_eq in Ec. subst t. exact Et.
        * eapply Forall_impl; [|exact Hr]. intros p; apply from_yield_mono.
  Qed.
End ListerProofs.

Section ListerClasses.
  Variable L : Type.
  Variable parse : bool -> L -> result (text * dict).
  Variable S : exc -> bool.
  Hypothesis parse_classes : forall lm l, allowed S (parse lm l).
  Notation loop := (lister_loop L parse).

  (* how a listing can end: normally, with a class of the line parser, with the ValueError of a
     line without a type fact, or with the server's refusal *)
  Hypothesis S_value_error : S ValueError = true.
  Definition lend_ok (e : lend) : Prop :=
    match e with
    | LRaised x => S x = true \/ x = StatusCodeError
    | _ => True
    end.

  Theorem lister_classes fuel rec cur mode lines queue sc acc reqs :
    lend_ok (ending (loop fuel rec cur mode lines queue sc acc reqs)).
  Proof.
    revert cur mode lines queue sc acc reqs.
    induction fuel as [|f IH]; intros cur mode lines queue sc acc reqs; cbn [lister_loop]; [exact Logic.I|].
    destruct lines as [|l ls].
    - destruct queue as [|d q]; [exact Logic.I|]. destruct sc as [|[m ls] sc']; [|apply IH].
      cbn. right. reflexivity.
    - pose proof (parse_classes mode l) as Hc.
      destruct (parse mode l) as [[name info]|e]; [|cbn; left; exact Hc].
      destruct (dict_get k_type info); [|cbn; left; exact S_value_error].
      destruct (is_dot_name name); apply IH.
  Qed.

End ListerClasses.

Section ListerAccounts.
  Variable L : Type.
  Variable parse : bool -> L -> result (text * dict).
  Notation loop := (lister_loop L parse).

  (* the lines a completed listing does not yield *)
  Definition dropped (mode : bool) (l : L) : bool :=
    match parse mode l with
    | Ok (n, i) => match dict_get k_type i with Some _ => is_dot_name n | None => false end
    | Exc _ => false
    end.

  Lemma lister_accounts fuel rec cur mode lines queue acc reqs :
    let r := loop fuel rec cur mode lines queue [] acc reqs in
    ending r = LDone ->
    (length (yields r) + length (filter (dropped mode) lines) = length acc + length lines)%nat
    /\ Forall (fun l => exists v, parse mode l = Ok v) lines.
  Proof.
    cbv zeta. revert cur lines queue acc reqs.
    induction fuel as [|f IH]; intros cur lines queue acc reqs; cbn [lister_loop]; [cbn; discriminate|].
    destruct lines as [|l ls].
    - destruct queue as [|d q]; [|cbn; discriminate].
      cbn. intros _. rewrite rev_length. split; [lia|constructor].
    - cbn [filter].
      unfold dropped at 1.
      destruct (parse mode l) as [[name info]|e] eqn:Ep; [|cbn; discriminate].
      destruct (dict_get k_type info) as [t|]; [|cbn; discriminate].
      destruct (is_dot_name name) eqn:Ed.
      + intro H. destruct (IH cur ls queue acc reqs H) as [H1 H2].
        split; [cbn [length]; lia|constructor; [eauto|exact H2]].
      + intro H. match type of H with ending (loop f rec cur mode ls ?q [] ?a reqs) = _ =>
          destruct (IH cur ls q a reqs H) as [H1 H2] end.
        split; [cbn [length] in *; lia|constructor; [eauto|exact H2]].
  Qed.

  (* a single directory listing that completes: every line was parsed, and the lines not yielded
     are exactly those whose parsed name is '.' or '..' -- nothing else is ever dropped *)
  Theorem completed_listing_accounts rec path m lines :
    let r := run_lister L parse rec path [(m, lines)] in
    ending r = LDone ->
    (length (yields r) + length (filter (dropped m) lines) = length lines)%nat
    /\ Forall (fun l => exists v, parse m l = Ok v) lines.
  Proof.
    unfold run_lister. cbn [lister_loop]. intro H.
    apply lister_accounts in H. cbn [length] in H. exact H.
  Qed.
End ListerAccounts.

(* ---- the concrete data-line parser of Client.list ---- *)
Definition listing_set (e : exc) : bool := value_error e.

Lemma parse_data_line_classes dec ls_date win_date limit :
  (forall s, allowed funnel (ls_date s)) -> (forall s, allowed funnel (win_date s)) ->
  forall lm b, allowed listing_set (parse_data_line dec ls_date win_date limit lm b).
Proof.
  intros H1 H2 lm b. unfold parse_data_line. apply allowed_bind; [allow|intros _].
  destruct lm.
  - apply list_line_classes; assumption.
  - eapply allowed_weaken; [|apply parse_mlsx_classes]. intros e; destruct e; cbn; congruence.
Qed.

Lemma parse_data_line_list_typed dec ls_date win_date limit b :
  ok_sat has_type (parse_data_line dec ls_date win_date limit true b).
Proof. unfold parse_data_line. apply ok_sat_bind; intros _. apply list_line_has_type. Qed.

(* ---- every parsed listing line NAMES something: the path is PurePosixPath(raw) for a
   non-empty raw name column / pathname (repaired parsers: an empty name is a ValueError) ---- *)
Definition named (v : text * dict) : Prop := exists raw, raw <> [] /\ fst v = posix_norm raw.

Lemma ok_sat_guard {B} (P : B -> Prop) (c : bool) e (f : unit -> result B) :
  (c = true -> ok_sat P (f tt)) -> ok_sat P (bind (guard c e) f).
Proof. destruct c; cbn; intro H; [apply H; reflexivity|exact Logic.I]. Qed.

Lemma ok_sat_of_opt {A B} (P : B -> Prop) e (o : option A) (f : A -> result B) :
  (forall a, o = Some a -> ok_sat P (f a)) -> ok_sat P (bind (of_opt e o) f).
Proof. destruct o; cbn; intro H; [apply H; reflexivity|exact Logic.I]. Qed.

Lemma lstrip_head_nonspace s c r : lstrip s = c :: r -> is_space c = false.
Proof.
  induction s as [|x s IH]; cbn; [discriminate|].
  destruct (is_space x) eqn:E; [exact IH|]. intro H. injection H as -> _. exact E.
Qed.

Lemma rindex_sub_starts p s : forall i, rindex_sub p s = Some i -> starts_with p (skipn i s) = true.
Proof.
  induction s as [|x s IH]; intros i; cbn [rindex_sub].
  - destruct (starts_with p []) eqn:E; [|discriminate]. intro H. injection H as <-. exact E.
  - destruct (rindex_sub p s) as [n|] eqn:En.
    + intro H. injection H as <-. cbn [skipn]. apply IH. reflexivity.
    + destruct (starts_with p (x :: s)) eqn:E; [|discriminate]. intro H. injection H as <-. exact E.
Qed.

Lemma is_nil_false {A} (l : list A) : negb (is_nil l) = true -> l <> [].
Proof. destruct l; cbn; [discriminate|discriminate]. Qed.

Lemma unix_named dec ls_date b : ok_sat named (parse_list_line_unix dec ls_date b).
Proof.
  unfold parse_list_line_unix.
  apply ok_sat_bind; intros [[[ty mode] [[[links owner] group] size]] s5].
  apply ok_sat_bind; intros modify. cbv zeta.
  assert (Hhead : forall c r, strip (skipn 12 s5) = c :: r -> is_space c = false)
    by (intros c r E; unfold strip in E; apply lstrip_head_nonspace in E; exact E).
  set (s6 := strip (skipn 12 s5)) in *.
  apply ok_sat_guard; intro Hs6. apply is_nil_false in Hs6.
  destruct (text_eqb ty t_link).
  - apply ok_sat_of_opt; intros i Hi. cbv zeta.
    apply ok_sat_bind; intros lc. apply ok_sat_bind; intros tc. cbn [ok_sat].
    exists (firstn i s6). split; [|reflexivity].
    apply rindex_sub_starts in Hi.
    destruct s6 as [|c r]; [congruence|].
    destruct i as [|i]; [|cbn; discriminate].
    exfalso. specialize (Hhead c r eq_refl). cbn [skipn] in Hi. unfold ARROW in Hi. cbn [starts_with] in Hi.
    apply andb_true_iff in Hi as [Hc _]. apply Z.eqb_eq in Hc. subst c. vm_compute in Hhead. discriminate.
  - cbn [ok_sat]. exists s6. split; [exact Hs6|reflexivity].
Qed.

Lemma windows_named dec win_date b : ok_sat named (parse_list_line_windows dec win_date b).
Proof.
  unfold parse_list_line_windows.
  apply ok_sat_bind; intros [dts line]. apply ok_sat_bind; intros modify.
  apply ok_sat_bind; intros ns. apply ok_sat_bind; intros info. cbv zeta.
  apply ok_sat_guard; intro H. cbn [ok_sat].
  exists (lstrip (skipn ns line)). split; [|reflexivity].
  apply negb_true_iff, orb_false_iff in H as [H _]. destruct (lstrip (skipn ns line)); [discriminate|discriminate].
Qed.

Lemma list_line_named dec ls_date win_date b : ok_sat named (parse_list_line dec ls_date win_date b).
Proof.
  unfold parse_list_line.
  pose proof (unix_named dec ls_date b) as Hu. pose proof (windows_named dec win_date b) as Hw.
  destruct (parse_list_line_unix dec ls_date b) as [v|e]; [exact Hu|].
  destruct (funnel e); [|exact Logic.I].
  destruct (parse_list_line_windows dec win_date b) as [v|e']; [exact Hw|].
  destruct (funnel e'); exact Logic.I.
Qed.

Lemma mlsx_named dec b : ok_sat named (parse_mlsx_line dec b).
Proof.
  unfold parse_mlsx_line. apply ok_sat_bind; intros s. unfold parse_mlsx_text.
  destruct (partition SP (rstrip s)) as [[ff sep] name].
  destruct name as [|c r]; [rewrite orb_true_r; exact Logic.I|].
  destruct (negb sep || false); [exact Logic.I|]. cbn [ok_sat]. exists (c :: r). split; [discriminate|reflexivity].
Qed.

Lemma parse_data_line_named dec ls_date win_date limit lm b :
  ok_sat named (parse_data_line dec ls_date win_date limit lm b).
Proof.
  unfold parse_data_line. apply ok_sat_bind; intros _.
  destruct lm; [apply list_line_named|apply mlsx_named].
Qed.

(* ---- the former refutation witnesses (F12a/b/c, repaired): each now ends the listing with
   ValueError instead of being dropped / raising KeyError ---- *)
Definition utf8 : list Z -> option text := decode_with 0.
Definition mlsd_line (b : list Z) : oline := (b, Exc ValueError, Exc ValueError).
Definition root_path : text := [47].

(* "garbage\r\n": no SP, hence no pathname *)
Example nameless_mlsd_line_reported :
  run_lister oline (parse_oline utf8 65536) false root_path
             [(false, [mlsd_line [103; 97; 114; 98; 97; 103; 101; 13; 10]])]
  = {| yields := []; requests := [root_path]; ending := LRaised ValueError |}.
Proof. vm_compute. reflexivity. Qed.

(* "size=1; notype\r\n": no type fact *)
Example typeless_mlsd_line_reported :
  ending (run_lister oline (parse_oline utf8 65536) false root_path
            [(false, [mlsd_line [115; 105; 122; 101; 61; 49; 59; 32; 110; 111; 116; 121; 112; 101; 13; 10]])])
  = LRaised ValueError.
Proof. vm_compute. reflexivity. Qed.

(* a unix LIST line cut after the date: empty name column *)
Example nameless_list_line_reported :
  run_lister oline (parse_oline utf8 65536) false root_path
             [(true, [([100; 114; 119; 120; 114; 45; 120; 114; 45; 120; 32; 50; 32; 48; 32; 48; 32; 52; 48; 57; 54;
                        32; 78; 111; 118; 32; 49; 56; 32; 49; 50; 58; 50; 57; 13; 10], Ok [50; 48], Exc ValueError)])]
  = {| yields := []; requests := [root_path]; ending := LRaised ValueError |}.
Proof. vm_compute. reflexivity. Qed.

(* ---- the server ---- *)
Section ServerProofs.
  Variable S : Type.
  Variable handle : S -> text -> text -> option S.
  Variable lad : ladder.
  Variable dec : list Z -> option text.
  Variable limit : Z.

  Definition ends_session (r : reaction) : bool := match r with REndSession => true | _ => false end.
  (* the closed obligation on the dispatcher's except ladder: every class parse_command can
     raise (and the idle timeout of its readline) is caught, logged, and ends the session *)
  Definition ladder_contains (l : ladder) : bool :=
    forallb (fun e => ends_session (react l e))
            [ValueError; UnicodeDecodeError; ConnectionResetError; TimeoutError].

  Lemma find_remove_other sid sid' (srv : sessions S) :
    sid' <> sid -> find_session S sid' (remove_session S sid srv) = find_session S sid' srv.
  Proof.
    intro H. induction srv as [|[i s] r IH]; cbn; [reflexivity|].
    destruct (i =? sid) eqn:E.
    - rewrite IH. apply Z.eqb_eq in E. subst i.
      destruct (sid =? sid') eqn:E'; [apply Z.eqb_eq in E'; congruence|reflexivity].
    - cbn. rewrite IH. reflexivity.
  Qed.

  Lemma find_remove_same sid (srv : sessions S) : find_session S sid (remove_session S sid srv) = None.
  Proof.
    induction srv as [|[i s] r IH]; cbn; [reflexivity|].
    destruct (i =? sid) eqn:E; [exact IH|]. cbn. rewrite E. exact IH.
  Qed.

  Lemma find_update_other sid sid' f (srv : sessions S) :
    sid' <> sid -> find_session S sid' (update_session S sid f srv) = find_session S sid' srv.
  Proof.
    intro H. induction srv as [|[i s] r IH]; cbn; [reflexivity|].
    destruct (i =? sid) eqn:E.
    - apply Z.eqb_eq in E. subst i.
      assert (E' : (sid =? sid') = false) by (apply Z.eqb_neq; congruence).
      destruct (f s); cbn; rewrite ?E'; exact IH.
    - cbn. rewrite IH. reflexivity.
  Qed.

  (* whatever bytes session `sid` receives: nothing leaves the dispatcher, every other session's
     record is untouched, and when the line cannot be read the session is released *)
  Theorem server_line_contained :
    ladder_contains lad = true ->
    forall (srv : sessions S) sid ls,
    exists srv', deliver S handle lad dec limit srv sid ls = Served S srv'
      /\ (forall sid', sid' <> sid -> find_session S sid' srv' = find_session S sid' srv)
      /\ (forall e, server_parse_command dec limit ls = CmdExc e -> find_session S sid srv' = None).
  Proof.
    intros Hl srv sid ls. unfold deliver.
    pose proof (server_parse_command_classes dec limit ls) as Hc.
    destruct (server_parse_command dec limit ls) as [c r|e].
    - eexists. split; [reflexivity|]. split; [|discriminate].
      intros sid' Hn. apply find_update_other. exact Hn.
    - destruct Hc as [Hc Hn].
      assert (Hr : react lad e = REndSession).
      { unfold ladder_contains in Hl. cbn [forallb] in Hl.
        repeat (apply andb_true_iff in Hl as [?H Hl]).
        destruct e; cbn in Hc; try discriminate; try congruence;
          match goal with H : ends_session (react lad ?x) = true |- react lad ?x = _ =>
            destruct (react lad x); cbn in H; congruence end. }
      rewrite Hr. eexists. split; [reflexivity|]. split.
      + intros sid' Hn'. apply find_remove_other. exact Hn'.
      + intros _ _. apply find_remove_same.
  Qed.
End ServerProofs.

Example ladder_as_read_contains : ladder_contains ladder_as_read = true.
Proof. reflexivity. Qed.

(* a ladder without the catch-all does not pass the check (the check is not vacuous) *)
Example ladder_without_catch_all :
  ladder_contains [(HPathIOError, RContinue451); (HCancelledError, RReraise)] = false.
Proof. reflexivity. Qed.

(* ---- every other parser: Ok or an ordinary exception from a stated finite set ---- *)
Theorem parsers_ordinary :
  (forall s, allowed mode_set (parse_unix_mode s))
  /\ (forall dec b, allowed value_error (parse_mlsx_line dec b))
  /\ (forall s, allowed passive_set (parse_pasv_response s))
  /\ (forall s, allowed passive_set (parse_epsv_response s))
  /\ (forall info, allowed passive_set (stat_mlst info))
  /\ (forall dec ls_date b, (forall s, allowed funnel (ls_date s)) ->
                            allowed funnel (parse_list_line_unix dec ls_date b))
  /\ (forall dec win_date b, (forall s, allowed funnel (win_date s)) ->
                             allowed funnel (parse_list_line_windows dec win_date b))
  /\ (forall e, (mode_set e || value_error e || passive_set e || funnel e
                 || reply_set e) = true -> ordinary e = true).
Proof.
  repeat split.
  - exact parse_unix_mode_classes.
  - exact parse_mlsx_classes.
  - exact parse_pasv_classes.
  - exact parse_epsv_classes.
  - exact stat_mlst_classes.
  - intros dec ls_date b H. apply unix_classes. exact H.
  - intros dec win_date b H. apply windows_classes. exact H.
  - intros e; destruct e; cbn; congruence.
Qed.

(* ---- non-vacuity: well-formed lines do parse ---- *)
Example unix_line_parses :
  exists v, parse_list_line utf8 (fun _ => Ok [50; 48]) (fun _ => Exc ValueError)
      [45; 114; 119; 45; 114; 45; 45; 114; 45; 45; 32; 49; 32; 111; 32; 103; 32; 49; 50; 32;
       74; 97; 110; 32; 48; 51; 32; 49; 50; 58; 50; 57; 32; 110; 46; 116; 120; 116; 13; 10] = Ok v.
Proof. eexists. vm_compute. reflexivity. Qed.

Example recursive_listing_example :
  ending (run_lister oline (parse_oline utf8 65536) true root_path
            [(false, [mlsd_line [116; 121; 112; 101; 61; 100; 105; 114; 59; 32; 46; 10];
                      mlsd_line [116; 121; 112; 101; 61; 100; 105; 114; 59; 32; 46; 46; 10];
                      mlsd_line [116; 121; 112; 101; 61; 100; 105; 114; 59; 32; 115; 10]]);
             (false, [mlsd_line [116; 121; 112; 101; 61; 102; 105; 108; 101; 59; 32; 102; 10]])])
  = LDone.
Proof. vm_compute. reflexivity. Qed.

(* ---- statements used as such by Props/C19.v ---- *)
Theorem dots_never_yielded_nor_queued :
  forall (L : Type) (parse : bool -> L -> result (text * dict)) rec path (sc : script L),
    let r := run_lister L parse rec path sc in
    Forall nodot (yields r) /\ Forall (from_yield path (yields r)) (requests r).
Proof.
  intros L parse rec path sc. unfold run_lister.
  apply lister_invariant; [constructor|constructor; [left; reflexivity|constructor]|constructor].
Qed.

(* FULL: for listing lines always the documented ValueError -- in MLSD and LIST mode alike
   Client.list ends normally, with ValueError (or its subclass UnicodeDecodeError), or with the
   server's refusal; never KeyError, never anything else *)
Theorem lister_classes_data_line :
  forall dec ls_date win_date limit,
  (forall s, allowed funnel (ls_date s)) -> (forall s, allowed funnel (win_date s)) ->
  forall rec path (sc : script (list Z)),
    lend_ok value_error
      (ending (run_lister (list Z) (parse_data_line dec ls_date win_date limit) rec path sc)).
Proof.
  intros dec ls_date win_date limit H1 H2 rec path sc. unfold run_lister.
  apply lister_classes; [|reflexivity]. intros lm l. apply parse_data_line_classes; assumption.
Qed.

(* FULL: reports a line it cannot parse instead of dropping it.  A listing that completes has
   parsed EVERY line to a non-empty raw name (path = PurePosixPath(raw)) and a type fact; the
   lines it did not yield are exactly those whose non-empty name IS '.' or '..' after
   normalisation.  So a line without a name, without a type, or on which a parser raises is
   never in a completed listing: it ends the listing with the exception. *)
Definition explicit_dot (dec : list Z -> option text) ls_date win_date limit (m : bool) (b : list Z) : bool :=
  match parse_data_line dec ls_date win_date limit m b with
  | Ok (n, _) => is_dot_name n
  | Exc _ => false
  end.

Theorem unparseable_reported :
  forall dec ls_date win_date limit rec path m (lines : list (list Z)),
    let parse := parse_data_line dec ls_date win_date limit in
    let r := run_lister (list Z) parse rec path [(m, lines)] in
    ending r = LDone ->
    (length (yields r) + length (filter (explicit_dot dec ls_date win_date limit m) lines) = length lines)%nat
    /\ Forall (fun b => exists name info raw t,
                  parse m b = Ok (name, info) /\ raw <> [] /\ name = posix_norm raw
                  /\ dict_get k_type info = Some t) lines.
Proof.
  intros dec ls_date win_date limit rec path m lines parse r H.
  pose proof (completed_listing_accounts (list Z) parse rec path m lines H) as [Hc Hall].
  (* a completed listing never met a typeless line *)
  assert (Htyped : Forall (fun b => exists name info t, parse m b = Ok (name, info) /\ dict_get k_type info = Some t) lines).
  { unfold r, run_lister in H. cbn [lister_loop] in H.
    set (fuel := lister_measure (list Z) [] [path] [(m, lines)]) in H. clearbody fuel.
    clear Hc Hall r. revert H. generalize (@nil lentry) as acc. generalize [path] as reqs.
    generalize (@nil text) as queue.
    revert fuel. induction lines as [|b ls IH]; intros fuel queue reqs acc H; [constructor|].
    destruct fuel as [|f]; [cbn in H; discriminate|]. cbn [lister_loop] in H.
    destruct (parse m b) as [[name info]|e] eqn:Ep; [|cbn in H; discriminate].
    destruct (dict_get k_type info) as [t|] eqn:Et; [|cbn in H; discriminate].
    constructor; [exists name, info, t; split; [exact Ep|exact Et]|].
    destruct (is_dot_name name); eapply IH; exact H. }
  split.
  - rewrite <- Hc. f_equal. f_equal. clear Hc Hall H.
    induction Htyped as [|b ls [name [info [t [Ep Et]]]] _ IH]; [reflexivity|].
    cbn [filter]. unfold explicit_dot at 1, dropped at 1. fold parse. rewrite Ep, Et.
    destruct (is_dot_name name); [f_equal|]; exact IH.
  - eapply Forall_impl; [|exact Htyped]. intros b [name [info [t [Ep Et]]]].
    pose proof (parse_data_line_named dec ls_date win_date limit m b) as Hn. fold parse in Hn. rewrite Ep in Hn.
    destruct Hn as [raw [Hr1 Hr2]]. exists name, info, raw, t. cbn [fst] in Hr2. auto.
Qed.

(* ---- reading the dispatcher's except clauses as regenerated by tools/py2v (Gen/Dispatch.v) ----
   Fail closed: a class or an action list this reader does not know makes the whole ladder None.
   The inner `try` (around task.result()) is tried first; what it does not catch reaches the
   outer `try` around the loop, so the ladder is their concatenation. *)
From Coq Require Import String.
Local Open Scope string_scope.

Definition class_of_string (s : string) : option handler_class :=
  if String.eqb s "errors.PathIOError" then Some HPathIOError
  else if String.eqb s "asyncio.CancelledError" then Some HCancelledError
  else if String.eqb s "Exception" then Some HException
  else if String.eqb s "BaseException" then Some HBaseException
  else None.

Definition reaction_of_actions (acts : list string) : option reaction :=
  match acts with
  | ["response:451"; "continue"] => Some RContinue451
  | ["response:426"; "response:226"; "continue"] => Some RContinue426
  | ["raise"] => Some RReraise
  | ["log"] => Some REndSession       (* nothing but logging: control falls into `finally` *)
  | _ => None
  end.

Fixpoint ladder_of_clauses (cl : list (string * list string)) : option ladder :=
  match cl with
  | [] => Some []
  | (c, a) :: r =>
      match class_of_string c, reaction_of_actions a, ladder_of_clauses r with
      | Some h, Some x, Some l => Some ((h, x) :: l)
      | _, _, _ => None
      end
  end.

Definition ladder_of_facts (task_except outer_except : list (string * list string)) : option ladder :=
  ladder_of_clauses (task_except ++ outer_except).

(* the `finally` block unregisters the session and closes its control stream *)
Definition finally_releases (fin : list string) : bool :=
  existsb (String.eqb "=>pop:connections") fin && existsb (String.eqb "loop_open=>close:control") fin.

Definition dispatcher_contains (task_except outer_except : list (string * list string))
           (fin : list string) : bool :=
  match ladder_of_facts task_except outer_except with
  | Some l => ladder_contains l && finally_releases fin
  | None => false
  end.

(* the soundness of the closed check: it yields a ladder the containment theorem applies to *)
Lemma dispatcher_contains_sound te oe fin :
  dispatcher_contains te oe fin = true ->
  exists l, ladder_of_facts te oe = Some l /\ ladder_contains l = true /\ finally_releases fin = true.
Proof.
  unfold dispatcher_contains. destruct (ladder_of_facts te oe) as [l|]; [|discriminate].
  intro H. apply andb_true_iff in H as [H1 H2]. exists l. auto.
Qed.

Theorem server_line_contained_gen te oe fin :
  dispatcher_contains te oe fin = true ->
  exists lad, ladder_of_facts te oe = Some lad /\
  forall (S : Type) (handle : S -> text -> text -> option S) dec limit (srv : sessions S) sid ls,
  exists srv', deliver S handle lad dec limit srv sid ls = Served S srv'
    /\ (forall sid', sid' <> sid -> find_session S sid' srv' = find_session S sid' srv)
    /\ (forall e, server_parse_command dec limit ls = CmdExc e -> find_session S sid srv' = None).
Proof.
  intro H. destruct (dispatcher_contains_sound _ _ _ H) as [l [H1 [H2 _]]].
  exists l. split; [exact H1|]. intros. apply server_line_contained. exact H2.
Qed.

(* the reader is not vacuous: dropping the catch-all, or a catch-all that re-raises, fails it *)
Example dispatcher_without_catch_all :
  dispatcher_contains [("errors.PathIOError", ["response:451"; "continue"])]
                      [("asyncio.CancelledError", ["raise"])]
                      ["=>pop:connections"; "loop_open=>close:control"] = false.
Proof. reflexivity. Qed.
Example dispatcher_reraising_catch_all :
  dispatcher_contains [] [("Exception", ["raise"])] ["=>pop:connections"; "loop_open=>close:control"] = false.
Proof. reflexivity. Qed.
Example dispatcher_without_pop :
  dispatcher_contains [] [("Exception", ["log"])] ["loop_open=>close:control"] = false.
Proof. reflexivity. Qed.
Example ladder_as_read_is_todays :
  ladder_of_facts [("errors.PathIOError", ["response:451"; "continue"]);
                   ("asyncio.CancelledError", ["response:426"; "response:226"; "continue"])]
                  [("asyncio.CancelledError", ["raise"]); ("Exception", ["log"])] = Some ladder_as_read.
Proof. reflexivity. Qed.
