(* Proofs about Model/Parsers.v (C19) *)
From Coq Require Import ZArith List Bool Lia.
From Verif Require Import Lib.Sx Lib.PyStr Lib.PyStr3 Model.Framing Model.Parsers.
Import ListNotations.
Open Scope Z_scope.
Lemma stub : True. Proof. exact I. Qed.
