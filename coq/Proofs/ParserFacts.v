(* C19: the structure of the client parsers, REGENERATED from /repo/src/aioftp/client.py by
   tools/py2v/gen_parser_facts.py on every run (Gen/ParserFacts.v), checked against what
   Model/Parsers.v was written from.  Closed boolean obligations, discharged by vm_compute in
   Props/C19.v; every reader below is fail-closed (an unknown class name makes the check false). *)
From Coq Require Import ZArith List Bool.
From Verif Require Import Lib.Sx Lib.PyStr Lib.PyStr3 Model.Framing Model.Parsers Proofs.PyStrFacts Proofs.Parsers.
Import ListNotations.
Open Scope Z_scope.

Definition all_exc : list exc :=
  [ValueError; KeyError; IndexError; UnicodeDecodeError; StatusCodeError; ConnectionResetError;
   AttributeError; TypeError; OverflowError; TimeoutError; PathIOError; CancelledError].

Lemma all_exc_complete e : In e all_exc.
Proof. destruct e; cbn; tauto. Qed.

(* isinstance(e, <class named nm>) for the classes an except tuple may name; None = a name
   this reader does not know (the check then fails) *)
Definition n_ValueError : text := [86; 97; 108; 117; 101; 69; 114; 114; 111; 114].
Definition n_KeyError : text := [75; 101; 121; 69; 114; 114; 111; 114].
Definition n_IndexError : text := [73; 110; 100; 101; 120; 69; 114; 114; 111; 114].
Definition n_LookupError : text := [76; 111; 111; 107; 117; 112; 69; 114; 114; 111; 114].
Definition n_UnicodeError : text := [85; 110; 105; 99; 111; 100; 101; 69; 114; 114; 111; 114].
Definition n_UnicodeDecodeError : text :=
  [85; 110; 105; 99; 111; 100; 101; 68; 101; 99; 111; 100; 101; 69; 114; 114; 111; 114].
Definition n_Exception : text := [69; 120; 99; 101; 112; 116; 105; 111; 110].
Definition n_append : text := [97; 112; 112; 101; 110; 100].

Definition instance_of (nm : text) (e : exc) : option bool :=
  if text_eqb nm n_ValueError then Some (match e with ValueError | UnicodeDecodeError => true | _ => false end)
  else if text_eqb nm n_UnicodeError || text_eqb nm n_UnicodeDecodeError
       then Some (match e with UnicodeDecodeError => true | _ => false end)
  else if text_eqb nm n_KeyError then Some (match e with KeyError => true | _ => false end)
  else if text_eqb nm n_IndexError then Some (match e with IndexError => true | _ => false end)
  else if text_eqb nm n_LookupError then Some (match e with KeyError | IndexError => true | _ => false end)
  else if text_eqb nm n_Exception then Some (match e with CancelledError => false | _ => true end)
  else None.

Fixpoint caught_by (names : list text) (e : exc) : option bool :=
  match names with
  | [] => Some false
  | nm :: r => match instance_of nm e, caught_by r e with
               | Some a, Some b => Some (a || b)
               | _, _ => None
               end
  end.

Definition opt_bool_eqb (o : option bool) (b : bool) : bool :=
  match o with Some x => Bool.eqb x b | None => false end.

(* the model's funnel is the source's except tuple, class by class *)
Definition funnel_check (names : list text) : bool :=
  forallb (fun e => opt_bool_eqb (caught_by names e) (funnel e)) all_exc.

Lemma funnel_check_sound names :
  funnel_check names = true -> forall e, caught_by names e = Some (funnel e).
Proof.
  unfold funnel_check. rewrite forallb_forall. intros H e. specialize (H e (all_exc_complete e)).
  destruct (caught_by names e) as [b|]; [|discriminate]. cbn in H. apply Bool.eqb_prop in H. subst. reflexivity.
Qed.

(* the regular expressions the two hand-written matchers stand for *)
Definition epsv_regex_modelled : text := [92; 40; 40; 46; 41; 92; 49; 92; 49; 92; 100; 43; 92; 49; 92; 41].
Definition pasv_regex_modelled : text := [91; 94; 40; 93; 42; 92; 40; 40; 91; 94; 41; 93; 42; 41].

(* parse_unix_mode's tables *)
Definition rw_table_check (tbl : list (text * Z)) : bool :=
  Nat.eqb (length tbl) 4
  && forallb (fun kv => match parse_rw (fst kv) with Ok v => v =? snd kv | Exc _ => false end) tbl
  && forallb (fun kv => Nat.eqb (length (filter (fun kv' => text_eqb (fst kv) (fst kv')) tbl)) 1) tbl.

Definition zz_eqb (a b : Z * Z) : bool := (fst a =? fst b) && (snd a =? snd b).
Definition zzz_eqb (a b : Z * Z * Z) : bool := zz_eqb (fst a) (fst b) && (snd a =? snd b).
Fixpoint list_eqb {A} (eqb : A -> A -> bool) (a b : list A) : bool :=
  match a, b with
  | [], [] => true
  | x :: a', y :: b' => eqb x y && list_eqb eqb a' b'
  | _, _ => false
  end.

(* position i: (special char, its bits), ('x', its bits), ('-', 0), anything else ValueError;
   compared with Model.special_bit on a string that has the character at position i *)
Definition special_model (i : Z) : option (Z * Z * Z * Z * Z) :=
  if i =? 2 then Some (115, 2112, 64, 83, 2048) else if i =? 5 then Some (115, 1032, 8, 83, 1024)
  else if i =? 8 then Some (116, 512, 1, 84, 512) else None.

Definition special_check (sp : list (Z * list (Z * Z))) : bool :=
  Nat.eqb (length sp) 3
  && list_eqb Z.eqb (map fst sp) [2; 5; 8]
  && forallb (fun e =>
       match special_model (fst e) with
       | None => false
       | Some (cs, vs, vx, cu, vu) =>
           Nat.eqb (length (snd e)) 4
           && forallb (fun cv =>
                match special_bit (repeat 0 (Z.to_nat (fst e)) ++ [fst cv]) (Z.to_nat (fst e)) cs vs vx cu vu with
                | Ok v => v =? snd cv
                | Exc _ => false
                end) (snd e)
           && list_eqb Z.eqb (map fst (snd e)) [cs; 120; cu; 45]
       end) sp.

(* the lister skips exactly the names for which the model's is_dot_name holds *)
Definition skip_check (names : list text) : bool :=
  Nat.eqb (length names) 2 && forallb is_dot_name names
  && negb (match names with [a; b] => text_eqb a b | _ => true end).

Definition list_line_chain_modelled : list text :=
  [[112; 97; 114; 115; 101; 95; 108; 105; 115; 116; 95; 108; 105; 110; 101; 95; 117; 110; 105; 120];
   [112; 97; 114; 115; 101; 95; 108; 105; 115; 116; 95; 108; 105; 110; 101; 95; 119; 105; 110; 100; 111; 119; 115]].
Definition recursion_test_modelled : text :=
  [105; 110; 102; 111; 91; 39; 116; 121; 112; 101; 39; 93; 32; 61; 61; 32; 39; 100; 105; 114; 39; 32;
   97; 110; 100; 32; 114; 101; 99; 117; 114; 115; 105; 118; 101].

(* the guards of the F12 repair, "<test>:<class raised>" as the translator prints them; the
   unrepaired source yields the empty text (or the old windows test) and computes false *)
Definition g_unix_modelled : text := [110; 111; 116; 32; 115; 58; 86; 97; 108; 117; 101; 69; 114; 114; 111; 114].
Definition g_windows_modelled : text :=
  [110; 111; 116; 32; 102; 105; 108; 101; 110; 97; 109; 101; 32; 111; 114; 32; 102; 105; 108; 101; 110; 97; 109; 101;
   32; 61; 61; 32; 39; 46; 39; 32; 111; 114; 32; 102; 105; 108; 101; 110; 97; 109; 101; 32; 61; 61; 32; 39; 46; 46; 39;
   58; 86; 97; 108; 117; 101; 69; 114; 114; 111; 114].
Definition g_mlsx_targets_modelled : text :=
  [40; 102; 97; 99; 116; 115; 95; 102; 111; 117; 110; 100; 44; 32; 115; 101; 112; 44; 32; 110; 97; 109; 101; 41].
Definition g_mlsx_modelled : text :=
  [110; 111; 116; 32; 115; 101; 112; 32; 111; 114; 32; 110; 111; 116; 32; 110; 97; 109; 101; 58; 86; 97; 108; 117;
   101; 69; 114; 114; 111; 114].
Definition g_type_modelled : text :=
  [39; 116; 121; 112; 101; 39; 32; 110; 111; 116; 32; 105; 110; 32; 105; 110; 102; 111; 58; 86; 97; 108; 117; 101; 69;
   114; 114; 111; 114].

Definition repair_guards_check (gu gw mt gm gt : text) : bool :=
  text_eqb gu g_unix_modelled && text_eqb gw g_windows_modelled && text_eqb mt g_mlsx_targets_modelled
  && text_eqb gm g_mlsx_modelled && text_eqb gt g_type_modelled.

Definition parser_facts_check
  (ok : bool) (chain funnel_names : list text) (handler final : text)
  (eregex : text) (epick : Z) (eslice : Z * Z) (pregex : text)
  (rw : list (text * Z)) (rw_slices : list (Z * Z * Z)) (sp : list (Z * list (Z * Z)))
  (skip : list text) (rectest : text) : bool :=
  ok
  && list_eqb text_eqb chain list_line_chain_modelled
  && funnel_check funnel_names && text_eqb handler n_append && text_eqb final n_ValueError
  && text_eqb eregex epsv_regex_modelled && (epick =? -1) && zz_eqb eslice (4, -2)
  && text_eqb pregex pasv_regex_modelled
  && rw_table_check rw && list_eqb zzz_eqb rw_slices [(0, 2, 6); (3, 5, 3); (6, 8, 0)] && special_check sp
  && skip_check skip && text_eqb rectest recursion_test_modelled.

(* what the boolean buys: the model's funnel IS the source's except tuple *)
Lemma parser_facts_funnel ok chain fn handler final er ep es pr rw rws sp skip rt :
  parser_facts_check ok chain fn handler final er ep es pr rw rws sp skip rt = true ->
  forall e, caught_by fn e = Some (funnel e).
Proof.
  unfold parser_facts_check. intro H. repeat (apply andb_true_iff in H as [H ?]).
  apply funnel_check_sound. assumption.
Qed.

(* the unrepaired shapes compute false (reverting the F12 / F13b repairs is detected) *)
Example unrepaired_guards_fail :
  repair_guards_check []
    [102; 105; 108; 101; 110; 97; 109; 101; 32; 61; 61; 32; 39; 46; 39; 32; 111; 114; 32; 102; 105; 108; 101; 110; 97;
     109; 101; 32; 61; 61; 32; 39; 46; 46; 39; 58; 86; 97; 108; 117; 101; 69; 114; 114; 111; 114]
    [40; 102; 97; 99; 116; 115; 95; 102; 111; 117; 110; 100; 44; 32; 95; 44; 32; 110; 97; 109; 101; 41] [] [] = false.
Proof. vm_compute. reflexivity. Qed.
Example unrepaired_type_guard_fails :
  repair_guards_check g_unix_modelled g_windows_modelled g_mlsx_targets_modelled g_mlsx_modelled [] = false.
Proof. vm_compute. reflexivity. Qed.
Example unrepaired_special_bits_fail :
  special_check [(2, [(115, 2112); (120, 64); (45, 0)]); (5, [(115, 1032); (120, 8); (45, 0)]);
                 (8, [(116, 512); (120, 1); (45, 0)])] = false.
Proof. vm_compute. reflexivity. Qed.

(* the readers are not vacuous: each of these variants of the source fails the check *)
Example funnel_without_index_error : funnel_check [n_ValueError; n_KeyError] = false.
Proof. vm_compute. reflexivity. Qed.
Example funnel_with_lookup_error : funnel_check [n_ValueError; n_LookupError] = true.
Proof. vm_compute. reflexivity. Qed.
Example funnel_with_exception : funnel_check [n_Exception] = false.
Proof. vm_compute. reflexivity. Qed.
Example funnel_unknown_class : funnel_check [n_ValueError; n_KeyError; n_IndexError; [79; 83; 69; 114; 114; 111; 114]] = false.
Proof. vm_compute. reflexivity. Qed.
Example skip_only_dot : skip_check [[46]] = false.
Proof. vm_compute. reflexivity. Qed.
Example rw_table_changed : rw_table_check [([114; 119], 6); ([114; 45], 4); ([45; 119], 2); ([45; 45], 1)] = false.
Proof. vm_compute. reflexivity. Qed.

(* ---- the inventory of ALL regular expressions of the aioftp sources (Gen/RegexInventory.v) ----
   "never hangs": no pattern has an unbounded repeat over a body that can match the same text in several ways
   (nested quantifier, e.g. (?:\d+,?)+ : exponential backtracking on an almost-matching input); the verdict is computed
   by the translator with CPython's own pattern parser, here it is only read.  And the patterns are exactly the two
   the hand-written matchers of Model/Parsers.v stand for, in the functions that use them. *)
Definition n_client_py : text := [99; 108; 105; 101; 110; 116; 46; 112; 121].
Definition n_parse_epsv : text := [112; 97; 114; 115; 101; 95; 101; 112; 115; 118; 95; 114; 101; 115; 112; 111; 110; 115; 101].
Definition n_parse_pasv : text := [112; 97; 114; 115; 101; 95; 112; 97; 115; 118; 95; 114; 101; 115; 112; 111; 110; 115; 101].

Definition regex_entry := (text * text * text * bool)%type.
Definition re_file (e : regex_entry) : text := fst (fst (fst e)).
Definition re_func (e : regex_entry) : text := snd (fst (fst e)).
Definition re_pattern (e : regex_entry) : text := snd (fst e).
Definition re_nested (e : regex_entry) : bool := snd e.

Definition regex_no_nested_quantifier (ok : bool) (inv : list regex_entry) : bool :=
  ok && forallb (fun e => negb (re_nested e)) inv.

Definition regex_inventory_check (ok : bool) (inv : list regex_entry) : bool :=
  ok && Nat.eqb (length inv) 2
  && forallb (fun e => text_eqb (re_file e) n_client_py
                       && ((text_eqb (re_func e) n_parse_epsv && text_eqb (re_pattern e) epsv_regex_modelled)
                           || (text_eqb (re_func e) n_parse_pasv && text_eqb (re_pattern e) pasv_regex_modelled))) inv
  && existsb (fun e => text_eqb (re_func e) n_parse_epsv) inv
  && existsb (fun e => text_eqb (re_func e) n_parse_pasv) inv.

(* the seeded pattern (a nested quantifier with an optional separator) is flagged and is not the modelled one *)
Example regex_nested_is_flagged :
  regex_no_nested_quantifier true [(n_client_py, n_parse_pasv, [92; 40; 40; 40; 63; 58; 92; 100; 43; 44; 63; 41; 43; 41; 92; 41], true)] = false.
Proof. vm_compute. reflexivity. Qed.
Example regex_other_pattern_fails :
  regex_inventory_check true [(n_client_py, n_parse_epsv, epsv_regex_modelled, false);
                              (n_client_py, n_parse_pasv, [92; 40; 40; 40; 63; 58; 92; 100; 43; 44; 63; 41; 43; 41; 92; 41], false)] = false.
Proof. vm_compute. reflexivity. Qed.

(* ---- how peer bytes become text ----
   Model/Parsers.v takes decoding to be a FUNCTION `dec : list Z -> option text` of the line: nothing survives the call and
   nothing is shared between sessions (C19_server_line_contained is stated for every such function).  In the source this is
   `<bytes>.decode(encoding=self.encoding)` at every site; a stored codec object / incremental decoder (whose buffered tail of a
   line cut inside a multi-byte character would leak into the next line of ANY session) is a different text and fails the check. *)
Definition decode_sites_modelled : list (text * text * text) :=
  [([115; 101; 114; 118; 101; 114; 46; 112; 121], [112; 97; 114; 115; 101; 95; 99; 111; 109; 109; 97; 110; 100], [108; 105; 110; 101; 46; 100; 101; 99; 111; 100; 101; 40; 101; 110; 99; 111; 100; 105; 110; 103; 61; 115; 101; 108; 102; 46; 101; 110; 99; 111; 100; 105; 110; 103; 41]);
   ([99; 108; 105; 101; 110; 116; 46; 112; 121], [112; 97; 114; 115; 101; 95; 108; 105; 110; 101], [108; 105; 110; 101; 46; 100; 101; 99; 111; 100; 101; 40; 101; 110; 99; 111; 100; 105; 110; 103; 61; 115; 101; 108; 102; 46; 101; 110; 99; 111; 100; 105; 110; 103; 41]);
   ([99; 108; 105; 101; 110; 116; 46; 112; 121], [112; 97; 114; 115; 101; 95; 108; 105; 115; 116; 95; 108; 105; 110; 101; 95; 117; 110; 105; 120], [98; 46; 100; 101; 99; 111; 100; 101; 40; 101; 110; 99; 111; 100; 105; 110; 103; 61; 115; 101; 108; 102; 46; 101; 110; 99; 111; 100; 105; 110; 103; 41]);
   ([99; 108; 105; 101; 110; 116; 46; 112; 121], [112; 97; 114; 115; 101; 95; 108; 105; 115; 116; 95; 108; 105; 110; 101; 95; 119; 105; 110; 100; 111; 119; 115], [98; 46; 100; 101; 99; 111; 100; 101; 40; 101; 110; 99; 111; 100; 105; 110; 103; 61; 115; 101; 108; 102; 46; 101; 110; 99; 111; 100; 105; 110; 103; 41]);
   ([99; 108; 105; 101; 110; 116; 46; 112; 121], [112; 97; 114; 115; 101; 95; 109; 108; 115; 120; 95; 108; 105; 110; 101], [98; 46; 100; 101; 99; 111; 100; 101; 40; 101; 110; 99; 111; 100; 105; 110; 103; 61; 115; 101; 108; 102; 46; 101; 110; 99; 111; 100; 105; 110; 103; 41])].

Definition triple_eqb (a b : text * text * text) : bool :=
  text_eqb (fst (fst a)) (fst (fst b)) && text_eqb (snd (fst a)) (snd (fst b)) && text_eqb (snd a) (snd b).

Definition decode_sites_check (sites : list (text * text * text)) : bool :=
  list_eqb triple_eqb sites decode_sites_modelled.

Example shared_decoder_fails :
  decode_sites_check (([115; 101; 114; 118; 101; 114; 46; 112; 121], [112; 97; 114; 115; 101; 95; 99; 111; 109; 109; 97; 110; 100], [115; 101; 108; 102; 46; 95; 100; 101; 99; 111; 100; 101; 95; 108; 105; 110; 101; 40; 108; 105; 110; 101; 41]) :: tl decode_sites_modelled) = false.
Proof. vm_compute. reflexivity. Qed.

(* ---- what a control line can make the dispatcher run ----
   Model/Parsers.v gives a command an effect on ITS OWN session only (`handle : S -> text -> text -> option S`; C19_server_line_contained:
   every other session's record is untouched).  That rests on the set of callables a peer can reach being the command table.  In the source:
   the only dynamically determined callee in Server.dispatcher -- a local that is called, resolved through every binding it has, or a
   non-attribute callee expression, or a reflective primitive (getattr / eval / globals ...) -- is `self.commands_mapping.get(<verb>)`
   (locals alpha-renamed by the translator: L0).  A fall-back such as `getattr(self, verb)` lets an unauthenticated peer call public
   Server methods (greeting, start, ...) whose effects are server-wide: a second text, the check is false. *)
Definition dispatch_callees_modelled : list text :=
  [[115; 101; 108; 102; 46; 99; 111; 109; 109; 97; 110; 100; 115; 95; 109; 97; 112; 112; 105; 110; 103; 46; 103; 101; 116; 40; 76; 48; 41]].

Definition dispatch_callees_check (cs : list text) : bool := list_eqb text_eqb cs dispatch_callees_modelled.

Example reflective_fallback_fails :
  dispatch_callees_check (dispatch_callees_modelled ++ [[103; 101; 116; 97; 116; 116; 114; 40; 115; 101; 108; 102; 44; 32; 76; 48; 44; 32; 78; 111; 110; 101; 41]]) = false.
Proof. vm_compute. reflexivity. Qed.

Example no_table_lookup_fails : dispatch_callees_check [] = false.
Proof. vm_compute. reflexivity. Qed.
