(* Proofs about Model/LoginRace.v (C03, finding F20). *)
From Coq Require Import ZArith List Bool String.
From Verif Require Import Lib.Sx Lib.PyStr Lib.Facts Lib.HandlerFacts Model.Session Model.HandlerProg Model.LoginRace.
From Verif Require Import Proofs.HandlerProg.
From Verif Require Gen.Handlers.
Import ListNotations.
Open Scope list_scope.
Open Scope string_scope.

(* today's pass_ / user split at their awaits (closed obligations on the translated source) *)
Lemma gen_login_programs_split :
  (match split_pass (prog_of Gen.Handlers.programs "pass_") with Some _ => true | None => false end) = true
  /\ (match split_user (hp_body (prog_of Gen.Handlers.programs "user")) with
      | Some (pre, post) => (List.length pre =? 4)%nat && (List.length post =? 5)%nat
      | None => false end) = true.
Proof. vm_compute. split; reflexivity. Qed.

(* the login handlers of today's source are the reference programs: their only awaits are
   authenticate (pass_) and notify_logout, get_user (user) -- any other suspension point (a sleep, another
   await) is an unclassified statement and breaks this *)
Lemma gen_login_programs_reference :
  prog_of Gen.Handlers.programs "pass_" = prog_of ref_programs "pass_"
  /\ prog_of Gen.Handlers.programs "user" = prog_of ref_programs "user".
Proof. vm_compute. split; reflexivity. Qed.

Section Race.
  Variable users : list user.
  Variable self : string -> text -> dataact -> bool -> world -> result.

  (* nothing handled at the await (what one lock around the login handlers enforces): the suspended pass_ IS the
     sequential body, to which the sequential theorems of C03 apply *)
  Theorem suspended_pass_alone_is_body : forall arg d appe w,
    s_logged (w_s w) = false -> s_user (w_s w) <> None ->
    suspended_pass users self (prog_of ref_programs "pass_") arg (fun x => x) w
    = Some (body users self "pass_" arg d appe w).
  Proof.
    intros arg d appe w L U. unfold suspended_pass.
    destruct w as [s fs lg]. destruct s as [u l cw rn rs pa da en]. cbn in L, U. subst l.
    destruct u as [i|]; [|congruence]. clear U.
    cbn. unfold authenticate. destruct (nth_error users i) as [usr|]; [|reflexivity].
    destruct (opt_text_eqb (u_password usr) (Some arg)); reflexivity.
  Qed.

  Theorem suspended_user_alone_is_body : forall arg d appe w,
    suspended_user users self (prog_of ref_programs "user") arg (fun x => x) w
    = Some (body users self "user" arg d appe w).
  Proof.
    intros arg d appe w. unfold suspended_user.
    destruct w as [s fs lg]. destruct s as [u l cw rn rs pa da en].
    cbn -[find_user]. unfold get_user.
    destruct (find_user users 0 arg None) as [i|] eqn:F.
    2:{ destruct u; reflexivity. }
    destruct (nth_error users i) as [usr|] eqn:N.
    2:{ destruct u; reflexivity. }
    destruct (u_login usr), (u_password usr), u; cbn; rewrite ?N; reflexivity.
  Qed.

  (* whatever runs at the await: if the suspended pass_ logs the session in, then the password it was given is the
     password of the user that was pending WHEN IT STARTED -- which need not be the user of the session afterwards *)
  Theorem suspended_pass_authenticated_the_old_user : forall arg between w r,
    suspended_pass users self (prog_of ref_programs "pass_") arg between w = Some r ->
    s_logged (w_s (between w)) = false ->
    s_logged (w_s (fst (fst r))) = true ->
    exists i, s_user (w_s w) = Some i /\ authenticate users i arg = true
              /\ s_user (w_s (fst (fst r))) = s_user (w_s (between w)).
  Proof.
    intros arg between w r H Lb Lr. unfold suspended_pass in H. cbn [prog_of assoc_s ref_programs String.eqb Ascii.eqb Bool.eqb split_pass hp_body P] in H.
    unfold pass_begin in H. destruct (s_logged (w_s w)); [discriminate|].
    cbn [cond eval pp_user pp_pw init_state st_w String.eqb Ascii.eqb Bool.eqb] in H.
    destruct (s_user (w_s w)) as [i|] eqn:U; [|discriminate].
    cbn [eval_text eval] in H.
    destruct (authenticate users i arg) eqn:A.
    - exists i. split; [reflexivity|]. split; [exact A|].
      unfold pass_resume in H. cbn in H. injection H as <-. reflexivity.
    - unfold pass_resume in H. cbn in H. injection H as <-. cbn in Lr. rewrite Lb in Lr. discriminate.
  Qed.
End Race.

(* ---- the witnesses (finding F20) ---- *)
Definition RU : list user :=
  [{| u_login := Some (t_of "alice"); u_password := Some (t_of "alicepw"); u_home := [t_of "pub"]; u_perms := [] |};
   {| u_login := Some (t_of "admin"); u_password := Some (t_of "adminpw"); u_home := [t_of "adm"]; u_perms := [] |};
   {| u_login := Some (t_of "bob"); u_password := None; u_home := [t_of "bob"]; u_perms := [] |}].
Definition RW0 : world := {| w_s := init_sess; w_fs := NDir []; w_log := [] |}.
Definition no_self : string -> text -> dataact -> bool -> world -> result := fun _ _ _ _ w => (w, mk_out [], true).

(* USER alice (331); then PASS alicepw suspended in authenticate() while USER admin is handled:
   the session ends up logged in as admin (index 1), home /adm, on alice's password *)
Lemma pass_race_witness :
  let w1 := user_cmd RU (t_of "alice") RW0 in
  option_map (fun r => (s_user (w_s (fst (fst r))), s_logged (w_s (fst (fst r))), s_cwd (w_s (fst (fst r))), o_codes (snd (fst r))))
    (suspended_pass RU no_self (prog_of Gen.Handlers.programs "pass_") (t_of "alicepw") (user_cmd RU (t_of "admin")) w1)
  = Some (Some 1%nat, true, [t_of "adm"], [code "230"])
  /\ authenticate RU 1 (t_of "alicepw") = false.
Proof. vm_compute. split; reflexivity. Qed.

(* USER admin suspended in get_user() while USER bob (password-less: 230 at once) is handled: logged in as admin *)
Lemma user_race_witness :
  option_map (fun r => (s_user (w_s (fst (fst r))), s_logged (w_s (fst (fst r))), o_codes (snd (fst r))))
    (suspended_user RU no_self (prog_of Gen.Handlers.programs "user") (t_of "admin") (user_cmd RU (t_of "bob")) RW0)
  = Some (Some 1%nat, true, [code "331"]).
Proof. vm_compute. reflexivity. Qed.

(* ---- a transfer accepted under one login and served after commands handled in between ---- *)
(* the worker a transfer handler schedules is fixed by (cwd at command time, argument): the path it will hand to the
   backend is resolved when the command is handled, not when the data connection arrives *)
Theorem scheduled_worker_fixed_at_command_time : forall users self arg d appe w,
  scheduled users self (prog_of ref_programs "list") arg d appe w
    = Some (w, worker_den "list_worker" [VReal (resolve (s_cwd (w_s w)) arg)] d)
  /\ scheduled users self (prog_of ref_programs "mlsd") arg d appe w
    = Some (w, worker_den "mlsd_worker" [VReal (resolve (s_cwd (w_s w)) arg)] d)
  /\ scheduled users self (prog_of ref_programs "retr") arg d appe w
    = Some (w, worker_den "retr_worker" [VReal (resolve (s_cwd (w_s w)) arg)] d)
  /\ (is_dir (removelast (resolve (s_cwd (w_s w)) arg)) (w_fs w) = true ->
      scheduled users self (prog_of ref_programs "stor") arg d appe w
      = Some (log_call w "is_dir" (removelast (resolve (s_cwd (w_s w)) arg)),
              worker_den "stor_worker" [VReal (resolve (s_cwd (w_s w)) arg); VText (if appe then t_of "ab" else t_of "wb")] d)).
Proof.
  intros users self arg d appe w. repeat split.
  intros H. unfold scheduled. cbn -[resolve is_dir worker_den t_of]. rewrite H. destruct appe; reflexivity.
Qed.

(* ... so what is served later does not depend on who is (or is not) logged in, or on the working directory, at the
   moment of serving: two later worlds with the same tree and transfer offset are served the same listing / bytes,
   and the backend is asked about the same path *)
Definition same_store (a b : world) : Prop := w_fs a = w_fs b /\ s_rest (w_s a) = s_rest (w_s b).

Theorem served_object_independent_of_later_session : forall wn p d k a b,
  worker_den wn [VReal p] d = Some k -> same_store a b ->
  snd (k a) = snd (k b)
  /\ w_fs (fst (k a)) = w_fs (fst (k b))
  /\ exists m, w_log (fst (k a)) = (w_log a ++ [(m, p)])%list /\ w_log (fst (k b)) = (w_log b ++ [(m, p)])%list.
Proof.
  intros wn p d k a b H [F R]. unfold worker_den in H.
  destruct (String.eqb wn "list_worker").
  { injection H as <-. cbn. rewrite F. split; [reflexivity|split; [reflexivity|exists "list"; split; reflexivity]]. }
  destruct (String.eqb wn "mlsd_worker").
  { injection H as <-. cbn. rewrite F. split; [reflexivity|split; [reflexivity|exists "list"; split; reflexivity]]. }
  destruct (String.eqb wn "retr_worker"); [|discriminate].
  injection H as <-. cbn. rewrite F, R.
  destruct (lookup p (w_fs b)) as [[c|ch]|]; cbn;
    (split; [reflexivity|split; [first [exact F | reflexivity]|exists "open"; split; reflexivity]]).
Qed.
