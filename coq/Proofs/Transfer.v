(* Proofs about Model/Transfer.v: what ending a session / an ABOR does to every worker stage,
   soundness of the finally-block checker, ledger emptiness, the ABOR theorems. *)
From Coq Require Import ZArith List Bool String Arith Lia.
From Verif Require Import Lib.Sx Lib.Facts Model.Transfer.
Import ListNotations.
Open Scope list_scope.

(* ------------------------------------------------------------------ small tools *)
Lemma all_bool_spec : forall f, all_bool f = true -> forall b, f b = true.
Proof. unfold all_bool; intros f H b; apply andb_prop in H; destruct H; destruct b; assumption. Qed.

Lemma all_lst_spec : forall f, all_lst f = true -> forall l, f l = true.
Proof.
  unfold all_lst; intros f H l.
  apply andb_prop in H; destruct H as [H H4].
  apply andb_prop in H; destruct H as [H H3].
  apply andb_prop in H; destruct H as [H1 H2].
  destruct l as [| | |o p]; try assumption.
  pose proof (all_bool_spec _ H4 o) as Ho. exact (all_bool_spec _ Ho p).
Qed.

(* ------------------------------------------------------------------ one worker *)
Definition same_data (w w' : wrk) : Prop :=
  w_kind w' = w_kind w /\ w_moved w' = w_moved w /\ w_rest w' = w_rest w.

Lemma same_data_refl : forall w, same_data w w.
Proof. unfold same_data; auto. Qed.
Lemma same_data_trans : forall a b c, same_data a b -> same_data b c -> same_data a c.
Proof. unfold same_data; intros a b c (H1 & H2 & H3) (H4 & H5 & H6); repeat split; congruence. Qed.

(* stage indices lie inside the worker's context list *)
Definition stage_ok (wf : wfacts) (s : stage) : bool :=
  match s with
  | EnteringCtx i | ExitingCtx i => Nat.ltb i (List.length (wf_ctx wf))
  | _ => true
  end.

Lemma terminal_holds : forall wf w, terminal (w_stage w) = true ->
  stream_held wf w = w_leak w /\ file_open wf w = false.
Proof. intros wf [k st e l m r] H; destruct st; simpl in *; try discriminate; auto. Qed.

Lemma settle_spec : forall cc wf e w,
  terminal (w_stage (fst (settle_exn cc wf e w))) = true
  /\ w_leak (fst (settle_exn cc wf e w)) = w_leak w
  /\ same_data w (fst (settle_exn cc wf e w)).
Proof.
  intros cc wf e [k st x l m r]; unfold settle_exn, same_data.
  destruct e; simpl; try (rewrite orb_false_r; auto).
  destruct (if wf_has_worker wf then cc else None); simpl; rewrite orb_false_r; auto.
Qed.

Lemma settle_set_stage : forall cc wf e w s, settle_exn cc wf e (set_stage w s) = settle_exn cc wf e w.
Proof.
  intros cc wf e [k st x l m r] s; unfold settle_exn, set_stage, set_exc; simpl.
  destruct e; reflexivity.
Qed.

Lemma wstep_terminal : forall cc wf d w, terminal (w_stage w) = true -> wstepC cc wf d w = (w, false, []).
Proof. intros cc wf d [k st x l m r] H; destruct st; simpl in *; try discriminate; reflexivity. Qed.

Lemma wrun_terminal : forall cc wf n w, terminal (w_stage w) = true -> wrunC cc wf n w = (w, []).
Proof.
  induction n; intros w H; simpl; [reflexivity|].
  rewrite wstep_terminal by assumption. rewrite IHn by assumption. reflexivity.
Qed.

Lemma settle_terminal : forall cc wf e w, terminal (w_stage (fst (settle_exn cc wf e w))) = true.
Proof. intros; apply settle_spec. Qed.

(* unwinding: from ExitingCtx j with an exception in flight, j+1 steps reach the decorators *)
Lemma wrun_exiting : forall cc wf e j m w,
  w_stage w = ExitingCtx j -> w_exc w = Some e ->
  wrunC cc wf (S j + m)%nat w = settle_exn cc wf e w.
Proof.
  induction j; intros m w Hs He.
  - change (S 0 + m)%nat with (S m). simpl. unfold wstepC. rewrite Hs. unfold finish. rewrite He.
    destruct (settle_exn cc wf e w) as [w' r] eqn:E.
    rewrite wrun_terminal.
    + rewrite app_nil_r; reflexivity.
    + change w' with (fst (w', r)); rewrite <- E; apply settle_terminal.
  - change (S (S j) + m)%nat with (S (S j + m))%nat.
    cbn [wrunC]. unfold wstepC at 1. rewrite Hs. cbv beta iota.
    rewrite (IHj m (set_stage w (ExitingCtx j))).
    + rewrite settle_set_stage. destruct (settle_exn cc wf e w); reflexivity.
    + destruct w; reflexivity.
    + destruct w; simpl in *; assumption.
Qed.

(* -- skipping stages that cannot suspend *)
Definition kept (wf : wfacts) (w w' : wrk) : Prop :=
  same_data w w' /\ w_leak w' = w_leak w
  /\ (stage_ok wf (w_stage w) = true -> stage_ok wf (w_stage w') = true).

Lemma kept_refl : forall wf w, kept wf w w.
Proof. unfold kept; intros; split; [apply same_data_refl | auto]. Qed.
Lemma kept_trans : forall wf a b c, kept wf a b -> kept wf b c -> kept wf a c.
Proof.
  unfold kept; intros wf a b c (H1 & H2 & H3) (H4 & H5 & H6).
  split; [eapply same_data_trans; eauto | split; [congruence | auto]].
Qed.

(* a step from a stage that cannot suspend: nothing is lost, and replies appear only on finishing *)
Lemma wstep_nonpark : forall cc wf w,
  parks wf (w_stage w) = false -> terminal (w_stage w) = false ->
  let '(w', t, r) := wstepC cc wf false w in
  kept wf w w' /\ (r = [] \/ terminal (w_stage w') = true).
Proof.
  intros cc wf [k st x l m r] Hp Ht. destruct st; simpl in Hp, Ht; try discriminate.
  - (* Detached *) unfold wstepC; simpl. unfold kept, same_data; simpl. repeat split; auto.
    intros _. unfold stage_ok. destruct (wf_ctx wf); reflexivity.
  - (* EnteringCtx *) unfold wstepC; simpl. unfold kept, same_data; simpl. repeat split; auto.
    intros _. destruct (Nat.ltb (S i) (List.length (wf_ctx wf))) eqn:E; simpl; auto.
  - (* ExitingCtx *) destruct i as [|j].
    + unfold wstepC; simpl. unfold finish; simpl. destruct x as [e|].
      * destruct (settle_exn cc wf e _) as [w' r'] eqn:E.
        pose proof (settle_spec cc wf e {| w_kind := k; w_stage := ExitingCtx 0; w_exc := Some e; w_leak := l; w_moved := m; w_rest := r |}) as (T & Lk & Sd).
        rewrite E in T, Lk, Sd; simpl in T, Lk, Sd.
        split; [|right; exact T]. unfold kept. repeat split; try apply Sd; auto.
        intros _. destruct (w_stage w'); simpl in *; try discriminate; reflexivity.
      * split; [|right; reflexivity]. unfold kept, same_data; simpl; auto.
    + unfold wstepC; simpl. split; [|left; reflexivity].
      unfold kept, same_data; simpl. repeat split; auto.
      intros H. apply Nat.ltb_lt in H. apply Nat.ltb_lt. lia.
Qed.

Lemma skip_spec : forall cc wf fuel w,
  let '(w', r) := skipC cc wf fuel w in
  kept wf w w' /\ (r = [] \/ terminal (w_stage w') = true).
Proof.
  induction fuel; intros w; simpl.
  - split; [apply kept_refl | auto].
  - destruct (terminal (w_stage w) || parks wf (w_stage w)) eqn:E.
    + split; [apply kept_refl | auto].
    + apply orb_false_iff in E; destruct E as [Et Ep].
      pose proof (wstep_nonpark cc wf w Ep Et) as H1.
      destruct (wstepC cc wf false w) as [[w1 t1] r1].
      destruct H1 as [K1 R1].
      specialize (IHfuel w1). destruct (skipC cc wf fuel w1) as [w2 r2] eqn:Hsk.
      destruct IHfuel as [K2 R2]. split; [eapply kept_trans; eauto|].
      destruct R2 as [->|T]; [|auto]. rewrite app_nil_r.
      destruct R1 as [->|T1]; [auto|].
      (* w1 terminal: skip stops there *)
      right. destruct fuel; simpl in *.
      * inversion Hsk; subst; assumption.
      * rewrite T1 in Hsk; simpl in Hsk. inversion Hsk; subst; assumption.
Qed.

(* -- raising at a parking point, then unwinding *)
Definition hole_stage (wf : wfacts) (s : stage) : bool :=
  match s with
  | Detached => true
  | EnteringCtx i => negb (has_item CStream (firstn i (wf_ctx wf)))
  | Seeking | Loop _ | ExitingCtx _ => negb (has_item CStream (wf_ctx wf))
  | _ => false
  end.

Lemma holeC_eq : forall cc wf w,
  holeC cc wf w = hole_stage wf (w_stage (fst (skipC cc wf (skip_fuel wf) w))).
Proof. reflexivity. Qed.

Definition settle_stage (cc : option (list Z)) (wf : wfacts) (e : exn) : stage :=
  match e with
  | ECancel => match (if wf_has_worker wf then cc else None) with Some _ => Aborted | None => Cancelled end
  | _ => Failed e
  end.
Definition settle_codes (cc : option (list Z)) (wf : wfacts) (e : exn) : list Z :=
  match e with
  | ECancel => match (if wf_has_worker wf then cc else None) with Some c => c | None => [] end
  | _ => []
  end.

Lemma settle_eq : forall cc wf e w,
  settle_exn cc wf e w = (set_stage (set_exc w None false) (settle_stage cc wf e), settle_codes cc wf e).
Proof.
  intros cc wf e w; unfold settle_exn, settle_stage, settle_codes.
  destruct e; try reflexivity. destruct (if wf_has_worker wf then cc else None); reflexivity.
Qed.

Definition unwound (cc : option (list Z)) (wf : wfacts) (e : exn) (w1 w3 : wrk) (rs : list Z) : Prop :=
  terminal (w_stage w3) = true /\ w_leak w3 = false /\ same_data w1 w3
  /\ (in_body (w_stage w1) = true -> w_stage w3 = settle_stage cc wf e /\ rs = settle_codes cc wf e).

Lemma unwound_settle : forall cc wf e w1 w,
  same_data w1 w -> w_leak w = false ->
  unwound cc wf e w1 (fst (settle_exn cc wf e w)) (snd (settle_exn cc wf e w)).
Proof.
  intros cc wf e w1 w Sd Lk. pose proof (settle_spec cc wf e w) as (T & L & S).
  unfold unwound. repeat split; try assumption.
  - congruence.
  - eapply same_data_trans; eauto.
  - eapply same_data_trans; eauto.
  - eapply same_data_trans; eauto.
  - rewrite settle_eq; reflexivity.
  - rewrite settle_eq; reflexivity.
Qed.

Lemma pair_eta : forall A B (p : A * B), p = (fst p, snd p).
Proof. destruct p; reflexivity. Qed.

Lemma raise_unwinds : forall cc wf e w1,
  stage_ok wf (w_stage w1) = true -> hole_stage wf (w_stage w1) = false -> w_leak w1 = false ->
  let '(w2, r2) := raise_at cc wf e w1 in
  let '(w3, r3) := wrunC cc wf (unwind_boundC wf) w2 in
  unwound cc wf e w1 w3 (r2 ++ r3).
Proof.
  intros cc wf e [k st x l mv rs] Hk Hh Hl. simpl in Hl; subst l.
  unfold unwind_boundC.
  destruct st as [ | b | | [|j] | | n | [|j] | | | | e0 | ]; simpl in Hk, Hh; try discriminate Hh.
  - (* Spawned *)
    unfold raise_at; simpl. rewrite wrun_terminal by (destruct e; reflexivity).
    unfold unwound, same_data; simpl. repeat split; try discriminate. destruct e; reflexivity.
  - (* WaitingData *)
    unfold raise_at; cbn [w_stage].
    assert (G : forall w2 r2, terminal (w_stage w2) = true -> w_leak w2 = false ->
              same_data {| w_kind := k; w_stage := WaitingData b; w_exc := x; w_leak := false; w_moved := mv; w_rest := rs |} w2 ->
              let '(w3, r3) := wrunC cc wf (List.length (wf_ctx wf) + 1) w2 in
              unwound cc wf e {| w_kind := k; w_stage := WaitingData b; w_exc := x; w_leak := false; w_moved := mv; w_rest := rs |} w3 (r2 ++ r3)).
    { intros w2 r2 T L S. rewrite wrun_terminal by assumption.
      unfold unwound; simpl. repeat split; try apply S; try assumption; discriminate. }
    destruct e; try (apply G; [reflexivity | reflexivity | unfold same_data; simpl; auto]).
    destruct (wf_wait_outside wf).
    + apply G; [reflexivity | reflexivity | unfold same_data; simpl; auto].
    + rewrite (pair_eta _ _ (settle_exn _ _ _ _)).
      pose proof (settle_spec cc wf ECancel {| w_kind := k; w_stage := WaitingData b; w_exc := x; w_leak := false; w_moved := mv; w_rest := rs |}) as (T & L & S).
      apply G; assumption.
  - (* EnteringCtx (S j) *)
    unfold raise_at; simpl.
    apply negb_false_iff in Hh. rewrite Hh; simpl.
    apply Nat.ltb_lt in Hk.
    replace (List.length (wf_ctx wf) + 1)%nat with (S j + (List.length (wf_ctx wf) - j))%nat by lia.
    rewrite (wrun_exiting cc wf e j) by reflexivity.
    rewrite settle_eq. unfold unwound, same_data; simpl. repeat split; auto.
    destruct e; simpl; try reflexivity. destruct (if wf_has_worker wf then cc else None); reflexivity.
  - (* Seeking *)
    unfold raise_at, start_exit; simpl. apply negb_false_iff in Hh. rewrite Hh; simpl.
    destruct (List.length (wf_ctx wf)) as [|n] eqn:E.
    + destruct (wf_ctx wf); simpl in *; discriminate.
    + replace (S n + 1)%nat with (S n + 1)%nat by lia.
      rewrite (wrun_exiting cc wf e n 1) by reflexivity.
      rewrite settle_eq. unfold unwound, same_data; simpl. repeat split; auto.
      destruct e; simpl; try reflexivity. destruct (if wf_has_worker wf then cc else None); reflexivity.
  - (* Loop *)
    unfold raise_at, start_exit; simpl. apply negb_false_iff in Hh. rewrite Hh; simpl.
    destruct (List.length (wf_ctx wf)) as [|n'] eqn:E.
    + destruct (wf_ctx wf); simpl in *; discriminate.
    + rewrite (wrun_exiting cc wf e n' 1) by reflexivity.
      rewrite settle_eq. unfold unwound, same_data; simpl. repeat split; auto.
      destruct e; simpl; try reflexivity. destruct (if wf_has_worker wf then cc else None); reflexivity.
  - (* ExitingCtx 0 *)
    unfold raise_at, finish; simpl. rewrite settle_eq.
    rewrite wrun_terminal by (destruct e; simpl; try reflexivity; destruct (if wf_has_worker wf then cc else None); reflexivity).
    rewrite app_nil_r. unfold unwound, same_data; simpl. repeat split; auto.
    destruct e; simpl; try reflexivity. destruct (if wf_has_worker wf then cc else None); reflexivity.
  - (* ExitingCtx (S j) *)
    unfold raise_at; simpl. apply Nat.ltb_lt in Hk.
    replace (List.length (wf_ctx wf) + 1)%nat with (S j + (List.length (wf_ctx wf) - j))%nat by lia.
    rewrite (wrun_exiting cc wf e j) by reflexivity.
    rewrite settle_eq. unfold unwound, same_data; simpl. repeat split; auto.
    destruct e; simpl; try reflexivity. destruct (if wf_has_worker wf then cc else None); reflexivity.
  - (* Replied *) unfold raise_at; simpl. rewrite wrun_terminal by reflexivity.
    unfold unwound, same_data; simpl. repeat split; auto; discriminate.
  - unfold raise_at; simpl. rewrite wrun_terminal by reflexivity.
    unfold unwound, same_data; simpl. repeat split; auto; discriminate.
  - unfold raise_at; simpl. rewrite wrun_terminal by reflexivity.
    unfold unwound, same_data; simpl. repeat split; auto; discriminate.
  - unfold raise_at; simpl. rewrite wrun_terminal by reflexivity.
    unfold unwound, same_data; simpl. repeat split; auto; discriminate.
  - unfold raise_at; simpl. rewrite wrun_terminal by reflexivity.
    unfold unwound, same_data; simpl. repeat split; auto; discriminate.
Qed.

(* outcome of raising e in a worker (after running it to its parking point) and letting it unwind *)
Definition after (cc : option (list Z)) (wf : wfacts) (e : exn) (w : wrk) : wrk * list Z :=
  let '(w1, r1) := throwC cc wf e w in
  let '(w2, r2) := wrunC cc wf (unwind_boundC wf) w1 in (w2, r1 ++ r2).

Definition parkedC (cc : option (list Z)) (wf : wfacts) (w : wrk) : stage :=
  w_stage (fst (skipC cc wf (skip_fuel wf) w)).

Lemma after_spec : forall cc wf e w,
  stage_ok wf (w_stage w) = true -> w_leak w = false -> holeC cc wf w = false ->
  terminal (w_stage (fst (after cc wf e w))) = true
  /\ w_leak (fst (after cc wf e w)) = false
  /\ same_data w (fst (after cc wf e w))
  /\ (in_body (parkedC cc wf w) = true ->
      w_stage (fst (after cc wf e w)) = settle_stage cc wf e /\ snd (after cc wf e w) = settle_codes cc wf e).
Proof.
  intros cc wf e w Hk Hl Hh. rewrite holeC_eq in Hh. unfold parkedC, after, throwC.
  pose proof (skip_spec cc wf (skip_fuel wf) w) as Hs.
  destruct (skipC cc wf (skip_fuel wf) w) as [w1 r1]. destruct Hs as [(Sd & Lk & Ok) R1].
  simpl in Hh |- *.
  pose proof (raise_unwinds cc wf e w1 (Ok Hk) Hh (eq_trans Lk Hl)) as Hr.
  destruct (raise_at cc wf e w1) as [w2 r2].
  destruct (wrunC cc wf (unwind_boundC wf) w2) as [w3 r3].
  destruct Hr as (T & L & S & B). simpl.
  split; [assumption|]. split; [assumption|]. split; [apply (same_data_trans w w1 w3); assumption|].
  intros Hb. destruct (B Hb) as [Hst Hc]. split; [assumption|].
  destruct R1 as [-> | T1].
  - simpl. exact Hc.
  - destruct (w_stage w1); simpl in *; discriminate.
Qed.

(* -- kind is never changed *)
Lemma finish_same_data : forall cc wf w, same_data w (fst (finish cc wf w)).
Proof.
  intros cc wf w; unfold finish. destruct (w_exc w).
  - apply settle_spec.
  - destruct w; unfold same_data; simpl; auto.
Qed.

Lemma start_exit_same_data : forall cc wf w, same_data w (fst (start_exit cc wf w)).
Proof.
  intros cc wf w; unfold start_exit. destruct (List.length (wf_ctx wf)).
  - eapply same_data_trans; [|apply finish_same_data]. destruct w; unfold same_data; simpl; auto.
  - destruct w; unfold same_data; simpl; auto.
Qed.

Lemma raise_same_data : forall cc wf e w, same_data w (fst (raise_at cc wf e w)).
Proof.
  intros cc wf e w. unfold raise_at.
  destruct (w_stage w) as [ | b | | [|j] | | n | [|j] | | | | e0 | ];
    try (destruct w; unfold same_data; simpl; auto; fail).
  - destruct e; try (destruct w; unfold same_data; simpl; auto; fail).
    destruct (wf_wait_outside wf); [destruct w; unfold same_data; simpl; auto | apply settle_spec].
  - eapply same_data_trans; [|apply settle_spec]. destruct w; unfold same_data; simpl; auto.
  - eapply same_data_trans; [|apply settle_spec]. destruct w; unfold same_data; simpl; auto.
  - eapply same_data_trans; [|apply start_exit_same_data]. destruct w; unfold same_data; simpl; auto.
  - eapply same_data_trans; [|apply start_exit_same_data]. destruct w; unfold same_data; simpl; auto.
  - eapply same_data_trans; [|apply finish_same_data]. destruct w; unfold same_data; simpl; auto.
Qed.

Lemma throw_same_data : forall cc wf e w, same_data w (fst (throwC cc wf e w)).
Proof.
  intros cc wf e w. unfold throwC.
  pose proof (skip_spec cc wf (skip_fuel wf) w) as Hs.
  destruct (skipC cc wf (skip_fuel wf) w) as [w1 r1]. destruct Hs as [(Sd & _) _].
  pose proof (raise_same_data cc wf e w1) as Hr.
  destruct (raise_at cc wf e w1) as [w2 r2]. simpl in *.
  eapply same_data_trans; eauto.
Qed.

Lemma after_fst : forall cc wf e w,
  fst (after cc wf e w) = fst (wrunC cc wf (unwind_boundC wf) (fst (throwC cc wf e w))).
Proof.
  intros; unfold after. destruct (throwC cc wf e w) as [w1 r1]; simpl.
  destruct (wrunC cc wf (unwind_boundC wf) w1); reflexivity.
Qed.

(* ------------------------------------------------------------------ the finally block *)
Lemma fin_ok_spec : forall fin s, fin_ok fin = true ->
  snd (fst (run_fin fin s)) = true /\ snd (run_fin fin s) = true
  /\ pool (fst (fst (run_fin fin s))) = pool s
  /\ (sess_hole_free s = true ->
      sess_released (fst (fst (run_fin fin s))) = true /\ sess_hole_free (fst (fst (run_fin fin s))) = true).
Proof.
  intros fin [al ct tb sl us po l d ax pl orp lk] H. unfold fin_ok in H.
  pose proof (all_bool_spec _ H al) as H1; cbv beta in H1.
  pose proof (all_bool_spec _ H1 ct) as H2; cbv beta in H2.
  pose proof (all_bool_spec _ H2 tb) as H3; cbv beta in H3.
  pose proof (all_bool_spec _ H3 sl) as H4; cbv beta in H4.
  pose proof (all_bool_spec _ H4 us) as H5; cbv beta in H5.
  pose proof (all_bool_spec _ H5 po) as H6; cbv beta in H6.
  pose proof (all_lst_spec _ H6 l) as H7; cbv beta in H7.
  pose proof (all_bool_spec _ H7 d) as H8; cbv beta in H8.
  pose proof (all_bool_spec _ H8 ax) as H9; cbv beta in H9.
  pose proof (all_bool_spec _ H9 pl) as H10; cbv beta in H10.
  pose proof (all_bool_spec _ H10 orp) as H11; cbv beta in H11.
  pose proof (all_bool_spec _ H11 lk) as H12; cbv beta zeta in H12.
  clear - H12.
  destruct (run_fin fin _) as [[s' c] w]. simpl.
  apply andb_prop in H12; destruct H12 as [H12 Hp].
  apply andb_prop in H12; destruct H12 as [H12 Hr].
  apply andb_prop in H12; destruct H12 as [Hc Hw].
  split; [assumption|]. split; [assumption|]. split; [apply eqb_prop; assumption|].
  intros Hf. rewrite Hf in Hr. simpl in Hr. apply andb_prop in Hr. assumption.
Qed.

(* ------------------------------------------------------------------ C12: ending a session *)
Definition state_ok (F : cfg) (st : state) : bool :=
  forallb (fun w => stage_ok (wfof F w) (w_stage w)) (ws st).

Definition good_w (F : cfg) (w : wrk) : Prop :=
  terminal (w_stage w) = true /\ stream_held (wfof F w) w = false /\ file_open (wfof F w) w = false.

(* what the finally block + unwinding make of one worker *)
Definition ended_w (F : cfg) (w : wrk) : wrk :=
  let c := fst (cancel F w) in fst (wrun F (unwind_bound F c) c).

Lemma wfof_same : forall F w w', same_data w w' -> wfof F w' = wfof F w.
Proof. unfold wfof; intros F w w' (H & _); rewrite H; reflexivity. Qed.

Lemma ended_w_after : forall F w,
  ended_w F w = fst (after (c_cancel_codes F) (wfof F w) ECancel w).
Proof.
  intros F w. unfold ended_w, cancel, throw, wrun, unwind_bound.
  rewrite (wfof_same F w _ (throw_same_data _ _ _ _)). rewrite after_fst. reflexivity.
Qed.

Lemma ended_w_good : forall F w,
  stage_ok (wfof F w) (w_stage w) = true -> w_leak w = false -> hole F w = false ->
  good_w F (ended_w F w) /\ same_data w (ended_w F w) /\ w_leak (ended_w F w) = false.
Proof.
  intros F w Hk Hl Hh. rewrite ended_w_after.
  destruct (after_spec (c_cancel_codes F) (wfof F w) ECancel w Hk Hl Hh) as (T & L & S & _).
  split; [|split; assumption]. unfold good_w. rewrite (wfof_same F w _ S).
  destruct (terminal_holds (wfof F w) _ T) as [E1 E2]. rewrite E1, E2, L. auto.
Qed.

Lemma unwind_bound_always (F : cfg) (w : wrk) : unwind_bound F w = (List.length (wf_ctx (wfof F w)) + 1)%nat.
Proof. reflexivity. Qed.

Lemma good_list : forall F l, Forall (good_w F) l ->
  existsb (fun w => stream_held (c_w F (w_kind w)) w) l = false
  /\ countb (fun w => file_open (c_w F (w_kind w)) w) l = 0%Z
  /\ countb (fun w => negb (terminal (w_stage w))) l = 0%Z.
Proof.
  induction 1 as [|w l (T & S & Fo) _ (I1 & I2 & I3)]; [repeat split|].
  unfold countb in *; simpl. unfold wfof in S, Fo. rewrite S, Fo, T. simpl. auto.
Qed.

Lemma hole_free_inv : forall F st, hole_free F st = true ->
  sess_hole_free (ss st) = true /\ Forall (fun w => w_leak w = false /\ hole F w = false) (ws st).
Proof.
  unfold hole_free; intros F st H. apply andb_prop in H; destruct H as [H1 H2]. split; [assumption|].
  apply Forall_forall. intros w Hin. rewrite forallb_forall in H2. specialize (H2 w Hin).
  apply andb_prop in H2; destruct H2 as [A B]. apply negb_true_iff in A, B. auto.
Qed.

Lemma ended_all_good : forall F st, state_ok F st = true -> hole_free F st = true ->
  Forall (good_w F) (map (ended_w F) (ws st)).
Proof.
  intros F st Hk Hh. destruct (hole_free_inv F st Hh) as [_ Hw].
  unfold state_ok in Hk. rewrite forallb_forall in Hk. rewrite Forall_forall in Hw.
  apply Forall_forall. intros x Hin. apply in_map_iff in Hin. destruct Hin as (w & <- & Hin).
  destruct (Hw w Hin) as [Hl Hho]. apply (ended_w_good F w (Hk w Hin) Hl Hho).
Qed.

Lemma unwind_end_ws : forall F st, fin_ok (c_fin F) = true ->
  ws (unwind F (end_session F st)) = map (ended_w F) (ws st).
Proof.
  intros F st Hf. unfold end_session.
  destruct (fin_ok_spec (c_fin F) (giveback_pre F (ss st)) Hf) as (Hc & _).
  destruct (run_fin (c_fin F) (giveback_pre F (ss st))) as [[s' c] w']. simpl in Hc; subst c. unfold unwind; simpl.
  unfold map_cancel. rewrite map_map. reflexivity.
Qed.

(* outside the listener start-up the give-back of the port on cancellation plays no role *)
Lemma giveback_pre_id : forall F s, sess_hole_free s = true -> giveback_pre F s = s.
Proof.
  intros F s H. unfold giveback_pre. destruct (c_giveback F); [|reflexivity].
  unfold sess_hole_free in H. destruct (lst s); try reflexivity;
    rewrite !andb_false_r in H; discriminate H.
Qed.

Lemma sound12_inv : forall F, sound12 F = true -> workers_ok F = true /\ fin_ok (c_fin F) = true.
Proof. unfold sound12; intros F H; apply andb_prop in H; assumption. Qed.

(* MAIN (C12): whatever the session holds and whatever its workers are doing, the finally block
   followed by the unwinding of the cancelled tasks leaves an empty ledger, unless the state is
   in one of the holes *)
Theorem end_releases_all : forall F st,
  sound12 F = true -> state_ok F st = true -> hole_free F st = true ->
  ledger_empty (ledger F (unwind F (end_session F st))) = true.
Proof.
  intros F st Hs Hk Hh. destruct (sound12_inv F Hs) as [_ Hf].
  pose proof (unwind_end_ws F st Hf) as Hws.
  pose proof (ended_all_good F st Hk Hh) as Hg. rewrite <- Hws in Hg.
  destruct (good_list F _ Hg) as (G1 & G2 & G3).
  unfold ledger. rewrite G1, G2, G3. clear G1 G2 G3 Hg Hws.
  destruct (hole_free_inv F st Hh) as [Hsf _].
  unfold end_session. rewrite (giveback_pre_id F (ss st) Hsf).
  destruct (fin_ok_spec (c_fin F) (ss st) Hf) as (_ & Hw & Hp & Hrel).
  destruct (Hrel Hsf) as [Hr Hhf]. clear Hrel.
  destruct (run_fin (c_fin F) (ss st)) as [[s' c] w']. simpl in Hw, Hp, Hr, Hhf |- *.
  destruct s' as [al ct tb sl us po l d ax pl orp lk]. unfold sess_released, sess_hole_free in *. simpl in *.
  repeat (apply andb_prop in Hr; let X := fresh "R" in destruct Hr as [Hr X]).
  repeat (apply andb_prop in Hhf; let X := fresh "Q" in destruct Hhf as [Hhf X]).
  clear Hsf Hp.
  apply negb_true_iff in Hr; apply negb_true_iff in R4; apply negb_true_iff in R3;
  apply negb_true_iff in R2; apply negb_true_iff in R1; apply negb_true_iff in R0;
  apply negb_true_iff in Hhf; apply negb_true_iff in Q1; apply negb_true_iff in Q0. subst.
  destruct l as [| | |[] []]; simpl in *; try discriminate; destruct po; simpl in *; try discriminate; reflexivity.
Qed.

Theorem unwinding_terminates : forall F w,
  stage_ok (wfof F w) (w_stage w) = true -> w_leak w = false -> hole F w = false ->
  let c := fst (cancel F w) in
  terminal (w_stage (fst (wrun F (List.length (wf_ctx (wfof F w)) + 1) c))) = true.
Proof.
  intros F w Hk Hl Hh c.
  destruct (ended_w_good F w Hk Hl Hh) as [(T & _) _]. unfold ended_w in T. fold c in T.
  rewrite unwind_bound_always in T. unfold c, cancel, throw in *.
  rewrite (wfof_same F w _ (throw_same_data _ _ _ _)) in T. exact T.
Qed.

(* ------------------------------------------------------------------ invariant: stage indices stay in range *)
Lemma terminal_stage_ok : forall wf s, terminal s = true -> stage_ok wf s = true.
Proof. intros wf s H; destruct s; simpl in *; try discriminate; reflexivity. Qed.

Definition keeps (wf : wfacts) (w w' : wrk) : Prop :=
  w_kind w' = w_kind w /\ (stage_ok wf (w_stage w) = true -> stage_ok wf (w_stage w') = true).

Lemma keeps_settle : forall cc wf e w0 w, w_kind w = w_kind w0 -> keeps wf w0 (fst (settle_exn cc wf e w)).
Proof.
  intros cc wf e w0 w Hk. pose proof (settle_spec cc wf e w) as (T & _ & (K & _)).
  split; [congruence|]. intros _. apply terminal_stage_ok; assumption.
Qed.

Lemma keeps_finish : forall cc wf w0 w, w_kind w = w_kind w0 -> keeps wf w0 (fst (finish cc wf w)).
Proof.
  intros cc wf w0 w Hk. unfold finish. destruct (w_exc w).
  - apply keeps_settle; assumption.
  - destruct w; split; simpl in *; auto.
Qed.

Lemma keeps_start_exit : forall cc wf w0 w, w_kind w = w_kind w0 -> keeps wf w0 (fst (start_exit cc wf w)).
Proof.
  intros cc wf w0 w Hk. unfold start_exit. destruct (List.length (wf_ctx wf)) as [|n] eqn:E.
  - apply keeps_finish. destruct w; simpl in *; assumption.
  - destruct w; split; simpl in *; auto. intros _. rewrite E. apply Nat.ltb_lt; lia.
Qed.

Lemma wstep_keeps : forall cc wf d w, keeps wf w (fst (fst (wstepC cc wf d w))).
Proof.
  intros cc wf d w. unfold wstepC.
  destruct (w_stage w) as [ | [|] | | i | | n | [|j] | | | | e0 | ] eqn:Es.
  - destruct d; destruct w; split; simpl; auto.
  - destruct d; destruct w; split; simpl; auto.
  - split; auto.
  - destruct w; split; simpl; auto. intros _. unfold stage_ok. destruct (wf_ctx wf); reflexivity.
  - destruct w; split; simpl; auto. intros _.
    destruct (Nat.ltb (S i) (List.length (wf_ctx wf))) eqn:E; simpl; auto.
  - destruct w; split; simpl; auto.
  - destruct (w_rest w) eqn:Er.
    + pose proof (keeps_start_exit cc wf w w eq_refl) as K.
      destruct (start_exit cc wf w); simpl in *. exact K.
    + split; simpl; auto.
  - pose proof (keeps_finish cc wf w w eq_refl) as K. destruct (finish cc wf w); simpl in *. exact K.
  - destruct w; simpl in Es; subst; split; simpl in *; auto. intros H. apply Nat.ltb_lt in H. apply Nat.ltb_lt. lia.
  - split; auto.
  - split; auto.
  - split; auto.
  - split; auto.
  - split; auto.
Qed.

Lemma raise_keeps : forall cc wf e w, keeps wf w (fst (raise_at cc wf e w)).
Proof.
  intros cc wf e w. unfold raise_at.
  destruct (w_stage w) as [ | b | | [|j] | | n | [|j] | | | | e0 | ] eqn:Es.
  - destruct w; split; simpl; auto. intros _; destruct e; reflexivity.
  - destruct e; try (destruct w; split; simpl; auto; fail).
    destruct (wf_wait_outside wf); [destruct w; split; simpl; auto | apply keeps_settle; reflexivity].
  - apply keeps_settle. destruct w; reflexivity.
  - apply keeps_settle. destruct w; reflexivity.
  - destruct w; simpl in Es; subst; split; simpl in *; auto. intros H. apply Nat.ltb_lt in H. apply Nat.ltb_lt. lia.
  - apply keeps_start_exit. destruct w; reflexivity.
  - apply keeps_start_exit. destruct w; reflexivity.
  - apply keeps_finish. destruct w; reflexivity.
  - destruct w; simpl in Es; subst; split; simpl in *; auto. intros H. apply Nat.ltb_lt in H. apply Nat.ltb_lt. lia.
  - split; auto.
  - split; auto.
  - split; auto.
  - split; auto.
  - split; auto.
Qed.

Lemma throw_keeps : forall cc wf e w, keeps wf w (fst (throwC cc wf e w)).
Proof.
  intros cc wf e w. unfold throwC.
  pose proof (skip_spec cc wf (skip_fuel wf) w) as Hs.
  destruct (skipC cc wf (skip_fuel wf) w) as [w1 r1]. destruct Hs as [((K & _) & _ & Ok) _].
  pose proof (raise_keeps cc wf e w1) as [K2 Ok2].
  destruct (raise_at cc wf e w1) as [w2 r2]. simpl in *.
  split; [congruence | auto].
Qed.

Definition wok (F : cfg) (w : wrk) : bool := stage_ok (wfof F w) (w_stage w).

Lemma wok_keeps : forall F w w', keeps (wfof F w) w w' -> wok F w = true -> wok F w' = true.
Proof.
  unfold wok, wfof; intros F w w' [K Ok] H. rewrite K. auto.
Qed.

Lemma forallb_upd_nth : forall (f : wrk -> bool) g l i,
  (forall w, f w = true -> f (g w) = true) -> forallb f l = true -> forallb f (upd_nth i g l) = true.
Proof.
  induction l; intros i Hg H; destruct i; simpl in *; auto;
    apply andb_prop in H; destruct H as [H1 H2]; apply andb_true_intro; auto.
Qed.

Lemma forallb_map_keep : forall (f : wrk -> bool) g l,
  (forall w, f w = true -> f (g w) = true) -> forallb f l = true -> forallb f (map g l) = true.
Proof.
  induction l; intros Hg H; simpl in *; auto.
  apply andb_prop in H; destruct H as [H1 H2]; apply andb_true_intro; auto.
Qed.

Lemma wok_cancel : forall F w, wok F w = true -> wok F (fst (cancel F w)) = true.
Proof. intros F w. apply wok_keeps. apply throw_keeps. Qed.

Lemma reap_keep_ok : forall F l, forallb (wok F) l = true ->
  forallb (wok F) (fst (fst (fst (reap F l)))) = true.
Proof.
  induction l; intros H; simpl in *; auto.
  apply andb_prop in H; destruct H as [H1 H2]. specialize (IHl H2).
  destruct (reap F l) as [[[keep rs] ok] lk]. simpl in IHl.
  destruct (terminal (w_stage a)).
  - destruct (w_stage a); simpl; auto; destruct (on_task_exn F _); simpl; auto.
  - simpl. rewrite H1; auto.
Qed.

Lemma end_session_ok : forall F st, state_ok F st = true -> state_ok F (end_session F st) = true.
Proof.
  unfold state_ok, end_session; intros F st H.
  destruct (run_fin (c_fin F) (giveback_pre F (ss st))) as [[s c] w]; simpl. destruct c; [|assumption].
  apply forallb_map_keep; [apply wok_cancel | assumption].
Qed.

Lemma nth_error_forallb : forall (f : wrk -> bool) l i w, forallb f l = true -> nth_error l i = Some w -> f w = true.
Proof.
  intros f l i w H E. rewrite forallb_forall in H. apply H. eapply nth_error_In; eauto.
Qed.

Lemma step_state_ok : forall F st ev, state_ok F st = true -> state_ok F (fst (step F st ev)) = true.
Proof.
  intros F st ev H. unfold step.
  destruct (negb (alive (ss st))).
  - destruct ev; try assumption.
    destruct (nth_error (ws st) i) as [w|] eqn:E; [|assumption].
    pose proof (wstep_keeps (c_cancel_codes F) (wfof F w) false w) as K.
    unfold wstep. destruct (wstepC _ _ false w) as [[w' t] r]. simpl in *.
    unfold state_ok in *; simpl. 
    pose proof (nth_error_forallb _ _ _ _ H E) as Hw.
    pose proof (wok_keeps F w w' K Hw) as Hw'.
    clear - H Hw' E. revert i E. induction (ws st); intros i E; destruct i; simpl in *; try discriminate; auto.
    + apply andb_prop in H; destruct H. apply andb_true_intro; auto.
    + apply andb_prop in H; destruct H. apply andb_true_intro; split; eauto.
  - destruct ev; try assumption; try (apply end_session_ok; assumption).
    + (* Pasv *) destruct (lst (ss st)); assumption.
    + (* LStep *) destruct (lst (ss st)); assumption.
    + (* DataArrives *) destruct (lst (ss st)) as [| | |[] p]; try assumption.
      destruct (data (ss st)); try assumption. unfold state_ok in *; simpl.
      apply forallb_map_keep; [|assumption]. intros w Hw. unfold wake, wok, wfof in *.
      destruct w as [k s x l m r]; destruct s; simpl in *; auto.
    + (* Spawn *) destruct (lst (ss st)); try assumption. unfold state_ok in *; simpl.
      rewrite forallb_app. rewrite H. reflexivity.
    + (* WStep *)
      destruct (nth_error (ws st) i) as [w|] eqn:E; [|assumption].
      pose proof (wstep_keeps (c_cancel_codes F) (wfof F w) (data (ss st)) w) as K.
      unfold wstep. destruct (wstepC _ _ _ w) as [[w' t] r]. simpl in *.
      unfold state_ok in *; simpl.
      pose proof (nth_error_forallb _ _ _ _ H E) as Hw.
      pose proof (wok_keeps F w w' K Hw) as Hw'.
      clear - H Hw' E. revert i E. induction (ws st); intros i E; destruct i; simpl in *; try discriminate; auto.
      * apply andb_prop in H; destruct H. apply andb_true_intro; auto.
      * apply andb_prop in H; destruct H. apply andb_true_intro; split; eauto.
    + (* WThrow *)
      destruct (nth_error (ws st) i) as [w|] eqn:E; [|assumption].
      pose proof (throw_keeps (c_cancel_codes F) (wfof F w) e w) as K.
      unfold throw. destruct (throwC _ _ e w) as [w' r]. simpl in *.
      unfold state_ok in *; simpl.
      pose proof (nth_error_forallb _ _ _ _ H E) as Hw.
      pose proof (wok_keeps F w w' K Hw) as Hw'.
      clear - H Hw' E. revert i E. induction (ws st); intros i E; destruct i; simpl in *; try discriminate; auto.
      * apply andb_prop in H; destruct H. apply andb_true_intro; auto.
      * apply andb_prop in H; destruct H. apply andb_true_intro; split; eauto.
    + (* WaitTimeout *)
      destruct (nth_error (ws st) i) as [w|] eqn:E; [|assumption].
      destruct (w_stage w) as [ | [|] | | | | | | | | | | ]; try assumption.
      unfold state_ok in *; simpl. apply forallb_upd_nth; [|assumption].
      intros w0 _. destruct w0; reflexivity.
    + (* Abor *)
      destruct (match c_abor F with AbTruthy => _ | AbNotDone => _ | AbUnknown => _ end); [|assumption].
      unfold state_ok in *; simpl. apply forallb_map_keep; [apply wok_cancel | assumption].
    + (* Reap *)
      pose proof (reap_keep_ok F (ws st) H) as R.
      destruct (reap F (ws st)) as [[[keep rs] ok] lk]. simpl in R.
      destruct ok; simpl; [exact R|]. apply end_session_ok. exact R.
Qed.

Definition reachable (F : cfg) (st : state) : Prop :=
  exists pool_cfg evs, st = fst (run F (init pool_cfg) evs).

Lemma run_state_ok : forall F evs st, state_ok F st = true -> state_ok F (fst (run F st evs)) = true.
Proof.
  induction evs; intros st H; simpl; [assumption|].
  pose proof (step_state_ok F st a H) as H1. destruct (step F st a) as [st1 r1]. simpl in H1.
  specialize (IHevs st1 H1). destruct (run F st1 evs); simpl in *; assumption.
Qed.

Lemma reachable_ok : forall F st, reachable F st -> state_ok F st = true.
Proof. intros F st (p & evs & ->). apply run_state_ok. reflexivity. Qed.

(* ------------------------------------------------------------------ C12: every way of ending *)
Lemma ends_step : forall F st ev, ends ev = true -> alive (ss st) = true ->
  fst (step F st ev) = end_session F st.
Proof. intros F st ev He Ha. unfold step. rewrite Ha. destruct ev; simpl in *; try discriminate; reflexivity. Qed.

Theorem end_releases_all_reachable : forall F st ev,
  sound12 F = true -> reachable F st -> alive (ss st) = true -> hole_free F st = true -> ends ev = true ->
  ledger_empty (ledger F (unwind F (fst (step F st ev)))) = true.
Proof.
  intros F st ev Hs Hr Ha Hh He. rewrite (ends_step F st ev He Ha).
  apply end_releases_all; auto. apply reachable_ok; assumption.
Qed.

Lemma reap_spec : forall F (P : wrk -> Prop) l, Forall P l ->
  Forall P (fst (fst (fst (reap F l))))
  /\ (Forall (fun w => w_leak w = false) l -> snd (reap F l) = false).
Proof.
  induction 1 as [|w l Hw Hl [I1 I2]]; simpl; [split; auto|].
  destruct (reap F l) as [[[keep rs] ok] lk]. simpl in *.
  destruct (terminal (w_stage w)) eqn:T.
  - assert (G : Forall P keep /\ (Forall (fun w => w_leak w = false) (w :: l) -> lk || w_leak w = false)).
    { split; [assumption|]. intros HF. inversion HF; subst. rewrite (I2 H2). simpl. assumption. }
    destruct (w_stage w); simpl; try exact G; destruct (on_task_exn F _); simpl; exact G.
  - simpl. split; [constructor; assumption|]. intros HF. inversion HF; subst. auto.
Qed.

(* the session ends because a reaped task raised (F2: a cancelled worker; a socket timeout; ...) *)
Theorem reap_end_releases : forall F st,
  sound12 F = true -> reachable F st -> alive (ss st) = true -> hole_free F st = true ->
  alive (ss (fst (step F st Reap))) = false ->
  ledger_empty (ledger F (unwind F (fst (step F st Reap)))) = true.
Proof.
  intros F st Hs Hr Ha Hh Hd. pose proof (reachable_ok F st Hr) as Hk.
  unfold step in *. rewrite Ha in *. simpl in *.
  destruct (hole_free_inv F st Hh) as [Hsf Hw].
  pose proof (reap_spec F _ _ Hw) as [K1 K2].
  assert (Hlk : snd (reap F (ws st)) = false).
  { apply K2. eapply Forall_impl; [|exact Hw]. intros a [A _]; exact A. }
  pose proof (reap_keep_ok F (ws st) Hk) as Kok.
  destruct (reap F (ws st)) as [[[keep rs] ok] lk]. simpl in *. subst lk.
  destruct ok; simpl in *.
  - destruct (ss st); simpl in *; congruence.
  - apply end_releases_all; auto.
    unfold hole_free; simpl. apply andb_true_intro; split.
    + unfold sess_hole_free, set_leaked, upd_sess in *. destruct (ss st); simpl in *. rewrite orb_false_r. assumption.
    + apply forallb_forall. intros w Hin. rewrite Forall_forall in K1. destruct (K1 w Hin) as [A B].
      rewrite A, B; reflexivity.
Qed.

Theorem server_close_completes : forall F srv,
  sound12 F = true ->
  Forall (fun st => reachable F st /\ alive (ss st) = true /\ hole_free F st = true) (sessions srv) ->
  server_ledger_empty F (server_close F srv) = true.
Proof.
  intros F srv Hs Hall. unfold server_ledger_empty, server_close; simpl.
  apply forallb_forall. intros x Hin. apply in_map_iff in Hin. destruct Hin as (st & <- & Hin).
  rewrite Forall_forall in Hall. destruct (Hall st Hin) as (Hr & Ha & Hh).
  apply end_releases_all_reachable; auto.
Qed.

(* ------------------------------------------------------------------ C14: ABOR *)
Lemma set_leaked_false : forall s, set_leaked s false = s.
Proof. destruct s; unfold set_leaked, upd_sess; simpl; rewrite orb_false_r; reflexivity. Qed.

Lemma codes_eqb_inv : forall l, codes_eqb l = true -> l = [426%Z; 226%Z].
Proof.
  intros l H. destruct l as [|a [|b [|c l]]]; simpl in H; try discriminate.
  apply andb_prop in H; destruct H as [A B]. apply Z.eqb_eq in A, B. subst; reflexivity.
Qed.

Lemma sound14_inv : forall F, sound14 F = true ->
  workers_ok F = true /\ c_cancel_codes F = Some [426%Z; 226%Z] /\ c_abor F <> AbUnknown.
Proof.
  unfold sound14; intros F H. apply andb_prop in H; destruct H as [H H3].
  apply andb_prop in H; destruct H as [H1 H2]. split; [assumption|]. split.
  - unfold cancel_codes_ok in H2. destruct (c_cancel_codes F) as [l|]; try discriminate.
    rewrite (codes_eqb_inv l H2). reflexivity.
  - intros E; rewrite E in H3; discriminate.
Qed.

Lemma wfacts_ok_inv : forall wf, wfacts_ok wf = true ->
  ctx_shape_ok (wf_ctx wf) = true /\ wf_detach_first wf = true /\ wf_has_worker wf = true /\ wf_reply_after wf = true.
Proof.
  unfold wfacts_ok; intros wf H.
  apply andb_prop in H; destruct H as [H H4].
  apply andb_prop in H; destruct H as [H H3].
  apply andb_prop in H; destruct H as [H1 H2]. auto.
Qed.

Lemma workers_ok_wf : forall F w, workers_ok F = true -> wfacts_ok (wfof F w) = true.
Proof.
  unfold workers_ok; intros F w H.
  apply andb_prop in H; destruct H as [H H4]. apply andb_prop in H; destruct H as [H H3].
  apply andb_prop in H; destruct H as [H1 H2]. unfold wfof, c_w. destruct (w_kind w); assumption.
Qed.

(* the property, for one ABOR: answered (426,226 | 226); the session goes on exactly as an idle one
   (same session state, no worker left); every worker has ended holding neither the data stream
   nor a file; what each had moved is unchanged (hence still a prefix of its payload) *)
Definition abor_ok (F : cfg) (st : state) : Prop :=
  (snd (abor_run F st) = [426%Z; 226%Z] \/ snd (abor_run F st) = [226%Z])
  /\ fst (abor_run F st) = {| ss := ss st; ws := [] |}
  /\ Forall (good_w F) (ws (unwind F (fst (step F st Abor))))
  /\ Forall2 same_data (ws st) (ws (unwind F (fst (step F st Abor)))).

Theorem abor_idle : forall F st, c_abor F <> AbUnknown -> alive (ss st) = true -> ws st = [] ->
  step F st Abor = (st, [226%Z]).
Proof.
  intros F st Hu Ha Hw. unfold step. rewrite Ha, Hw; simpl. destruct (c_abor F); try congruence; reflexivity.
Qed.

Lemma abor_idle_ok : forall F st, c_abor F <> AbUnknown -> alive (ss st) = true -> ws st = [] -> abor_ok F st.
Proof.
  intros F st Hu Ha Hw. unfold abor_ok, abor_run. rewrite (abor_idle F st Hu Ha Hw).
  unfold unwind, unwind_replies. rewrite Hw. simpl. unfold step. simpl. rewrite Ha. simpl.
  rewrite set_leaked_false. rewrite Hw. simpl. repeat split; auto.
Qed.

Lemma after_snd : forall cc wf e w,
  snd (after cc wf e w) = snd (throwC cc wf e w) ++ snd (wrunC cc wf (unwind_boundC wf) (fst (throwC cc wf e w))).
Proof.
  intros; unfold after. destruct (throwC cc wf e w) as [w1 r1]; simpl.
  destruct (wrunC cc wf (unwind_boundC wf) w1); reflexivity.
Qed.

Lemma abor_step_busy : forall F st w, c_abor F <> AbUnknown -> alive (ss st) = true -> ws st = [w] ->
  terminal (w_stage w) = false ->
  step F st Abor = ({| ss := ss st; ws := [fst (cancel F w)] |}, snd (cancel F w) ++ []).
Proof.
  intros F st w Hu Ha Hw Ht. unfold step. rewrite Ha, Hw; simpl. rewrite Ht; simpl.
  destruct (c_abor F); try congruence; reflexivity.
Qed.

(* ABOR with one unfinished worker: cancel, unwind, reap *)
Local Opaque reap.
Lemma abor_run_single : forall F st w, c_abor F <> AbUnknown -> alive (ss st) = true -> ws st = [w] ->
  terminal (w_stage w) = false ->
  abor_run F st =
  (let '(keep, rs, ok, lk) := reap F [ended_w F w] in
   let st' := {| ss := set_leaked (ss st) lk; ws := keep |} in
   (if ok then st' else end_session F st',
    snd (after (c_cancel_codes F) (wfof F w) ECancel w) ++ rs))
  /\ ws (unwind F (fst (step F st Abor))) = [ended_w F w].
Proof.
  intros F st w Hu Ha Hw Ht. unfold abor_run. rewrite (abor_step_busy F st w Hu Ha Hw Ht).
  unfold unwind, unwind_replies. simpl. fold (ended_w F w).
  split; [|reflexivity].
  unfold step. simpl. rewrite Ha. simpl.
  destruct (reap F [ended_w F w]) as [[[keep rs] ok] lk] eqn:E.
  assert (Hr : (snd (cancel F w) ++ []) ++ (snd (wrun F (unwind_bound F (fst (cancel F w))) (fst (cancel F w))) ++ []) ++ rs
               = snd (after (c_cancel_codes F) (wfof F w) ECancel w) ++ rs).
  { rewrite !app_nil_r. rewrite after_snd. unfold cancel, throw, wrun, unwind_bound.
    rewrite (wfof_same F w _ (throw_same_data _ _ _ _)). rewrite app_assoc. reflexivity. }
  destruct ok; rewrite Hr; reflexivity.
Qed.
Local Transparent reap.

Lemma skip_park : forall cc wf n w, parks wf (w_stage w) = true -> skipC cc wf (S n) w = (w, []).
Proof. intros cc wf n w H; simpl. rewrite H. rewrite orb_true_r. reflexivity. Qed.

Lemma skip_fuel_S : forall wf, exists n, skip_fuel wf = S n.
Proof. intros wf; unfold skip_fuel. exists (2 * List.length (wf_ctx wf) + 3)%nat. lia. Qed.

(* where skipping can lead: it never goes back before the body *)
Lemma skip_stage : forall cc wf fuel w,
  fst (skipC cc wf fuel w) = w
  \/ in_body (w_stage (fst (skipC cc wf fuel w))) = true
  \/ terminal (w_stage (fst (skipC cc wf fuel w))) = true.
Proof.
  induction fuel; intros w; simpl; [auto|].
  destruct (terminal (w_stage w) || parks wf (w_stage w)) eqn:E; [auto|].
  apply orb_false_iff in E; destruct E as [Et Ep].
  assert (Hn : in_body (w_stage (fst (fst (wstepC cc wf false w)))) = true
               \/ terminal (w_stage (fst (fst (wstepC cc wf false w)))) = true).
  { destruct w as [k st x l m r]; destruct st; simpl in Et, Ep; try discriminate; unfold wstepC; simpl.
    - left; destruct (wf_ctx wf); reflexivity.
    - left; destruct (Nat.ltb (S i) (List.length (wf_ctx wf))); reflexivity.
    - destruct i; [|left; reflexivity]. right. unfold finish; simpl.
      destruct x as [e|]; [|reflexivity].
      pose proof (settle_terminal cc wf e {| w_kind := k; w_stage := ExitingCtx 0; w_exc := Some e; w_leak := l; w_moved := m; w_rest := r |}) as T.
      destruct (settle_exn cc wf e _); simpl in *; exact T. }
  destruct (wstepC cc wf false w) as [[w1 t1] r1]. simpl in Hn.
  specialize (IHfuel w1). destruct (skipC cc wf fuel w1) as [w2 r2]. simpl in *.
  destruct IHfuel as [-> | H]; auto.
Qed.

Lemma parked_early : forall F w, (parked_stage F w = Spawned \/ exists b, parked_stage F w = WaitingData b) ->
  parked_stage F w = w_stage w /\ fst (skipC (c_cancel_codes F) (wfof F w) (skip_fuel (wfof F w)) w) = w.
Proof.
  intros F w H. unfold parked_stage in *.
  destruct (skip_stage (c_cancel_codes F) (wfof F w) (skip_fuel (wfof F w)) w) as [E | [E | E]].
  - rewrite E. auto.
  - destruct H as [H | [b H]]; rewrite H in E; discriminate.
  - destruct H as [H | [b H]]; rewrite H in E; discriminate.
Qed.

Lemma throw_at_park : forall cc wf e w, parks wf (w_stage w) = true ->
  throwC cc wf e w = (fst (raise_at cc wf e w), snd (raise_at cc wf e w)).
Proof.
  intros cc wf e w H. unfold throwC. destruct (skip_fuel_S wf) as [n ->].
  rewrite skip_park by assumption. destruct (raise_at cc wf e w); reflexivity.
Qed.

Lemma ended_terminal_same : forall F w1, terminal (w_stage w1) = true ->
  fst (wrun F (unwind_bound F w1) w1) = w1 /\ snd (wrun F (unwind_bound F w1) w1) = [].
Proof. intros F w1 T. unfold wrun. rewrite wrun_terminal by assumption. auto. Qed.

(* MAIN (C14): ABOR with at most one transfer worker, at any point that is not one of the holes *)
Theorem abor_any_moment_partial : forall F st,
  sound14 F = true -> state_ok F st = true -> alive (ss st) = true ->
  (List.length (ws st) <= 1)%nat -> forallb (abor_safe F) (ws st) = true ->
  abor_ok F st.
Proof.
  intros F st Hs Hk Ha Hlen Hsafe. destruct (sound14_inv F Hs) as (Hwk & Hcc & Hu).
  destruct (ws st) as [|w [|w' l]] eqn:Hw; [apply abor_idle_ok; assumption| |simpl in Hlen; lia].
  simpl in Hsafe. rewrite andb_true_r in Hsafe.
  unfold state_ok in Hk. rewrite Hw in Hk. simpl in Hk. rewrite andb_true_r in Hk.
  unfold abor_safe in Hsafe. apply andb_prop in Hsafe. destruct Hsafe as [Hl Hsafe].
  apply negb_true_iff in Hl.
  pose proof (workers_ok_wf F w Hwk) as Hwf. destruct (wfacts_ok_inv _ Hwf) as (_ & _ & Hhw & _).
  destruct (terminal (w_stage w)) eqn:Ht.
  - (* finished, not reaped: only safe when abor() tests `not done` *)
    destruct (c_abor F) eqn:Eab; try discriminate.
    assert (Hst : w_stage w = Replied \/ w_stage w = Refused \/ w_stage w = Aborted)
      by (destruct (w_stage w); try discriminate; auto).
    destruct (ended_terminal_same F w Ht) as [E1 E2].
    assert (S1 : step F st Abor = (st, [226%Z])).
    { unfold step. rewrite Ha, Hw, Eab. cbn [negb existsb]. rewrite Ht. reflexivity. }
    assert (S2 : unwind F st = st).
    { unfold unwind. rewrite Hw. cbn [map]. rewrite E1. destruct st; simpl in *; subst; reflexivity. }
    assert (S3 : unwind_replies F st = []).
    { unfold unwind_replies. rewrite Hw. cbn [flat_map]. rewrite E2. reflexivity. }
    assert (S4 : step F st Reap = ({| ss := ss st; ws := [] |}, [])).
    { unfold step. rewrite Ha, Hw. cbn [negb reap]. rewrite Ht, Hl.
      destruct Hst as [-> | [-> | ->]]; cbn; rewrite set_leaked_false; reflexivity. }
    unfold abor_ok, abor_run. rewrite S1. cbn [fst snd]. rewrite S2, S3, S4. cbn [fst snd app].
    rewrite Hw. repeat split; auto.
    + constructor; [|constructor]. unfold good_w. destruct (terminal_holds (wfof F w) w Ht) as [A B].
      rewrite A, B, Hl. auto.
    + constructor; [apply same_data_refl | constructor].
  - destruct (abor_run_single F st w Hu Ha Hw Ht) as [Erun Ews].
    unfold abor_ok. rewrite Ews, Erun, Hw. clear Erun Ews.
    destruct (parked_stage F w) as [ | b | | i | | n | i | | | | e0 | ] eqn:Ep; try discriminate Hsafe.
    + (* Spawned: never ran; the dispatcher must turn the cancelled task into 426, 226 *)
      destruct (parked_early F w (or_introl Ep)) as [Est _]. rewrite Ep in Est. symmetry in Est.
      assert (Hpk : parks (wfof F w) (w_stage w) = true) by (rewrite Est; reflexivity).
      unfold cancelled_task_ok in Hsafe.
      destruct (on_task_exn F ECancel) as [rr|] eqn:Eo; try discriminate.
      assert (Err : rr = [426%Z; 226%Z]).
      { apply codes_eqb_inv; assumption. }
      subst rr.
      assert (Een : ended_w F w = set_stage w Cancelled /\ snd (after (c_cancel_codes F) (wfof F w) ECancel w) = []).
      { rewrite ended_w_after. unfold after. rewrite throw_at_park by assumption.
        unfold raise_at. rewrite Est. simpl. rewrite wrun_terminal by reflexivity. simpl. auto. }
      destruct Een as [-> ->]. simpl. rewrite Eo. simpl. rewrite Hl. rewrite set_leaked_false.
      repeat split; auto.
      * constructor; [|constructor]. unfold good_w. destruct w; simpl in *. rewrite Hl. auto.
      * constructor; [destruct w; unfold same_data; simpl; auto | constructor].
    + (* WaitingData *)
      destruct (parked_early F w (or_intror (ex_intro _ b Ep))) as [Est _]. rewrite Ep in Est. symmetry in Est.
      assert (Hpk : parks (wfof F w) (w_stage w) = true) by (rewrite Est; reflexivity).
      destruct (wf_wait_outside (c_w F (w_kind w))) eqn:Ewo; simpl in Hsafe.
      * unfold cancelled_task_ok in Hsafe.
        destruct (on_task_exn F ECancel) as [rr|] eqn:Eo; try discriminate.
        assert (Err : rr = [426%Z; 226%Z]).
        { apply codes_eqb_inv; assumption. }
        subst rr.
        assert (Een : ended_w F w = set_stage w Cancelled /\ snd (after (c_cancel_codes F) (wfof F w) ECancel w) = []).
        { rewrite ended_w_after. unfold after. rewrite throw_at_park by assumption.
          unfold raise_at. rewrite Est. change (wf_wait_outside (wfof F w) = true) in Ewo. rewrite Ewo. simpl.
          rewrite wrun_terminal by reflexivity. simpl. auto. }
        destruct Een as [-> ->]. simpl. rewrite Eo. simpl. rewrite Hl. rewrite set_leaked_false.
        repeat split; auto.
        -- constructor; [|constructor]. unfold good_w. destruct w; simpl in *. rewrite Hl. auto.
        -- constructor; [destruct w; unfold same_data; simpl; auto | constructor].
      * assert (Een : ended_w F w = set_stage (set_exc w None false) Aborted
                      /\ snd (after (c_cancel_codes F) (wfof F w) ECancel w) = [426%Z; 226%Z]).
        { rewrite ended_w_after. unfold after. rewrite throw_at_park by assumption.
          unfold raise_at. rewrite Est. change (wf_wait_outside (wfof F w) = false) in Ewo. rewrite Ewo. rewrite settle_eq.
          unfold settle_stage, settle_codes. rewrite Hhw, Hcc. simpl.
          rewrite wrun_terminal by reflexivity. simpl. auto. }
        destruct Een as [-> ->]. simpl. rewrite Hl. simpl. rewrite set_leaked_false.
        repeat split; auto.
        -- constructor; [|constructor]. unfold good_w. destruct w; simpl in *. rewrite Hl. auto.
        -- constructor; [destruct w; unfold same_data; simpl; auto | constructor].
    + (* Detached *) apply negb_true_iff in Hsafe.
      unfold hole, holeC in Hsafe. unfold parked_stage in Ep. rewrite Ep in Hsafe. discriminate.
    + (* EnteringCtx *) apply negb_true_iff in Hsafe.
      destruct (after_spec (c_cancel_codes F) (wfof F w) ECancel w Hk Hl Hsafe) as (T & L & S & B).
      unfold parkedC in B. unfold parked_stage in Ep. rewrite Ep in B. destruct (B eq_refl) as [Bs Bc].
      rewrite <- ended_w_after in T, L, S, Bs. rewrite Bc. cbn [reap]. rewrite Bs.
      unfold settle_stage, settle_codes. rewrite Hhw, Hcc. cbn. rewrite L.
      rewrite set_leaked_false. repeat split; auto.
      constructor; [|constructor]. apply (ended_w_good F w Hk Hl Hsafe).
    + (* Seeking *) apply negb_true_iff in Hsafe.
      destruct (after_spec (c_cancel_codes F) (wfof F w) ECancel w Hk Hl Hsafe) as (T & L & S & B).
      unfold parkedC in B. unfold parked_stage in Ep. rewrite Ep in B. destruct (B eq_refl) as [Bs Bc].
      rewrite <- ended_w_after in T, L, S, Bs. rewrite Bc. cbn [reap]. rewrite Bs.
      unfold settle_stage, settle_codes. rewrite Hhw, Hcc. cbn. rewrite L.
      rewrite set_leaked_false. repeat split; auto.
      constructor; [|constructor]. apply (ended_w_good F w Hk Hl Hsafe).
    + (* Loop *) apply negb_true_iff in Hsafe.
      destruct (after_spec (c_cancel_codes F) (wfof F w) ECancel w Hk Hl Hsafe) as (T & L & S & B).
      unfold parkedC in B. unfold parked_stage in Ep. rewrite Ep in B. destruct (B eq_refl) as [Bs Bc].
      rewrite <- ended_w_after in T, L, S, Bs. rewrite Bc. cbn [reap]. rewrite Bs.
      unfold settle_stage, settle_codes. rewrite Hhw, Hcc. cbn. rewrite L.
      rewrite set_leaked_false. repeat split; auto.
      constructor; [|constructor]. apply (ended_w_good F w Hk Hl Hsafe).
    + (* ExitingCtx *) apply negb_true_iff in Hsafe.
      destruct (after_spec (c_cancel_codes F) (wfof F w) ECancel w Hk Hl Hsafe) as (T & L & S & B).
      unfold parkedC in B. unfold parked_stage in Ep. rewrite Ep in B. destruct (B eq_refl) as [Bs Bc].
      rewrite <- ended_w_after in T, L, S, Bs. rewrite Bc. cbn [reap]. rewrite Bs.
      unfold settle_stage, settle_codes. rewrite Hhw, Hcc. cbn. rewrite L.
      rewrite set_leaked_false. repeat split; auto.
      constructor; [|constructor]. apply (ended_w_good F w Hk Hl Hsafe).
Qed.

(* the statement the design calls abor_in_body: in the transfer body, outside a hole: 426 then 226 *)
Theorem abor_in_body : forall F st w,
  sound14 F = true -> state_ok F st = true -> alive (ss st) = true -> ws st = [w] ->
  in_body (parked_stage F w) = true -> w_leak w = false -> hole F w = false ->
  snd (abor_run F st) = [426%Z; 226%Z]
  /\ fst (abor_run F st) = {| ss := ss st; ws := [] |}
  /\ (exists w', ws (unwind F (fst (step F st Abor))) = [w'] /\ good_w F w' /\ same_data w w').
Proof.
  intros F st w Hs Hk Ha Hw Hb Hl Hh. destruct (sound14_inv F Hs) as (Hwk & Hcc & Hu).
  unfold state_ok in Hk. rewrite Hw in Hk. simpl in Hk. rewrite andb_true_r in Hk.
  pose proof (workers_ok_wf F w Hwk) as Hwf. destruct (wfacts_ok_inv _ Hwf) as (_ & _ & Hhw & _).
  assert (Ht : terminal (w_stage w) = false).
  { destruct (terminal (w_stage w)) eqn:T; [|reflexivity]. exfalso.
    unfold parked_stage in Hb. destruct (skip_fuel_S (wfof F w)) as [n En]. rewrite En in Hb.
    simpl in Hb. rewrite T in Hb. simpl in Hb. destruct (w_stage w); simpl in *; discriminate. }
  destruct (abor_run_single F st w Hu Ha Hw Ht) as [Erun Ews]. rewrite Ews, Erun. clear Erun Ews.
  destruct (after_spec (c_cancel_codes F) (wfof F w) ECancel w Hk Hl Hh) as (T & L & S & B).
  unfold parkedC in B. unfold parked_stage in Hb. destruct (B Hb) as [Bs Bc].
  rewrite <- ended_w_after in T, L, S, Bs. rewrite Bc. cbn [reap]. rewrite Bs.
  unfold settle_stage, settle_codes. rewrite Hhw, Hcc. cbn. rewrite L.
  rewrite set_leaked_false. repeat split; auto.
  exists (ended_w F w). split; [reflexivity|]. split; [apply (ended_w_good F w Hk Hl Hh) | assumption].
Qed.

(* what has been moved only ever grows, and together with what remains it is the payload *)
Lemma wstep_payload : forall cc wf d w,
  w_moved (fst (fst (wstepC cc wf d w))) ++ w_rest (fst (fst (wstepC cc wf d w))) = w_moved w ++ w_rest w
  /\ exists t, w_moved (fst (fst (wstepC cc wf d w))) = w_moved w ++ t.
Proof.
  intros cc wf d w.
  assert (G : forall w', same_data w w' ->
            w_moved w' ++ w_rest w' = w_moved w ++ w_rest w /\ exists t, w_moved w' = w_moved w ++ t).
  { intros w' (_ & M & R). rewrite M, R. split; [reflexivity | exists []; rewrite app_nil_r; reflexivity]. }
  unfold wstepC. destruct (w_stage w) as [ | [|] | | i | | n | [|j] | | | | e0 | ];
    try (apply G; destruct w; unfold same_data; simpl; auto; fail);
    try (destruct d; apply G; destruct w; unfold same_data; simpl; auto; fail).
  - destruct (w_rest w) as [|b r] eqn:Er.
    + pose proof (start_exit_same_data cc wf w) as Sd. destruct (start_exit cc wf w); simpl in *. apply G; assumption.
    + simpl. split; [rewrite <- app_assoc; reflexivity | exists [b]; reflexivity].
  - pose proof (finish_same_data cc wf w) as Sd. destruct (finish cc wf w); simpl in *. apply G; assumption.
Qed.

Ltac dmatch :=
  match goal with
  | |- context [match ?x with _ => _ end] => is_var x; destruct x
  | H : context [match ?x with _ => _ end] |- _ => is_var x; destruct x
  end.

(* the three accepted shapes of a worker's `async with` *)
Lemma shape_cases : forall l, ctx_shape_ok l = true ->
  l = [CStream] \/ l = [CFile; CStream] \/ l = [CStream; CFile].
Proof.
  intros l H. destruct l as [|[] [|[] [|? ?]]]; simpl in H; try discriminate; auto.
Qed.


(* ------------------------------------------------------------------ forms used by Props/C12.v, Props/C14.v *)
Lemma unwinding_terminates_reachable : forall F st w,
  reachable F st -> In w (ws st) -> w_leak w = false -> hole F w = false ->
  terminal (w_stage (fst (wrun F (List.length (wf_ctx (wfof F w)) + 1) (fst (cancel F w))))) = true.
Proof.
  intros F st w Hr Hin. apply unwinding_terminates.
  pose proof (reachable_ok F st Hr) as Hk. unfold state_ok in Hk. rewrite forallb_forall in Hk. exact (Hk w Hin).
Qed.

Lemma sound14_abor_known : forall F, sound14 F = true -> c_abor F <> AbUnknown.
Proof.
  unfold sound14; intros F H. apply andb_prop in H; destruct H as [_ H].
  destruct (c_abor F); try discriminate; intro X; discriminate X.
Qed.

(* the candidate fix for F5 in the model: when _start_passive_server returns the port on cancellation
   (c_giveback), a session that ends while the listener start-up is suspended BEFORE the bind releases
   everything, for any such configuration F *)
Theorem startup_hole_closed_by_giveback : forall F st,
  sound12 F = true -> c_giveback F = true -> state_ok F st = true -> lst (ss st) = LTaking ->
  hole_free F {| ss := set_lst (ss st) LNone; ws := ws st |} = true ->
  ledger_empty (ledger F (unwind F (end_session F st))) = true.
Proof.
  intros F st Hs Hg Hk Hl Hh.
  set (st' := {| ss := set_lst (ss st) LNone; ws := ws st |}).
  assert (E : end_session F st = end_session F st').
  { unfold end_session, giveback_pre. rewrite Hg, Hl. subst st'; simpl. reflexivity. }
  rewrite E. apply end_releases_all; [exact Hs | exact Hk | exact Hh].
Qed.
