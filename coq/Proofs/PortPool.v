(* Proofs about Model/PortPool.v (C11): port accounting as multisets (occurrence counts) for every
   pool, any number of sessions, every fault choice and every interleaving. *)
From Coq Require Import ZArith List Bool String Ascii Lia.
From Verif Require Import Lib.Sx Model.PortPool.
Import ListNotations.
Open Scope Z_scope.

(* ------------------------------------------------------------------ multisets by counting *)
Definition b2z (b : bool) : Z := if b then 1 else 0.

Fixpoint occ (p : Z) (l : list Z) : Z :=
  match l with [] => 0 | q :: r => b2z (q =? p) + occ p r end.

Fixpoint sumf (f : psess -> Z) (l : list psess) : Z :=
  match l with [] => 0 | s :: r => f s + sumf f r end.

Lemma b2z_nonneg : forall b, 0 <= b2z b.
Proof. destruct b; cbn; lia. Qed.

Lemma occ_nonneg : forall p l, 0 <= occ p l.
Proof. induction l as [|q r IH]; cbn [occ]; [lia|]. pose proof (b2z_nonneg (q =? p)). lia. Qed.

Lemma occ_app : forall p a b, occ p (a ++ b) = occ p a + occ p b.
Proof. induction a as [|q r IH]; intros b; cbn [occ app]; [lia|]. rewrite IH. lia. Qed.

Lemma occ_In : forall p l, In p l -> 1 <= occ p l.
Proof.
  induction l as [|q r IH]; intros H; cbn [occ]; [destruct H|].
  destruct H as [->|H].
  - rewrite Z.eqb_refl. pose proof (occ_nonneg p r). cbn [b2z]. lia.
  - pose proof (IH H). pose proof (b2z_nonneg (q =? p)). lia.
Qed.

Lemma occ_pos_In : forall p l, 1 <= occ p l -> In p l.
Proof.
  induction l as [|q r IH]; intros H; cbn [occ] in H; [lia|].
  destruct (q =? p) eqn:E; [left; now apply Z.eqb_eq|right; apply IH; cbn [b2z] in H; lia].
Qed.

Lemma occ_put : forall p x l, occ p (ports_of (put x l)) = b2z (snd x =? p) + occ p (ports_of l).
Proof.
  intros p x. induction l as [|y r IH]; cbn [put ports_of map occ]; [lia|].
  destruct (item_leb x y); cbn [map occ]; [reflexivity|].
  fold (ports_of (put x r)). fold (ports_of r). rewrite IH. lia.
Qed.

Lemma sumf_app : forall f a b, sumf f (a ++ b) = sumf f a + sumf f b.
Proof. induction a as [|s r IH]; intros b; cbn [sumf app]; [lia|]. rewrite IH. lia. Qed.

Lemma sumf_upd : forall f l i s s',
  nth_error l i = Some s -> sumf f (upd i (fun _ => s') l) = sumf f l - f s + f s'.
Proof.
  induction l as [|x r IH]; intros [|i] s s' H; cbn [nth_error upd sumf] in *; try discriminate.
  - inversion H; subst. lia.
  - rewrite (IH i s s' H). lia.
Qed.

Lemma sumf_zero : forall f l, Forall (fun s => f s = 0) l -> sumf f l = 0.
Proof. induction 1 as [|s r Hs _ IH]; cbn [sumf]; lia. Qed.

Lemma occ_remove_nth : forall p l k su,
  nth_error l k = Some su ->
  occ p (map su_port (remove_nth k l)) = occ p (map su_port l) - b2z (su_port su =? p).
Proof.
  induction l as [|x r IH]; intros [|k] su H; cbn [nth_error remove_nth map occ] in *; try discriminate.
  - inversion H; subst. lia.
  - rewrite (IH k su H). lia.
Qed.

Lemma occ_replace_nth : forall p l k su su',
  nth_error l k = Some su ->
  occ p (map su_port (replace_nth k su' l))
  = occ p (map su_port l) - b2z (su_port su =? p) + b2z (su_port su' =? p).
Proof.
  induction l as [|x r IH]; intros [|k] su su' H; cbn [nth_error replace_nth map occ] in *; try discriminate.
  - inversion H; subst. lia.
  - rewrite (IH k su su' H). lia.
Qed.

Lemma nth_error_upd_same : forall {A} (l : list A) i f x,
  nth_error l i = Some x -> nth_error (upd i f l) i = Some (f x).
Proof.
  induction l as [|y r IH]; intros [|i] f x H; cbn in *; try discriminate.
  - inversion H; reflexivity.
  - apply IH; assumption.
Qed.

Lemma nth_error_upd_other : forall {A} (l : list A) i j f,
  i <> j -> nth_error (upd i f l) j = nth_error l j.
Proof.
  induction l as [|y r IH]; intros [|i] [|j] f H; cbn in *; try reflexivity; try congruence.
  apply IH. congruence.
Qed.

Lemma Forall_upd : forall {A} (P : A -> Prop) l i x,
  Forall P l -> P x -> Forall P (upd i (fun _ => x) l).
Proof.
  induction l as [|y r IH]; intros [|i] x H Hx; cbn; try assumption.
  - inversion H; subst. constructor; assumption.
  - inversion H; subst. constructor; [assumption|]. apply IH; assumption.
Qed.

Lemma Forall_nth_error : forall {A} (P : A -> Prop) l i x,
  Forall P l -> nth_error l i = Some x -> P x.
Proof.
  intros A P l i x H Hn. rewrite Forall_forall in H. apply H. eapply nth_error_In; eassumption.
Qed.

(* ------------------------------------------------------------------ the ledger *)
(* how often port p occurs in the pool, in the hands of sessions, in the ghost list of lost ports *)
Definition total (p : Z) (st : pstate) : Z :=
  occ p (ports_of (pp_pool st)) + sumf (fun s => occ p (sports s)) (pp_sess st) + occ p (pp_lost st).

Record pcfg_ok (cfg : pconfig) : Prop := {
  pok_fin : check_pfinally (pc_fin cfg) = true;    (* closed obligation on Gen.Dispatch *)
  pok_loop : pc_loop_open cfg = true;              (* the event loop is running *)
}.

Lemma loop_head_start : forall hier pool viewed pool' su p,
  loop_head hier pool viewed = HStart pool' su ->
  occ p (ports_of pool) = occ p (ports_of pool') + b2z (su_port su =? p).
Proof.
  intros hier [|[prio port] rest] viewed pool' su p H; cbn in H; [discriminate|].
  destruct (memz port viewed); [destruct hier; discriminate|].
  inversion H; subst. cbn [ports_of map snd occ su_port]. fold (ports_of pool'). lia.
Qed.

Lemma loop_head_exit : forall hier pool viewed pool' lost p,
  loop_head hier pool viewed = HExit pool' lost ->
  occ p (ports_of pool) = occ p (ports_of pool') + occ p lost.
Proof.
  intros hier [|[prio port] rest] viewed pool' lost p H; cbn in H.
  - inversion H; subst. reflexivity.
  - destruct (memz port viewed); [|discriminate]. destruct hier; inversion H; subst.
    + rewrite occ_put. cbn [ports_of map snd occ]. fold (ports_of rest). lia.
    + cbn [ports_of map snd occ]. fold (ports_of pool'). lia.
Qed.

Lemma loop_head_exit_hier : forall pool viewed pool' lost,
  loop_head true pool viewed = HExit pool' lost -> lost = [].
Proof.
  intros [|[prio port] rest] viewed pool' lost H; cbn in H.
  - now inversion H.
  - destruct (memz port viewed); [now inversion H|discriminate].
Qed.

(* the finally block in canonical form *)
Lemma pslist_eqb_eq : forall a b, slist_eqb a b = true -> a = b.
Proof.
  induction a as [|x a IH]; intros [|y b] H; cbn in H; try discriminate; [reflexivity|].
  apply andb_true_iff in H as [H1 H2]. apply String.eqb_eq in H1. f_equal; auto.
Qed.

Lemma peff_eqb_eq : forall a b, peff_eqb a b = true -> a = b.
Proof.
  intros [|g1|g1|g1] [|g2|g2|g2] H; cbn in H; try discriminate; try reflexivity;
    apply pslist_eqb_eq in H; now subst.
Qed.

Lemma peffs_eqb_eq : forall a b, peffs_eqb a b = true -> a = b.
Proof.
  induction a as [|x a IH]; intros [|y b] H; cbn in H; try discriminate; [reflexivity|].
  apply andb_true_iff in H as [H1 H2]. apply peff_eqb_eq in H1. f_equal; auto.
Qed.

Lemma pfold_relevant : forall cfg s l acc,
  fold_left (papply cfg s) l acc = fold_left (papply cfg s) (filter prelevant l) acc.
Proof.
  induction l as [|e r IH]; intros acc; cbn; [reflexivity|]. destruct e; cbn; apply IH.
Qed.

Lemma pfin_canon : forall cfg s p,
  pcfg_ok cfg -> p_passive s = Some p ->
  fold_left (papply cfg s) (map pclassify (pc_fin cfg)) (false, 0%nat) = (true, 1%nat).
Proof.
  intros cfg s p [Hf Hl] Hp. rewrite pfold_relevant. unfold check_pfinally in Hf.
  apply peffs_eqb_eq in Hf. rewrite Hf. cbn. unfold pguards, pguard. cbn. rewrite Hl, Hp. reflexivity.
Qed.

Definition dead_sess : psess := {| p_live := false; p_passive := None; p_inflight := [] |}.

Definition half_of (s : psess) : list Z := map su_port (filter (fun su => su_point su =? 2) (p_inflight s)).

Lemma end_psess_canon : forall cfg i st s,
  pcfg_ok cfg -> nth_error (pp_sess st) i = Some s -> p_live s = true ->
  end_psess cfg i st =
  {| pp_pool := give_back cfg (p_inflight s)
                  (match p_passive s with Some p => put (0, p) (pp_pool st) | None => pp_pool st end);
     pp_sess := upd i (fun _ => dead_sess) (pp_sess st);
     pp_orphans := pp_orphans st ++ (if pc_giveback cfg then [] else half_of s);
     pp_lost := pp_lost st ++ (if pc_giveback cfg then [] else map su_port (p_inflight s)) |}.
Proof.
  intros cfg i st s Hok Hn Hl. unfold end_psess. rewrite Hn, Hl.
  destruct (p_passive s) as [p|] eqn:Hp; [|reflexivity].
  rewrite (pfin_canon cfg s p Hok Hp). reflexivity.
Qed.

Lemma occ_fold_put : forall p infl pool,
  occ p (ports_of (fold_left (fun acc su => put (su_prio su, su_port su) acc) infl pool))
  = occ p (ports_of pool) + occ p (map su_port infl).
Proof.
  induction infl as [|su r IH]; intros pool; cbn [fold_left map occ]; [lia|].
  rewrite IH, occ_put. cbn [snd]. lia.
Qed.

Lemma occ_give_back : forall cfg p infl pool,
  occ p (ports_of (give_back cfg infl pool))
  = occ p (ports_of pool) + (if pc_giveback cfg then occ p (map su_port infl) else 0).
Proof.
  intros cfg p infl pool. unfold give_back. destruct (pc_giveback cfg); [apply occ_fold_put|lia].
Qed.

Lemma give_back_nil : forall cfg pool, give_back cfg [] pool = pool.
Proof. intros cfg pool. unfold give_back. destruct (pc_giveback cfg); reflexivity. Qed.

Lemma end_psess_noop : forall cfg i st,
  (forall s, nth_error (pp_sess st) i = Some s -> p_live s = false) -> end_psess cfg i st = st.
Proof.
  intros cfg i st H. unfold end_psess. destruct (nth_error (pp_sess st) i) as [s|]; [|reflexivity].
  now rewrite (H s eq_refl).
Qed.

Lemma end_psess_total : forall cfg i st p, pcfg_ok cfg -> total p (end_psess cfg i st) = total p st.
Proof.
  intros cfg i st p Hok.
  destruct (nth_error (pp_sess st) i) as [s|] eqn:Hn.
  2:{ rewrite end_psess_noop; [reflexivity|]. intros s H; congruence. }
  destruct (p_live s) eqn:Hl.
  2:{ rewrite end_psess_noop; [reflexivity|]. intros s0 H; congruence. }
  rewrite (end_psess_canon cfg i st s Hok Hn Hl). unfold total. cbn [pp_pool pp_sess pp_lost].
  rewrite (sumf_upd _ _ _ _ dead_sess Hn), occ_app, occ_give_back. unfold sports at 2 3.
  cbn [dead_sess p_passive p_inflight opt_list map app occ].
  rewrite occ_app. destruct (pc_giveback cfg); destruct (p_passive s) as [q|]; cbn [opt_list occ];
    try rewrite occ_put; cbn [snd]; lia.
Qed.

Lemma end_all_total : forall cfg n st p, pcfg_ok cfg -> total p (end_all cfg n st) = total p st.
Proof. induction n as [|k IH]; intros st p Hok; cbn; [reflexivity|]. rewrite end_psess_total, IH; auto. Qed.

Lemma plive_some : forall st i s, plive st i = Some s ->
  nth_error (pp_sess st) i = Some s /\ p_live s = true.
Proof.
  intros st i s H. unfold plive in H. destruct (nth_error (pp_sess st) i) as [s0|]; [|discriminate].
  destruct (p_live s0) eqn:E; inversion H; subst; auto.
Qed.

Lemma total_set_pool : forall p st i s s' pool lost,
  nth_error (pp_sess st) i = Some s ->
  total p (set_psess i s' (with_pool pool lost st))
  = occ p (ports_of pool) + (sumf (fun s => occ p (sports s)) (pp_sess st) - occ p (sports s) + occ p (sports s'))
    + (occ p (pp_lost st) + occ p lost).
Proof.
  intros p st i s s' pool lost Hn. unfold total, set_psess, with_pool. cbn [pp_pool pp_sess pp_lost].
  rewrite (sumf_upd _ _ _ _ s' Hn), occ_app. reflexivity.
Qed.

Theorem pstep_total : forall cfg st e p, pcfg_ok cfg -> total p (fst (pstep cfg st e)) = total p st.
Proof.
  intros cfg st e p Hok. destruct e as [|i lg|i k o|i|i|i|].
  - (* PConnect *) unfold total. cbn [pstep fst pp_pool pp_sess pp_lost]. rewrite sumf_app.
    cbn [sumf sports p_passive p_inflight opt_list map app occ]. lia.
  - (* Pasv *)
    cbn [pstep]. destruct (plive st i) as [s|] eqn:El; [|reflexivity].
    apply plive_some in El as [Hn Hl].
    destruct (p_passive s) as [q|] eqn:Hp.
    { destruct (pc_ipv6 cfg && lg); cbn [fst]; [apply end_psess_total; assumption|reflexivity]. }
    destruct (loop_head (pc_hier cfg) (pp_pool st) []) as [pool' su|pool' lost] eqn:Eh; cbn [fst].
    + rewrite (total_set_pool p st i s _ pool' [] Hn).
      pose proof (loop_head_start _ _ _ _ _ p Eh) as E. unfold total, sports. cbn [p_passive p_inflight opt_list app occ].
      rewrite Hp, map_app, !occ_app. cbn [opt_list map occ app mark su_port]. lia.
    + rewrite end_psess_total by assumption. unfold total, with_pool. cbn [pp_pool pp_sess pp_lost].
      rewrite occ_app, (loop_head_exit _ _ _ _ _ p Eh). lia.
  - (* Resume *)
    cbn [pstep]. destruct (plive st i) as [s|] eqn:El; [|reflexivity].
    apply plive_some in El as [Hn Hl].
    destruct (nth_error (p_inflight s) k) as [su|] eqn:Ek; [|reflexivity].
    destruct (su_point su =? 1).
    + destruct (if memz (su_port su) (listeners st) then AddrInUse else o).
      * (* bound: point 2 *)
        cbn [fst]. unfold total, set_psess. cbn [pp_pool pp_sess pp_lost].
        rewrite (sumf_upd _ _ _ _ _ Hn). unfold sports. cbn [p_passive p_inflight].
        rewrite !occ_app, (occ_replace_nth p _ k su _ Ek). cbn [su_port]. lia.
      * (* busy: give back, next port *)
        destruct (loop_head (pc_hier cfg) (put (su_prio su + 1, su_port su) (pp_pool st)) (su_viewed su))
          as [pool2 su'|pool2 lost] eqn:Eh; cbn [fst].
        -- rewrite (total_set_pool p st i s _ pool2 [] Hn).
           pose proof (loop_head_start _ _ _ _ _ p Eh) as E. rewrite occ_put in E. cbn [snd] in E.
           unfold total, sports. cbn [p_passive p_inflight occ].
           rewrite !occ_app, (occ_replace_nth p _ k su _ Ek). cbn [mark su_port]. lia.
        -- rewrite end_psess_total by assumption.
           rewrite (total_set_pool p st i s _ pool2 lost Hn).
           pose proof (loop_head_exit _ _ _ _ _ p Eh) as E. rewrite occ_put in E. cbn [snd] in E.
           unfold total, sports. cbn [p_passive p_inflight].
           rewrite !occ_app, (occ_remove_nth p _ k su Ek). lia.
      * (* another OSError: give back, the session dies *)
        cbn [fst]. rewrite end_psess_total by assumption.
        rewrite (total_set_pool p st i s _ _ [] Hn). rewrite occ_put. cbn [snd].
        unfold total, sports. cbn [p_passive p_inflight occ].
        rewrite !occ_app, (occ_remove_nth p _ k su Ek). lia.
    + (* completion *)
      match goal with |- total p (fst (v6_reply _ _ _ ?r)) = _ => assert (Hin : total p (fst r) = total p st) end.
      { destruct (pc_recheck cfg && match p_passive s with Some _ => true | None => false end).
        * cbn [fst]. unfold total. cbn [pp_pool pp_sess pp_lost].
          rewrite (sumf_upd _ _ _ _ _ Hn), occ_put. unfold sports. cbn [p_passive p_inflight opt_list snd].
          rewrite !occ_app, (occ_remove_nth p _ k su Ek). lia.
        * cbn [fst]. unfold total. cbn [pp_pool pp_sess pp_lost].
          rewrite (sumf_upd _ _ _ _ _ Hn). unfold sports. cbn [p_passive p_inflight opt_list].
          rewrite !occ_app, (occ_remove_nth p _ k su Ek). cbn [app occ]. lia. }
      unfold v6_reply. destruct (pc_ipv6 cfg && su_legacy su); cbn [fst]; [rewrite end_psess_total by assumption|]; exact Hin.
  - reflexivity.
  - reflexivity.
  - cbn. apply end_psess_total; assumption.
  - cbn. apply end_all_total; assumption.
Qed.

Lemma pinit_total : forall ports p acc,
  occ p (ports_of (fold_left (fun a q => put (0, q) a) ports acc)) = occ p ports + occ p (ports_of acc).
Proof.
  induction ports as [|q r IH]; intros p acc; cbn [fold_left occ]; [lia|].
  rewrite IH, occ_put. cbn [snd]. lia.
Qed.

(* ACCOUNTING, for every history: every configured port is, counted with multiplicity, in exactly
   one place: the pool, a live session (listener or start-up in flight), or the list of lost ports *)
Theorem accounting : forall cfg evs p, pcfg_ok cfg ->
  total p (prun cfg (pinit cfg) evs) = occ p (pc_ports cfg).
Proof.
  intros cfg evs p Hok.
  assert (H : forall st, total p (prun cfg st evs) = total p st).
  { induction evs as [|e r IH]; intros st; cbn; [reflexivity|]. rewrite IH. apply pstep_total; assumption. }
  rewrite H. unfold total, pinit. cbn [pp_pool pp_sess pp_lost sumf occ]. rewrite pinit_total. cbn. lia.
Qed.

(* ------------------------------------------------------------------ quiet histories lose nothing *)
Definition sess_calm (s : psess) : Prop :=
  (List.length (p_inflight s) <= 1)%nat
  /\ (p_inflight s <> [] -> p_passive s = None)
  /\ (p_live s = false -> p_passive s = None /\ p_inflight s = []).

Record calm (st : pstate) : Prop := {
  calm_lost : pp_lost st = [];
  calm_orph : pp_orphans st = [];
  calm_sess : Forall sess_calm (pp_sess st);
}.

Ltac solve_calm :=
  unfold sess_calm; cbn [p_live p_passive p_inflight List.length];
  repeat split; intros; auto; try congruence; try discriminate; try lia.

Lemma dead_calm : sess_calm dead_sess.
Proof. unfold dead_sess. solve_calm. Qed.

Lemma end_psess_calm : forall cfg i st,
  pcfg_ok cfg -> calm st -> no_inflight st i = true -> calm (end_psess cfg i st).
Proof.
  intros cfg i st Hok Hc Hq.
  destruct (nth_error (pp_sess st) i) as [s|] eqn:Hn.
  2:{ rewrite end_psess_noop; [assumption|]. intros s H; congruence. }
  destruct (p_live s) eqn:Hl.
  2:{ rewrite end_psess_noop; [assumption|]. intros s0 H; congruence. }
  rewrite (end_psess_canon cfg i st s Hok Hn Hl).
  unfold no_inflight in Hq. rewrite Hn in Hq. destruct (p_inflight s) eqn:Ei; [|discriminate].
  constructor; cbn [pp_lost pp_orphans pp_sess].
  - rewrite (calm_lost _ Hc). destruct (pc_giveback cfg); reflexivity.
  - rewrite (calm_orph _ Hc). unfold half_of. rewrite Ei. destruct (pc_giveback cfg); reflexivity.
  - apply Forall_upd; [apply Hc|apply dead_calm].
Qed.

Lemma end_psess_calm_gb : forall cfg i st,
  pcfg_ok cfg -> pc_giveback cfg = true -> calm st -> calm (end_psess cfg i st).
Proof.
  intros cfg i st Hok Hg Hc.
  destruct (nth_error (pp_sess st) i) as [s|] eqn:Hn.
  2:{ rewrite end_psess_noop; [assumption|]. intros s H; congruence. }
  destruct (p_live s) eqn:Hl.
  2:{ rewrite end_psess_noop; [assumption|]. intros s0 H; congruence. }
  rewrite (end_psess_canon cfg i st s Hok Hn Hl), Hg.
  constructor; cbn [pp_lost pp_orphans pp_sess].
  - rewrite (calm_lost _ Hc). reflexivity.
  - rewrite (calm_orph _ Hc). reflexivity.
  - apply Forall_upd; [apply Hc|apply dead_calm].
Qed.

Lemma end_all_calm_gb : forall cfg n st,
  pcfg_ok cfg -> pc_giveback cfg = true -> calm st -> calm (end_all cfg n st).
Proof. induction n as [|k IH]; intros st Hok Hg Hc; cbn; [assumption|]. apply end_psess_calm_gb; auto. Qed.

Definition all_idle (st : pstate) : Prop := Forall (fun s => p_inflight s = []) (pp_sess st).

Lemma all_idle_no_inflight : forall st i, all_idle st -> no_inflight st i = true.
Proof.
  intros st i H. unfold no_inflight. destruct (nth_error (pp_sess st) i) as [s|] eqn:Hn; [|reflexivity].
  rewrite (Forall_nth_error _ _ _ _ H Hn). reflexivity.
Qed.

Lemma end_psess_idle : forall cfg i st, all_idle st -> all_idle (end_psess cfg i st).
Proof.
  intros cfg i st H. unfold end_psess.
  destruct (nth_error (pp_sess st) i) as [s|]; [|assumption].
  destruct (p_live s); [|assumption].
  destruct (p_passive s).
  - destruct (fold_left _ _ _) as [c n]. unfold all_idle. cbn [pp_sess]. apply Forall_upd; [assumption|reflexivity].
  - unfold all_idle. cbn [pp_sess]. apply Forall_upd; [assumption|reflexivity].
Qed.

Lemma end_all_calm : forall cfg n st,
  pcfg_ok cfg -> calm st -> all_idle st -> calm (end_all cfg n st) /\ all_idle (end_all cfg n st).
Proof.
  induction n as [|k IH]; intros st Hok Hc Hi; cbn; [auto|].
  destruct (IH st Hok Hc Hi) as [H1 H2]. split.
  - apply end_psess_calm; auto. apply all_idle_no_inflight; assumption.
  - apply end_psess_idle; assumption.
Qed.

Lemma single_inflight : forall (l : list startup) k su,
  (List.length l <= 1)%nat -> nth_error l k = Some su -> l = [su] /\ k = 0%nat.
Proof.
  intros [|x [|y r]] k su Hl Hk; cbn in Hl; try lia.
  - destruct k; discriminate.
  - destruct k as [|k]; cbn in Hk; [inversion Hk; auto|destruct k; discriminate].
Qed.

Lemma calm_set : forall st i s pool,
  calm st -> sess_calm s -> calm (set_psess i s (with_pool pool [] st)).
Proof.
  intros st i s pool Hc Hs. constructor; cbn.
  - rewrite (calm_lost _ Hc). reflexivity.
  - apply Hc.
  - apply Forall_upd; [apply Hc|assumption].
Qed.

Lemma calm_set' : forall st i s, calm st -> sess_calm s -> calm (set_psess i s st).
Proof.
  intros st i s Hc Hs. constructor; cbn; try apply Hc. apply Forall_upd; [apply Hc|assumption].
Qed.

Lemma no_inflight_set : forall st i s pool lost,
  nth_error (pp_sess st) i <> None -> p_inflight s = [] ->
  no_inflight (set_psess i s (with_pool pool lost st)) i = true.
Proof.
  intros st i s pool lost Hn Hs. unfold no_inflight, set_psess, with_pool. cbn [pp_sess].
  destruct (nth_error (pp_sess st) i) as [s0|] eqn:E; [|congruence].
  rewrite (nth_error_upd_same _ _ (fun _ => s) _ E), Hs. reflexivity.
Qed.

Theorem pstep_calm : forall cfg st e,
  pcfg_ok cfg -> pc_hier cfg = true -> calm st -> quiet_ev cfg st e = true ->
  calm (fst (pstep cfg st e)).
Proof.
  intros cfg st e Hok Hh Hc Hq. destruct e as [|i lg|i k o|i|i|i|].
  - (* PConnect *) constructor; cbn; try apply Hc.
    apply Forall_app. split; [apply Hc|]. constructor; [|constructor].
    solve_calm.
  - (* Pasv *)
    cbn [pstep]. destruct (plive st i) as [s|] eqn:El; [|assumption].
    apply plive_some in El as [Hn Hl].
    cbn [quiet_ev] in Hq.
    destruct (p_passive s) as [q|] eqn:Hp.
    { destruct (pc_ipv6 cfg && lg); cbn [fst]; [apply end_psess_calm; assumption|assumption]. }
    unfold no_inflight in Hq. rewrite Hn in Hq.
    destruct (p_inflight s) eqn:Ei; [|discriminate].
    rewrite Hh. destruct (loop_head true (pp_pool st) []) as [pool' su|pool' lost] eqn:Eh; cbn [fst app].
    + apply calm_set; [assumption|]. solve_calm.
    + apply loop_head_exit_hier in Eh as ->.
      apply end_psess_calm; [assumption| |].
      * constructor; cbn; try apply Hc. rewrite (calm_lost _ Hc). reflexivity.
      * unfold no_inflight, with_pool. cbn [pp_sess]. rewrite Hn, Ei. reflexivity.
  - (* Resume *)
    cbn [pstep]. destruct (plive st i) as [s|] eqn:El; [|assumption].
    apply plive_some in El as [Hn Hl].
    destruct (nth_error (p_inflight s) k) as [su|] eqn:Ek; [|assumption].
    pose proof (Forall_nth_error _ _ _ _ (calm_sess _ Hc) Hn) as (C1 & C2 & C3).
    destruct (single_inflight _ _ _ C1 Ek) as [Ei ->].
    assert (Hp : p_passive s = None) by (apply C2; rewrite Ei; discriminate).
    assert (Hsome : nth_error (pp_sess st) i <> None) by congruence.
    rewrite Ei, Hp. cbn [replace_nth remove_nth].
    destruct (su_point su =? 1).
    + destruct (if memz (su_port su) (listeners st) then AddrInUse else o).
      * cbn [fst]. apply calm_set'; [assumption|]. solve_calm.
      * rewrite Hh.
        destruct (loop_head true (put (su_prio su + 1, su_port su) (pp_pool st)) (su_viewed su))
          as [pool2 su'|pool2 lost] eqn:Eh; cbn [fst].
        -- apply calm_set; [assumption|]. solve_calm.
        -- apply loop_head_exit_hier in Eh as ->.
           apply end_psess_calm; [assumption| |].
           ++ apply calm_set; [assumption|]. solve_calm.
           ++ apply no_inflight_set; auto.
      * cbn [fst]. apply end_psess_calm; [assumption| |].
        -- apply calm_set; [assumption|]. solve_calm.
        -- apply no_inflight_set; auto.
    + rewrite andb_false_r. cbn [opt_list].
      match goal with |- calm (fst (v6_reply _ _ _ ?r)) => assert (Hin : calm (fst r)) end.
      { cbn [fst]. constructor; cbn [pp_lost pp_orphans pp_sess].
        * rewrite (calm_lost _ Hc). reflexivity.
        * rewrite (calm_orph _ Hc). reflexivity.
        * apply Forall_upd; [apply Hc|]. solve_calm. }
      unfold v6_reply. destruct (pc_ipv6 cfg && su_legacy su); cbn [fst] in *; [|exact Hin].
      apply end_psess_calm; [assumption|exact Hin|].
      unfold no_inflight. cbn [pp_sess]. rewrite (nth_error_upd_same _ _ _ _ Hn). reflexivity.
  - assumption.
  - assumption.
  - cbn. cbn [quiet_ev] in Hq. apply orb_true_iff in Hq as [Hg|Hq];
      [apply end_psess_calm_gb|apply end_psess_calm]; assumption.
  - cbn. cbn [quiet_ev] in Hq. apply orb_true_iff in Hq as [Hg|Hq]; [apply end_all_calm_gb; assumption|].
    apply end_all_calm; auto.
    unfold all_idle. rewrite forallb_forall in Hq. apply Forall_forall. intros s Hs.
    specialize (Hq s Hs). destruct (p_inflight s); [reflexivity|discriminate].
Qed.

Lemma pinit_calm : forall cfg, calm (pinit cfg).
Proof. intros cfg. constructor; cbn; auto. Qed.

Theorem quiet_calm : forall cfg evs st,
  pcfg_ok cfg -> pc_hier cfg = true -> calm st -> quiet_run cfg st evs = true ->
  calm (prun cfg st evs).
Proof.
  intros cfg evs. induction evs as [|e r IH]; intros st Hok Hh Hc Hq; cbn in *; [assumption|].
  apply andb_true_iff in Hq as [Hq1 Hq2]. apply IH; auto. apply pstep_calm; auto.
Qed.

(* ports held by live sessions *)
Definition held (p : Z) (st : pstate) : Z := sumf (fun s => occ p (sports s)) (pp_sess st).

(* POOL CONSERVATION (partial): without a cancellation inside a listener start-up and without a
   second start-up in the same session, nothing is lost, nothing is duplicated, no listener is
   orphaned: pool (+) held-by-sessions = configured, as multisets *)
Theorem pool_conserved_partial : forall cfg evs, pcfg_ok cfg -> pc_hier cfg = true ->
  quiet_run cfg (pinit cfg) evs = true ->
  let st := prun cfg (pinit cfg) evs in
  (forall p, occ p (ports_of (pp_pool st)) + held p st = occ p (pc_ports cfg))
  /\ pp_lost st = [] /\ pp_orphans st = [].
Proof.
  intros cfg evs Hok Hh Hq st.
  pose proof (quiet_calm cfg evs (pinit cfg) Hok Hh (pinit_calm cfg) Hq) as Hc. fold st in Hc.
  split; [|split; apply Hc].
  intros p. pose proof (accounting cfg evs p Hok) as Ha. fold st in Ha. unfold total in Ha.
  rewrite (calm_lost _ Hc) in Ha. cbn [occ] in Ha. unfold held. lia.
Qed.

(* after all sessions ended the pool holds exactly the configured ports *)
Theorem quiescent_pool : forall cfg evs, pcfg_ok cfg -> pc_hier cfg = true ->
  quiet_run cfg (pinit cfg) evs = true ->
  let st := prun cfg (pinit cfg) evs in
  Forall (fun s => p_live s = false) (pp_sess st) ->
  forall p, occ p (ports_of (pp_pool st)) = occ p (pc_ports cfg).
Proof.
  intros cfg evs Hok Hh Hq st Hdead p.
  pose proof (quiet_calm cfg evs (pinit cfg) Hok Hh (pinit_calm cfg) Hq) as Hc. fold st in Hc.
  destruct (pool_conserved_partial cfg evs Hok Hh Hq) as [Hcons _]. fold st in Hcons.
  specialize (Hcons p). unfold held in Hcons.
  rewrite sumf_zero in Hcons; [lia|].
  rewrite Forall_forall in *. intros s Hs.
  destruct (proj1 (Forall_forall _ _) (calm_sess _ Hc) s Hs) as (_ & _ & C3).
  destruct (C3 (Hdead s Hs)) as [E1 E2]. unfold sports. rewrite E1, E2. reflexivity.
Qed.

(* ------------------------------------------------------------------ the retry loop terminates *)
Lemma memz_In : forall x l, memz x l = true <-> In x l.
Proof.
  induction l as [|y r IH]; cbn; [split; [discriminate|tauto]|].
  rewrite orb_true_iff, IH, Z.eqb_eq. split; intros [H|H]; auto.
Qed.

Definition su_ok (cfg : pconfig) (su : startup) : Prop :=
  NoDup (su_viewed su) /\ In (su_port su) (su_viewed su)
  /\ (forall q, In q (su_viewed su) -> In q (pc_ports cfg)).

Definition viewed_ok (cfg : pconfig) (st : pstate) : Prop :=
  Forall (fun s => Forall (su_ok cfg) (p_inflight s)) (pp_sess st).

Lemma loop_head_start_ok : forall cfg hier pool viewed pool' su,
  loop_head hier pool viewed = HStart pool' su ->
  NoDup viewed -> (forall q, In q viewed -> In q (pc_ports cfg)) ->
  (forall q, In q (ports_of pool) -> In q (pc_ports cfg)) ->
  su_ok cfg su /\ su_viewed su = su_port su :: viewed /\ su_point su = 1.
Proof.
  intros cfg hier [|[prio port] rest] viewed pool' su H Hnd Hv Hp; cbn in H; [discriminate|].
  destruct (memz port viewed) eqn:Em; [destruct hier; discriminate|].
  inversion H; subst; cbn. split; [|auto]. repeat split; cbn.
  - constructor; [|assumption]. intros Hin. apply memz_In in Hin. congruence.
  - auto.
  - intros q [<-|Hq]; [apply Hp; cbn; auto|auto].
Qed.

(* when every port of the pool has been viewed the loop exits (421): no further attempt *)
Lemma loop_head_all_viewed_exits : forall hier pool viewed,
  (forall q, In q (ports_of pool) -> In q viewed) ->
  exists pool' lost, loop_head hier pool viewed = HExit pool' lost.
Proof.
  intros hier [|[prio port] rest] viewed H; cbn; [eauto|].
  assert (E : memz port viewed = true) by (apply memz_In, H; cbn; auto). rewrite E.
  destruct hier; eauto.
Qed.

Lemma Forall_replace_nth : forall {A} (P : A -> Prop) l k x,
  Forall P l -> P x -> Forall P (replace_nth k x l).
Proof.
  induction l as [|y r IH]; intros [|k] x H Hx; cbn; try assumption; inversion H; subst; constructor; auto.
Qed.

Lemma Forall_remove_nth : forall {A} (P : A -> Prop) l k, Forall P l -> Forall P (remove_nth k l).
Proof.
  induction l as [|y r IH]; intros [|k] H; cbn; try assumption; inversion H; subst; auto.
Qed.

Lemma pool_in_configured : forall cfg st q,
  (forall p, total p st = occ p (pc_ports cfg)) -> In q (ports_of (pp_pool st)) -> In q (pc_ports cfg).
Proof.
  intros cfg st q Ht Hin. apply occ_pos_In. rewrite <- Ht. unfold total.
  pose proof (occ_In _ _ Hin). pose proof (occ_nonneg q (pp_lost st)).
  assert (0 <= sumf (fun s => occ q (sports s)) (pp_sess st)).
  { induction (pp_sess st) as [|s r IH]; cbn [sumf]; [lia|]. pose proof (occ_nonneg q (sports s)). lia. }
  lia.
Qed.

Lemma end_psess_viewed : forall cfg i st, viewed_ok cfg st -> viewed_ok cfg (end_psess cfg i st).
Proof.
  intros cfg i st H. unfold end_psess.
  destruct (nth_error (pp_sess st) i) as [s|]; [|assumption].
  destruct (p_live s); [|assumption].
  destruct (p_passive s).
  - destruct (fold_left _ _ _) as [c n]. unfold viewed_ok. cbn [pp_sess]. apply Forall_upd; [assumption|constructor].
  - unfold viewed_ok. cbn [pp_sess]. apply Forall_upd; [assumption|constructor].
Qed.

Lemma end_all_viewed : forall cfg n st, viewed_ok cfg st -> viewed_ok cfg (end_all cfg n st).
Proof. induction n as [|k IH]; intros st H; cbn; [assumption|]. apply end_psess_viewed, IH, H. Qed.

Lemma In_put : forall q x l, In q (ports_of (put x l)) -> q = snd x \/ In q (ports_of l).
Proof.
  intros q x l H. apply occ_In in H. rewrite occ_put in H.
  destruct (snd x =? q) eqn:E; [left; symmetry; now apply Z.eqb_eq|right; apply occ_pos_In; cbn [b2z] in H; lia].
Qed.

Lemma su_ok_mark : forall cfg b su, su_ok cfg su -> su_ok cfg (mark b su).
Proof. intros cfg b su H. exact H. Qed.

Theorem pstep_viewed : forall cfg st e,
  (forall p, total p st = occ p (pc_ports cfg)) -> viewed_ok cfg st ->
  viewed_ok cfg (fst (pstep cfg st e)).
Proof.
  intros cfg st e Ht Hv. destruct e as [|i lg|i k o|i|i|i|].
  - unfold viewed_ok. cbn. apply Forall_app. split; [assumption|]. repeat constructor.
  - cbn [pstep]. destruct (plive st i) as [s|] eqn:El; [|assumption].
    apply plive_some in El as [Hn Hl].
    destruct (p_passive s) as [q|] eqn:Hp.
    { destruct (pc_ipv6 cfg && lg); cbn [fst]; [apply end_psess_viewed|]; assumption. }
    destruct (loop_head (pc_hier cfg) (pp_pool st) []) as [pool' su|pool' lost] eqn:Eh; cbn [fst].
    + destruct (loop_head_start_ok cfg _ _ _ _ _ Eh) as (Hsu & _ & _).
      * constructor.
      * intros q [].
      * intros q Hq. eapply pool_in_configured; eassumption.
      * unfold viewed_ok. cbn. apply Forall_upd; [assumption|]. cbn.
        apply Forall_app. split; [exact (Forall_nth_error _ _ _ _ Hv Hn)|constructor; [apply su_ok_mark, Hsu|constructor]].
    + apply end_psess_viewed. assumption.
  - cbn [pstep]. destruct (plive st i) as [s|] eqn:El; [|assumption].
    apply plive_some in El as [Hn Hl].
    destruct (nth_error (p_inflight s) k) as [su|] eqn:Ek; [|assumption].
    pose proof (Forall_nth_error _ _ _ _ Hv Hn) as Hs. cbn beta in Hs.
    pose proof (Forall_nth_error _ _ _ _ Hs Ek) as (S1 & S2 & S3).
    destruct (su_point su =? 1).
    + destruct (if memz (su_port su) (listeners st) then AddrInUse else o).
      * cbn [fst]. unfold viewed_ok. cbn. apply Forall_upd; [assumption|]. cbn.
        apply Forall_replace_nth; [assumption|]. repeat split; cbn; auto.
      * destruct (loop_head (pc_hier cfg) (put (su_prio su + 1, su_port su) (pp_pool st)) (su_viewed su))
          as [pool2 su'|pool2 lost] eqn:Eh; cbn [fst].
        -- destruct (loop_head_start_ok cfg _ _ _ _ _ Eh S1 S3) as (Hsu & _ & _).
           { intros q Hq. apply In_put in Hq as [->|Hq]; cbn [snd]; [auto|].
             eapply pool_in_configured; eassumption. }
           unfold viewed_ok. cbn. apply Forall_upd; [assumption|]. cbn.
           apply Forall_replace_nth; [assumption|apply su_ok_mark; assumption].
        -- apply end_psess_viewed. unfold viewed_ok. cbn. apply Forall_upd; [assumption|]. cbn.
           apply Forall_remove_nth; assumption.
      * cbn [fst]. apply end_psess_viewed. unfold viewed_ok. cbn. apply Forall_upd; [assumption|]. cbn.
        apply Forall_remove_nth; assumption.
    + match goal with |- viewed_ok cfg (fst (v6_reply _ _ _ ?r)) => assert (Hin : viewed_ok cfg (fst r)) end.
      { destruct (pc_recheck cfg && match p_passive s with Some _ => true | None => false end);
          cbn [fst]; unfold viewed_ok; cbn; (apply Forall_upd; [assumption|]); cbn;
          apply Forall_remove_nth; assumption. }
      unfold v6_reply. destruct (pc_ipv6 cfg && su_legacy su); cbn [fst]; [apply end_psess_viewed|]; exact Hin.
  - assumption.
  - assumption.
  - cbn. apply end_psess_viewed; assumption.
  - cbn. apply end_all_viewed; assumption.
Qed.

(* in every reachable state, every start-up in flight has tried only distinct configured ports:
   at most |configured| of them; by loop_head_all_viewed_exits the next attempt after that exits.
   So one call of _start_passive_server makes at most |configured| + 1 attempts. *)
Theorem viewed_bounded : forall cfg evs s su, pcfg_ok cfg ->
  In s (pp_sess (prun cfg (pinit cfg) evs)) -> In su (p_inflight s) ->
  NoDup (su_viewed su)
  /\ (forall q, In q (su_viewed su) -> In q (pc_ports cfg))
  /\ (List.length (su_viewed su) <= List.length (pc_ports cfg))%nat.
Proof.
  intros cfg evs s su Hok Hs Hsu.
  assert (H : forall evs st, (forall p, total p st = occ p (pc_ports cfg)) -> viewed_ok cfg st ->
                        viewed_ok cfg (prun cfg st evs)).
  { clear evs Hs. induction evs as [|e r IH]; intros st Ht Hv; cbn; [assumption|].
    apply IH; [|apply pstep_viewed; assumption].
    intros p. rewrite pstep_total; auto. }
  assert (Hv : viewed_ok cfg (prun cfg (pinit cfg) evs)).
  { apply H; [|constructor].
    intros p. unfold total, pinit. cbn [pp_pool pp_sess pp_lost sumf occ]. rewrite pinit_total. cbn. lia. }
  unfold viewed_ok in Hv. rewrite Forall_forall in Hv. specialize (Hv s Hs). rewrite Forall_forall in Hv.
  destruct (Hv su Hsu) as (V1 & V2 & V3). repeat split; auto.
  apply NoDup_incl_length; assumption.
Qed.

(* a busy port is put back and the next attempt views one more port, or the start-up ends *)
Lemma retry_progress : forall hier pool su pool2 su',
  loop_head hier (put (su_prio su + 1, su_port su) pool) (su_viewed su) = HStart pool2 su' ->
  List.length (su_viewed su') = S (List.length (su_viewed su)).
Proof.
  intros hier pool su pool2 su' H.
  destruct (put (su_prio su + 1, su_port su) pool) as [|[prio port] rest]; cbn in H; [discriminate|].
  destruct (memz port (su_viewed su)); [destruct hier; discriminate|]. inversion H; subst. reflexivity.
Qed.

(* exhaustion is answered with 421 and ends the session *)
Lemma exhaustion_421 : forall cfg st i lg s,
  plive st i = Some s -> p_passive s = None -> pp_pool st = [] ->
  snd (pstep cfg st (Pasv i lg)) = [(i, 421)].
Proof. intros cfg st i lg s Hl Hp He. cbn. rewrite Hl, Hp, He. reflexivity. Qed.

(* ------------------------------------------------------------------ the repaired source loses nothing, ever *)
(* pc_giveback: cancellation inside the start-up gives the port back and closes what is bound;
   pc_recheck: a start-up that finds a listener stored meanwhile gives its own back.
   With both, for EVERY history (any cancellation point, any overlap): nothing lost, nothing orphaned. *)
Definition sess_clean (s : psess) : Prop := p_live s = false -> p_passive s = None /\ p_inflight s = [].

Record clean (st : pstate) : Prop := {
  clean_lost : pp_lost st = [];
  clean_orph : pp_orphans st = [];
  clean_sess : Forall sess_clean (pp_sess st);
}.

Lemma live_clean : forall pv infl, sess_clean {| p_live := true; p_passive := pv; p_inflight := infl |}.
Proof. intros pv infl H. cbn in H. discriminate. Qed.

Lemma end_psess_clean : forall cfg i st,
  pcfg_ok cfg -> pc_giveback cfg = true -> clean st -> clean (end_psess cfg i st).
Proof.
  intros cfg i st Hok Hg Hc.
  destruct (nth_error (pp_sess st) i) as [s|] eqn:Hn.
  2:{ rewrite end_psess_noop; [assumption|]. intros s H; congruence. }
  destruct (p_live s) eqn:Hl.
  2:{ rewrite end_psess_noop; [assumption|]. intros s0 H; congruence. }
  rewrite (end_psess_canon cfg i st s Hok Hn Hl), Hg.
  constructor; cbn [pp_lost pp_orphans pp_sess].
  - rewrite (clean_lost _ Hc). reflexivity.
  - rewrite (clean_orph _ Hc). reflexivity.
  - apply Forall_upd; [apply Hc|]. intros _. split; reflexivity.
Qed.

Lemma end_all_clean : forall cfg n st,
  pcfg_ok cfg -> pc_giveback cfg = true -> clean st -> clean (end_all cfg n st).
Proof. induction n as [|k IH]; intros st Hok Hg Hc; cbn; [assumption|]. apply end_psess_clean; auto. Qed.

Lemma clean_set : forall st i s pool,
  clean st -> sess_clean s -> clean (set_psess i s (with_pool pool [] st)).
Proof.
  intros st i s pool Hc Hs. constructor; cbn.
  - rewrite (clean_lost _ Hc). reflexivity.
  - apply Hc.
  - apply Forall_upd; [apply Hc|assumption].
Qed.

Lemma clean_set' : forall st i s, clean st -> sess_clean s -> clean (set_psess i s st).
Proof.
  intros st i s Hc Hs. constructor; cbn; try apply Hc. apply Forall_upd; [apply Hc|assumption].
Qed.

Theorem pstep_clean : forall cfg st e,
  pcfg_ok cfg -> pc_hier cfg = true -> pc_giveback cfg = true -> pc_recheck cfg = true ->
  clean st -> clean (fst (pstep cfg st e)).
Proof.
  intros cfg st e Hok Hh Hg Hr Hc. destruct e as [|i lg|i k o|i|i|i|].
  - constructor; cbn; try apply Hc.
    apply Forall_app. split; [apply Hc|]. constructor; [apply live_clean|constructor].
  - cbn [pstep]. destruct (plive st i) as [s|] eqn:El; [|assumption].
    destruct (p_passive s) as [q|] eqn:Hp.
    { destruct (pc_ipv6 cfg && lg); cbn [fst]; [apply end_psess_clean|]; assumption. }
    rewrite Hh. destruct (loop_head true (pp_pool st) []) as [pool' su|pool' lost] eqn:Eh; cbn [fst].
    + apply clean_set; [assumption|apply live_clean].
    + apply loop_head_exit_hier in Eh as ->. apply end_psess_clean; auto.
      constructor; cbn; try apply Hc. rewrite (clean_lost _ Hc). reflexivity.
  - cbn [pstep]. destruct (plive st i) as [s|] eqn:El; [|assumption].
    destruct (nth_error (p_inflight s) k) as [su|] eqn:Ek; [|assumption].
    destruct (su_point su =? 1).
    + destruct (if memz (su_port su) (listeners st) then AddrInUse else o).
      * cbn [fst]. apply clean_set'; [assumption|apply live_clean].
      * rewrite Hh.
        destruct (loop_head true (put (su_prio su + 1, su_port su) (pp_pool st)) (su_viewed su))
          as [pool2 su'|pool2 lost] eqn:Eh; cbn [fst].
        -- apply clean_set; [assumption|apply live_clean].
        -- apply loop_head_exit_hier in Eh as ->. apply end_psess_clean; auto.
           apply clean_set; [assumption|apply live_clean].
      * cbn [fst]. apply end_psess_clean; auto. apply clean_set; [assumption|apply live_clean].
    + match goal with |- clean (fst (v6_reply _ _ _ ?r)) => assert (Hin : clean (fst r)) end.
      { rewrite Hr. destruct (p_passive s) as [q|] eqn:Hp; cbn [andb fst opt_list].
        * constructor; cbn [pp_lost pp_orphans pp_sess]; try apply Hc.
          apply Forall_upd; [apply Hc|apply live_clean].
        * constructor; cbn [pp_lost pp_orphans pp_sess].
          -- rewrite (clean_lost _ Hc). reflexivity.
          -- rewrite (clean_orph _ Hc). reflexivity.
          -- apply Forall_upd; [apply Hc|apply live_clean]. }
      unfold v6_reply. destruct (pc_ipv6 cfg && su_legacy su); cbn [fst]; [apply end_psess_clean; auto|exact Hin].
  - assumption.
  - assumption.
  - cbn. apply end_psess_clean; assumption.
  - cbn. apply end_all_clean; assumption.
Qed.

Lemma pinit_clean : forall cfg, clean (pinit cfg).
Proof. intros cfg. constructor; cbn; auto. Qed.

Theorem fixed_clean : forall cfg evs st,
  pcfg_ok cfg -> pc_hier cfg = true -> pc_giveback cfg = true -> pc_recheck cfg = true ->
  clean st -> clean (prun cfg st evs).
Proof.
  intros cfg evs. induction evs as [|e r IH]; intros st Hok Hh Hg Hr Hc; cbn; [assumption|].
  apply IH; auto. apply pstep_clean; auto.
Qed.

(* POOL CONSERVATION, full strength, for the repaired source: every history - any number of sessions,
   any bind outcomes, a session end at any moment including inside a listener start-up, overlapping
   PASV/EPSV - keeps  pool (+) held-by-live-sessions = configured,  loses nothing, orphans nothing *)
Theorem pool_conserved_fixed : forall cfg evs, pcfg_ok cfg -> pc_hier cfg = true ->
  pc_giveback cfg = true -> pc_recheck cfg = true ->
  let st := prun cfg (pinit cfg) evs in
  (forall p, occ p (ports_of (pp_pool st)) + held p st = occ p (pc_ports cfg))
  /\ pp_lost st = [] /\ pp_orphans st = [].
Proof.
  intros cfg evs Hok Hh Hg Hr st.
  pose proof (fixed_clean cfg evs (pinit cfg) Hok Hh Hg Hr (pinit_clean cfg)) as Hc. fold st in Hc.
  split; [|split; apply Hc].
  intros p. pose proof (accounting cfg evs p Hok) as Ha. fold st in Ha. unfold total in Ha.
  rewrite (clean_lost _ Hc) in Ha. cbn [occ] in Ha. unfold held. lia.
Qed.

Theorem quiescent_pool_fixed : forall cfg evs, pcfg_ok cfg -> pc_hier cfg = true ->
  pc_giveback cfg = true -> pc_recheck cfg = true ->
  let st := prun cfg (pinit cfg) evs in
  Forall (fun s => p_live s = false) (pp_sess st) ->
  forall p, occ p (ports_of (pp_pool st)) = occ p (pc_ports cfg).
Proof.
  intros cfg evs Hok Hh Hg Hr st Hdead p.
  pose proof (fixed_clean cfg evs (pinit cfg) Hok Hh Hg Hr (pinit_clean cfg)) as Hc. fold st in Hc.
  destruct (pool_conserved_fixed cfg evs Hok Hh Hg Hr) as [Hcons _]. fold st in Hcons.
  specialize (Hcons p). unfold held in Hcons.
  rewrite sumf_zero in Hcons; [lia|].
  rewrite Forall_forall in *. intros s Hs.
  destruct (proj1 (Forall_forall _ _) (clean_sess _ Hc) s Hs (Hdead s Hs)) as [E1 E2].
  unfold sports. rewrite E1, E2. reflexivity.
Qed.
