(* C03: the login state of a session is a function of its USER / PASS events only, and equals the
   authentication spec: logged in as u iff u is password-free and was the last USER, or the last
   PASS since the last USER carried exactly u's password. *)
From Coq Require Import ZArith List Bool String Lia.
From Verif Require Import Lib.Sx Lib.PyStr Lib.Facts Model.Session Proofs.SessionGuard.
Import ListNotations.
Open Scope list_scope.
Open Scope Z_scope.

Local Notation tbl := (list (string * (string * list deco * option string))).

Definition same_login (w w' : world) : Prop :=
  s_user (w_s w') = s_user (w_s w) /\ s_logged (w_s w') = s_logged (w_s w).

Lemma same_login_refl w : same_login w w. Proof. split; reflexivity. Qed.
Lemma same_login_trans a b c : same_login a b -> same_login b c -> same_login a c.
Proof. unfold same_login. intuition congruence. Qed.

Lemma run_conds_sess cs p w : w_s (fst (run_conds cs p w)) = w_s w.
Proof.
  revert w. induction cs as [|c cs IH]; intro w; cbn [run_conds]; [reflexivity|].
  destruct (probe c p (w_fs w)) as [[[m v] fl]|]; [|reflexivity].
  destruct (Bool.eqb v fl); [reflexivity|]. rewrite IH. reflexivity.
Qed.

Ltac brk :=
  repeat (match goal with
          | |- context[match ?x with _ => _ end] =>
              lazymatch x with
              | context[match _ with _ => _ end] => fail
              | _ => destruct x eqn:?
              end
          end; cbn [fst snd res_world w_s w_fs w_log s_user s_logged set_sess set_fs log_call
                    set_cwd set_rnfr set_rest set_passive set_data set_login] in *).

Section WithTable.
  Variable users : list user.
  Variable t : tbl.

  Lemma run_decos_same_login ds arg w body :
    (forall w1, w_s w1 = w_s w -> same_login w (res_world (body w1))) ->
    same_login w (res_world (run_decos users ds arg w body)).
  Proof.
    revert w. induction ds as [|d ds IH]; intros w Hb; cbn [run_decos].
    - apply Hb. reflexivity.
    - destruct d as [fields wait fc|cs|ps| |n].
      + destruct (find _ fields); [apply same_login_refl|]. apply IH. exact Hb.
      + pose proof (run_conds_sess cs (resolve (s_cwd (w_s w)) arg) w) as E.
        destruct (run_conds cs (resolve (s_cwd (w_s w)) arg) w) as [w' ok]. cbn [fst] in E.
        destruct ok.
        * assert (SL : same_login w w') by (unfold same_login; rewrite E; split; reflexivity).
          eapply same_login_trans; [exact SL|]. apply IH. intros w1 H1.
          eapply same_login_trans; [unfold same_login; rewrite <- E; split; reflexivity|].
          apply Hb. congruence.
        * unfold same_login, res_world. cbn. rewrite E. split; reflexivity.
      + destruct ps as [|f ps'].
        * apply same_login_refl.
        * destruct (cur_user users (w_s w)); [|apply same_login_refl].
          destruct (if String.eqb f "readable" then _ else _); [apply IH; exact Hb|apply same_login_refl].
      + apply IH; exact Hb.
      + apply IH; exact Hb.
  Qed.

  Definition self_ok (self : string -> text -> dataact -> bool -> world -> result) : Prop :=
    forall n a d ap w, ~ In n login_names -> same_login w (res_world (self n a d ap w)).

  Lemma body_same_login self h arg d appe w0 w :
    self_ok self -> ~ In h login_names -> w_s w = w_s w0 ->
    same_login w0 (res_world (body users self h arg d appe w)).
  Proof.
    intros SO NL E.
    assert (B : same_login w (res_world (body users self h arg d appe w))).
    2:{ eapply same_login_trans; [|exact B]. unfold same_login. rewrite E. split; reflexivity. }
    clear E w0. unfold body.
    destruct (String.eqb h "user") eqn:E1.
    { apply String.eqb_eq in E1. subst. exfalso. apply NL. cbn. auto. }
    destruct (String.eqb h "pass_") eqn:E2.
    { apply String.eqb_eq in E2. subst. exfalso. apply NL. cbn. auto. }
    destruct (String.eqb h "quit"); [apply same_login_refl|].
    destruct (String.eqb h "pwd"); [apply same_login_refl|].
    destruct (String.eqb h "cwd"); [split; reflexivity|].
    destruct (String.eqb h "cdup").
    { apply SO. cbn. intros [H|[H|[]]]; discriminate. }
    destruct (String.eqb h "mkd"); [unfold same_login, res_world; brk; split; reflexivity|].
    destruct (String.eqb h "rmd"); [unfold same_login, res_world; brk; split; reflexivity|].
    destruct (String.eqb h "dele"); [unfold same_login, res_world; brk; split; reflexivity|].
    destruct (String.eqb h "rnfr"); [split; reflexivity|].
    destruct (String.eqb h "rnto"); [unfold same_login, res_world, reply; brk; split; reflexivity|].
    destruct (String.eqb h "mlst"); [split; reflexivity|].
    destruct (String.eqb h "list"); [unfold same_login, res_world, with_data; brk; split; reflexivity|].
    destruct (String.eqb h "mlsd"); [unfold same_login, res_world, with_data; brk; split; reflexivity|].
    destruct (String.eqb h "retr"); [unfold same_login, res_world, with_data; brk; split; reflexivity|].
    destruct (String.eqb h "stor"); [unfold same_login, res_world, with_data; brk; split; reflexivity|].
    destruct (String.eqb h "appe").
    { apply SO. cbn. intros [H|[H|[]]]; discriminate. }
    destruct (String.eqb h "type"); [unfold same_login, res_world, reply; brk; split; reflexivity|].
    destruct (String.eqb h "pbsz"); [apply same_login_refl|].
    destruct (String.eqb h "prot"); [unfold same_login, res_world, reply; brk; split; reflexivity|].
    destruct (String.eqb h "pasv"); [split; reflexivity|].
    destruct (String.eqb h "epsv"); [unfold same_login, res_world; brk; split; reflexivity|].
    destruct (String.eqb h "abor"); [apply same_login_refl|].
    destruct (String.eqb h "rest"); [unfold same_login, res_world; brk; split; reflexivity|].
    destruct (String.eqb h "syst"); [apply same_login_refl|].
    apply same_login_refl.
  Qed.

  Lemma handler_same_login fuel : self_ok (handler users t fuel).
  Proof.
    induction fuel as [|f IH]; intros n a d ap w NL; cbn [handler]; [apply same_login_refl|].
    destruct (handler_of t n) as [[ds dl]|]; [|apply same_login_refl].
    apply run_decos_same_login. intros w1 E. apply body_same_login; [exact IH|exact NL|exact E].
  Qed.

  (* ---- the login verbs ---- *)
  (* what USER does to the login state: a function of the argument alone *)
  Definition user_spec (login : text) : option nat * bool :=
    match find_user users 0 login None with
    | None => (None, false)
    | Some i =>
        match nth_error users i with
        | None => (None, false)
        | Some u => match u_login u, u_password u with
                    | None, _ | _, None => (Some i, true)
                    | Some _, Some _ => (Some i, false)
                    end
        end
    end.

  (* what PASS does: authorises only a pending user whose password it carries *)
  Definition pass_spec (st : option nat * bool) (pw : text) : option nat * bool :=
    match st with
    | (Some i, false) =>
        match nth_error users i with
        | Some u => if opt_text_eqb (u_password u) (Some pw) then (Some i, true) else st
        | None => st
        end
    | _ => st
    end.

  Definition login_of (w : world) : option nat * bool := (s_user (w_s w), s_logged (w_s w)).

  Lemma body_user self arg d appe w :
    login_of (res_world (body users self "user" arg d appe w)) = user_spec arg.
  Proof.
    unfold body, user_spec, login_of, res_world. cbn [String.eqb Ascii.eqb Bool.eqb].
    destruct (find_user users 0 arg None) as [i|]; [|reflexivity].
    destruct (nth_error users i) as [u|]; [|reflexivity].
    destruct (u_login u); destruct (u_password u); reflexivity.
  Qed.

  Lemma body_pass self arg d appe w :
    login_of (res_world (body users self "pass_" arg d appe w)) = pass_spec (login_of w) arg
    \/ (s_user (w_s w) = None /\ login_of (res_world (body users self "pass_" arg d appe w)) = login_of w).
  Proof.
    unfold body, pass_spec, login_of, res_world, cur_user, reply. cbn [String.eqb Ascii.eqb Bool.eqb].
    destruct (s_logged (w_s w)) eqn:L.
    - left. cbn. rewrite L. destruct (s_user (w_s w)); reflexivity.
    - destruct (s_user (w_s w)) as [i|] eqn:U.
      + left. destruct (nth_error users i) as [u|]; cbn; rewrite ?L, ?U; [|reflexivity].
        destruct (opt_text_eqb (u_password u) (Some arg)); cbn; rewrite ?L, ?U; reflexivity.
      + right. split; [reflexivity|]. cbn. rewrite L, U. reflexivity.
  Qed.
End WithTable.

(* ---- one step, any world ---- *)
Definition login_entries_ok (t : tbl) : bool :=
  match handler_of t "user", handler_of t "pass_" with
  | Some ([], _), Some ([DConn [f] false _], _) => String.eqb f "user"
  | _, _ => false
  end.

Definition is_verb_of (t : tbl) (h : string) (e : event) : Prop := verb_handler t (e_verb e) = Some h.

Section Steps.
  Variable users : list user.
  Variable t : tbl.
  Hypothesis LE : login_entries_ok t = true.

  Definition login_step_ok (st st' : option nat * bool) (e : event) : Prop :=
    st' = st
    \/ (is_verb_of t "user" e /\ st' = user_spec users (e_arg e))
    \/ (is_verb_of t "pass_" e /\ st' = pass_spec users st (e_arg e)).

  Lemma login_of_set_rest w z : login_of (set_sess w (set_rest (w_s w) z)) = login_of w.
  Proof. reflexivity. Qed.

  Theorem step_login_ok w e :
    login_step_ok (login_of w) (login_of (fst (step users t w e))) e.
  Proof.
    unfold step. destruct (s_ended (w_s w)); [left; reflexivity|].
    destruct (text_eqb (e_verb e) V_DATACONN).
    { destruct (s_passive (w_s w) && negb (s_data (w_s w))); left; reflexivity. }
    destruct (verb_handler t (e_verb e)) as [h|] eqn:V; [|left; reflexivity].
    set (w0 := if is_transfer (e_verb e) then w else set_sess w (set_rest (w_s w) 0)).
    assert (L0 : login_of w0 = login_of w) by (unfold w0; destruct (is_transfer (e_verb e)); reflexivity).
    assert (FIN : forall (w1 : world) (o : out) (keep : bool),
               login_of (fst ((if keep
                               then (if is_transfer (e_verb e) then set_sess w1 (set_rest (w_s w1) 0) else w1)
                               else set_sess (if is_transfer (e_verb e) then set_sess w1 (set_rest (w_s w1) 0) else w1)
                                             (end_sess (w_s (if is_transfer (e_verb e) then set_sess w1 (set_rest (w_s w1) 0) else w1)))),
                              o)) = login_of w1)
      by (intros w1 o [|]; destruct (is_transfer (e_verb e)); reflexivity).
    unfold login_entries_ok in LE.
    destruct (handler_of t "user") as [[[|] udl]|] eqn:HU; try discriminate.
    destruct (handler_of t "pass_") as [[[|[fields wait fc| | | |] [|]] pdl]|] eqn:HP; try discriminate.
    2:{ exfalso. clear -LE. destruct fields as [|? [|? ?]]; try destruct wait; discriminate. }
    destruct fields as [|f [|]]; try discriminate. destruct wait; try discriminate.
    apply String.eqb_eq in LE. subst f.
    destruct (String.eqb h "user") eqn:E1.
    { apply String.eqb_eq in E1. subst h. right; left. split; [exact V|].
      change (handler users t 3 "user" (e_arg e) (e_data e) false w0)
        with (match handler_of t "user" with
              | None => (w0, mk_out [], true)
              | Some (ds, _) => run_decos users ds (e_arg e) w0 (body users (handler users t 2) "user" (e_arg e) (e_data e) false)
              end).
      rewrite HU. cbn [run_decos].
      pose proof (body_user users (handler users t 2) (e_arg e) (e_data e) false w0) as B.
      destruct (body users (handler users t 2) "user" (e_arg e) (e_data e) false w0) as [[w1 o] keep].
      cbv zeta. rewrite FIN. exact B. }
    destruct (String.eqb h "pass_") eqn:E2.
    { apply String.eqb_eq in E2. subst h.
      change (handler users t 3 "pass_" (e_arg e) (e_data e) false w0)
        with (match handler_of t "pass_" with
              | None => (w0, mk_out [], true)
              | Some (ds, _) => run_decos users ds (e_arg e) w0 (body users (handler users t 2) "pass_" (e_arg e) (e_data e) false)
              end).
      rewrite HP. cbn [run_decos find].
      unfold has_field. cbn [String.eqb Ascii.eqb Bool.eqb].
      destruct (s_user (w_s w0)) as [i|] eqn:U0; cbn [negb].
      - destruct (body_pass users (handler users t 2) (e_arg e) (e_data e) false w0) as [B|[B _]];
          [|congruence].
        destruct (body users (handler users t 2) "pass_" (e_arg e) (e_data e) false w0) as [[w1 o] keep].
        cbv zeta. rewrite FIN. right; right. split; [exact V|]. rewrite <- L0. exact B.
      - left. cbn. destruct (is_transfer (e_verb e)); exact L0. }
    left.
    assert (NL : ~ In h login_names).
    { cbn. intros [H|[H|[]]]; subst h; cbn in E1, E2; discriminate. }
    pose proof (handler_same_login users t 3 h (e_arg e) (e_data e) false w0 NL) as [SU SLg].
    destruct (handler users t 3 h (e_arg e) (e_data e) false w0) as [[w1 o] keep].
    cbv zeta. rewrite FIN. unfold res_world in SU, SLg. cbn [fst] in SU, SLg.
    unfold login_of. rewrite SU, SLg. exact L0.
  Qed.

  (* USER always replaces the login state by what the new login alone justifies *)
  Corollary reuser_drops login :
    snd (user_spec users login) = true ->
    exists i u, user_spec users login = (Some i, true) /\ nth_error users i = Some u /\
                (u_login u = None \/ u_password u = None).
  Proof.
    unfold user_spec. destruct (find_user users 0 login None) as [i|]; [|discriminate].
    destruct (nth_error users i) as [u|] eqn:N; [|discriminate].
    destruct (u_login u) eqn:L; destruct (u_password u) eqn:P; cbn; try discriminate; intros _;
      exists i, u; repeat split; auto.
  Qed.

  (* PASS authorises only a pending (not yet logged-in) user whose password it carries *)
  Lemma pass_spec_authorises st pw i :
    pass_spec users st pw = (Some i, true) ->
    st = (Some i, true) \/
    (st = (Some i, false) /\ exists u, nth_error users i = Some u /\ opt_text_eqb (u_password u) (Some pw) = true).
  Proof.
    unfold pass_spec. destruct st as [[j|] [|]]; intro H; try (inversion H; subst; left; reflexivity); try discriminate.
    destruct (nth_error users j) as [u|] eqn:N; [|discriminate].
    destruct (opt_text_eqb (u_password u) (Some pw)) eqn:M; inversion H; subst.
    right. split; [reflexivity|]. exists u. split; assumption.
  Qed.

  (* ---- histories ---- *)
  Lemma run_app w es1 es2 :
    fst (run users t w (es1 ++ es2)) = fst (run users t (fst (run users t w es1)) es2).
  Proof.
    revert w. induction es1 as [|e es1 IH]; intro w; cbn [run app]; [reflexivity|].
    destruct (step users t w e) as [w1 o] eqn:S. specialize (IH w1).
    destruct (run users t w1 (es1 ++ es2)) as [wa osa]. destruct (run users t w1 es1) as [wb osb].
    cbn [fst] in *. exact IH.
  Qed.

  (* a session is logged in as a password-protected user only if some PASS of its history carried
     exactly that user's password *)
  Theorem logged_implies_password_supplied es w0 :
    login_of w0 = (None, false) ->
    forall i u pw,
      login_of (fst (run users t w0 es)) = (Some i, true) ->
      nth_error users i = Some u -> u_login u <> None -> u_password u = Some pw ->
      exists e, In e es /\ is_verb_of t "pass_" e /\ text_eqb pw (e_arg e) = true.
  Proof.
    intro Init. induction es as [|e es IH] using rev_ind; intros i u pw HL HN HLg HP.
    - cbn in HL. congruence.
    - rewrite run_app in HL. cbn [run] in HL.
      set (w := fst (run users t w0 es)) in *.
      pose proof (step_login_ok w e) as SK.
      destruct (step users t w e) as [w1 o] eqn:S. cbn [fst] in HL, SK.
      destruct SK as [E|[[V E]|[V E]]].
      + rewrite E in HL. destruct (IH i u pw HL HN HLg HP) as [e' [Hin H']].
        exists e'. split; [apply in_or_app; left; exact Hin|exact H'].
      + rewrite E in HL. exfalso. unfold user_spec in HL.
        destruct (find_user users 0 (e_arg e) None) as [j|]; [|discriminate].
        destruct (nth_error users j) as [u'|] eqn:N'; [|discriminate].
        destruct (u_login u') eqn:L'; destruct (u_password u') eqn:P'; inversion HL; subst;
          rewrite N' in HN; inversion HN; subst; congruence.
      + rewrite E in HL. apply pass_spec_authorises in HL as [HL|[HL [u' [N' M]]]].
        * destruct (IH i u pw HL HN HLg HP) as [e' [Hin H']].
          exists e'. split; [apply in_or_app; left; exact Hin|exact H'].
        * exists e. split; [apply in_or_app; right; left; reflexivity|]. split; [exact V|].
          rewrite N' in HN. inversion HN; subst. rewrite HP in M. cbn in M. exact M.
  Qed.
End Steps.
