(* The transfer model instantiated with today's structural facts of /repo/src/aioftp/server.py
   (Gen/Dispatch.v is regenerated on every run). *)
From Coq Require Import ZArith List Bool String.
From Verif Require Import Lib.Sx Lib.Facts Model.Transfer Gen.Dispatch Gen.Workers.
Import ListNotations.
Open Scope string_scope.

(* the condition of abor() comes normalised from Gen/Workers.v (independent of how the `if` is written),
   the listener start-up facts too; everything else from Gen/Dispatch.v *)
Definition genF : cfg :=
  cfg_of_gen dispatcher workers worker_except Workers.abor_norm
             Workers.passive_take_before_await Workers.passive_giveback.

(* ---- closed obligations: the two translators agree on what both extract, and the parts of abor() and
   @worker the model takes for granted are as the model says *)
Definition deco_tag (d : deco) : string :=
  match d with
  | DConn _ true c => "wait:" ++ c
  | DConn _ false _ => "cond"
  | DWorker => "worker"
  | _ => "other"
  end.

Definition list_eqb {A} (eqb : A -> A -> bool) := fix go (a b : list A) : bool :=
  match a, b with
  | [], [] => true
  | x :: r, y :: s => eqb x y && go r s
  | _, _ => false
  end.

Definition worker_agrees (t : string * string * list string * list string * bool * bool) : bool :=
  let '(n, o, ds, items, df, ra) := t in
  match find_worker n Dispatch.workers with
  | Some w => String.eqb (w_owner w) o
              && list_eqb String.eqb (map deco_tag (w_decos w)) ds
              && list_eqb String.eqb (List.concat (w_ctx w)) items
              && Bool.eqb (w_detach_first w) df && Bool.eqb (w_reply_after_ctx w) ra
  | None => false
  end.

Definition translators_agree : bool :=
  Nat.eqb (List.length Workers.transfer_workers) (List.length Dispatch.workers)
  && forallb worker_agrees Workers.transfer_workers
  && match Workers.worker_cancel_codes, assoc_s "asyncio.CancelledError" worker_except with
     | Some a, Some b => list_eqb String.eqb a b
     | None, None => true
     | _, _ => false
     end.

(* abor(): the cancelling branch cancels every element of connection.extra_workers, the other replies 226 *)
Definition abor_shape_ok : bool :=
  Workers.abor_cancels_all && list_eqb String.eqb Workers.abor_reply ["226"].

Lemma gen_workers_translator_ok : Workers.translator_ok = true.
Proof. vm_compute. reflexivity. Qed.
Lemma gen_translators_agree : translators_agree = true.
Proof. vm_compute. reflexivity. Qed.
Lemma gen_abor_shape_ok : abor_shape_ok = true.
Proof. vm_compute. reflexivity. Qed.

(* traces used by the witnesses and examples *)
Definition pre : list event := [Greet; Login; Pasv; LStep; LStep].
Definition pre_data : list event := pre ++ [DataArrives].
Definition at_trace (evs : list event) : state := fst (run genF (init true) evs).
