(* The transfer model instantiated with today's structural facts of /repo/src/aioftp/server.py
   (Gen/Dispatch.v is regenerated on every run). *)
From Coq Require Import ZArith List Bool String.
From Verif Require Import Lib.Sx Lib.Facts Model.Transfer Gen.Dispatch.
Import ListNotations.

Definition genF : cfg := cfg_of_gen dispatcher workers worker_except abor_condition.

(* traces used by the witnesses and examples *)
Definition pre : list event := [Greet; Login; Pasv; LStep; LStep].
Definition pre_data : list event := pre ++ [DataArrives].
Definition at_trace (evs : list event) : state := fst (run genF (init true) evs).
