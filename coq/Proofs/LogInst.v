(* C20: the closed obligations on today's source (Gen/Logging.v, regenerated on every run) and the
   theorems of Proofs/LogCensor.v instantiated with the regenerated facts. *)
From Coq Require Import ZArith List Bool Lia.
From Verif Require Import Lib.Sx Lib.PyStr Lib.PyStr4 Lib.LogFacts Proofs.PyStrFacts
     Model.Framing Proofs.Framing Model.LogCensor Proofs.LogCensor Proofs.LogCheck Gen.Logging.
Import ListNotations.
Open Scope Z_scope.

(* every logging call site of server.py / client.py / common.py / pathio.py takes its arguments
   from whitelisted sources only *)
Lemma log_sites_ok : check_log_sites sites = true.
Proof. vm_compute. reflexivity. Qed.

(* the sites of the modelled functions are exactly the ones the model reproduces *)
Lemma modelled_sites_ok : modelled_sites_match sites = true.
Proof. vm_compute. reflexivity. Qed.

Lemma pass_facts_ok :
  check_pass_facts translator_ok_logging server_censor_commands server_censor_guard_count
    parse_command_called_with_default parse_command_returns_lowered_verb pass_replies_literal
    pass_rest_sinks pass_decorator_rest_sinks dispatcher_rest_sinks
    dispatcher_lookup_by_parsed_verb unknown_verb_reply_names
    login_pass_prefix login_pass_censor_after login_forwards_censor_after
    client_password_uses secret_raise_sites = true.
Proof. vm_compute. reflexivity. Qed.

(* no logging call is handed an object whose __repr__/__str__ prints the password it holds (class User) *)
Lemma secret_objects_ok : secret_object_log_args = [].
Proof. vm_compute. reflexivity. Qed.

(* commands_mapping is a literal dict assigned once, and EVERY verb bound to the PASS handler is in the censor tuple *)
Lemma pass_handler_verbs_censored :
  commands_mapping_literal
  && forallb (fun v => text_in v server_censor_commands) pass_handler_verbs
  && text_in VERB_PASS pass_handler_verbs = true.
Proof. vm_compute. reflexivity. Qed.

(* a line reaches the PASS handler iff its dispatch key lower(verb) is bound to it (dispatcher_lookup_by_parsed_verb,
   parse_command_returns_lowered_verb in pass_facts_ok): every such line, whatever its shape, is logged as verb + stars *)
Theorem inst_line_reaching_pass_handler_is_censored l1 l2 :
  In (lower (fst (split_command l1))) pass_handler_verbs ->
  fst (split_command l1) = fst (split_command l2) ->
  length (snd (split_command l1)) = length (snd (split_command l2)) ->
  server_parse_command_log server_censor_commands l1 = server_parse_command_log server_censor_commands l2.
Proof.
  intros Hin Hv Hl.
  pose proof pass_handler_verbs_censored as H.
  apply andb_true_iff in H. destruct H as [H _]. apply andb_true_iff in H. destruct H as [_ H].
  rewrite forallb_forall in H.
  exact (same_key_same_length_same_log _ l1 l2 (H _ Hin) Hv Hl).
Qed.

Lemma censor_has_pass : In VERB_PASS server_censor_commands.
Proof. apply text_in_spec. vm_compute. reflexivity. Qed.

Lemma login_prefix_nonempty : login_pass_prefix <> [].
Proof. vm_compute. congruence. Qed.

Lemma login_censor_at_prefix : login_pass_censor_after = Z.of_nat (length login_pass_prefix).
Proof. vm_compute. reflexivity. Qed.

(* the prefix is a PASS spelling followed by one space *)
Lemma login_prefix_is_pass :
  exists V, login_pass_prefix = V ++ [SP] /\ lower V = VERB_PASS.
Proof. exists (removelast login_pass_prefix). split; vm_compute; reflexivity. Qed.

(* Client.login, translated as a program (first command, loop mask, censor_after as the loop-carried
   variable with its per-iteration reset, one branch per reply code): every branch that appends
   the password censors from the end of its own literal prefix, in that branch *)
Lemma login_program_ok : login_program_translated && login_prog_ok login_program = true.
Proof. vm_compute. reflexivity. Qed.

(* ... and the program's password branch is the one the single-command facts above describe *)
Lemma login_program_pass_branch :
  map (fun b => (lb_prefix b, lb_censor b))
      (filter (fun b => match lb_arg b with ArgPassword => true | _ => false end) (lp_branches login_program))
  = [(login_pass_prefix, Some login_pass_censor_after)].
Proof. vm_compute. reflexivity. Qed.

(* ---- instantiated theorems *)
Theorem inst_client_login_hides_password user p1 p2 account lines :
  length p1 = length p2 ->
  client_login_run login_program user p1 account lines
  = client_login_run login_program user p2 account lines.
Proof.
  pose proof login_program_ok as H. apply andb_true_iff in H. destruct H as [_ H].
  exact (client_login_run_hides_password login_program user p1 p2 account lines H).
Qed.

Theorem inst_server_log_hides_password V p1 p2 w :
  lower V = VERB_PASS -> allspace w ->
  length (rstrip p1) = length (rstrip p2) ->
  server_parse_command_log server_censor_commands (V ++ SP :: p1 ++ w)
  = server_parse_command_log server_censor_commands (V ++ SP :: p2 ++ w).
Proof. intros HV Hw Hl. exact (server_log_hides_password _ V p1 p2 w HV censor_has_pass Hw Hl). Qed.

Theorem inst_server_stream_hides_password V p1 p2 k :
  lower V = VERB_PASS -> lf_free p1 -> lf_free p2 ->
  length (rstrip p1) = length (rstrip p2) ->
  server_stream_log server_censor_commands ((V ++ SP :: p1) ++ eol ++ k)
  = server_stream_log server_censor_commands ((V ++ SP :: p2) ++ eol ++ k).
Proof. intros HV H1 H2 Hl. exact (server_stream_hides_password _ V p1 p2 k HV censor_has_pass H1 H2 Hl). Qed.

Theorem inst_server_session_hides_password T users host port pre post V p1 p2 w :
  lower V = VERB_PASS -> allspace w ->
  length (rstrip p1) = length (rstrip p2) ->
  auth_result (state_after server_censor_commands T users init_state pre) (rstrip p1)
  = auth_result (state_after server_censor_commands T users init_state pre) (rstrip p2) ->
  server_session server_censor_commands T users host port (pre ++ (V ++ SP :: p1 ++ w) :: post)
  = server_session server_censor_commands T users host port (pre ++ (V ++ SP :: p2 ++ w) :: post).
Proof.
  intros HV Hw Hl Ha.
  exact (server_session_hides_password _ T users host port pre post V p1 p2 w HV censor_has_pass Hw Hl Ha).
Qed.

Theorem inst_censored_args_are_stars V p w :
  lower V = VERB_PASS -> allspace w ->
  let r := server_parse_command_log server_censor_commands (V ++ SP :: p ++ w) in
  lr_msg r = fmt_server_cmd /\
  lr_args r = [V; stars (length (rstrip p))] /\
  lr_message r = V ++ SP :: stars (length (rstrip p)).
Proof. intros HV Hw. exact (censored_args_are_stars _ V p w HV censor_has_pass Hw). Qed.

Theorem inst_client_log_hides_password p1 p2 :
  length p1 = length p2 ->
  client_login_pass_log login_pass_prefix login_pass_censor_after p1
  = client_login_pass_log login_pass_prefix login_pass_censor_after p2.
Proof.
  exact (client_log_hides_password _ _ p1 p2 login_prefix_nonempty login_censor_at_prefix).
Qed.

Theorem inst_client_censored_args_are_stars p :
  let r := client_login_pass_log login_pass_prefix login_pass_censor_after p in
  lr_msg r = fmt_client_cmd /\ lr_args r = [login_pass_prefix; stars (length p)] /\
  lr_message r = login_pass_prefix ++ stars (length p).
Proof.
  exact (client_censored_args_are_stars _ _ p login_prefix_nonempty login_censor_at_prefix).
Qed.

(* every inventoried site, were it executed in parse_command's / command()'s scope while a PASS
   line is handled, emits a record that does not depend on the password *)
Theorem inst_every_site_hides_server fmt s V p1 p2 w :
  In s sites ->
  lower V = VERB_PASS -> allspace w -> length (rstrip p1) = length (rstrip p2) ->
  fire (den_server server_censor_commands (V ++ SP :: p1 ++ w)) fmt s
  = fire (den_server server_censor_commands (V ++ SP :: p2 ++ w)) fmt s.
Proof.
  intros Hin HV Hw Hl. pose proof log_sites_ok as H. unfold check_log_sites in H.
  rewrite forallb_forall in H.
  exact (checked_site_hides_server _ fmt s V p1 p2 w (H s Hin) HV censor_has_pass Hw Hl).
Qed.

Theorem inst_every_site_hides_client fmt s p1 p2 :
  In s sites -> length p1 = length p2 ->
  fire (den_client (login_pass_prefix ++ p1) login_pass_censor_after) fmt s
  = fire (den_client (login_pass_prefix ++ p2) login_pass_censor_after) fmt s.
Proof.
  intros Hin Hl. pose proof log_sites_ok as H. unfold check_log_sites in H.
  rewrite forallb_forall in H.
  exact (checked_site_hides_client fmt s _ _ p1 p2 (H s Hin) login_prefix_nonempty login_censor_at_prefix Hl).
Qed.
