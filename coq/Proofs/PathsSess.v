(* Proofs about Model/PathsSess.v: histories on ONE connection with several logins (C02) *)
From Coq Require Import ZArith List Bool Lia.
From Verif Require Import Lib.Sx Lib.PyStr Lib.PosixPath Model.Paths Model.PathsSess
  Proofs.PyStrFacts Proofs.PosixPathFacts Proofs.Paths.
Import ListNotations.
Open Scope Z_scope.

Definition homes_ok (users : list suser) : Prop := Forall (fun u => abs_wf (u_home u)) users.

Definition real_lab (users : list suser) (oc : nat * list text) : ppath :=
  realise users (mklab (fst oc) (snd oc) false).

(* the tie between the handler state and the bookkeeping *)
Definition rel (users : list suser) (st : sst) (ps : pst) : Prop :=
  s_base st = base_of users (p_cur ps)
  /\ abs_wf (s_cwd st)
  /\ parts (s_cwd st) = p_stack ps
  /\ s_rnfr st = option_map (real_lab users) (p_rnfr ps).

Lemma homes_nth users i u : homes_ok users -> nth_error users i = Some u -> abs_wf (u_home u).
Proof.
  intros H E. unfold homes_ok in H. rewrite Forall_forall in H. apply H. eapply nth_error_In. exact E.
Qed.

Lemma base_of_nth users i u : nth_error users i = Some u -> base_of users i = u_base u.
Proof. intro E. unfold base_of. rewrite E. reflexivity. Qed.

Lemma normalize_abs_wf cwdp s : Forall seg_ok cwdp -> abs_wf (mkp 1 (normalize cwdp s)).
Proof. intro H. split; [discriminate|]. cbn [parts]. apply normalize_ok. exact H. Qed.

Lemma spec_cdup_ok stack : Forall seg_ok stack ->
  Forall seg_ok (spec_cdup stack) /\ no_dotdot (spec_cdup stack) = true.
Proof.
  intro H. unfold spec_cdup. apply stack_ok_rev. apply spec_fold_ok; [|constructor].
  apply segs_nosep. apply Forall_removelast. exact H.
Qed.

Lemma cdup_spec base cwd : abs_wf cwd ->
  get_paths_p base cwd (parent cwd)
  = Some (mkp (anchor base) (parts base ++ spec_cdup (parts cwd)), mkp 1 (spec_cdup (parts cwd))).
Proof.
  intro Hc. pose proof (parent_parts_ok cwd (proj2 Hc)) as Hp.
  pose proof (get_paths_p_spec base cwd (parent cwd) Hc Hp) as H. cbv zeta in H. rewrite H.
  unfold spec_parts, spec_cdup.
  assert (Ea : is_absolute (parent cwd) = true).
  { unfold is_absolute. rewrite parent_anchor. destruct Hc as [Ha _].
    destruct (anchor cwd =? 0) eqn:E; [apply Z.eqb_eq in E; contradiction|reflexivity]. }
  rewrite Ea, parent_parts. reflexivity.
Qed.

Ltac rel_split := unfold rel; refine (conj _ (conj _ (conj _ _))).

Lemma step_rel users st ps e : homes_ok users -> rel users st ps ->
  rel users (fst (sess_step users st e)) (fst (pspec_step users ps e))
  /\ snd (sess_step users st e) = map (realise users) (snd (pspec_step users ps e)).
Proof.
  intros Hh [Hb [Hc [Hp Hr]]].
  assert (Hs : Forall seg_ok (p_stack ps)) by (rewrite <- Hp; exact (proj2 Hc)).
  assert (Ereal : forall n, mkp (anchor (s_base st)) (parts (s_base st) ++ n) = realise users (mklab (p_cur ps) n false)).
  { intro n. unfold realise. cbn [l_owner l_names l_parent]. rewrite <- Hb. reflexivity. }
  destruct e as [i|c|s|s|s ok|s ok]; cbn [sess_step pspec_step].
  - (* login *)
    destruct (nth_error users i) as [u|] eqn:E; cbn [fst snd map].
    + split; [|reflexivity]. rel_split; cbn [s_base s_cwd s_rnfr p_cur p_stack p_rnfr option_map].
      * symmetry. apply base_of_nth. exact E.
      * apply (homes_nth users i u Hh E).
      * reflexivity.
      * reflexivity.
    + split; [|reflexivity]. rel_split; cbn [s_base s_cwd s_rnfr p_cur p_stack p_rnfr option_map]; try assumption; reflexivity.
  - (* cwd / cdup *)
    destruct c as [s ok|ok].
    + cbn [nav_step]. rewrite (get_paths_spec (s_base st) (s_cwd st) s Hc), Hp.
      cbn [fst snd map real_of]. split.
      * destruct ok; rel_split; cbn [s_base s_cwd s_rnfr p_cur p_stack p_rnfr parts]; try assumption;
          try reflexivity; apply normalize_abs_wf; exact Hs.
      * rewrite Ereal. reflexivity.
    + cbn [nav_step]. rewrite (cdup_spec (s_base st) (s_cwd st) Hc), Hp.
      cbn [fst snd map real_of]. split.
      * destruct ok; rel_split; cbn [s_base s_cwd s_rnfr p_cur p_stack p_rnfr parts]; try assumption;
          try reflexivity; split; [discriminate|apply (spec_cdup_ok _ Hs)].
      * rewrite Ereal. reflexivity.
  - (* path *)
    rewrite (get_paths_spec (s_base st) (s_cwd st) s Hc), Hp. cbn [fst snd map real_of].
    split; [rel_split; assumption|]. rewrite Ereal. reflexivity.
  - (* stor *)
    rewrite (get_paths_spec (s_base st) (s_cwd st) s Hc), Hp. cbn [fst snd map].
    split; [rel_split; assumption|].
    rewrite Ereal. unfold realise. cbn [l_owner l_names l_parent]. reflexivity.
  - (* rnfr *)
    rewrite (get_paths_spec (s_base st) (s_cwd st) s Hc), Hp. cbn [fst snd map].
    split; [|rewrite Ereal; reflexivity].
    destruct ok; [|rel_split; assumption].
    rel_split; cbn [s_base s_cwd s_rnfr p_cur p_stack p_rnfr option_map]; try assumption.
    unfold real_lab. cbn [fst snd]. rewrite Ereal. reflexivity.
  - (* rnto *)
    destruct (p_rnfr ps) as [[o c]|] eqn:Ern; rewrite Hr; cbn [option_map].
    + rewrite (get_paths_spec (s_base st) (s_cwd st) s Hc), Hp.
      destruct ok; cbn [fst snd map].
      * split; [rel_split; cbn [s_base s_cwd s_rnfr p_cur p_stack p_rnfr option_map]; try assumption; reflexivity|].
        rewrite Ereal. reflexivity.
      * split; [rel_split; try assumption; rewrite Hr, Ern; reflexivity|].
        rewrite Ereal. reflexivity.
    + cbn [fst snd map]. split; [rel_split; try assumption; rewrite Hr, Ern; reflexivity|reflexivity].
Qed.

Lemma run_rel users h : homes_ok users -> forall st ps, rel users st ps ->
  sess_run users st h
  = map (fun co => (base_of users (fst co), map (realise users) (snd co))) (pspec_run users ps h).
Proof.
  intro Hh. induction h as [|e h IH]; intros st ps R; [reflexivity|].
  cbn [sess_run pspec_run].
  destruct (step_rel users st ps e Hh R) as [R' Eo].
  destruct (sess_step users st e) as [st' o]. destruct (pspec_step users ps e) as [ps' lo].
  cbn [fst snd] in *. cbn [map fst snd]. rewrite (IH st' ps' R'), Eo.
  destruct R as [Hb _]. rewrite Hb. reflexivity.
Qed.

Lemma start_rel users i u : homes_ok users -> nth_error users i = Some u ->
  rel users (sess_start u) (spec_start i u).
Proof.
  intros Hh E. unfold sess_start, spec_start. rel_split; cbn [s_base s_cwd s_rnfr p_cur p_stack p_rnfr option_map].
  - symmetry. apply base_of_nth. exact E.
  - apply (homes_nth users i u Hh E).
  - reflexivity.
  - reflexivity.
Qed.

(* every path handed to the backend along any history is  base_path(owner) ++ names  as the
   independent bookkeeping says, and the base recorded with a command is that of the user
   logged in at that moment *)
Theorem session_spec users i u h : homes_ok users -> nth_error users i = Some u ->
  sess_run users (sess_start u) h
  = map (fun co => (base_of users (fst co), map (realise users) (snd co)))
        (pspec_run users (spec_start i u) h).
Proof. intros Hh E. apply run_rel; [exact Hh|]. apply start_rel; assumption. Qed.

(* ---- confinement in the CURRENT user's base ---- *)
Definition lab_ok (l : lab) : Prop := Forall seg_ok (l_names l) /\ no_dotdot (l_names l) = true.

(* a pending rename source was resolved under the current login: user() drops it *)
Definition pinv (ps : pst) : Prop :=
  Forall seg_ok (p_stack ps)
  /\ match p_rnfr ps with
     | Some (o, c) => o = p_cur ps /\ Forall seg_ok c /\ no_dotdot c = true
     | None => True
     end.

Definition lab_good (cur : nat) (l : lab) : Prop := l_owner l = cur /\ lab_ok l.

Lemma pstep_inv users ps e : homes_ok users -> pinv ps ->
  pinv (fst (pspec_step users ps e)) /\ Forall (lab_good (p_cur ps)) (snd (pspec_step users ps e)).
Proof.
  intros Hh [Hs Hr].
  pose proof (fun s => normalize_ok (p_stack ps) s Hs) as Hn.
  pose proof (spec_cdup_ok (p_stack ps) Hs) as Hcd.
  assert (G : forall n, Forall seg_ok n /\ no_dotdot n = true -> lab_good (p_cur ps) (mklab (p_cur ps) n false))
    by (intros n Hn'; split; [reflexivity|exact Hn']).
  assert (G' : forall n, Forall seg_ok n /\ no_dotdot n = true -> lab_good (p_cur ps) (mklab (p_cur ps) n true))
    by (intros n Hn'; split; [reflexivity|exact Hn']).
  destruct e as [i|c|s|s|s ok|s ok]; cbn [pspec_step].
  - destruct (nth_error users i) as [u|] eqn:E; cbn [fst snd]; (split; [|constructor]).
    + split; cbn [p_stack p_rnfr]; [apply (proj2 (homes_nth users i u Hh E))|exact Logic.I].
    + split; cbn [p_stack p_rnfr]; [assumption|exact Logic.I].
  - destruct c as [s ok|ok]; cbn [fst snd].
    + split; [|apply Forall_cons; [apply G; apply Hn|apply Forall_nil]].
      destruct ok; split; cbn [p_stack p_rnfr p_cur]; try assumption. apply Hn.
    + split; [|apply Forall_cons; [apply G; apply Hcd|apply Forall_nil]].
      destruct ok; split; cbn [p_stack p_rnfr p_cur]; try assumption. apply Hcd.
  - cbn [fst snd]. split; [split; assumption|apply Forall_cons; [apply G; apply Hn|apply Forall_nil]].
  - cbn [fst snd]. split; [split; assumption|apply Forall_cons; [apply G'; apply Hn|apply Forall_cons; [apply G; apply Hn|apply Forall_nil]]].
  - cbn [fst snd]. split; [|apply Forall_cons; [apply G; apply Hn|apply Forall_nil]].
    destruct ok; [|split; assumption]. split; cbn [p_stack p_rnfr p_cur]; [assumption|].
    split; [reflexivity|apply Hn].
  - destruct (p_rnfr ps) as [[o c]|] eqn:Ern.
    + destruct Hr as [Ho Hc]. destruct ok; cbn [fst snd].
      * split; [split; cbn [p_stack p_rnfr]; [assumption|exact Logic.I]|].
        apply Forall_cons; [apply G; apply Hn|apply Forall_cons; [|apply Forall_nil]]. split; [exact Ho|exact Hc].
      * split; [split; [assumption|rewrite Ern; split; assumption]|apply Forall_cons; [apply G; apply Hn|apply Forall_nil]].
    + cbn [fst snd]. split; [split; [assumption|rewrite Ern; exact Logic.I]|constructor].
Qed.

Lemma removelast_app_ne {A} (a b : list A) : b <> [] -> removelast (a ++ b) = a ++ removelast b.
Proof. intro H. apply removelast_app. exact H. Qed.

Lemma no_dotdot_removelast l : no_dotdot l = true -> no_dotdot (removelast l) = true.
Proof.
  unfold no_dotdot. intro H. apply forallb_forall. intros x Hx. rewrite forallb_forall in H.
  apply H. apply in_removelast. exact Hx.
Qed.

(* a labelled output lies inside its owner's base unless it is the parent of the base itself *)
Lemma realise_confined users l : lab_ok l -> (l_parent l = false \/ l_names l <> []) ->
  confined (base_of users (l_owner l)) (realise users l) = true.
Proof.
  intros [_ Hd] Hx. unfold realise, confined.
  set (b := base_of users (l_owner l)).
  destruct (l_parent l) eqn:Ep.
  - destruct Hx as [Hx|Hx]; [discriminate|].
    unfold parent. cbn [parts anchor].
    destruct (parts b ++ l_names l) eqn:Eapp.
    { apply app_eq_nil in Eapp. destruct Eapp as [_ E]. contradiction. }
    rewrite <- Eapp. cbn [anchor parts].
    rewrite (removelast_app_ne _ _ Hx), Z.eqb_refl, is_prefix_app, skipn_length_app.
    rewrite (no_dotdot_removelast _ Hd). reflexivity.
  - cbn [anchor parts]. rewrite Z.eqb_refl, is_prefix_app, skipn_length_app, Hd. reflexivity.
Qed.

Lemma realise_root_parent users l : l_parent l = true -> l_names l = [] ->
  realise users l = parent (base_of users (l_owner l)).
Proof.
  intros Hp Hn. unfold realise. rewrite Hp, Hn, app_nil_r.
  destruct (base_of users (l_owner l)) as [a ps]. reflexivity.
Qed.

Lemma prun_good users h : homes_ok users -> forall ps, pinv ps ->
  Forall (fun co => Forall (lab_good (fst co)) (snd co)) (pspec_run users ps h).
Proof.
  intro Hh. induction h as [|e h IH]; intros ps Hi; cbn [pspec_run]; [constructor|].
  destruct (pstep_inv users ps e Hh Hi) as [Hi' Hl].
  destruct (pspec_step users ps e) as [ps' lo]. cbn [fst snd] in *.
  constructor; [exact Hl|apply IH; exact Hi'].
Qed.

Lemma start_pinv users i u : homes_ok users -> nth_error users i = Some u -> pinv (spec_start i u).
Proof.
  intros Hh E. split; cbn [spec_start p_stack p_rnfr]; [|exact Logic.I].
  apply (proj2 (homes_nth users i u Hh E)).
Qed.

(* no path resolved under a previous login is ever handed to the backend after a re-login:
   every labelled output of every command is owned by the user logged in when the command ran *)
Theorem session_owner_current users i u h : homes_ok users -> nth_error users i = Some u ->
  Forall (fun co => Forall (fun l => l_owner l = fst co) (snd co)) (pspec_run users (spec_start i u) h).
Proof.
  intros Hh E. pose proof (prun_good users h Hh (spec_start i u) (start_pinv users i u Hh E)) as H.
  eapply Forall_impl; [|exact H]. intros co Hc. eapply Forall_impl; [|exact Hc]. intros l [Ho _]. exact Ho.
Qed.

(* on the handler model itself: every path handed to the backend by a command lies inside the base
   directory of the user logged in when the command ran, or is the parent of that base directory
   (the reachability probe of STOR/APPE on the virtual root, finding F19) *)
Theorem session_confined users i u h : homes_ok users -> nth_error users i = Some u ->
  Forall (fun bo => Forall (fun p => confined (fst bo) p = true \/ p = parent (fst bo)) (snd bo))
         (sess_run users (sess_start u) h).
Proof.
  intros Hh E. rewrite (session_spec users i u h Hh E).
  pose proof (prun_good users h Hh (spec_start i u) (start_pinv users i u Hh E)) as Hg.
  induction (pspec_run users (spec_start i u) h) as [|co r IH]; cbn [map]; [constructor|].
  inversion Hg as [|? ? Hg1 Hg2]; subst. constructor; [|apply IH; exact Hg2].
  cbn [fst snd]. rewrite Forall_forall in *. intros p Hin.
  apply in_map_iff in Hin. destruct Hin as [l [<- Hl]].
  destruct (Hg1 l Hl) as [Ho Hok]. rewrite <- Ho.
  destruct (l_parent l) eqn:Ep.
  - destruct (l_names l) eqn:En.
    + right. apply realise_root_parent; assumption.
    + left. apply realise_confined; [exact Hok|right; rewrite En; discriminate].
  - left. apply realise_confined; [exact Hok|left; exact Ep].
Qed.

(* histories without STOR/APPE: plain confinement *)
Definition plain_ev (e : sev) : bool :=
  match e with EStor _ => false | _ => true end.

Lemma plain_noparent users ps e : plain_ev e = true ->
  Forall (fun l => l_parent l = false) (snd (pspec_step users ps e)).
Proof.
  intro Hp. destruct e as [i|c|s|s|s ok|s ok]; cbn [pspec_step]; try discriminate.
  - destruct (nth_error users i); constructor.
  - destruct c; repeat constructor.
  - repeat constructor.
  - destruct ok; repeat constructor.
  - destruct (p_rnfr ps) as [[o c]|]; [destruct ok|]; repeat constructor.
Qed.

Lemma prun_plain users h : forallb plain_ev h = true -> forall ps,
  Forall (fun co => Forall (fun l => l_parent l = false) (snd co)) (pspec_run users ps h).
Proof.
  induction h as [|e h IH]; intros Hp ps; cbn [pspec_run]; [constructor|].
  cbn [forallb] in Hp. apply andb_true_iff in Hp. destruct Hp as [He Hh].
  pose proof (plain_noparent users ps e He) as Ho.
  destruct (pspec_step users ps e) as [ps' lo]. cbn [fst snd] in *.
  constructor; [exact Ho|apply IH; exact Hh].
Qed.

Theorem session_confined_plain users i u h : homes_ok users -> nth_error users i = Some u ->
  forallb plain_ev h = true ->
  Forall (fun bo => Forall (fun p => confined (fst bo) p = true) (snd bo)) (sess_run users (sess_start u) h).
Proof.
  intros Hh E Hp. rewrite (session_spec users i u h Hh E).
  pose proof (prun_good users h Hh (spec_start i u) (start_pinv users i u Hh E)) as Hg.
  pose proof (prun_plain users h Hp (spec_start i u)) as Ho.
  induction (pspec_run users (spec_start i u) h) as [|co r IH]; cbn [map]; [constructor|].
  inversion Hg as [|? ? Hg1 Hg2]; subst. inversion Ho as [|? ? Ho1 Ho2]; subst.
  constructor; [|apply IH; assumption].
  cbn [fst snd]. rewrite Forall_forall in *.
  intros p Hin. apply in_map_iff in Hin. destruct Hin as [l [<- Hl]].
  destruct (Hg1 l Hl) as [Hown Hok]. rewrite <- Hown. apply realise_confined; [exact Hok|left; apply Ho1; exact Hl].
Qed.

(* what get_paths returns for a path command depends on the current user's base, the current
   working directory and the argument -- not on anything an earlier command (or login) did *)
Theorem path_output_history_independent users st1 st2 s :
  s_base st1 = s_base st2 -> s_cwd st1 = s_cwd st2 ->
  snd (sess_step users st1 (EPath s)) = snd (sess_step users st2 (EPath s)).
Proof. intros Hb Hc. cbn [sess_step snd]. rewrite Hb, Hc. reflexivity. Qed.

(* ---- the remaining exception is real ---- *)
Definition t_alice : suser := mkuser (parse [47;97;108;105;99;101]) (parse [47]).   (* base /alice *)
Definition t_bob : suser := mkuser (parse [47;98;111;98]) (parse [47]).             (* base /bob *)

(* STOR / : is_dir(base_path.parent) *)
Theorem stor_root_parent_refuted :
  exists users i u h, homes_ok users /\ nth_error users i = Some u /\
    Exists (fun bo => Exists (fun p => confined (fst bo) p = false) (snd bo)) (sess_run users (sess_start u) h).
Proof.
  exists [t_alice], 0%nat, t_alice, [EStor [47]].
  split; [|split; [reflexivity|]].
  - repeat constructor; cbn; try discriminate.
  - apply Exists_cons_hd. apply Exists_cons_hd. vm_compute. reflexivity.
Qed.

(* the former witness of F18 (RNFR as alice; re-login as bob; RNTO): the RNTO is refused before any path is looked at *)
Example rnfr_not_carried :
  sess_run [t_alice; t_bob] (sess_start t_alice) [ERnfr [47;102] true; ELogin 1; ERnto [47;103] true]
  = [ (u_base t_alice, [mkp 1 [[97;108;105;99;101];[102]]]); (u_base t_alice, []); (u_base t_bob, []) ].
Proof. vm_compute. reflexivity. Qed.
