(* Proofs about Model/PathsWin.v: C02 with a Windows-flavoured base_path.
   The property is refuted (finding F11) and proved on the inputs whose resolved components
   contain neither backslash nor colon. *)
From Coq Require Import ZArith List Bool Lia.
From Verif Require Import Lib.Sx Lib.PyStr Lib.PosixPath Lib.WinPath Model.Paths Model.PathsWin
  Proofs.PyStrFacts Proofs.PosixPathFacts Proofs.Paths.
Import ListNotations.
Open Scope Z_scope.

(* ---- witnesses ---- *)
Definition w_base : text := [67; 58; 92; 102; 116; 112].                               (* C:\ftp *)
Definition w_dotdot : text := [46; 46; 92; 46; 46; 92; 119; 105; 110; 100; 111; 119; 115]. (* ..\..\windows *)
Definition w_drive_rel : text := [67; 58; 102; 111; 111].                              (* C:foo *)
Definition w_drive_up : text := [67; 58; 46; 46].                                      (* C:.. *)
Definition w_root : ppath := mkp 1 [].

Lemma w_root_abs_wf : abs_wf w_root.
Proof. split; [discriminate|constructor]. Qed.

(* '..\..\windows' is one POSIX component, survives the '..' fold, and is re-split by
   PureWindowsPath: the real path is C:\ftp\..\..\windows and passes is_relative_to *)
Lemma confined_win_refuted :
  exists base_raw b cwd s real virt,
    abs_wf cwd /\ wparse base_raw = Some b /\
    get_paths_win base_raw cwd s = WOk real virt /\ wconfined b real = false.
Proof.
  exists w_base, (mkw [67; 58] true [[102; 116; 112]]), w_root, w_dotdot.
  eexists. eexists. split; [exact w_root_abs_wf|]. split; [reflexivity|].
  split; [vm_compute; reflexivity|vm_compute; reflexivity].
Qed.

(* 'C:..' (no backslash at all): drive-relative, joins below base and climbs out *)
Lemma drive_escape_win_refuted :
  exists base_raw b cwd s real virt,
    abs_wf cwd /\ wparse base_raw = Some b /\
    get_paths_win base_raw cwd s = WOk real virt /\ wconfined b real = false.
Proof.
  exists w_base, (mkw [67; 58] true [[102; 116; 112]]), w_root, w_drive_up.
  eexists. eexists. split; [exact w_root_abs_wf|]. split; [reflexivity|].
  split; [vm_compute; reflexivity|vm_compute; reflexivity].
Qed.

(* 'C:foo': confined, but the location addressed (C:\ftp\foo) is not the virtual path (/C:foo)
   that is reported, stored and used for the permission lookup *)
Lemma virt_is_location_win_refuted :
  exists base_raw b cwd s real virt,
    abs_wf cwd /\ wparse base_raw = Some b /\
    get_paths_win base_raw cwd s = WOk real virt /\ wlocated b real virt = false.
Proof.
  exists w_base, (mkw [67; 58] true [[102; 116; 112]]), w_root, w_drive_rel.
  eexists. eexists. split; [exact w_root_abs_wf|]. split; [reflexivity|].
  split; [vm_compute; reflexivity|vm_compute; reflexivity].
Qed.

(* ---- the carved theorem ---- *)
Lemma plain_nosep x : plain x = true -> nosep BSL x.
Proof.
  unfold plain, nosep. intro H. apply forallb_forall. intros c Hc.
  rewrite forallb_forall in H. specialize (H c Hc). apply andb_true_iff in H as [H _]. exact H.
Qed.

Lemma repl_id x : nosep SLASH x -> repl_alt x = x.
Proof.
  unfold nosep, repl_alt. induction x as [|c x IH]; cbn; intro H; [reflexivity|].
  apply andb_true_iff in H as [Hc Hx]. apply negb_true_iff in Hc. rewrite Hc, (IH Hx). reflexivity.
Qed.

Lemma repl_join n : Forall (nosep SLASH) n -> repl_alt (join [SLASH] n) = join [BSL] n.
Proof.
  induction 1 as [|h t Hh Ht IH]; [reflexivity|]. destruct t as [|h2 t].
  - rewrite !join_one. apply repl_id; exact Hh.
  - rewrite !join_cons. unfold repl_alt at 1. rewrite map_app. cbn [map].
    fold (repl_alt h). fold (repl_alt (join [SLASH] (h2 :: t))).
    rewrite (repl_id h Hh), IH. reflexivity.
Qed.

Lemma wsplitroot_rel c x :
  is_sep c = false ->
  match x with c1 :: _ => (c1 =? COLON) = false | [] => True end ->
  wsplitroot (c :: x) = Some ([], false, c :: x).
Proof.
  intros Hc Hx. cbn [wsplitroot]. rewrite Hc. destruct x as [|c1 x]; [reflexivity|]. rewrite Hx. reflexivity.
Qed.

Lemma plain_head c r : plain (c :: r) = true -> (c =? BSL) = false /\ (c =? COLON) = false /\ plain r = true.
Proof.
  unfold plain. cbn [forallb]. intro H. apply andb_true_iff in H as [H Hr].
  apply andb_true_iff in H as [H1 H2]. apply negb_true_iff in H1, H2. auto.
Qed.

Lemma wsplitroot_join h t : seg_ok h -> plain h = true ->
  wsplitroot (join [BSL] (h :: t)) = Some ([], false, join [BSL] (h :: t)).
Proof.
  intros Hh Hph. destruct h as [|c r]; [destruct Hh as [Hne _]; congruence|].
  destruct Hh as [_ [_ Hs]]. unfold nosep in Hs. cbn [forallb] in Hs.
  apply andb_true_iff in Hs as [Hc _]. apply negb_true_iff in Hc.
  destruct (plain_head c r Hph) as [Hb [_ Hpr]].
  assert (Hsep : is_sep c = false) by (unfold is_sep; rewrite Hb, Hc; reflexivity).
  destruct r as [|c1 r'].
  - destruct t as [|h2 t'].
    + cbn. rewrite Hsep. reflexivity.
    + rewrite join_cons. cbn [app]. apply wsplitroot_rel; [exact Hsep|reflexivity].
  - assert (Hc1 : (c1 =? COLON) = false) by (destruct (plain_head c1 r' Hpr) as [_ [H _]]; exact H).
    destruct t as [|h2 t'].
    + rewrite join_one. apply wsplitroot_rel; [exact Hsep|exact Hc1].
    + rewrite join_cons. cbn [app]. apply wsplitroot_rel; [exact Hsep|exact Hc1].
Qed.

Lemma join_nonempty c h t : h <> [] -> join [c] (h :: t) <> [].
Proof. intro H. destruct h; [congruence|]. cbn. discriminate. Qed.

Lemma wparse_plain n : Forall seg_ok n -> forallb plain n = true ->
  wparse (to_str (mkp 0 n)) = Some (mkw [] false n).
Proof.
  intros Hn Hp. destruct n as [|h t]; [reflexivity|].
  inversion Hn as [|? ? Hh Ht]; subst.
  pose proof Hp as Hp'. cbn [forallb] in Hp'. apply andb_true_iff in Hp' as [Hph Hpt].
  unfold to_str. cbn [anchor parts Z.eqb].
  unfold wparse.
  destruct (join [SLASH] (h :: t)) as [|x k] eqn:EJ; [exfalso; revert EJ; apply join_nonempty; exact (proj1 Hh)|].
  rewrite <- EJ. rewrite (repl_join _ (segs_nosep _ Hn)).
  assert (Hns : Forall (nosep BSL) (h :: t)).
  { apply Forall_forall. intros y Hy. apply plain_nosep. rewrite forallb_forall in Hp. apply Hp; exact Hy. }
  rewrite (wsplitroot_join h t Hh Hph). rewrite (split_on_join BSL _ Hns) by discriminate.
  rewrite (filter_keep_all _ Hn). reflexivity.
Qed.

Lemma firstn_length_app {A} (a b : list A) : firstn (length a) (a ++ b) = a.
Proof. induction a as [|x a IH]; cbn; [destruct b; reflexivity|rewrite IH; reflexivity]. Qed.

Lemma w_is_relative_to_below b n :
  w_is_relative_to (mkw (wdrive b) (wroot b) (wparts b ++ n)) b = true.
Proof.
  unfold w_is_relative_to. apply existsb_exists. exists (length (wparts b)). split.
  - apply in_seq. cbn [wparts]. rewrite app_length. lia.
  - cbn [wdrive wroot wparts]. rewrite firstn_length_app. destruct b as [d r ps]. cbn [wdrive wroot wparts].
    apply text_eqb_refl.
Qed.

Theorem confined_win_partial base_raw b cwd s :
  wparse base_raw = Some b -> abs_wf cwd ->
  forallb plain (normalize (parts cwd) s) = true ->
  get_paths_win base_raw cwd s
  = WOk (mkw (wdrive b) (wroot b) (wparts b ++ normalize (parts cwd) s)) (mkp 1 (normalize (parts cwd) s)).
Proof.
  intros Hb Hc Hp. unfold get_paths_win.
  rewrite (virtual_of_spec cwd (parse s) Hc (proj2 (parse_wf s))), spec_parts_normalize.
  set (n := normalize (parts cwd) s) in *.
  destruct (normalize_ok (parts cwd) s (proj2 Hc)) as [Hn _]. fold n in Hn.
  rewrite (relative_to_some (mkp 1 n) (parse [SLASH]) n eq_refl eq_refl).
  rewrite Hb, (wparse_plain n Hn Hp).
  change (wjoin b (mkw [] false n)) with (mkw (wdrive b) (wroot b) (wparts b ++ n)).
  rewrite w_is_relative_to_below. reflexivity.
Qed.

Lemma texts_eqb_refl l : texts_eqb l l = true.
Proof. induction l as [|x l IH]; cbn; [reflexivity|]. rewrite text_eqb_refl, IH. reflexivity. Qed.

Lemma eqb_refl' b : Bool.eqb b b = true.
Proof. destruct b; reflexivity. Qed.

Corollary confined_win_partial_oracle base_raw b cwd s real virt :
  wparse base_raw = Some b -> abs_wf cwd ->
  forallb plain (normalize (parts cwd) s) = true ->
  get_paths_win base_raw cwd s = WOk real virt ->
  wconfined b real = true /\ wlocated b real virt = true /\ normal virt
  /\ parts virt = normalize (parts cwd) s.
Proof.
  intros Hb Hc Hp H. rewrite (confined_win_partial base_raw b cwd s Hb Hc Hp) in H.
  inversion H; subst. destruct (normalize_ok (parts cwd) s (proj2 Hc)) as [Hn Hd].
  unfold wconfined, wlocated. cbn [wdrive wroot wparts parts anchor].
  rewrite text_eqb_refl, eqb_refl', is_prefix_app, skipn_length_app, Hd, texts_eqb_refl.
  repeat split; assumption.
Qed.
