(* C13: "the session stays usable": after a command in which a backend call raised, PWD and PASV are
   answered exactly as from the state before that command. *)
From Coq Require Import ZArith List Bool String Arith Lia.
From Verif Require Import Lib.Sx Lib.PyStr Lib.Facts Model.Session Model.Faults Model.FaultsCheck Proofs.Faults Proofs.FaultsStep.
Import ListNotations.
Open Scope list_scope.
Open Scope nat_scope.

Definition probe_ev (v : string) : event := {| e_verb := t_of v; e_arg := []; e_data := DNone |}.
Definition quoted (s : text) : text := [34%Z] ++ s ++ [34%Z].

Lemma login_only_sound table v h : login_only table v h = true ->
  verb_handler table (t_of v) = Some h /\
  exists wt fc dl, handler_of table h = Some ([DConn ["logged"%string] wt fc], dl).
Proof.
  unfold login_only. destruct (verb_handler table (t_of v)) as [h'|]; [|discriminate].
  intro H. apply andb_prop in H as [A B]. apply String.eqb_eq in A. subst h'. split; [reflexivity|].
  destruct (handler_of table h) as [[[|[fields wt fc| | | |] [|d2 ds]] dl]|]; try discriminate;
    destruct fields as [|f [|f2 fs]]; try discriminate. apply String.eqb_eq in B. subst f. eauto.
Qed.

Section U.
  Variable users : list user.
  Variable table : list (string * (string * list deco * option string)).
  Variable conds : list (string * (string * bool)).
  Variable react : option (list string).
  Variable wrapped : string -> bool.
  Variables cstor cretr clist cmlsd : list string.
  Variable blk : nat.

  Notation fstep' := (fstep users table conds react wrapped cstor cretr clist cmlsd blk).

  Hypothesis Hpwd : login_only table "pwd" "pwd" = true.
  Hypothesis Hpasv : login_only table "pasv" "pasv" = true.

  Theorem pwd_usable w :
    s_ended (fw_s w) = false -> s_logged (fw_s w) = true ->
    fw_codes (fstep' w (probe_ev "pwd")) = [code "257"] /\
    fw_info (fstep' w (probe_ev "pwd")) = quoted (dbl_quote (path_str (s_cwd (fw_s w)))) /\
    fw_faults (fstep' w (probe_ev "pwd")) = fw_faults w /\
    fw_s (fstep' w (probe_ev "pwd")) = set_rest (fw_s w) 0%Z.
  Proof.
    intros En Lg. destruct (login_only_sound _ _ _ Hpwd) as (Hv & wt & fc & dl & Hh).
    unfold fstep. cbv zeta. change (fw_s (fresh w)) with (fw_s w). rewrite En.
    change (text_eqb (e_verb (probe_ev "pwd")) V_DATACONN) with false. cbv iota.
    change (e_verb (probe_ev "pwd")) with (t_of "pwd"). rewrite Hv.
    change (is_transfer (t_of "pwd")) with false. cbv iota.
    cbn [fhandler]. rewrite Hh. cbn [fdecos find].
    change (has_field (fw_s (upd_s (fresh w) (set_rest (fw_s w) 0%Z))) "logged") with (s_logged (fw_s w)).
    rewrite Lg. cbn [negb].
    vm_compute. repeat split.
  Qed.

  Theorem pasv_usable w :
    s_ended (fw_s w) = false -> s_logged (fw_s w) = true ->
    fw_codes (fstep' w (probe_ev "pasv")) = [code "227"] /\
    fw_faults (fstep' w (probe_ev "pasv")) = fw_faults w /\
    fw_s (fstep' w (probe_ev "pasv")) = set_passive (set_rest (fw_s w) 0%Z).
  Proof.
    intros En Lg. destruct (login_only_sound _ _ _ Hpasv) as (Hv & wt & fc & dl & Hh).
    unfold fstep. cbv zeta. change (fw_s (fresh w)) with (fw_s w). rewrite En.
    change (text_eqb (e_verb (probe_ev "pasv")) V_DATACONN) with false. cbv iota.
    change (e_verb (probe_ev "pasv")) with (t_of "pasv"). rewrite Hv.
    change (is_transfer (t_of "pasv")) with false. cbv iota.
    cbn [fhandler]. rewrite Hh. cbn [fdecos find].
    change (has_field (fw_s (upd_s (fresh w) (set_rest (fw_s w) 0%Z))) "logged") with (s_logged (fw_s w)).
    rewrite Lg. cbn [negb].
    vm_compute. repeat split.
  Qed.

  Hypothesis OK : params_ok conds react wrapped cstor cretr clist cmlsd = true.

  (* after a command in which a backend call raised: PWD reports the directory the session was in BEFORE
     that command, PASV opens a listener; neither meets a fault of its own *)
  Theorem usable_after_fault w0 e :
    s_logged (fw_s w0) = true ->
    raised w0 (fstep' w0 e) ->
    let w1 := fstep' w0 e in
    (fw_codes (fstep' w1 (probe_ev "pwd")) = [code "257"] /\
     fw_info (fstep' w1 (probe_ev "pwd")) = quoted (dbl_quote (path_str (s_cwd (fw_s w0))))) /\
    (fw_codes (fstep' w1 (probe_ev "pasv")) = [code "227"] /\
     s_passive (fw_s (fstep' w1 (probe_ev "pasv"))) = true /\
     s_ended (fw_s (fstep' w1 (probe_ev "pasv"))) = false).
  Proof.
    intros Lg R w1.
    destruct (session_survives users table conds react wrapped cstor cretr clist cmlsd blk OK w0 e R)
      as ((En & _ & L1 & C1 & _) & _).
    fold w1 in En, L1, C1. rewrite Lg in L1.
    destruct (pwd_usable w1 En L1) as (P1 & P2 & _). destruct (pasv_usable w1 En L1) as (Q1 & _ & Q3).
    split; [split; [exact P1|rewrite P2, C1; reflexivity]|].
    split; [exact Q1|]. rewrite Q3. cbn. split; [reflexivity|exact En].
  Qed.
End U.
