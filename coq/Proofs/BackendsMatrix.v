(* Proofs for C18 (API level, MemoryPathIO vs the file-system backends): on the domain `api_ok`
   (Model/FsAgreeDom.v) MemFS and PosixFS give the same result-or-failure (up to the class of the
   error) and the same tree, for every operation -- in particular for every cell of the open-mode x
   seek/read/write matrix -- and for every sequence; one witness per excluded cell. *)
From Coq Require Import ZArith List Bool Lia.
From Verif Require Import Lib.Sx Model.FsBase Model.MemFS Model.PosixFS Model.BackendSrv Model.FsAgreeDom
                          Proofs.FsFacts Proofs.Backends.
Import ListNotations.
Open Scope Z_scope.

Definition step_sim (x y : result * node) : Prop := blank_step x = blank_step y.

Lemma step_sim_intro (x y : result * node) :
  blank (fst x) = blank (fst y) -> snd x = snd y -> step_sim x y.
Proof. intros H1 H2. unfold step_sim, blank_step. rewrite H1, H2. reflexivity. Qed.

Lemma res_eq_blank a b : res_eq a b -> blank a = blank b.
Proof. destruct a, b; cbn; intro H; try contradiction; subst; reflexivity. Qed.

Lemma step_agree_sim x y : step_agree x y -> step_sim x y.
Proof. intros [H1 H2]. apply step_sim_intro; [apply res_eq_blank, H1|exact H2]. Qed.

Lemma eq_sim x y : x = y -> step_sim x y.
Proof. intros ->. reflexivity. Qed.

Lemma err_sim e1 e2 t : step_sim (Err e1, t) (Err e2, t).
Proof. reflexivity. Qed.

(* ---- handle scripts ---- *)
Definition blank_run (x : list hres * bytes) : list hres * bytes := (map blank_hres (fst x), snd x).

Lemma blank_run_cons h1 h2 (x y : list hres * bytes) :
  blank_hres h1 = blank_hres h2 -> blank_run x = blank_run y ->
  blank_run (let '(rs, d) := x in (h1 :: rs, d)) = blank_run (let '(rs, d) := y in (h2 :: rs, d)).
Proof.
  destruct x as [rs1 d1], y as [rs2 d2]. unfold blank_run. cbn. intros H1 H2. inversion H2; subst.
  rewrite H1. congruence.
Qed.

(* no O_APPEND: handles with the same capabilities for the calls the script makes *)
Lemma run_hops_sim r1 w1 r2 w2 e1 e2 s : forall data pos,
  forallb (cap_ok r1 w1 r2 w2) s = true ->
  blank_run (run_hops r1 w1 false e1 data pos s) = blank_run (run_hops r2 w2 false e2 data pos s).
Proof.
  induction s as [|h s IH]; intros data pos F; [reflexivity|].
  cbn [forallb] in F. apply andb_true_iff in F as [Hh Hs].
  destruct h as [off|n|d]; cbn [run_hops cap_ok] in *.
  - destruct (off <? 0); apply blank_run_cons; auto.
  - apply eqb_prop in Hh. subst r2. destruct r1; apply blank_run_cons; auto.
  - apply eqb_prop in Hh. subst w2. destruct w1; apply blank_run_cons; auto.
Qed.

(* 'ab': position at the end once (memory) vs O_APPEND (disk) *)
Lemma run_hops_ab e1 e2 s : forall sought data pos,
  ab_script_ok sought s = true -> (sought = false -> pos = zlen data) ->
  blank_run (run_hops true true false e1 data pos s) = blank_run (run_hops false true true e2 data pos s).
Proof.
  induction s as [|h s IH]; intros sought data pos F P; [reflexivity|].
  destruct h as [off|n|d]; cbn [run_hops ab_script_ok] in *.
  - destruct (off <? 0) eqn:Eo.
    + assert (0 <=? off = false) as E0 by lia. rewrite E0, orb_false_r in F.
      apply blank_run_cons; [reflexivity|]. apply (IH sought); assumption.
    + assert (0 <=? off = true) as E0 by lia. rewrite E0, orb_true_r in F.
      apply blank_run_cons; [reflexivity|]. apply (IH true); [assumption|discriminate].
  - discriminate.
  - apply andb_true_iff in F as [Hn Hs]. apply negb_true_iff in Hn. subst sought.
    rewrite (P eq_refl). apply blank_run_cons; [reflexivity|].
    apply (IH false); [assumption|]. intros _. rewrite write_at_end, zlen_app. reflexivity.
Qed.

Lemma finish_sim (x y : list hres * bytes) p t :
  blank_run x = blank_run y ->
  step_sim (let '(rs, d) := x in (Ok (VOpen rs), upd p (fun _ => File d) t))
           (let '(rs, d) := y in (Ok (VOpen rs), upd p (fun _ => File d) t)).
Proof.
  destruct x as [rs1 d1], y as [rs2 d2]. unfold blank_run. cbn. intro H. inversion H; subst.
  apply step_sim_intro; cbn; congruence.
Qed.

(* ---- open: every mode, every path, every script inside the matrix ---- *)
Lemma open_sim t p m s : open_ok t p m s = true -> step_sim (m_open t p m s) (p_open t p m s).
Proof.
  intro H. unfold open_ok in H. apply andb_true_iff in H as [Hs Hm].
  destruct m.
  - (* rb *)
    unfold m_open, p_open, get_node. rewrite (resolve_lookup p t).
    destruct (resolve p t) as [[d|es]|e]; [|apply err_sim|apply err_sim].
    apply finish_sim. apply run_hops_sim. exact Hs.
  - (* wb *)
    destruct (unsnoc p) as [[pp x]|] eqn:E; [|apply unsnoc_none in E; subst p; discriminate].
    apply unsnoc_spec in E. subst p.
    unfold m_open, p_open, get_node, resolve_parent. rewrite lookup_snoc, unsnoc_snoc, (resolve_lookup pp t).
    destruct (resolve pp t) as [[d|es]|e]; [apply err_sim| |apply err_sim].
    destruct (assoc x es) as [[d|es']|]; [|apply err_sim|].
    + apply finish_sim. apply run_hops_sim. exact Hs.
    + apply finish_sim. apply run_hops_sim. exact Hs.
  - (* ab *)
    destruct (unsnoc p) as [[pp x]|] eqn:E; [|apply unsnoc_none in E; subst p; discriminate].
    apply unsnoc_spec in E. subst p.
    unfold m_open, p_open, get_node, resolve_parent. rewrite lookup_snoc, unsnoc_snoc, (resolve_lookup pp t).
    destruct (resolve pp t) as [[d|es]|e]; [apply err_sim| |apply err_sim].
    destruct (assoc x es) as [[d|es']|]; [|apply err_sim|].
    + apply finish_sim. apply (run_hops_ab _ _ _ false); [exact Hs|reflexivity].
    + apply finish_sim. apply (run_hops_ab _ _ _ false); [exact Hs|reflexivity].
  - (* r+b: on a missing file both fail (since the repair of F06) *)
    unfold m_open, p_open, get_node. rewrite (resolve_lookup p t).
    destruct (resolve p t) as [[d|es]|e]; [|apply err_sim|apply err_sim].
    apply finish_sim. apply run_hops_sim. exact Hs.
  - apply err_sim.
Qed.

(* ---- mkdir: every path, parents and exist_ok ---- *)
Lemma mkdir_flat_agree t p eok : step_agree (m_mkdir t p false eok) (p_mkdir_flat t p eok).
Proof.
  unfold m_mkdir, p_mkdir_flat, sys_mkdir, get_node, p_is_dir. cbn [negb].
  destruct (unsnoc p) as [[pp x]|] eqn:E.
  - apply unsnoc_spec in E. subst p. unfold resolve_parent.
    rewrite lookup_snoc, resolve_snoc, (resolve_lookup pp t).
    destruct (resolve pp t) as [[d|es]|e] eqn:R.
    + rewrite andb_false_r. split; cbn; auto.
    + destruct (assoc x es) as [[d|es']|]; cbn [is_dir_node negb orb andb].
      * rewrite andb_false_r. apply step_agree_refl.
      * destruct eok; apply step_agree_refl.
      * apply step_agree_refl.
    + destruct (resolve_fail_kind _ _ _ R); subst e; [split; cbn; auto|].
      rewrite andb_false_r. split; cbn; auto.
  - apply unsnoc_none in E. subst p. cbn [lookup resolve].
    destruct t as [d|es]; cbn [is_dir_node negb orb].
    + rewrite andb_false_r. apply step_agree_refl.
    + destruct eok; apply step_agree_refl.
Qed.

Lemma mkdir_parents_exists rp t eok n :
  lookup (rev rp) t = Some n ->
  p_mkdir_parents rp t eok = (if negb (is_dir_node n) || negb eok then (Err EEXIST, t) else (Ok VUnit, t)).
Proof.
  intro L. assert (R : resolve (rev rp) t = Found n) by (apply resolve_found, L).
  destruct rp as [|x rp'].
  - cbn in *. inversion L; subst n. unfold p_is_dir. cbn.
    destruct t, eok; reflexivity.
  - cbn [p_mkdir_parents]. unfold sys_mkdir, p_is_dir. rewrite R. cbn [rev] in *.
    rewrite unsnoc_snoc. unfold resolve_parent. rewrite resolve_snoc in R.
    destruct (resolve (rev rp') t) as [[d|es]|e]; try discriminate.
    destruct (assoc x es) as [c|]; [|discriminate]. inversion R; subst c.
    destruct n, eok; reflexivity.
Qed.

Lemma mkdir_agree_all t p par eok : step_agree (m_mkdir t p par eok) (p_mkdir t p par eok).
Proof.
  destruct par; [|apply mkdir_flat_agree].
  unfold p_mkdir. destruct (lookup p t) as [n|] eqn:L.
  - unfold m_mkdir, get_node. rewrite L. rewrite <- (rev_involutive p) in L.
    rewrite (mkdir_parents_exists _ _ eok _ L). apply step_agree_refl.
  - unfold m_mkdir, get_node. rewrite L. cbn [negb].
    destruct (proj2 (resolve_fail p t) L) as [e He].
    destruct (resolve_fail_kind _ _ _ He); subst e.
    + rewrite <- (rev_involutive p) in He.
      destruct (mkdir_parents_enoent (rev p) t eok He) as [t' [Hw Hp]].
      rewrite rev_involutive in Hw. rewrite Hw, Hp. apply step_agree_refl.
    + rewrite (walk_enotdir _ _ He). rewrite <- (rev_involutive p) in He.
      rewrite (mkdir_parents_enotdir _ _ eok He). apply step_agree_refl.
Qed.

(* ---- one operation ---- *)
Theorem api_step_sim t o : api_ok t o = true -> step_sim (m_run t o) (p_run t o).
Proof.
  intros H. destruct o as [p|p|p|p par eok|p|p|p|p|a b|p m s]; cbn [m_run p_run api_ok] in *.
  - rewrite exists_agree. reflexivity.
  - rewrite is_dir_agree. reflexivity.
  - rewrite is_file_agree. reflexivity.
  - apply step_agree_sim, mkdir_agree_all.
  - apply step_agree_sim, rmdir_agree.
  - apply step_agree_sim, unlink_agree.
  - rewrite list_agree. reflexivity.
  - apply step_sim_intro; [apply res_eq_blank, stat_agree|reflexivity].
  - unfold rename_ok in H. apply andb_true_iff in H as [H1 H2].
    apply negb_true_iff in H1, H2.
    apply step_agree_sim, rename_agree.
    + destruct a; discriminate.
    + unfold m_exists, get_node in *. destruct (lookup b t); [discriminate|reflexivity].
  - apply open_sim. exact H.
Qed.

(* ---- every sequence ---- *)
Theorem api_seq_sim : forall os t, api_oks t os = true ->
  map blank_step (run_ops m_run t os) = map blank_step (run_ops p_run t os).
Proof.
  induction os as [|o r IH]; intros t H; [reflexivity|].
  cbn [api_oks] in H. apply andb_true_iff in H as [Ho Hr].
  pose proof (api_step_sim t o Ho) as S. unfold step_sim, blank_step in S.
  cbn [run_ops]. destruct (m_run t o) as [r1 t1], (p_run t o) as [r2 t2]. cbn [fst snd] in *.
  injection S as Hb Ht. subst t2. cbn [map]. unfold blank_step at 1 3. cbn [fst snd].
  rewrite Hb, (IH t1 Hr). reflexivity.
Qed.

(* ---- the matrix, cell by cell (documentation: the table `hop_cell_ok` really is this one) ---- *)
Lemma cell_matrix :
  (forall m off, hop_cell_ok m (HSeek off) = true) /\
  (forall n, hop_cell_ok RB (HRead n) = true /\ hop_cell_ok RPB (HRead n) = true /\
             hop_cell_ok WB (HRead n) = false /\ hop_cell_ok AB (HRead n) = false) /\
  (forall d, hop_cell_ok RB (HWrite d) = false /\ hop_cell_ok RPB (HWrite d) = true /\
             hop_cell_ok WB (HWrite d) = true /\ hop_cell_ok AB (HWrite d) = true).
Proof. repeat split; try reflexivity; intros [] ?; reflexivity. Qed.

(* what the server's workers issue lies inside the matrix *)
Lemma store_script_in_matrix m restart blocks :
  (m = WB \/ m = AB) ->
  script_ok (if 0 <? restart then RPB else m)
            ((if 0 <? restart then [HSeek restart] else []) ++ map HWrite blocks) = true.
Proof.
  intro Hm. assert (W : forall mm, hop_cell_ok mm (HSeek restart) = true) by (intros []; reflexivity).
  assert (Wr : forall mm, disk_writable mm = true -> forallb (hop_cell_ok mm) (map HWrite blocks) = true).
  { intros mm Hw. induction blocks as [|b bs IH]; [reflexivity|]. cbn [map forallb]. rewrite IH.
    unfold hop_cell_ok, cap_ok. rewrite Hw. reflexivity. }
  assert (Wa : forall bs, ab_script_ok false (map HWrite bs) = true).
  { induction bs as [|b bs IH]; [reflexivity|]. cbn. exact IH. }
  destruct (0 <? restart).
  - cbn [script_ok app forallb]. rewrite W. apply Wr. reflexivity.
  - cbn [app]. destruct Hm; subst m; cbn [script_ok]; [apply Wr; reflexivity|apply Wa].
Qed.

Lemma retr_script_in_matrix restart :
  script_ok RB ((if 0 <? restart then [HSeek restart] else []) ++ [HRead (-1)]) = true.
Proof. destruct (0 <? restart); reflexivity. Qed.

Lemma worker_scripts_in_matrix m restart blocks :
  (m = WB \/ m = AB) ->
  script_ok (if 0 <? restart then RPB else m)
            ((if 0 <? restart then [HSeek restart] else []) ++ map HWrite blocks) = true
  /\ script_ok RB ((if 0 <? restart then [HSeek restart] else []) ++ [HRead (-1)]) = true.
Proof. intro H. split; [exact (store_script_in_matrix m restart blocks H)|exact (retr_script_in_matrix restart)]. Qed.

(* ---- witnesses: every excluded cell is a real divergence of the two models (and, through the
   correspondence, of the real backends) ---- *)
Definition tree_of (x : result * node) : node := snd x.

(* rb + write: MemoryPathIO's 'rb' handle is the node's own BytesIO and takes the write *)
Theorem rb_write_cell_refuted :
  exists t p s, wf t /\ open_ok t p RB s = false /\
    m_run t (Open p RB s) = (Ok (VOpen [HUnit]), upd p (fun _ => File [81; 121; 122]) t) /\
    p_run t (Open p RB s) = (Ok (VOpen [HErr EUnsupported]), t).
Proof. exists wt0, [ng], [HWrite [81]]. split; [exact wt0_wf|]. repeat split; vm_compute; reflexivity. Qed.

(* wb + read *)
Theorem wb_read_cell_refuted :
  exists t p s, wf t /\ open_ok t p WB s = false /\
    fst (m_run t (Open p WB s)) = Ok (VOpen [HUnit; HPos 0; HBytes [81]]) /\
    fst (p_run t (Open p WB s)) = Ok (VOpen [HUnit; HPos 0; HErr EUnsupported]).
Proof. exists wt0, [ng], [HWrite [81]; HSeek 0; HRead (-1)]. split; [exact wt0_wf|]. repeat split; vm_compute; reflexivity. Qed.

(* ab + seek + write: O_APPEND ignores the position *)
Theorem ab_seek_write_cell_refuted :
  exists t p s, wf t /\ open_ok t p AB s = false /\
    blank (fst (m_run t (Open p AB s))) = blank (fst (p_run t (Open p AB s))) /\
    lookup p (snd (m_run t (Open p AB s))) = Some (File [81; 121; 122]) /\
    lookup p (snd (p_run t (Open p AB s))) = Some (File [120; 121; 122; 81]).
Proof. exists wt0, [ng], [HSeek 0; HWrite [81]]. split; [exact wt0_wf|]. repeat split; vm_compute; reflexivity. Qed.

(* r+b on a missing file (was F06 at the API): inside the domain now, both fail, nothing is created *)
Example former_rpb_missing_cell_agrees :
  open_ok wt0 [nm] RPB [] = true /\
  m_run wt0 (Open [nm] RPB []) = (Err ENOENT, wt0) /\ p_run wt0 (Open [nm] RPB []) = (Err ENOENT, wt0).
Proof. repeat split; vm_compute; reflexivity. Qed.

(* rename over an existing entry of the other type: replaced in memory, EISDIR/ENOTDIR on disk *)
Theorem rename_over_existing_refuted :
  exists t a b, wf t /\ api_ok t (Rename a b) = false /\
    fst (m_run t (Rename a b)) = Ok VUnit /\ lookup a (snd (m_run t (Rename a b))) = None /\
    p_run t (Rename a b) = (Err EISDIR, t).
Proof. exists wt0, [ng], [nd]. split; [exact wt0_wf|]. repeat split; vm_compute; reflexivity. Qed.

(* the domain is not empty: a sequence through every operation and every mode *)
Example api_oks_nonvacuous :
  api_oks wt0
    [Exists [nd]; IsDir [ng]; IsFile [ng]; Mkdir [nm; nx] true false; Mkdir [nd] false true; Mkdir [ng; nx] true true;
     Open [nm; nx; nf] WB [HWrite [1; 2]; HSeek 7; HWrite [3]; HSeek (-1)];
     Open [nm; nx; nf] AB [HWrite [4]; HWrite []; HSeek 0];
     Open [nm; nx; nf] RPB [HSeek 1; HRead 2; HWrite [5]; HSeek 0; HRead (-1)];
     Open [nm; nx; nf] RB [HSeek 3; HRead 1; HRead (-1)]; Open [nd] RB []; Open [nh; nf] WB []; Open [nf] BadMode [];
     List [nm; nx]; Stat [nm; nx; nf]; Rename [nm; nx; nf] [nd; ne; nh]; Rename [nh] [nx]; Unlink [nd; ne; nh];
     Rmdir [nm; nx]; Rmdir [nd]; Unlink [nd]] = true.
Proof. vm_compute. reflexivity. Qed.

(* ---- the server sees a backend only through its outcomes: two backends with the same outcomes
   give the same sessions (used for the third backend: AsyncPathIO = PathIO at the API) ---- *)
Section Ext.
  Variables run1 run2 : node -> fsop -> result * node.
  Hypothesis same : forall t o, run1 t o = run2 t o.

  Lemma ask_ext t o : ask run1 t o = ask run2 t o.
  Proof. unfold ask. rewrite same. reflexivity. Qed.

  Lemma conds_ext t cs k : conds run1 t cs k = conds run2 t cs k.
  Proof.
    induction cs as [|[o want] r IH]; [reflexivity|]. cbn [conds]. rewrite ask_ext, IH. reflexivity.
  Qed.

  Lemma simple_ext t o c : simple run1 t o c = simple run2 t o c.
  Proof. unfold simple. rewrite same. reflexivity. Qed.

  Lemma stat_entries_ext t p ns : stat_entries run1 t p ns = stat_entries run2 t p ns.
  Proof. induction ns as [|n r IH]; [reflexivity|]. cbn [stat_entries]. rewrite same, IH. reflexivity. Qed.

  Lemma listing_ext t p c : listing run1 t p c = listing run2 t p c.
  Proof.
    unfold listing. rewrite same. destruct (fst (run2 t (List p))) as [[| | ns | |]|]; try reflexivity.
    rewrite stat_entries_ext. reflexivity.
  Qed.

  Lemma store_ext t p m restart blocks : store run1 t p m restart blocks = store run2 t p m restart blocks.
  Proof. unfold store. destruct (unsnoc p) as [[pp x]|]; [|reflexivity]. rewrite ask_ext, same. reflexivity. Qed.

  Lemma retrieve_ext t p restart : retrieve run1 t p restart = retrieve run2 t p restart.
  Proof. unfold retrieve. rewrite same. reflexivity. Qed.

  Lemma srv_step_ext st c : srv_step run1 st c = srv_step run2 st c.
  Proof.
    destruct st as [rf t].
    destruct c; cbn [srv_step]; try destruct rf;
      rewrite ?conds_ext, ?simple_ext, ?listing_ext, ?store_ext, ?retrieve_ext, ?ask_ext, ?same; reflexivity.
  Qed.

  Lemma srv_run_ext cs : forall st, srv_run run1 st cs = srv_run run2 st cs.
  Proof.
    induction cs as [|c r IH]; intro st; [reflexivity|]. cbn [srv_run]. rewrite srv_step_ext.
    destruct (srv_step run2 st c) as [rep st']. rewrite IH. reflexivity.
  Qed.
End Ext.

(* three backends: MemoryPathIO, PathIO, and any backend that returns PathIO's outcomes (AsyncPathIO,
   by fs_backends_equal over the regenerated table) *)
Theorem three_backends_agree : forall a_run : node -> fsop -> result * node,
  (forall t o, a_run t o = p_run t o) ->
  forall cs rf t, shapes_ok cs = true ->
    srv_run m_run (rf, t) cs = srv_run p_run (rf, t) cs
    /\ srv_run a_run (rf, t) cs = srv_run p_run (rf, t) cs
    /\ inert_from t (srv_run m_run (rf, t) cs)
    /\ inert_from t (srv_run p_run (rf, t) cs)
    /\ inert_from t (srv_run a_run (rf, t) cs).
Proof.
  intros a_run Ha cs rf t S. destruct (backends_agree cs rf t S) as [E [I1 I2]].
  pose proof (srv_run_ext a_run p_run Ha cs (rf, t)) as Ea.
  repeat split; try assumption. rewrite Ea. exact I2.
Qed.

(* ---- RETR: the block loop of retr_worker delivers what one read(-1) returns ---- *)
Lemma skipn_firstn_len {A} n (l : list A) : skipn (length (firstn n l)) l = skipn n l.
Proof.
  rewrite firstn_length. destruct (Nat.le_ge_cases n (length l)) as [H|H].
  - rewrite Nat.min_l by exact H. reflexivity.
  - rewrite Nat.min_r by exact H. rewrite !skipn_all2; [reflexivity|exact H|lia].
Qed.

Lemma skipn_add {A} a b (l : list A) : skipn (a + b) l = skipn b (skipn a l).
Proof.
  revert l. induction a as [|a IH]; intro l; [reflexivity|].
  destruct l as [|x l]; cbn; [destruct b; reflexivity|apply IH].
Qed.

Lemma read_blocks_concat : forall fuel data pos bs,
  0 <= pos -> 0 < bs -> (length (skipn (Z.to_nat pos) data) < fuel)%nat ->
  concat (read_blocks fuel data pos bs) = read_at data pos (-1).
Proof.
  induction fuel as [|k IH]; intros data pos bs Hp Hb Hf; [lia|].
  cbn [read_blocks]. unfold read_at. cbn [Z.ltb Z.compare].
  assert (bs <? 0 = false) as -> by lia.
  set (rest := skipn (Z.to_nat pos) data) in *.
  destruct (firstn (Z.to_nat bs) rest) as [|x b] eqn:E.
  - destruct rest as [|y r]; [reflexivity|].
    destruct (Z.to_nat bs) eqn:En; [lia|discriminate].
  - rewrite <- E. cbn [concat].
    assert (Hl : (1 <= length (firstn (Z.to_nat bs) rest))%nat) by (rewrite E; cbn; lia).
    assert (Hs : skipn (Z.to_nat (pos + zlen (firstn (Z.to_nat bs) rest))) data = skipn (Z.to_nat bs) rest).
    { unfold zlen. rewrite Z2Nat.inj_add by lia. rewrite Nat2Z.id.
      rewrite skipn_add. fold rest. apply skipn_firstn_len. }
    rewrite IH; [| unfold zlen; lia | exact Hb |].
    + unfold read_at. cbn [Z.ltb Z.compare]. rewrite Hs. apply firstn_skipn.
    + rewrite Hs. rewrite skipn_length. rewrite firstn_length in Hl. lia.
Qed.

(* the bytes RETR sends, block by block, for every block size: the payload of `retrieve` *)
Theorem retr_blocks_payload data restart bs :
  0 < bs -> 0 <= restart ->
  concat (read_blocks (S (length data)) data restart bs) = skipn (Z.to_nat restart) data.
Proof.
  intros Hb Hr. rewrite read_blocks_concat; [reflexivity|exact Hr|exact Hb|].
  rewrite skipn_length. lia.
Qed.

(* ---- rename: "the destination lies inside the source" is a test on path COMPONENTS ----
   (`destination.is_relative_to(source)`; not a test on the characters of the two path strings: a sibling
   whose NAME merely extends the source's name -- report -> report.bak, d -> d2 -- is not inside it) *)
Lemma name_ext_neq (n s : name) : s <> [] -> name_eqb n (n ++ s) = false.
Proof.
  intro Hs. apply name_eqb_neq. intro E.
  assert (L : length n = length (n ++ s)) by (rewrite <- E; reflexivity).
  rewrite app_length in L. destruct s as [|c s]; [congruence|cbn in L; lia].
Qed.

Lemma is_prefix_same_parent ap (x y : name) rest :
  is_prefix (ap ++ [x]) (ap ++ y :: rest) = name_eqb x y.
Proof.
  induction ap as [|z ap IH]; cbn.
  - destruct (name_eqb x y); reflexivity.
  - rewrite name_eqb_refl. exact IH.
Qed.

(* a path whose last-but-k component extends the source's last name by a non-empty suffix is outside the source,
   at every depth and whatever follows *)
Theorem sibling_extension_not_inside ap (an s : name) rest :
  s <> [] -> is_prefix (ap ++ [an]) (ap ++ (an ++ s) :: rest) = false.
Proof. intro Hs. rewrite is_prefix_same_parent. apply name_ext_neq. exact Hs. Qed.

(* and the other way round: the shorter name is not inside the longer one *)
Theorem sibling_truncation_not_inside ap (an s : name) rest :
  s <> [] -> is_prefix (ap ++ [an ++ s]) (ap ++ an :: rest) = false.
Proof.
  intro Hs. rewrite is_prefix_same_parent. apply name_eqb_neq. intro E. symmetry in E.
  apply name_eqb_eq in E. rewrite name_ext_neq in E by exact Hs. discriminate.
Qed.

(* MemoryPathIO.rename of an existing entry (file or directory, any depth) to a sibling name that extends the old
   name SUCCEEDS and moves the entry -- the same outcome and tree as on the file-system backends *)
Theorem m_rename_sibling_extension t ap (an s : name) sn :
  s <> [] -> lookup (ap ++ [an]) t = Some sn ->
  m_run t (Rename (ap ++ [an]) (ap ++ [an ++ s]))
  = (Ok VUnit, upd ap (on_dir (put (an ++ s) sn)) (upd ap (on_dir (remove_first an)) t)).
Proof.
  intros Hs L. cbn [m_run]. unfold m_rename, get_node. rewrite L.
  assert (Hne : path_eqb (ap ++ [an]) (ap ++ [an ++ s]) = false).
  { destruct (path_eqb (ap ++ [an]) (ap ++ [an ++ s])) eqn:E; [|reflexivity].
    apply path_eqb_eq in E. apply app_inv_head in E. inversion E as [E1].
    pose proof (name_ext_neq an s Hs) as N. apply name_eqb_neq in N. contradiction. }
  rewrite Hne, !unsnoc_snoc.
  rewrite lookup_app in L. destruct (lookup ap t) as [[d|es]|] eqn:Lp; cbn in L; try discriminate.
  rewrite (sibling_extension_not_inside ap an s [] Hs). reflexivity.
Qed.

Theorem rename_sibling_extension_agree t ap (an s : name) sn :
  s <> [] -> lookup (ap ++ [an]) t = Some sn -> lookup (ap ++ [an ++ s]) t = None ->
  step_agree (m_run t (Rename (ap ++ [an]) (ap ++ [an ++ s]))) (p_run t (Rename (ap ++ [an]) (ap ++ [an ++ s])))
  /\ fst (m_run t (Rename (ap ++ [an]) (ap ++ [an ++ s]))) = Ok VUnit.
Proof.
  intros Hs L N. split.
  - apply rename_agree; [destruct ap; discriminate|exact N].
  - rewrite (m_rename_sibling_extension t ap an s sn Hs L). reflexivity.
Qed.
