(* Checker over the wiring facts that tools/py2v/gen_wiring.py reads off server.py / client.py /
   common.py (coq/Gen/Wiring.v).  Parametric in the facts: Props/C15.v instantiates it with
   Gen.Wiring and discharges `check_wiring ... = true` by vm_compute.

   What `true` certifies (see check_wiring_spec):
   * Server.dispatcher builds a NEW dict per connection holding exactly
       server_global          <- self.throttle                          (one object: shared by all)
       server_per_connection  <- self.throttle_per_connection.clone()   (fresh object per connection)
   * Server.user updates THAT dict in place with
       user_global            <- self.throttle_per_user[connection.user] (one object per user, created
                                 once under `if user not in self.throttle_per_user`)
       user_per_connection    <- StreamThrottle.from_limits(...)         (fresh object per login)
   * every other *StreamIO built by the server (pasv/epsv data streams) receives the SAME dict object
     `connection.command_connection.throttles`; ThrottleStreamIO stores the dict by reference
   * the client builds {"_": self.throttle} for the control stream and for every data stream
   * self.throttle / self.throttle_per_connection / self.throttle_per_user are assigned once, in
     __init__ only
   * read/readline wait on and append to "read"; write waits on and appends to "write"
   * the objects under the keys of one dict are pairwise distinct (hypothesis `wired` of the model) *)
From Coq Require Import ZArith List Bool String Ascii.
Import ListNotations.
Open Scope Z_scope.

Definition txt (s : string) : list Z :=
  map (fun c => Z.of_nat (nat_of_ascii c)) (list_ascii_of_string s).

Fixpoint teqb (a b : list Z) : bool :=
  match a, b with
  | [], [] => true
  | x :: a', y :: b' => (x =? y) && teqb a' b'
  | _, _ => false
  end.

Fixpoint prefixb (p s : list Z) : bool :=
  match p, s with
  | [], _ => true
  | x :: p', y :: s' => (x =? y) && prefixb p' s'
  | _ :: _, [] => false
  end.

Definition source := (Z * list Z)%type.          (* tag, text *)
Definition entry := (list Z * source)%type.      (* key, source *)
Definition site := (list Z * (Z * list Z) * list entry)%type.

Definition s_name (s : site) : list Z := fst (fst s).
Definition s_tag (s : site) : Z := fst (snd (fst s)).
Definition s_expr (s : site) : list Z := snd (snd (fst s)).
Definition s_entries (s : site) : list entry := snd s.

Definition find_site (name : string) (l : list site) : option site :=
  find (fun s => teqb (s_name s) (txt name)) l.

Definition has_entry (s : site) (key : string) (tag : Z) (text : string) : bool :=
  match find (fun e => teqb (fst e) (txt key)) (s_entries s) with
  | Some (_, (t, x)) => (t =? tag) && teqb x (txt text)
  | None => false
  end.

Definition has_entry_tag (s : site) (key : string) (tag : Z) : bool :=
  match find (fun e => teqb (fst e) (txt key)) (s_entries s) with
  | Some (_, (t, _)) => t =? tag
  | None => false
  end.

Definition CONTROL_DICT : string := "connection.command_connection.throttles".

(* objects under one dict: CloneOf (1) and Fresh (3) are new objects; Shared (0) / PerKey (2)
   sources must differ textually *)
Fixpoint sources_distinct (l : list entry) : bool :=
  match l with
  | [] => true
  | (k, (t, x)) :: r =>
      forallb (fun e => negb (teqb (fst e) k)) r &&
      (if (t =? 1) || (t =? 3) then true
       else forallb (fun e => negb ((fst (snd e) =? t) && teqb (snd (snd e)) x)) r) &&
      sources_distinct r
  end.

Fixpoint names_distinct (l : list site) : bool :=
  match l with
  | [] => true
  | s :: r => forallb (fun s' => negb (teqb (s_name s') (s_name s))) r && names_distinct r
  end.

Definition is_server_site (s : site) : bool := prefixb (txt "Server.") (s_name s).

Definition dispatcher_ok (l : list site) : bool :=
  match find_site "Server.dispatcher" l with
  | Some s =>
      (s_tag s =? 0) && (Z.of_nat (List.length (s_entries s)) =? 2) &&
      has_entry s "server_global" 0 "throttle" &&
      has_entry s "server_per_connection" 1 "throttle_per_connection"
  | None => false
  end.

Definition user_ok (l : list site) : bool :=
  match find_site "Server.user" l with
  | Some s =>
      (s_tag s =? 2) && teqb (s_expr s) (txt CONTROL_DICT) &&
      (Z.of_nat (List.length (s_entries s)) =? 2) &&
      has_entry s "user_global" 2 "throttle_per_user[connection.user]" &&
      has_entry_tag s "user_per_connection" 3
  | None => false
  end.

(* every server site other than dispatcher / user hands over the control stream's dict object *)
Definition data_sites_ok (l : list site) : bool :=
  forallb
    (fun s =>
       if is_server_site s
       then teqb (s_name s) (txt "Server.dispatcher") || teqb (s_name s) (txt "Server.user") ||
            ((s_tag s =? 1) && teqb (s_expr s) (txt CONTROL_DICT))
       else true)
    l &&
  match find_site "Server.pasv.handler" l, find_site "Server.epsv.handler" l with
  | Some _, Some _ => true
  | _, _ => false
  end.

Definition client_site_ok (s : site) : bool :=
  (s_tag s =? 0) && (Z.of_nat (List.length (s_entries s)) =? 1) && has_entry s "_" 0 "throttle".

Definition client_ok (l : list site) : bool :=
  forallb (fun s => if is_server_site s then true else client_site_ok s) l &&
  match find_site "BaseClient.connect" l, find_site "Client.get_stream" l with
  | Some _, Some _ => true
  | _, _ => false
  end.

Definition combined_dict_ok (l : list site) : bool :=
  match find_site "Server.dispatcher" l, find_site "Server.user" l with
  | Some d, Some u => sources_distinct (s_entries d ++ s_entries u)
  | _, _ => false
  end.

Definition init_ok (inits : list (list Z * list Z * Z)) (name : string) (ctor_prefix : string) : bool :=
  match find (fun i => teqb (fst (fst i)) (txt name)) inits with
  | Some (_, c, n) => (n =? 1) && prefixb (txt ctor_prefix) c
  | None => false
  end.

Definition inits_ok (inits : list (list Z * list Z * Z)) : bool :=
  init_ok inits "Server.throttle" "from_limits(" &&
  init_ok inits "Server.throttle_per_connection" "from_limits(" &&
  init_ok inits "Server.throttle_per_user" "{}" &&
  init_ok inits "BaseClient.throttle" "from_limits(".

Definition op_ok (ops : list (list Z * list Z * list Z)) (m d : string) : bool :=
  match find (fun o => teqb (fst (fst o)) (txt m)) ops with
  | Some (_, w, a) => teqb w (txt d) && teqb a (txt d)
  | None => false
  end.

Definition ops_ok (ops : list (list Z * list Z * list Z)) : bool :=
  op_ok ops "read" "read" && op_ok ops "readline" "read" && op_ok ops "write" "write".

Definition check_wiring
  (sites : list site) (inits : list (list Z * list Z * Z)) (guarded byref : bool)
  (ops : list (list Z * list Z * list Z)) : bool :=
  guarded && byref && names_distinct sites &&
  dispatcher_ok sites && user_ok sites && data_sites_ok sites && client_ok sites &&
  combined_dict_ok sites && inits_ok inits && ops_ok ops.

Theorem check_wiring_spec : forall sites inits guarded byref ops,
  check_wiring sites inits guarded byref ops = true ->
  guarded = true /\ byref = true /\
  dispatcher_ok sites = true /\ user_ok sites = true /\
  data_sites_ok sites = true /\ client_ok sites = true /\
  combined_dict_ok sites = true /\ inits_ok inits = true /\ ops_ok ops = true.
Proof.
  intros sites inits guarded byref ops H. unfold check_wiring in H.
  repeat (apply andb_true_iff in H; destruct H as [H ?]).
  repeat split; assumption.
Qed.

(* the data stream of a session sees exactly the throttle objects of its control stream, at any
   later time too (same dict object, stored by reference, updated in place by `user`) *)
Theorem data_stream_shares_dict : forall sites inits guarded byref ops s,
  check_wiring sites inits guarded byref ops = true ->
  In s sites -> is_server_site s = true ->
  teqb (s_name s) (txt "Server.dispatcher") = false ->
  teqb (s_name s) (txt "Server.user") = false ->
  s_tag s = 1 /\ teqb (s_expr s) (txt CONTROL_DICT) = true /\ byref = true.
Proof.
  intros sites inits guarded byref ops s H Hin Hsrv Hd Hu.
  apply check_wiring_spec in H. destruct H as (_ & Hb & _ & _ & Hdata & _).
  unfold data_sites_ok in Hdata. apply andb_true_iff in Hdata. destruct Hdata as [Hall _].
  rewrite forallb_forall in Hall. specialize (Hall s Hin).
  rewrite Hsrv, Hd, Hu in Hall. cbn [orb] in Hall.
  apply andb_true_iff in Hall. destruct Hall as [Ht He].
  apply Z.eqb_eq in Ht. repeat split; assumption.
Qed.

(* the four objects of a logged-in session's dict are pairwise distinct, so the model's `wired`
   hypothesis (NoDup ids per actor) is what the source establishes *)
Theorem session_objects_distinct : forall sites inits guarded byref ops,
  check_wiring sites inits guarded byref ops = true ->
  exists d u, find_site "Server.dispatcher" sites = Some d /\ find_site "Server.user" sites = Some u /\
              sources_distinct (s_entries d ++ s_entries u) = true.
Proof.
  intros sites inits guarded byref ops H.
  apply check_wiring_spec in H. destruct H as (_ & _ & _ & _ & _ & _ & Hc & _).
  unfold combined_dict_ok in Hc.
  destruct (find_site "Server.dispatcher" sites) as [d|]; [|discriminate].
  destruct (find_site "Server.user" sites) as [u|]; [|discriminate].
  exists d, u. repeat split. exact Hc.
Qed.

(* ------------------------------------------------------------------------------------------
   Part 2: Server.throttle_per_user over a HISTORY of sessions.

   Server.user():   if connection.user not in self.throttle_per_user:
                        self.throttle_per_user[connection.user] = StreamThrottle.from_limits(..)
                    connection.command_connection.throttles.update(
                        user_global=self.throttle_per_user[connection.user], ...)
   and nothing ever removes an entry (translator fact per_user_never_removed; any other use of the
   attribute makes the translator fail closed).  `pop` = "the entry of the user is dropped when one
   of its connections closes" is the parameter that fact instantiates with false.

   users, connections and objects are naturals; an object id is its creation index. *)
Close Scope Z_scope.

Inductive hev :=
| Login (c u : nat)     (* connection c completes a login as user u (a re-login replaces its entry) *)
| Logout (c : nat).     (* connection c closes *)

Record reg := mkR {
  r_map : list (nat * nat);              (* throttle_per_user: user -> object *)
  r_next : nat;                          (* next fresh object *)
  r_sess : list (nat * (nat * nat)) }.   (* live logged-in connections: c -> (user, object under "user_global") *)

Definition lookup {B} (k : nat) (l : list (nat * B)) : option B :=
  match find (fun p => Nat.eqb (fst p) k) l with Some p => Some (snd p) | None => None end.

Definition drop {B} (k : nat) (l : list (nat * B)) : list (nat * B) :=
  filter (fun p => negb (Nat.eqb (fst p) k)) l.

Definition reg0 : reg := mkR [] 0 [].

Definition hstep (pop : bool) (r : reg) (e : hev) : reg :=
  match e with
  | Login c u =>
      match lookup u (r_map r) with
      | Some o => mkR (r_map r) (r_next r) ((c, (u, o)) :: drop c (r_sess r))
      | None => mkR ((u, r_next r) :: r_map r) (S (r_next r))
                    ((c, (u, r_next r)) :: drop c (r_sess r))
      end
  | Logout c =>
      match lookup c (r_sess r) with
      | Some (u, _) => mkR (if pop then drop u (r_map r) else r_map r) (r_next r) (drop c (r_sess r))
      | None => r
      end
  end.

Definition hrun (pop : bool) (h : list hev) : reg := fold_left (hstep pop) h reg0.

Record RInv (r : reg) : Prop := mkRInv {
  ri_sess : forall c u o, In (c, (u, o)) (r_sess r) -> lookup u (r_map r) = Some o;
  ri_lt : forall u o, lookup u (r_map r) = Some o -> o < r_next r;
  ri_inj : forall u1 u2 o, lookup u1 (r_map r) = Some o -> lookup u2 (r_map r) = Some o -> u1 = u2 }.

Lemma lookup_cons : forall B k k' (v : B) l,
  lookup k ((k', v) :: l) = if Nat.eqb k' k then Some v else lookup k l.
Proof. intros. unfold lookup. cbn [find fst snd]. destruct (Nat.eqb k' k); reflexivity. Qed.

Lemma In_drop : forall B k (l : list (nat * B)) p, In p (drop k l) -> In p l.
Proof. intros B k l p H. unfold drop in H. apply filter_In in H. tauto. Qed.

Lemma RInv_step : forall r e, RInv r -> RInv (hstep false r e).
Proof.
  intros r [c u|c] [Is Il Ii]; cbn [hstep].
  - destruct (lookup u (r_map r)) as [o|] eqn:Hu.
    + constructor; cbn [r_map r_next r_sess]; try assumption.
      intros c' u' o' [H|H]; [inversion H; subst; exact Hu|].
      apply In_drop in H. eapply Is. exact H.
    + constructor; cbn [r_map r_next r_sess].
      * intros c' u' o' [H|H].
        -- inversion H; subst. rewrite lookup_cons, Nat.eqb_refl. reflexivity.
        -- apply In_drop in H. pose proof (Is _ _ _ H) as Hl. rewrite lookup_cons.
           destruct (Nat.eqb u u') eqn:E; [|exact Hl].
           apply Nat.eqb_eq in E. subst u'. congruence.
      * intros u' o' H. rewrite lookup_cons in H. destruct (Nat.eqb u u').
        -- inversion H; subst. apply Nat.lt_succ_diag_r.
        -- apply Nat.lt_lt_succ_r. eapply Il. exact H.
      * intros u1 u2 o' H1 H2. rewrite lookup_cons in H1, H2.
        destruct (Nat.eqb u u1) eqn:E1, (Nat.eqb u u2) eqn:E2.
        -- apply Nat.eqb_eq in E1, E2. congruence.
        -- inversion H1; subst. apply Il in H2. exfalso. exact (Nat.lt_irrefl _ H2).
        -- inversion H2; subst. apply Il in H1. exfalso. exact (Nat.lt_irrefl _ H1).
        -- eapply Ii; eassumption.
  - destruct (lookup c (r_sess r)) as [[u o]|]; [|constructor; assumption].
    constructor; cbn [r_map r_next r_sess]; try assumption.
    intros c' u' o' H. apply In_drop in H. eapply Is. exact H.
Qed.

Lemma RInv_run : forall h r, RInv r -> RInv (fold_left (hstep false) h r).
Proof.
  induction h as [|e h IH]; intros r I; cbn [fold_left]; [exact I|].
  apply IH. apply RInv_step. exact I.
Qed.

Lemma RInv_0 : RInv reg0.
Proof. constructor; cbn; intros; try contradiction; discriminate. Qed.

(* after ANY history of logins (incl. re-logins) and disconnects, two live sessions hold the same
   per-user object iff they are logged in as the same user: a per-user limit is shared by exactly
   that user's sessions (and so bounds their sum, C15_sys_shared_bound) *)
Theorem per_user_shared_over_histories : forall h c1 u1 o1 c2 u2 o2,
  In (c1, (u1, o1)) (r_sess (hrun false h)) ->
  In (c2, (u2, o2)) (r_sess (hrun false h)) ->
  (u1 = u2 <-> o1 = o2).
Proof.
  intros h c1 u1 o1 c2 u2 o2 H1 H2.
  destruct (RInv_run h reg0 RInv_0) as [Is Il Ii]. fold (hrun false h) in *.
  pose proof (Is _ _ _ H1) as L1. pose proof (Is _ _ _ H2) as L2. split; intros E.
  - subst u2. congruence.
  - subst o2. eapply Ii; eassumption.
Qed.

(* what goes wrong if entries are dropped at disconnect: c1 stays, c2 comes and goes, c3 logs in *)
Definition pop_history : list hev := [Login 1 0; Login 2 0; Logout 2; Login 3 0].

Theorem per_user_pop_refuted :
  exists o1 o3, In (1, (0, o1)) (r_sess (hrun true pop_history)) /\
                In (3, (0, o3)) (r_sess (hrun true pop_history)) /\ o1 <> o3.
Proof. exists 0, 1. vm_compute. repeat split; auto. discriminate. Qed.

(* non-vacuity: the same history without the drop; both sessions hold object 0 *)
Example per_user_history_example :
  r_sess (hrun false pop_history) = [(3, (0, 0)); (1, (0, 0))].
Proof. reflexivity. Qed.
