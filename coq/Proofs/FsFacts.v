(* Basic facts about the node tree shared by MemFS and PosixFS (Model/FsBase.v):
   name equality, association lists, lookup/upd, the unique-names invariant `wf`. *)
From Coq Require Import ZArith List Bool Lia.
From Verif Require Import Lib.Sx Model.FsBase.
Import ListNotations.
Open Scope Z_scope.

(* ---- names and paths ---- *)
Lemma name_eqb_eq a b : name_eqb a b = true <-> a = b.
Proof.
  revert b. induction a as [|x a IH]; intros [|y b]; cbn; try (split; [discriminate|discriminate]); [tauto|].
  rewrite andb_true_iff, Z.eqb_eq, IH. split; [intros [-> ->]; reflexivity|intros H; inversion H; auto].
Qed.

Lemma name_eqb_refl a : name_eqb a a = true.
Proof. apply name_eqb_eq; reflexivity. Qed.

Lemma name_eqb_neq a b : name_eqb a b = false <-> a <> b.
Proof.
  split.
  - intros H E. apply name_eqb_eq in E. congruence.
  - intro H. destruct (name_eqb a b) eqn:E; [apply name_eqb_eq in E; contradiction|reflexivity].
Qed.

Lemma path_eqb_eq a b : path_eqb a b = true <-> a = b.
Proof.
  revert b. induction a as [|x a IH]; intros [|y b]; cbn; try (split; [discriminate|discriminate]); [tauto|].
  rewrite andb_true_iff, name_eqb_eq, IH. split; [intros [-> ->]; reflexivity|intros H; inversion H; auto].
Qed.

Lemma path_eqb_refl a : path_eqb a a = true.
Proof. apply path_eqb_eq; reflexivity. Qed.

Lemma is_prefix_spec a b : is_prefix a b = true <-> exists c, b = a ++ c.
Proof.
  revert b. induction a as [|x a IH]; intros b; cbn.
  - split; [intros _; exists b; reflexivity|reflexivity].
  - destruct b as [|y b].
    + split; [discriminate|intros [c H]; discriminate].
    + rewrite andb_true_iff, name_eqb_eq, IH. split.
      * intros [-> [c ->]]. exists c. reflexivity.
      * intros [c H]. inversion H. split; [reflexivity|exists c; reflexivity].
Qed.

Lemma unsnoc_none p : unsnoc p = None <-> p = [].
Proof.
  destruct p as [|y r]; cbn; [tauto|]. destruct (unsnoc r) as [[? ?]|]; split; discriminate.
Qed.

Lemma unsnoc_snoc pp x : unsnoc (pp ++ [x]) = Some (pp, x).
Proof.
  induction pp as [|y pp IH]; cbn; [reflexivity|]. rewrite IH. reflexivity.
Qed.

Lemma unsnoc_spec p pp x : unsnoc p = Some (pp, x) <-> p = pp ++ [x].
Proof.
  split; [|intros ->; apply unsnoc_snoc].
  revert pp. induction p as [|y r IH]; intros pp; cbn; [discriminate|].
  destruct (unsnoc r) as [[q l]|] eqn:E.
  - intros H. inversion H; subst. cbn. f_equal. apply IH. reflexivity.
  - apply unsnoc_none in E. subst. intros H. inversion H. reflexivity.
Qed.

(* ---- association lists ---- *)
Lemma assoc_none_notin x es : assoc x es = None <-> ~ In x (map fst es).
Proof.
  induction es as [|[n c] r IH]; cbn; [tauto|].
  destruct (name_eqb n x) eqn:E.
  - apply name_eqb_eq in E. subst. split; [discriminate|intro H; exfalso; apply H; left; reflexivity].
  - apply name_eqb_neq in E. rewrite IH. tauto.
Qed.

Lemma assoc_in x es c : assoc x es = Some c -> In (x, c) es.
Proof.
  induction es as [|[n c0] r IH]; cbn; [discriminate|].
  destruct (name_eqb n x) eqn:E.
  - apply name_eqb_eq in E. subst. intros H; inversion H. left; reflexivity.
  - intro H. right. apply IH, H.
Qed.

Lemma assoc_app_none x es c : assoc x es = None -> assoc x (es ++ [(x, c)]) = Some c.
Proof.
  induction es as [|[n c0] r IH]; cbn.
  - rewrite name_eqb_refl. reflexivity.
  - destruct (name_eqb n x); [discriminate|exact IH].
Qed.

Lemma assoc_app_other x y es c : name_eqb y x = false -> assoc x (es ++ [(y, c)]) = assoc x es.
Proof.
  intro N. induction es as [|[n c0] r IH]; cbn.
  - rewrite N. reflexivity.
  - destruct (name_eqb n x); [reflexivity|exact IH].
Qed.

Lemma assoc_set_same x c es : assoc x es <> None -> assoc x (set_assoc x c es) = Some c.
Proof.
  induction es as [|[n c0] r IH]; cbn; [congruence|].
  destruct (name_eqb n x) eqn:E; cbn; rewrite E; [reflexivity|exact IH].
Qed.

Lemma assoc_set_other x y c es : name_eqb y x = false -> assoc x (set_assoc y c es) = assoc x es.
Proof.
  intro N. induction es as [|[n c0] r IH]; cbn; [reflexivity|].
  destruct (name_eqb n y) eqn:E; cbn.
  - apply name_eqb_eq in E. subst. rewrite N. reflexivity.
  - destruct (name_eqb n x); [reflexivity|exact IH].
Qed.

Lemma set_assoc_same x c es : assoc x es = Some c -> set_assoc x c es = es.
Proof.
  induction es as [|[n c0] r IH]; cbn; [reflexivity|].
  destruct (name_eqb n x); [intros H; inversion H; reflexivity|intros H; rewrite IH by exact H; reflexivity].
Qed.

Lemma set_assoc_twice x c c' es : set_assoc x c' (set_assoc x c es) = set_assoc x c' es.
Proof.
  induction es as [|[n c0] r IH]; cbn; [reflexivity|].
  destruct (name_eqb n x) eqn:E; cbn; rewrite E; [reflexivity|rewrite IH; reflexivity].
Qed.

Lemma set_assoc_app_none x c c0 es : assoc x es = None -> set_assoc x c (es ++ [(x, c0)]) = es ++ [(x, c)].
Proof.
  induction es as [|[n c1] r IH]; cbn.
  - rewrite name_eqb_refl. reflexivity.
  - destruct (name_eqb n x); [discriminate|intros H; rewrite IH by exact H; reflexivity].
Qed.

Lemma set_assoc_names x c es : map fst (set_assoc x c es) = map fst es.
Proof.
  induction es as [|[n c0] r IH]; cbn; [reflexivity|].
  destruct (name_eqb n x); cbn; [reflexivity|rewrite IH; reflexivity].
Qed.

Lemma set_assoc_in x c es e : In e (set_assoc x c es) -> In e es \/ e = (fst e, c).
Proof.
  induction es as [|[n c0] r IH]; cbn; [tauto|].
  destruct (name_eqb n x); cbn.
  - intros [<-|H]; [right; reflexivity|left; right; exact H].
  - intros [<-|H]; [left; left; reflexivity|destruct (IH H); [left; right; assumption|right; assumption]].
Qed.

Lemma remove_first_in x es e : In e (remove_first x es) -> In e es.
Proof.
  induction es as [|[n c0] r IH]; cbn; [tauto|].
  destruct (name_eqb n x); cbn; [tauto|]. intros [<-|H]; [left; reflexivity|right; apply IH, H].
Qed.

Lemma remove_first_nodup x es : NoDup (map fst es) -> NoDup (map fst (remove_first x es)).
Proof.
  induction es as [|[n c0] r IH]; cbn; [tauto|]. intro H. inversion H as [|? ? Hn Hr]; subst.
  destruct (name_eqb n x); cbn; [exact Hr|]. constructor; [|apply IH, Hr].
  intro Hin. apply Hn. apply in_map_iff in Hin as [e [He Hi]]. apply in_map_iff. exists e. split; [exact He|].
  eapply remove_first_in, Hi.
Qed.

(* ---- lookup / upd ---- *)
Lemma lookup_app p q t : lookup (p ++ q) t = match lookup p t with Some n => lookup q n | None => None end.
Proof.
  revert t. induction p as [|x p IH]; intro t; cbn; [reflexivity|].
  destruct t as [d|es]; [reflexivity|]. destruct (assoc x es); [apply IH|reflexivity].
Qed.

Lemma lookup_snoc pp x t :
  lookup (pp ++ [x]) t = match lookup pp t with Some (Dir es) => assoc x es | _ => None end.
Proof.
  rewrite lookup_app. destruct (lookup pp t) as [[d|es]|]; cbn; [reflexivity| |reflexivity].
  destruct (assoc x es); reflexivity.
Qed.

Lemma lookup_upd_same p f t n : lookup p t = Some n -> lookup p (upd p f t) = Some (f n).
Proof.
  revert t. induction p as [|x p IH]; intro t; cbn; [intros H; inversion H; reflexivity|].
  destruct t as [d|es]; [discriminate|]. destruct (assoc x es) as [c|] eqn:E; [|discriminate].
  intro H. cbn. rewrite assoc_set_same by congruence. apply IH, H.
Qed.

Lemma upd_none p f t : lookup p t = None -> upd p f t = t.
Proof.
  revert t. induction p as [|x p IH]; intro t; cbn; [discriminate|].
  destruct t as [d|es]; [reflexivity|]. destruct (assoc x es) as [c|] eqn:E; [|reflexivity].
  intro H. rewrite IH by exact H. rewrite set_assoc_same by exact E. reflexivity.
Qed.

Lemma upd_id p f t n : lookup p t = Some n -> f n = n -> upd p f t = t.
Proof.
  revert t. induction p as [|x p IH]; intro t; cbn; [intros H; inversion H; subst; tauto|].
  destruct t as [d|es]; [reflexivity|]. destruct (assoc x es) as [c|] eqn:E; [|reflexivity].
  intros H F. rewrite (IH c H F). rewrite set_assoc_same by exact E. reflexivity.
Qed.

Lemma upd_upd p f g t : upd p g (upd p f t) = upd p (fun n => g (f n)) t.
Proof.
  revert t. induction p as [|x p IH]; intro t; cbn; [reflexivity|].
  destruct t as [d|es]; [reflexivity|]. destruct (assoc x es) as [c|] eqn:E; cbn; [|rewrite E; reflexivity].
  rewrite assoc_set_same by congruence. rewrite IH, set_assoc_twice. reflexivity.
Qed.

(* ---- unique names ---- *)
Fixpoint wf (t : node) : Prop :=
  match t with
  | File _ => True
  | Dir es =>
      NoDup (map fst es) /\
      (fix all (es : entries) : Prop :=
         match es with
         | [] => True
         | (_, c) :: r => wf c /\ all r
         end) es
  end.

Lemma wf_dir es : wf (Dir es) <-> NoDup (map fst es) /\ Forall (fun e => wf (snd e)) es.
Proof.
  cbn [wf]. apply and_iff_compat_l.
  induction es as [|[n c] r IH]; [split; [constructor|trivial]|].
  split.
  - intros [Hc Hr]. constructor; [exact Hc|apply IH, Hr].
  - intro H. inversion H; subst. split; [assumption|apply IH; assumption].
Qed.

Lemma wf_child x es c : wf (Dir es) -> assoc x es = Some c -> wf c.
Proof.
  intros H E. apply wf_dir in H as [_ F]. rewrite Forall_forall in F. apply (F (x, c)), assoc_in, E.
Qed.

Lemma wf_lookup p t n : wf t -> lookup p t = Some n -> wf n.
Proof.
  revert t. induction p as [|x p IH]; intro t; cbn; [intros H E; inversion E; subst; exact H|].
  destruct t as [d|es]; [discriminate|]. destruct (assoc x es) as [c|] eqn:E; [|discriminate].
  intros H L. eapply IH; [eapply wf_child; eassumption|exact L].
Qed.

Lemma wf_set_assoc x c es : wf (Dir es) -> wf c -> wf (Dir (set_assoc x c es)).
Proof.
  intros H Hc. apply wf_dir in H as [N F]. apply wf_dir. rewrite set_assoc_names. split; [exact N|].
  rewrite Forall_forall in *. intros e He. destruct (set_assoc_in _ _ _ _ He) as [Hi|Heq]; [apply F, Hi|].
  rewrite Heq. exact Hc.
Qed.

Lemma nodup_snoc (l : list name) x : NoDup l -> ~ In x l -> NoDup (l ++ [x]).
Proof.
  induction l as [|y l IH]; cbn; intros H N.
  - constructor; [tauto|constructor].
  - inversion H as [|? ? Hy Hl]; subst. constructor.
    + intro Hin. apply in_app_or in Hin as [Hi|[<-|[]]]; [contradiction|apply N; left; reflexivity].
    + apply IH; [exact Hl|intro Hi; apply N; right; exact Hi].
Qed.

Lemma wf_append x c es : wf (Dir es) -> assoc x es = None -> wf c -> wf (Dir (es ++ [(x, c)])).
Proof.
  intros H E Hc. apply wf_dir in H as [N F]. apply wf_dir. split.
  - rewrite map_app. cbn. apply nodup_snoc; [exact N|apply assoc_none_notin, E].
  - apply Forall_app. split; [exact F|constructor; [exact Hc|constructor]].
Qed.

Lemma wf_remove_first x es : wf (Dir es) -> wf (Dir (remove_first x es)).
Proof.
  intro H. apply wf_dir in H as [N F]. apply wf_dir. split; [apply remove_first_nodup, N|].
  rewrite Forall_forall in *. intros e He. apply F. eapply remove_first_in, He.
Qed.

Lemma wf_put x c es : wf (Dir es) -> wf c -> wf (Dir (put x c es)).
Proof.
  intros H Hc. unfold put. destruct (assoc x es) eqn:E; [apply wf_set_assoc|apply wf_append]; assumption.
Qed.

(* the function only has to preserve wf for the node it is applied to *)
Lemma wf_upd p f t : wf t -> (forall n, lookup p t = Some n -> wf n -> wf (f n)) -> wf (upd p f t).
Proof.
  revert t. induction p as [|x p IH]; intro t; cbn; [intros H F; apply F; [reflexivity|exact H]|].
  destruct t as [d|es]; [tauto|]. destruct (assoc x es) as [c|] eqn:E; [|tauto].
  intros H F. apply wf_set_assoc; [exact H|]. apply IH; [eapply wf_child; eassumption|exact F].
Qed.
