(* C03: nothing is served before a completed login — proofs over Model/Session.v for ANY
   dispatch table that passes the (computable) login-guard check. *)
From Coq Require Import ZArith List Bool String Lia.
From Verif Require Import Lib.Sx Lib.PyStr Lib.Facts Model.Session.
Import ListNotations.
Open Scope list_scope.
Open Scope Z_scope.

Local Notation tbl := (list (string * (string * list deco * option string))).

(* ---- the checker (evaluated on the table regenerated from server.py) ---- *)
Definition guarded (ds : list deco) : bool :=
  match ds with
  | DConn fields false _ :: _ => mem_s "logged" fields
  | _ => false
  end.

Definition no_path_decos (ds : list deco) : bool :=
  forallb (fun d => match d with DPathCond _ | DPathPerm _ => false | _ => true end) ds.

Definition login_names : list string := ["user"; "pass_"]%string.
Definition harmless_names : list string := ["quit"; "rest"; "syst"]%string.

(* a handler name is safe before login when ... *)
Definition name_ok (t : tbl) (h : string) : bool :=
  match handler_of t h with
  | None => true                                    (* not in the table: the dispatcher never calls it *)
  | Some (ds, dl) =>
      mem_s h login_names
      || guarded ds
      || (mem_s h harmless_names && no_path_decos ds)
      || (no_path_decos ds &&
          ((String.eqb h "appe" && match handler_of t "stor" with Some (g, _) => guarded g | None => false end)
           || (String.eqb h "cdup" && match handler_of t "cwd" with Some (g, _) => guarded g | None => false end)))
  end.

Definition check_login_guard (t : tbl) : bool :=
  forallb (fun e => let '(_, (h, _, _)) := e in name_ok t h) t.

(* ---- what "not touched" means ---- *)
Definition same_core (w w' : world) : Prop :=
  w_fs w' = w_fs w /\ w_log w' = w_log w /\
  s_cwd (w_s w') = s_cwd (w_s w) /\ s_passive (w_s w') = s_passive (w_s w) /\
  s_data (w_s w') = s_data (w_s w) /\ s_logged (w_s w') = s_logged (w_s w) /\
  s_user (w_s w') = s_user (w_s w).

Lemma same_core_refl w : same_core w w.
Proof. repeat split. Qed.

Lemma same_core_trans a b c : same_core a b -> same_core b c -> same_core a c.
Proof. unfold same_core. intuition congruence. Qed.

Lemma same_core_set_rest w z : same_core w (set_sess w (set_rest (w_s w) z)).
Proof. repeat split. Qed.

Lemma same_core_end w : same_core w (set_sess w (end_sess (w_s w))).
Proof. repeat split. Qed.

Definition res_world (r : result) : world := fst (fst r).

Section WithTable.
  Variable users : list user.
  Variable t : tbl.

  (* a guarded stack answers at once when the session is not logged in *)
  Lemma guarded_refuses ds arg w body :
    guarded ds = true -> s_logged (w_s w) = false ->
    exists fc, run_decos users ds arg w body = (w, mk_out [t_of fc], true).
  Proof.
    intros G Hl. destruct ds as [|d ds]; [discriminate|].
    destruct d as [fields wait fc| | | |]; try discriminate.
    destruct wait; [discriminate|]. cbn [guarded] in G.
    exists fc. cbn [run_decos].
    destruct (find (fun f => negb (has_field (w_s w) f)) fields) eqn:F; [reflexivity|].
    exfalso. unfold mem_s in G. apply existsb_exists in G as [x [Hin Hx]].
    apply String.eqb_eq in Hx. subst x.
    pose proof (find_none _ _ F _ Hin) as N. cbn in N.
    unfold has_field in N. cbn in N. rewrite Hl in N. discriminate.
  Qed.

  (* without path decorators the stack either refuses (world untouched) or runs the body on the SAME world *)
  Lemma no_path_run ds arg w body :
    no_path_decos ds = true ->
    run_decos users ds arg w body = body w \/
    exists c, run_decos users ds arg w body = (w, mk_out c, true).
  Proof.
    induction ds as [|d ds IH]; intro N; cbn [run_decos]; [left; reflexivity|].
    cbn [no_path_decos forallb] in N. apply andb_true_iff in N as [Nd Nr].
    destruct d as [fields wait fc| | | |]; try discriminate; try (apply IH; exact Nr).
    destruct (find (fun f => negb (has_field (w_s w) f)) fields); [right; eexists; reflexivity|].
    apply IH; exact Nr.
  Qed.

  Lemma handler_unfold f h arg d appe w :
    handler users t (S f) h arg d appe w =
    match handler_of t h with
    | None => (w, mk_out [], true)
    | Some (ds, _) => run_decos users ds arg w (body users (handler users t f) h arg d appe)
    end.
  Proof. reflexivity. Qed.

  (* a guarded handler leaves an un-logged-in world untouched, whatever its body *)
  Lemma guarded_handler f h g dl arg d appe w :
    handler_of t h = Some (g, dl) -> guarded g = true -> s_logged (w_s w) = false ->
    exists o, handler users t (S f) h arg d appe w = (w, o, true).
  Proof.
    intros Hh G Hl. rewrite handler_unfold, Hh.
    destruct (guarded_refuses g arg w (body users (handler users t f) h arg d appe) G Hl) as [fc ->].
    eexists; reflexivity.
  Qed.

  (* bodies of the three verbs that may run before login *)
  Lemma harmless_body self h arg d appe w :
    In h harmless_names ->
    same_core w (res_world (body users self h arg d appe w)).
  Proof.
    intros [<-|[<-|[<-|[]]]]; cbn [body String.eqb Ascii.eqb Bool.eqb]; unfold res_world.
    - cbn. apply same_core_refl.
    - cbn. destruct (str_isascii arg && str_isdigit arg && _).
      + destruct (int_of_digits arg); cbn; repeat split.
      + cbn. repeat split.
    - cbn. apply same_core_refl.
  Qed.

  Theorem handler_no_touch f h arg d appe w :
    name_ok t h = true -> ~ In h login_names ->
    s_logged (w_s w) = false ->
    same_core w (res_world (handler users t (S (S f)) h arg d appe w)).
  Proof.
    intros OK NL Hl. unfold name_ok in OK.
    destruct (handler_of t h) as [[ds dl]|] eqn:Hh.
    2:{ rewrite handler_unfold, Hh. apply same_core_refl. }
    apply orb_true_iff in OK as [OK|OK].
    2:{ (* delegation *)
        apply andb_true_iff in OK as [NP OK].
        rewrite handler_unfold, Hh.
        destruct (no_path_run ds arg w (body users (handler users t (S f)) h arg d appe) NP) as [->|[c ->]];
          [|apply same_core_refl].
        apply orb_true_iff in OK as [OK|OK]; apply andb_true_iff in OK as [En G];
          apply String.eqb_eq in En; subst h.
        - destruct (handler_of t "stor") as [[g gl]|] eqn:Hs; [|discriminate].
          cbn [body String.eqb Ascii.eqb Bool.eqb].
          destruct (guarded_handler f "stor" g gl arg d true w Hs G Hl) as [o ->]. apply same_core_refl.
        - destruct (handler_of t "cwd") as [[g gl]|] eqn:Hs; [|discriminate].
          cbn [body String.eqb Ascii.eqb Bool.eqb].
          destruct (guarded_handler f "cwd" g gl (path_str (removelast (s_cwd (w_s w)))) d false w Hs G Hl) as [o ->].
          apply same_core_refl. }
    apply orb_true_iff in OK as [OK|OK].
    2:{ apply andb_true_iff in OK as [Hn NP]. rewrite handler_unfold, Hh.
        destruct (no_path_run ds arg w (body users (handler users t (S f)) h arg d appe) NP) as [->|[c ->]];
          [|apply same_core_refl].
        apply harmless_body. unfold mem_s in Hn. apply existsb_exists in Hn as [x [Hin Hx]].
        apply String.eqb_eq in Hx. subst x. exact Hin. }
    apply orb_true_iff in OK as [OK|OK].
    - exfalso. apply NL. unfold mem_s in OK. apply existsb_exists in OK as [x [Hin Hx]].
      apply String.eqb_eq in Hx. subst x. exact Hin.
    - destruct (guarded_handler (S f) h ds dl arg d appe w Hh OK Hl) as [o ->]. apply same_core_refl.
  Qed.

  Lemma verb_handler_in v h :
    verb_handler t v = Some h -> exists vb ds dl, In (vb, (h, ds, dl)) t.
  Proof.
    unfold verb_handler. destruct (find _ t) as [[vb [[h' ds] dl]]|] eqn:F; [|discriminate].
    intro E. inversion E; subst. apply find_some in F as [Hin _]. eauto.
  Qed.

  (* C03: no command other than USER / PASS touches the backend, the working directory, the passive
     listener or the data connection — nor the login state — while the session is not logged in *)
  Theorem no_touch_before_login w e :
    check_login_guard t = true ->
    s_logged (w_s w) = false ->
    text_eqb (e_verb e) V_DATACONN = false ->
    (forall h, verb_handler t (e_verb e) = Some h -> ~ In h login_names) ->
    same_core w (fst (step users t w e)).
  Proof.
    intros CK Hl ND NL. unfold step.
    destruct (s_ended (w_s w)); [apply same_core_refl|]. rewrite ND.
    destruct (verb_handler t (e_verb e)) as [h|] eqn:V; [|apply same_core_refl].
    specialize (NL h eq_refl).
    destruct (verb_handler_in _ _ V) as [vb [ds [dl Hin]]].
    unfold check_login_guard in CK. rewrite forallb_forall in CK. specialize (CK _ Hin). cbn in CK.
    set (w0 := if is_transfer (e_verb e) then w else set_sess w (set_rest (w_s w) 0)).
    assert (S0 : same_core w w0) by (unfold w0; destruct (is_transfer (e_verb e)); [apply same_core_refl|apply same_core_set_rest]).
    assert (Hl0 : s_logged (w_s w0) = false) by (destruct S0 as (_ & _ & _ & _ & _ & E & _); congruence).
    pose proof (handler_no_touch 1 h (e_arg e) (e_data e) false w0 CK NL Hl0) as H.
    destruct (handler users t 3 h (e_arg e) (e_data e) false w0) as [[w1 o] keep] eqn:R.
    unfold res_world in H. cbn [fst] in H |- *.
    eapply same_core_trans; [exact S0|]. eapply same_core_trans; [exact H|].
    assert (S1 : same_core w1 (if is_transfer (e_verb e) then set_sess w1 (set_rest (w_s w1) 0) else w1))
      by (destruct (is_transfer (e_verb e)); [apply same_core_set_rest|apply same_core_refl]).
    eapply same_core_trans; [exact S1|].
    destruct keep; [apply same_core_refl|apply same_core_end].
  Qed.

  (* and every guarded verb is answered with its guard's fail code (503) *)
  Theorem guarded_verb_refused w e h ds dl :
    s_ended (w_s w) = false -> s_logged (w_s w) = false ->
    text_eqb (e_verb e) V_DATACONN = false ->
    verb_handler t (e_verb e) = Some h -> handler_of t h = Some (ds, dl) -> guarded ds = true ->
    exists fc, o_codes (snd (step users t w e)) = [t_of fc].
  Proof.
    intros NE Hl ND V Hh G. unfold step. rewrite NE, ND, V.
    set (w0 := if is_transfer (e_verb e) then w else set_sess w (set_rest (w_s w) 0)).
    assert (Hl0 : s_logged (w_s w0) = false) by (unfold w0; destruct (is_transfer (e_verb e)); exact Hl).
    rewrite (handler_unfold 2 h), Hh.
    destruct (guarded_refuses ds (e_arg e) w0 (body users (handler users t 2) h (e_arg e) (e_data e) false) G Hl0) as [fc ->].
    exists fc. reflexivity.
  Qed.
End WithTable.
