(* Facts about Lib/PosixPath.v: well-formedness of every constructor, parse/str round trip. *)
From Coq Require Import ZArith List Bool Lia.
From Verif Require Import Lib.Sx Lib.PyStr Lib.PosixPath Proofs.PyStrFacts.
Import ListNotations.
Open Scope Z_scope.

Definition nosep (c : Z) (x : text) : Prop := forallb (fun y => negb (y =? c)) x = true.

(* a path component as pathlib keeps it: non-empty, not '.', without '/' *)
Definition seg_ok (x : text) : Prop := x <> [] /\ x <> dot /\ nosep SLASH x.

Definition wf (p : ppath) : Prop :=
  (anchor p = 0 \/ anchor p = 1 \/ anchor p = 2) /\ Forall seg_ok (parts p).

(* ---- split_on / join ---- *)
Lemma split_on_nonempty c s : split_on c s <> [].
Proof.
  induction s as [|x s IH]; cbn; [discriminate|].
  destruct (x =? c); [discriminate|]. destruct (split_on c s); discriminate.
Qed.

Lemma split_on_nosep_all c s : Forall (nosep c) (split_on c s).
Proof.
  induction s as [|x s IH]; cbn.
  - constructor; [reflexivity|constructor].
  - destruct (x =? c) eqn:E.
    + constructor; [reflexivity|exact IH].
    + destruct (split_on c s) as [|h t]; [constructor; [|constructor]|].
      * unfold nosep. cbn. rewrite E. reflexivity.
      * inversion IH as [|? ? Hh Ht]; subst. constructor; [|exact Ht].
        unfold nosep in *. cbn. rewrite E, Hh. reflexivity.
Qed.

Lemma split_on_app c x r : nosep c x -> split_on c (x ++ c :: r) = x :: split_on c r.
Proof.
  unfold nosep. induction x as [|y x IH]; cbn; intro H.
  - rewrite Z.eqb_refl. reflexivity.
  - apply andb_true_iff in H as [Hy Hx]. apply negb_true_iff in Hy. rewrite Hy, (IH Hx). reflexivity.
Qed.

Lemma split_on_single c x : nosep c x -> split_on c x = [x].
Proof.
  unfold nosep. induction x as [|y x IH]; cbn; intro H; [reflexivity|].
  apply andb_true_iff in H as [Hy Hx]. apply negb_true_iff in Hy. rewrite Hy, (IH Hx). reflexivity.
Qed.

Lemma join_one (sep h : text) : join sep [h] = h.
Proof. cbn. apply app_nil_r. Qed.

Lemma join_cons c h h2 t : join [c] (h :: h2 :: t) = h ++ c :: join [c] (h2 :: t).
Proof. reflexivity. Qed.

Lemma split_on_join c l : Forall (nosep c) l -> l <> [] -> split_on c (join [c] l) = l.
Proof.
  induction l as [|h t IH]; intros H Hne; [congruence|].
  inversion H as [|? ? Hh Ht]; subst. destruct t as [|h2 t].
  - rewrite join_one. apply split_on_single; exact Hh.
  - rewrite join_cons, (split_on_app c h _ Hh), (IH Ht); [reflexivity|discriminate].
Qed.

(* ---- components ---- *)
Lemma keep_seg_true x : keep_seg x = true <-> x <> [] /\ x <> dot.
Proof.
  unfold keep_seg. rewrite andb_true_iff, !negb_true_iff. split; intros [H1 H2]; split.
  - intro E. apply text_eqb_eq in E. congruence.
  - intro E. apply text_eqb_eq in E. congruence.
  - destruct (text_eqb x []) eqn:E; [apply text_eqb_eq in E; contradiction|reflexivity].
  - destruct (text_eqb x dot) eqn:E; [apply text_eqb_eq in E; contradiction|reflexivity].
Qed.

Lemma keep_seg_false x : keep_seg x = false -> x = [] \/ x = dot.
Proof.
  unfold keep_seg. intro H. apply andb_false_iff in H as [H|H]; apply negb_false_iff, text_eqb_eq in H; auto.
Qed.

Lemma seg_ok_keep x : seg_ok x -> keep_seg x = true.
Proof. intros [H1 [H2 _]]. apply keep_seg_true. split; assumption. Qed.

Lemma filter_keep_all l : Forall seg_ok l -> filter keep_seg l = l.
Proof.
  induction 1 as [|x l Hx Hl IH]; cbn; [reflexivity|]. rewrite (seg_ok_keep x Hx), IH. reflexivity.
Qed.

Lemma segs_ok_of_split rel : Forall seg_ok (filter keep_seg (split_on SLASH rel)).
Proof.
  apply Forall_forall. intros x Hx. apply filter_In in Hx as [Hin Hk].
  apply keep_seg_true in Hk as [H1 H2]. split; [exact H1|split; [exact H2|]].
  pose proof (split_on_nosep_all SLASH rel) as A. rewrite Forall_forall in A. apply A. exact Hin.
Qed.

(* ---- parse ---- *)
Lemma splitroot_cases s :
  (splitroot s = (0, s) /\ match s with c :: _ => (c =? SLASH) = false | [] => True end)
  \/ (exists r, s = SLASH :: r /\ splitroot s = (1, r))
  \/ (exists r, s = SLASH :: SLASH :: r /\ splitroot s = (2, r)).
Proof.
  destruct s as [|c0 r1]; [left; split; [reflexivity|constructor]|].
  cbn [splitroot]. destruct (c0 =? SLASH) eqn:E0.
  - apply Z.eqb_eq in E0. subst c0. right.
    destruct r1 as [|c1 r2]; [left; eexists; split; reflexivity|].
    destruct (c1 =? SLASH) eqn:E1.
    + apply Z.eqb_eq in E1. subst c1.
      destruct r2 as [|c2 r3]; [right; eexists; split; reflexivity|].
      destruct (c2 =? SLASH) eqn:E2.
      * left. eexists; split; reflexivity.
      * right. eexists; split; reflexivity.
    + left. eexists; split; reflexivity.
  - left. split; reflexivity.
Qed.

Lemma parse_wf s : wf (parse s).
Proof.
  destruct s as [|c s]; [split; [left; reflexivity|constructor]|].
  unfold parse. destruct (splitroot_cases (c :: s)) as [[E _]|[[r [_ E]]|[r [_ E]]]]; rewrite E;
    (split; [cbn; auto|apply segs_ok_of_split]).
Qed.

Lemma seg_ok_head x : seg_ok x -> exists c r, x = c :: r /\ (c =? SLASH) = false.
Proof.
  intros [Hne [_ Hs]]. destruct x as [|c r]; [congruence|]. exists c, r. split; [reflexivity|].
  unfold nosep in Hs. cbn in Hs. apply andb_true_iff in Hs as [Hc _]. apply negb_true_iff in Hc. exact Hc.
Qed.

Lemma segs_nosep l : Forall seg_ok l -> Forall (nosep SLASH) l.
Proof. intro H. eapply Forall_impl; [|exact H]. intros x [_ [_ Hx]]. exact Hx. Qed.

Lemma join_head c r t : exists k, join [SLASH] ((c :: r) :: t) = c :: k.
Proof. eexists. cbn. reflexivity. Qed.

(* str() and the constructor are inverse on parsed paths *)
Lemma parse_to_str p : wf p -> parse (to_str p) = p.
Proof.
  destruct p as [a ps]. intros [Ha Hps]. cbn in Ha, Hps. unfold to_str. cbn [anchor parts].
  assert (Hsplit : ps <> [] -> filter keep_seg (split_on SLASH (join [SLASH] ps)) = ps).
  { intro Hne. rewrite split_on_join; [apply filter_keep_all; exact Hps|apply segs_nosep; exact Hps|exact Hne]. }
  destruct ps as [|h t].
  - destruct Ha as [->|[->| ->]]; reflexivity.
  - inversion Hps as [|? ? Hh Ht]; subst.
    destruct (seg_ok_head h Hh) as [c [r [-> Hc]]].
    destruct (join_head c r t) as [k Hk].
    specialize (Hsplit ltac:(discriminate)).
    destruct Ha as [->|[->| ->]].
    + change (parse (join [SLASH] ((c :: r) :: t)) = mkp 0 ((c :: r) :: t)).
      rewrite Hk. unfold parse. cbn [splitroot]. rewrite Hc. cbn [splitroot]. rewrite <- Hk. f_equal. exact Hsplit.
    + change (parse (SLASH :: join [SLASH] ((c :: r) :: t)) = mkp 1 ((c :: r) :: t)).
      rewrite Hk. unfold parse. cbn [splitroot]. rewrite Z.eqb_refl, Hc. cbn [splitroot]. rewrite <- Hk. f_equal. exact Hsplit.
    + change (parse (SLASH :: SLASH :: join [SLASH] ((c :: r) :: t)) = mkp 2 ((c :: r) :: t)).
      rewrite Hk. unfold parse. cbn [splitroot]. rewrite !Z.eqb_refl, Hc. cbn [splitroot]. rewrite <- Hk. f_equal. exact Hsplit.
Qed.

Lemma parse_seg x : seg_ok x -> parse x = mkp 0 [x].
Proof.
  intro H. rewrite <- (parse_to_str (mkp 0 [x])).
  - unfold to_str. cbn [anchor parts Z.eqb]. rewrite join_one. reflexivity.
  - split; [left; reflexivity|constructor; [exact H|constructor]].
Qed.

Lemma parse_root : parse [SLASH] = mkp 1 [].
Proof. reflexivity. Qed.

(* ---- constructors keep well-formedness ---- *)
Lemma joinp_wf a b : wf a -> wf b -> wf (joinp a b).
Proof.
  intros [Ha Hpa] [Hb Hpb]. unfold joinp. destruct (anchor b =? 0); [|split; assumption].
  split; [exact Ha|]. cbn. apply Forall_app. split; assumption.
Qed.

Lemma Forall_removelast {A} (P : A -> Prop) l : Forall P l -> Forall P (removelast l).
Proof.
  induction 1 as [|x l Hx Hl IH]; cbn; [constructor|]. destruct l; [constructor|].
  constructor; assumption.
Qed.

Lemma parent_wf p : wf p -> wf (parent p).
Proof.
  intros [Ha Hp]. unfold parent. destruct (parts p) as [|x l] eqn:E.
  - split; [exact Ha|rewrite E; constructor].
  - split; [exact Ha|]. cbn [parts]. apply Forall_removelast. exact Hp.
Qed.

(* ---- prefixes ---- *)
Lemma is_prefix_app a b : is_prefix a (a ++ b) = true.
Proof. induction a as [|x a IH]; cbn; [reflexivity|]. rewrite text_eqb_refl, IH. reflexivity. Qed.

Lemma is_prefix_iff a b : is_prefix a b = true <-> exists c, b = a ++ c.
Proof.
  revert b. induction a as [|x a IH]; intro b; cbn.
  - split; [intros _; exists b; reflexivity|reflexivity].
  - destruct b as [|y b]; [split; [discriminate|intros [c H]; discriminate]|].
    rewrite andb_true_iff, text_eqb_eq, IH. split.
    + intros [-> [c ->]]. exists c. reflexivity.
    + intros [c H]. inversion H; subst. split; [reflexivity|exists c; reflexivity].
Qed.

Lemma skipn_length_app {A} (a b : list A) : skipn (length a) (a ++ b) = b.
Proof. induction a as [|x a IH]; cbn; [reflexivity|exact IH]. Qed.

Lemma is_relative_to_spec p other :
  is_relative_to p other = true <-> anchor other = anchor p /\ exists c, parts p = parts other ++ c.
Proof. unfold is_relative_to. rewrite andb_true_iff, Z.eqb_eq, is_prefix_iff. reflexivity. Qed.

Lemma relative_to_some p other c :
  anchor other = anchor p -> parts p = parts other ++ c -> relative_to p other = Some (mkp 0 c).
Proof.
  intros Ha Hp. unfold relative_to.
  assert (H : is_relative_to p other = true) by (apply is_relative_to_spec; split; [exact Ha|exists c; exact Hp]).
  rewrite H, Hp, skipn_length_app. reflexivity.
Qed.
